(* C02 - proofs (see C02_Props.v for the property theorems). *)
From Coq Require Import String ZArith List Bool Lia ZifyBool.
From HD Require Import Base.Val C02_Model.
Import ListNotations.
Open Scope Z_scope.
Ltac Zify.zify_post_hook ::= Z.to_euclidean_division_equations.

Lemma forallb_app' {A} (f : A -> bool) l1 l2 : forallb f (l1 ++ l2) = forallb f l1 && forallb f l2.
Proof. induction l1; cbn [forallb app]; [reflexivity| rewrite IHl1, andb_assoc; reflexivity]. Qed.

(* the conjunction a description must satisfy *)
Definition omatch (q : option Z) (v : Z) : bool := match q with Some x => v =? x | None => true end.
Definition omatch_o (q : option Z) (v : option Z) : bool :=
  match q with Some x => oeq v x | None => true end.
Definition matches (q : query) (d : desc) : bool :=
  omatch (q_label q) (d_label d) && omatch (q_cat q) (d_cat d) && omatch (q_type q) (d_type d) &&
  omatch (q_alg q) (d_alg d) && omatch_o (q_tuid q) (d_tuid d) && omatch_o (q_tid q) (d_tid d).
Definition is_background (bg : option Z) (d : desc) : bool :=
  match bg with Some b => d_num d =? b | None => false end.

Lemma filter_funcs_spec q bg d :
  forallb (fun f => f d) (filter_funcs q bg) = matches q d && negb (is_background bg d).
Proof.
  unfold filter_funcs, matches, is_background, opt_filter, omatch, omatch_o.
  destruct q as [a b c e f g]; cbn [q_label q_cat q_type q_alg q_tuid q_tid].
  destruct a, b, c, e, f, g, bg; cbn [app forallb]; rewrite ?andb_true_r; cbn [andb negb];
    rewrite ?andb_true_r, ?andb_assoc; reflexivity.
Qed.

Lemma search_exact ds bg q :
  get_segment_numbers ds bg q = map d_num (filter (fun d => matches q d && negb (is_background bg d)) ds).
Proof.
  unfold get_segment_numbers. f_equal. apply filter_ext. intro d. apply filter_funcs_spec.
Qed.

(* tracking ids: as a set, exactly the pairs of the matching descriptions *)
Definition tmatches (q : query) (d : desc) : bool :=
  omatch (q_cat q) (d_cat d) && omatch (q_type q) (d_type d) && omatch (q_alg q) (d_alg d).
Lemma tracking_funcs_spec q d : forallb (fun f => f d) (tracking_funcs q) = tmatches q d.
Proof.
  unfold tracking_funcs, tmatches, opt_filter, omatch.
  destruct q as [a b c e f g]; cbn [q_cat q_type q_alg].
  destruct b, c, e; cbn [app forallb]; rewrite ?andb_true_r, ?andb_assoc; reflexivity.
Qed.

Lemma pair_mem_In p l : pair_mem p l = true <-> In p l.
Proof.
  unfold pair_mem. rewrite existsb_exists. split.
  - intros [x [Hx He]]. destruct x, p; cbn [fst snd] in He.
    assert (z = z1 /\ z0 = z2) as [-> ->] by lia. exact Hx.
  - intros H. exists p. split; [exact H|]. destruct p; cbn [fst snd]. lia.
Qed.

Lemma dedup_In p l : In p (dedup l) <-> In p l.
Proof.
  induction l as [|x l IH]; cbn [dedup]; [tauto|].
  destruct (pair_mem x l) eqn:E.
  - rewrite IH. cbn [In]. split; [tauto|]. intros [<-|H]; [apply pair_mem_In; exact E|exact H].
  - cbn [In]. rewrite IH. tauto.
Qed.

Lemma dedup_NoDup l : NoDup (dedup l).
Proof.
  induction l as [|x l IH]; cbn [dedup]; [constructor|].
  destruct (pair_mem x l) eqn:E; [exact IH|].
  constructor; [|exact IH]. rewrite dedup_In. intro H. apply pair_mem_In in H. congruence.
Qed.

Lemma tracking_exact ds q i u :
  In (i, u) (get_tracking_ids ds q) <->
  exists d, In d ds /\ d_tid d = Some i /\ d_tuid d = Some u /\ tmatches q d = true.
Proof.
  unfold get_tracking_ids. rewrite dedup_In. unfold tracking_pairs. rewrite in_flat_map.
  split.
  - intros [d [Hd Hin]]. exists d. split; [exact Hd|].
    destruct (d_tid d) as [i'|]; [|contradiction]. destruct (d_tuid d) as [u'|]; [|contradiction].
    rewrite tracking_funcs_spec in Hin. destruct (tmatches q d); [|contradiction].
    destruct Hin as [H|[]]. inversion H. subst. auto.
  - intros [d [Hd [Hi [Hu Hm]]]]. exists d. split; [exact Hd|].
    rewrite Hi, Hu, tracking_funcs_spec, Hm. left. reflexivity.
Qed.

Lemma segment_numbers_spec ds bg :
  segment_numbers ds bg = map d_num (filter (fun d => negb (is_background bg d)) ds).
Proof.
  unfold segment_numbers, is_background. destruct bg; [reflexivity|].
  f_equal. induction ds as [|d ds IH]; cbn [filter negb]; [reflexivity| f_equal; exact IH].
Qed.

(* a search without criteria returns segment_numbers *)
Lemma search_no_filter ds bg :
  get_segment_numbers ds bg (mkQuery None None None None None None) = segment_numbers ds bg.
Proof. rewrite search_exact, segment_numbers_spec. reflexivity. Qed.

(* ------------------------------------------------------------------ *)
(* missing-frame policies                                               *)
Lemma memz_In x l : memz x l = true <-> In x l.
Proof.
  unfold memz. rewrite existsb_exists. split.
  - intros [y [Hy He]]. assert (x = y) by lia. subst. exact Hy.
  - intros H. exists x. split; [exact H|lia].
Qed.

Lemma has_frame_spec st k : has_frame st k = true <-> exists f, In f (s_frames st) /\ fkey f = k.
Proof.
  unfold has_frame. rewrite existsb_exists. split; intros [f [H1 H2]]; exists f; split; auto; lia.
Qed.

Lemma policy_instance st keys am :
  policy EInstance am st keys = None <-> (am = true \/ forall k, In k keys -> In k (s_known st)).
Proof.
  cbn [policy]. destruct am; [split; auto|].
  destruct (forallb _ keys) eqn:E.
  - split; [|reflexivity]. intros _. right. intros k Hk.
    rewrite forallb_forall in E. apply memz_In, E, Hk.
  - split; [discriminate|]. intros [H|H]; [discriminate|]. exfalso.
    assert (forallb (fun k => memz k (s_known st)) keys = true); [|congruence].
    apply forallb_forall. intros k Hk. apply memz_In, H, Hk.
Qed.

Lemma policy_instance_err st keys am k :
  policy EInstance am st keys = Some k -> k = "KeyError"%string.
Proof. cbn [policy]. destruct am; [discriminate|]. destruct (forallb _ keys); [discriminate|congruence]. Qed.

Lemma policy_frame st keys am :
  policy EFrame am st keys = None <-> (am = true \/ forall k, In k keys -> k <= max_ref st).
Proof.
  cbn [policy]. destruct am; [split; auto|].
  destruct (forallb _ keys) eqn:E.
  - split; [|reflexivity]. intros _. right. intros k Hk.
    rewrite forallb_forall in E. specialize (E k Hk). lia.
  - split; [discriminate|]. intros [H|H]; [discriminate|]. exfalso.
    assert (forallb (fun k => k <=? max_ref st) keys = true); [|congruence].
    apply forallb_forall. intros k Hk. specialize (H k Hk). lia.
Qed.

Lemma policy_dimidx st keys am :
  policy EDimIdx am st keys = None <->
  (am = true \/ forall k, In k keys -> exists f, In f (s_frames st) /\ fkey f = k).
Proof.
  cbn [policy]. destruct am; [split; auto|].
  destruct (forallb _ keys) eqn:E.
  - split; [|reflexivity]. intros _. right. intros k Hk.
    rewrite forallb_forall in E. apply has_frame_spec, E, Hk.
  - split; [discriminate|]. intros [H|H]; [discriminate|]. exfalso.
    assert (forallb (has_frame st) keys = true); [|congruence].
    apply forallb_forall. intros k Hk. apply has_frame_spec, H, Hk.
Qed.

Lemma policy_volume st keys am :
  policy EVolume am st keys = None <->
  (am = true \/ forall k, In k keys -> exists f, In f (s_frames st) /\ fkey f = k).
Proof.
  cbn [policy]. destruct am; [split; auto|].
  destruct (forallb _ keys) eqn:E.
  - split; [|reflexivity]. intros _. right. intros k Hk.
    rewrite forallb_forall in E. apply has_frame_spec, E, Hk.
  - split; [discriminate|]. intros [H|H]; [discriminate|]. exfalso.
    assert (forallb (has_frame st) keys = true); [|congruence].
    apply forallb_forall. intros k Hk. apply has_frame_spec, H, Hk.
Qed.

(* a read is refused whenever its policy refuses, with the policy's error class *)
Lemma read_refused_by_policy e am st keys req o k :
  policy e am st keys = Some k -> exists k', read e am st keys req o = Err k'.
Proof.
  intros Hp. unfold read.
  destruct (zlen req =? 0); [eauto|].
  destruct e; cbn [policy] in *;
    repeat match goal with |- context [if ?c then _ else _] => destruct c; [eauto|] end;
    try rewrite Hp; eauto; try discriminate.
  all: repeat match goal with |- context [if ?c then _ else _] => destruct c; eauto end.
Qed.

(* ------------------------------------------------------------------ *)
(* dtype capacity: a value that passes the check is stored unchanged    *)
Definition wf_dtype (d : dtype) : Prop :=
  match d with DU w | DI w => 0 < w | _ => True end.

Lemma mant_pos w : 0 < mant w.
Proof. unfold mant. destruct (w =? 16); [lia|]. destruct (w =? 32); lia. Qed.

Lemma fround_id p v : 0 < p -> 0 <= v <= 2 ^ p -> fround p v = v.
Proof.
  intros Hp Hv. unfold fround. destruct (v <? 2 ^ p) eqn:E; [reflexivity|].
  assert (v = 2 ^ p) by lia. subst v.
  rewrite Z.log2_pow2 by lia.
  replace (p + 1 - p) with 1 by lia. replace (1 - 1) with 0 by lia.
  change (2 ^ 1) with 2. change (2 ^ 0) with 1.
  assert (H2 : 2 ^ p = 2 * 2 ^ (p - 1)).
  { replace p with (Z.succ (p - 1)) at 1 by lia. apply Z.pow_succ_r. lia. }
  assert (Hr : (2 ^ p) mod 2 = 0) by (rewrite H2, Z.mul_comm; apply Z.mod_mul; lia).
  assert (Hq : 2 ^ p / 2 = 2 ^ (p - 1)).
  { rewrite H2 at 1. rewrite Z.mul_comm, Z.div_mul by lia. reflexivity. }
  rewrite Hr, Hq. replace (0 <? 1) with true by reflexivity. lia.
Qed.

Lemma cast_id d v : wf_dtype d -> 0 <= v <= dtype_max d -> cast d v = v.
Proof.
  intros Hw Hv. destruct d; cbn [cast dtype_max wf_dtype] in *.
  - destruct (v =? 0) eqn:E; lia.
  - cbv zeta. apply Z.mod_small. lia.
  - cbv zeta.
    assert (H2 : 2 ^ w = 2 * 2 ^ (w - 1)).
    { replace w with (Z.succ (w - 1)) at 1 by lia. apply Z.pow_succ_r. lia. }
    assert (0 < 2 ^ (w - 1)) by (apply Z.pow_pos_nonneg; lia).
    rewrite Z.mod_small by lia. lia.
  - cbv zeta. apply fround_id; [apply mant_pos|exact Hv].
  - reflexivity.
Qed.

Lemma cast_0 d : wf_dtype d -> cast d 0 = 0.
Proof.
  intros Hw. apply cast_id; [exact Hw|].
  destruct d; cbn [dtype_max wf_dtype] in *; try lia.
  all: try (assert (0 < 2 ^ w) by (apply Z.pow_pos_nonneg; lia); lia).
  all: try (assert (0 < 2 ^ (w - 1)) by (apply Z.pow_pos_nonneg; lia); lia).
  all: pose proof (mant_pos w); assert (0 < 2 ^ mant w) by (apply Z.pow_pos_nonneg; lia); lia.
Qed.

Lemma unsigned_dtype_wf m : wf_dtype (unsigned_dtype m).
Proof. unfold unsigned_dtype. destruct (m <? 256); [cbn; lia|]. destruct (m <? 65536); cbn; lia. Qed.

(* the automatically chosen dtype always holds the declared maximum *)
Lemma unsigned_dtype_fits m : 0 <= m < 2 ^ 32 -> m <= dtype_max (unsigned_dtype m).
Proof.
  intros H. unfold unsigned_dtype.
  destruct (m <? 256) eqn:E1; [cbn [dtype_max]; change (2 ^ 8) with 256; lia|].
  destruct (m <? 65536) eqn:E2; [cbn [dtype_max]; change (2 ^ 16) with 65536; lia|].
  cbn [dtype_max]. lia.
Qed.

Lemma map_cast_id d l : wf_dtype d -> (forall v, In v l -> 0 <= v <= dtype_max d) -> map (cast d) l = l.
Proof.
  intros Hw H. induction l as [|x l IH]; [reflexivity|]. cbn [map].
  rewrite cast_id by (auto; apply H; left; reflexivity). f_equal. apply IH.
  intros v Hv. apply H. right. exact Hv.
Qed.

(* ------------------------------------------------------------------ *)
(* BINARY combine loop                                                  *)
Definition covers (p : nat) (fl : frame * Z) : bool := 0 <? nth p (fpix (fst fl)) 0.
Definition b2n (b : bool) : nat := if b then 1%nat else 0%nat.
Definition cnt (p : nat) (ins : list (frame * Z)) : nat := length (filter (covers p) ins).

(* instructions of a BINARY object: frames of n pixels with values 0/1,
   labels positive and within the capacity of the dtype *)
Definition wf_ins (n : nat) (d : dtype) (ins : list (frame * Z)) : Prop :=
  forall f lab, In (f, lab) ins ->
    length (fpix f) = n /\ (forall v, In v (fpix f) -> v = 0 \/ v = 1) /\ 0 < lab <= dtype_max d.

Lemma max2_length d pv a : forall b, length a = length b -> length (max2 d pv a b) = length a.
Proof.
  induction a as [|x a IH]; intros [|y b] H; cbn [max2 length] in *; try lia.
  rewrite IH; lia.
Qed.

Lemma max2_nth d pv a : forall b p, length a = length b -> (p < length a)%nat ->
  nth p (max2 d pv a b) 0 = cast d (Z.max (nth p a 0 * pv) (nth p b 0)).
Proof.
  induction a as [|x a IH]; intros [|y b] p H Hp; cbn [max2 length] in *; try lia.
  destruct p; cbn [nth]; [reflexivity|]. apply IH; lia.
Qed.

Lemma max2_In d pv a : forall b v, In v (max2 d pv a b) ->
  exists x y, In x a /\ In y b /\ v = cast d (Z.max (x * pv) y).
Proof.
  induction a as [|x a IH]; intros [|y b] v H; cbn [max2] in H; try contradiction.
  destruct H as [<-|H].
  - exists x, y. cbn [In]. auto.
  - destruct (IH b v H) as [x' [y' [H1 [H2 H3]]]]. exists x', y'. cbn [In]. auto.
Qed.

Lemma any2_spec a : forall b, length a = length b ->
  (any2 a b = true <-> exists p, (p < length a)%nat /\ 0 < nth p a 0 /\ 0 < nth p b 0).
Proof.
  induction a as [|x a IH]; intros [|y b] H; cbn [any2 length] in *; try lia.
  - split; [discriminate|]. intros [p [Hp _]]. lia.
  - rewrite orb_true_iff, IH by lia. split.
    + intros [H1|[p [Hp [H1 H2]]]].
      * exists 0%nat. cbn [nth]. lia.
      * exists (S p). cbn [nth]. split; [lia|auto].
    + intros [p [Hp [H1 H2]]]. destruct p; cbn [nth] in *.
      * left. lia.
      * right. exists p. split; [lia|auto].
Qed.

Fixpoint list_max_nonneg l : 0 <= list_max l.
Proof. destruct l; cbn [list_max]; [lia|]. specialize (list_max_nonneg l). lia. Qed.

Lemma list_max_In l : l <> [] -> (forall v, In v l -> 0 <= v) -> In (list_max l) l.
Proof.
  induction l as [|x l IH]; [congruence|]. intros _ H. cbn [list_max].
  destruct l as [|y l'].
  - cbn [list_max]. left. specialize (H x (or_introl eq_refl)). lia.
  - assert (In (list_max (y :: l')) (y :: l')).
    { apply IH; [congruence|]. intros v Hv. apply H. right. exact Hv. }
    destruct (Z.max_spec x (list_max (y :: l'))) as [[_ ->]|[_ ->]]; [right; exact H0|left; reflexivity].
Qed.

Lemma list_max_ge l v : In v l -> v <= list_max l.
Proof.
  induction l as [|x l IH]; [contradiction|]. intros [->|H]; cbn [list_max]; [lia|].
  specialize (IH H). lia.
Qed.

Section CombineLoop.
  Variables (n : nat) (d : dtype) (mf : Z).
  Hypothesis Hd : wf_dtype d.

  Definition wf_out (out : list Z) : Prop :=
    length out = n /\ forall v, In v out -> 0 <= v <= dtype_max d.

  Lemma step_out f lab out :
    length (fpix f) = n -> (forall v, In v (fpix f) -> v = 0 \/ v = 1) -> 0 < lab <= dtype_max d ->
    wf_out out ->
    wf_out (max2 d (cast d lab) (fpix f) out) /\
    forall p, (p < n)%nat ->
      nth p (max2 d (cast d lab) (fpix f) out) 0 =
      Z.max (nth p (fpix f) 0 * lab) (nth p out 0).
  Proof.
    intros Hl Hv Hlab [Ho1 Ho2].
    rewrite (cast_id d lab) by (auto; lia).
    assert (Hb : forall x y, In x (fpix f) -> In y out -> 0 <= Z.max (x * lab) y <= dtype_max d).
    { intros x y Hx Hy. destruct (Hv x Hx) as [->| ->]; specialize (Ho2 y Hy); lia. }
    split; [split|].
    - rewrite max2_length; lia.
    - intros v Hin. apply max2_In in Hin. destruct Hin as [x [y [Hx [Hy ->]]]].
      rewrite cast_id by (auto; apply Hb; auto). apply Hb; auto.
    - intros p Hp. rewrite max2_nth by lia. apply cast_id; [exact Hd|].
      apply Hb; apply nth_In; lia.
  Qed.

  (* value of every pixel: the largest label among the instructions whose frame covers it *)
  Lemma combine_loop_value skip ins : forall out res,
    wf_ins n d ins -> wf_out out ->
    combine_loop false mf skip d ins out = Ok res ->
    wf_out res /\
    forall p, (p < n)%nat ->
      nth p res 0 = Z.max (nth p out 0) (list_max (map snd (filter (covers p) ins))).
  Proof.
    induction ins as [|[f lab] rest IH]; intros out res Hw Ho Hr.
    - cbn [combine_loop] in Hr. inversion Hr. subst. split; [exact Ho|].
      intros p Hp. cbn [filter map list_max]. destruct Ho as [Ho1 Ho2].
      assert (0 <= nth p res 0) by (apply Ho2, nth_In; lia). lia.
    - cbn [combine_loop andb] in Hr.
      destruct (negb skip && any2 (fpix f) out); [discriminate|].
      destruct (Hw f lab (or_introl eq_refl)) as [Hl [Hv Hlab]].
      destruct (step_out f lab out Hl Hv Hlab Ho) as [Ho' Hn'].
      assert (Hw' : wf_ins n d rest) by (intros f' l' H'; apply Hw; right; exact H').
      destruct (IH _ _ Hw' Ho' Hr) as [Hres Hval]. split; [exact Hres|].
      intros p Hp. rewrite Hval, Hn' by exact Hp.
      cbn [filter]. unfold covers at 2. cbn [fst].
      assert (Hx : nth p (fpix f) 0 = 0 \/ nth p (fpix f) 0 = 1) by (apply Hv, nth_In; lia).
      pose proof (list_max_nonneg (map snd (filter (covers p) rest))).
      destruct Ho as [Ho1 Ho2]. assert (0 <= nth p out 0) by (apply Ho2, nth_In; lia).
      destruct Hx as [Hx|Hx]; rewrite Hx.
      + replace (0 <? 0) with false by reflexivity. lia.
      + replace (0 <? 1) with true by reflexivity. cbn [map snd list_max]. lia.
  Qed.

  (* the loop stops with RuntimeError exactly when some pixel is covered twice *)
  Lemma combine_loop_overlap ins : forall out,
    wf_ins n d ins -> wf_out out ->
    (combine_loop false mf false d ins out = Err "RuntimeError" <->
     exists p, (p < n)%nat /\ (2 <= cnt p ins + b2n (0 <? nth p out 0)%Z)%nat) /\
    (forall k, combine_loop false mf false d ins out = Err k -> k = "RuntimeError"%string).
  Proof.
    induction ins as [|[f lab] rest IH]; intros out Hw Ho.
    - cbn [combine_loop]. split; [split; [discriminate|]|discriminate].
      intros [p [Hp H]]. unfold cnt in H. cbn [filter length] in H. destruct (0 <? nth p out 0); cbn [b2n] in H; lia.
    - cbn [combine_loop andb negb].
      destruct (Hw f lab (or_introl eq_refl)) as [Hl [Hv Hlab]].
      assert (Hlen : length (fpix f) = length out) by (destruct Ho; lia).
      destruct (any2 (fpix f) out) eqn:Ea.
      + split; [|intros k H; congruence]. split; [|reflexivity]. intros _.
        apply (any2_spec _ _ Hlen) in Ea. destruct Ea as [p [Hp [H1 H2]]].
        exists p. split; [lia|]. unfold cnt. cbn [filter]. unfold covers at 1. cbn [fst].
        replace (0 <? nth p (fpix f) 0) with true by lia.
        replace (0 <? nth p out 0) with true by lia. cbn [length b2n]. lia.
      + destruct (step_out f lab out Hl Hv Hlab Ho) as [Ho' Hn'].
        assert (Hw' : wf_ins n d rest) by (intros f' l' H'; apply Hw; right; exact H').
        destruct (IH _ Hw' Ho') as [IH1 IH2]. split; [|exact IH2].
        rewrite IH1.
        assert (Hno : forall p, (p < n)%nat -> ~ (0 < nth p (fpix f) 0 /\ 0 < nth p out 0)).
        { intros p Hp [H1 H2]. assert (any2 (fpix f) out = true); [|congruence].
          apply (any2_spec _ _ Hlen). exists p. split; [lia|auto]. }
        assert (Heq : forall p, (p < n)%nat ->
                  (cnt p rest + b2n (0 <? nth p (max2 d (cast d lab) (fpix f) out) 0)%Z =
                   cnt p ((f, lab) :: rest) + b2n (0 <? nth p out 0)%Z)%nat).
        { intros p Hp. rewrite Hn' by exact Hp. specialize (Hno p Hp).
          unfold cnt. cbn [filter]. unfold covers at 2. cbn [fst].
          assert (Hx : nth p (fpix f) 0 = 0 \/ nth p (fpix f) 0 = 1) by (apply Hv, nth_In; lia).
          destruct Ho as [Ho1 Ho2]. assert (0 <= nth p out 0) by (apply Ho2, nth_In; lia).
          destruct Hx as [Hx|Hx]; rewrite Hx in *.
          - replace (0 <? 0) with false by reflexivity.
            replace (Z.max (0 * lab) (nth p out 0)) with (nth p out 0) by lia. reflexivity.
          - replace (0 <? 1) with true by reflexivity. cbn [length].
            replace (0 <? nth p out 0) with false by lia.
            replace (0 <? Z.max (1 * lab) (nth p out 0)) with true by lia. cbn [b2n]. lia. }
        split; intros [p [Hp H]]; exists p; (split; [exact Hp|]); specialize (Heq p Hp); lia.
  Qed.
End CombineLoop.

(* ------------------------------------------------------------------ *)
(* lifting to _get_pixels_by_seg_frame (BINARY, combine_segments=True)  *)
Lemma map_res_Ok {A B} (f : A -> res B) l : forall r,
  map_res f l = Ok r -> Forall2 (fun x y => f x = Ok y) l r.
Proof.
  induction l as [|x l IH]; intros r H; cbn [map_res] in H.
  - inversion H. constructor.
  - destruct (f x) eqn:E; cbn [bind] in H; [|discriminate].
    destruct (map_res f l) eqn:E2; cbn [bind] in H; [|discriminate].
    inversion H. subst. constructor; [exact E|apply IH; reflexivity].
Qed.

Lemma map_res_Err {A B} (f : A -> res B) (k0 : string) l :
  (forall x k, In x l -> f x = Err k -> k = k0) ->
  (map_res f l = Err k0 <-> exists x, In x l /\ f x = Err k0) /\
  (forall k, map_res f l = Err k -> k = k0).
Proof.
  induction l as [|x l IH]; intros Hk; cbn [map_res].
  - split; [split; [discriminate|intros [x [[] _]]]|discriminate].
  - assert (Hk' : forall y k, In y l -> f y = Err k -> k = k0) by (intros y k Hy; apply Hk; right; exact Hy).
    destruct (IH Hk') as [IH1 IH2].
    destruct (f x) as [y0|kx] eqn:E; cbn [bind].
    + destruct (map_res f l) as [r0|k1] eqn:E2; cbn [bind].
      * split; [split; [discriminate|]|discriminate].
        intros [y [[<-|Hy] Hf]]; [congruence|]. exfalso.
        assert (Hbad : Ok r0 = Err k0 :> res (list B)); [|discriminate]. apply IH1. eauto.
      * split.
        -- split.
           ++ intros H. inversion H. subst. destruct IH1 as [IH1 _]. destruct (IH1 eq_refl) as [y [Hy Hf]].
              exists y. split; [right; exact Hy|exact Hf].
           ++ intros _. f_equal. apply IH2. reflexivity.
        -- intros k0' H. inversion H. subst. apply IH2. reflexivity.
    + assert (kx = k0) by (apply (Hk x); [left; reflexivity|exact E]). subst.
      split; [split; [|reflexivity]|intros k' H; congruence].
      intros _. exists x. split; [left; reflexivity|exact E].
Qed.

Lemma in_join_plane st key ct f lab :
  In (f, lab) (join_plane st key ct) <-> In f (s_frames st) /\ fkey f = key /\ In (lab, fseg f) ct.
Proof.
  unfold join_plane. rewrite in_flat_map. split.
  - intros [f' [Hf' Hin]]. destruct (fkey f' =? key) eqn:E; [|contradiction].
    apply in_map_iff in Hin. destruct Hin as [[l s] [Heq Hin]]. cbn [fst] in Heq. inversion Heq. subst.
    apply filter_In in Hin. destruct Hin as [Hin Hs]. cbn [snd] in Hs.
    assert (s = fseg f) by lia. subst. split; [exact Hf'|]. split; [lia|exact Hin].
  - intros [Hf [Hk Hin]]. exists f. split; [exact Hf|].
    replace (fkey f =? key) with true by lia.
    apply in_map_iff. exists (lab, fseg f). split; [reflexivity|].
    apply filter_In. split; [exact Hin|]. cbn [snd]. lia.
Qed.

Definition label_at (relabel : bool) (k : nat) (s : Z) : Z := if relabel then Z.of_nat k + 1 else s.

Lemma in_combine_zrange (l : list Z) : forall a lab s,
  In (lab, s) (combine (zrange_from a (length l)) l) <-> exists k, nth_error l k = Some s /\ lab = a + Z.of_nat k.
Proof.
  induction l as [|x l IH]; intros a lab s; cbn [length zrange_from combine].
  - split; [contradiction|]. intros [k [H _]]. destruct k; discriminate.
  - cbn [In]. rewrite IH. split.
    + intros [H|[k [H1 H2]]].
      * inversion H. subst. exists 0%nat. split; [reflexivity|lia].
      * exists (S k). split; [exact H1|lia].
    + intros [k [H1 H2]]. destruct k; cbn [nth_error] in H1.
      * inversion H1. subst. left. f_equal. lia.
      * right. exists k. split; [exact H1|lia].
Qed.

Lemma in_combine_self (l : list Z) lab s : In (lab, s) (combine l l) <-> lab = s /\ In s l.
Proof.
  induction l as [|x l IH]; cbn [combine In]; [tauto|]. rewrite IH. split.
  - intros [H|[-> H]]; [inversion H; subst; auto|auto].
  - intros [-> [->|H]]; [left; reflexivity|right; auto].
Qed.

Lemma in_chan_table req relabel lab s :
  In (lab, s) (chan_table req true relabel) <-> exists k, nth_error req k = Some s /\ lab = label_at relabel k s.
Proof.
  unfold chan_table, chan_labels, label_at. destruct relabel.
  - unfold zrange, zlen. replace (Z.to_nat (Z.of_nat (length req) + 1 - 1)) with (length req) by lia.
    rewrite in_combine_zrange. split; intros [k [H1 H2]]; exists k; (split; [exact H1|lia]).
  - rewrite in_combine_self. split.
    + intros [-> H]. apply In_nth_error in H. destruct H as [k Hk]. exists k. auto.
    + intros [k [H1 ->]]. split; [reflexivity|]. eapply nth_error_In, H1.
Qed.

Lemma zeros_length n : length (zeros n) = Z.to_nat n.
Proof. unfold zeros. apply repeat_length. Qed.
Lemma zeros_In n v : In v (zeros n) -> v = 0.
Proof. unfold zeros. intros H. apply repeat_spec in H. exact H. Qed.
Lemma zeros_nth n p : nth p (zeros n) 0 = 0.
Proof. unfold zeros. generalize (Z.to_nat n). intro m. revert p. induction m; intros [|p]; cbn [repeat nth]; auto. Qed.

Lemma nth_error_Some_lt {A} (l : list A) k x : nth_error l k = Some x -> (k < length l)%nat.
Proof. intros H. apply nth_error_Some. congruence. Qed.

(* well-formed BINARY object: frames of npix pixels with values 0/1, positive segment numbers *)
Definition wf_binary (st : stored) : Prop :=
  s_ty st = BINARY /\
  (forall f, In f (s_frames st) ->
     length (fpix f) = Z.to_nat (s_npix st) /\ forall v, In v (fpix f) -> v = 0 \/ v = 1) /\
  (forall s, In s (s_segs st) -> 0 < s).
Definition wf_opts (o : opts) : Prop := forall d, o_dtype o = Some d -> wf_dtype d.

(* a requested segment (position k of the request) covers pixel p of plane key *)
Definition req_covers (st : stored) (key : Z) (req : list Z) (p : nat) (f : frame) (k : nat) : Prop :=
  In f (s_frames st) /\ fkey f = key /\ nth_error req k = Some (fseg f) /\ 0 < nth p (fpix f) 0.

Section BinaryCombine.
  Variables (st : stored) (keys req : list Z) (o : opts).
  Hypothesis Hst : wf_binary st.
  Hypothesis Ho : wf_opts o.
  Hypothesis Hc : o_combine o = true.

  Let d := match o_dtype o with Some d => d | None => unsigned_dtype (max_output_val st req true (o_relabel o) (o_rescale o)) end.
  Let ct := chan_table req true (o_relabel o).
  Let loop key := combine_loop false (s_maxfrac st) (o_skip o) d (join_plane st key ct) (zeros (s_npix st)).

  Lemma d_wf : wf_dtype d.
  Proof. unfold d. destruct (o_dtype o) eqn:E; [apply Ho; exact E|apply unsigned_dtype_wf]. Qed.

  (* what _get_pixels_by_seg_frame reduces to once its checks have passed *)
  Lemma seg_frame_binary_combine :
    seg_frame st keys req o =
    if negb (forallb (fun s => memz s (s_segs st)) req) then Err "ValueError"
    else if negb (kind_ok d) then Err "ValueError"
    else if dtype_max d <? max_output_val st req true (o_relabel o) (o_rescale o) then Err "ValueError"
    else bind (map_res loop keys) (fun pl => Ok (d, OComb pl)).
  Proof.
    destruct Hst as [Hty _]. unfold seg_frame. rewrite Hc, Hty. cbn [segtype_eqb andb negb].
    rewrite andb_false_r. cbn [andb].
    destruct (negb (forallb _ req)); [reflexivity|].
    fold d. destruct (negb (kind_ok d)); [reflexivity|].
    destruct (dtype_max d <? _); reflexivity.
  Qed.

  Hypothesis Hreq : forallb (fun s => memz s (s_segs st)) req = true.
  Hypothesis Hcap : dtype_max d <? max_output_val st req true (o_relabel o) (o_rescale o) = false.

  Lemma label_bounds k s : nth_error req k = Some s -> 0 < label_at (o_relabel o) k s <= dtype_max d.
  Proof.
    intros Hk. unfold max_output_val in Hcap. unfold label_at.
    pose proof (nth_error_Some_lt _ _ _ Hk) as Hlt.
    destruct (o_relabel o).
    - unfold zlen in Hcap. lia.
    - assert (In s req) by (eapply nth_error_In, Hk).
      pose proof (list_max_ge req s H).
      rewrite forallb_forall in Hreq. specialize (Hreq s H). apply memz_In in Hreq.
      destruct Hst as [_ [_ Hpos]]. specialize (Hpos s Hreq). lia.
  Qed.

  Lemma ins_wf key : wf_ins (Z.to_nat (s_npix st)) d (join_plane st key ct).
  Proof.
    intros f lab Hin. apply in_join_plane in Hin. destruct Hin as [Hf [_ Hct]].
    destruct Hst as [_ [Hfr _]]. destruct (Hfr f Hf) as [H1 H2]. split; [exact H1|]. split; [exact H2|].
    apply in_chan_table in Hct. destruct Hct as [k [Hk ->]]. apply label_bounds, Hk.
  Qed.

  Lemma zeros_wf_out : wf_out (Z.to_nat (s_npix st)) d (zeros (s_npix st)).
  Proof.
    split; [apply zeros_length|]. intros v Hv. apply zeros_In in Hv. subst.
    pose proof (cast_0 d d_wf). pose proof d_wf as Hw.
    destruct d; cbn [dtype_max wf_dtype] in *; try lia.
    all: try (assert (0 < 2 ^ w) by (apply Z.pow_pos_nonneg; lia); lia).
    all: try (assert (0 < 2 ^ (w - 1)) by (apply Z.pow_pos_nonneg; lia); lia).
    all: pose proof (mant_pos w); assert (0 < 2 ^ mant w) by (apply Z.pow_pos_nonneg; lia); lia.
  Qed.

  (* combined_pixel: value of pixel p of the plane read for [key] *)
  Lemma binary_combined_pixel key plane p :
    loop key = Ok plane -> (p < Z.to_nat (s_npix st))%nat ->
    length plane = Z.to_nat (s_npix st) /\
    (* 0 exactly where no requested segment covers the pixel *)
    (nth p plane 0 = 0 <-> forall f k, ~ req_covers st key req p f k) /\
    (* otherwise the label of a requested covering segment ... *)
    (nth p plane 0 <> 0 -> exists f k, req_covers st key req p f k /\
                                       nth p plane 0 = label_at (o_relabel o) k (fseg f)) /\
    (* ... namely the largest one *)
    (forall f k, req_covers st key req p f k -> label_at (o_relabel o) k (fseg f) <= nth p plane 0).
  Proof.
    intros Hl Hp. unfold loop in Hl.
    destruct (combine_loop_value _ d (s_maxfrac st) d_wf (o_skip o) _ _ _ (ins_wf key) zeros_wf_out Hl)
      as [[Hlen _] Hval].
    split; [exact Hlen|]. rewrite (Hval p Hp), zeros_nth.
    set (L := map snd (filter (covers p) (join_plane st key ct))).
    assert (HL : forall lab, In lab L <-> exists f k, req_covers st key req p f k /\ lab = label_at (o_relabel o) k (fseg f)).
    { intros lab. unfold L. rewrite in_map_iff. split.
      - intros [[f l] [Hs Hin]]. cbn [snd] in Hs. subst l. apply filter_In in Hin. destruct Hin as [Hin Hcov].
        apply in_join_plane in Hin. destruct Hin as [Hf [Hk Hct]]. apply in_chan_table in Hct.
        destruct Hct as [k [Hk' ->]]. exists f, k. split; [|reflexivity].
        unfold covers in Hcov. cbn [fst] in Hcov. repeat split; auto. lia.
      - intros [f [k [[Hf [Hk [Hk' Hcov]]] ->]]]. exists (f, label_at (o_relabel o) k (fseg f)).
        split; [reflexivity|]. apply filter_In. split.
        + apply in_join_plane. split; [exact Hf|]. split; [exact Hk|]. apply in_chan_table. eauto.
        + unfold covers. cbn [fst]. lia. }
    assert (Hpos : forall lab, In lab L -> 0 < lab).
    { intros lab Hin. apply HL in Hin. destruct Hin as [f [k [[_ [_ [Hk _]]] ->]]]. apply label_bounds, Hk. }
    pose proof (list_max_nonneg L) as Hnn.
    replace (Z.max 0 (list_max L)) with (list_max L) by lia.
    assert (Hmem : L <> [] -> In (list_max L) L).
    { intros Hne. apply list_max_In; [exact Hne|]. intros v Hv. specialize (Hpos v Hv). lia. }
    split; [|split].
    - split.
      + intros H0 f k Hcov. assert (In (label_at (o_relabel o) k (fseg f)) L) by (apply HL; eauto).
        pose proof (list_max_ge L _ H). specialize (Hpos _ H). lia.
      + intros Hnone. destruct L as [|x L'] eqn:EL; [reflexivity|]. exfalso.
        assert (In x (x :: L')) by (left; reflexivity). apply HL in H.
        destruct H as [f [k [Hcov _]]]. exact (Hnone f k Hcov).
    - intros Hnz. assert (L <> []) by (intro E; rewrite E in Hnz; cbn [list_max] in Hnz; lia).
      apply HL, Hmem, H.
    - intros f k Hcov. apply list_max_ge, HL. eauto.
  Qed.

  (* overlap_refused: with the check on, a plane is refused exactly when two
     requested (frame, position) pairs cover one pixel *)
  Lemma binary_overlap_plane key : o_skip o = false ->
    (loop key = Err "RuntimeError" <->
     exists p, (p < Z.to_nat (s_npix st))%nat /\ (2 <= cnt p (join_plane st key ct))%nat) /\
    (forall k, loop key = Err k -> k = "RuntimeError"%string).
  Proof.
    intros Hs. unfold loop. rewrite Hs.
    destruct (combine_loop_overlap _ d (s_maxfrac st) d_wf _ _ (ins_wf key) zeros_wf_out) as [H1 H2].
    split; [|exact H2]. rewrite H1. split; intros [p [Hp H]]; exists p; (split; [exact Hp|]);
      rewrite zeros_nth in *; cbn [b2n Z.ltb Z.compare] in *; lia.
  Qed.

  Lemma binary_overlap_refused : o_skip o = false ->
    (map_res loop keys = Err "RuntimeError" <->
     exists key p, In key keys /\ (p < Z.to_nat (s_npix st))%nat /\ (2 <= cnt p (join_plane st key ct))%nat).
  Proof.
    intros Hs.
    destruct (map_res_Err loop "RuntimeError" keys) as [H1 _].
    { intros key k _ H. eapply binary_overlap_plane; eauto. }
    rewrite H1. split.
    - intros [key [Hk He]]. destruct (binary_overlap_plane key Hs) as [Hiff _].
      apply Hiff in He. destruct He as [p [Hp H]]. exists key, p. auto.
    - intros [key [p [Hk [Hp H]]]]. exists key. split; [exact Hk|].
      destruct (binary_overlap_plane key Hs) as [Hiff _]. apply Hiff. exists p. auto.
  Qed.

  (* with the check switched off the loop never fails *)
  Lemma binary_skip_total key : o_skip o = true -> exists plane, loop key = Ok plane.
  Proof.
    intros Hs. unfold loop. rewrite Hs. generalize (zeros (s_npix st)).
    induction (join_plane st key ct) as [|[f lab] rest IH]; intros out; cbn [combine_loop andb negb]; eauto.
  Qed.
  Lemma binary_plane_length key plane : loop key = Ok plane -> length plane = Z.to_nat (s_npix st).
  Proof.
    intros Hl. unfold loop in Hl.
    destruct (combine_loop_value _ d (s_maxfrac st) d_wf (o_skip o) _ _ _ (ins_wf key) zeros_wf_out Hl)
      as [[Hlen _] _]. exact Hlen.
  Qed.
End BinaryCombine.

(* ------------------------------------------------------------------ *)
(* stacked reads of BINARY / FRACTIONAL objects                         *)
Definition mask (st : stored) (key s : Z) : list Z :=
  match find_last (fun f => (fkey f =? key) && (fseg f =? s)) (s_frames st) with
  | Some f => fpix f
  | None => zeros (s_npix st)
  end.

Definition wf_values (st : stored) (bound : Z) : Prop :=
  forall f v, In f (s_frames st) -> In v (fpix f) -> 0 <= v <= bound.

Lemma find_last_In p l f : find_last p l = Some f -> In f l /\ p f = true.
Proof. unfold find_last. intros H. apply find_some in H. destruct H as [H1 H2]. split; [apply in_rev; exact H1|exact H2]. Qed.

Lemma find_last_None p l : find_last p l = None -> forall f, In f l -> p f = false.
Proof. unfold find_last. intros H f Hf. apply (find_none _ _ H). apply in_rev in Hf. exact Hf. Qed.

Lemma mask_bound st bound key s v : 0 <= bound -> wf_values st bound -> In v (mask st key s) -> 0 <= v <= bound.
Proof.
  intros Hb Hw. unfold mask. destruct (find_last _ _) eqn:E.
  - apply find_last_In in E. destruct E as [E _]. intros Hv. eapply Hw; eauto.
  - intros Hv. apply zeros_In in Hv. lia.
Qed.

(* with unique (plane, segment) pairs the mask is THE stored frame of that pair *)
Lemma unique_frames_spec l : unique_frames false l = true ->
  forall f g, In f l -> In g l -> fkey f = fkey g -> fseg f = fseg g -> f = g.
Proof.
  induction l as [|x l IH]; intros H f g Hf Hg Hk Hs; [contradiction|].
  cbn [unique_frames] in H. apply andb_true_iff in H. destruct H as [H1 H2].
  apply negb_true_iff in H1.
  assert (Hx : forall y, In y l -> fkey x = fkey y -> fseg x = fseg y -> False).
  { intros y Hy Hk' Hs'. assert (existsb (same_slot false x) l = true); [|congruence].
    apply existsb_exists. exists y. split; [exact Hy|]. unfold same_slot. cbn [orb]. lia. }
  destruct Hf as [<-|Hf], Hg as [<-|Hg]; auto.
  - exfalso. eapply Hx; eauto.
  - exfalso. eapply Hx; eauto.
Qed.

Lemma mask_unique st f : unique_frames false (s_frames st) = true -> In f (s_frames st) ->
  mask st (fkey f) (fseg f) = fpix f.
Proof.
  intros Hu Hf. unfold mask. destruct (find_last _ _) eqn:E.
  - apply find_last_In in E. destruct E as [Hg Hp].
    assert (f0 = f); [|subst; reflexivity].
    apply (unique_frames_spec _ Hu); auto; lia.
  - exfalso. pose proof (find_last_None _ _ E f Hf) as H. cbn beta in H. lia.
Qed.

Lemma mask_absent st key s :
  (forall f, In f (s_frames st) -> ~ (fkey f = key /\ fseg f = s)) -> mask st key s = zeros (s_npix st).
Proof.
  intros H. unfold mask. destruct (find_last _ _) eqn:E; [|reflexivity].
  apply find_last_In in E. destruct E as [Hf Hp]. exfalso. apply (H f Hf). lia.
Qed.

Lemma stack_col_exact st d bound key s :
  wf_dtype d -> 0 <= bound -> wf_values st bound -> bound <= dtype_max d ->
  stack_col st d key s = mask st key s.
Proof.
  intros Hd Hb Hw Hm. unfold stack_col, mask. destruct (find_last _ _) eqn:E; [|reflexivity].
  apply find_last_In in E. destruct E as [Hf _]. apply map_cast_id; [exact Hd|].
  intros v Hv. specialize (Hw f v Hf Hv). lia.
Qed.

Lemma existsb3_false (A : list (list (list Z))) m :
  (forall x y v, In x A -> In y x -> In v y -> v <= m) ->
  existsb (existsb (existsb (fun v => m <? v))) A = false.
Proof.
  intros H. destruct (existsb _ A) eqn:E; [|reflexivity]. exfalso.
  apply existsb_exists in E. destruct E as [x [Hx E]].
  apply existsb_exists in E. destruct E as [y [Hy E]].
  apply existsb_exists in E. destruct E as [v [Hv E]].
  specialize (H x y v Hx Hy Hv). lia.
Qed.

Definition stored_bound (st : stored) : Z :=
  match s_ty st with FRACTIONAL => s_maxfrac st | _ => 1 end.

Lemma stacked_channel st keys req o d r :
  s_ty st <> LABELMAP -> o_combine o = false -> wf_opts o ->
  1 <= s_maxfrac st <= 255 -> wf_values st (stored_bound st) ->
  seg_frame st keys req o = Ok (d, r) ->
  let A := map (fun key => map (mask st key) req) keys in
  r = if o_rescale o && segtype_eqb (s_ty st) FRACTIONAL then OStackQ A (s_maxfrac st) else OStack A.
Proof.
  intros Hty Hc Ho Hmf Hw H A. unfold seg_frame in H. rewrite Hc in H.
  destruct (negb (forallb _ req)); [discriminate|].
  cbn [negb andb] in H. rewrite andb_true_r in H.
  set (frac := segtype_eqb (s_ty st) FRACTIONAL) in *.
  set (mv := max_output_val st req false (o_relabel o) (o_rescale o)) in *.
  set (d0 := match o_dtype o with Some d => d | None => if o_rescale o && frac then DF 32 else unsigned_dtype mv end) in *.
  assert (Hd0 : wf_dtype d0).
  { unfold d0. destruct (o_dtype o) eqn:E; [apply Ho; exact E|].
    destruct (o_rescale o && frac); [exact I|apply unsigned_dtype_wf]. }
  destruct (negb (kind_ok d0)); [discriminate|].
  destruct (dtype_max d0 <? mv) eqn:Ecap; [discriminate|].
  destruct (segtype_eqb (s_ty st) LABELMAP) eqn:Elm; [destruct (s_ty st); try discriminate; congruence|].
  destruct (o_rescale o && frac && negb (is_float d0)); [discriminate|].
  assert (Hb0 : 0 <= stored_bound st) by (unfold stored_bound; destruct (s_ty st); lia).
  destruct (o_rescale o && frac) eqn:Er.
  - (* rescaled *)
    assert (Hf : s_ty st = FRACTIONAL).
    { apply andb_true_iff in Er. destruct Er as [_ Er]. unfold frac in Er. destruct (s_ty st); try discriminate; reflexivity. }
    assert (HA : map (fun key => map (fun s => stack_col st (DU 8) key s) req) keys = A).
    { unfold A. apply map_ext. intro key. apply map_ext. intro s.
      apply (stack_col_exact st (DU 8) (stored_bound st)); auto; [cbn; lia|].
      unfold stored_bound. rewrite Hf. cbn [dtype_max]. change (2 ^ 8) with 256. lia. }
    rewrite HA in H.
    rewrite existsb3_false in H; [inversion H; reflexivity|].
    intros x y v Hx Hy Hv. unfold A in Hx. apply in_map_iff in Hx. destruct Hx as [key [<- _]].
    apply in_map_iff in Hy. destruct Hy as [s [<- _]].
    pose proof (mask_bound st (stored_bound st) key s v Hb0 Hw Hv) as Hbd.
    unfold stored_bound in Hbd. rewrite Hf in Hbd. lia.
  - assert (HA : map (fun key => map (fun s => stack_col st d0 key s) req) keys = A).
    { unfold A. apply map_ext. intro key. apply map_ext. intro s.
      apply (stack_col_exact st d0 (stored_bound st)); auto.
      unfold mv, max_output_val in Ecap. unfold stored_bound.
      apply andb_false_iff in Er. unfold frac in *.
      destruct (s_ty st); cbn [segtype_eqb andb negb] in *; try lia.
      destruct Er as [Er|Er]; [rewrite Er in Ecap; cbn [negb] in Ecap; lia|discriminate]. }
    rewrite HA in H. inversion H. reflexivity.
Qed.

(* ------------------------------------------------------------------ *)
(* LABELMAP branch                                                      *)
Definition lm_raw (st : stored) (key : Z) : list Z :=
  match find_last (fun f => fkey f =? key) (s_frames st) with
  | Some f => fpix f
  | None => zeros (s_npix st)
  end.

(* well-formed label map: background 0, positive segment numbers below 2^BitsStored,
   every stored value is 0 or a described segment number *)
Definition wf_labelmap (st : stored) : Prop :=
  s_bg st = 0 /\ 0 < s_bits st <= 16 /\
  (forall s, In s (s_segs st) -> 0 < s < 2 ^ s_bits st) /\
  (forall f v, In f (s_frames st) -> In v (fpix f) -> v = 0 \/ In v (s_segs st)).

Lemma zrange_from_length a n : length (zrange_from a n) = n.
Proof. revert a. induction n; intros a; cbn [zrange_from length]; [reflexivity|rewrite IHn; reflexivity]. Qed.

Lemma zrange_from_nth_error n : forall a k, (k < n)%nat -> nth_error (zrange_from a n) k = Some (a + Z.of_nat k).
Proof.
  induction n; intros a k Hk; [lia|]. cbn [zrange_from]. destruct k; cbn [nth_error].
  - f_equal. lia.
  - rewrite IHn by lia. f_equal. lia.
Qed.

Lemma nth_map_zrange (f : Z -> Z) n v : 0 <= v < Z.of_nat n ->
  nth (Z.to_nat v) (map f (zrange_from 0 n)) 0 = f v.
Proof.
  intros Hv. apply nth_error_nth. rewrite nth_error_map, zrange_from_nth_error by lia.
  cbn [option_map]. f_equal. f_equal. lia.
Qed.

Lemma lookup_all_n_ok n tbl l :
  (forall v, In v l -> 0 <= v < n) ->
  lookup_all_n n tbl l = Ok (map (fun v => nth (Z.to_nat v) tbl 0) l).
Proof.
  induction l as [|x l IH]; intros H; cbn [lookup_all_n map]; [reflexivity|].
  assert (0 <= x < n) by (apply H; left; reflexivity).
  replace ((x <? 0) || (n <=? x)) with false by lia.
  rewrite IH by (intros v Hv; apply H; right; exact Hv). reflexivity.
Qed.

Lemma map_res_all_ok {A B} (f : A -> res B) (g : A -> B) l :
  (forall x, In x l -> f x = Ok (g x)) -> map_res f l = Ok (map g l).
Proof.
  induction l as [|x l IH]; intros H; cbn [map_res map]; [reflexivity|].
  rewrite H by (left; reflexivity). cbn [bind]. rewrite IH by (intros y Hy; apply H; right; exact Hy). reflexivity.
Qed.

Lemma index_of_bound s l : In s l -> 0 <= index_of s l < zlen l.
Proof.
  unfold zlen. induction l as [|x l IH]; [contradiction|]. intros H. cbn [index_of length].
  destruct (x =? s) eqn:E; [lia|]. destruct H as [->|H]; [lia|]. specialize (IH H). lia.
Qed.

Lemma index_of_nth_error s l : In s l -> nth_error l (Z.to_nat (index_of s l)) = Some s.
Proof.
  induction l as [|x l IH]; [contradiction|]. intros H. cbn [index_of].
  destruct (x =? s) eqn:E.
  - cbn. f_equal. lia.
  - destruct H as [->|H]; [lia|]. pose proof (index_of_bound s l H).
    replace (Z.to_nat (1 + index_of s l)) with (S (Z.to_nat (index_of s l))) by lia.
    cbn [nth_error]. apply IH, H.
Qed.

Lemma NoDup_nth_error_index l : NoDup l -> forall j s, nth_error l j = Some s -> index_of s l = Z.of_nat j.
Proof.
  induction 1 as [|x l Hx Hnd IH]; intros j s Hj; [destruct j; discriminate|].
  cbn [index_of]. destruct j; cbn [nth_error] in Hj.
  - inversion Hj. subst. replace (s =? s) with true by lia. reflexivity.
  - assert (In s l) by (eapply nth_error_In, Hj).
    destruct (x =? s) eqn:E; [assert (x = s) by lia; subst; contradiction|].
    rewrite (IH j s Hj). lia.
Qed.

Lemma zlist_eqb_length a : forall b, zlist_eqb a b = true -> length a = length b.
Proof.
  induction a as [|x a IHa]; intros [|y b] Hab; cbn [zlist_eqb length] in *; try discriminate; [reflexivity|].
  apply andb_true_iff in Hab. destruct Hab as [_ Hab]. rewrite (IHa b Hab). reflexivity.
Qed.

Definition lm_label (req : list Z) (relabel : bool) (v : Z) : Z :=
  if memz v req then (if relabel then index_of v req + 1 else v) else 0.

Section LabelMap.
  Variables (st : stored) (keys req : list Z).
  Hypothesis Hst : wf_labelmap st.
  Hypothesis Hreq : forallb (fun s => memz s (s_segs st)) req = true.

  Lemma req_in_segs s : In s req -> In s (s_segs st).
  Proof. intros H. rewrite forallb_forall in Hreq. apply memz_In, Hreq, H. Qed.

  Lemma seg_le_max s : In s (s_segs st) -> 0 < s <= list_max (s_segs st).
  Proof. intros H. destruct Hst as [_ [_ [Hp _]]]. specialize (Hp s H). pose proof (list_max_ge _ _ H). lia. Qed.

  Lemma list_max_segs_lt : list_max (s_segs st) < 2 ^ s_bits st.
  Proof.
    destruct Hst as [_ [Hb [Hp _]]].
    assert (0 < 2 ^ s_bits st) by (apply Z.pow_pos_nonneg; lia).
    destruct (s_segs st) as [|x l] eqn:E; [cbn [list_max]; lia|].
    assert (In (list_max (x :: l)) (x :: l)).
    { apply list_max_In; [congruence|]. intros v Hv. specialize (Hp v Hv). lia. }
    specialize (Hp _ H0). lia.
  Qed.

  Lemma raw_values key v : In v (lm_raw st key) -> v = 0 \/ In v (s_segs st).
  Proof.
    unfold lm_raw. destruct (find_last _ _) eqn:E.
    - apply find_last_In in E. destruct E as [Hf _]. destruct Hst as [_ [_ [_ Hv]]]. apply Hv, Hf.
    - intros H. apply zeros_In in H. left. exact H.
  Qed.

  Lemma raw_range key v : In v (lm_raw st key) -> 0 <= v <= list_max (s_segs st).
  Proof.
    intros H. destruct (raw_values key v H) as [->|Hs]; [pose proof (list_max_nonneg (s_segs st)); lia|].
    pose proof (seg_le_max v Hs). lia.
  Qed.

  Lemma lm_plane_raw d key : wf_dtype d -> list_max (s_segs st) <= dtype_max d -> lm_plane st d key = lm_raw st key.
  Proof.
    intros Hd Hm. unfold lm_plane, lm_raw. destruct (find_last _ _) eqn:E; [|reflexivity].
    apply map_cast_id; [exact Hd|]. intros v Hv.
    assert (In v (lm_raw st key)) by (unfold lm_raw; rewrite E; exact Hv).
    pose proof (raw_range key v H). lia.
  Qed.

  Lemma idt_holds : list_max (s_segs st) <= dtype_max (unsigned_dtype (2 ^ s_bits st - 1)).
  Proof.
    pose proof list_max_segs_lt. destruct Hst as [_ [Hb _]].
    assert (2 ^ s_bits st <= 2 ^ 16) by (apply Z.pow_le_mono_r; lia).
    change (2 ^ 16) with 65536 in H0.
    assert (0 < 2 ^ s_bits st) by (apply Z.pow_pos_nonneg; lia).
    pose proof (unsigned_dtype_fits (2 ^ s_bits st - 1)). lia.
  Qed.

  (* the remap table applied to a raw plane *)
  Lemma remap_plane combine relabel rd key :
    wf_dtype rd ->
    (forall s, In s req -> lm_label req (negb (combine && negb relabel)) s <= dtype_max rd) ->
    lookup_all (remap_table st req combine relabel rd) (lm_raw st key) =
    Ok (map (lm_label req (negb (combine && negb relabel))) (lm_raw st key)).
  Proof.
    intros Hd Hcap. unfold lookup_all.
    destruct Hst as [Hbg _]. pose proof (list_max_nonneg (s_segs st)) as Hnn.
    assert (Hlen : zlen (remap_table st req combine relabel rd) = list_max (s_segs st) + 2).
    { unfold remap_table, zlen. rewrite Hbg. cbv zeta.
      replace (Z.max (0 + 1) (list_max (s_segs st) + 1)) with (list_max (s_segs st) + 1) by lia.
      destruct (combine && negb relabel); unfold zrange;
        rewrite ?app_length, ?map_length, ?zrange_from_length; cbn [length]; lia. }
    rewrite lookup_all_n_ok by (intros v Hv; pose proof (raw_range key v Hv); lia).
    f_equal. apply map_ext_in. intros v Hv. pose proof (raw_range key v Hv) as Hr.
    assert (Hc : forall x, x = lm_label req (negb (combine && negb relabel)) v -> cast rd x = x).
    { intros x ->. apply cast_id; [exact Hd|]. unfold lm_label. destruct (memz v req) eqn:E.
      - apply memz_In in E. specialize (Hcap v E). unfold lm_label in Hcap.
        replace (memz v req) with true in Hcap by (symmetry; apply memz_In; exact E).
        pose proof (index_of_bound v req E). pose proof (seg_le_max v (req_in_segs v E)).
        destruct (negb (combine && negb relabel)); lia.
      - pose proof (cast_0 rd Hd). destruct rd; cbn [dtype_max wf_dtype] in *; try lia.
        all: try (assert (0 < 2 ^ w) by (apply Z.pow_pos_nonneg; lia); lia).
        all: try (assert (0 < 2 ^ (w - 1)) by (apply Z.pow_pos_nonneg; lia); lia).
        all: pose proof (mant_pos w); assert (0 < 2 ^ mant w) by (apply Z.pow_pos_nonneg; lia); lia. }
    unfold remap_table. rewrite Hbg. cbv zeta.
    replace (Z.max (0 + 1) (list_max (s_segs st) + 1)) with (list_max (s_segs st) + 1) by lia.
    unfold zrange. destruct (combine && negb relabel) eqn:Ecr; cbn [negb].
    - rewrite app_nth1 by (rewrite map_length, zrange_from_length; lia).
      rewrite (nth_map_zrange (fun s => cast rd (if memz s req then s else 0))) by lia.
      rewrite Hc; unfold lm_label; reflexivity.
    - rewrite (nth_map_zrange (fun s => cast rd (if memz s req then index_of s req + 1 else 0))) by lia.
      rewrite Hc; unfold lm_label; reflexivity.
  Qed.

  (* combined_pixel for label maps *)
  Lemma labelmap_combined (relabel : bool) d a :
    req <> [] -> wf_dtype d ->
    dtype_max d <? (if relabel then zlen req else list_max req) = false ->
    labelmap_read st keys req true relabel d = Ok (OComb a) ->
    a = map (fun key => map (lm_label req relabel) (lm_raw st key)) keys.
  Proof.
    intros Hne Hd Hcap H. unfold labelmap_read in H.
    destruct (need_remap st req true relabel) eqn:En.
    - (* remap *)
      assert (Hpl : map (lm_plane st (unsigned_dtype (2 ^ s_bits st - 1))) keys = map (lm_raw st) keys).
      { apply map_ext. intro key. apply lm_plane_raw; [apply unsigned_dtype_wf|apply idt_holds]. }
      rewrite Hpl in H.
      rewrite (map_res_all_ok _ (fun pl => map (lm_label req (negb (true && negb relabel))) pl)) in H.
      + cbn [bind] in H. inversion H. rewrite map_map. cbn [andb]. rewrite negb_involutive. reflexivity.
      + intros pl Hpl'. apply in_map_iff in Hpl'. destruct Hpl' as [key [<- _]].
        apply remap_plane; [exact Hd|]. intros s Hs. cbn [andb]. rewrite negb_involutive.
        unfold lm_label. replace (memz s req) with true by (symmetry; apply memz_In; exact Hs).
        pose proof (index_of_bound s req Hs). pose proof (list_max_ge req s Hs). destruct relabel; lia.
    - (* no remap: every described segment is requested *)
      unfold need_remap in En. destruct relabel; cbn [negb orb] in En.
      { unfold zrange, zlen in En. exfalso.
        assert (Hne' : zlist_eqb req (zrange_from 1 (Z.to_nat (Z.of_nat (length req) - 1))) = true)
          by (destruct (zlist_eqb _ _); [reflexivity|discriminate]).
        apply zlist_eqb_length in Hne'. rewrite zrange_from_length in Hne'.
        destruct req as [|x r]; [congruence|cbn [length] in Hne'; lia]. }
      apply orb_false_iff in En. destruct En as [En _].
      assert (Hall : forall s, In s (s_segs st) -> In s req).
      { intros s Hs. destruct (memz s req) eqn:E; [apply memz_In; exact E|]. exfalso.
        assert (existsb (fun s0 => negb (memz s0 req)) (s_segs st) = true); [|congruence].
        apply existsb_exists. exists s. rewrite E. auto. }
      assert (Hmax : list_max (s_segs st) <= list_max req).
      { destruct (s_segs st) as [|x l] eqn:E; [cbn [list_max]; apply list_max_nonneg|].
        apply list_max_ge, Hall. rewrite <- E.
        destruct Hst as [_ [_ [Hp _]]].
        apply list_max_In; [congruence|]. intros v Hv. specialize (Hp v Hv). lia. }
      cbn [bind] in H. inversion H. apply map_ext. intro key.
      rewrite lm_plane_raw by (auto; lia).
      rewrite <- (map_id (lm_raw st key)) at 1. apply map_ext_in. intros v Hv.
      unfold lm_label. destruct (raw_values key v Hv) as [->|Hs].
      + destruct (memz 0 req) eqn:E; [|reflexivity]. apply memz_In in E.
        pose proof (seg_le_max 0 (req_in_segs 0 E)). lia.
      + replace (memz v req) with true by (symmetry; apply memz_In, Hall, Hs). reflexivity.
  Qed.
End LabelMap.

(* ------------------------------------------------------------------ *)
(* LABELMAP stacked read (remap to 1..n, then one-hot)                   *)
Lemma in_zrange_from n : forall a s, In s (zrange_from a n) <-> a <= s < a + Z.of_nat n.
Proof.
  induction n; intros a s; cbn [zrange_from In]; [lia|]. rewrite IHn. lia.
Qed.

Lemma NoDup_bounded_length l m : 0 <= m -> NoDup l -> (forall s, In s l -> 1 <= s <= m) -> zlen l <= m.
Proof.
  intros Hm Hnd Hb. unfold zlen.
  assert (length l <= length (zrange_from 1 (Z.to_nat m)))%nat.
  { apply NoDup_incl_length; [exact Hnd|]. intros s Hs. apply in_zrange_from. specialize (Hb s Hs). lia. }
  rewrite zrange_from_length in H. lia.
Qed.

Lemma nth_error_ext' {A} (l1 : list A) : forall l2, (forall j, nth_error l1 j = nth_error l2 j) -> l1 = l2.
Proof.
  induction l1 as [|x l1 IH]; intros [|y l2] H.
  - reflexivity.
  - specialize (H 0%nat). discriminate.
  - specialize (H 0%nat). discriminate.
  - pose proof (H 0%nat) as H0. cbn [nth_error] in H0. inversion H0. subst. f_equal.
    apply IH. intro j. exact (H (S j)).
Qed.

Lemma zlist_eqb_eq a : forall b, zlist_eqb a b = true -> a = b.
Proof.
  induction a as [|x a IHa]; intros [|y b] Hab; cbn [zlist_eqb] in *; try discriminate; [reflexivity|].
  apply andb_true_iff in Hab. destruct Hab as [H1 H2]. f_equal; [lia|apply IHa, H2].
Qed.

Lemma nth_error_nth'' {A} (l : list A) n d : (n < length l)%nat -> nth_error l n = Some (nth n l d).
Proof. revert n. induction l as [|x l IH]; intros [|n] H; cbn [length nth nth_error] in *; try lia; [reflexivity|apply IH; lia]. Qed.

(* out_array[..., range(n)] is the identity *)
Lemma gather_id {A} (chans : list (list A)) :
  map (fun j => nth (Z.to_nat j) chans []) (zrange_from 0 (length chans)) = chans.
Proof.
  apply nth_error_ext'. intro j. rewrite nth_error_map.
  destruct (Nat.lt_ge_cases j (length chans)) as [Hj|Hj].
  - rewrite zrange_from_nth_error by exact Hj. cbn [option_map].
    replace (Z.to_nat (0 + Z.of_nat j)) with j by lia. symmetry. apply nth_error_nth''. exact Hj.
  - replace (nth_error (zrange_from 0 (length chans)) j) with (@None Z)
      by (symmetry; apply nth_error_None; rewrite zrange_from_length; exact Hj).
    cbn [option_map]. symmetry. apply nth_error_None. exact Hj.
Qed.

Lemma onehot_length n d plane : 0 <= n -> length (onehot n d plane) = Z.to_nat n.
Proof. intros Hn. unfold onehot, zrange. rewrite map_length, zrange_from_length. lia. Qed.

Section LabelMapStacked.
  Variables (st : stored) (keys req : list Z).
  Hypothesis Hst : wf_labelmap st.
  Hypothesis Hreq : forallb (fun s => memz s (s_segs st)) req = true.
  Hypothesis Hne : req <> [].
  (* every 1-based request position fits the stored bit depth (always so for duplicate-free requests) *)
  Hypothesis Hcnt : zlen req <= 2 ^ s_bits st - 1.

  (* channel [first position of s] of the one-hot expansion of the remapped plane *)
  Lemma onehot_gather d raw s :
    wf_dtype d -> 1 <= dtype_max d -> In s req ->
    nth (Z.to_nat (index_of s req)) (onehot (zlen req) d (map (lm_label req true) raw)) [] =
    map (fun v => if v =? s then 1 else 0) raw.
  Proof.
    intros Hd H1 Hs. unfold onehot, zrange, zlen.
    replace (Z.to_nat (Z.of_nat (length req) + 1 - 1)) with (length req) by lia.
    rewrite (cast_id d 1) by (auto; lia).
    pose proof (index_of_bound s req Hs) as Hb. unfold zlen in Hb.
    apply nth_error_nth. rewrite nth_error_map, zrange_from_nth_error by lia.
    cbn [option_map]. f_equal. rewrite map_map. apply map_ext. intros v.
    unfold lm_label. destruct (memz v req) eqn:Em.
    - apply memz_In in Em. pose proof (index_of_bound v req Em) as Hbv.
      destruct (v =? s) eqn:Evs.
      + assert (v = s) by lia. subst v.
        replace (index_of s req + 1 =? 1 + Z.of_nat (Z.to_nat (index_of s req))) with true by lia. reflexivity.
      + destruct (index_of v req + 1 =? 1 + Z.of_nat (Z.to_nat (index_of s req))) eqn:Ei; [|reflexivity]. exfalso.
        pose proof (index_of_nth_error v req Em) as Hn. pose proof (index_of_nth_error s req Hs) as Hn'.
        replace (index_of v req) with (index_of s req) in Hn by lia. rewrite Hn' in Hn. inversion Hn. lia.
    - destruct (v =? s) eqn:Evs.
      + assert (v = s) by lia. subst v. exfalso.
        assert (memz s req = true) by (apply memz_In; exact Hs). congruence.
      + replace (0 =? 1 + Z.of_nat (Z.to_nat (index_of s req))) with false by lia. reflexivity.
  Qed.

  Lemma remap_stacked_plane key :
    lookup_all (remap_table st req false false (unsigned_dtype (2 ^ s_bits st - 1))) (lm_raw st key) =
    Ok (map (lm_label req true) (lm_raw st key)).
  Proof.
    apply (remap_plane st req Hst Hreq false false); [apply unsigned_dtype_wf|].
    intros s Hs. cbn [andb negb]. unfold lm_label.
    replace (memz s req) with true by (symmetry; apply memz_In; exact Hs).
    pose proof (index_of_bound s req Hs).
    destruct Hst as [_ [Hb _]].
    assert (Hp16 : 2 ^ s_bits st <= 2 ^ 16) by (apply Z.pow_le_mono_r; lia). change (2 ^ 16) with 65536 in Hp16.
    assert (0 < 2 ^ s_bits st) by (apply Z.pow_pos_nonneg; lia).
    pose proof (unsigned_dtype_fits (2 ^ s_bits st - 1)). lia.
  Qed.

  Lemma need_remap_stacked relabel : need_remap st req false relabel = true.
  Proof.
    unfold need_remap. cbn [negb orb]. apply negb_true_iff.
    destruct (zlist_eqb req (zrange 1 (zlen req))) eqn:E; [|reflexivity]. exfalso.
    apply zlist_eqb_length in E. unfold zrange, zlen in E. rewrite zrange_from_length in E.
    destruct req; [congruence|cbn [length] in E; lia].
  Qed.

  (* stacked read of a label map: what labelmap_read reduces to *)
  Lemma labelmap_stacked_eq (relabel : bool) d :
    wf_dtype d -> 1 <= dtype_max d ->
    labelmap_read st keys req false relabel d =
    Ok (OStack (map (fun key => map (fun s => map (fun v => if v =? s then 1 else 0) (lm_raw st key)) req) keys)).
  Proof.
    intros Hd H1. unfold labelmap_read. rewrite need_remap_stacked.
    set (idt := unsigned_dtype (2 ^ s_bits st - 1)) in *.
    assert (Hpl : map (lm_plane st idt) keys = map (lm_raw st) keys).
    { apply map_ext. intro key. apply (lm_plane_raw st req Hst); [apply unsigned_dtype_wf|apply (idt_holds st req Hst Hreq)]. }
    rewrite Hpl.
    rewrite (map_res_all_ok _ (fun pl => map (lm_label req true) pl)).
    2:{ intros pl Hin. apply in_map_iff in Hin. destruct Hin as [key [<- _]]. apply remap_stacked_plane. }
    cbn [bind]. rewrite map_map.
    destruct (existsb _ _) eqn:Eex.
    { exfalso. apply existsb_exists in Eex. destruct Eex as [pl [Hpl' Eex]].
      apply existsb_exists in Eex. destruct Eex as [v [Hv Ev]].
      apply in_map_iff in Hpl'. destruct Hpl' as [key [<- _]].
      apply in_map_iff in Hv. destruct Hv as [v0 [<- Hv0]].
      unfold lm_label in Ev. destruct (memz v0 req) eqn:Em.
      - apply memz_In in Em. pose proof (index_of_bound v0 req Em). lia.
      - unfold zlen in Ev. lia. }
    f_equal. f_equal. rewrite map_map.
    set (fp := map (fun s => index_of s req) req).
    assert (Hg : map (fun key => map (fun j => nth (Z.to_nat j) (onehot (zlen req) d (map (lm_label req true) (lm_raw st key))) []) fp) keys =
                 map (fun key => map (fun s => map (fun v => if v =? s then 1 else 0) (lm_raw st key)) req) keys).
    { apply map_ext. intro key. unfold fp. rewrite map_map. apply map_ext_in. intros s Hs.
      apply onehot_gather; auto. }
    destruct (zlist_eqb fp (zrange 0 (zlen req))) eqn:Efp.
    - rewrite <- Hg. apply map_ext. intro key.
      apply zlist_eqb_eq in Efp. rewrite Efp. unfold zrange, zlen.
      replace (Z.to_nat (Z.of_nat (length req) - 0)) with (length req) by lia.
      pose proof (onehot_length (zlen req) d (map (lm_label req true) (lm_raw st key))) as Hl.
      unfold zlen in Hl. rewrite Nat2Z.id in Hl. rewrite <- Hl at 2 by lia.
      symmetry. apply gather_id.
    - rewrite map_map. exact Hg.
  Qed.

  (* stacked_channel for label maps: channel k is the mask {pixel value = k-th requested number} *)
  Lemma labelmap_stacked (relabel : bool) d a :
    wf_dtype d -> 1 <= dtype_max d ->
    labelmap_read st keys req false relabel d = Ok (OStack a) ->
    a = map (fun key => map (fun s => map (fun v => if v =? s then 1 else 0) (lm_raw st key)) req) keys.
  Proof. intros Hd H1 H. rewrite (labelmap_stacked_eq relabel d Hd H1) in H. inversion H. reflexivity. Qed.
End LabelMapStacked.

Lemma req_count st req : wf_labelmap st -> forallb (fun s => memz s (s_segs st)) req = true -> NoDup req ->
  zlen req <= 2 ^ s_bits st - 1.
Proof.
  intros Hst Hreq Hnd. destruct Hst as [H0 [Hb [Hp H3]]].
  assert (0 < 2 ^ s_bits st) by (apply Z.pow_pos_nonneg; lia).
  apply NoDup_bounded_length; [lia|exact Hnd|].
  intros s Hs. specialize (Hp s (req_in_segs st req Hreq s Hs)). lia.
Qed.


(* ------------------------------------------------------------------ *)
(* glue: entry points -> _get_pixels_by_seg_frame -> branches           *)
Lemma read_ok e am st keys req o r :
  read e am st keys req o = Ok r ->
  req <> [] /\ policy e am st keys = None /\
  unique_frames (segtype_eqb (s_ty st) LABELMAP) (s_frames st) = true /\
  seg_frame st keys req o = Ok r.
Proof.
  unfold read. intros H.
  destruct (zlen req =? 0) eqn:E0; [discriminate|].
  assert (Hne : req <> []) by (intro E; subst; cbn in E0; discriminate).
  destruct e; cbn [policy] in *;
    repeat match type of H with
      | (if ?c then _ else _) = _ => let E := fresh "E" in destruct c eqn:E; try discriminate
      | match ?c with Some _ => _ | None => _ end = _ => let E := fresh "E" in destruct c eqn:E; try discriminate
      end;
    repeat split; auto;
    try (destruct (unique_frames _ _); [reflexivity|discriminate]).
Qed.

(* empty requests and empty key lists are always refused *)
Lemma read_empty_req e am st keys o : read e am st keys [] o = Err "ValueError".
Proof. reflexivity. Qed.

Lemma seg_frame_labelmap st keys req o d r :
  s_ty st = LABELMAP -> wf_opts o -> seg_frame st keys req o = Ok (d, r) ->
  forallb (fun s => memz s (s_segs st)) req = true /\ wf_dtype d /\
  dtype_max d <? max_output_val st req (o_combine o) (o_relabel o) (o_rescale o) = false /\
  labelmap_read st keys req (o_combine o) (o_relabel o) d = Ok r.
Proof.
  intros Hty Ho H. unfold seg_frame in H. rewrite Hty in H. cbn [segtype_eqb andb negb] in H.
  rewrite andb_false_r in H. cbn [andb] in H.
  destruct (forallb _ req) eqn:Ef; cbn [negb] in H; [|discriminate].
  set (mv := max_output_val st req (o_combine o) (o_relabel o) (o_rescale o)) in *.
  set (d0 := match o_dtype o with Some d => d | None => unsigned_dtype mv end) in *.
  assert (Hd0 : wf_dtype d0).
  { unfold d0. destruct (o_dtype o) eqn:E; [apply Ho; exact E|apply unsigned_dtype_wf]. }
  destruct (negb (kind_ok d0)); [discriminate|].
  destruct (dtype_max d0 <? mv) eqn:Ecap; [discriminate|].
  destruct (labelmap_read st keys req (o_combine o) (o_relabel o) d0) eqn:El; cbn [bind] in H; [|discriminate].
  inversion H. subst. auto.
Qed.

Lemma labelmap_read_shape st keys req (comb relabel : bool) d r :
  labelmap_read st keys req comb relabel d = Ok r ->
  if comb then exists a, r = OComb a else exists a, r = OStack a.
Proof.
  unfold labelmap_read. intros H.
  destruct (if need_remap st req comb relabel then _ else _) as [pl|k]; cbn [bind] in H; [|discriminate].
  destruct comb; [inversion H; eauto|].
  destruct (existsb _ pl); [discriminate|inversion H; eauto].
Qed.

Lemma max_output_val_labelmap st req (comb relabel rescale : bool) :
  s_ty st = LABELMAP ->
  max_output_val st req comb relabel rescale =
  if comb then (if relabel then zlen req else list_max req) else 1.
Proof. intros H. unfold max_output_val. rewrite H. cbn [segtype_eqb andb]. reflexivity. Qed.

Lemma labelmap_combined_read st keys req o d r :
  wf_labelmap st -> s_ty st = LABELMAP -> wf_opts o -> o_combine o = true -> req <> [] ->
  seg_frame st keys req o = Ok (d, r) ->
  r = OComb (map (fun key => map (lm_label req (o_relabel o)) (lm_raw st key)) keys).
Proof.
  intros Hst Hty Ho Hc Hne H.
  destruct (seg_frame_labelmap _ _ _ _ _ _ Hty Ho H) as [Hreq [Hd [Hcap Hl]]].
  rewrite Hc in *. rewrite (max_output_val_labelmap _ _ _ _ _ Hty) in Hcap.
  destruct (labelmap_read_shape _ _ _ _ _ _ _ Hl) as [a ->]. f_equal.
  eapply labelmap_combined; eauto.
Qed.

(* stacked read of a label map; the request may repeat segment numbers *)
Lemma labelmap_stacked_read_gen st keys req o d r :
  wf_labelmap st -> s_ty st = LABELMAP -> wf_opts o -> o_combine o = false -> req <> [] ->
  zlen req <= 2 ^ s_bits st - 1 ->
  seg_frame st keys req o = Ok (d, r) ->
  r = OStack (map (fun key => map (fun s => map (fun v => if v =? s then 1 else 0) (lm_raw st key)) req) keys).
Proof.
  intros Hst Hty Ho Hc Hne Hcnt H.
  destruct (seg_frame_labelmap _ _ _ _ _ _ Hty Ho H) as [Hreq [Hd [Hcap Hl]]].
  rewrite Hc in *. rewrite (max_output_val_labelmap _ _ _ _ _ Hty) in Hcap.
  destruct (labelmap_read_shape _ _ _ _ _ _ _ Hl) as [a ->]. f_equal.
  eapply labelmap_stacked; eauto. lia.
Qed.

Lemma labelmap_stacked_read st keys req o d r :
  wf_labelmap st -> s_ty st = LABELMAP -> wf_opts o -> o_combine o = false -> req <> [] -> NoDup req ->
  seg_frame st keys req o = Ok (d, r) ->
  r = OStack (map (fun key => map (fun s => map (fun v => if v =? s then 1 else 0) (lm_raw st key)) req) keys).
Proof.
  intros Hst Hty Ho Hc Hne Hnd H.
  destruct (seg_frame_labelmap _ _ _ _ _ _ Hty Ho H) as [Hreq _].
  eapply labelmap_stacked_read_gen; eauto. apply req_count; auto.
Qed.

(* consequences of the pixel equations: unrequested segments never appear *)
Lemma lm_label_cases req relabel v :
  lm_label req relabel v = 0 /\ ~ In v req \/
  In v req /\ lm_label req relabel v = (if relabel then index_of v req + 1 else v).
Proof.
  unfold lm_label. destruct (memz v req) eqn:E.
  - right. split; [apply memz_In; exact E|reflexivity].
  - left. split; [reflexivity|]. intro H. apply memz_In in H. congruence.
Qed.

Lemma Forall2_impl' {A B} (R Q : A -> B -> Prop) l l' :
  Forall2 R l l' -> (forall x y, R x y -> Q x y) -> Forall2 Q l l'.
Proof. intros H HI. induction H; constructor; auto. Qed.

(* BINARY: combined read, full statement at the level of _get_pixels_by_seg_frame *)
Lemma binary_combined_read st keys req o d a :
  wf_binary st -> wf_opts o -> o_combine o = true ->
  seg_frame st keys req o = Ok (d, OComb a) ->
  Forall2 (fun key plane =>
    length plane = Z.to_nat (s_npix st) /\
    forall p, (p < Z.to_nat (s_npix st))%nat ->
      (nth p plane 0 = 0 <-> forall f k, ~ req_covers st key req p f k) /\
      (nth p plane 0 <> 0 -> exists f k, req_covers st key req p f k /\
                                         nth p plane 0 = label_at (o_relabel o) k (fseg f)) /\
      (forall f k, req_covers st key req p f k -> label_at (o_relabel o) k (fseg f) <= nth p plane 0))
    keys a.
Proof.
  intros Hst Ho Hc H. rewrite (seg_frame_binary_combine st keys req o Hst Hc) in H.
  destruct (forallb _ req) eqn:Hreq; cbn [negb] in H; [|discriminate].
  destruct (negb (kind_ok _)); [discriminate|].
  destruct (dtype_max _ <? _) eqn:Hcap; [discriminate|].
  destruct (map_res _ keys) as [pl|k] eqn:Em; cbn [bind] in H; [|discriminate].
  inversion H. subst. apply map_res_Ok in Em.
  eapply Forall2_impl'; [exact Em|]. intros key plane Hk. cbn beta in Hk.
  split.
  - eapply (binary_plane_length st req o); eauto.
  - intros p Hp.
    assert (Hall := binary_combined_pixel st req o).
    edestruct Hall as [_ Hrest]; eauto.
Qed.

Lemma binary_overlap_read st keys req o :
  wf_binary st -> wf_opts o -> o_combine o = true -> o_skip o = false ->
  (seg_frame st keys req o = Err "RuntimeError" <->
   (forallb (fun s => memz s (s_segs st)) req = true /\
    (exists d, seg_frame st keys req (mkOpts true (o_relabel o) true (o_rescale o) (o_dtype o)) = Ok d) /\
    exists key p, In key keys /\ (p < Z.to_nat (s_npix st))%nat /\
                  (2 <= cnt p (join_plane st key (chan_table req true (o_relabel o))))%nat)).
Proof.
  intros Hst Ho Hc Hs.
  assert (Ho' : wf_opts (mkOpts true (o_relabel o) true (o_rescale o) (o_dtype o))) by (intros d Hd; apply Ho; exact Hd).
  rewrite (seg_frame_binary_combine st keys req o Hst Hc).
  rewrite (seg_frame_binary_combine st keys req (mkOpts true (o_relabel o) true (o_rescale o) (o_dtype o)) Hst (eq_refl true)).
  cbn [o_relabel o_rescale o_dtype o_skip].
  destruct (forallb _ req) eqn:Hreq; cbn [negb]; [|split; [discriminate|intros [H _]; discriminate]].
  set (d := match o_dtype o with Some d => d | None => unsigned_dtype (max_output_val st req true (o_relabel o) (o_rescale o)) end).
  destruct (negb (kind_ok d)); [split; [discriminate|intros [_ [[x H] _]]; discriminate]|].
  destruct (dtype_max d <? _) eqn:Hcap; [split; [discriminate|intros [_ [[x H] _]]; discriminate]|].
  pose proof (binary_overlap_refused st keys req o Hst Ho Hreq Hcap Hs) as Hov.
  cbv zeta in Hov. fold d in Hov.
  assert (Htot : exists pl, map_res (fun key => combine_loop false (s_maxfrac st) true d
                   (join_plane st key (chan_table req true (o_relabel o))) (zeros (s_npix st))) keys = Ok pl).
  { clear Hov. induction keys as [|key ks IH]; cbn [map_res]; [eauto|].
    destruct (binary_skip_total st req (mkOpts true (o_relabel o) true (o_rescale o) (o_dtype o)) key (eq_refl true)) as [pl Hpl].
    cbn [o_relabel o_rescale o_dtype o_skip o_combine] in Hpl. fold d in Hpl. rewrite Hpl. cbn [bind].
    destruct IH as [pls ->]. cbn [bind]. eauto. }
  destruct Htot as [pl Hpl]. rewrite Hpl. cbn [bind].
  destruct (map_res _ keys) as [pl2|k] eqn:Em; cbn [bind].
  - split; [discriminate|]. intros [_ [_ Hex]]. apply Hov in Hex. discriminate.
  - split.
    + intros H. inversion H. subst. split; [reflexivity|]. split; [eauto|]. apply Hov. reflexivity.
    + intros [_ [_ Hex]]. apply Hov in Hex. inversion Hex. reflexivity.
Qed.
