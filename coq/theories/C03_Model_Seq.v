(* C03 - model, part 3: HISTORIES - several requests, one after the other, to ONE opened
   image object.
   Mirrors (src/highdicom/image.py, current tree): get_volume_geometry() and get_volume()
   of an image read what the object stores (the frame look-up table built once when the
   object is constructed / opened, the shared functional groups, the frames) and leave
   nothing behind: _get_stacked_volume_geometry arranges the frames anew for every request
   and keeps no result.  The state of an object, as far as these requests are concerned,
   is therefore the record [stored] of C03_Model.v, and serving a request returns that
   state unchanged together with the answer.  [serve] is written as a state transition on
   purpose: the statement "the answer to a request does not depend on what the object was
   asked before" is then a theorem about [serve_all] (C03_Proofs_Seq.v), and a version of
   the code that did keep something between requests would have to change [serve].
   Tolerances (rtol / atol), the way a volume is assembled (combined / per segment) and
   copies made of the object between requests (copy.deepcopy, pickle, from_dataset) are
   NOT inputs of the model (value semantics; on the regular stacks the harness draws the
   tolerances do not change any outcome).
   NO proofs in this file. *)
From Coq Require Import String ZArith List Bool QArith.
From HD Require Import Base.Val C03_Model C03_Model_PM.
Import ListNotations.
Open Scope Z_scope.

(* one request: get_volume_geometry(allow_missing_positions=am)
             or get_volume(slice_start, slice_end, row_start, row_end, column_start,
                           column_end, as_indices, allow_missing_positions=am) *)
Inductive req : Type :=
| ReqGeom (am : bool)
| ReqVol (am : bool) (ss se rs re cs ce : option Z) (ai : bool).

(* what the request returns, as a typed value (for the theorems) ... *)
Inductive answer : Type :=
| AnsGeom (g : res (option (aff * (Z * Z * Z))))
| AnsVol (v : res ((Z * Z * Z) * aff * list plane)).

Definition answer_of (st : stored) (r : req) : answer :=
  match r with
  | ReqGeom am => AnsGeom (get_volume_geometry am st)
  | ReqVol am ss se rs re cs ce ai => AnsVol (get_volume am st ss se rs re cs ce ai)
  end.

(* ... and as observed by the correspondence run *)
Definition vanswer (a : answer) : val :=
  match a with
  | AnsGeom g => vgeometry g
  | AnsVol v => vvolume v
  end.

(* serving one request: (state afterwards, answer) *)
Definition serve (st : stored) (r : req) : stored * answer := (st, answer_of st r).

Fixpoint serve_all (st : stored) (rs : list req) : stored * list answer :=
  match rs with
  | [] => (st, [])
  | r :: rs' => let '(st1, a) := serve st r in
                let '(st2, l) := serve_all st1 rs' in
                (st2, a :: l)
  end.

(* [get_volume() of a twin object that was never asked anything; answer 1; answer 2; ...] *)
Definition run_stored_seq (st : stored) (rs : list req) : val :=
  VL (vvolume (get_volume true st None None None None None None false)
      :: map vanswer (snd (serve_all st rs))).

(* the same for a parametric map (a refusal of the constructor is the whole result) *)
Definition run_pm_seq (r : res stored) (rs : list req) : val :=
  match r with
  | Err k => VErr k
  | Ok st => run_stored_seq st rs
  end.
