(* C03 - property theorems.  Statements, `exact <lemma>`, Print Assumptions.
   Geometry is exact over Q; "=v=" / aeq are componentwise Qeq.
   doc_bound = the documented zero-based meaning of a sub-volume argument
   (None = outside the documented range), see C03_Proofs.v. *)
From Coq Require Import String ZArith List Bool QArith.
From HD Require Import Base.Val Base.PySlice C03_Model C03_Proofs C03_Proofs_Geom.
From HD Require Base.Lin3.
Import ListNotations.
Open Scope Z_scope.

(* ---- subregion_origin, integer part: the standardisers ------------------ *)
(* every documented (1-based / 0-based / negative / None) slice request is
   standardised to exactly its documented meaning; empty ones are refused *)
Theorem C03_slice_documented : forall ss se n ai s e, 1 <= n ->
  doc_bound ai false n ss = Some s -> doc_bound ai true n se = Some e ->
  std_slice ss se n ai = if s <? e then Ok (s, e) else Err "ValueError"%string.
Proof. exact std_slice_documented. Qed.
Print Assumptions C03_slice_documented.

(* exact characterisation of acceptance (hence of every refusal) *)
Theorem C03_slice_accept_iff : forall ss se n ai s e,
  std_slice ss se n ai = Ok (s, e) <->
  (zero_ok ai ss = true /\ zero_ok ai se = true /\ end_in_range ai n se = true /\
   s = norm_start ai n ss /\ e = norm_end ai n se /\ s < e).
Proof. exact std_slice_ok_iff. Qed.
Print Assumptions C03_slice_accept_iff.

Theorem C03_slice_accepted_bounds : forall ss se n ai s e, 1 <= n ->
  std_slice ss se n ai = Ok (s, e) -> s < e <= n /\ (0 <= s \/ doc_bound ai false n ss = None).
Proof. exact std_slice_ok_bounds. Qed.
Print Assumptions C03_slice_accepted_bounds.

(* FULL clause would be: every accepted request yields 0 <= s.  The faithful
   model refutes it (slice_start below -n is let through, negative); the
   caller then refuses such a request (checked on the real code by the
   vol_sub_err stratum), so no voxel is misplaced. *)
Theorem C03_slice_start_nonnegative_refuted :
  exists ss se n ai s e, std_slice ss se n ai = Ok (s, e) /\ s < 0.
Proof. exact std_slice_negative_start_refuted. Qed.
Print Assumptions C03_slice_start_nonnegative_refuted.

Theorem C03_row_column_accept_iff : forall rs re cs ce rows cols ai oi r, 1 <= rows -> 1 <= cols ->
  std_rc rs re cs ce rows cols ai oi = Ok r <->
  (start_ok ai rows rs = true /\ end_ok ai rows re = true /\
   start_ok ai cols cs = true /\ end_ok ai cols ce = true /\
   let o := if oi then 0 else 1 in
   r = (rc_start ai rows rs + o, rc_end ai rows re + o, rc_start ai cols cs + o, rc_end ai cols ce + o)).
Proof. exact std_rc_ok_iff. Qed.
Print Assumptions C03_row_column_accept_iff.

(* ---- subregion_origin, geometric part ----------------------------------- *)
Theorem C03_subregion_origin : forall A f0 f1 f2 i j k,
  physZ (sub_aff A f0 f1 f2) i j k =v= physZ A (f0 + i) (f1 + j) (f2 + k).
Proof. exact sub_aff_physZ. Qed.
Print Assumptions C03_subregion_origin.

Theorem C03_subregion_compose : forall A f0 f1 f2 i j k,
  physZ (sub_aff (sub_aff A f0 0 0) 0 f1 f2) i j k =v= physZ A (f0 + i) (f1 + j) (f2 + k).
Proof. exact sub_aff_compose. Qed.
Print Assumptions C03_subregion_compose.

(* the same identity over any commutative ring (Base/Lin3) *)
Theorem C03_subregion_origin_ring :
  forall (R : Type) (rO rI : R) (radd rmul rsub : R -> R -> R) (ropp : R -> R),
  ring_theory rO rI radd rmul rsub ropp eq ->
  forall (A : Lin3.aff R) (f0 f1 f2 s0 s1 s2 i j k : R),
  Lin3.phys R radd rmul (Lin3.getitem_aff R radd rmul A f0 f1 f2 s0 s1 s2) i j k =
  Lin3.phys R radd rmul A (radd f0 (rmul i s0)) (radd f1 (rmul j s1)) (radd f2 (rmul k s2)).
Proof. exact Lin3.getitem_fixes_voxels. Qed.
Print Assumptions C03_subregion_origin_ring.

Theorem C03_region_first_voxel : forall a b n f z, 0 <= a -> a < b <= n ->
  slice_first_size (Some a) (Some b) n = Some (f, z) -> f = a /\ z = b - a.
Proof. exact slice_first_size_spec. Qed.
Print Assumptions C03_region_first_voxel.

(* ---- self_consistent: get_volume vs get_volume_geometry ------------------ *)
Theorem C03_get_volume_self_consistent : forall am st ss se rs re cs ce ai sh A' arr,
  get_volume am st ss se rs re cs ce ai = Ok (sh, A', arr) ->
  exists G n0 idx r0 r1 c0 c1 s e f0 z0 f1 z1 f2 z2,
    stacked_full am st = Ok (G, n0, idx) /\
    std_rc rs re cs ce (st_rows st) (st_cols st) ai true = Ok (r0, r1, c0, c1) /\
    std_slice ss se n0 ai = Ok (s, e) /\
    slice_first_size (Some s) (Some e) n0 = Some (f0, z0) /\
    slice_first_size (Some r0) (Some r1) (st_rows st) = Some (f1, z1) /\
    slice_first_size (Some c0) (Some c1) (st_cols st) = Some (f2, z2) /\
    sh = (z0, z1, z2) /\ A' = sub_aff (sub_aff G f0 0 0) 0 f1 f2 /\
    get_volume_geometry am st = Ok (Some (G, (n0, st_rows st, st_cols st))).
Proof. exact get_volume_inv. Qed.
Print Assumptions C03_get_volume_self_consistent.

(* ---- volume_roundtrip ---------------------------------------------------- *)
Open Scope Q_scope.
(* index assigned on read-back to input plane i when plane j is the origin *)
Theorem C03_plane_index : forall (pos d0 d1 d2 : v3) (s0 s1 s2 : Q) (sg : Z),
  vdot d1 d1 == 1 -> vdot d2 d2 == 1 -> vdot d1 d2 == 0 ->
  d0 =v= vscale (inject_Z sg) (vcross d1 d2) -> 0 < s0 ->
  forall i j : Z,
  rne ((vdot (normal d2 d1) (physZ (vol_aff pos d0 d1 d2 s0 s1 s2) i 0 0) -
        vdot (normal d2 d1) (physZ (vol_aff pos d0 d1 d2 s0 s1 s2) j 0 0)) / s0)
  = (sg * (i - j))%Z.
Proof. exact plane_index. Qed.
Print Assumptions C03_plane_index.

(* voxel_fixed, stated on the building blocks of stacked_full (geometry rebuilt
   from the recorded attributes with plane j as origin); the list plumbing that
   selects j = the plane of minimal distance is tied by correspondence only.
   FULL statement (not proved): for st = seg_from_volume ..., stacked_full true st
   = Ok (G, n0, idx) -> every stored plane i with index k satisfies
   physZ G k r c =v= physZ A i r c. *)
Theorem C03_voxel_fixed_partial : forall (pos d0 d1 d2 : v3) (s0 s1 s2 : Q) (sg : Z),
  (sg = 1 \/ sg = -1)%Z ->
  vdot d1 d1 == 1 -> vdot d2 d2 == 1 -> vdot d1 d2 == 0 ->
  d0 =v= vscale (inject_Z sg) (vcross d1 d2) ->
  forall i j r c : Z,
  physZ (attr_aff (physZ (vol_aff pos d0 d1 d2 s0 s1 s2) j 0 0) d2 d1 s1 s2 s0) (sg * (i - j)) r c
  =v= physZ (vol_aff pos d0 d1 d2 s0 s1 s2) i r c.
Proof. exact voxel_fixed. Qed.
Print Assumptions C03_voxel_fixed_partial.

Theorem C03_roundtrip_rh_affine : forall pos d0 d1 d2 s0 s1 s2,
  d0 =v= vcross d1 d2 ->
  aeq (attr_aff (physZ (vol_aff pos d0 d1 d2 s0 s1 s2) 0 0 0) d2 d1 s1 s2 s0)
      (vol_aff pos d0 d1 d2 s0 s1 s2).
Proof. exact roundtrip_rh_affine. Qed.
Print Assumptions C03_roundtrip_rh_affine.

Theorem C03_roundtrip_lh_affine : forall pos d0 d1 d2 s0 s1 s2 S,
  d0 =v= vscale (-1) (vcross d1 d2) ->
  let A := vol_aff pos d0 d1 d2 s0 s1 s2 in
  aeq (attr_aff (physZ A (S - 1) 0 0) d2 d1 s1 s2 s0)
      (Aff (vscale (-1) (a0 A)) (a1 A) (a2 A) (physZ A (S - 1) 0 0)).
Proof. exact roundtrip_lh_affine. Qed.
Print Assumptions C03_roundtrip_lh_affine.

(* aligned source stack, planes at p0 + m sbs n in any order; omitted planes
   only change which m occur, not the formula *)
Theorem C03_source_plane_index : forall (p0 rowcos colcos : v3) (sbs : Q) (mi mj : Z),
  vdot rowcos rowcos == 1 -> vdot colcos colcos == 1 -> vdot rowcos colcos == 0 -> 0 < sbs ->
  let n := normal rowcos colcos in
  let plane m := vadd p0 (vscale (inject_Z m * sbs) n) in
  rne ((vdot n (plane mi) - vdot n (plane mj)) / sbs) = (mi - mj)%Z.
Proof. exact source_plane_index. Qed.
Print Assumptions C03_source_plane_index.

Theorem C03_source_voxel_fixed_partial : forall (p0 rowcos colcos : v3) (spr spc sbs : Q) (mi mj r c : Z),
  let n := normal rowcos colcos in
  let plane m := vadd p0 (vscale (inject_Z m * sbs) n) in
  physZ (attr_aff (plane mj) rowcos colcos spr spc sbs) (mi - mj) r c =v=
  vadd (vadd (plane mi) (vscale (inject_Z r * spr) colcos)) (vscale (inject_Z c * spc) rowcos).
Proof. exact source_voxel_fixed. Qed.
Print Assumptions C03_source_voxel_fixed_partial.

(* ---- pyramid_extent -------------------------------------------------------- *)
Theorem C03_pyramid_extent : forall R C spr spc fs ls l,
  pyramid R C spr spc fs = Ok ls -> In l ls ->
  let '(Rl, Cl, a, b) := l in
  (1 <= R -> 1 <= C -> 1 <= Rl /\ 1 <= Cl)%Z /\
  ((1 <= R)%Z -> (1 <= C)%Z -> inject_Z Rl * a == inject_Z R * spr /\ inject_Z Cl * b == inject_Z C * spc).
Proof. exact pyramid_levels_ok. Qed.
Print Assumptions C03_pyramid_extent.

Theorem C03_pyramid_level_size : forall R C spr spc f Rl Cl a b, 0 < f ->
  pyr_level R C spr spc f = (Rl, Cl, a, b) ->
  inject_Z Rl * f <= inject_Z R /\ inject_Z R < (inject_Z Rl + 1) * f /\
  inject_Z Cl * f <= inject_Z C /\ inject_Z C < (inject_Z Cl + 1) * f.
Proof. exact pyr_level_size. Qed.
Print Assumptions C03_pyramid_level_size.

(* ---- non-vacuity -------------------------------------------------------------- *)
(* an oblique, LEFT-handed, anisotropic volume with an omitted interior slice:
   the hypotheses of the round-trip theorems hold, the model accepts it, and a
   1-based sub-volume request is accepted *)
Definition ex_d0 := V3 0 (4 # 5) (-3 # 5).
Definition ex_d1 := V3 1 0 0.
Definition ex_d2 := V3 0 (3 # 5) (4 # 5).
Definition ex_arr : list plane := [[[0;1];[0;0]]; [[0;0];[0;0]]; [[2;0];[0;1]]]%Z.
Definition ex_st := seg_from_volume (V3 (1 # 2) (-3) 7) ex_d0 ex_d1 ex_d2 (5 # 2) (1 # 2) (3 # 4) 2 2 ex_arr true.

Example C03_example :
  vdot ex_d1 ex_d1 == 1 /\ vdot ex_d2 ex_d2 == 1 /\ vdot ex_d1 ex_d2 == 0 /\
  ex_d0 =v= vscale (inject_Z (-1)) (vcross ex_d1 ex_d2) /\
  length (st_planes ex_st) = 2%nat /\
  (exists G idx, stacked_full true ex_st = Ok (G, 3%Z, idx) /\ idx = [2; 0]%Z) /\
  (exists A' arr, get_volume true ex_st (Some 2%Z) None (Some 1%Z) (Some 2%Z) None (Some (-1)%Z) false
                  = Ok ((2, 1, 1)%Z, A', arr) /\ arr = [[[0]]; [[0]]]%Z) /\
  std_slice (Some 2%Z) None 3 false = Ok (1, 3)%Z /\
  (exists ls, pyramid 9 7 (1 # 2) (1 # 4) [3 # 2; 2] = Ok ls /\ length ls = 3%nat).
Proof.
  repeat split; try reflexivity.
  - eexists; eexists; split; [vm_compute; reflexivity|reflexivity].
  - eexists; eexists; split; [vm_compute; reflexivity|reflexivity].
  - eexists; split; [vm_compute; reflexivity|reflexivity].
Qed.
Print Assumptions C03_example.

(* ---- tiled segmentation placed by the caller ------------------------------- *)
(* whichever branch of the constructor writes TotalPixelMatrixOriginSequence
   ('spatial locations preserved' -> copied from the source image, otherwise
   written from the caller's plane position / Volume), the recorded origin is the
   caller's, in all three coordinates *)
Theorem C03_placed_origin_recorded :
  forall src_org usr_org npos rp cp o_given src_rc src_cc u_rc u_cc m_given
         src_spr src_spc u_spr u_spc srcR srcC MR MC src_th src_tw th tw o,
  placed_origin src_org usr_org npos rp cp o_given src_rc src_cc u_rc u_cc m_given
                src_spr src_spc u_spr u_spc srcR srcC MR MC src_th src_tw th tw = Ok o ->
  o =v= usr_org.
Proof. exact placed_origin_recorded. Qed.
Print Assumptions C03_placed_origin_recorded.

Theorem C03_placed_refused_iff :
  forall src_org usr_org npos rp cp o_given src_rc src_cc u_rc u_cc m_given
         src_spr src_spc u_spr u_spc srcR srcC MR MC src_th src_tw th tw k,
  placed_origin src_org usr_org npos rp cp o_given src_rc src_cc u_rc u_cc m_given
                src_spr src_spc u_spr u_spc srcR srcC MR MC src_th src_tw th tw = Err k <->
  (k = "ValueError"%string /\
   (negb (npos =? 1)%Z
    || negb ((rp =? 1)%Z && (cp =? 1)%Z)
    || (v3_eqb usr_org src_org
        && (negb o_given || (v3_eqb u_rc src_rc && v3_eqb u_cc src_cc))
        && (negb m_given || (Qeq_bool u_spr src_spr && Qeq_bool u_spc src_spc))
        && negb ((MR =? srcR)%Z && (MC =? srcC)%Z))) = true).
Proof. exact placed_origin_refused_iff. Qed.
Print Assumptions C03_placed_refused_iff.

(* every voxel of the geometry the placed segmentation reports lies where the
   caller's affine put it (single plane; any stacking direction / slice spacing) *)
Theorem C03_placed_voxel_fixed :
  forall src_org usr_org npos rp cp o_given src_rc src_cc u_rc u_cc m_given
         src_spr src_spc u_spr u_spc srcR srcC MR MC src_th src_tw th tw o,
  placed_origin src_org usr_org npos rp cp o_given src_rc src_cc u_rc u_cc m_given
                src_spr src_spc u_spr u_spc srcR srcC MR MC src_th src_tw th tw = Ok o ->
  forall rowcos colcos spr spc sbs d0 s0 (r c : Z),
  physZ (tiled_geometry o rowcos colcos spr spc sbs) 0 r c =v=
  physZ (vol_aff usr_org d0 colcos rowcos s0 spr spc) 0 r c.
Proof. exact placed_voxel_fixed. Qed.
Print Assumptions C03_placed_voxel_fixed.

(* the per-frame tile positions agree with the geometry the image reports for itself *)
Theorem C03_tile_frames_on_geometry : forall org rowcos colcos spr spc sbs MR MC th tw M omit r c p,
  In (r, c, p) (tile_frames org rowcos colcos spr spc MR MC th tw M omit) ->
  p =v= physZ (tiled_geometry org rowcos colcos spr spc sbs) 0 (r - 1) (c - 1).
Proof. exact tile_frames_on_geometry. Qed.
Print Assumptions C03_tile_frames_on_geometry.

(* non-vacuity: (a) same in-plane origin, other focal plane -> not 'preserved', the caller's z is
   recorded; (b) identical origin (written 2/4 vs 1/2), default tiles -> the source's item is copied;
   (c) identical placement but another mask shape is refused; (d) three of four 2x2 tiles of a 3x3
   mask are stored when empty tiles are omitted *)
Example C03_placed_example :
  let rc := V3 0 (-1) 0 in let cc := V3 (-1) 0 0 in
  placed_origin (V3 10 20 0) (V3 10 20 (1 # 4)) 1 1 1 true rc cc rc cc true (1#2) (1#4) (1#2) (1#4)
                5 7 5 7 2 3 2 3 = Ok (V3 10 20 (1 # 4)) /\
  placed_origin (V3 10 20 (1 # 2)) (V3 10 20 (2 # 4)) 1 1 1 true rc cc rc cc true (1#2) (1#4) (1#2) (1#4)
                5 7 5 7 2 3 2 3 = Ok (V3 10 20 (1 # 2)) /\
  placed_origin (V3 10 20 0) (V3 10 20 0) 1 1 1 true rc cc rc cc true (1#2) (1#4) (1#2) (1#4)
                5 7 4 7 2 3 2 3 = Err "ValueError"%string /\
  map (fun f => fst f) (tile_frames (V3 10 20 (1 # 4)) rc cc (1#2) (1#4) 3 3 2 2
                                    [[1;0;0];[0;0;0];[0;0;1]]%Z true) = [(1, 1); (3, 3)]%Z /\
  length (tile_frames (V3 10 20 (1 # 4)) rc cc (1#2) (1#4) 3 3 2 2 [[0;0;0];[0;0;0];[0;0;0]]%Z true) = 4%nat.
Proof. vm_compute. repeat split; reflexivity. Qed.
Print Assumptions C03_placed_example.
