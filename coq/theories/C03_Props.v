(* C03 - property theorems.  Statements, `exact <lemma>`, Print Assumptions.
   Geometry is exact over Q; "=v=" / aeq are componentwise Qeq.
   doc_bound = the documented zero-based meaning of a sub-volume argument
   (None = outside the documented range), see C03_Proofs.v. *)
From Coq Require Import String ZArith List Bool QArith.
From HD Require Import Base.Val Base.PySlice C03_Model C03_Proofs C03_Proofs_Geom C03_Proofs_Stack C03_Proofs_Sub
  C03_Proofs_Infer C03_Proofs_Strict C03_Proofs_NoHint C03_Proofs_Perm C03_Model_PM C03_Proofs_PM
  C03_Model_Seq C03_Proofs_Seq.
From HD Require Base.Lin3.
Import ListNotations.
Open Scope Z_scope.

(* ---- subregion_origin, integer part: the standardisers ------------------ *)
(* every documented (1-based / 0-based / negative / None) slice request is
   standardised to exactly its documented meaning; empty ones are refused *)
Theorem C03_slice_documented : forall ss se n ai s e, 1 <= n ->
  doc_bound ai false n ss = Some s -> doc_bound ai true n se = Some e ->
  std_slice ss se n ai = if s <? e then Ok (s, e) else Err "ValueError"%string.
Proof. exact std_slice_documented. Qed.
Print Assumptions C03_slice_documented.

(* exact characterisation of acceptance (hence of every refusal) *)
Theorem C03_slice_accept_iff : forall ss se n ai s e,
  std_slice ss se n ai = Ok (s, e) <->
  (zero_ok ai ss = true /\ zero_ok ai se = true /\ end_in_range ai n se = true /\
   s = norm_start ai n ss /\ e = norm_end ai n se /\ s < e).
Proof. exact std_slice_ok_iff. Qed.
Print Assumptions C03_slice_accept_iff.

Theorem C03_slice_accepted_bounds : forall ss se n ai s e, 1 <= n ->
  std_slice ss se n ai = Ok (s, e) -> s < e <= n /\ (0 <= s \/ doc_bound ai false n ss = None).
Proof. exact std_slice_ok_bounds. Qed.
Print Assumptions C03_slice_accepted_bounds.

(* FULL clause would be: every accepted request yields 0 <= s.  The faithful
   model refutes it (slice_start below -n is let through, negative); the
   caller then refuses such a request (checked on the real code by the
   vol_sub_err stratum), so no voxel is misplaced. *)
Theorem C03_slice_start_nonnegative_refuted :
  exists ss se n ai s e, std_slice ss se n ai = Ok (s, e) /\ s < 0.
Proof. exact std_slice_negative_start_refuted. Qed.
Print Assumptions C03_slice_start_nonnegative_refuted.

Theorem C03_row_column_accept_iff : forall rs re cs ce rows cols ai oi r, 1 <= rows -> 1 <= cols ->
  std_rc rs re cs ce rows cols ai oi = Ok r <->
  (start_ok ai rows rs = true /\ end_ok ai rows re = true /\
   start_ok ai cols cs = true /\ end_ok ai cols ce = true /\
   let o := if oi then 0 else 1 in
   r = (rc_start ai rows rs + o, rc_end ai rows re + o, rc_start ai cols cs + o, rc_end ai cols ce + o)).
Proof. exact std_rc_ok_iff. Qed.
Print Assumptions C03_row_column_accept_iff.

(* ---- subregion_origin, geometric part ----------------------------------- *)
Theorem C03_subregion_origin : forall A f0 f1 f2 i j k,
  physZ (sub_aff A f0 f1 f2) i j k =v= physZ A (f0 + i) (f1 + j) (f2 + k).
Proof. exact sub_aff_physZ. Qed.
Print Assumptions C03_subregion_origin.

Theorem C03_subregion_compose : forall A f0 f1 f2 i j k,
  physZ (sub_aff (sub_aff A f0 0 0) 0 f1 f2) i j k =v= physZ A (f0 + i) (f1 + j) (f2 + k).
Proof. exact sub_aff_compose. Qed.
Print Assumptions C03_subregion_compose.

(* the same identity over any commutative ring (Base/Lin3) *)
Theorem C03_subregion_origin_ring :
  forall (R : Type) (rO rI : R) (radd rmul rsub : R -> R -> R) (ropp : R -> R),
  ring_theory rO rI radd rmul rsub ropp eq ->
  forall (A : Lin3.aff R) (f0 f1 f2 s0 s1 s2 i j k : R),
  Lin3.phys R radd rmul (Lin3.getitem_aff R radd rmul A f0 f1 f2 s0 s1 s2) i j k =
  Lin3.phys R radd rmul A (radd f0 (rmul i s0)) (radd f1 (rmul j s1)) (radd f2 (rmul k s2)).
Proof. exact Lin3.getitem_fixes_voxels. Qed.
Print Assumptions C03_subregion_origin_ring.

Theorem C03_region_first_voxel : forall a b n f z, 0 <= a -> a < b <= n ->
  slice_first_size (Some a) (Some b) n = Some (f, z) -> f = a /\ z = b - a.
Proof. exact slice_first_size_spec. Qed.
Print Assumptions C03_region_first_voxel.

(* ---- self_consistent: get_volume vs get_volume_geometry ------------------ *)
Theorem C03_get_volume_self_consistent : forall am st ss se rs re cs ce ai sh A' arr,
  get_volume am st ss se rs re cs ce ai = Ok (sh, A', arr) ->
  exists G n0 idx r0 r1 c0 c1 s e f0 z0 f1 z1 f2 z2,
    stacked_full am st = Ok (G, n0, idx) /\
    std_rc rs re cs ce (st_rows st) (st_cols st) ai true = Ok (r0, r1, c0, c1) /\
    std_slice ss se n0 ai = Ok (s, e) /\
    slice_first_size (Some s) (Some e) n0 = Some (f0, z0) /\
    slice_first_size (Some r0) (Some r1) (st_rows st) = Some (f1, z1) /\
    slice_first_size (Some c0) (Some c1) (st_cols st) = Some (f2, z2) /\
    sh = (z0, z1, z2) /\ A' = sub_aff (sub_aff G f0 0 0) 0 f1 f2 /\
    get_volume_geometry am st = Ok (Some (G, (n0, st_rows st, st_cols st))).
Proof. exact get_volume_inv. Qed.
Print Assumptions C03_get_volume_self_consistent.

(* ---- volume_roundtrip ---------------------------------------------------- *)
Open Scope Q_scope.
(* index assigned on read-back to input plane i when plane j is the origin *)
Theorem C03_plane_index : forall (pos d0 d1 d2 : v3) (s0 s1 s2 : Q) (sg : Z),
  vdot d1 d1 == 1 -> vdot d2 d2 == 1 -> vdot d1 d2 == 0 ->
  d0 =v= vscale (inject_Z sg) (vcross d1 d2) -> 0 < s0 ->
  forall i j : Z,
  rne ((vdot (normal d2 d1) (physZ (vol_aff pos d0 d1 d2 s0 s1 s2) i 0 0) -
        vdot (normal d2 d1) (physZ (vol_aff pos d0 d1 d2 s0 s1 s2) j 0 0)) / s0)
  = (sg * (i - j))%Z.
Proof. exact plane_index. Qed.
Print Assumptions C03_plane_index.

(* voxel_fixed, stated on the building blocks of stacked_full (geometry rebuilt
   from the recorded attributes with plane j as origin); the list plumbing that
   selects j = the plane of minimal distance is tied by correspondence only.
   FULL statement: for st = seg_from_volume ..., stacked_full true st
   = Ok (G, n0, idx) and every stored plane i with index k satisfies
   physZ G k r c =v= physZ A i r c - now proved as C03_volume_stacked /
   C03_volume_roundtrip below; this building block (any origin plane j) is kept. *)
Theorem C03_voxel_fixed_partial : forall (pos d0 d1 d2 : v3) (s0 s1 s2 : Q) (sg : Z),
  (sg = 1 \/ sg = -1)%Z ->
  vdot d1 d1 == 1 -> vdot d2 d2 == 1 -> vdot d1 d2 == 0 ->
  d0 =v= vscale (inject_Z sg) (vcross d1 d2) ->
  forall i j r c : Z,
  physZ (attr_aff (physZ (vol_aff pos d0 d1 d2 s0 s1 s2) j 0 0) d2 d1 s1 s2 s0) (sg * (i - j)) r c
  =v= physZ (vol_aff pos d0 d1 d2 s0 s1 s2) i r c.
Proof. exact voxel_fixed. Qed.
Print Assumptions C03_voxel_fixed_partial.

Theorem C03_roundtrip_rh_affine : forall pos d0 d1 d2 s0 s1 s2,
  d0 =v= vcross d1 d2 ->
  aeq (attr_aff (physZ (vol_aff pos d0 d1 d2 s0 s1 s2) 0 0 0) d2 d1 s1 s2 s0)
      (vol_aff pos d0 d1 d2 s0 s1 s2).
Proof. exact roundtrip_rh_affine. Qed.
Print Assumptions C03_roundtrip_rh_affine.

Theorem C03_roundtrip_lh_affine : forall pos d0 d1 d2 s0 s1 s2 S,
  d0 =v= vscale (-1) (vcross d1 d2) ->
  let A := vol_aff pos d0 d1 d2 s0 s1 s2 in
  aeq (attr_aff (physZ A (S - 1) 0 0) d2 d1 s1 s2 s0)
      (Aff (vscale (-1) (a0 A)) (a1 A) (a2 A) (physZ A (S - 1) 0 0)).
Proof. exact roundtrip_lh_affine. Qed.
Print Assumptions C03_roundtrip_lh_affine.

(* aligned source stack, planes at p0 + m sbs n in any order; omitted planes
   only change which m occur, not the formula *)
Theorem C03_source_plane_index : forall (p0 rowcos colcos : v3) (sbs : Q) (mi mj : Z),
  vdot rowcos rowcos == 1 -> vdot colcos colcos == 1 -> vdot rowcos colcos == 0 -> 0 < sbs ->
  let n := normal rowcos colcos in
  let plane m := vadd p0 (vscale (inject_Z m * sbs) n) in
  rne ((vdot n (plane mi) - vdot n (plane mj)) / sbs) = (mi - mj)%Z.
Proof. exact source_plane_index. Qed.
Print Assumptions C03_source_plane_index.

Theorem C03_source_voxel_fixed_partial : forall (p0 rowcos colcos : v3) (spr spc sbs : Q) (mi mj r c : Z),
  let n := normal rowcos colcos in
  let plane m := vadd p0 (vscale (inject_Z m * sbs) n) in
  physZ (attr_aff (plane mj) rowcos colcos spr spc sbs) (mi - mj) r c =v=
  vadd (vadd (plane mi) (vscale (inject_Z r * spr) colcos)) (vscale (inject_Z c * spc) rowcos).
Proof. exact source_voxel_fixed. Qed.
Print Assumptions C03_source_voxel_fixed_partial.

(* ---- pyramid_extent -------------------------------------------------------- *)
Theorem C03_pyramid_extent : forall R C spr spc fs ls l,
  pyramid R C spr spc fs = Ok ls -> In l ls ->
  let '(Rl, Cl, a, b) := l in
  (1 <= R -> 1 <= C -> 1 <= Rl /\ 1 <= Cl)%Z /\
  ((1 <= R)%Z -> (1 <= C)%Z -> inject_Z Rl * a == inject_Z R * spr /\ inject_Z Cl * b == inject_Z C * spc).
Proof. exact pyramid_levels_ok. Qed.
Print Assumptions C03_pyramid_extent.

Theorem C03_pyramid_level_size : forall R C spr spc f Rl Cl a b, 0 < f ->
  pyr_level R C spr spc f = (Rl, Cl, a, b) ->
  inject_Z Rl * f <= inject_Z R /\ inject_Z R < (inject_Z Rl + 1) * f /\
  inject_Z Cl * f <= inject_Z C /\ inject_Z C < (inject_Z Cl + 1) * f.
Proof. exact pyr_level_size. Qed.
Print Assumptions C03_pyramid_level_size.

(* ---- non-vacuity -------------------------------------------------------------- *)
(* an oblique, LEFT-handed, anisotropic volume with an omitted interior slice:
   the hypotheses of the round-trip theorems hold, the model accepts it, and a
   1-based sub-volume request is accepted *)
Definition ex_d0 := V3 0 (4 # 5) (-3 # 5).
Definition ex_d1 := V3 1 0 0.
Definition ex_d2 := V3 0 (3 # 5) (4 # 5).
Definition ex_arr : list plane := [[[0;1];[0;0]]; [[0;0];[0;0]]; [[2;0];[0;1]]]%Z.
Definition ex_st := seg_from_volume (V3 (1 # 2) (-3) 7) ex_d0 ex_d1 ex_d2 (5 # 2) (1 # 2) (3 # 4) 2 2 ex_arr true.

Example C03_example :
  vdot ex_d1 ex_d1 == 1 /\ vdot ex_d2 ex_d2 == 1 /\ vdot ex_d1 ex_d2 == 0 /\
  ex_d0 =v= vscale (inject_Z (-1)) (vcross ex_d1 ex_d2) /\
  length (st_planes ex_st) = 2%nat /\
  (exists G idx, stacked_full true ex_st = Ok (G, 3%Z, idx) /\ idx = [2; 0]%Z) /\
  (exists A' arr, get_volume true ex_st (Some 2%Z) None (Some 1%Z) (Some 2%Z) None (Some (-1)%Z) false
                  = Ok ((2, 1, 1)%Z, A', arr) /\ arr = [[[0]]; [[0]]]%Z) /\
  std_slice (Some 2%Z) None 3 false = Ok (1, 3)%Z /\
  (exists ls, pyramid 9 7 (1 # 2) (1 # 4) [3 # 2; 2] = Ok ls /\ length ls = 3%nat).
Proof.
  repeat split; try reflexivity.
  - eexists; eexists; split; [vm_compute; reflexivity|reflexivity].
  - eexists; eexists; split; [vm_compute; reflexivity|reflexivity].
  - eexists; split; [vm_compute; reflexivity|reflexivity].
Qed.
Print Assumptions C03_example.

(* ---- tiled segmentation placed by the caller ------------------------------- *)
(* whichever branch of the constructor writes TotalPixelMatrixOriginSequence
   ('spatial locations preserved' -> copied from the source image, otherwise
   written from the caller's plane position / Volume), the recorded origin is the
   caller's, in all three coordinates *)
Theorem C03_placed_origin_recorded :
  forall src_org usr_org npos rp cp o_given src_rc src_cc u_rc u_cc m_given
         src_spr src_spc u_spr u_spc srcR srcC MR MC src_th src_tw th tw o,
  placed_origin src_org usr_org npos rp cp o_given src_rc src_cc u_rc u_cc m_given
                src_spr src_spc u_spr u_spc srcR srcC MR MC src_th src_tw th tw = Ok o ->
  o =v= usr_org.
Proof. exact placed_origin_recorded. Qed.
Print Assumptions C03_placed_origin_recorded.

Theorem C03_placed_refused_iff :
  forall src_org usr_org npos rp cp o_given src_rc src_cc u_rc u_cc m_given
         src_spr src_spc u_spr u_spc srcR srcC MR MC src_th src_tw th tw k,
  placed_origin src_org usr_org npos rp cp o_given src_rc src_cc u_rc u_cc m_given
                src_spr src_spc u_spr u_spc srcR srcC MR MC src_th src_tw th tw = Err k <->
  (k = "ValueError"%string /\
   (negb (npos =? 1)%Z
    || negb ((rp =? 1)%Z && (cp =? 1)%Z)
    || (v3_eqb usr_org src_org
        && (negb o_given || (v3_eqb u_rc src_rc && v3_eqb u_cc src_cc))
        && (negb m_given || (Qeq_bool u_spr src_spr && Qeq_bool u_spc src_spc))
        && negb ((MR =? srcR)%Z && (MC =? srcC)%Z))) = true).
Proof. exact placed_origin_refused_iff. Qed.
Print Assumptions C03_placed_refused_iff.

(* every voxel of the geometry the placed segmentation reports lies where the
   caller's affine put it (single plane; any stacking direction / slice spacing) *)
Theorem C03_placed_voxel_fixed :
  forall src_org usr_org npos rp cp o_given src_rc src_cc u_rc u_cc m_given
         src_spr src_spc u_spr u_spc srcR srcC MR MC src_th src_tw th tw o,
  placed_origin src_org usr_org npos rp cp o_given src_rc src_cc u_rc u_cc m_given
                src_spr src_spc u_spr u_spc srcR srcC MR MC src_th src_tw th tw = Ok o ->
  forall rowcos colcos spr spc sbs d0 s0 (r c : Z),
  physZ (tiled_geometry o rowcos colcos spr spc sbs) 0 r c =v=
  physZ (vol_aff usr_org d0 colcos rowcos s0 spr spc) 0 r c.
Proof. exact placed_voxel_fixed. Qed.
Print Assumptions C03_placed_voxel_fixed.

(* the per-frame tile positions agree with the geometry the image reports for itself *)
Theorem C03_tile_frames_on_geometry : forall org rowcos colcos spr spc sbs MR MC th tw M omit r c p,
  In (r, c, p) (tile_frames org rowcos colcos spr spc MR MC th tw M omit) ->
  p =v= physZ (tiled_geometry org rowcos colcos spr spc sbs) 0 (r - 1) (c - 1).
Proof. exact tile_frames_on_geometry. Qed.
Print Assumptions C03_tile_frames_on_geometry.

(* non-vacuity: (a) same in-plane origin, other focal plane -> not 'preserved', the caller's z is
   recorded; (b) identical origin (written 2/4 vs 1/2), default tiles -> the source's item is copied;
   (c) identical placement but another mask shape is refused; (d) three of four 2x2 tiles of a 3x3
   mask are stored when empty tiles are omitted *)
Example C03_placed_example :
  let rc := V3 0 (-1) 0 in let cc := V3 (-1) 0 0 in
  placed_origin (V3 10 20 0) (V3 10 20 (1 # 4)) 1 1 1 true rc cc rc cc true (1#2) (1#4) (1#2) (1#4)
                5 7 5 7 2 3 2 3 = Ok (V3 10 20 (1 # 4)) /\
  placed_origin (V3 10 20 (1 # 2)) (V3 10 20 (2 # 4)) 1 1 1 true rc cc rc cc true (1#2) (1#4) (1#2) (1#4)
                5 7 5 7 2 3 2 3 = Ok (V3 10 20 (1 # 2)) /\
  placed_origin (V3 10 20 0) (V3 10 20 0) 1 1 1 true rc cc rc cc true (1#2) (1#4) (1#2) (1#4)
                5 7 4 7 2 3 2 3 = Err "ValueError"%string /\
  map (fun f => fst f) (tile_frames (V3 10 20 (1 # 4)) rc cc (1#2) (1#4) 3 3 2 2
                                    [[1;0;0];[0;0;0];[0;0;1]]%Z true) = [(1, 1); (3, 3)]%Z /\
  length (tile_frames (V3 10 20 (1 # 4)) rc cc (1#2) (1#4) 3 3 2 2 [[0;0;0];[0;0;0];[0;0;0]]%Z true) = 4%nat.
Proof. vm_compute. repeat split; reflexivity. Qed.
Print Assumptions C03_placed_example.

(* ======================================================================= *)
(* END TO END (C03_Proofs_Stack.v): the list plumbing of the read-back       *)
(* instantiates the building blocks above                                   *)
(* ======================================================================= *)
Open Scope Q_scope.
(* planes on a line p0 + m sp n (distinct integers m, ANY order, ANY subset):
   stacked_full accepts, the origin is the plane of minimal m, plane m gets
   volume index m - min, the number of slices is max - min + 1 *)
Theorem C03_stack_on_line : forall (rowcos colcos p0 : v3) (sp : Q),
  vdot (normal rowcos colcos) (normal rowcos colcos) == 1 -> 0 < sp ->
  forall (st : stored) (ms : list Z),
  st_rowcos st = rowcos -> st_colcos st = colcos -> st_sbs st = Some sp ->
  Forall2 (on_line (normal rowcos colcos) p0 sp) (map fst (st_planes st)) ms -> NoDup ms -> ms <> [] ->
  exists origin mmin n0,
    In mmin ms /\ (forall m, In m ms -> (0 <= m - mmin < n0)%Z) /\ In (mmin + n0 - 1)%Z ms /\
    In origin (map fst (st_planes st)) /\ on_line (normal rowcos colcos) p0 sp origin mmin /\
    stacked_full true st =
    Ok (attr_aff origin rowcos colcos (st_spr st) (st_spc st) sp, n0, map (fun m => (m - mmin)%Z) ms).
Proof. exact stacked_line. Qed.
Print Assumptions C03_stack_on_line.

(* voxel_fixed, FULL: the geometry that the segmentation of a volume reports
   (any handedness, with or without omitted empty slices) exists, has the stored
   planes at indices sg (i - j) inside [0, n0), the last index is attained, and
   places every voxel where the input affine placed it *)
Theorem C03_volume_stacked : forall (pos d0 d1 d2 : v3) (s0 s1 s2 : Q) (sg : Z),
  (sg = 1 \/ sg = -1)%Z -> vdot d1 d1 == 1 -> vdot d2 d2 == 1 -> vdot d1 d2 == 0 ->
  d0 =v= vscale (inject_Z sg) (vcross d1 d2) -> 0 < s0 ->
  forall rows cols arr omit, arr <> [] ->
  let st := seg_from_volume pos d0 d1 d2 s0 s1 s2 rows cols arr omit in
  exists j n0,
    In j (map fst (kept omit arr)) /\
    (forall i, In i (map fst (kept omit arr)) -> (0 <= sg * (i - j) < n0)%Z) /\
    (exists i, In i (map fst (kept omit arr)) /\ (sg * (i - j) = n0 - 1)%Z) /\
    stacked_full true st =
    Ok (attr_aff (physZ (vol_aff pos d0 d1 d2 s0 s1 s2) j 0 0) d2 d1 s1 s2 s0, n0,
        map (fun ip => (sg * (fst ip - j))%Z) (kept omit arr)) /\
    (forall i r c : Z,
       physZ (attr_aff (physZ (vol_aff pos d0 d1 d2 s0 s1 s2) j 0 0) d2 d1 s1 s2 s0) (sg * (i - j)) r c
       =v= physZ (vol_aff pos d0 d1 d2 s0 s1 s2) i r c).
Proof. exact volume_stacked. Qed.
Print Assumptions C03_volume_stacked.

(* volume_roundtrip + omitted_slices, FULL, over seg_from_volume and get_volume():
   get_volume() succeeds; output slice sg (i - j) holds exactly the pixels of input
   slice i and every voxel of it lies where the input put it; input slices that
   fall outside the returned range are all zero (they were omitted); every output
   slice is the image of an input slice - so every non-zero input voxel keeps its
   value and position and every other output voxel is 0 *)
Theorem C03_volume_roundtrip : forall (pos d0 d1 d2 : v3) (s0 s1 s2 : Q) (sg : Z),
  (sg = 1 \/ sg = -1)%Z -> vdot d1 d1 == 1 -> vdot d2 d2 == 1 -> vdot d1 d2 == 0 ->
  d0 =v= vscale (inject_Z sg) (vcross d1 d2) -> 0 < s0 ->
  forall rows cols arr omit,
  arr <> [] -> (1 <= rows)%Z -> (1 <= cols)%Z -> Forall (plane_shape rows cols) arr ->
  let st := seg_from_volume pos d0 d1 d2 s0 s1 s2 rows cols arr omit in
  let S := Z.of_nat (length arr) in
  exists j n0 G out,
    (0 <= j < S)%Z /\ (1 <= n0)%Z /\
    G = sub_aff (sub_aff (attr_aff (physZ (vol_aff pos d0 d1 d2 s0 s1 s2) j 0 0) d2 d1 s1 s2 s0) 0 0 0) 0 0 0 /\
    (forall ip, In ip (kept omit arr) -> (0 <= sg * (fst ip - j) < n0)%Z) /\
    get_volume true st None None None None None None false = Ok ((n0, rows, cols), G, out) /\
    length out = Z.to_nat n0 /\
    (forall i r c : Z, physZ G (sg * (i - j)) r c =v= physZ (vol_aff pos d0 d1 d2 s0 s1 s2) i r c) /\
    (forall i, (0 <= i < S)%Z -> (0 <= sg * (i - j) < n0)%Z ->
               nth (Z.to_nat (sg * (i - j))) out [] = nth (Z.to_nat i) arr []) /\
    (forall i, (0 <= i < S)%Z -> ~ (0 <= sg * (i - j) < n0)%Z ->
               nth (Z.to_nat i) arr [] = zeros_plane rows cols) /\
    (forall k, (0 <= k < n0)%Z -> exists i, (0 <= i < S)%Z /\ k = (sg * (i - j))%Z).
Proof. exact volume_roundtrip. Qed.
Print Assumptions C03_volume_roundtrip.

(* the property sentence itself: "same array and affine when the input stacks its
   planes right-handedly, the mirror image along the stacking axis otherwise" *)
Theorem C03_volume_roundtrip_rh : forall pos d0 d1 d2 s0 s1 s2 rows cols arr,
  vdot d1 d1 == 1 -> vdot d2 d2 == 1 -> vdot d1 d2 == 0 -> d0 =v= vcross d1 d2 -> 0 < s0 ->
  arr <> [] -> (1 <= rows)%Z -> (1 <= cols)%Z -> Forall (plane_shape rows cols) arr ->
  exists G,
    get_volume true (seg_from_volume pos d0 d1 d2 s0 s1 s2 rows cols arr false)
               None None None None None None false
    = Ok ((Z.of_nat (length arr), rows, cols), G, arr) /\
    aeq G (vol_aff pos d0 d1 d2 s0 s1 s2).
Proof. exact volume_roundtrip_rh. Qed.
Print Assumptions C03_volume_roundtrip_rh.

Theorem C03_volume_roundtrip_lh : forall pos d0 d1 d2 s0 s1 s2 rows cols arr,
  vdot d1 d1 == 1 -> vdot d2 d2 == 1 -> vdot d1 d2 == 0 -> d0 =v= vscale (-1) (vcross d1 d2) -> 0 < s0 ->
  arr <> [] -> (1 <= rows)%Z -> (1 <= cols)%Z -> Forall (plane_shape rows cols) arr ->
  let A := vol_aff pos d0 d1 d2 s0 s1 s2 in
  let S := Z.of_nat (length arr) in
  exists G,
    get_volume true (seg_from_volume pos d0 d1 d2 s0 s1 s2 rows cols arr false)
               None None None None None None false
    = Ok ((S, rows, cols), G, rev arr) /\
    aeq G (Aff (vscale (-1) (a0 A)) (a1 A) (a2 A) (physZ A (S - 1) 0 0)).
Proof. exact volume_roundtrip_lh. Qed.
Print Assumptions C03_volume_roundtrip_lh.

(* sub-volume requests on such a segmentation: voxel (i, r, c) of ANY accepted
   request lies where the input put voxel (j + sg (f0 + i), f1 + r, f2 + c), with
   (f0, f1, f2) the first voxel of the standardised region *)
Theorem C03_volume_subvolume_placed :
  forall pos d0 d1 d2 s0 s1 s2 sg rows cols arr omit ss se rs re cs ce ai sh A' out,
  (sg = 1 \/ sg = -1)%Z -> vdot d1 d1 == 1 -> vdot d2 d2 == 1 -> vdot d1 d2 == 0 ->
  d0 =v= vscale (inject_Z sg) (vcross d1 d2) -> 0 < s0 -> arr <> [] ->
  get_volume true (seg_from_volume pos d0 d1 d2 s0 s1 s2 rows cols arr omit) ss se rs re cs ce ai
  = Ok (sh, A', out) ->
  exists j n0 r0 r1 c0 c1 s e f0 z0 f1 z1 f2 z2,
    In j (map fst (kept omit arr)) /\
    std_rc rs re cs ce rows cols ai true = Ok (r0, r1, c0, c1) /\ std_slice ss se n0 ai = Ok (s, e) /\
    slice_first_size (Some s) (Some e) n0 = Some (f0, z0) /\
    slice_first_size (Some r0) (Some r1) rows = Some (f1, z1) /\
    slice_first_size (Some c0) (Some c1) cols = Some (f2, z2) /\
    sh = (z0, z1, z2) /\
    forall i r c : Z,
      physZ A' i r c =v= physZ (vol_aff pos d0 d1 d2 s0 s1 s2) (j + sg * (f0 + i)) (f1 + r) (f2 + c).
Proof. exact volume_subvolume_placed. Qed.
Print Assumptions C03_volume_subvolume_placed.

(* aligned source stack with a recorded slice spacing, planes at p0 + m sbs n for
   distinct integers m in ANY order, any subset stored (omitted empty slices) *)
Theorem C03_sources_stacked : forall (p0 rowcos colcos : v3) (spr spc sbs : Q) rows cols ms arr omit,
  vdot rowcos rowcos == 1 -> vdot colcos colcos == 1 -> vdot rowcos colcos == 0 -> 0 < sbs ->
  NoDup ms -> length ms = length arr -> arr <> [] ->
  let n := normal rowcos colcos in
  let plane m := vadd p0 (vscale (inject_Z m * sbs) n) in
  let st := seg_from_sources (map plane ms) rowcos colcos spr spc (Some sbs) rows cols arr omit in
  let K := keep omit (combine ms arr) in
  exists mmin n0,
    In mmin (map fst K) /\
    (forall m, In m (map fst K) -> (0 <= m - mmin < n0)%Z) /\ In (mmin + n0 - 1)%Z (map fst K) /\
    stacked_full true st =
    Ok (attr_aff (plane mmin) rowcos colcos spr spc sbs, n0, map (fun mp => (fst mp - mmin)%Z) K) /\
    (forall m r c : Z,
       physZ (attr_aff (plane mmin) rowcos colcos spr spc sbs) (m - mmin) r c =v=
       vadd (vadd (plane m) (vscale (inject_Z r * spr) colcos)) (vscale (inject_Z c * spc) rowcos)).
Proof. exact sources_stacked. Qed.
Print Assumptions C03_sources_stacked.

(* tiled images: self-consistency and sub-region placement of get_volume *)
Theorem C03_get_volume_tiled_placed : forall G R C M ss se rs re cs ce ai sh A' arr,
  get_volume_tiled G R C M ss se rs re cs ce ai = Ok (sh, A', arr) ->
  exists r0 r1 c0 c1 s e,
    std_rc rs re cs ce R C ai true = Ok (r0, r1, c0, c1) /\ std_slice ss se 1 ai = Ok (s, e) /\
    (0 <= r0 < r1)%Z /\ (0 <= c0 < c1)%Z /\ (r0 < R)%Z /\ (c0 < C)%Z /\
    sh = (1, r1 - r0, c1 - c0)%Z /\ A' = sub_aff G 0 r0 c0 /\
    arr = [map (cut c0 (c1 - c0)) (cut r0 (r1 - r0) M)] /\
    (forall i j : Z, physZ A' 0 i j =v= physZ G 0 (r0 + i) (c0 + j)).
Proof. exact get_volume_tiled_inv. Qed.
Print Assumptions C03_get_volume_tiled_placed.

(* non-vacuity of the end-to-end theorems: the oblique LEFT-handed volume ex_st
   above (interior slice omitted) meets every hypothesis of C03_volume_roundtrip
   and comes back mirrored with the omitted slice as zeros; a shuffled source
   stack with a gap is accepted by stacked_full; a tiled request is accepted *)
Example C03_roundtrip_example :
  Forall (plane_shape 2 2) ex_arr /\
  map fst (kept true ex_arr) = [0; 2]%Z /\
  (exists G, get_volume true ex_st None None None None None None false
             = Ok ((3, 2, 2)%Z, G, [[[2;0];[0;1]]; [[0;0];[0;0]]; [[0;1];[0;0]]]%Z)) /\
  (let rc := V3 1 0 0 in let cc := V3 0 1 0 in
   let plane m := vadd (V3 1 2 3) (vscale (inject_Z m * (5 # 2)) (normal rc cc)) in
   exists G, stacked_full true (seg_from_sources (map plane [4; 0; 3]%Z) rc cc (1 # 2) (1 # 4) (Some (5 # 2)) 1 2
                                                  [[[1;0]]; [[0;1]]; [[0;0]]]%Z true)
             = Ok (G, 5%Z, [4; 0]%Z)) /\
  (exists A', get_volume_tiled (tiled_geometry (V3 10 20 0) (V3 0 (-1) 0) (V3 (-1) 0 0) (1 # 2) (1 # 4) None)
                               3 3 [[1;0;0];[0;0;0];[0;0;1]]%Z None None (Some 2%Z) None None (Some (-1)%Z) false
              = Ok ((1, 2, 2)%Z, A', [[[0;0];[0;0]]]%Z)).
Proof.
  split; [repeat constructor|]. split; [reflexivity|].
  split; [eexists; vm_compute; reflexivity|]. split; [eexists; vm_compute; reflexivity|].
  eexists; vm_compute; reflexivity.
Qed.
Print Assumptions C03_roundtrip_example.

(* ---- pyramids from several source images and / or several pixel arrays ------- *)
(* several sources: every level records exactly the size, spacing and origin of its
   source image; one source with several masks: every level has the source's origin
   and rows * spacing = rows_0 * spacing_0 (same for columns) *)
Theorem C03_pyramid_multi : forall srcs pix ls, pyramid_multi srcs pix = Ok ls ->
  srcs <> [] /\ pix <> [] /\
  ((2 <= length srcs)%nat -> ls = srcs /\ (length pix = 1%nat \/ length pix = length srcs)) /\
  (forall R C spr spc org, srcs = [(R, C, spr, spc, org)] ->
     length ls = length pix /\ hd (R, C) pix = (R, C) /\
     forall l, In l ls ->
       let '(Rl, Cl, a, b, o) := l in
       o = org /\ In (Rl, Cl) pix /\
       ((1 <= Rl)%Z -> (1 <= Cl)%Z ->
        inject_Z Rl * a == inject_Z R * spr /\ inject_Z Cl * b == inject_Z C * spc)).
Proof. exact pyramid_multi_ok. Qed.
Print Assumptions C03_pyramid_multi.

Example C03_pyramid_multi_example :
  (exists ls, pyramid_multi [(12, 16, 1 # 2, 1 # 4, V3 10 20 0)%Z] [(12, 16); (6, 8); (5, 3)]%Z = Ok ls /\
              length ls = 3%nat) /\
  pyramid_multi [(12, 16, 1 # 2, 1 # 4, V3 10 20 0); (6, 8, 1 # 1, 1 # 2, V3 10 20 0)]%Z [(12, 16)]%Z
  = Ok [(12, 16, 1 # 2, 1 # 4, V3 10 20 0); (6, 8, 1 # 1, 1 # 2, V3 10 20 0)]%Z /\
  pyramid_multi [(12, 16, 1 # 2, 1 # 4, V3 10 20 0); (6, 8, 1 # 1, 1 # 2, V3 10 20 0)]%Z [(12, 16); (6, 7)]%Z
  = Err "ValueError"%string.
Proof. split; [eexists; split; [vm_compute; reflexivity|reflexivity]|]. split; vm_compute; reflexivity. Qed.
Print Assumptions C03_pyramid_multi_example.

(* ---- the sub-volume IS the documented slice of the full volume -------------------- *)
(* for ANY stored image: an accepted request whose standardised slice start is >= 0
   (every documented request, see C03_slice_documented / C03_slice_accepted_bounds)
   returns full[s:e, r0:r1, c0:c1] of what get_volume() returns without arguments *)
Open Scope Z_scope.
Theorem C03_subvolume_is_slice : forall am st ss se rs re cs ce ai sh A' out,
  1 <= st_rows st -> 1 <= st_cols st ->
  get_volume am st ss se rs re cs ce ai = Ok (sh, A', out) ->
  exists G n0 full s e r0 r1 c0 c1,
    get_volume am st None None None None None None ai = Ok ((n0, st_rows st, st_cols st), G, full) /\
    std_slice ss se n0 ai = Ok (s, e) /\
    std_rc rs re cs ce (st_rows st) (st_cols st) ai true = Ok (r0, r1, c0, c1) /\
    (0 <= s ->
       sh = (e - s, r1 - r0, c1 - c0) /\ r0 < r1 /\ c0 < c1 /\
       out = map (fun p => map (cut c0 (c1 - c0)) (cut r0 (r1 - r0) p)) (cut s (e - s) full)).
Proof. exact subvolume_is_slice. Qed.
Print Assumptions C03_subvolume_is_slice.

(* ---- aligned source stack WITHOUT a recorded slice spacing ------------------------- *)
(* a complete stack p0 + m sbs n, m ranging over S >= 2 consecutive integers in ANY
   order: the spacing the constructor infers (sorted differences, allow_missing=False
   branch of get_volume_positions) is sbs, and the read-back - with any subset of the
   planes stored - places every voxel where its source image put it *)
Open Scope Q_scope.
Theorem C03_sources_inferred : forall (p0 rowcos colcos : v3) (spr spc sbs : Q) rows cols ms m0 arr omit,
  vdot rowcos rowcos == 1 -> vdot colcos colcos == 1 -> vdot rowcos colcos == 0 -> 0 < sbs ->
  NoDup ms -> length ms = length arr -> (2 <= length ms)%nat ->
  (forall m, In m ms -> (m0 <= m <= m0 + Z.of_nat (length ms) - 1)%Z) ->
  let n := normal rowcos colcos in
  let plane m := vadd p0 (vscale (inject_Z m * sbs) n) in
  let st := seg_from_sources (map plane ms) rowcos colcos spr spc None rows cols arr omit in
  let K := keep omit (combine ms arr) in
  exists sp' mmin n0,
    sp' == sbs /\ st_sbs st = Some sp' /\
    In mmin (map fst K) /\
    (forall m, In m (map fst K) -> (0 <= m - mmin < n0)%Z) /\ In (mmin + n0 - 1)%Z (map fst K) /\
    stacked_full true st =
    Ok (attr_aff (plane mmin) rowcos colcos spr spc sp', n0, map (fun mp => (fst mp - mmin)%Z) K) /\
    (forall m r c : Z,
       physZ (attr_aff (plane mmin) rowcos colcos spr spc sp') (m - mmin) r c =v=
       vadd (vadd (plane m) (vscale (inject_Z r * spr) colcos)) (vscale (inject_Z c * spc) rowcos)).
Proof. exact sources_inferred. Qed.
Print Assumptions C03_sources_inferred.

Example C03_sources_inferred_example :
  let rc := V3 1 0 0 in let cc := V3 0 1 0 in
  let plane m := vadd (V3 1 2 3) (vscale (inject_Z m * (5 # 2)) (normal rc cc)) in
  let st := seg_from_sources (map plane [2; 0; 3; 1]%Z) rc cc (1 # 2) (1 # 4) None 1 2
                             [[[1;0]]; [[0;0]]; [[0;1]]; [[0;0]]]%Z true in
  (exists s, st_sbs st = Some s /\ s == 5 # 2) /\
  (exists G, stacked_full true st = Ok (G, 2%Z, [0; 1]%Z)) /\
  (exists A' , get_volume true st (Some 2%Z) None None None (Some (-1)%Z) None false
               = Ok ((1, 1, 1)%Z, A', [[[1]]]%Z)).
Proof.
  split; [eexists; split; [vm_compute; reflexivity|reflexivity]|].
  split; eexists; vm_compute; reflexivity.
Qed.
Print Assumptions C03_sources_inferred_example.

(* ---- the strict read-back (allow_missing_positions = False, the default of the plain
   Image interface) on a COMPLETE stack ------------------------------------------------ *)
(* planes p0 + m sp n with m ranging over S >= 2 consecutive integers in any order, slice
   spacing absent or recorded: accepted, S slices, plane m at the rank-based index m - m0,
   origin at plane m0, spacing (Qeq) sp - the strict branch agrees with the gap-tolerant one *)
Theorem C03_stack_complete_strict : forall (rowcos colcos p0 : v3) (sp : Q),
  vdot (normal rowcos colcos) (normal rowcos colcos) == 1 -> 0 < sp ->
  forall (st : stored) (ms : list Z) (m0 : Z),
  st_rowcos st = rowcos -> st_colcos st = colcos ->
  (st_sbs st = None \/ exists h, st_sbs st = Some h /\ h == sp) ->
  Forall2 (on_line (normal rowcos colcos) p0 sp) (map fst (st_planes st)) ms -> NoDup ms ->
  (2 <= length ms)%nat ->
  (forall m, In m ms -> (m0 <= m <= m0 + Z.of_nat (length ms) - 1)%Z) ->
  exists origin sp',
    sp' == sp /\ In origin (map fst (st_planes st)) /\ on_line (normal rowcos colcos) p0 sp origin m0 /\
    stacked_full false st =
    Ok (attr_aff origin rowcos colcos (st_spr st) (st_spc st) sp', Z.of_nat (length ms),
        map (fun m => (m - m0)%Z) ms).
Proof. exact stacked_complete. Qed.
Print Assumptions C03_stack_complete_strict.

Theorem C03_volume_stacked_strict : forall (pos d0 d1 d2 : v3) (s0 s1 s2 : Q) (sg : Z),
  (sg = 1 \/ sg = -1)%Z -> vdot d1 d1 == 1 -> vdot d2 d2 == 1 -> vdot d1 d2 == 0 ->
  d0 =v= vscale (inject_Z sg) (vcross d1 d2) -> 0 < s0 ->
  forall rows cols arr, (2 <= length arr)%nat ->
  let A := vol_aff pos d0 d1 d2 s0 s1 s2 in
  let st := seg_from_volume pos d0 d1 d2 s0 s1 s2 rows cols arr false in
  let S := Z.of_nat (length arr) in
  let j := (if sg =? 1 then 0 else S - 1)%Z in
  exists sp',
    sp' == s0 /\
    stacked_full false st =
    Ok (attr_aff (physZ A j 0 0) d2 d1 s1 s2 sp', S,
        map (fun i => (sg * (i - j))%Z) (zrange_from 0 (length arr))) /\
    (forall i r c : Z,
       physZ (attr_aff (physZ A j 0 0) d2 d1 s1 s2 sp') (sg * (i - j)) r c =v= physZ A i r c).
Proof. exact volume_stacked_strict. Qed.
Print Assumptions C03_volume_stacked_strict.

Example C03_strict_example :
  exists G, stacked_full false (seg_from_volume (V3 (1 # 2) (-3) 7) ex_d0 ex_d1 ex_d2 (5 # 2) (1 # 2) (3 # 4) 2 2 ex_arr false)
            = Ok (G, 3%Z, [2; 1; 0]%Z).
Proof. eexists. vm_compute. reflexivity. Qed.
Print Assumptions C03_strict_example.

(* ---- placed tiled segmentation, end to end through get_volume --------------------- *)
(* any accepted get_volume request on the image the constructor produced returns the
   requested region of the mask and puts its voxel (0, i, j) where the CALLER's affine
   (any stacking direction d0 / slice spacing s0) put mask pixel (r0 + i, c0 + j) *)
Theorem C03_placed_get_volume :
  forall src_org usr_org npos rp cp o_given src_rc src_cc u_rc u_cc m_given
         src_spr src_spc u_spr u_spc srcR srcC MR MC src_th src_tw th tw o,
  placed_origin src_org usr_org npos rp cp o_given src_rc src_cc u_rc u_cc m_given
                src_spr src_spc u_spr u_spc srcR srcC MR MC src_th src_tw th tw = Ok o ->
  forall rowcos colcos spr spc sbs M ss se rs re cs ce ai sh A' arr,
  get_volume_tiled (tiled_geometry o rowcos colcos spr spc sbs) MR MC M ss se rs re cs ce ai = Ok (sh, A', arr) ->
  exists r0 r1 c0 c1,
    std_rc rs re cs ce MR MC ai true = Ok (r0, r1, c0, c1) /\
    (0 <= r0 < r1)%Z /\ (0 <= c0 < c1)%Z /\ sh = (1, r1 - r0, c1 - c0)%Z /\
    arr = [map (cut c0 (c1 - c0)) (cut r0 (r1 - r0) M)] /\
    forall d0 s0 (i j : Z),
      physZ A' 0 i j =v= physZ (vol_aff usr_org d0 colcos rowcos s0 spr spc) 0 (r0 + i) (c0 + j).
Proof. exact placed_get_volume. Qed.
Print Assumptions C03_placed_get_volume.

(* every non-empty tile of the mask is stored (every tile when nothing is omitted) *)
Theorem C03_tile_frames_complete : forall org rowcos colcos spr spc MR MC th tw M omit r0 c0,
  In r0 (tile_starts MR th) -> In c0 (tile_starts MC tw) ->
  (omit = false \/ tile_nonempty M th tw (r0, c0) = true) ->
  In ((r0 + 1)%Z, (c0 + 1)%Z, tile_pos org rowcos colcos spr spc r0 c0)
     (tile_frames org rowcos colcos spr spc MR MC th tw M omit).
Proof. exact tile_frames_complete. Qed.
Print Assumptions C03_tile_frames_complete.

(* ---- gap-tolerant read-back WITHOUT a recorded slice spacing --------------------------- *)
(* (plain images with missing frames and no SpacingBetweenSlices) planes p0 + m sp n with
   distinct integers m in any order, two of them adjacent (so sp IS the smallest gap), sp above
   the equality tolerance of spatial.py: the spacing found as the minimum sorted difference is
   (Qeq) sp, and origin / indices / number of slices are those of C03_stack_on_line *)
Open Scope Q_scope.
Theorem C03_stack_on_line_nohint : forall (rowcos colcos p0 : v3) (sp : Q),
  vdot (normal rowcos colcos) (normal rowcos colcos) == 1 -> 0 < sp -> EQTOL < sp ->
  forall (st : stored) (ms : list Z) (a : Z),
  st_rowcos st = rowcos -> st_colcos st = colcos -> st_sbs st = None ->
  Forall2 (on_line (normal rowcos colcos) p0 sp) (map fst (st_planes st)) ms -> NoDup ms ->
  In a ms -> In (a + 1)%Z ms ->
  exists origin mmin n0 sp',
    sp' == sp /\ In mmin ms /\ (forall m, In m ms -> (0 <= m - mmin < n0)%Z) /\ In (mmin + n0 - 1)%Z ms /\
    In origin (map fst (st_planes st)) /\ on_line (normal rowcos colcos) p0 sp origin mmin /\
    stacked_full true st =
    Ok (attr_aff origin rowcos colcos (st_spr st) (st_spc st) sp', n0, map (fun m => (m - mmin)%Z) ms).
Proof. exact stacked_nohint. Qed.
Print Assumptions C03_stack_on_line_nohint.

Example C03_nohint_example :
  let rc := V3 1 0 0 in let cc := V3 0 1 0 in
  let plane m := vadd (V3 1 2 3) (vscale (inject_Z m * (5 # 2)) (normal rc cc)) in
  exists G, stacked_full true (Stored rc cc (1 # 2) (1 # 4) None 1 2
                                      [(plane 4%Z, [[1;0]]%Z); (plane 0%Z, [[0;1]]%Z); (plane 1%Z, [[2;2]]%Z)])
            = Ok (G, 5%Z, [4; 0; 1]%Z) /\ a0 G =v= vscale (5 # 2) (normal rc cc).
Proof. eexists. split; [vm_compute; reflexivity|]. vm_compute. repeat split; intros; discriminate. Qed.
Print Assumptions C03_nohint_example.

(* ---- volumes rearranged through the Volume API before they are encoded ------------------ *)
(* permute_spatial_axes / swap_spatial_axes / flip_spatial / to_patient_orientation hand the
   constructor numpy VIEWS (transposed, negative strides) with a rearranged affine.  In the model
   (value semantics; memory layout is not an input) they move no voxel and change no value. *)
Open Scope Z_scope.
(* acceptance of permute_spatial_axes, exactly; every refusal is a ValueError *)
Theorem C03_permute_accept_iff : forall p V,
  ((exists V', qvol_permute p V = Ok V') <->
   (exists p0 p1 p2, p = [p0; p1; p2] /\
      0 <= p0 <= 2 /\ 0 <= p1 <= 2 /\ 0 <= p2 <= 2 /\ p0 <> p1 /\ p0 <> p2 /\ p1 <> p2)) /\
  ((forall V', qvol_permute p V <> Ok V') -> qvol_permute p V = Err "ValueError"%string).
Proof. exact permute_accept_full. Qed.
Print Assumptions C03_permute_accept_iff.

(* every voxel (j0, j1, j2) of a well-shaped volume is the voxel of the permuted volume whose
   index along result axis k is the input index along axis p_k - same value, same physical
   position - and the result is well shaped with the extents permuted like the axes *)
Theorem C03_permute_voxel_fixed : forall (V V' : qvol) (n0 n1 n2 p0 p1 p2 : Z),
  1 <= n0 -> 1 <= n1 -> 1 <= n2 -> well3 n0 n1 n2 (q_arr V) ->
  qvol_permute [p0; p1; p2] V = Ok V' ->
  (forall j0 j1 j2 : Z,
     physZ (qvol_aff V') (sel3 p0 j0 j1 j2) (sel3 p1 j0 j1 j2) (sel3 p2 j0 j1 j2)
     =v= physZ (qvol_aff V) j0 j1 j2) /\
  (forall j0 j1 j2 : Z, 0 <= j0 < n0 -> 0 <= j1 < n1 -> 0 <= j2 < n2 ->
     vox (q_arr V') (sel3 p0 j0 j1 j2) (sel3 p1 j0 j1 j2) (sel3 p2 j0 j1 j2) = vox (q_arr V) j0 j1 j2) /\
  well3 (sel3 p0 n0 n1 n2) (sel3 p1 n0 n1 n2) (sel3 p2 n0 n1 n2) (q_arr V') /\
  arr_shape (q_arr V') = (sel3 p0 n0 n1 n2, sel3 p1 n0 n1 n2, sel3 p2 n0 n1 n2).
Proof. exact permute_voxel_fixed_full. Qed.
Print Assumptions C03_permute_voxel_fixed.

Theorem C03_flip_accept_iff : forall axes V,
  (exists V', qvol_flip axes V = Ok V') <->
  ((length axes <= 3)%nat /\ Forall (fun a => 0 <= a <= 2) axes).
Proof. exact qvol_flip_accept_iff. Qed.
Print Assumptions C03_flip_accept_iff.

(* swap_spatial_axes(a, b) = permute_spatial_axes with the transposition of a and b *)
Theorem C03_swap_accept_iff : forall a b V,
  (exists V', qvol_swap a b V = Ok V') <-> (0 <= a <= 2 /\ 0 <= b <= 2 /\ a <> b).
Proof. exact qvol_swap_accept_iff. Qed.
Print Assumptions C03_swap_accept_iff.

(* flip_spatial: voxel (j0, j1, j2) is the voxel of the result with the index mirrored along
   every listed axis - same value, same physical position; the shape is unchanged *)
Theorem C03_flip_voxel_fixed : forall (V V' : qvol) (axes : list Z) (n0 n1 n2 : Z),
  1 <= n0 -> 1 <= n1 -> 1 <= n2 -> well3 n0 n1 n2 (q_arr V) ->
  qvol_flip axes V = Ok V' ->
  (forall j0 j1 j2 : Z,
     physZ (qvol_aff V') (flip_ix (flipped axes 0) n0 j0) (flip_ix (flipped axes 1) n1 j1)
           (flip_ix (flipped axes 2) n2 j2)
     =v= physZ (qvol_aff V) j0 j1 j2) /\
  (forall j0 j1 j2 : Z, 0 <= j0 < n0 -> 0 <= j1 < n1 -> 0 <= j2 < n2 ->
     vox (q_arr V') (flip_ix (flipped axes 0) n0 j0) (flip_ix (flipped axes 1) n1 j1)
         (flip_ix (flipped axes 2) n2 j2) = vox (q_arr V) j0 j1 j2) /\
  well3 n0 n1 n2 (q_arr V') /\ arr_shape (q_arr V') = (n0, n1, n2).
Proof. exact flip_voxel_fixed_full. Qed.
Print Assumptions C03_flip_voxel_fixed.

(* END TO END: V (any axis order, e.g. a NIfTI-style (x, y, z) array) --permute_spatial_axes-->
   V' (unit orthogonal in-plane axes, stacked right- (lh = false) or left-handedly (lh = true))
   --Segmentation(pixel_array = V'), get_volume()--> every voxel of V is found with its value at
   the physical position V gave it (index mirrored along axis 0 when V' is left handed) *)
Open Scope Q_scope.
Theorem C03_permuted_volume_roundtrip : forall (V V' : qvol) p0 p1 p2 (n0 n1 n2 : Z) (lh : bool),
  (1 <= n0)%Z -> (1 <= n1)%Z -> (1 <= n2)%Z -> well3 n0 n1 n2 (q_arr V) ->
  qvol_permute [p0; p1; p2] V = Ok V' ->
  vdot (q_d1 V') (q_d1 V') == 1 -> vdot (q_d2 V') (q_d2 V') == 1 -> vdot (q_d1 V') (q_d2 V') == 0 ->
  q_d0 V' =v= hand lh (vcross (q_d1 V') (q_d2 V')) -> 0 < q_s0 V' ->
  let m0 := sel3 p0 n0 n1 n2 in
  exists G out,
    get_volume true (seg_from_qvol V' false) None None None None None None false
    = Ok ((m0, sel3 p1 n0 n1 n2, sel3 p2 n0 n1 n2), G, out) /\
    forall j0 j1 j2 : Z, (0 <= j0 < n0)%Z -> (0 <= j1 < n1)%Z -> (0 <= j2 < n2)%Z ->
      physZ G (flip_ix lh m0 (sel3 p0 j0 j1 j2)) (sel3 p1 j0 j1 j2) (sel3 p2 j0 j1 j2)
      =v= physZ (qvol_aff V) j0 j1 j2 /\
      vox out (flip_ix lh m0 (sel3 p0 j0 j1 j2)) (sel3 p1 j0 j1 j2) (sel3 p2 j0 j1 j2)
      = vox (q_arr V) j0 j1 j2.
Proof. exact permuted_volume_roundtrip. Qed.
Print Assumptions C03_permuted_volume_roundtrip.

(* the same for flip_spatial (to_patient_orientation = flip_spatial, then permute_spatial_axes) *)
Theorem C03_flipped_volume_roundtrip : forall (V V' : qvol) axes (n0 n1 n2 : Z) (lh : bool),
  (1 <= n0)%Z -> (1 <= n1)%Z -> (1 <= n2)%Z -> well3 n0 n1 n2 (q_arr V) ->
  qvol_flip axes V = Ok V' ->
  vdot (q_d1 V') (q_d1 V') == 1 -> vdot (q_d2 V') (q_d2 V') == 1 -> vdot (q_d1 V') (q_d2 V') == 0 ->
  q_d0 V' =v= hand lh (vcross (q_d1 V') (q_d2 V')) -> 0 < q_s0 V' ->
  exists G out,
    get_volume true (seg_from_qvol V' false) None None None None None None false = Ok ((n0, n1, n2), G, out) /\
    forall j0 j1 j2 : Z, (0 <= j0 < n0)%Z -> (0 <= j1 < n1)%Z -> (0 <= j2 < n2)%Z ->
      physZ G (flip_ix lh n0 (flip_ix (flipped axes 0) n0 j0)) (flip_ix (flipped axes 1) n1 j1)
            (flip_ix (flipped axes 2) n2 j2)
      =v= physZ (qvol_aff V) j0 j1 j2 /\
      vox out (flip_ix lh n0 (flip_ix (flipped axes 0) n0 j0)) (flip_ix (flipped axes 1) n1 j1)
          (flip_ix (flipped axes 2) n2 j2)
      = vox (q_arr V) j0 j1 j2.
Proof. exact flipped_volume_roundtrip. Qed.
Print Assumptions C03_flipped_volume_roundtrip.

(* non-vacuity: an anisotropic 2 x 3 x 2 (x, y, z) volume (L, P, F) brought to slices-first order
   by permute_spatial_axes([2, 1, 0]) meets every hypothesis of C03_permuted_volume_roundtrip and
   its array is really rearranged; the same volume flipped along axes 0 and 2 *)
Example C03_permuted_example : exists V',
  qvol_permute [2; 1; 0]%Z perm_example_V = Ok V' /\
  well3 2 3 2 (q_arr perm_example_V) /\
  vdot (q_d1 V') (q_d1 V') == 1 /\ vdot (q_d2 V') (q_d2 V') == 1 /\ vdot (q_d1 V') (q_d2 V') == 0 /\
  q_d0 V' =v= hand false (vcross (q_d1 V') (q_d2 V')) /\ 0 < q_s0 V' /\
  q_arr V' = [[[1; 0]; [0; 5]; [3; 0]]; [[0; 4]; [2; 0]; [0; 6]]]%Z /\
  vox (q_arr V') 1 1 0 = vox (q_arr perm_example_V) 0 1 1.
Proof. exact perm_example. Qed.
Print Assumptions C03_permuted_example.

Example C03_flipped_example : exists V',
  qvol_flip [0; 2]%Z perm_example_V = Ok V' /\
  q_pos V' =v= V3 (-20 + (4 # 5)) (-35) (60 - (5 # 2)) /\
  q_arr V' = [[[4; 0]; [0; 5]; [6; 0]]; [[0; 1]; [2; 0]; [0; 3]]]%Z.
Proof. exact flip_example. Qed.
Print Assumptions C03_flipped_example.

(* ======================================================================= *)
(* PARAMETRIC MAPS (C03_Model_PM.v, C03_Proofs_PM.v): derived images whose    *)
(* planes are aligned to source images or placed by explicit plane positions  *)
(* ======================================================================= *)
Open Scope Q_scope.
(* the constructor refuses exactly a number of plane positions (the caller's when
   given, else the sources') that is not the number of planes of the pixel array *)
Theorem C03_pm_refused_iff : forall src_ps src_rc src_cc src_spr src_spc src_sbs u_ps u_or u_pm rows cols arr k,
  pm_stored src_ps src_rc src_cc src_spr src_spc src_sbs u_ps u_or u_pm rows cols arr = Err k <->
  (length (pm_positions src_ps u_ps) <> length arr /\ k = "ValueError"%string).
Proof. exact pm_stored_err. Qed.
Print Assumptions C03_pm_refused_iff.

(* what an accepted parametric map records: orientation / measures / positions are
   the caller's when given, else the sources'; nothing is sorted, omitted or inferred *)
Theorem C03_pm_recorded : forall src_ps src_rc src_cc src_spr src_spc src_sbs u_ps u_or u_pm rows cols arr st,
  pm_stored src_ps src_rc src_cc src_spr src_spc src_sbs u_ps u_or u_pm rows cols arr = Ok st <->
  (length (pm_positions src_ps u_ps) = length arr /\
   st = Stored (fst (pm_orientation src_rc src_cc u_or)) (snd (pm_orientation src_rc src_cc u_or))
               (fst (fst (pm_measures src_spr src_spc src_sbs u_pm)))
               (snd (fst (pm_measures src_spr src_spc src_sbs u_pm)))
               (snd (pm_measures src_spr src_spc src_sbs u_pm)) rows cols
               (combine (pm_positions src_ps u_ps) arr)).
Proof. exact pm_stored_ok. Qed.
Print Assumptions C03_pm_recorded.

(* frame k records plane position k AND holds plane k of the pixel array, whatever
   the order in which the planes were listed *)
Theorem C03_pm_frames_paired : forall src_ps src_rc src_cc src_spr src_spc src_sbs u_ps u_or u_pm rows cols arr st,
  pm_stored src_ps src_rc src_cc src_spr src_spc src_sbs u_ps u_or u_pm rows cols arr = Ok st ->
  length (st_planes st) = length arr /\
  forall k dp da, (k < length arr)%nat ->
    nth k (st_planes st) (dp, da) = (nth k (pm_positions src_ps u_ps) dp, nth k arr da).
Proof. exact pm_frames_paired. Qed.
Print Assumptions C03_pm_frames_paired.

(* END TO END over pm_stored -> get_volume_positions -> stacked_full -> get_volume:
   planes at p0 + m sbs n for distinct integers m listed in ANY order (ascending,
   descending, interleaved), unit orthogonal in-plane axes, a recorded slice
   spacing: the read-back accepts, plane k of the pixel array is output slice
   m_k - min m, every voxel of it lies where plane position k put it, and the
   slices in the gaps are zero *)
Theorem C03_pm_roundtrip : forall (p0 rowcos colcos : v3) (spr spc sbs : Q) rows cols ms arr
    src_ps src_rc src_cc src_spr src_spc src_sbs u_ps u_or u_pm st,
  vdot rowcos rowcos == 1 -> vdot colcos colcos == 1 -> vdot rowcos colcos == 0 -> 0 < sbs ->
  NoDup ms -> arr <> [] -> (1 <= rows)%Z -> (1 <= cols)%Z -> Forall (plane_shape rows cols) arr ->
  let n := normal rowcos colcos in
  let plane m := vadd p0 (vscale (inject_Z m * sbs) n) in
  pm_stored src_ps src_rc src_cc src_spr src_spc src_sbs u_ps u_or u_pm rows cols arr = Ok st ->
  pm_positions src_ps u_ps = map plane ms ->
  pm_orientation src_rc src_cc u_or = (rowcos, colcos) ->
  pm_measures src_spr src_spc src_sbs u_pm = (spr, spc, Some sbs) ->
  st_planes st = combine (map plane ms) arr /\
  exists mmin n0 G out,
    In mmin ms /\ (forall m, In m ms -> (0 <= m - mmin < n0)%Z) /\ In (mmin + n0 - 1)%Z ms /\
    get_volume true st None None None None None None false = Ok ((n0, rows, cols), G, out) /\
    length out = Z.to_nat n0 /\
    (forall m r c : Z,
       physZ G (m - mmin) r c =v=
       vadd (vadd (plane m) (vscale (inject_Z r * spr) colcos)) (vscale (inject_Z c * spc) rowcos)) /\
    (forall k, (k < length ms)%nat ->
       nth (Z.to_nat (nth k ms 0%Z - mmin)) out [] = nth k arr []) /\
    (forall i, (0 <= i < n0)%Z -> ~ In (mmin + i)%Z ms ->
       nth (Z.to_nat i) out [] = zeros_plane rows cols).
Proof. exact pm_roundtrip. Qed.
Print Assumptions C03_pm_roundtrip.

(* non-vacuity: an axial series listed head-to-feet with one plane missing
   (m = 3, 2, 0), positions taken from the source images, comes back as 4 slices
   with the planes in spatial order and zeros in the gap; a count mismatch of
   explicit plane positions is refused *)
Example C03_pm_example :
  let rc := V3 1 0 0 in let cc := V3 0 1 0 in
  let plane m := vadd (V3 (-20) (-30) 10) (vscale (inject_Z m * (5 # 2)) (normal rc cc)) in
  let arr := [[[31; 32]]; [[21; 22]]; [[1; 2]]]%Z in
  (exists st G, pm_stored (map plane [3; 2; 0]%Z) rc cc (4 # 5) (3 # 5) (Some (5 # 2)) None None None 1 2 arr = Ok st /\
      pm_positions (map plane [3; 2; 0]%Z) None = map plane [3; 2; 0]%Z /\
      Forall (plane_shape 1 2) arr /\ NoDup [3; 2; 0]%Z /\
      get_volume true st None None None None None None false
      = Ok ((4, 1, 2)%Z, G, [[[1; 2]]; [[0; 0]]; [[21; 22]]; [[31; 32]]]%Z) /\
      atr G =v= plane 0%Z) /\
  pm_stored (map plane [3; 2; 0]%Z) rc cc (4 # 5) (3 # 5) (Some (5 # 2)) (Some (map plane [1; 0]%Z)) None None 1 2 arr
  = Err "ValueError".
Proof.
  split; [|vm_compute; reflexivity].
  eexists. eexists. split; [vm_compute; reflexivity|]. split; [reflexivity|].
  split; [repeat constructor|]. split; [repeat constructor; cbn; intuition discriminate|].
  split; [vm_compute; reflexivity|]. unfold veq. repeat split; vm_compute; reflexivity.
Qed.
Print Assumptions C03_pm_example.

(* ---- histories: several requests, one after the other, to ONE image object --------- *)
(* (C03_Model_Seq.v: serving a request is a state transition of the object)
   the object is unchanged by any history, and the answer to request k of ANY history is
   the answer of an object that was never asked anything before *)
Open Scope Z_scope.
Theorem C03_history_independent : forall st hist k r,
  nth_error hist k = Some r ->
  fst (serve_all st hist) = st /\
  nth_error (snd (serve_all st hist)) k = Some (answer_of st r) /\
  snd (serve_all st [r]) = [answer_of st r].
Proof. exact history_independent. Qed.
Print Assumptions C03_history_independent.

(* whatever was asked before and whatever is asked afterwards; no answer is dropped *)
Theorem C03_history_any_context : forall st before r after,
  nth_error (snd (serve_all st (before ++ r :: after))) (length before) = Some (answer_of st r) /\
  length (snd (serve_all st (before ++ r :: after))) = (length before + 1 + length after)%nat.
Proof. exact history_any_context. Qed.
Print Assumptions C03_history_any_context.

(* the answers of ONE history agree with each other, in whatever order the requests come:
   when request i (any sub-volume arguments) is accepted, every get_volume() without
   arguments of the same history (same allow_missing_positions, any as_indices) returns one
   and the same volume `full` of n0 slices, every get_volume_geometry() of the history
   returns the geometry G of exactly that volume, and the accepted sub-volume is the
   documented numpy slice full[s:e, r0:r1, c0:c1] with the affine of G moved to its first
   voxel (s, r0, c0) *)
Theorem C03_history_consistent : forall st hist i am ss se rs re cs ce ai sh A' out,
  1 <= st_rows st -> 1 <= st_cols st ->
  nth_error hist i = Some (ReqVol am ss se rs re cs ce ai) ->
  nth_error (snd (serve_all st hist)) i = Some (AnsVol (Ok (sh, A', out))) ->
  exists G n0 full s e r0 r1 c0 c1,
    (forall j ai', nth_error hist j = Some (ReqVol am None None None None None None ai') ->
       nth_error (snd (serve_all st hist)) j
       = Some (AnsVol (Ok ((n0, st_rows st, st_cols st), sub_aff (sub_aff G 0 0 0) 0 0 0, full)))) /\
    (forall l, nth_error hist l = Some (ReqGeom am) ->
       nth_error (snd (serve_all st hist)) l
       = Some (AnsGeom (Ok (Some (G, (n0, st_rows st, st_cols st)))))) /\
    std_slice ss se n0 ai = Ok (s, e) /\
    std_rc rs re cs ce (st_rows st) (st_cols st) ai true = Ok (r0, r1, c0, c1) /\
    (0 <= s ->
       sh = (e - s, r1 - r0, c1 - c0) /\
       A' = sub_aff (sub_aff G s 0 0) 0 r0 c0 /\
       out = map (fun p => map (cut c0 (c1 - c0)) (cut r0 (r1 - r0) p)) (cut s (e - s) full)).
Proof. exact history_consistent. Qed.
Print Assumptions C03_history_consistent.

(* non-vacuity: a 4-slice segmentation of a volume asked for slices 1:3 FIRST, then for
   the whole volume, then for its geometry, then (1-based) for the last two slices *)
Example C03_history_example :
  let st := seg_from_volume (V3 (-20) 30 10) (V3 0 0 1) (V3 0 1 0) (V3 1 0 0) (5 # 2) (4 # 5) (3 # 5) 1 2
                            [[[1; 0]]; [[0; 2]]; [[3; 0]]; [[0; 4]]] false in
  let hist := [ReqVol true (Some 1) (Some 3) None None None None true;
               ReqVol true None None None None None None false;
               ReqGeom true;
               ReqVol true (Some 3) None None None None None false] in
  match snd (serve_all st hist) with
  | [AnsVol (Ok (sh1, A1, out1)); AnsVol (Ok (sh2, A2, full)); AnsGeom (Ok (Some (G, sh3)));
     AnsVol (Ok (sh4, A4, out4))] =>
      sh1 = (2, 1, 2) /\ sh2 = (4, 1, 2) /\ sh3 = (4, 1, 2) /\ sh4 = (2, 1, 2) /\
      (* (a left-handed input: the stack comes back mirrored, origin at the last input plane) *)
      full = [[[0; 4]]; [[3; 0]]; [[0; 2]]; [[1; 0]]] /\
      out1 = [[[3; 0]]; [[0; 2]]] /\ out4 = [[[0; 2]]; [[1; 0]]] /\
      atr G =v= V3 (-20) 30 (35 # 2) /\ atr A2 =v= V3 (-20) 30 (35 # 2) /\
      a0 G =v= V3 0 0 (-5 # 2) /\
      atr A1 =v= V3 (-20) 30 15 /\ atr A4 =v= V3 (-20) 30 (25 # 2)
  | _ => False
  end.
Proof. vm_compute. repeat split; reflexivity. Qed.
Print Assumptions C03_history_example.
