(* C14 - proofs about the parts of ContentSequence added to the model later:
   from_sequence / _check_dataset (an entry path for whole lists of datasets),
   the methods inherited from MutableSequence (pop, remove, reverse, clear, count),
   and the composite statement over ALL operations from either constructor. *)
From Coq Require Import String ZArith List Bool Lia ZifyBool Permutation.
From HD Require Import Base.Val Base.PySlice C14_Model C14_Proofs.
Import ListNotations.
Open Scope Z_scope.
Ltac Zify.zify_post_hook ::= Z.to_euclidean_division_equations.

(* ---- from_sequence ------------------------------------------------------------------------ *)
(* what _check_dataset + the from_dataset chain demand of one dataset *)
Definition WellFormed (root sr : bool) (d : dset) : Prop :=
  d_isds d = true /\ (d_vt d = 1 \/ d_vt d = 2) /\ d_hasval d = true /\ d_hasname d = true /\
  (d_kids d = 0 \/ d_kids d = 1) /\ (root = false -> sr = true -> d_rel d <> 0).

Lemma ds_check_none_iff root sr d : ds_check root sr d = None <-> WellFormed root sr d.
Proof.
  unfold ds_check, WellFormed.
  destruct (d_isds d), (d_hasval d), (d_hasname d), root, sr; cbn [negb andb orb];
    repeat match goal with |- context[if ?c then _ else _] => destruct c eqn:? end;
    (split; [try discriminate; intros _; repeat split; try reflexivity; try lia; intros; try discriminate; lia
            |try reflexivity; intros (? & ? & ? & ? & ? & ?); try discriminate; exfalso; lia]).
Qed.

(* error classes of the dataset checks; in particular _check_dataset's relationship rule *)
Lemma ds_check_error root sr d e : ds_check root sr d = Some e ->
  (e = ETYPE /\ d_isds d = false) \/
  (e = EVALUE /\ d_isds d = true /\ d_vt d <> 0) \/
  (e = EATTR /\ d_isds d = true).
Proof.
  unfold ds_check. destruct (d_isds d); cbn [negb].
  - repeat match goal with |- context[if ?c then _ else _] => destruct c eqn:? end;
      intros H; inversion H; subst; try (right; right; split; reflexivity);
      right; left; repeat split; lia.
  - intros H. inversion H. left. split; reflexivity.
Qed.

Theorem check_dataset_rel_rule root sr d :
  d_isds d = true -> (d_vt d = 1 \/ d_vt d = 2) -> d_rel d = 0 -> root = false -> sr = true ->
  ds_check root sr d = Some EATTR.
Proof.
  intros H1 H2 H3 -> ->. unfold ds_check. rewrite H1. cbn [negb andb].
  replace (d_vt d =? 0) with false by lia.
  replace ((d_vt d =? 1) || (d_vt d =? 2)) with true by lia. cbn [negb].
  replace (d_rel d =? 0) with true by lia. reflexivity.
Qed.

Lemma init_err_or_ok l root sr :
  (exists s, init l root sr = Ok s) <->
  root && negb sr = false /\ Forall (fun x => init_check root sr x = None) l.
Proof.
  split.
  - intros [s H]. split; [eapply flags_ok_init, H|]. apply init_ok_items in H. tauto.
  - intros [Hf H]. destruct (init_ok_of_Forall l root sr Hf H) as (s & E & _). eauto.
Qed.

Theorem from_sequence_ok ds root sr s : from_sequence ds root sr = Ok s ->
  init (map to_item ds) root sr = Ok s /\ Forall (WellFormed root sr) ds.
Proof.
  unfold from_sequence. destruct (first_err (ds_check root sr) ds) eqn:E; [discriminate|].
  intros H. split; [exact H|]. apply first_err_none in E.
  eapply Forall_impl; [|exact E]. intros d. apply ds_check_none_iff.
Qed.

Theorem from_sequence_ok_iff ds root sr : (exists s, from_sequence ds root sr = Ok s) <->
  root && negb sr = false /\ Forall (WellFormed root sr) ds /\
  Forall (fun d => init_check root sr (to_item d) = None) ds.
Proof.
  split.
  - intros [s H]. apply from_sequence_ok in H. destruct H as [H W].
    assert (Hx : exists s, init (map to_item ds) root sr = Ok s) by eauto.
    apply init_err_or_ok in Hx. destruct Hx as [Hf Hc]. repeat split; try assumption.
    rewrite Forall_map in Hc. exact Hc.
  - intros (Hf & W & Hc). unfold from_sequence.
    replace (first_err (ds_check root sr) ds) with (@None string).
    + apply init_err_or_ok. split; [exact Hf|]. rewrite Forall_map. exact Hc.
    + symmetry. apply first_err_none. eapply Forall_impl; [|exact W]. intros d. apply ds_check_none_iff.
Qed.

(* the rule is enforced on this entry path too: a dataset that is malformed, or whose item
   breaks the relationship-type rule of the target sequence, makes from_sequence raise *)
Theorem from_sequence_refuses ds root sr :
  (exists d, In d ds /\ (~ WellFormed root sr d \/ ~ Good root sr (to_item d))) ->
  exists e, from_sequence ds root sr = Err e.
Proof.
  intros (d & Hin & Hbad). destruct (from_sequence ds root sr) as [s|e] eqn:E; [|eauto]. exfalso.
  assert (Hx : exists s, from_sequence ds root sr = Ok s) by eauto.
  apply from_sequence_ok_iff in Hx. destruct Hx as (_ & W & Hc). rewrite Forall_forall in W, Hc.
  destruct Hbad as [Hb|Hb]; apply Hb; [apply W, Hin|apply init_check_good, Hc, Hin].
Qed.

(* the error raised is that of the first failing dataset, else that of __init__ *)
Theorem from_sequence_error ds root sr e : from_sequence ds root sr = Err e ->
  (exists pre d post, ds = pre ++ d :: post /\ Forall (WellFormed root sr) pre /\ ds_check root sr d = Some e) \/
  (Forall (WellFormed root sr) ds /\ init (map to_item ds) root sr = Err e).
Proof.
  unfold from_sequence. destruct (first_err (ds_check root sr) ds) as [e'|] eqn:E.
  - intros H. inversion H; subst e'. left. clear H. induction ds as [|d ds IH]; cbn [first_err] in E; [discriminate|].
    destruct (ds_check root sr d) eqn:Ed.
    + inversion E; subst. exists [], d, ds. repeat split; [constructor|exact Ed].
    + destruct (IH E) as (pre & d' & post & -> & Hp & Hd). exists (d :: pre), d', post.
      repeat split; [constructor; [now apply ds_check_none_iff|exact Hp]|exact Hd].
  - intros H. right. split; [|exact H]. apply first_err_none in E.
    eapply Forall_impl; [|exact E]. intros d. apply ds_check_none_iff.
Qed.

(* either constructor yields a state in which index and list agree and every item passed the rule *)
Theorem construct_ok c root sr s : construct c root sr = Ok s ->
  Inv s /\ Strict s /\ is_root s = root /\ is_sr s = sr /\ root && negb sr = false /\
  items s = match c with FromList l => l | FromSeq ds => map to_item ds end.
Proof.
  intros H.
  assert (Hi : init (match c with FromList l => l | FromSeq ds => map to_item ds end) root sr = Ok s).
  { destruct c; cbn [construct] in H; [exact H|]. now apply from_sequence_ok in H. }
  destruct (inv_init _ _ _ _ Hi) as (A & B & C & D).
  repeat split; try assumption; [eapply strict_init, Hi|eapply flags_ok_init, Hi].
Qed.

(* ---- anything every basic operation keeps is kept by the inherited methods ---------------- *)
Section Closed.
  Variable P : st -> Prop.
  Hypothesis Pstep : forall s o, P s -> P (fst (step s o)).

  Lemma closed_delitem_int s i : P s -> P (fst (delitem_int s i)).
  Proof. apply (Pstep s (DelInt i)). Qed.
  Lemma closed_setitem_int s i x : P s -> P (fst (setitem_int s i x)).
  Proof. apply (Pstep s (SetInt i x)). Qed.

  Lemma closed_pop s i : P s -> P (fst (pop s i)).
  Proof.
    intros H. unfold pop. destruct (getitem_int s i); [|exact H].
    pose proof (closed_delitem_int s i H) as H'. destruct (delitem_int s i) as [s' e]. exact H'.
  Qed.

  Lemma closed_remove s x : P s -> P (fst (remove s x)).
  Proof. intros H. unfold remove. destruct (index s x); [apply closed_delitem_int, H|exact H]. Qed.

  Lemma closed_swap s i j : P s -> P (fst (swap s i j)).
  Proof.
    intros H. unfold swap. destruct (getitem_int s j); [|exact H]. destruct (getitem_int s i); [|exact H].
    pose proof (closed_setitem_int s i a H) as H1. destruct (setitem_int s i a) as [s1 [e|]]; [exact H1|].
    apply closed_setitem_int, H1.
  Qed.

  Lemma closed_reverse_loop fuel : forall i n s, P s -> P (fst (reverse_loop fuel i n s)).
  Proof.
    induction fuel as [|fuel IH]; intros i n s H; cbn [reverse_loop]; [exact H|].
    pose proof (closed_swap s i (n - i - 1) H) as H1. destruct (swap s i (n - i - 1)) as [s1 [e|]]; [exact H1|].
    apply IH, H1.
  Qed.

  Lemma closed_clear_loop fuel : forall s, P s -> P (fst (clear_loop fuel s)).
  Proof.
    induction fuel as [|fuel IH]; intros s H; cbn [clear_loop]; [exact H|].
    pose proof (closed_pop s (-1) H) as H1. destruct (pop s (-1)) as [s1 [v|e]]; [apply IH, H1|].
    destruct (String.eqb e EINDEX); exact H1.
  Qed.

  Theorem closed_xstep s o : P s -> P (fst (xstep s o)).
  Proof.
    intros H. destruct o; cbn [xstep fst].
    - apply Pstep, H.
    - pose proof (closed_pop s i H) as H1. destruct (pop s i) as [s1 r]. exact H1.
    - apply closed_remove, H.
    - apply closed_reverse_loop, H.
    - apply closed_clear_loop, H.
    - apply (Pstep s (Extend (items s))), H.
    - apply (Pstep s (Extend (items s))), H.
  Qed.

  Theorem closed_xrun ops : forall s, P s -> P (xrun s ops).
  Proof.
    unfold xrun. induction ops as [|o ops IH]; intros s H; cbn [fold_left]; [exact H|]. apply IH, closed_xstep, H.
  Qed.
End Closed.

Theorem xstep_inv s o : Inv s -> Inv (fst (xstep s o)).
Proof. apply (closed_xstep Inv). intros s' o'. apply inv_step. Qed.
Theorem xstep_strict s o : Strict s -> Strict (fst (xstep s o)).
Proof. apply (closed_xstep Strict). intros s' o'. apply strict_step. Qed.
Theorem xstep_flags s o : is_root (fst (xstep s o)) = is_root s /\ is_sr (fst (xstep s o)) = is_sr s.
Proof.
  apply (closed_xstep (fun t => is_root t = is_root s /\ is_sr t = is_sr s)); [|split; reflexivity].
  intros s' o' [R S]. destruct (step_flags s' o') as [R' S']. split; congruence.
Qed.
Theorem xstep_rel s o : RelInv s -> RelInv (fst (xstep s o)).
Proof. apply (closed_xstep RelInv). intros s' o'. apply rel_step. Qed.

(* ---- pop ---------------------------------------------------------------------------------------- *)
Lemma getitem_int_ok s i v : getitem_int s i = Ok v ->
  exists p, norm_index i (zlen (items s)) = Some p /\ nth_error (items s) p = Some v.
Proof.
  unfold getitem_int. destruct (norm_index _ _) as [p|]; [|discriminate].
  destruct (nth_error _ p) eqn:E; [|discriminate]. intros H. inversion H; subst. eauto.
Qed.

Lemma getitem_int_in_range s i : - zlen (items s) <= i < zlen (items s) ->
  exists p v, norm_index i (zlen (items s)) = Some p /\ nth_error (items s) p = Some v /\
    getitem_int s i = Ok v /\ Z.of_nat p = (if i <? 0 then i + zlen (items s) else i).
Proof.
  intros Hi. unfold getitem_int.
  destruct (norm_index i (zlen (items s))) as [p|] eqn:En; [|apply norm_index_none in En; tauto].
  pose proof (norm_index_some _ _ _ En) as [Hp Hp2]. unfold zlen in Hp. rewrite Nat2Z.id in Hp.
  destruct (nth_error (items s) p) as [v|] eqn:Eo; [|apply nth_error_None in Eo; lia].
  exists p, v. repeat split; assumption.
Qed.

Lemma getitem_int_out_of_range s i : ~ (- zlen (items s) <= i < zlen (items s)) -> getitem_int s i = Err EINDEX.
Proof. intros H. unfold getitem_int. apply norm_index_none in H. now rewrite H. Qed.

(* pop returns the item at that position and leaves the list without it (index kept in step) *)
Theorem pop_in_range s i : Inv s -> - zlen (items s) <= i < zlen (items s) ->
  exists p v, Z.of_nat p = (if i <? 0 then i + zlen (items s) else i) /\ nth_error (items s) p = Some v /\
    snd (pop s i) = Ok v /\ items (fst (pop s i)) = firstn p (items s) ++ skipn (S p) (items s) /\
    Inv (fst (pop s i)).
Proof.
  intros HI Hi. destruct (getitem_int_in_range s i Hi) as (p & v & En & Ev & Eg & Hp).
  exists p, v. split; [exact Hp|]. split; [exact Ev|].
  unfold pop. rewrite Eg. unfold delitem_int. rewrite En, Ev.
  destruct (finish_del_inv s (firstn p (items s) ++ skipn (S p) (items s)) [v] HI) as (f' & -> & Hf').
  - rewrite (nth_error_split3 _ _ _ Ev) at 1. cbn [app]. symmetry. apply Permutation_middle.
  - cbn [fst snd items]. repeat split. exact Hf'.
Qed.

Theorem pop_out_of_range s i : ~ (- zlen (items s) <= i < zlen (items s)) -> pop s i = (s, Err EINDEX).
Proof. intros H. unfold pop. now rewrite (getitem_int_out_of_range s i H). Qed.

(* ---- remove --------------------------------------------------------------------------------------- *)
(* removes the FIRST occurrence (of an item equal to x) from the list, nothing else *)
Theorem remove_present s x : Inv s -> is_item x = true -> In x (items s) ->
  exists p, nth_error (items s) p = Some x /\ (forall j, (j < p)%nat -> nth_error (items s) j <> Some x) /\
    snd (remove s x) = None /\ items (fst (remove s x)) = firstn p (items s) ++ skipn (S p) (items s).
Proof.
  intros HI Hx Hin. destruct (proj2 (index_found_iff s x HI) (conj Hx Hin)) as [k Hk].
  destruct (index_is_position s x k HI Hk) as (Hr & Hn & Hfirst).
  destruct (delitem_int_accepts s k HI ltac:(lia)) as (Hs & p & old & Ho & Hp & Hitems).
  replace (k <? 0) with false in Hp by lia. assert (p = Z.to_nat k) by lia. subst p.
  exists (Z.to_nat k). split; [exact Hn|]. split.
  - intros j Hj. specialize (Hfirst (Z.of_nat j) ltac:(lia)). now rewrite Nat2Z.id in Hfirst.
  - unfold remove. rewrite Hk. split; assumption.
Qed.

Theorem remove_absent s x : Inv s -> is_item x = true -> ~ In x (items s) -> remove s x = (s, Some EVALUE).
Proof.
  intros HI Hx Hno. unfold remove. destruct (index s x) as [k|e] eqn:E.
  - exfalso. apply Hno. apply (index_found_iff s x HI). eauto.
  - destruct (index_error s x e HI E) as [[Hf _]|(_ & _ & ->)]; [congruence|reflexivity].
Qed.

Theorem remove_junk s x : is_item x = false -> remove s x = (s, Some ETYPE).
Proof. intros Hx. unfold remove, index. rewrite Hx. reflexivity. Qed.

(* ---- reverse -------------------------------------------------------------------------------------- *)
Lemma zlen_app {A} (a b : list A) : zlen (a ++ b) = zlen a + zlen b.
Proof. unfold zlen. rewrite app_length. lia. Qed.
Lemma zlen_cons {A} (a : A) l : zlen (a :: l) = 1 + zlen l.
Proof. unfold zlen. cbn [length]. lia. Qed.

Lemma firstn_exact {A} (pre r : list A) : firstn (length pre) (pre ++ r) = pre.
Proof. rewrite firstn_app, Nat.sub_diag, firstn_all. cbn. apply app_nil_r. Qed.
Lemma skipn_exact {A} (pre : list A) a r : skipn (S (length pre)) (pre ++ a :: r) = r.
Proof.
  rewrite skipn_app. rewrite skipn_all2 by lia. replace (S (length pre) - length pre)%nat with 1%nat by lia.
  reflexivity.
Qed.
Lemma nth_error_exact {A} (pre : list A) a r : nth_error (pre ++ a :: r) (length pre) = Some a.
Proof. rewrite nth_error_app2 by lia. now rewrite Nat.sub_diag. Qed.

Lemma norm_index_exact i len : 0 <= i < len -> norm_index i len = Some (Z.to_nat i).
Proof.
  intros H. unfold norm_index. replace (i <? 0) with false by lia.
  replace ((i <? 0) || (len <=? i)) with false by lia. reflexivity.
Qed.

Lemma to_nat_zlen {A} (l : list A) : Z.to_nat (zlen l) = length l.
Proof. unfold zlen. apply Nat2Z.id. Qed.

Lemma getitem_int_at s pre a post : items s = pre ++ a :: post -> getitem_int s (zlen pre) = Ok a.
Proof.
  intros E. unfold getitem_int. rewrite norm_index_exact.
  - rewrite to_nat_zlen, E. now rewrite nth_error_exact.
  - rewrite E, zlen_app, zlen_cons. unfold zlen. lia.
Qed.

(* self[len(pre)] = x on the list pre ++ a :: post *)
Lemma setitem_int_at s pre a post x : Inv s -> items s = pre ++ a :: post ->
  init_check (is_root s) (is_sr s) x = None ->
  exists f', setitem_int s (zlen pre) x = (St (pre ++ x :: post) f' (is_root s) (is_sr s), None) /\
             LInv f' (pre ++ x :: post).
Proof.
  intros HI E Hc. unfold setitem_int. rewrite norm_index_exact by (rewrite E, zlen_app, zlen_cons; unfold zlen; lia).
  rewrite to_nat_zlen. rewrite E. rewrite nth_error_exact.
  cbn [first_err]. unfold set_check. rewrite Hc.
  rewrite firstn_exact, skipn_exact.
  destruct (finish_set_inv s (pre ++ x :: post) [a] [x] (pre ++ post) HI) as (f' & -> & Hf').
  - rewrite E. cbn [app]. symmetry. apply Permutation_middle.
  - cbn [app]. symmetry. apply Permutation_middle.
  - eauto.
Qed.

Lemma strict_in s y : Strict s -> In y (items s) -> init_check (is_root s) (is_sr s) y = None.
Proof. unfold Strict. rewrite Forall_forall. auto. Qed.

(* one iteration: the two outermost items of the middle part change places *)
Lemma swap_spec s pre a mid b post : Inv s -> Strict s -> items s = pre ++ a :: mid ++ b :: post ->
  length pre = length post ->
  exists s', swap s (zlen pre) (zlen (items s) - zlen pre - 1) = (s', None) /\
             items s' = pre ++ b :: mid ++ a :: post.
Proof.
  intros HI HS E Hlen.
  assert (Ej : zlen (items s) - zlen pre - 1 = zlen (pre ++ a :: mid)).
  { rewrite E. rewrite !zlen_app, !zlen_cons, zlen_app, zlen_cons. unfold zlen. lia. }
  assert (E2 : items s = (pre ++ a :: mid) ++ b :: post) by (rewrite E, <- app_assoc; reflexivity).
  assert (Ha : init_check (is_root s) (is_sr s) a = None).
  { apply strict_in; [exact HS|]. rewrite E. apply in_or_app. right. now left. }
  assert (Hb : init_check (is_root s) (is_sr s) b = None).
  { apply strict_in; [exact HS|]. rewrite E2. apply in_or_app. right. now left. }
  unfold swap. rewrite Ej. rewrite (getitem_int_at s _ b post E2). rewrite (getitem_int_at s pre a _ E).
  destruct (setitem_int_at s pre a (mid ++ b :: post) b HI E Hb) as (f1 & -> & Hf1).
  set (s1 := St (pre ++ b :: mid ++ b :: post) f1 (is_root s) (is_sr s)).
  assert (E1 : items s1 = (pre ++ b :: mid) ++ b :: post) by (subst s1; cbn [items]; rewrite <- app_assoc; reflexivity).
  destruct (setitem_int_at s1 (pre ++ b :: mid) b post a Hf1 E1 Ha) as (f2 & E3 & _).
  replace (zlen (pre ++ b :: mid)) with (zlen (pre ++ a :: mid)) in E3 by (rewrite !zlen_app, !zlen_cons; reflexivity).
  rewrite E3. eexists. split; [reflexivity|]. cbn [items]. rewrite <- app_assoc. reflexivity.
Qed.

Lemma split_ends {A} (l : list A) : (2 <= length l)%nat -> exists a m b, l = a :: m ++ [b].
Proof.
  destruct l as [|a t]; cbn [length]; [lia|]. intros H.
  assert (Hne : t <> []) by (destruct t; [cbn in H; lia|discriminate]).
  destruct (exists_last Hne) as (m & b & ->). eauto.
Qed.

Lemma reverse_loop_spec fuel : forall s pre mid post n,
  Inv s -> Strict s -> items s = pre ++ mid ++ post -> length pre = length post -> n = zlen (items s) ->
  (length mid = 2 * fuel \/ length mid = 2 * fuel + 1)%nat ->
  exists s', reverse_loop fuel (zlen pre) n s = (s', None) /\ items s' = pre ++ rev mid ++ post.
Proof.
  induction fuel as [|fuel IH]; intros s pre mid post n HI HS E Hlen Hn Hm; cbn [reverse_loop].
  - exists s. split; [reflexivity|]. destruct mid as [|x [|y mid]]; cbn [length] in Hm; try lia; exact E.
  - destruct (split_ends mid ltac:(lia)) as (a & m & b & ->).
    assert (E' : items s = pre ++ a :: m ++ b :: post).
    { rewrite E. cbn [app]. rewrite <- app_assoc. reflexivity. }
    destruct (swap_spec s pre a m b post HI HS E' Hlen) as (s1 & Es & Ei).
    rewrite Hn, Es.
    assert (HI1 : Inv s1).
    { pose proof (closed_swap Inv (fun s' o' => inv_step s' o') s (zlen pre) (zlen (items s) - zlen pre - 1) HI) as H.
      now rewrite Es in H. }
    assert (HS1 : Strict s1).
    { pose proof (closed_swap Strict (fun s' o' => strict_step s' o') s (zlen pre) (zlen (items s) - zlen pre - 1) HS) as H.
      now rewrite Es in H. }
    destruct (IH s1 (pre ++ [b]) m (a :: post) (zlen (items s))) as (s' & Er & Eir); try assumption.
    + rewrite Ei, <- app_assoc. reflexivity.
    + rewrite app_length. cbn [length]. lia.
    + rewrite Ei, E'. rewrite !zlen_app, !zlen_cons, !zlen_app, !zlen_cons. reflexivity.
    + cbn [length] in Hm. rewrite app_length in Hm. cbn [length] in Hm. lia.
    + replace (zlen (pre ++ [b])) with (zlen pre + 1) in Er by (rewrite zlen_app; unfold zlen; cbn [length]; lia).
      exists s'. split; [exact Er|]. rewrite Eir. cbn [rev]. rewrite rev_app_distr. cbn [rev app].
      rewrite <- !app_assoc. reflexivity.
Qed.

(* reverse() reverses the list, never fails in a reachable state, and keeps index and rule *)
Theorem reverse_spec s : Inv s -> Strict s ->
  snd (reverse s) = None /\ items (fst (reverse s)) = rev (items s) /\
  Inv (fst (reverse s)) /\ Strict (fst (reverse s)).
Proof.
  intros HI HS.
  destruct (reverse_loop_spec (Z.to_nat (zlen (items s) / 2)) s [] (items s) [] (zlen (items s)) HI HS) as (s' & E & Ei);
    try reflexivity.
  - now rewrite app_nil_r.
  - unfold zlen. lia.
  - unfold reverse. change (zlen (@nil item)) with 0 in E. rewrite E. cbn [fst snd].
    split; [reflexivity|]. split; [rewrite Ei; cbn [app]; apply app_nil_r|].
    pose proof (closed_reverse_loop Inv (fun s' o' => inv_step s' o') (Z.to_nat (zlen (items s) / 2)) 0 (zlen (items s)) s HI) as H1.
    pose proof (closed_reverse_loop Strict (fun s' o' => strict_step s' o') (Z.to_nat (zlen (items s) / 2)) 0 (zlen (items s)) s HS) as H2.
    rewrite E in H1, H2. split; assumption.
Qed.

(* ---- clear ---------------------------------------------------------------------------------------- *)
Lemma clear_loop_spec n : forall s, Inv s -> length (items s) = n ->
  exists s', clear_loop (S n) s = (s', None) /\ items s' = [] /\ Inv s'.
Proof.
  induction n as [|n IH]; intros s HI Hn; cbn [clear_loop].
  - rewrite pop_out_of_range by (unfold zlen; lia). cbn. exists s. repeat split; [|exact HI].
    destruct (items s); [reflexivity|discriminate].
  - destruct (pop_in_range s (-1) HI ltac:(unfold zlen; lia)) as (p & v & Hp & Hv & Hs & Hi & HI').
    destruct (pop s (-1)) as [s1 r]. cbn [fst snd] in *. subst r.
    apply IH; [exact HI'|]. rewrite Hi. rewrite app_length, firstn_length, skipn_length.
    unfold zlen in Hp. change (-1 <? 0) with true in Hp. cbv iota in Hp. lia.
Qed.

(* clear() empties list AND index; the IndexError that ends its loop is the only error *)
Theorem clear_spec s : Inv s ->
  snd (clear s) = None /\ items (fst (clear s)) = [] /\ (forall n, lut (fst (clear s)) n = []) /\ Inv (fst (clear s)).
Proof.
  intros HI. unfold clear. destruct (clear_loop_spec (length (items s)) s HI eq_refl) as (s' & -> & Ei & HI').
  cbn [fst snd]. repeat split; try assumption.
  intros n. specialize (HI' n). rewrite Ei in HI'. cbn [filter] in HI'. apply Permutation_sym, Permutation_nil in HI'. exact HI'.
Qed.

(* ---- seq.extend(seq) / seq += seq ---------------------------------------------------------------- *)
Lemma extend_all_good xs : forall s, Forall (fun x => init_check (is_root s) (is_sr s) x = None) xs ->
  snd (extend s xs) = None /\ items (fst (extend s xs)) = items s ++ xs.
Proof.
  induction xs as [|x xs IH]; intros s H; cbn [extend]; [split; [reflexivity|now rewrite app_nil_r]|].
  inversion H as [|? ? Hx Hxs]; subst. unfold append, add_check. rewrite Hx.
  destruct (IH (St (items s ++ [x]) (lut_add (lut s) x) (is_root s) (is_sr s)) Hxs) as [E1 E2].
  split; [exact E1|]. rewrite E2. cbn [items]. rewrite <- app_assoc. reflexivity.
Qed.

(* with the sequence itself as argument the list is doubled: every item is already in the sequence,
   so none is refused; index, rule and flags are kept *)
Theorem extend_self_spec s : Inv s -> Strict s ->
  snd (extend s (items s)) = None /\ items (fst (extend s (items s))) = items s ++ items s /\
  Inv (fst (extend s (items s))) /\ Strict (fst (extend s (items s))) /\
  is_root (fst (extend s (items s))) = is_root s /\ is_sr (fst (extend s (items s))) = is_sr s.
Proof.
  intros HI HS. destruct (extend_all_good (items s) s HS) as [E1 E2].
  split; [exact E1|]. split; [exact E2|]. split; [apply extend_inv, HI|].
  split; [apply (strict_step s (Extend (items s))), HS|apply extend_flags].
Qed.

(* ---- count ---------------------------------------------------------------------------------------- *)
Theorem count_spec s x : count s x = Z.of_nat (count_occ item_eq_dec (items s) x).
Proof.
  unfold count, zlen. f_equal. induction (items s) as [|y l IH]; [reflexivity|]. cbn [filter count_occ].
  destruct (item_eqb_spec y x) as [->|Hne]; destruct (item_eq_dec _ x); try congruence; cbn [length]; now rewrite IH.
Qed.

(* ---- everything together: ALL operations, either constructor -------------------------------------- *)
Lemma state_summary t : Inv t -> Strict t -> is_root t && negb (is_sr t) = false ->
  (forall n, Permutation (lut t n) (filter (has n) (items t))) /\
  (forall n, exists r, find t n = Ok r /\ Permutation r (filter (has n) (items t)) /\
     forall x, count_occ item_eq_dec r x = if has n x then count_occ item_eq_dec (items t) x else 0%nat) /\
  (forall x, (forall k, index t x = Ok k ->
                0 <= k < zlen (items t) /\ nth_error (items t) (Z.to_nat k) = Some x /\
                forall j, 0 <= j < k -> nth_error (items t) (Z.to_nat j) <> Some x) /\
             ((exists k, index t x = Ok k) <-> is_item x = true /\ In x (items t)) /\
             (is_item x = true -> (contains t x = Ok true <-> In x (items t)) /\
                                  (contains t x = Ok false <-> ~ In x (items t))) /\
             count t x = Z.of_nat (count_occ item_eq_dec (items t) x)) /\
  get_nodes t = Ok (filter inode (items t)) /\
  Forall (fun x => is_item x = true /\ (is_sr t = true -> (irel x =? 0) = is_root t)) (items t).
Proof.
  intros HI HS HF. split; [exact HI|]. split.
  - intros n. exists (lut t n). pose proof (find_total t n HI HS HF) as Hf. split; [exact Hf|].
    apply (find_exact t n (lut t n) HI Hf).
  - split.
    + intros x. split; [intros k Hk; apply (index_is_position t x k HI Hk)|].
      split; [apply index_found_iff, HI|]. split; [intros Hx; now apply contains_iff_In|apply count_spec].
    + split; [now apply get_nodes_exact|]. unfold Strict in HS. eapply Forall_impl; [|exact HS].
      intros x Hx. apply init_check_good in Hx. exact Hx.
Qed.

Theorem xhistory_summary c root sr s0 ops : construct c root sr = Ok s0 ->
  let t := xrun s0 ops in
  (forall n, Permutation (lut t n) (filter (has n) (items t))) /\
  (forall n, exists r, find t n = Ok r /\ Permutation r (filter (has n) (items t)) /\
     forall x, count_occ item_eq_dec r x = if has n x then count_occ item_eq_dec (items t) x else 0%nat) /\
  (forall x, (forall k, index t x = Ok k ->
                0 <= k < zlen (items t) /\ nth_error (items t) (Z.to_nat k) = Some x /\
                forall j, 0 <= j < k -> nth_error (items t) (Z.to_nat j) <> Some x) /\
             ((exists k, index t x = Ok k) <-> is_item x = true /\ In x (items t)) /\
             (is_item x = true -> (contains t x = Ok true <-> In x (items t)) /\
                                  (contains t x = Ok false <-> ~ In x (items t))) /\
             count t x = Z.of_nat (count_occ item_eq_dec (items t) x)) /\
  get_nodes t = Ok (filter inode (items t)) /\
  Forall (fun x => is_item x = true /\ (is_sr t = true -> (irel x =? 0) = is_root t)) (items t).
Proof.
  intros H t. destruct (construct_ok _ _ _ _ H) as (HI & HS & Hr & Hs & Hf & _).
  apply state_summary.
  - apply (closed_xrun Inv (fun s' o' => inv_step s' o')), HI.
  - apply (closed_xrun Strict (fun s' o' => strict_step s' o')), HS.
  - assert (Hfl : is_root t = is_root s0 /\ is_sr t = is_sr s0).
    { apply (closed_xrun (fun u => is_root u = is_root s0 /\ is_sr u = is_sr s0)); [|split; reflexivity].
      intros s' o' [R S]. destruct (step_flags s' o') as [R' S']. split; congruence. }
    destruct Hfl as [-> ->]. now rewrite Hr, Hs.
Qed.

(* an operation that fails leaves the list untouched or - extend / += / clear aside - the whole state *)
Theorem xstep_err_unchanged s o e : Inv s -> snd (xstep s o) = Err e ->
  match o with
  | Op (Extend _) | Op (IAdd _) => True
  | Reverse | Clear | ExtendSelf | IAddSelf => True   (* cannot fail in a reachable state: reverse_spec, clear_spec,
                                                         extend_self_spec *)
  | _ => fst (xstep s o) = s
  end.
Proof.
  intros HI. destruct o as [o| i | x | | | | ]; cbn [xstep fst snd]; try exact (fun _ => I).
  - intros H. assert (Hs : exists e', snd (step s o) = Some e') by (destruct (snd (step s o)); [eauto|discriminate]).
    destruct Hs as [e' He']. pose proof (step_err_unchanged s o e' HI He') as Hu.
    destruct o; try exact I; exact Hu.
  - destruct (Z_lt_dec i (- zlen (items s))) as [Hlo|Hlo]; [rewrite pop_out_of_range by lia; reflexivity|].
    destruct (Z_lt_dec i (zlen (items s))) as [Hhi|Hhi]; [|rewrite pop_out_of_range by lia; reflexivity].
    destruct (pop_in_range s i HI ltac:(lia)) as (p & v & _ & _ & Hs & _). destruct (pop s i) as [s1 r].
    cbn [snd] in *. subst r. discriminate.
  - unfold remove. destruct (index s x) as [k|e'] eqn:Ek; [|reflexivity].
    destruct (index_is_position s x k HI Ek) as (Hr & _ & _).
    destruct (delitem_int_accepts s k HI ltac:(lia)) as (Hs & _). rewrite Hs. discriminate.
Qed.
