(* C11 - order_invariant for the geometry of a multi-frame image, ALL stacks and declarations: permuting the
   frames changes neither the verdict (geometry / None / exception) nor the number of slices, the spacing
   and the slice axis, and both origins are positions of frames that the (common) index assignment puts
   at index 0.  Also: the geometry under a matching / mismatching spacing hint and under allowed gaps. *)
From Coq Require Import String ZArith List Bool QArith Lia Lqa Permutation Sorted.
From HD Require Import Base.Val C11_Model C11_Proofs C11_Proofs_Stack C11_Proofs_Sort C11_Proofs_Rank C11_Proofs_Top
  C11_Proofs_Perm C11_Proofs_Hint C11_Proofs_Gaps.
Import ListNotations.
Open Scope Q_scope.

Lemma zmax_perm l l' : Permutation l l' -> zmax_list l = zmax_list l'.
Proof.
  intro P. unfold zmax_list. apply Z.le_antisymm.
  - apply zmax_fold_le; [apply zmax_fold_ge|]. intros x Hx. apply zmax_fold_in. eapply Permutation_in; eassumption.
  - apply zmax_fold_le; [apply zmax_fold_ge|]. intros x Hx. apply zmax_fold_in.
    eapply Permutation_in; [symmetry; exact P|exact Hx].
Qed.

Lemma zindex_spec l : match zindex 0%Z l with
                      | Some j => (j < length l)%nat /\ nth j l 1%Z = 0%Z
                      | None => ~ In 0%Z l
                      end.
Proof.
  induction l as [|x l IH]; cbn [zindex]; [intros []|].
  destruct (Z.eqb x 0) eqn:E.
  - apply Z.eqb_eq in E. cbn. split; [lia|exact E].
  - apply Z.eqb_neq in E. destruct (zindex 0%Z l) as [j|].
    + destruct IH as [Lj Nj]. cbn [length nth]. split; [lia|exact Nj].
    + intros [H|H]; [congruence|contradiction].
Qed.

Definition same_geometry (f : vec3 -> Z) (ps ps2 : list vec3) (r r2 : res (option geom)) : Prop :=
  match r, r2 with
  | Ok (Some g), Ok (Some g2) =>
      g_nsl g = g_nsl g2 /\ g_spacing g = g_spacing g2 /\ g_normal g = g_normal g2 /\
      In (g_origin g) ps /\ In (g_origin g2) ps2 /\
      f (vred (g_origin g)) = 0%Z /\ f (vred (g_origin g2)) = 0%Z
  | Ok None, Ok None => True
  | Err k, Err k2 => k = k2
  | _, _ => False
  end.

Lemma origin_index (f : vec3 -> Z) ps j : (j < length (map f (map vred ps)))%nat ->
  nth j (map f (map vred ps)) 1%Z = 0%Z -> In (nthV ps j) ps /\ f (vred (nthV ps j)) = 0%Z.
Proof.
  rewrite !map_length. intros Lj Nj. split; [unfold nthV; now apply nth_In|].
  rewrite map_map in Nj. rewrite (nth_indep _ 1%Z (f (vred (V3 0 0 0)))) in Nj by (now rewrite map_length).
  rewrite (map_nth (fun p => f (vred p))) in Nj. exact Nj.
Qed.

Lemma geometry_order_invariant_all : forall ps ps2 rowc colc hint rtol atol seg om od,
  Permutation ps ps2 ->
  exists f,
    same_geometry f ps ps2 (multiframe_geometry ps rowc colc hint rtol atol seg om od)
                           (multiframe_geometry ps2 rowc colc hint rtol atol seg om od) /\
    forall sp idx, get_volume_positions ps rowc colc (vol_opts rtol atol (eff_missing seg om) (eff_dups od) hint)
                     = Ok (Some (sp, idx)) -> idx = map f (map vred ps).
Proof.
  intros ps ps2 rowc colc hint rtol atol seg om od P.
  pose proof (gvp_order_invariant ps ps2 rowc colc (vol_opts rtol atol (eff_missing seg om) (eff_dups od) hint)
                eq_refl P) as V.
  unfold multiframe_geometry, same_verdict in *.
  destruct (get_volume_positions ps rowc colc _) as [[[sp idx]|]|k];
    destruct (get_volume_positions ps2 rowc colc _) as [[[sp2 idx2]|]|k2]; try contradiction.
  - destruct V as [<- [f [-> ->]]]. exists f. split; [|intros sp' idx' E; now injection E as _ <-].
    assert (PI : Permutation (map f (map vred ps)) (map f (map vred ps2))) by (now apply Permutation_map, Permutation_map).
    rewrite <- (zmax_perm _ _ PI).
    pose proof (zindex_spec (map f (map vred ps))) as Z1. pose proof (zindex_spec (map f (map vred ps2))) as Z2.
    destruct (zindex 0%Z (map f (map vred ps))) as [j|]; destruct (zindex 0%Z (map f (map vred ps2))) as [j2|].
    + destruct Z1 as [L1 N1]. destruct Z2 as [L2 N2].
      destruct (origin_index f ps j L1 N1) as [I1 F1]. destruct (origin_index f ps2 j2 L2 N2) as [I2 F2].
      cbn [same_geometry g_nsl g_spacing g_normal g_origin]. repeat split; assumption.
    + exfalso. apply Z2. eapply Permutation_in; [exact PI|]. destruct Z1 as [L1 N1]. rewrite <- N1. now apply nth_In.
    + exfalso. apply Z1. eapply Permutation_in; [symmetry; exact PI|]. destruct Z2 as [L2 N2]. rewrite <- N2. now apply nth_In.
    + reflexivity.
  - exists (fun _ => 0%Z). split; [exact I|discriminate].
  - exists (fun _ => 0%Z). subst k2. split; [|discriminate].
    destruct (String.eqb k "RuntimeError"); cbn [same_geometry]; auto.
Qed.

(* geometry of a regular stack under a spacing hint (shared SpacingBetweenSlices): accepted iff the hint
   is within tolerance of the spacing, otherwise None (RuntimeError inside, turned into None) *)
Lemma geometry_regular_hint : forall ps rowc colc hint0 hint rtol atol seg om od nv rt at_ a s r M,
  eff_missing seg om = false -> norm_hint hint0 = Ok hint ->
  tolerances rtol atol = Ok (rt, at_) -> 0 <= rt -> 0 <= at_ ->
  normal_vector rowc colc DirD DirR true = Ok nv ->
  regular_stack nv a s r M (map vred ps) ->
  (eff_dups od = true \/ length ps = M) ->
  if hint_matches rt at_ s hint
  then exists g, multiframe_geometry ps rowc colc hint0 rtol atol seg om od = Ok (Some g) /\
         g_nsl g = Z.of_nat M /\ g_spacing g == s /\ In (g_origin g) ps /\ r (vred (g_origin g)) = 0%nat
  else multiframe_geometry ps rowc colc hint0 rtol atol seg om od = Ok None.
Proof.
  intros ps rowc colc hint0 hint rtol atol seg om od nv rt at_ a s r M Hm Hh T Hr Ha N R D.
  destruct (regular_accepted_hint ps rowc colc (vol_opts rtol atol (eff_missing seg om) (eff_dups od) hint0)
              nv rt at_ a s r M hint) as [sp [Esp G]]; try assumption; try reflexivity.
  unfold multiframe_geometry. rewrite G. destruct (hint_matches rt at_ s hint); [|reflexivity].
  destruct R as [S [M2 [H1 [H3 [Hc [Hl Hp]]]]]].
  destruct (zindex_map (fun p => Z.of_nat (r p)) (map vred ps) (vred (V3 0 0 0))) as [j0 [Z0 [L0 F0]]].
  { destruct (Hc 0%nat) as [p [Ip Ep]]; [lia|]. exists p. split; [exact Ip|]. now rewrite Ep. }
  rewrite map_length in L0. rewrite map_nth in F0. rewrite Z0.
  eexists. split; [reflexivity|]. cbn [g_nsl g_spacing g_origin]. unfold nthV. repeat split.
  - unfold zmax_list.
    assert (U : (fold_left Z.max (map (fun p => Z.of_nat (r p)) (map vred ps)) 0 <= Z.of_nat M - 1)%Z).
    { apply zmax_fold_le; [lia|]. intros x Hx. apply in_map_iff in Hx. destruct Hx as [p [<- Ip]].
      specialize (Hl p Ip). lia. }
    assert (Lo : (Z.of_nat M - 1 <= fold_left Z.max (map (fun p => Z.of_nat (r p)) (map vred ps)) 0)%Z).
    { apply zmax_fold_in. destruct (Hc (M - 1)%nat) as [p [Ip Ep]]; [lia|]. apply in_map_iff. exists p.
      split; [rewrite Ep; lia|exact Ip]. }
    lia.
  - exact Esp.
  - apply nth_In. exact L0.
  - cbv beta in F0. lia.
Qed.

(* geometry of a stack with gaps when gaps are allowed (Segmentation default, or declared): K + 1 slices *)
Lemma geometry_gaps_accepted : forall ps rowc colc hint0 hint rtol atol seg om od nv rt at_ a s r K,
  eff_missing seg om = true -> norm_hint hint0 = Ok hint ->
  tolerances rtol atol = Ok (rt, at_) -> 0 <= rt -> 0 <= at_ ->
  normal_vector rowc colc DirD DirR true = Ok nv ->
  gapped_stack nv a s r K (map vred ps) ->
  spacing_known s r (map vred ps) hint ->
  (eff_dups od = true \/ length (lexuniq (map vred ps)) = length ps) ->
  exists g, multiframe_geometry ps rowc colc hint0 rtol atol seg om od = Ok (Some g) /\
    g_nsl g = (Z.of_nat K + 1)%Z /\ g_spacing g == s /\ In (g_origin g) ps /\ r (vred (g_origin g)) = 0%nat.
Proof.
  intros ps rowc colc hint0 hint rtol atol seg om od nv rt at_ a s r K Hm Hh T Hr Ha N R Hk D.
  destruct (gaps_accepted ps rowc colc (vol_opts rtol atol (eff_missing seg om) (eff_dups od) hint0)
              nv rt at_ a s r K hint) as [sp [Esp G]]; try assumption; try reflexivity.
  unfold multiframe_geometry. rewrite G.
  destruct R as [S [K1 [H1 [H3 [H0 [HK [Hle Hp]]]]]]].
  destruct (zindex_map (fun p => Z.of_nat (r p)) (map vred ps) (vred (V3 0 0 0))) as [j0 [Z0 [L0 F0]]].
  { destruct H0 as [p [Ip Ep]]. exists p. split; [exact Ip|]. now rewrite Ep. }
  rewrite map_length in L0. rewrite map_nth in F0. rewrite Z0.
  eexists. split; [reflexivity|]. cbn [g_nsl g_spacing g_origin]. unfold nthV. repeat split.
  - unfold zmax_list.
    assert (U : (fold_left Z.max (map (fun p => Z.of_nat (r p)) (map vred ps)) 0 <= Z.of_nat K)%Z).
    { apply zmax_fold_le; [lia|]. intros x Hx. apply in_map_iff in Hx. destruct Hx as [p [<- Ip]].
      specialize (Hle p Ip). lia. }
    assert (Lo : (Z.of_nat K <= fold_left Z.max (map (fun p => Z.of_nat (r p)) (map vred ps)) 0)%Z).
    { apply zmax_fold_in. destruct HK as [p [Ip Ep]]. apply in_map_iff. exists p.
      split; [now rewrite Ep|exact Ip]. }
    lia.
  - exact Esp.
  - apply nth_In. exact L0.
  - cbv beta in F0. lia.
Qed.
