(* C09 - quantitative soundness of match_geometry: on success the result equals the target up to
   tol x spacing (so it is geometry_equal to the target for every atol above that, and exactly equal
   for tol = 0); success at tol = 0 is equivalent to reachability. *)
From Coq Require Import String ZArith List Bool Lia ZifyBool QArith Qround Qfield Lqa.
From HD Require Import Base.Val Base.PySlice C09_Model C09_Proofs C09_Proofs_Match C09_Proofs_Voxels.
Import ListNotations.
Open Scope Z_scope.

(* ---- absolute values as two-sided bounds ------------------------------------------------ *)
Lemma Qabs'_le_iff : forall c t, (Qabs' c <= t)%Q <-> (- t <= c)%Q /\ (c <= t)%Q.
Proof.
  intros c t. split; [apply Qabs'_le|]. intros [H1 H2]. unfold Qabs'.
  destruct (Qle_bool 0 c); lra.
Qed.

Lemma sq_le_1 : forall c, (c * c <= 1)%Q -> (-1 <= c)%Q /\ (c <= 1)%Q.
Proof.
  intros c H. split.
  - destruct (Qlt_le_dec c (-1)) as [L|L]; [|exact L]. exfalso.
    assert (K : (0 < (- 1 - c) * (1 - c))%Q) by (apply Qmult_lt_0_compat; lra).
    assert (E : ((- 1 - c) * (1 - c) == c * c - 1)%Q) by ring. rewrite E in K. lra.
  - destruct (Qlt_le_dec 1 c) as [L|L]; [|lra]. exfalso.
    assert (K : (0 < (c - 1) * (c + 1))%Q) by (apply Qmult_lt_0_compat; lra).
    assert (E : ((c - 1) * (c + 1) == c * c - 1)%Q) by ring. rewrite E in K. lra.
Qed.

Lemma sq_nonneg : forall c : Q, (0 <= c * c)%Q.
Proof.
  intros c. destruct (Qlt_le_dec c 0) as [L|L].
  - assert (K : (0 <= (- c) * (- c))%Q) by (apply Qmult_le_0_compat; lra).
    assert (E : ((- c) * (- c) == c * c)%Q) by ring. rewrite E in K. exact K.
  - apply Qmult_le_0_compat; assumption.
Qed.

Lemma unit_comp_bound : forall v, (dot v v == 1)%Q ->
  ((-1 <= vx v)%Q /\ (vx v <= 1)%Q) /\ ((-1 <= vy v)%Q /\ (vy v <= 1)%Q) /\ ((-1 <= vz v)%Q /\ (vz v <= 1)%Q).
Proof.
  intros [a b c] H. unfold dot in H; cbn [vx vy vz] in *.
  pose proof (sq_nonneg a). pose proof (sq_nonneg b). pose proof (sq_nonneg c).
  repeat split; apply sq_le_1; lra.
Qed.

(* |x| <= X, |y| <= Y  ->  |x * y| <= X * Y *)
Lemma mul_bound : forall x y X Y, (- X <= x)%Q -> (x <= X)%Q -> (- Y <= y)%Q -> (y <= Y)%Q ->
  (- (X * Y) <= x * y)%Q /\ (x * y <= X * Y)%Q.
Proof.
  intros x y X Y H1 H2 H3 H4.
  assert (A : (0 <= (X - x) * (Y - y))%Q) by (apply Qmult_le_0_compat; lra).
  assert (B : (0 <= (X + x) * (Y + y))%Q) by (apply Qmult_le_0_compat; lra).
  assert (C : (0 <= (X - x) * (Y + y))%Q) by (apply Qmult_le_0_compat; lra).
  assert (D : (0 <= (X + x) * (Y - y))%Q) by (apply Qmult_le_0_compat; lra).
  assert (EA : ((X - x) * (Y - y) == X * Y - X * y - x * Y + x * y)%Q) by ring.
  assert (EB : ((X + x) * (Y + y) == X * Y + X * y + x * Y + x * y)%Q) by ring.
  assert (EC : ((X - x) * (Y + y) == X * Y + X * y - x * Y - x * y)%Q) by ring.
  assert (ED : ((X + x) * (Y - y) == X * Y - X * y + x * Y - x * y)%Q) by ring.
  rewrite EA in A. rewrite EB in B. rewrite EC in C. rewrite ED in D. split; lra.
Qed.

(* ---- an orthonormal triple is a basis ------------------------------------------------------ *)
Definition uaff (g : geom) : aff :=
  Aff (sel (g_unit g) X0) (sel (g_unit g) X1) (sel (g_unit g) X2) (V3 0 0 0).

Lemma gram_det : forall a b c t,
  (det (Aff a b c t) * det (Aff a b c t) ==
   dot a a * dot b b * dot c c + 2 * dot a b * dot b c * dot a c
   - dot a a * (dot b c * dot b c) - dot b b * (dot a c * dot a c) - dot c c * (dot a b * dot a b))%Q.
Proof.
  intros [a0 a1 a2] [b0 b1 b2] [c0 c1 c2] t. unfold det, dot, cross; cbn [vx vy vz f_c0 f_c1 f_c2]. ring.
Qed.

Lemma orthonormal_det : forall g, orthonormal g -> ~ (det (uaff g) == 0)%Q.
Proof.
  intros g Ho Hd. pose proof (gram_det (sel (g_unit g) X0) (sel (g_unit g) X1) (sel (g_unit g) X2) (V3 0 0 0)) as G.
  fold (uaff g) in G. rewrite Hd in G.
  rewrite (Ho X0 X0), (Ho X1 X1), (Ho X2 X2), (Ho X0 X1), (Ho X1 X2), (Ho X0 X2) in G. cbn [ax_eqb] in G. lra.
Qed.

Lemma dot_lin : forall w a b c t x,
  (dot w (lin (Aff a b c t) x) == vx x * dot w a + vy x * dot w b + vz x * dot w c)%Q.
Proof.
  intros [w0 w1 w2] [a0 a1 a2] [b0 b1 b2] [c0 c1 c2] t [x0 x1 x2].
  unfold dot, lin, vadd, vscale; cbn [vx vy vz f_c0 f_c1 f_c2]. ring.
Qed.

Lemma dot_sym : forall a b, (dot a b == dot b a)%Q.
Proof. intros [a0 a1 a2] [b0 b1 b2]. unfold dot; cbn [vx vy vz]. ring. Qed.

(* Parseval: y = sum_j (u_j . y) u_j *)
Lemma orthonormal_basis : forall g y, orthonormal g ->
  veq y (lin (uaff g) (V3 (dot (sel (g_unit g) X0) y) (dot (sel (g_unit g) X1) y) (dot (sel (g_unit g) X2) y))).
Proof.
  intros g y Ho. pose proof (orthonormal_det g Ho) as Hd.
  pose proof (lin_inv_lin (uaff g) y Hd) as Hy.
  set (x := inv_lin (uaff g) y) in *.
  apply veq_trans with (lin (uaff g) x); [apply veq_sym; exact Hy|].
  apply lin_compat. unfold veq; cbn [vx vy vz].
  assert (D : forall j, (dot (sel (g_unit g) j) y == dot (sel (g_unit g) j) (lin (uaff g) x))%Q).
  { intros j. apply dot_veq_r. apply veq_sym. exact Hy. }
  rewrite !D. unfold uaff. rewrite !dot_lin. unfold orthonormal in Ho. rewrite !Ho. cbn [ax_eqb]. repeat split; ring.
Qed.

(* ---- stage 1 under success ------------------------------------------------------------------ *)
Lemma find_axis_some : forall tol g u j, find_axis tol g u = Some j -> aligned tol u (sel (g_unit g) j) = true.
Proof.
  intros tol g u j. unfold find_axis.
  destruct (aligned tol u (sel (g_unit g) X0)) eqn:A0; [intros H; inversion H; subst; exact A0|].
  destruct (aligned tol u (sel (g_unit g) X1)) eqn:A1; [intros H; inversion H; subst; exact A1|].
  destruct (aligned tol u (sel (g_unit g) X2)) eqn:A2; [intros H; inversion H; subst; exact A2|discriminate].
Qed.

Lemma axis_step_inv : forall tol g u s j k, axis_step tol g u s = Ok (j, k) ->
  aligned tol u (sel (g_unit g) j) = true /\
  (Qabs' (s / sel (g_spac g) j - inject_Z (rne (s / sel (g_spac g) j))) <= tol)%Q /\
  k = (if Qltb (dot u (sel (g_unit g) j)) 0 then - rne (s / sel (g_spac g) j) else rne (s / sel (g_spac g) j)).
Proof.
  intros tol g u s j k. unfold axis_step. destruct (find_axis tol g u) as [j'|] eqn:F; [|discriminate].
  destruct (rne (s / sel (g_spac g) j') =? 0); cbn [orb]; [discriminate|].
  destruct (Qltb tol _) eqn:E; [discriminate|]. intros H. inversion H; subst.
  split; [now apply find_axis_some|]. split; [now apply Qltb_false_le|reflexivity].
Qed.

Lemma axis_step_nonzero : forall tol g u s j k, axis_step tol g u s = Ok (j, k) -> k <> 0.
Proof.
  intros tol g u s j k. unfold axis_step. destruct (find_axis tol g u) as [j'|]; [|discriminate].
  destruct (rne (s / sel (g_spac g) j') =? 0) eqn:E0; cbn [orb]; [discriminate|]. apply Z.eqb_neq in E0.
  destruct (Qltb tol _); [discriminate|]. intros H. inversion H; subst.
  destruct (Qltb (dot u (sel (g_unit g) j)) 0); lia.
Qed.

Lemma vallclose_inv : forall tol u v, vallclose tol u v = true ->
  ((- tol <= vx u - vx v)%Q /\ (vx u - vx v <= tol)%Q) /\
  ((- tol <= vy u - vy v)%Q /\ (vy u - vy v <= tol)%Q) /\
  ((- tol <= vz u - vz v)%Q /\ (vz u - vz v <= tol)%Q).
Proof.
  intros tol u v H. unfold vallclose in H.
  apply andb_true_iff in H as [H H3]. apply andb_true_iff in H as [H1 H2].
  apply Qle_bool_iff, Qabs'_le in H1. apply Qle_bool_iff, Qabs'_le in H2. apply Qle_bool_iff, Qabs'_le in H3.
  tauto.
Qed.

(* component-wise closeness to a unit vector fixes the sign of the dot product *)
Lemma close_dot_pos : forall tol u v, (0 <= tol)%Q -> (3 * tol < 1)%Q -> (dot v v == 1)%Q ->
  vallclose tol u v = true -> (0 < dot u v)%Q.
Proof.
  intros tol [u0 u1 u2] [v0 v1 v2] Ht0 Ht1 Hv H.
  destruct (unit_comp_bound _ Hv) as ((A0 & B0) & (A1 & B1) & (A2 & B2)).
  destruct (vallclose_inv _ _ _ H) as ((C0 & D0) & (C1 & D1) & (C2 & D2)).
  unfold dot in *; cbn [vx vy vz] in *.
  destruct (mul_bound (u0 - v0) v0 tol 1 C0 D0 A0 B0) as [M0 N0].
  destruct (mul_bound (u1 - v1) v1 tol 1 C1 D1 A1 B1) as [M1 N1].
  destruct (mul_bound (u2 - v2) v2 tol 1 C2 D2 A2 B2) as [M2 N2].
  assert (E : (u0 * v0 + u1 * v1 + u2 * v2 ==
               (v0 * v0 + v1 * v1 + v2 * v2) + (u0 - v0) * v0 + (u1 - v1) * v1 + (u2 - v2) * v2)%Q) by ring.
  rewrite E, Hv. lra.
Qed.

Lemma aligned_sign : forall tol u v, (0 <= tol)%Q -> (3 * tol < 1)%Q -> (dot v v == 1)%Q ->
  aligned tol u v = true ->
  (vallclose tol u v = true /\ Qltb (dot u v) 0 = false) \/
  (vallclose tol u (vneg v) = true /\ Qltb (dot u v) 0 = true).
Proof.
  intros tol u v Ht0 Ht1 Hv H. unfold aligned in H. apply orb_true_iff in H as [H|H].
  - left. split; [exact H|]. apply Qltb_false_le. pose proof (close_dot_pos tol u v Ht0 Ht1 Hv H). lra.
  - right. split; [exact H|]. apply Qltb_true_lt.
    assert (Hn : (dot (vneg v) (vneg v) == 1)%Q) by (rewrite dot_vneg_vneg; exact Hv).
    pose proof (close_dot_pos tol u (vneg v) Ht0 Ht1 Hn H) as P. rewrite dot_vneg_r in P. lra.
Qed.

(* one affine entry: stride st and source spacing t against target spacing s *)
Lemma comp_bound : forall tol s t st vi ui, (0 <= tol)%Q -> (0 < t)%Q -> (0 < s)%Q ->
  (-1 <= vi)%Q -> (vi <= 1)%Q -> (- tol <= ui - vi)%Q -> (ui - vi <= tol)%Q ->
  (Qabs' (s / t - st) <= tol)%Q ->
  (Qabs' (st * (t * vi) - s * ui) <= tol * (s + t))%Q.
Proof.
  intros tol s t st vi ui Ht0 Ht Hs V1 V2 U1 U2 Hst.
  apply Qabs'_le in Hst as [S1 S2]. apply Qabs'_le_iff.
  assert (E : (st * (t * vi) - s * ui == (st - s / t) * (t * vi) + s * (vi - ui))%Q) by (field; lra).
  rewrite E.
  assert (T1 : (- t <= t * vi)%Q /\ (t * vi <= t)%Q).
  { pose proof (mul_bound t vi t 1 ltac:(lra) ltac:(lra) ltac:(lra) ltac:(lra)) as [M N]. split; lra. }
  destruct T1 as [T1 T2].
  pose proof (mul_bound (st - s / t) (t * vi) tol t ltac:(lra) ltac:(lra) ltac:(lra) ltac:(lra)) as [M1 N1].
  pose proof (mul_bound s (vi - ui) s tol ltac:(lra) ltac:(lra) ltac:(lra) ltac:(lra)) as [M2 N2].
  split; lra.
Qed.

Definition within (e a b : Q) : Prop := (Qabs' (a - b) <= e)%Q.
Definition vwithin (e : Q) (a b : vec3) : Prop :=
  within e (vx a) (vx b) /\ within e (vy a) (vy b) /\ within e (vz a) (vz b).

Lemma step_col_within : forall tol g u s j k, (0 <= tol)%Q -> (3 * tol < 1)%Q -> orthonormal g -> spac_pos g ->
  (0 < s)%Q -> axis_step tol g u s = Ok (j, k) ->
  vwithin (tol * (s + sel (g_spac g) j)) (vscale (inject_Z k) (col g j)) (vscale s u).
Proof.
  intros tol g u s j k Ht0 Ht1 Ho Hsp Hs H.
  destruct (axis_step_inv _ _ _ _ _ _ H) as (Ha & Hst & Hk).
  assert (Hv : (dot (sel (g_unit g) j) (sel (g_unit g) j) == 1)%Q) by (rewrite (Ho j j), ax_eqb_refl; reflexivity).
  pose proof (Hsp j) as Ht. unfold col.
  set (t := sel (g_spac g) j) in *. set (v := sel (g_unit g) j) in *. set (st := rne (s / t)) in *.
  destruct (unit_comp_bound _ Hv) as ((A0 & B0) & (A1 & B1) & (A2 & B2)).
  destruct (aligned_sign tol u v Ht0 Ht1 Hv Ha) as [[Hc Hd]|[Hc Hd]]; rewrite Hd in Hk; subst k;
    destruct (vallclose_inv _ _ _ Hc) as ((C0 & D0) & (C1 & D1) & (C2 & D2));
    destruct u as [u0 u1 u2], v as [v0 v1 v2]; unfold vwithin, within, vscale, vneg in *; cbn [vx vy vz] in *.
  - repeat split; apply comp_bound; assumption.
  - rewrite inject_Z_opp.
    assert (F : forall vi ui, (- inject_Z st * (t * vi) - s * ui == inject_Z st * (t * (- vi)) - s * ui)%Q)
      by (intros; ring).
    repeat split; rewrite (Qabs'_compat _ _ (F _ _)); apply comp_bound; try assumption; lra.
Qed.

(* ---- stage 2: the target position in the source's grid coordinates ------------------------------ *)
Lemma pos_decomp : forall g h sg, orthonormal g -> spac_pos g -> is_perm (p0 sg) (p1 sg) (p2 sg) = true ->
  veq (g_pos h)
      (vadd (g_pos g) (vadd (vscale (start_ind g h sg X0) (col g (p0 sg)))
                      (vadd (vscale (start_ind g h sg X1) (col g (p1 sg)))
                            (vscale (start_ind g h sg X2) (col g (p2 sg)))))).
Proof.
  intros g h [s0 s1 s2] Ho Hsp Hp.
  pose proof (orthonormal_basis g (vsub (g_pos h) (g_pos g)) Ho) as (H1 & H2 & H3).
  pose proof (Hsp X0) as S0. pose proof (Hsp X1) as S1. pose proof (Hsp X2) as S2.
  destruct s0, s1, s2; try discriminate Hp;
    unfold start_ind, col, uaff, lin in *; cbn [p0 p1 p2 sel f_c0 f_c1 f_c2] in *;
    remember (dot (p0 (g_unit g)) (vsub (g_pos h) (g_pos g))) as d0 eqn:E0;
    remember (dot (p1 (g_unit g)) (vsub (g_pos h) (g_pos g))) as d1 eqn:E1;
    remember (dot (p2 (g_unit g)) (vsub (g_pos h) (g_pos g))) as d2 eqn:E2; clear E0 E1 E2;
    destruct (g_pos h) as [h0 h1 h2], (g_pos g) as [q0 q1 q2];
    destruct (p0 (g_unit g)) as [a0 a1 a2], (p1 (g_unit g)) as [b0 b1 b2], (p2 (g_unit g)) as [c0 c1 c2];
    set (t0 := p0 (g_spac g)) in *; set (t1 := p1 (g_spac g)) in *; set (t2 := p2 (g_spac g)) in *;
    unfold veq, vsub, vadd, vscale in *; cbn [vx vy vz] in *;
    (assert (K1 : (h0 == q0 + (d0 * a0 + d1 * b0 + d2 * c0))%Q) by lra);
    (assert (K2 : (h1 == q1 + (d0 * a1 + d1 * b1 + d2 * c1))%Q) by lra);
    (assert (K3 : (h2 == q2 + (d0 * a2 + d1 * b2 + d2 * c2))%Q) by lra);
    rewrite K1, K2, K3; repeat split; field; repeat split; lra.
Qed.

Lemma perm_sum : forall (f : ax -> Q) sg, is_perm (p0 sg) (p1 sg) (p2 sg) = true ->
  (f (p0 sg) + f (p1 sg) + f (p2 sg) == f X0 + f X1 + f X2)%Q.
Proof. intros f [s0 s1 s2] H. destruct s0, s1, s2; try discriminate H; cbn [p0 p1 p2]; ring. Qed.

(* e * (t * u_i) with |e| <= tol, |u_i| <= 1 *)
Lemma term_bound : forall tol e t ui, (0 <= tol)%Q -> (0 < t)%Q -> (- tol <= e)%Q -> (e <= tol)%Q ->
  (-1 <= ui)%Q -> (ui <= 1)%Q -> (- (tol * t) <= e * (t * ui))%Q /\ (e * (t * ui) <= tol * t)%Q.
Proof.
  intros tol e t ui Ht0 Ht E1 E2 U1 U2.
  pose proof (mul_bound t ui t 1 ltac:(lra) ltac:(lra) ltac:(lra) ltac:(lra)) as [M N].
  pose proof (mul_bound e (t * ui) tol t ltac:(lra) ltac:(lra) ltac:(lra) ltac:(lra)) as [M1 N1]. split; lra.
Qed.

Definition spac_sum (g : geom) : Q := sel (g_spac g) X0 + sel (g_spac g) X1 + sel (g_spac g) X2.

Lemma pos_within : forall tol g h sg k, (0 <= tol)%Q -> orthonormal g -> spac_pos g ->
  is_perm (p0 sg) (p1 sg) (p2 sg) = true -> (forall d, (shift g h sg d <= tol)%Q) ->
  vwithin (tol * spac_sum g) (a_pos (m_geom (assemble g sg (res3 (g_shape h) (starts g h sg) k)))) (g_pos h).
Proof.
  intros tol g h sg k Ht0 Ho Hsp Hp Hs.
  pose proof (pos_decomp g h sg Ho Hsp Hp) as (P1 & P2 & P3).
  pose proof (perm_sum (fun j => (tol * sel (g_spac g) j)%Q) sg Hp) as PS. cbv beta in PS.
  assert (Hu : forall j, (dot (sel (g_unit g) j) (sel (g_unit g) j) == 1)%Q)
    by (intros j; rewrite (Ho j j), ax_eqb_refl; reflexivity).
  pose proof (Hs X0) as E0. pose proof (Hs X1) as E1. pose proof (Hs X2) as E2.
  unfold shift in E0, E1, E2. apply Qabs'_le in E0, E1, E2.
  destruct E0 as [E0a E0b], E1 as [E1a E1b], E2 as [E2a E2b].
  unfold assemble, res3, starts, tab. cbn [m_geom a_pos p0 p1 p2 sel r_first].
  set (i0 := start_ind g h sg X0) in *. set (i1 := start_ind g h sg X1) in *. set (i2 := start_ind g h sg X2) in *.
  set (z0 := inject_Z (rne i0)) in *. set (z1 := inject_Z (rne i1)) in *. set (z2 := inject_Z (rne i2)) in *.
  pose proof (Hsp (p0 sg)) as T0. pose proof (Hsp (p1 sg)) as T1. pose proof (Hsp (p2 sg)) as T2.
  destruct (unit_comp_bound _ (Hu (p0 sg))) as ((A0 & B0) & (A1 & B1) & (A2 & B2)).
  destruct (unit_comp_bound _ (Hu (p1 sg))) as ((A3 & B3) & (A4 & B4) & (A5 & B5)).
  destruct (unit_comp_bound _ (Hu (p2 sg))) as ((A6 & B6) & (A7 & B7) & (A8 & B8)).
  unfold col in *.
  set (t0 := sel (g_spac g) (p0 sg)) in *. set (t1 := sel (g_spac g) (p1 sg)) in *.
  set (t2 := sel (g_spac g) (p2 sg)) in *.
  destruct (sel (g_unit g) (p0 sg)) as [a0 a1 a2], (sel (g_unit g) (p1 sg)) as [b0 b1 b2],
           (sel (g_unit g) (p2 sg)) as [c0 c1 c2].
  destruct (g_pos h) as [h0 h1 h2], (g_pos g) as [q0 q1 q2].
  unfold vwithin, within, spac_sum, vadd, vscale in *; cbn [vx vy vz] in *.
  assert (F : forall q hh x y z, (hh == q + (i0 * (t0 * x) + (i1 * (t1 * y) + i2 * (t2 * z))))%Q ->
     (q + (z0 * (t0 * x) + (z1 * (t1 * y) + z2 * (t2 * z))) - hh ==
      (z0 - i0) * (t0 * x) + (z1 - i1) * (t1 * y) + (z2 - i2) * (t2 * z))%Q).
  { intros q hh x y z E. rewrite E. ring. }
  repeat split; apply Qabs'_le_iff.
  - rewrite (F _ _ _ _ _ P1).
    pose proof (term_bound tol (z0 - i0) t0 a0 ltac:(lra) ltac:(lra) ltac:(lra) ltac:(lra) ltac:(lra) ltac:(lra)) as [M0 N0].
    pose proof (term_bound tol (z1 - i1) t1 b0 ltac:(lra) ltac:(lra) ltac:(lra) ltac:(lra) ltac:(lra) ltac:(lra)) as [M1 N1].
    pose proof (term_bound tol (z2 - i2) t2 c0 ltac:(lra) ltac:(lra) ltac:(lra) ltac:(lra) ltac:(lra) ltac:(lra)) as [M2 N2]. split; lra.
  - rewrite (F _ _ _ _ _ P2).
    pose proof (term_bound tol (z0 - i0) t0 a1 ltac:(lra) ltac:(lra) ltac:(lra) ltac:(lra) ltac:(lra) ltac:(lra)) as [M0 N0].
    pose proof (term_bound tol (z1 - i1) t1 b1 ltac:(lra) ltac:(lra) ltac:(lra) ltac:(lra) ltac:(lra) ltac:(lra)) as [M1 N1].
    pose proof (term_bound tol (z2 - i2) t2 c1 ltac:(lra) ltac:(lra) ltac:(lra) ltac:(lra) ltac:(lra) ltac:(lra)) as [M2 N2]. split; lra.
  - rewrite (F _ _ _ _ _ P3).
    pose proof (term_bound tol (z0 - i0) t0 a2 ltac:(lra) ltac:(lra) ltac:(lra) ltac:(lra) ltac:(lra) ltac:(lra)) as [M0 N0].
    pose proof (term_bound tol (z1 - i1) t1 b2 ltac:(lra) ltac:(lra) ltac:(lra) ltac:(lra) ltac:(lra) ltac:(lra)) as [M1 N1].
    pose proof (term_bound tol (z2 - i2) t2 c2 ltac:(lra) ltac:(lra) ltac:(lra) ltac:(lra) ltac:(lra) ltac:(lra)) as [M2 N2]. split; lra.
Qed.

(* ---- soundness with explicit tolerances ---------------------------------------------------------- *)
Lemma assemble_shape_eq : forall g sg m a k, a_shape (m_geom (assemble g sg (res3 m a k))) = m.
Proof. intros g sg [m0 m1 m2] a k. reflexivity. Qed.

Lemma assemble_col : forall g sg m a k d,
  sel (a_cols (m_geom (assemble g sg (res3 m a k)))) d = vscale (inject_Z (sel k d)) (col g (sel sg d)).
Proof. intros g sg m a k d. destruct d; reflexivity. Qed.

(* FULL soundness clause, with the tolerance units made explicit: a successful match returns a geometry
   with the target's shape whose affine differs from the target's, entry by entry, by at most
   tol x (target spacing + source spacing) in the direction columns and tol x (sum of source spacings)
   in the position *)
Theorem match_sound_within : forall tol g h r,
  (0 <= tol)%Q -> (3 * tol < 1)%Q -> orthonormal g -> spac_pos g -> spac_pos h ->
  gpos (g_shape g) -> gpos (g_shape h) ->
  match_geometry tol g h = Ok r ->
  is_perm (p0 (m_perm r)) (p1 (m_perm r)) (p2 (m_perm r)) = true /\
  a_shape (m_geom r) = g_shape h /\
  (forall d, vwithin (tol * (sel (g_spac h) d + sel (g_spac g) (sel (m_perm r) d)))
                     (sel (a_cols (m_geom r)) d) (col h d)) /\
  vwithin (tol * spac_sum g) (a_pos (m_geom r)) (g_pos h).
Proof.
  intros tol g h r Ht0 Ht1 Ho Hsp Hsh Hg Hh H.
  destruct (match_sound tol g h r Hg Hh H) as (sg & k & Hst & Hp & Hk & Hs & Hf & Hc & ->).
  cbn [m_perm assemble]. split; [exact Hp|]. split; [apply assemble_shape_eq|]. split.
  - intros d. rewrite assemble_col. unfold col at 2.
    apply step_col_within; try assumption; [apply Hsh|]. exact (steps_of_inv _ _ _ _ _ Hst d).
  - now apply pos_within.
Qed.

Lemma within_qclose : forall T e a a' b, (a' == a)%Q -> within e a b -> (e <= T)%Q ->
  qclose_spec (Some T) a' b.
Proof.
  intros T e a a' b Ha Hw He. unfold qclose_spec, within in *.
  assert (E : (a' - b == a - b)%Q) by (rewrite Ha; reflexivity). rewrite (Qabs'_compat _ _ E).
  pose proof (Qabs'_nonneg b). assert (R : (0 <= rtol * Qabs' b)%Q) by (apply Qmult_le_0_compat; [unfold rtol|]; lra).
  lra.
Qed.

Lemma vwithin_vclose : forall T e a b, vwithin e a b -> (e <= T)%Q -> vclose_spec (Some T) (vscale 1 a) b.
Proof.
  intros T e [a0 a1 a2] [b0 b1 b2] (H0 & H1 & H2) He. unfold vclose_spec, vscale; cbn [vx vy vz] in *.
  repeat split; eapply within_qclose; try eassumption; ring.
Qed.

Lemma vwithin_vclose_pos : forall T e a b, vwithin e a b -> (e <= T)%Q -> vclose_spec (Some T) a b.
Proof.
  intros T e [a0 a1 a2] [b0 b1 b2] (H0 & H1 & H2) He. unfold vclose_spec; cbn [vx vy vz] in *.
  repeat split; eapply within_qclose; try eassumption; reflexivity.
Qed.

(* ... hence the result IS geometry_equal to the target for every atol that is at least the
   match tolerance converted to millimetres *)
Theorem match_sound_geometry_equal : forall tol g h r T,
  (0 <= tol)%Q -> (3 * tol < 1)%Q -> orthonormal g -> spac_pos g -> spac_pos h ->
  gpos (g_shape g) -> gpos (g_shape h) ->
  match_geometry tol g h = Ok r ->
  (forall d, (tol * (sel (g_spac h) d + sel (g_spac g) (sel (m_perm r) d)) <= T)%Q) ->
  (tol * spac_sum g <= T)%Q ->
  geometry_equal (Some T) (ageom_geom (m_geom r) (g_cs g) (g_for g)) h = true.
Proof.
  intros tol g h r T Ht0 Ht1 Ho Hsp Hsh Hg Hh H HT1 HT2.
  destruct (match_sound_within tol g h r Ht0 Ht1 Ho Hsp Hsh Hg Hh H) as (_ & Hshape & Hcols & Hpos).
  destruct (match_sound tol g h r Hg Hh H) as (sg & k & _ & _ & _ & _ & Hf & Hc & _).
  apply geometry_equal_iff. unfold ageom_geom; cbn [g_shape g_cs g_for].
  split; [exact Hshape|]. split; [exact Hc|]. split.
  - apply affine_close_iff. cbn [g_pos]. split.
    + intros j. unfold col at 1. cbn [g_spac g_unit].
      assert (E : sel (T3 1 1 1)%Q j = 1%Q) by (destruct j; reflexivity). rewrite E.
      eapply vwithin_vclose; [apply Hcols|apply HT1].
    + eapply vwithin_vclose_pos; [exact Hpos|exact HT2].
  - intros C. apply for_conflict_iff in C. congruence.
Qed.

Lemma within_zero : forall e a b, (e == 0)%Q -> within e a b -> (a == b)%Q.
Proof. intros e a b He H. unfold within in H. apply Qabs'_le in H. lra. Qed.

(* tol = 0: the result is EXACTLY the target (geometry_equal with tol=None, i.e. array_equal) *)
Theorem match_sound_exact : forall g h r,
  orthonormal g -> spac_pos g -> spac_pos h -> gpos (g_shape g) -> gpos (g_shape h) ->
  match_geometry 0 g h = Ok r ->
  geometry_equal None (ageom_geom (m_geom r) (g_cs g) (g_for g)) h = true.
Proof.
  intros g h r Ho Hsp Hsh Hg Hh H.
  assert (Ht0 : (0 <= 0)%Q) by lra. assert (Ht1 : (3 * 0 < 1)%Q) by lra.
  destruct (match_sound_within 0 g h r Ht0 Ht1 Ho Hsp Hsh Hg Hh H) as (_ & Hshape & Hcols & Hpos).
  destruct (match_sound 0 g h r Hg Hh H) as (sg & k & _ & _ & _ & _ & Hf & Hc & _).
  apply geometry_equal_iff. unfold ageom_geom; cbn [g_shape g_cs g_for].
  split; [exact Hshape|]. split; [exact Hc|]. split.
  - apply affine_close_iff. cbn [g_pos]. split.
    + intros j. unfold col at 1. cbn [g_spac g_unit].
      assert (E : sel (T3 1 1 1)%Q j = 1%Q) by (destruct j; reflexivity). rewrite E.
      destruct (Hcols j) as (W0 & W1 & W2).
      destruct (sel (a_cols (m_geom r)) j) as [a0 a1 a2], (col h j) as [b0 b1 b2].
      unfold vclose_spec, qclose_spec, vscale; cbn [vx vy vz] in *.
      apply within_zero in W0, W1, W2; try ring. rewrite <- W0, <- W1, <- W2. repeat split; ring.
    + destruct Hpos as (W0 & W1 & W2).
      destruct (a_pos (m_geom r)) as [a0 a1 a2], (g_pos h) as [b0 b1 b2].
      unfold vclose_spec, qclose_spec; cbn [vx vy vz] in *.
      apply within_zero in W0, W1, W2; try ring. repeat split; assumption.
  - intros C. apply for_conflict_iff in C. congruence.
Qed.

(* ---- tol = 0: success is equivalent to reachability ---------------------------------------------- *)
Lemma axis_step_exact : forall g u s j k, orthonormal g -> spac_pos g -> (0 < s)%Q ->
  axis_step 0 g u s = Ok (j, k) ->
  k <> 0 /\ veq u (vscale (sgn k) (sel (g_unit g) j)) /\ (s == inject_Z (Z.abs k) * sel (g_spac g) j)%Q.
Proof.
  intros g u s j k Ho Hsp Hs H.
  assert (Ht0 : (0 <= 0)%Q) by lra. assert (Ht1 : (3 * 0 < 1)%Q) by lra.
  destruct (axis_step_inv _ _ _ _ _ _ H) as (Ha & Hst & Hk).
  assert (Hv : (dot (sel (g_unit g) j) (sel (g_unit g) j) == 1)%Q) by (rewrite (Ho j j), ax_eqb_refl; reflexivity).
  pose proof (Hsp j) as Ht.
  set (t := sel (g_spac g) j) in *. set (v := sel (g_unit g) j) in *. set (st := rne (s / t)) in *.
  apply Qabs'_le in Hst as [S1 S2].
  assert (Esf : (s / t == inject_Z st)%Q) by lra.
  assert (Es : (s == inject_Z st * t)%Q) by (rewrite <- Esf; field; lra).
  assert (Hpos : 0 < st).
  { rewrite Zlt_Qlt. change (inject_Z 0) with 0%Q.
    destruct (Qlt_le_dec 0 (inject_Z st)) as [L|L]; [exact L|]. exfalso.
    assert (K : (inject_Z st * t <= 0)%Q).
    { assert (K' : (0 <= (- inject_Z st) * t)%Q) by (apply Qmult_le_0_compat; lra).
      assert (E : ((- inject_Z st) * t == - (inject_Z st * t))%Q) by ring. rewrite E in K'. lra. }
    lra. }
  destruct (aligned_sign 0 u v Ht0 Ht1 Hv Ha) as [[Hc Hd]|[Hc Hd]]; rewrite Hd in Hk; subst k;
    destruct (vallclose_inv _ _ _ Hc) as ((C0 & D0) & (C1 & D1) & (C2 & D2));
    destruct u as [u0 u1 u2], v as [v0 v1 v2]; unfold veq, vscale, vneg, sgn in *; cbn [vx vy vz] in *.
  - split; [lia|]. replace (0 <? st) with true by lia. rewrite Z.abs_eq by lia.
    split; [repeat split; lra|exact Es].
  - split; [lia|]. replace (0 <? - st) with false by lia. rewrite Z.abs_neq by lia. rewrite Z.opp_involutive.
    split; [repeat split; lra|exact Es].
Qed.

Lemma shift_zero : forall g h sg d, (shift g h sg d <= 0)%Q ->
  (start_ind g h sg d == inject_Z (sel (starts g h sg) d))%Q.
Proof.
  intros g h sg d H. unfold shift in H. apply Qabs'_le in H as [H1 H2].
  assert (E : sel (starts g h sg) d = rne (start_ind g h sg d)) by (destruct d; reflexivity).
  rewrite E. lra.
Qed.

Lemma vscale_compat : forall a b v, (a == b)%Q -> veq (vscale a v) (vscale b v).
Proof. intros a b [v0 v1 v2] H. unfold veq, vscale; cbn [vx vy vz]. rewrite H. repeat split; reflexivity. Qed.

Theorem match_exact_reaches : forall g h r,
  orthonormal g -> spac_pos g -> spac_pos h -> gpos (g_shape g) -> gpos (g_shape h) ->
  match_geometry 0 g h = Ok r ->
  for_conflict (g_for g) (g_for h) = false /\ g_cs g = g_cs h /\
  exists k a, reaches g h (m_perm r) k a /\ r = assemble g (m_perm r) (res3 (g_shape h) a k).
Proof.
  intros g h r Ho Hsp Hsh Hg Hh H.
  destruct (match_sound 0 g h r Hg Hh H) as (sg & k & Hst & Hp & Hk & Hs & Hf & Hc & ->).
  split; [exact Hf|]. split; [exact Hc|]. cbn [m_perm assemble].
  exists k, (starts g h sg). split; [|reflexivity].
  split; [exact Hp|]. split.
  - intros d. apply (axis_step_exact g _ _ _ _ Ho Hsp (Hsh d)). exact (steps_of_inv _ _ _ _ _ Hst d).
  - pose proof (pos_decomp g h sg Ho Hsp Hp) as P.
    eapply veq_trans; [exact P|].
    pose proof (shift_zero g h sg X0 (Hs X0)) as Z0. pose proof (shift_zero g h sg X1 (Hs X1)) as Z1.
    pose proof (shift_zero g h sg X2 (Hs X2)) as Z2. cbn [sel] in Z0, Z1, Z2.
    destruct (vscale_compat _ _ (col g (p0 sg)) Z0) as (A0 & A1 & A2).
    destruct (vscale_compat _ _ (col g (p1 sg)) Z1) as (B0 & B1 & B2).
    destruct (vscale_compat _ _ (col g (p2 sg)) Z2) as (C0 & C1 & C2).
    unfold veq, vadd in *; cbn [vx vy vz] in *.
    rewrite A0, A1, A2, B0, B1, B2, C0, C1, C2. repeat split; reflexivity.
Qed.

(* END-TO-END (exact arithmetic, tol = 0): match_geometry succeeds exactly on the targets that are reachable
   by axis permutation, flips, integer-stride cropping and padding; it then returns exactly the target's
   geometry, and refuses (RuntimeError / ValueError never Ok) everything else *)
Theorem match_exact_iff_reachable : forall g h,
  orthonormal g -> spac_pos g -> spac_pos h -> gpos (g_shape g) -> gpos (g_shape h) ->
  ((exists r, match_geometry 0 g h = Ok r) <->
   (for_conflict (g_for g) (g_for h) = false /\ g_cs g = g_cs h /\ exists sg k a, reaches g h sg k a)).
Proof.
  intros g h Ho Hsp Hsh Hg Hh. split.
  - intros [r H]. destruct (match_exact_reaches g h r Ho Hsp Hsh Hg Hh H) as (Hf & Hc & k & a & Hr & _).
    split; [exact Hf|]. split; [exact Hc|]. now exists (m_perm r), k, a.
  - intros (Hf & Hc & sg & k & a & Hr). eexists.
    apply (match_complete 0 g h sg k a); try assumption; lra.
Qed.

(* ---- end to end ------------------------------------------------------------------------------------ *)
Lemma det_geom_aff : forall g,
  (det (geom_aff g) == sel (g_spac g) X0 * sel (g_spac g) X1 * sel (g_spac g) X2 * det (uaff g))%Q.
Proof.
  intros g. unfold geom_aff, uaff, col, det. cbn [sel f_c0 f_c1 f_c2].
  destruct (p0 (g_unit g)) as [a0 a1 a2], (p1 (g_unit g)) as [b0 b1 b2], (p2 (g_unit g)) as [c0 c1 c2].
  unfold dot, cross, vscale; cbn [vx vy vz]. ring.
Qed.

Lemma geom_invertible : forall g, orthonormal g -> spac_pos g -> ~ (det (geom_aff g) == 0)%Q.
Proof.
  intros g Ho Hsp Hd. rewrite det_geom_aff in Hd.
  pose proof (orthonormal_det g Ho) as Hu.
  pose proof (Hsp X0) as S0. pose proof (Hsp X1) as S1. pose proof (Hsp X2) as S2.
  assert (P : (0 < sel (g_spac g) X0 * sel (g_spac g) X1 * sel (g_spac g) X2)%Q)
    by (repeat apply Qmult_lt_0_compat; assumption).
  apply Qmult_integral in Hd. destruct Hd as [Hd|Hd]; [lra|contradiction].
Qed.

(* The sentence of the property, for every tolerance below 1/3: when match_geometry returns, the result has
   the target's shape, is geometry_equal to the target for every atol >= tol converted to millimetres, and
   each of its voxels holds the source voxel lying at the same physical position, padding (0) if there is none *)
Theorem match_end_to_end : forall tol g h r,
  (0 <= tol)%Q -> (3 * tol < 1)%Q -> orthonormal g -> spac_pos g -> spac_pos h ->
  gpos (g_shape g) -> gpos (g_shape h) ->
  match_geometry tol g h = Ok r ->
  a_shape (m_geom r) = g_shape h /\
  (forall T, (forall d, (tol * (sel (g_spac h) d + sel (g_spac g) (sel (m_perm r) d)) <= T)%Q) ->
             (tol * spac_sum g <= T)%Q ->
             geometry_equal (Some T) (ageom_geom (m_geom r) (g_cs g) (g_for g)) h = true) /\
  (forall j0 j1 j2, 0 <= j0 < p0 (g_shape h) -> 0 <= j1 < p1 (g_shape h) -> 0 <= j2 < p2 (g_shape h) ->
     let x := aphys (m_geom r) (zvec (T3 j0 j1 j2)) in
     let v := voxel_at (g_shape g) r j0 j1 j2 in
     (forall i, in_shape (g_shape g) i -> veq x (phys (geom_aff g) (zvec i)) -> v = src_label (g_shape g) i) /\
     ((forall i, in_shape (g_shape g) i -> ~ veq x (phys (geom_aff g) (zvec i))) -> v = 0)).
Proof.
  intros tol g h r Ht0 Ht1 Ho Hsp Hsh Hg Hh H.
  destruct (match_sound_within tol g h r Ht0 Ht1 Ho Hsp Hsh Hg Hh H) as (_ & Hshape & _ & _).
  split; [exact Hshape|]. split.
  - intros T HT1 HT2. now apply (match_sound_geometry_equal tol g h r T).
  - destruct (match_sound tol g h r Hg Hh H) as (sg & k & _ & Hp & _ & _ & _ & _ & ->).
    intros j0 j1 j2 H0 H1 H2.
    apply match_voxels_coincide; try assumption. now apply geom_invertible.
Qed.

(* ... and in exact arithmetic (tol = 0) the call succeeds precisely on the reachable targets, returning
   exactly the target geometry *)
Theorem match_exact_end_to_end : forall g h,
  orthonormal g -> spac_pos g -> spac_pos h -> gpos (g_shape g) -> gpos (g_shape h) ->
  let reachable := for_conflict (g_for g) (g_for h) = false /\ g_cs g = g_cs h /\
                   exists sg k a, reaches g h sg k a in
  (reachable -> exists r, match_geometry 0 g h = Ok r /\
                 geometry_equal None (ageom_geom (m_geom r) (g_cs g) (g_for g)) h = true) /\
  (~ reachable -> exists e, match_geometry 0 g h = Err e).
Proof.
  intros g h Ho Hsp Hsh Hg Hh reachable.
  pose proof (match_exact_iff_reachable g h Ho Hsp Hsh Hg Hh) as Hiff. fold reachable in Hiff. split.
  - intros Hr. apply Hiff in Hr as [r Hr]. exists r. split; [exact Hr|]. now apply match_sound_exact.
  - intros Hn. destruct (match_geometry 0 g h) as [r|e] eqn:E; [|now exists e].
    exfalso. apply Hn, Hiff. now exists r.
Qed.

(* non-vacuity of the tolerance-explicit soundness theorem on the oblique example of C09_Props, with a target
   shifted by a fraction of the tolerance: accepted, not exactly equal, but geometry_equal at atol = 4e-5 *)
Definition snd_src : geom :=
  Geom (T3 3 2 4) 0 (Some 1)
       (T3 (V3 (3 # 5) (4 # 5) 0) (V3 (- (4 # 5)) (3 # 5) 0) (V3 0 0 1)) (T3 (1 # 2) 2 (5 # 4))%Q (V3 10 (- (7 # 2)) 3).
Definition snd_tgt : geom :=
  Geom (T3 3 2 2) 0 None
       (T3 (V3 0 0 (-1)) (V3 (3 # 5) (4 # 5) 0) (V3 (- (4 # 5)) (3 # 5) 0)) (T3 (5 # 2) (1 # 2) 2)%Q
       (V3 (103 # 10) (- (31 # 10)) ((27 # 4) + (1 # 400000))).
Example match_sound_example :
  orthonormal snd_src /\ spac_pos snd_src /\ spac_pos snd_tgt /\
  exists r, match_geometry (1 # 100000) snd_src snd_tgt = Ok r /\
    geometry_equal None (ageom_geom (m_geom r) 0 (Some 1)) snd_tgt = false /\
    (forall d, ((1 # 100000) * (sel (g_spac snd_tgt) d + sel (g_spac snd_src) (sel (m_perm r) d)) <= 4 # 100000)%Q) /\
    ((1 # 100000) * spac_sum snd_src <= 4 # 100000)%Q /\
    geometry_equal (Some (4 # 100000)%Q) (ageom_geom (m_geom r) 0 (Some 1)) snd_tgt = true /\
    voxel_at (g_shape snd_src) r 0 1 1 = 24 /\ voxel_at (g_shape snd_src) r 2 0 0 = 0.
Proof.
  split; [intros i j; destruct i, j; vm_compute; reflexivity|].
  split; [intros d; destruct d; vm_compute; reflexivity|].
  split; [intros d; destruct d; vm_compute; reflexivity|].
  destruct (match_geometry (1 # 100000) snd_src snd_tgt) as [r|e] eqn:E; [|vm_compute in E; discriminate].
  exists r. split; [reflexivity|]. vm_compute in E. inversion E; subst. clear E.
  split; [vm_compute; reflexivity|].
  split; [intros d; destruct d; vm_compute; discriminate|].
  split; [vm_compute; discriminate|].
  split; [vm_compute; reflexivity|]. split; vm_compute; reflexivity.
Qed.

(* ---- "... or refuses": the exception class ------------------------------------------------------------- *)
(* (before fix D104 a stride rounding to 0 escaped as ValueError('slice step cannot be zero'); the witness
   zs_src / zs_tgt below is now refused with RuntimeError) *)
Theorem match_refusal_class : forall tol g h e, gpos (g_shape g) -> gpos (g_shape h) ->
  match_geometry tol g h = Err e ->
  e = RT \/ (e = VE /\ exists sg k, steps_of tol g h = Ok (sg, k) /\ is_perm (p0 sg) (p1 sg) (p2 sg) = false).
Proof.
  intros tol g h e Hg Hh. unfold match_geometry.
  destruct (for_conflict (g_for g) (g_for h)); [intros H; inversion H; now left|].
  destruct (g_cs g =? g_cs h); cbn [negb]; [|intros H; inversion H; now left].
  destruct (steps_of tol g h) as [[sg k]|e0] eqn:ES; cbn [bind fst snd].
  2:{ destruct (steps_of_err _ _ _ _ ES) as [-> _]. intros H; inversion H; now left. }
  destruct (is_perm (p0 sg) (p1 sg) (p2 sg)) eqn:EP; cbn [negb].
  2:{ intros H; inversion H. right. split; [reflexivity|]. now exists sg, k. }
  destruct (plans_of_cases tol g h sg k) as [[_ HP]|[_ HP]]; rewrite HP; cbn [bind];
    [|intros H; inversion H; now left].
  destruct (results_total g sg (g_shape h) (starts g h sg) k Hg Hh) as [[_ R]|[[d Hd] _]].
  - rewrite R. cbn [bind]. discriminate.
  - exfalso. apply (axis_step_nonzero _ _ _ _ _ _ (steps_of_inv _ _ _ _ _ ES d)). exact Hd.
Qed.

(* two vectors component-wise close to w and w' have almost the dot product of w and w' *)
Lemma close_pair_dot : forall tol u u' w w', (0 <= tol)%Q ->
  vallclose tol u w = true -> vallclose tol u' w' = true -> (dot w w == 1)%Q -> (dot w' w' == 1)%Q ->
  (- (3 * (2 * tol + tol * tol)) <= dot u u' - dot w w')%Q /\ (dot u u' - dot w w' <= 3 * (2 * tol + tol * tol))%Q.
Proof.
  intros tol [u0 u1 u2] [x0 x1 x2] [w0 w1 w2] [y0 y1 y2] Ht H H' Hw Hw'.
  destruct (unit_comp_bound _ Hw) as ((A0 & B0) & (A1 & B1) & (A2 & B2)).
  destruct (unit_comp_bound _ Hw') as ((A3 & B3) & (A4 & B4) & (A5 & B5)).
  destruct (vallclose_inv _ _ _ H) as ((C0 & D0) & (C1 & D1) & (C2 & D2)).
  destruct (vallclose_inv _ _ _ H') as ((C3 & D3) & (C4 & D4) & (C5 & D5)).
  unfold dot in *; cbn [vx vy vz] in *.
  assert (E : (u0 * x0 + u1 * x1 + u2 * x2 - (w0 * y0 + w1 * y1 + w2 * y2) ==
               ((u0 - w0) * y0 + w0 * (x0 - y0) + (u0 - w0) * (x0 - y0)) +
               ((u1 - w1) * y1 + w1 * (x1 - y1) + (u1 - w1) * (x1 - y1)) +
               ((u2 - w2) * y2 + w2 * (x2 - y2) + (u2 - w2) * (x2 - y2)))%Q) by ring.
  rewrite E.
  pose proof (mul_bound (u0 - w0) y0 tol 1 C0 D0 A3 B3) as [M0 N0].
  pose proof (mul_bound w0 (x0 - y0) 1 tol A0 B0 C3 D3) as [M1 N1].
  pose proof (mul_bound (u0 - w0) (x0 - y0) tol tol C0 D0 C3 D3) as [M2 N2].
  pose proof (mul_bound (u1 - w1) y1 tol 1 C1 D1 A4 B4) as [M3 N3].
  pose proof (mul_bound w1 (x1 - y1) 1 tol A1 B1 C4 D4) as [M4 N4].
  pose proof (mul_bound (u1 - w1) (x1 - y1) tol tol C1 D1 C4 D4) as [M5 N5].
  pose proof (mul_bound (u2 - w2) y2 tol 1 C2 D2 A5 B5) as [M6 N6].
  pose proof (mul_bound w2 (x2 - y2) 1 tol A2 B2 C5 D5) as [M7 N7].
  pose proof (mul_bound (u2 - w2) (x2 - y2) tol tol C2 D2 C5 D5) as [M8 N8].
  split; lra.
Qed.

(* orthogonal target axes cannot both align with the same source axis *)
Lemma aligned_same_axis_absurd : forall tol u u' v, (0 <= tol)%Q -> (7 * tol < 1)%Q ->
  (dot v v == 1)%Q -> (dot u u' == 0)%Q -> aligned tol u v = true -> aligned tol u' v = true -> False.
Proof.
  intros tol u u' v Ht0 Ht1 Hv Hu H H'.
  assert (Hn : (dot (vneg v) (vneg v) == 1)%Q) by (rewrite dot_vneg_vneg; exact Hv).
  assert (T2 : (tol * tol <= tol * (1 # 7))%Q).
  { assert (K : (0 <= tol * ((1 # 7) - tol))%Q) by (apply Qmult_le_0_compat; lra).
    assert (E : (tol * ((1 # 7) - tol) == tol * (1 # 7) - tol * tol)%Q) by ring. rewrite E in K. lra. }
  assert (Dnn : (dot (vneg v) (vneg v) == 1)%Q) by exact Hn.
  assert (Dvn : (dot v (vneg v) == -1)%Q) by (rewrite dot_vneg_r, Hv; reflexivity).
  assert (Dnv : (dot (vneg v) v == -1)%Q) by (rewrite dot_sym, dot_vneg_r, Hv; reflexivity).
  unfold aligned in H, H'. apply orb_true_iff in H. apply orb_true_iff in H'.
  destruct H as [H|H], H' as [H'|H'].
  - destruct (close_pair_dot tol u u' v v Ht0 H H' Hv Hv) as [L R]. rewrite Hu, Hv in L, R. lra.
  - destruct (close_pair_dot tol u u' v (vneg v) Ht0 H H' Hv Hn) as [L R]. rewrite Hu, Dvn in L, R. lra.
  - destruct (close_pair_dot tol u u' (vneg v) v Ht0 H H' Hn Hv) as [L R]. rewrite Hu, Dnv in L, R. lra.
  - destruct (close_pair_dot tol u u' (vneg v) (vneg v) Ht0 H H' Hn Hn) as [L R]. rewrite Hu, Dnn in L, R. lra.
Qed.

Lemma steps_perm : forall tol g h sg k, (0 <= tol)%Q -> (7 * tol < 1)%Q -> orthonormal g -> orthonormal h ->
  steps_of tol g h = Ok (sg, k) -> is_perm (p0 sg) (p1 sg) (p2 sg) = true.
Proof.
  intros tol g h sg k Ht0 Ht1 Ho Hoh ES.
  assert (D : forall d d', ax_eqb d d' = false -> sel sg d <> sel sg d').
  { intros d d' Hdd E.
    destruct (axis_step_inv _ _ _ _ _ _ (steps_of_inv _ _ _ _ _ ES d)) as (A & _).
    destruct (axis_step_inv _ _ _ _ _ _ (steps_of_inv _ _ _ _ _ ES d')) as (A' & _).
    rewrite <- E in A'.
    apply (aligned_same_axis_absurd tol (sel (g_unit h) d) (sel (g_unit h) d') (sel (g_unit g) (sel sg d))); try assumption.
    - rewrite (Ho _ _), ax_eqb_refl. reflexivity.
    - rewrite (Hoh d d'), Hdd. reflexivity. }
  pose proof (D X0 X1 eq_refl) as D01. pose proof (D X0 X2 eq_refl) as D02. pose proof (D X1 X2 eq_refl) as D12.
  cbn [sel] in *. destruct (p0 sg), (p1 sg), (p2 sg); try reflexivity; congruence.
Qed.

(* FULL: between orthonormal geometries (the only ones the Volume constructor accepts) every refusal of
   match_geometry is the documented RuntimeError *)
Theorem match_refusal_is_runtime_error : forall tol g h e, (0 <= tol)%Q -> (7 * tol < 1)%Q ->
  orthonormal g -> orthonormal h -> gpos (g_shape g) -> gpos (g_shape h) ->
  match_geometry tol g h = Err e -> e = RT.
Proof.
  intros tol g h e Ht0 Ht1 Ho Hoh Hg Hh H.
  destruct (match_refusal_class tol g h e Hg Hh H) as [E|(_ & sg & k & ES & EP)]; [exact E|].
  rewrite (steps_perm tol g h sg k Ht0 Ht1 Ho Hoh ES) in EP. discriminate.
Qed.

Definition zs_src : geom :=
  Geom (T3 2 3 4) 0 None (T3 (V3 1 0 0) (V3 0 1 0) (V3 0 0 1)) (T3 1000000 1 1)%Q (V3 0 0 0).
Definition zs_tgt : geom :=
  Geom (T3 2 3 4) 0 None (T3 (V3 1 0 0) (V3 0 1 0) (V3 0 0 1)) (T3 1 1 1)%Q (V3 0 0 0).
Example zero_stride_now_refused :
  orthonormal zs_src /\ orthonormal zs_tgt /\ gpos (g_shape zs_src) /\ gpos (g_shape zs_tgt) /\
  match_geometry (1 # 100000) zs_src zs_tgt = Err RT.
Proof.
  split; [intros i j; destruct i, j; vm_compute; reflexivity|].
  split; [intros i j; destruct i, j; vm_compute; reflexivity|].
  split; [intros d; destruct d; vm_compute; reflexivity|].
  split; [intros d; destruct d; vm_compute; reflexivity|]. vm_compute. reflexivity.
Qed.
