(* C05 - proofs about the frame access model. *)
From Coq Require Import String ZArith List Bool Lia ZifyBool Arith.
From HD Require Import Base.Val Base.ListZ Base.BitWindow C05_Model.
Import ListNotations.
Open Scope Z_scope.
Ltac Zify.zify_post_hook ::= Z.to_euclidean_division_equations.

(* ------------------------------------------------------------------ *)
(* frame number rule                                                   *)
(* ------------------------------------------------------------------ *)
Lemma index_rule : forall n f as_index i,
  std_index n f as_index = Ok i <->
  (as_index = true /\ 0 <= f < n /\ i = f) \/ (as_index = false /\ 1 <= f <= n /\ i = f - 1).
Proof.
  intros n f as_index i. unfold std_index. destruct as_index.
  - destruct ((f <? 0) || (f >=? n)) eqn:E; split; intro H.
    + discriminate.
    + destruct H as [(_ & H & _)|(H & _)]; [lia|discriminate].
    + inversion H; subst. left. repeat split; lia.
    + destruct H as [(_ & _ & ->)|(H & _)]; [reflexivity|discriminate].
  - destruct ((f <? 1) || (f >? n)) eqn:E; split; intro H.
    + discriminate.
    + destruct H as [(H & _)|(_ & H & _)]; [discriminate|lia].
    + inversion H; subst. right. repeat split; lia.
    + destruct H as [(H & _)|(_ & _ & ->)]; [discriminate|reflexivity].
Qed.

Lemma index_rejects : forall n f as_index,
  std_index n f as_index = Err "IndexError" <->
  (as_index = true /\ (f < 0 \/ n <= f)) \/ (as_index = false /\ (f < 1 \/ n < f)).
Proof.
  intros n f as_index. unfold std_index. destruct as_index.
  - destruct ((f <? 0) || (f >=? n)) eqn:E; split; intro H.
    + left. split; [reflexivity|lia].
    + reflexivity.
    + discriminate.
    + destruct H as [(_ & H)|(H & _)]; [lia|discriminate].
  - destruct ((f <? 1) || (f >? n)) eqn:E; split; intro H.
    + right. split; [reflexivity|lia].
    + reflexivity.
    + discriminate.
    + destruct H as [(H & _)|(_ & H)]; [discriminate|lia].
Qed.

Lemma index_total : forall n f as_index,
  (exists i, std_index n f as_index = Ok i /\ 0 <= i < n) \/ std_index n f as_index = Err "IndexError".
Proof.
  intros n f as_index. unfold std_index. destruct as_index.
  - destruct ((f <? 0) || (f >=? n)) eqn:E; [now right|left; exists f; split; [reflexivity|lia]].
  - destruct ((f <? 1) || (f >? n)) eqn:E; [now right|left; exists (f - 1); split; [reflexivity|lia]].
Qed.

(* ------------------------------------------------------------------ *)
(* list lemmas (nat indexed)                                           *)
(* ------------------------------------------------------------------ *)
Section Chunks.
Context {A : Type}.

Lemma chunks_length : forall c w (l : list A), length (chunks c w l) = c.
Proof. induction c as [|c IH]; intros w l; cbn [chunks length]; [reflexivity|now rewrite IH]. Qed.

Lemma nth_error_chunks : forall c w (l : list A) k, (k < c)%nat ->
  nth_error (chunks c w l) k = Some (firstn w (skipn (k * w) l)).
Proof.
  induction c as [|c IH]; intros w l k Hk; [lia|].
  destruct k as [|k]; cbn [chunks nth_error Nat.mul]; [reflexivity|].
  rewrite IH by lia. rewrite skipn_skipn'. reflexivity.
Qed.

Lemma nth_chunks : forall c w (l : list A) k, (k < c)%nat ->
  nth k (chunks c w l) [] = firstn w (skipn (k * w) l).
Proof.
  intros c w l k Hk. apply nth_error_nth. now apply nth_error_chunks.
Qed.

Lemma chunks_firstn : forall c w (l : list A) m, (c * w <= m)%nat ->
  chunks c w (firstn m l) = chunks c w l.
Proof.
  induction c as [|c IH]; intros w l m Hm; [reflexivity|].
  cbn [chunks]. cbn [Nat.mul] in Hm. f_equal.
  - rewrite firstn_firstn. f_equal. lia.
  - rewrite skipn_firstn_comm. apply IH. lia.
Qed.

Lemma skipn_chunks : forall a b w (l : list A),
  skipn a (chunks (a + b) w l) = chunks b w (skipn (a * w) l).
Proof.
  induction a as [|a IH]; intros b w l; [reflexivity|].
  cbn [Nat.add chunks skipn Nat.mul]. rewrite IH. rewrite skipn_skipn'. reflexivity.
Qed.

Lemma firstn_chunks : forall a b w (l : list A),
  firstn a (chunks (a + b) w l) = chunks a w l.
Proof.
  induction a as [|a IH]; intros b w l; [reflexivity|].
  cbn [Nat.add chunks firstn]. now rewrite IH.
Qed.

Lemma firstn_length_ge : forall n (l : list A), (n <= length l)%nat -> length (firstn n l) = n.
Proof. intros n l H. rewrite firstn_length. lia. Qed.
End Chunks.

(* frame i of a flat sequence cut into frames of c elements, each element w units wide *)
Lemma frame_of_chunks : forall {A B} (g : list A -> B) n c w (l : list A) i, (i < n)%nat ->
  nth i (chunks n c (map g (chunks (n * c) w l))) [] = map g (chunks c w (skipn (i * c * w) l)).
Proof.
  intros A B g n c w l i Hi. rewrite nth_chunks by exact Hi.
  rewrite skipn_map, firstn_map. f_equal.
  replace (n * c)%nat with (i * c + (c + (n - i - 1) * c))%nat by nia.
  rewrite skipn_chunks. apply firstn_chunks.
Qed.


(* ------------------------------------------------------------------ *)
(* byte ranges of native frames                                        *)
(* ------------------------------------------------------------------ *)
Lemma raw_ranges_agree : forall bits npx i,
  lazy_range bits npx i = eager_range bits npx i.
Proof.
  intros bits npx i. unfold lazy_range, eager_range, lazy_offset, lazy_nbytes, lazy_bpf.
  destruct (bits =? 1) eqn:Eb.
  - assert (bits = 1) by lia. subst bits. cbn [andb].
    destruct (npx mod 8 =? 0) eqn:Em; cbn [negb].
    + assert (Hq : npx = 8 * (npx / 8)) by lia.
      set (q := npx / 8) in *. rewrite Hq.
      replace (i * (8 * q)) with (i * q * 8) by ring.
      rewrite Z.div_mul by lia. rewrite Z.mod_mul by lia.
      replace (1 * (8 * q) / 8) with q by lia.
      f_equal. lia.
    + replace ((i + 1) * (1 * npx)) with (i * npx + npx) by ring.
      replace (i * (1 * npx)) with (i * npx) by ring.
      remember (i * npx) as p. f_equal. lia.
  - cbn [andb]. rewrite (Z.mul_comm npx bits). reflexivity.
Qed.

(* the lazily read bytes of a bit-packed frame: smallest byte range containing the frame's bits *)
Lemma lazy_range_covers : forall npx i, 0 <= i -> 1 <= npx ->
  let a := fst (lazy_range 1 npx i) in let b := snd (lazy_range 1 npx i) in
  0 <= a /\ 8 * a <= i * npx /\ i * npx + npx <= 8 * b /\
  i * npx - 8 * a = (i * npx) mod 8 /\ i * npx < 8 * a + 8 /\ 8 * b < i * npx + npx + 8.
Proof.
  intros npx i Hi Hn. unfold lazy_range, lazy_offset, lazy_nbytes. cbn [fst snd Z.eqb Pos.eqb].
  assert (0 <= i * npx) by nia. remember (i * npx) as p. lia.
Qed.

(* byte-aligned formats: frame i is the i-th block of npx * (bits/8) bytes *)
Lemma eager_range_words : forall bits npx i, bits = 8 \/ bits = 16 \/ bits = 32 ->
  eager_range bits npx i = (i * (npx * (bits / 8)), i * (npx * (bits / 8)) + npx * (bits / 8)).
Proof.
  intros bits npx i Hb. unfold eager_range.
  destruct Hb as [-> | [-> | ->]]; cbv zeta.
  - replace (8 =? 1) with false by reflexivity. cbn [andb]. replace (8 * npx / 8) with (npx * (8 / 8)) by (change (8 / 8) with 1; lia). reflexivity.
  - replace (16 =? 1) with false by reflexivity. cbn [andb]. replace (16 * npx / 8) with (npx * (16 / 8)) by (change (16 / 8) with 2; lia). reflexivity.
  - replace (32 =? 1) with false by reflexivity. cbn [andb]. replace (32 * npx / 8) with (npx * (32 / 8)) by (change (32 / 8) with 4; lia). reflexivity.
Qed.

(* ------------------------------------------------------------------ *)
(* native paths, word formats                                          *)
(* ------------------------------------------------------------------ *)
Definition spec_frame (m : fmt) (pd : list Z) (i : Z) : list Z :=
  if f_bits m =? 1
  then zfirstn (f_npx m) (zskipn (i * f_npx m) (unpack_bits pd))
  else words (f_bits m) (f_stored m) (f_signed m) (f_npx m)
             (zskipn (i * (f_npx m * (f_bits m / 8))) pd).

Lemma zlen_pyslice : forall {A} s k (l : list A), 0 <= s -> 0 <= k -> s + k <= zlen l ->
  zlen (pyslice s (s + k) l) = k.
Proof.
  intros A s k l Hs Hk Hl. unfold pyslice, zfirstn, zskipn, zlen in *.
  replace (s + k - s) with k by lia.
  rewrite firstn_length, skipn_length. lia.
Qed.

Lemma decode_words_ok : forall bits bs sg npx i pd,
  (bits =? 1) = false -> 0 <= bits / 8 -> 0 <= npx -> 0 <= i ->
  (i + 1) * (npx * (bits / 8)) <= zlen pd ->
  decode_native bits bs sg npx i
    (pyslice (i * (npx * (bits / 8))) (i * (npx * (bits / 8)) + npx * (bits / 8)) pd)
  = Ok (words bits bs sg npx (zskipn (i * (npx * (bits / 8))) pd)).
Proof.
  intros bits bs sg npx i pd Hb Hw Hn Hi Hl. unfold decode_native. rewrite Hb.
  set (w := bits / 8) in *.
  assert (0 <= npx * w) by nia. assert (0 <= i * (npx * w)) by nia.
  rewrite zlen_pyslice by lia.
  replace (npx * w <? npx * w) with false by lia.
  f_equal. unfold words, pyslice, zfirstn. fold w.
  replace (i * (npx * w) + npx * w - i * (npx * w)) with (npx * w) by lia.
  rewrite chunks_firstn; [reflexivity|].
  rewrite Z2Nat.inj_mul by lia. lia.
Qed.

Lemma whole_words_ok : forall m pd i,
  (f_bits m =? 1) = false -> 0 <= f_bits m / 8 -> 0 <= f_npx m -> 0 <= i < f_frames m ->
  f_frames m * f_npx m * (f_bits m / 8) <= zlen pd ->
  frame_of_array m pd i = Ok (spec_frame m pd i).
Proof.
  intros [bits bs sg npx n] pd i Hb Hw Hn Hi Hl. cbn [f_bits f_stored f_signed f_npx f_frames] in *.
  unfold frame_of_array, whole_array, spec_frame. cbn [f_bits f_stored f_signed f_npx f_frames].
  rewrite Hb. set (w := bits / 8) in *.
  replace (zlen pd <? n * npx * w) with false by lia.
  cbn [bind]. f_equal. unfold words, zskipn. fold w.
  rewrite Z2Nat.inj_mul by lia.
  rewrite frame_of_chunks by lia. do 3 f_equal.
  rewrite !Z2Nat.inj_mul by lia. lia.
Qed.

(* ------------------------------------------------------------------ *)
(* native paths, bit-packed format                                     *)
(* ------------------------------------------------------------------ *)
Lemma unpack_length : forall l, length (unpack_bits l) = (8 * length l)%nat.
Proof. induction l as [|b l IH]; [reflexivity|]. change (unpack_bits (b :: l)) with (byte_bits b ++ unpack_bits l). rewrite app_length, IH. cbn [byte_bits length]. lia. Qed.

Lemma unpack_skipn : forall s l, unpack_bits (skipn s l) = skipn (8 * s) (unpack_bits l).
Proof.
  induction s as [|s IH]; intros l; [reflexivity|].
  destruct l as [|b l]; [now rewrite !skipn_nil|].
  replace (8 * S s)%nat with (S (S (S (S (S (S (S (S (8 * s))))))))) by lia.
  cbn [unpack_bits flat_map byte_bits app skipn]. apply IH.
Qed.

Lemma unpack_firstn : forall k l, unpack_bits (firstn k l) = firstn (8 * k) (unpack_bits l).
Proof.
  induction k as [|k IH]; intros l; [reflexivity|].
  destruct l as [|b l]; [now rewrite !firstn_nil|].
  replace (8 * S k)%nat with (S (S (S (S (S (S (S (S (8 * k))))))))) by lia.
  cbn [unpack_bits flat_map byte_bits app firstn]. do 8 f_equal. apply IH.
Qed.

Lemma decode_bits_ok : forall bs sg npx i a b pd,
  1 <= npx -> 0 <= i -> 0 <= a -> 8 * a <= i * npx -> i * npx + npx <= 8 * b ->
  i * npx - 8 * a = (i * npx) mod 8 -> b <= zlen pd ->
  decode_native 1 bs sg npx i (pyslice a b pd) = Ok (zfirstn npx (zskipn (i * npx) (unpack_bits pd))).
Proof.
  intros bs sg npx i a b pd Hn Hi Ha Hlo Hhi Hoff Hl. unfold decode_native. cbn [Z.eqb Pos.eqb].
  assert (Hp : 0 <= i * npx) by nia. remember (i * npx) as p.
  assert (E : zfirstn npx (zskipn (p mod 8) (unpack_bits (pyslice a b pd)))
              = zfirstn npx (zskipn p (unpack_bits pd))).
  { unfold pyslice, zfirstn, zskipn. rewrite unpack_firstn, unpack_skipn.
    rewrite <- Hoff.
    replace (Z.to_nat (p - 8 * a)) with (Z.to_nat p - 8 * Z.to_nat a)%nat by lia.
    replace (8 * Z.to_nat (b - a))%nat with (8 * Z.to_nat b - 8 * Z.to_nat a)%nat by lia.
    apply (window_inner Z (unpack_bits pd) (8 * Z.to_nat a) (8 * Z.to_nat b) (Z.to_nat p) (Z.to_nat npx)); lia. }
  rewrite E.
  assert (L : zlen (zfirstn npx (zskipn p (unpack_bits pd))) = npx).
  { unfold zlen, zfirstn, zskipn in *. rewrite firstn_length, skipn_length, unpack_length. lia. }
  rewrite L. replace (npx <? npx) with false by lia. reflexivity.
Qed.

Lemma whole_bits_ok : forall m pd i,
  f_bits m = 1 -> 1 <= f_npx m -> 0 <= i < f_frames m ->
  f_frames m * f_npx m <= 8 * zlen pd ->
  frame_of_array m pd i = Ok (spec_frame m pd i).
Proof.
  intros [bits bs sg npx n] pd i Hb Hn Hi Hl. cbn [f_bits f_stored f_signed f_npx f_frames] in *. subst bits.
  unfold frame_of_array, whole_array, spec_frame. cbn [f_bits f_stored f_signed f_npx f_frames Z.eqb Pos.eqb].
  assert (zlen (unpack_bits pd) = 8 * zlen pd) by (unfold zlen; rewrite unpack_length; lia).
  replace (zlen (unpack_bits pd) <? n * npx) with false by lia.
  cbn [bind]. f_equal. rewrite nth_chunks by lia.
  unfold zfirstn, zskipn. rewrite Z2Nat.inj_mul by lia. reflexivity.
Qed.

(* ------------------------------------------------------------------ *)
(* all native paths return the same frame                              *)
(* ------------------------------------------------------------------ *)
Definition valid_fmt (m : fmt) : Prop :=
  (f_bits m = 1 \/ f_bits m = 8 \/ f_bits m = 16 \/ f_bits m = 32) /\ 1 <= f_npx m /\ 1 <= f_frames m.

(* PixelData holds all frames *)
Definition enough (m : fmt) (pd : list Z) : Prop :=
  if f_bits m =? 1 then f_frames m * f_npx m <= 8 * zlen pd
  else f_frames m * f_npx m * (f_bits m / 8) <= zlen pd.

Lemma frame_lazy_eager : forall m pd i, frame_lazy m pd i = frame_eager m pd i.
Proof. intros m pd i. unfold frame_lazy, frame_eager. now rewrite raw_ranges_agree. Qed.

Lemma frame_eager_ok : forall m pd i, valid_fmt m -> enough m pd -> 0 <= i < f_frames m ->
  frame_eager m pd i = Ok (spec_frame m pd i).
Proof.
  intros [bits bs sg npx n] pd i (Hb & Hn & Hf) He Hi. unfold enough in He.
  cbn [f_bits f_stored f_signed f_npx f_frames] in *.
  unfold frame_eager, spec_frame, raw_of_range. cbn [f_bits f_stored f_signed f_npx f_frames].
  destruct Hb as [-> | Hb].
  - cbn [Z.eqb Pos.eqb] in *. rewrite <- raw_ranges_agree.
    pose proof (lazy_range_covers npx i ltac:(lia) Hn) as C. cbv zeta in C.
    destruct (lazy_range 1 npx i) as [a b]. cbn [fst snd] in *.
    apply decode_bits_ok; try lia.
    assert ((i + 1) * npx <= n * npx) by nia. lia.
  - assert (Hb1 : (bits =? 1) = false) by lia. rewrite Hb1 in *.
    assert (Hw : 1 <= bits / 8) by lia.
    rewrite eager_range_words by exact Hb. cbn [fst snd].
    apply decode_words_ok; try lia.
    set (w := bits / 8) in *. assert ((i + 1) * (npx * w) <= n * npx * w) by nia. lia.
Qed.

Lemma native_paths_agree : forall m pd i, valid_fmt m -> enough m pd -> 0 <= i < f_frames m ->
  frame_eager m pd i = Ok (spec_frame m pd i) /\
  frame_lazy m pd i = Ok (spec_frame m pd i) /\
  frame_of_array m pd i = Ok (spec_frame m pd i).
Proof.
  intros m pd i Hv He Hi. split; [|split].
  - now apply frame_eager_ok.
  - rewrite frame_lazy_eager. now apply frame_eager_ok.
  - destruct Hv as (Hb & Hn & Hf). unfold enough in He. destruct Hb as [Hb | Hb].
    + rewrite Hb in He. cbn [Z.eqb Pos.eqb] in He. now apply whole_bits_ok.
    + assert (Hb1 : (f_bits m =? 1) = false) by lia. rewrite Hb1 in He.
      apply whole_words_ok; lia.
Qed.

(* user level: whichever way the frame is fetched, the answer is the frame of
   the standardised index, or IndexError *)
Lemma stored_frame_paths_agree : forall m pd f ai lazy cached, valid_fmt m -> enough m pd ->
  get_stored_frame lazy cached m pd f ai =
  bind (std_index (f_frames m) f ai) (fun i => Ok (spec_frame m pd i)).
Proof.
  intros m pd f ai lazy cached Hv He. unfold get_stored_frame.
  destruct (index_total (f_frames m) f ai) as [(i & E & Hi) | E]; rewrite E; cbn [bind]; [|reflexivity].
  destruct (native_paths_agree m pd i Hv He Hi) as (H1 & H2 & H3).
  destruct cached; [exact H3|]. destruct lazy; [exact H2|exact H1].
Qed.

Lemma stored_frames_batch : forall m pd fs ai lazy cached, valid_fmt m -> enough m pd ->
  get_stored_frames lazy cached m pd fs ai =
  sequence (map (fun f => bind (std_index (f_frames m) f ai) (fun i => Ok (spec_frame m pd i))) fs).
Proof.
  intros m pd fs ai lazy cached Hv He. unfold get_stored_frames. f_equal.
  apply map_ext. intros f. now apply stored_frame_paths_agree.
Qed.

Lemma raw_frame_lazy_eager : forall m pd f ai,
  get_raw_frame true m pd f ai = get_raw_frame false m pd f ai.
Proof.
  intros m pd f ai. unfold get_raw_frame. destruct (std_index (f_frames m) f ai); cbn [bind]; [|reflexivity].
  now rewrite raw_ranges_agree.
Qed.

(* decoding the raw bytes of a frame (with its index) gives the stored frame *)
Lemma raw_decodes_same : forall m pd f ai lazy raw i, valid_fmt m -> enough m pd ->
  get_raw_frame lazy m pd f ai = Ok raw -> std_index (f_frames m) f ai = Ok i ->
  decode_native (f_bits m) (f_stored m) (f_signed m) (f_npx m) i raw = Ok (spec_frame m pd i).
Proof.
  intros m pd f ai lazy raw i Hv He Hr Hs.
  assert (Hr' : get_raw_frame false m pd f ai = Ok raw) by (destruct lazy; [now rewrite <- raw_frame_lazy_eager|exact Hr]).
  unfold get_raw_frame in Hr'. rewrite Hs in Hr'. cbn [bind] in Hr'. inversion Hr' as [Hraw].
  destruct (index_total (f_frames m) f ai) as [(j & E & Hj) | E]; rewrite Hs in E; [|discriminate].
  inversion E; subst j. apply (frame_eager_ok m pd i Hv He Hj).
Qed.

(* ------------------------------------------------------------------ *)
(* what the common frame is, element by element                        *)
(* ------------------------------------------------------------------ *)
Lemma nth_error_firstn_lt : forall {A} n (l : list A) k, (k < n)%nat -> nth_error (firstn n l) k = nth_error l k.
Proof.
  induction n as [|n IH]; intros l k H; [lia|]. destruct l as [|x l]; [reflexivity|].
  destruct k as [|k]; [reflexivity|]. cbn [firstn nth_error]. apply IH. lia.
Qed.

Lemma nth_error_skipn' : forall {A} s (l : list A) k, nth_error (skipn s l) k = nth_error l (s + k).
Proof.
  induction s as [|s IH]; intros l k; [reflexivity|]. destruct l as [|x l]; [now destruct k|].
  cbn [skipn Nat.add nth_error]. apply IH.
Qed.

Lemma nth_error_unpack : forall l q, (q < 8 * length l)%nat ->
  nth_error (unpack_bits l) q = Some ((nth (q / 8) l 0 / 2 ^ Z.of_nat (q mod 8)) mod 2).
Proof.
  induction l as [|b l IH]; intros q Hq; [cbn in Hq; lia|].
  change (unpack_bits (b :: l)) with (byte_bits b ++ unpack_bits l). unfold byte_bits. cbn [app].
  destruct q as [|[|[|[|[|[|[|[|q]]]]]]]]; try reflexivity.
  - cbn. now rewrite Z.div_1_r.
  - cbn [nth_error]. rewrite IH by (cbn [length] in Hq; lia).
    change (S (S (S (S (S (S (S (S q)))))))) with (1 * 8 + q)%nat.
    rewrite Nat.div_add_l by lia.
    replace ((1 * 8 + q) mod 8)%nat with (q mod 8)%nat by (rewrite (Nat.add_comm (1 * 8) q), Nat.mod_add; lia).
    reflexivity.
Qed.

(* bit-packed: pixel k of frame i is bit (i*npx+k) mod 8 of byte (i*npx+k) / 8 *)
Lemma spec_bits_nth : forall m pd i k, f_bits m = 1 -> 0 <= i -> 0 <= k < f_npx m ->
  i * f_npx m + k < 8 * zlen pd ->
  nth_error (spec_frame m pd i) (Z.to_nat k) =
  Some ((nth (Z.to_nat ((i * f_npx m + k) / 8)) pd 0 / 2 ^ ((i * f_npx m + k) mod 8)) mod 2).
Proof.
  intros [bits bs sg npx n] pd i k Hb Hi Hk Hl. cbn [f_bits f_npx] in *. subst bits.
  unfold spec_frame. cbn [f_bits f_npx Z.eqb Pos.eqb]. unfold zfirstn, zskipn, zlen in *.
  assert (0 <= i * npx) by nia. remember (i * npx) as p.
  rewrite nth_error_firstn_lt by lia. rewrite nth_error_skipn'.
  rewrite nth_error_unpack by lia.
  replace (Z.to_nat p + Z.to_nat k)%nat with (Z.to_nat (p + k)) by lia.
  replace (Z.to_nat (p + k) / 8)%nat with (Z.to_nat ((p + k) / 8))
    by (rewrite Z2Nat.inj_div by lia; reflexivity).
  assert (Hmod : Z.of_nat (Z.to_nat (p + k) mod 8) = (p + k) mod 8).
  { rewrite Nat2Z.inj_mod. rewrite Z2Nat.id by lia. reflexivity. }
  rewrite Hmod.
  reflexivity.
Qed.

(* word formats: pixel k of frame i is the little-endian word at byte (i*npx+k)*w, reduced to BitsStored *)
Lemma spec_words_nth : forall m pd i k, (f_bits m =? 1) = false -> 1 <= f_bits m / 8 -> 0 <= i -> 0 <= k < f_npx m ->
  let w := f_bits m / 8 in
  nth_error (spec_frame m pd i) (Z.to_nat k) =
  Some (fix_stored (f_stored m) (f_signed m)
          (le_word (pyslice ((i * f_npx m + k) * w) ((i * f_npx m + k) * w + w) pd))).
Proof.
  intros [bits bs sg npx n] pd i k Hb Hw Hi Hk w. cbn [f_bits f_npx f_stored f_signed] in *.
  unfold spec_frame. cbn [f_bits f_npx f_stored f_signed]. rewrite Hb. unfold words. fold w.
  rewrite nth_error_map. rewrite nth_error_chunks by lia. cbn [option_map]. do 3 f_equal.
  unfold pyslice, zfirstn, zskipn.
  replace ((i * npx + k) * w + w - (i * npx + k) * w) with w by lia. f_equal.
  rewrite skipn_skipn'. f_equal.
  assert (0 <= i * npx) by nia. assert (0 <= npx * w) by nia. assert (0 <= i * (npx * w)) by nia.
  rewrite <- Z2Nat.inj_mul by lia. rewrite <- Z2Nat.inj_add by nia. f_equal. ring.
Qed.
