(* C20 - property theorems.  Statements, `exact <lemma>` and Print Assumptions.

   Scope (see harness/claims/C20.json): the copy-or-alias discipline of the
   from_dataset / from_sequence / extract_from_dataset converters (checker [ok]
   run on terms regenerated from the source on every check), the string guards
   of valuerep.py and identifier generation.  That the ~500-line constructors
   leave their inputs alone and that pydicom writes/reads the result are
   runtime checks in harness/c20.py. *)
From Coq Require Import String ZArith List Bool.
From Coq Require Import Permutation.
From HD Require Import Base.Val C20_Model C20_Proofs C20_Proofs_Str C20_Proofs_Obj C20_Proofs_Ext.
From HD Require Import C20_Model_Ref C20_Proofs_Ref.
From HD Require Import C20_Model_Num C20_Proofs_Num.
Import ListNotations.

(* ------------------------------------------------------------------ *)
(* 1. converters: checker soundness (all statement forms, incl. Star and
      CallConv under the call contract of C20_Model.prim)              *)

(* accepted + copy=True: every caller-owned object (tag TO) keeps content,
   class and ownership - also when an exception escapes (r = false) - and the
   result is converter-allocated; accepted + copy=False: the result IS the
   argument *)
Theorem C20_ok_sound : forall ms c sm, ms (cname c) = Some sm -> ok ms c = true ->
  (smode sm <> MInPlace ->
   forall e h r e' h', exec ms true (cbody c) e h r e' h' ->
   O_preserved h h' /\
   (r = true -> rootF h' (e' (cret c)) /\ (sclean sm = true -> closedF h' (e' (cret c))))) /\
  (smode sm = MStd \/ smode sm = MInPlace ->
   forall e h e' h', exec ms false (cbody c) e h true e' h' -> e' (cret c) = e 0%nat).
Proof. exact ok_sound. Qed.
Print Assumptions C20_ok_sound.

(* the caller's view: if the heap holds only the caller's objects, every one
   of them is bit-for-bit the same afterwards and the returned root is not one
   of them *)
Theorem C20_copy_leaves_caller_objects : forall ms sm c, ok_copy ms sm c = true ->
  forall e h r e' h', all_O h -> exec ms true (cbody c) e h r e' h' ->
  (forall a o, get h a = Some o -> get h' a = Some o) /\
  (r = true -> forall o, get h' (e' (cret c)) = Some o -> (length h <= e' (cret c))%nat).
Proof. exact ok_copy_caller_view. Qed.
Print Assumptions C20_copy_leaves_caller_objects.

Theorem C20_nocopy_returns_same_object : forall ms c, ok_same ms c = true ->
  forall e h e' h', exec ms false (cbody c) e h true e' h' -> e' (cret c) = e 0%nat.
Proof. exact ok_same_sound. Qed.
Print Assumptions C20_nocopy_returns_same_object.

(* every intermediate state as well: the invariant is preserved by any
   statement, so a raise anywhere leaves the caller's objects intact *)
Theorem C20_exec_invariant : forall ms cp a0 s e h r e' h', exec ms cp s e h r e' h' ->
  forall ae ae', sound_at a0 h e ae -> check ms cp s ae = Some ae' ->
  (cp = true -> O_preserved h h') /\ (r = true -> sound_at a0 h' e' ae').
Proof. exact exec_sound. Qed.
Print Assumptions C20_exec_invariant.

(* ------------------------------------------------------------------ *)
(* 2. string guards *)
Theorem C20_guard_implies_valid : forall v s, hd_guard v s = true -> pydicom_valid v s = true.
Proof. exact guard_implies_valid. Qed.
Print Assumptions C20_guard_implies_valid.

Theorem C20_cs_guard_spec : forall s, hd_check_cs s = true <->
  (1 <= zlen s <= 16)%Z /\ (forall c, In c s -> cs_class c = true) /\
  (exists c r, s = c :: r /\ is_upper c = true) /\
  last_is (fun c => (c =? 95) || (c =? 32))%Z s = false.
Proof. exact hd_check_cs_spec. Qed.
Print Assumptions C20_cs_guard_spec.

(* D30: the guard before fix 5166f58 accepted a value pydicom refuses *)
Theorem C20_guard_before_fix_refuted :
  exists s, hd_check_cs_old s = true /\ pydicom_valid CS s = false.
Proof. exact guard_old_refuted. Qed.
Print Assumptions C20_guard_before_fix_refuted.

(* ------------------------------------------------------------------ *)
(* 3. identifiers *)
Theorem C20_uid_uuid_wellformed : forall n, (0 <= n < 2 ^ 128)%Z ->
  uid_valid (uid_of prefix_uuid n) = true.
Proof. exact uid_uuid_wellformed. Qed.
Print Assumptions C20_uid_uuid_wellformed.

Theorem C20_uid_hd_wellformed : forall n, (0 <= n < 10 ^ 35)%Z ->
  uid_valid (uid_of prefix_hd n) = true.
Proof. exact uid_hd_wellformed. Qed.
Print Assumptions C20_uid_hd_wellformed.

Theorem C20_uid_injective : forall prefix n m, (0 <= n)%Z -> (0 <= m)%Z ->
  uid_of prefix n = uid_of prefix m -> n = m.
Proof. exact uid_injective. Qed.
Print Assumptions C20_uid_injective.

Theorem C20_uid_valid_means : forall s, uid_valid s = true ->
  (zlen s <= 64)%Z /\
  forall c, In c (split_dot s []) ->
    c <> [] /\ forallb is_digit c = true /\ (forall d r, c = d :: r -> r <> [] -> d <> 48%Z).
Proof.
  intros s H. unfold uid_valid in H. apply andb_true_iff in H. destruct H as [H1 H2].
  split; [apply Z.leb_le; exact H1|]. intros c Hc. rewrite forallb_forall in H2.
  apply component_ok_spec. exact (H2 c Hc).
Qed.
Print Assumptions C20_uid_valid_means.

(* ------------------------------------------------------------------ *)
(* 4. look-up tables: what PaletteColorLUT stores and what
      PaletteColorLUTTransformation copies has even length for every table
      (so the value written is the value held and reads back unchanged), and
      the [lut_data] accessor returns the caller's entries *)
Theorem C20_palette_store_even : forall bits data, bits = 8%Z \/ bits = 16%Z ->
  Z.even (zlen (palette_store bits data)) = true.
Proof. exact palette_store_even. Qed.
Print Assumptions C20_palette_store_even.

Theorem C20_palette_read_store : forall bits data, bits = 8%Z \/ bits = 16%Z ->
  (forall v, In v data -> (0 <= v < 2 ^ bits)%Z) ->
  palette_read bits (zlen data) (palette_store bits data) = data.
Proof. exact palette_read_store. Qed.
Print Assumptions C20_palette_read_store.

Theorem C20_palette_lut_spec : forall bits first data,
  (palette_lut bits first data = Err "ValueError" <-> palette_ok bits first data = false) /\
  (forall d s, palette_lut bits first data = Ok (d, s) ->
     palette_ok bits first data = true /\ d = lut_descriptor bits first data /\ s = palette_store bits data).
Proof. exact palette_lut_spec. Qed.
Print Assumptions C20_palette_lut_spec.

Theorem C20_palette_transformation_holds_padded_tables : forall bits first r g b d ss,
  palette_tf bits first r g b = Ok (d, ss) ->
  ss = [palette_store bits r; palette_store bits g; palette_store bits b] /\
  d = lut_descriptor bits first r /\ zlen r = zlen g /\ zlen g = zlen b /\
  (forall s, In s ss -> Z.even (zlen s) = true).
Proof. exact palette_tf_spec. Qed.
Print Assumptions C20_palette_transformation_holds_padded_tables.

(* copying [lut_data.tobytes()] instead of the stored value loses the pad *)
Theorem C20_unpadded_store_refuted : exists data, Z.even (zlen (lut_bytes 8 data)) = false.
Proof. exact unpadded_store_refuted. Qed.
Print Assumptions C20_unpadded_store_refuted.

(* LUT / VOILUT / ModalityLUT / PresentationLUT (after fix 90091a0, D93, found by
   this check): same storage, so even length for every accepted table *)
Theorem C20_plain_lut_spec : forall bits first data,
  (plain_lut bits first data = Err "ValueError" <-> plain_ok bits first data = false) /\
  (forall d s, plain_lut bits first data = Ok (d, s) ->
     d = lut_descriptor bits first data /\ s = palette_store bits data /\ Z.even (zlen s) = true).
Proof. exact plain_lut_spec. Qed.
Print Assumptions C20_plain_lut_spec.

(* ------------------------------------------------------------------ *)
(* 5. one call that builds several objects (create_segmentation_pyramid):
      at least two levels; with no identifiers passed every level gets its own
      valid identifier when the draws are distinct, and the harness observation
      [canon] is the identity exactly when no identifier repeats *)
Theorem C20_pyramid_outputs_ge2 : forall a b f n, (0 <= a)%Z -> (0 <= b)%Z ->
  pyramid_outputs a b f = Ok n -> (2 <= n)%Z.
Proof. exact pyramid_outputs_ge2. Qed.
Print Assumptions C20_pyramid_outputs_ge2.

Theorem C20_alloc_ids_fresh : forall n draws, NoDup draws ->
  (forall d, In d draws -> (0 <= d < 10 ^ 35)%Z) -> (0 <= n <= Z.of_nat (length draws))%Z ->
  exists l, alloc_ids n None draws = Ok l /\ Z.of_nat (length l) = n /\ NoDup l /\
            (forall u, In u l -> uid_valid u = true) /\ canon l = iota (length l).
Proof. exact alloc_ids_fresh. Qed.
Print Assumptions C20_alloc_ids_fresh.

Theorem C20_alloc_ids_given : forall n l draws,
  (alloc_ids n (Some l) draws = Ok l <-> Z.of_nat (length l) = n) /\
  (alloc_ids n (Some l) draws = Err "ValueError" <-> Z.of_nat (length l) <> n).
Proof. exact alloc_ids_given. Qed.
Print Assumptions C20_alloc_ids_given.

Theorem C20_canon_identity_iff_nodup : forall l, canon l = iota (length l) <-> NoDup l.
Proof. intros l. split; [apply canon_iota_nodup | apply canon_nodup]. Qed.
Print Assumptions C20_canon_identity_iff_nodup.

Theorem C20_repeated_identifier_refuted : exists u, canon [u; u] <> iota 2.
Proof. exact repeated_id_refuted. Qed.
Print Assumptions C20_repeated_identifier_refuted.

(* ------------------------------------------------------------------ *)
(* 6. native Parametric Map frames: stored elements are little endian and
      hold the value the array element holds in memory for either byte order;
      number of bytes; a little-endian single-mapping array is stored as its
      memory image (where a serialiser may alias the caller's buffer - that
      it does not WRITE to it is a run-time check only) *)
Theorem C20_item_le_value : forall be it,
  le_val (item_le be it) = if be then be_val it else le_val it.
Proof. exact item_le_value. Qed.
Print Assumptions C20_item_le_value.

Theorem C20_pm_native_length : forall be m p k arr,
  (forall plane, In plane arr -> length plane = p /\
     forall px, In px plane -> forall j, (j < m)%nat -> length (nth j px []) = k) ->
  length (pm_native be m arr) = (length arr * (m * (p * k)))%nat.
Proof. exact pm_native_length. Qed.
Print Assumptions C20_pm_native_length.

Theorem C20_pm_native_le_single : forall arr,
  (forall plane px, In plane arr -> In px plane -> exists it, px = [it]) ->
  pm_native false 1 arr = concat (map (fun plane => concat (map (fun px => concat px) plane)) arr).
Proof. exact pm_native_le_single. Qed.
Print Assumptions C20_pm_native_le_single.

Example C20_ex_lut : palette_lut 8 0 [1; 2; 3]%Z = Ok ([3; 0; 8], [1; 2; 3; 0])%Z /\
                     palette_lut 16 0 [1; 258]%Z = Ok ([2; 0; 16], [1; 0; 2; 1])%Z /\
                     palette_lut 8 256 [1]%Z = Err "ValueError" /\
                     run_palette_read 8 [9; 8; 7]%Z = vz_list [9; 8; 7]%Z.
Proof. vm_compute. repeat split. Qed.
Print Assumptions C20_ex_lut.

Example C20_ex_pyramid_ids :
  run_pyramid_ids 1 1 (Some [8; 16]%Z) None = VL [VZ 3; vz_list [0; 1; 2]%Z] /\
  run_pyramid_ids 1 1 (Some [8]%Z) (Some [5; 5]%Z) = VL [VZ 2; vz_list [0; 0]%Z] /\
  run_pyramid_ids 1 1 (Some [8]%Z) (Some [5]%Z) = VErr "ValueError" /\
  run_pyramid_ids 3 1 None None = VL [VZ 3; vz_list [0; 1; 2]%Z] /\
  run_pyramid_ids 1 1 None None = VErr "TypeError".
Proof. vm_compute. repeat split. Qed.
Print Assumptions C20_ex_pyramid_ids.

Example C20_ex_pm_native :
  pm_native true 2 [[[[0; 1]; [2; 3]]; [[4; 5]; [6; 7]]]]%Z = [1; 0; 5; 4; 3; 2; 7; 6]%Z.
Proof. vm_compute. reflexivity. Qed.
Print Assumptions C20_ex_pm_native.

(* ------------------------------------------------------------------ *)
(* 7. SOPClass.__init__ (base.py): the file meta information carries the
      identifiers of the data set, the transfer syntax is little endian, every
      long-string attribute it stores passes pydicom's write validator;
      accepted iff all guards hold; ValueError / TypeError only *)
Theorem C20_file_meta_carries : forall a o, sop_init a = Ok o ->
  fm_instance o = ds_instance o /\ fm_class o = ds_class o /\
  ds_instance o = a_instance a /\ ds_class o = a_class a /\ ts_le (fm_ts o) = true.
Proof. exact file_meta_carries. Qed.
Print Assumptions C20_file_meta_carries.

Theorem C20_sop_init_builds : forall a o, sop_init a = Ok o ->
  fm_instance o = a_instance a /\ ds_instance o = a_instance a /\
  fm_class o = a_class a /\ ds_class o = a_class a /\
  ds_study o = a_study a /\ ds_series o = a_series a /\
  ts_le (fm_ts o) = true /\ (1 <= fm_ts o <= 5)%Z /\ (a_ts a = 0%Z -> fm_ts o = 1%Z) /\
  a_series_number a = Some (ds_series_number o) /\ (1 <= ds_series_number o)%Z /\
  a_instance_number a = Some (ds_instance_number o) /\ (1 <= ds_instance_number o)%Z /\
  (forall v, In v (ds_lo o) -> forall s, v = Some s -> pydicom_valid LO s = true /\ hd_guard LO s = true) /\
  (forall v, ds_sex o = Some v -> (1 <= v <= 3)%Z) /\
  (forall v, ds_qualification o = Some v -> (1 <= v <= 3)%Z) /\
  sop_accepts a = true.
Proof. exact sop_init_ok. Qed.
Print Assumptions C20_sop_init_builds.

Theorem C20_sop_init_accepts_iff : forall a, (exists o, sop_init a = Ok o) <-> sop_accepts a = true.
Proof. exact sop_init_accepts. Qed.
Print Assumptions C20_sop_init_accepts_iff.

Theorem C20_sop_init_error_kind : forall a k, sop_init a = Err k ->
  sop_accepts a = false /\
  (k = "ValueError"%string \/
   (k = "TypeError"%string /\ (a_series_number a = None \/ a_instance_number a = None))).
Proof. exact sop_init_err_kind. Qed.
Print Assumptions C20_sop_init_error_kind.

Theorem C20_sop_init_series_number_missing : forall a, a_series_number a = None ->
  sop_init a = Err (if ts_known (a_ts a) && ts_le (a_ts a) && enum_ok 3 true (a_sex a)
                    then "TypeError" else "ValueError")%string.
Proof. exact sop_init_series_number_missing. Qed.
Print Assumptions C20_sop_init_series_number_missing.

(* END TO END, one call that builds n objects and draws their identifiers itself
   (distinct draws below 10^35): n objects are built; each identifier is a valid
   UID, no two objects share one, and each object's file meta information
   carries the identifier and class of its data set *)
Theorem C20_objects_of_one_call_end_to_end : forall a n draws, NoDup draws ->
  (forall d, In d draws -> (0 <= d < 10 ^ 35)%Z) ->
  (0 <= n <= Z.of_nat (length draws))%Z -> sop_accepts a = true ->
  exists ids objs, alloc_ids n None draws = Ok ids /\ build_levels a ids = Ok objs /\
    Z.of_nat (length objs) = n /\
    map fm_instance objs = map ds_instance objs /\
    NoDup (map fm_instance objs) /\
    (forall o, In o objs -> uid_valid (fm_instance o) = true /\ fm_instance o = ds_instance o /\
                            fm_class o = ds_class o /\ ts_le (fm_ts o) = true).
Proof. exact levels_end_to_end. Qed.
Print Assumptions C20_objects_of_one_call_end_to_end.

Theorem C20_build_levels_spec : forall a ids objs, build_levels a ids = Ok objs ->
  map fm_instance objs = ids /\ map ds_instance objs = ids /\
  (forall o, In o objs -> fm_class o = a_class a /\ ds_class o = a_class a /\ ts_le (fm_ts o) = true).
Proof. exact build_levels_spec. Qed.
Print Assumptions C20_build_levels_spec.

(* ------------------------------------------------------------------ *)
(* 8. the segment-plane kernel of seg/sop.py (_get_segment_pixel_array) and the
      path of the caller's pixel array to it (_check_and_cast_pixel_array, plane
      and segment indexing): no in-place numpy operation is applied to (a view
      of) the caller's array, for every dtype / rank / segmentation type /
      max_fractional_value configuration; the kernel before the fix (D24) wrote
      into it exactly in the stated configurations; value ranges *)
Theorem C20_no_write_through_view : forall c, snd (run_ops View (plane_ops c)) = false.
Proof. exact no_write_through_view. Qed.
Print Assumptions C20_no_write_through_view.

Theorem C20_ctor_chain_no_write : forall c1 c2, snd (run_ops View (ctor_chain c1 c2)) = false.
Proof. exact ctor_chain_no_write. Qed.
Print Assumptions C20_ctor_chain_no_write.

Theorem C20_writes_iff_inplace_before_copy : forall ops, snd (run_ops View ops) = true <->
  exists pre post, ops = (pre ++ OInplace :: post)%list /\ ~ In OCopy pre.
Proof. exact run_ops_writes_iff. Qed.
Print Assumptions C20_writes_iff_inplace_before_copy.

Theorem C20_inplace_scaling_refuted : forall c, snd (run_ops View (plane_ops_old c)) = true <->
  p_float c = false /\ p_fractional c = true /\ p_mfv1 c = false /\
  p_dtype_eq c = true /\ (p_ndim3 c = true \/ p_single1 c = true).
Proof. exact plane_ops_old_writes_iff. Qed.
Print Assumptions C20_inplace_scaling_refuted.

Theorem C20_plane_result_view_iff : forall c, fst (run_ops View (plane_ops c)) = View <->
  p_float c = false /\ p_dtype_eq c = true /\ (p_ndim3 c = true \/ p_single1 c = true) /\
  (p_fractional c = false \/ p_mfv1 c = true).
Proof. exact plane_result_view_iff. Qed.
Print Assumptions C20_plane_result_view_iff.

Theorem C20_plane_value_range : forall c seg mfv px, (1 <= mfv <= 255)%Z -> (p_mfv1 c = true -> mfv = 1%Z) ->
  (p_float c = true -> forall v, In v px -> (0 <= v <= 4)%Z) ->
  (p_float c = false -> forall v, In v px -> (0 <= v <= 1)%Z \/ (p_ndim3 c = false /\ p_single1 c = false)) ->
  (0 <= plane_value c seg mfv px <= mfv)%Z.
Proof. exact plane_value_range. Qed.
Print Assumptions C20_plane_value_range.

(* ------------------------------------------------------------------ *)
(* 9. converters END TO END for a whole generated table, and constructor bodies *)
Theorem C20_converter_table_end_to_end : forall tb, all_ok tb = true ->
  forall c m, In (c, m) tb ->
  exists sm, tlookup (summaries tb) (cname c) = Some sm /\
  (smode sm <> MInPlace ->
     forall e h r e' h', all_O h -> exec (tlookup (summaries tb)) true (cbody c) e h r e' h' ->
     (forall a o, get h a = Some o -> get h' a = Some o) /\
     (r = true -> forall o, get h' (e' (cret c)) = Some o -> (length h <= e' (cret c))%nat)) /\
  (smode sm = MStd \/ smode sm = MInPlace ->
     forall e h e' h', exec (tlookup (summaries tb)) false (cbody c) e h true e' h' -> e' (cret c) = e 0%nat).
Proof. exact table_sound. Qed.
Print Assumptions C20_converter_table_end_to_end.

(* __init__ bodies (variable 0 = the object being built, every other variable a
   parameter of unknown ownership): an accepted body never changes a
   caller-owned object, also when an exception escapes *)
Theorem C20_ctor_body_sound : forall ms s, ok_ctor ms s = true ->
  forall e h r e' h', closedF h (e 0%nat) -> exec ms true s e h r e' h' -> O_preserved h h'.
Proof. exact ctor_body_sound. Qed.
Print Assumptions C20_ctor_body_sound.

Example C20_ex_sop_init :
  let a := {| a_ts := 0; a_study := [49]; a_series := [50]; a_instance := [51]; a_class := [52];
              a_series_number := Some 1; a_instance_number := Some 7; a_sex := Some 0;
              a_series_desc := None; a_manufacturer := Some [72; 68]; a_model := None; a_serial := None;
              a_software := None; a_institution := None; a_department := Some [72; 92; 73];
              a_qualification := Some 2 |}%Z in
  (exists o, sop_init a = Ok o /\ fm_instance o = [51]%Z /\ fm_ts o = 1%Z /\
             ds_lo o = [None; Some [72; 68]%Z; None; None; None; None; None] /\ ds_sex o = None) /\
  sop_init (with_instance a [57]%Z) <> sop_init a /\
  run_sop_init {| a_ts := 3; a_study := []; a_series := []; a_instance := []; a_class := [];
                  a_series_number := None; a_instance_number := None; a_sex := None; a_series_desc := None;
                  a_manufacturer := None; a_model := None; a_serial := None; a_software := None;
                  a_institution := None; a_department := None; a_qualification := None |} = VErr "ValueError" /\
  (exists objs, build_levels a [[53]; [54]]%Z = Ok objs /\ map fm_instance objs = [[53]; [54]]%Z).
Proof. vm_compute. repeat split; try (eexists; repeat split); discriminate. Qed.
Print Assumptions C20_ex_sop_init.

Example C20_ex_seg_plane :
  run_seg_plane false true false true true 2 255 [[0; 1]; [1; 0]]%Z = VL [VB false; vz_list [255; 0]%Z] /\
  run_seg_plane true false false false true 1 255 [[2]; [1]; [4]]%Z = VL [VB false; vz_list [128; 64; 255]%Z] /\
  run_seg_plane false false false true false 3 1 [[3]; [1]; [0]]%Z = VL [VB false; vz_list [1; 0; 0]%Z] /\
  snd (run_ops View (plane_ops_old {| p_float := false; p_ndim3 := true; p_single1 := false; p_dtype_eq := true;
                                       p_fractional := true; p_mfv1 := false |})) = true.
Proof. vm_compute. repeat split. Qed.
Print Assumptions C20_ex_seg_plane.

(* ------------------------------------------------------------------ *)
(* non-vacuity *)
Close Scope Z_scope.
Open Scope nat_scope.
Open Scope string_scope.

Definition ex_modes : modes := fun f =>
  if String.eqb f "LUT.from_dataset" then Some {| smode := MStd; sclean := true |} else None.

(* LUT.from_dataset as it is now ... *)
Definition ex_lut_new : conv := {| cname := "LUT.from_dataset"; cret := 2; cbody := seqs [
  Check; IfCopy (seqs [Deepcopy 1 0; Alias 2 1]) (Alias 2 0); SetClass 2] |}.
(* ... and before fix 7e2d338 (D23): the copy is dropped, the argument retyped *)
Definition ex_lut_old : conv := {| cname := "LUT.from_dataset"; cret := 2; cbody := seqs [
  Check; IfCopy (seqs [Deepcopy 1 0; Alias 2 1]) (Alias 2 0); Alias 2 0; SetClass 2] |}.
(* _SR.from_dataset before fix 3fb8953 (D31), reduced: the root item is linked to
   the ARGUMENT's content and converted in place *)
Definition ex_sr_old : conv := {| cname := "LUT.from_dataset"; cret := 2; cbody := seqs [
  IfCopy (seqs [Deepcopy 1 0; Alias 2 1]) (Alias 2 0); SetClass 2;
  New 3 []; PathInto 4 0; SetAttr 3 [4]; New 5 [3];
  CallConv 6 "LUT.from_dataset" 5 FFalse; SetAttr 2 [6]] |}.
Definition ex_sr_new : conv := {| cname := "LUT.from_dataset"; cret := 2; cbody := seqs [
  IfCopy (seqs [Deepcopy 1 0; Alias 2 1]) (Alias 2 0); SetClass 2;
  New 3 []; PathInto 4 2; SetAttr 3 [4]; New 5 [3];
  CallConv 6 "LUT.from_dataset" 5 FFalse; SetAttr 2 [6]] |}.

Example C20_ex_checker_discriminates :
  ok ex_modes ex_lut_new = true /\ ok ex_modes ex_lut_old = false /\
  ok ex_modes ex_sr_new = true /\ ok ex_modes ex_sr_old = false.
Proof. vm_compute. repeat split. Qed.
Print Assumptions C20_ex_checker_discriminates.

(* a concrete run of the accepted converter: one caller-owned object of class 7;
   copy=True allocates address 1, retypes it to class 9 and returns it *)
Definition ex_h0 : heap := [{| otag := TO; ocls := 7; okids := [] |}].
Definition ex_h1 : heap := (ex_h0 ++ [{| otag := TF; ocls := 7; okids := [] |}])%list.
Definition ex_h2 : heap := (ex_h0 ++ [{| otag := TF; ocls := 9; okids := [] |}])%list.
Definition ex_e0 : env := fun _ => 0.

Lemma ex_upd_copy : upd nobody nobody ex_h0 ex_h1.
Proof.
  constructor.
  - cbn. auto.
  - intros [|[|a]] o H; cbn in *; try discriminate. left. exact H.
  - intros [|[|a]] o o' H H'; cbn in *; try discriminate. congruence.
  - intros [|[|[|a]]] o Hl H; cbn in *; try discriminate; try (inversion H; reflexivity).
    exfalso. inversion Hl.
  - intros [|[|[|a]]] o' k H Hin; cbn in *; try discriminate; inversion H; subst; contradiction.
Qed.
Print Assumptions ex_upd_copy.

Lemma ex_upd_retype : upd nobody (fun a => a = 1) ex_h1 ex_h2.
Proof.
  constructor.
  - cbn. auto.
  - intros [|[|[|a]]] o H; cbn in *; try discriminate; [left; exact H | right; reflexivity].
  - intros [|[|[|a]]] o o' H H'; cbn in *; try discriminate; inversion H; inversion H'; subst; reflexivity.
  - intros [|[|[|a]]] o Hl H; cbn in *; try discriminate; exfalso;
      repeat match goal with Hx : S _ <= _ |- _ => apply le_S_n in Hx end; inversion Hl.
  - intros [|[|[|a]]] o' k H Hin; cbn in *; try discriminate; inversion H; subst; contradiction.
Qed.
Print Assumptions ex_upd_retype.

Example C20_ex_run_exists :
  exists e' h', exec ex_modes true (cbody ex_lut_new) ex_e0 ex_h0 true e' h' /\
                e' (cret ex_lut_new) = 1 /\ get h' 0 = get ex_h0 0 /\
                get h' 1 = Some {| otag := TF; ocls := 9; okids := [] |}.
Proof.
  exists (upd_env (upd_env ex_e0 1 1) 2 1), ex_h2. split; [|repeat split].
  cbn [ex_lut_new cbody seqs].
  eapply ex_seq; [apply ex_prim; apply p_check|].
  eapply ex_seq.
  - apply ex_ifcopy. cbn [seqs].
    eapply ex_seq; [apply ex_prim; apply (p_deepcopy _ _ _ _ 1 0 ex_h1 1 ex_upd_copy); cbn; auto|].
    apply ex_prim. apply (p_alias _ _ _ _ 2 1).
  - apply ex_prim. apply p_setclass. exact ex_upd_retype.
Qed.
Print Assumptions C20_ex_run_exists.

(* the guards and the identifier theorems have inhabitants *)
Example C20_ex_guard : hd_guard CS [76; 65; 66; 69; 76; 95; 49]%Z = true /\
                       hd_guard CS [76; 65; 66; 10]%Z = false /\
                       hd_guard LO [72; 92; 73]%Z = false.
Proof. vm_compute. repeat split. Qed.
Print Assumptions C20_ex_guard.

Example C20_ex_uid : uid_valid (uid_of prefix_uuid (2 ^ 128 - 1)) = true /\
                     zlen (uid_of prefix_uuid (2 ^ 128 - 1)) = 44%Z /\
                     uid_valid [50; 46; 48; 53]%Z = false.
Proof. vm_compute. repeat split. Qed.
Print Assumptions C20_ex_uid.

(* constructor bodies: storing parameters into the new object is accepted,
   writing into a parameter - directly or through a path - is not *)
Example C20_ex_ctor_body :
  ok_ctor (fun _ => None) (seqs [Check; SetAttr 0 [1]; New 3 [2]; SetAttr 3 [1]; SetAttr 0 [3]]) = true /\
  ok_ctor (fun _ => None) (seqs [SetAttr 0 [1]; SetAttr 1 []]) = false /\
  ok_ctor (fun _ => None) (seqs [PathInto 2 1; SetAttr 2 []]) = false.
Proof. vm_compute. repeat split. Qed.
Print Assumptions C20_ex_ctor_body.


(* ------------------------------------------------------------------ *)
(* 11. segmented palette colour tables (SegmentedPaletteColorLUT.__init__):
       'every object the library constructs can be written' for the descriptor,
       whose VR US cannot hold 2^16                                       *)

(* what an accepted call stores: descriptor from the EXPANDED length, the
   segmented data little endian and padded to even length; refusal iff a guard
   fails, the segments are malformed or they expand to no entry / more than
   2^16 entries (fix cf58852, D110).  Hence EVERY accepted segmented table (of
   unsigned entries of its width) can be written: every value of the descriptor
   fits VR US, number_of_entries gives the expanded length back, which lies in
   1 .. 2^16, and segmented_lut_data returns the caller's segmented data (8 and
   16 bit, odd and even lengths) *)
Theorem C20_segmented_lut_spec : forall bits first data,
  (forall d s n, segmented_lut bits first data = Ok (d, s, n) ->
     (segmented_ok bits first data = true /\ seg_count data 0 = Ok n /\ n <> 0%Z /\ (n <= 65536)%Z /\
      d = [entries_field n; first; bits]%Z /\ s = palette_store bits data /\ Z.even (zlen s) = true) /\
     ((forall v, In v data -> (0 <= v < 2 ^ bits)%Z) ->
      forallb fits_us d = true /\ entries_read (hd 0%Z d) = n /\ (1 <= n <= 65536)%Z /\
      segmented_read bits s = data)) /\
  ((exists k, segmented_lut bits first data = Err k) <->
   segmented_ok bits first data = false \/ (exists k, seg_count data 0 = Err k) \/
   (exists n, seg_count data 0 = Ok n /\ (n = 0 \/ 65536 < n)%Z)).
Proof.
  intros bits first data. split; [|exact (segmented_lut_refused_iff bits first data)].
  intros d s n H. split; [exact (segmented_lut_gen_ok _ _ _ _ _ _ _ H)|].
  intros Hr. exact (segmented_accepted_writable _ _ _ _ _ _ Hr H).
Qed.
Print Assumptions C20_segmented_lut_spec.

(* applying the 2^16 rule to the length of the segmented data (seed C20-m9)
   changes the result exactly for tables that expand to 2^16 entries, and then
   the descriptor is no US value *)
Theorem C20_segmented_stale_length_refuted :
  (forall bits first data,
     segmented_lut_stale bits first data <> segmented_lut bits first data <->
     segmented_ok bits first data = true /\ seg_count data 0 = Ok 65536%Z) /\
  (exists bits first data d s n,
     segmented_lut_stale bits first data = Ok (d, s, n) /\ n = 65536%Z /\ forallb fits_us d = false /\
     (exists d', segmented_lut bits first data = Ok (d', s, n) /\ forallb fits_us d' = true)).
Proof. exact (conj segmented_stale_differs_iff segmented_stale_refuted). Qed.
Print Assumptions C20_segmented_stale_length_refuted.

(* segments that expand to more than 2^16 entries or to none: refused now;
   the constructor before fix cf58852 (D110) accepted them with a descriptor
   that cannot be written / reads back as 2^16 entries *)
Theorem C20_segmented_oversize_refused :
  (exists d s n, segmented_lut_unguarded 16 0 [0; 65535; 5; 0; 65535; 5]%Z = Ok (d, s, n) /\ n = 131070%Z /\
                 forallb fits_us d = false) /\
  (exists d s n, segmented_lut_unguarded 8 0 [0; 0; 5]%Z = Ok (d, s, n) /\ n = 0%Z /\
                 entries_read (hd 0%Z d) = 65536%Z) /\
  segmented_lut 16 0 [0; 65535; 5; 0; 65535; 5]%Z = Err "ValueError" /\
  segmented_lut 8 0 [0; 0; 5]%Z = Err "ValueError".
Proof. exact segmented_unguarded_refuted. Qed.
Print Assumptions C20_segmented_oversize_refused.

(* ------------------------------------------------------------------ *)
(* 12. the pixel measures a Segmentation records (seg/sop.py __init__)  *)

(* whatever the origin of the measures (caller's argument, the multi-frame
   source's own sequence, freshly built) and whether or not a slice spacing is
   derived: no object of the caller is written to; a spacing is recorded iff
   one was there or one is derived *)
Theorem C20_seg_measures_never_write : forall c,
  fst (seg_measures c) = false /\
  (snd (seg_measures c) = true <-> m_has_spacing c = true \/ (m_patient c = true /\ m_regular c = true)).
Proof. intros c. exact (conj (seg_measures_never_writes c) (seg_measures_spacing c)). Qed.
Print Assumptions C20_seg_measures_never_write.

(* exact write criterion for ANY policy of when to copy before recording;
   copying only measures passed by the caller (seed C20-m7) writes into the
   source image exactly for a multi-frame source in the patient coordinate
   system without SpacingBetweenSlices and regularly spaced frames *)
Theorem C20_measures_write_criterion : forall c,
  (forall cw, snd (run_ops (measures_origin c) (measures_ops_gen cw c)) =
              measures_derive c && negb (cw c) && (m_user c || m_multiframe c)) /\
  (snd (run_ops (measures_origin c) (measures_ops_user_only c)) = true <->
   m_user c = false /\ m_multiframe c = true /\ m_patient c = true /\ m_has_spacing c = false /\ m_regular c = true).
Proof. intros c. exact (conj (fun cw => measures_write_criterion cw c) (measures_user_only_writes_iff c)). Qed.
Print Assumptions C20_measures_write_criterion.

(* ------------------------------------------------------------------ *)
(* 13. displayed area of a presentation state (pr/content.py)           *)

(* the caller's list of referenced images keeps its order; for tiled images
   the FIRST image of minimal total pixel matrix size is displayed (stable
   sort of a copy), otherwise the first image; refusal iff the list is empty *)
Theorem C20_displayed_area_spec : forall tiled refs,
  (forall low after, displayed_area tiled refs = Ok (low, after) ->
     after = refs /\
     (tiled = false -> hd_error refs = Some low) /\
     (tiled = true -> exists pre post, refs = (pre ++ low :: post)%list /\
        (forall x, In x pre -> (img_key low < img_key x)%Z) /\ (forall x, In x post -> (img_key low <= img_key x)%Z))) /\
  ((exists k, displayed_area tiled refs = Err k) <-> refs = []).
Proof.
  intros tiled refs. split; [intros low after; exact (displayed_area_spec tiled refs low after)|].
  exact (displayed_area_refused_iff false tiled refs).
Qed.
Print Assumptions C20_displayed_area_spec.

(* sorting the caller's list in place (seed C20-m8) builds the same object
   and permutes the caller's list; it keeps its order exactly when the images
   are not tiled or were passed in ascending order of size *)
Theorem C20_displayed_area_inplace_sort_refuted : forall tiled refs low after,
  displayed_area_gen true tiled refs = Ok (low, after) ->
  displayed_area tiled refs = Ok (low, refs) /\ Permutation after refs /\
  (after = refs <-> tiled = false \/ ascending (keys refs) = true).
Proof. exact displayed_area_inplace_iff. Qed.
Print Assumptions C20_displayed_area_inplace_sort_refuted.

Example C20_ex_segmented_measures_area :
  run_segmented_lut 16 0 [0; 1; 0; 1; 65535; 65535]%Z =
    VL [vz_list [0; 0; 16]%Z; vz_list [0; 0; 1; 0; 0; 0; 1; 0; 255; 255; 255; 255]%Z; VZ 65536;
        vz_list [0; 1; 0; 1; 65535; 65535]%Z] /\
  run_segmented_lut 8 0 [0; 3; 5]%Z = VL [vz_list [3; 0; 8]%Z; vz_list [0; 3; 5; 0]%Z; VZ 3; vz_list [0; 3; 5]%Z] /\
  run_segmented_lut 8 0 [0; 0; 5]%Z = VErr "ValueError" /\
  run_segmented_lut 16 0 [1; 5; 100]%Z = VErr "IndexError" /\
  run_segmented_lut 16 0 [0; 1; 7; 1; 1; 100]%Z = VErr "ValueError" /\
  run_segmented_lut 16 0 [0; 1; 5; 2; 3; 4]%Z = VErr "ValueError" /\
  run_segmented_lut 16 0 [0; 1]%Z = VErr "IndexError" /\
  run_seg_measures false true true false true = VL [VB false; VB true] /\
  run_seg_measures false true false false true = VL [VB false; VB false] /\
  run_displayed_area true [(32, 32); (8, 8); (16, 16); (8, 8)]%Z =
    VL [vz_list [8; 8]%Z; VZ 1; vz_list [0; 1; 2; 3]%Z] /\
  run_displayed_area false [(32, 16); (8, 8)]%Z = VL [vz_list [16; 32]%Z; VZ 0; vz_list [0; 1]%Z] /\
  run_displayed_area true [] = VErr "IndexError".
Proof. exact ex_segmented_measures_area. Qed.
Print Assumptions C20_ex_segmented_measures_area.

(* ------------------------------------------------------------------ *)
(* 14. VOI LUT transformations that refer to frames of the referenced   *)
(*     images (pr/content.py _add_softcopy_voi_lut_attributes)          *)

(* whatever the referenced images and however many transformations refer to
   whichever frames: if the check accepts them, the frame numbers held by the
   CALLER'S transformations are what they were (the accumulators of the check
   are never the caller's elements), no (image, frame) is claimed by two
   references, and every reference is to an image of the presentation state *)
Theorem C20_voi_refs_accepted : forall imgs ts c, voi_refs imgs ts = Ok c ->
  c = cells_of ts /\ NoDup (claims imgs ts) /\
  Forall (fun it => (fst it < length imgs)%nat) (all_items ts).
Proof. exact voi_refs_sound. Qed.
Print Assumptions C20_voi_refs_accepted.

(* conversely every non-empty list of transformations (each with references
   when there are several) whose references are pairwise disjoint claims on
   multi-frame images of the presentation state is accepted, and handed back
   as it was; a refusal is a ValueError.
   FULL statement (not proved for single-frame images): accepted iff, in
   addition, no single-frame image is referenced by an item after an earlier
   item claimed a frame of it - proved here as soundness (above), completeness
   for multi-frame images, and the refusal of a single-frame image referenced twice *)
Theorem C20_voi_refs_accepts_disjoint_partial : forall imgs ts,
  (ts <> [] -> ((1 < length ts)%nat -> forallb has_refs ts = true) ->
   Forall (fun it => exists im, nth_error imgs (fst it) = Some im /\ ri_mf im = true) (all_items ts) ->
   NoDup (claims imgs ts) -> voi_refs imgs ts = Ok (cells_of ts)) /\
  (forall e, voi_refs imgs ts = Err e -> e = "ValueError"%string) /\
  voi_refs [{| ri_mf := false; ri_n := 1%Z |}] [Some [(0%nat, None)]; Some [(0%nat, None)]] = Err "ValueError".
Proof.
  intros imgs ts. split; [exact (voi_refs_complete imgs ts)|]. split; [exact (voi_refs_error imgs ts)|].
  exact single_frame_twice_refused.
Qed.
Print Assumptions C20_voi_refs_accepts_disjoint_partial.

(* a check that keeps the caller's own multi-valued ReferencedFrameNumber as
   its accumulator (seed C20-m10) accepts the same transformations and ALTERS
   the first of them: [1;2] and [3;4] become [1;2;3;4] and [3;4]; not so when
   the first reference lists one frame (a scalar element) *)
Theorem C20_voi_alias_accumulator_refuted :
  (exists imgs ts c, voi_refs_aliasing imgs ts = Ok c /\ c <> cells_of ts /\
     voi_refs imgs ts = Ok (cells_of ts) /\ c = [[Some [1; 2; 3; 4]]; [Some [3; 4]]]%Z) /\
  voi_refs_aliasing [{| ri_mf := true; ri_n := 6%Z |}]
    [Some [(0%nat, Some [6]%Z)]; Some [(0%nat, Some [1; 2]%Z)]] = Ok [[Some [6]]; [Some [1; 2]]]%Z.
Proof. exact (conj voi_alias_refuted voi_alias_single_first_unchanged). Qed.
Print Assumptions C20_voi_alias_accumulator_refuted.

(* ------------------------------------------------------------------ *)
(* 15. copies of objects that already are objects of the library        *)
(*     (image.py _Image.__getstate__, from_dataset(copy=True) = deepcopy) *)

(* for image objects (whose class installs __getstate__) and all other
   datasets, and for each of from_dataset(copy=True), from_dataset(copy=False),
   copy.deepcopy and pickle: the original's instance dictionary is not written
   to, and the result is the argument itself exactly for copy=False *)
Theorem C20_object_copy_never_writes : forall image op,
  snd (obj_copy image op) = false /\ (fst (obj_copy image op) = true <-> op = CFromNoCopy).
Proof. exact obj_copy_spec. Qed.
Print Assumptions C20_object_copy_never_writes.

(* exact write criterion for either way of obtaining the state; handing the
   instance dictionary itself to the copier (state = vars(self), seed C20-m12)
   removes the original's frame look-up database exactly for image objects and
   every operation other than from_dataset(copy=False) *)
Theorem C20_getstate_write_criterion : forall image op,
  (forall copy_first, snd (run_ops View (obj_copy_ops_gen copy_first image op)) =
     negb copy_first && image && match op with CFromNoCopy => false | _ => true end) /\
  (snd (run_ops View (obj_copy_ops_vars image op)) = true <-> image = true /\ op <> CFromNoCopy).
Proof.
  intros image op. exact (conj (fun cf => obj_copy_write_criterion cf image op) (obj_copy_vars_writes_iff image op)).
Qed.
Print Assumptions C20_getstate_write_criterion.

Example C20_ex_voi_refs_object_copy :
  run_voi_refs [(true, 6)]%Z [Some [(0%nat, Some [1; 2]%Z)]; Some [(0%nat, Some [3; 4]%Z)]] =
    VL [VL [VL [vz_list [1; 2]%Z]; VL [vz_list [3; 4]%Z]]; VL [VL [vz_list [1; 2]%Z]; VL [vz_list [3; 4]%Z]]] /\
  run_voi_refs [(true, 6)]%Z [Some [(0%nat, None)]; Some [(0%nat, Some [2]%Z)]] = VErr "ValueError" /\
  run_voi_refs [(true, 6)]%Z [None] = VL [VL [VL []]; VL [VL []]] /\
  run_voi_refs [(true, 6)]%Z [None; None] = VErr "ValueError" /\
  run_voi_refs [(true, 6)]%Z [] = VErr "ValueError" /\
  run_voi_refs [(true, 3)]%Z [Some [(1%nat, Some [1; 2]%Z)]] = VErr "ValueError" /\
  run_voi_refs [(false, 1); (false, 1)]%Z [Some [(0%nat, None)]; Some [(1%nat, None)]] =
    VL [VL [VL [VNone]; VL [VNone]]; VL [VL [VNone]; VL [VNone]]] /\
  run_obj_copy true 0 = VL [VB false; VB false] /\ run_obj_copy true 1 = VL [VB true; VB false] /\
  run_obj_copy false 3 = VL [VB false; VB false].
Proof. exact ex_voi_obj. Qed.
Print Assumptions C20_ex_voi_refs_object_copy.

(* ------------------------------------------------------------------ *)
(* 16. the affine matrix from components (spatial.py                    *)
(*     create_affine_matrix_from_components, behind Volume.from_components *)
(*     and VolumeGeometry.from_components)                              *)

(* in whatever form the caller holds the direction matrix (list / tuple,
   float64 array, array of another dtype; (3, 3) or flat (9,)), and whether or
   not the call is accepted, no write reaches the caller's array *)
Theorem C20_affine_components_never_write : forall a, comp_written a = false.
Proof. exact comp_never_writes. Qed.
Print Assumptions C20_affine_components_never_write.

(* np.asarray instead of np.array, or scaling the columns in place: each alone
   writes to nothing of the caller's; both together (seed C20-m14) write into
   the caller's array EXACTLY when the direction is passed as a float64 array;
   what the array then holds (in quarters) differs from the matrix that was
   passed exactly when the spacing is not 1 along every axis *)
Theorem C20_asarray_inplace_refuted : forall a,
  snd (run_ops View (comp_ops_asarray a)) = false /\
  snd (run_ops View (comp_ops_inplace a)) = false /\
  (snd (run_ops View (comp_ops_asarray_inplace a)) = true <-> (g_form a = DArr64 /\ g_dir a <> None)) /\
  (forall d x y z, orthonormal d = true ->
     (scale_cols d [x; y; z] = map (Z.mul 4) d <-> x = 4%Z /\ y = 4%Z /\ z = 4%Z)).
Proof.
  intros a. split; [exact (comp_asarray_alone_never_writes a)|]. split; [exact (comp_inplace_alone_never_writes a)|].
  split; [exact (comp_asarray_inplace_writes_iff a)|]. exact scale_cols_unit_iff.
Qed.
Print Assumptions C20_asarray_inplace_refuted.

(* an accepted call: the direction (the one passed, or the axis-aligned one of
   the patient orientation) is an orthogonal matrix of unit vectors, the result
   is that matrix with column j scaled by spacing[j] next to the position (or
   the position derived from the center), three positive spacings *)
Theorem C20_affine_components_spec : forall a m, comp_affine a = Ok m ->
  exists d t,
    comp_direction a = Ok d /\ orthonormal d = true /\
    comp_translation a (scale_cols d (g_spacing a)) = Ok t /\
    m = affine8 (scale_cols d (g_spacing a)) t /\
    zlen (g_spacing a) = 3%Z /\ forallb (fun s => (0 <? s)%Z) (g_spacing a) = true.
Proof. exact comp_affine_ok. Qed.
Print Assumptions C20_affine_components_spec.

(* accepted iff every guard holds; refused with TypeError or ValueError only;
   the axis-aligned matrix of a valid patient orientation passes the check a
   direction matrix has to pass *)
Theorem C20_affine_components_accepts_iff : forall a,
  ((exists m, comp_affine a = Ok m) <-> comp_accepts a = true) /\
  (forall k, comp_affine a = Err k -> k = "TypeError"%string \/ k = "ValueError"%string) /\
  (forall o, orient_ok o = true -> orthonormal (orient_dir o) = true).
Proof.
  intros a. split; [exact (comp_affine_accepts_iff a)|]. split; [exact (comp_affine_error_kind a)|].
  exact orient_ok_orthonormal.
Qed.
Print Assumptions C20_affine_components_accepts_iff.

(* ------------------------------------------------------------------ *)
(* 17. numbers that are written as text (DS, 16 characters)             *)

(* a number in fixed notation [-]digits.digits / in scientific notation
   [-]d.digits e(+|-)digits passes pydicom's DS validator iff it has at most
   16 characters *)
Theorem C20_ds_shape_valid_iff_length :
  (forall neg ip fp, forallb is_digit ip = true -> ip <> [] -> forallb is_digit fp = true ->
     pydicom_valid_num DS (fixed_str neg ip fp) = (sign_len neg + zlen ip + 1 + zlen fp <=? 16)%Z) /\
  (forall neg d fp eneg ep, is_digit d = true -> forallb is_digit fp = true -> forallb is_digit ep = true ->
     ep <> [] ->
     pydicom_valid_num DS (sci_str neg d fp eneg ep) = (sign_len neg + 4 + zlen fp + zlen ep <=? 16)%Z).
Proof. exact (conj ds_fixed_valid_iff ds_sci_valid_iff). Qed.
Print Assumptions C20_ds_shape_valid_iff_length.

(* DS(x, auto_format=True) / format_number_as_ds: with the number of decimals
   it asks for (fixed: 14 - sign - max(e, 0) for floor(log10 |x|) = e and e + 1
   integer digits - one for e <= 0 -; scientific: 10 - sign, one less for a
   three-digit exponent) the string has exactly 16 characters and is valid.
   PREMISE (float formatting, outside the model): C's %f / %e produce these
   shapes with that many integer digits. *)
Theorem C20_ds_auto_format_fills_16 :
  (forall neg e ip fp, forallb is_digit ip = true -> forallb is_digit fp = true ->
     zlen ip = (if 1 <=? e then e + 1 else 1)%Z -> zlen fp = fixed_decimals neg e ->
     pydicom_valid_num DS (fixed_str neg ip fp) = true /\ zlen (fixed_str neg ip fp) = 16%Z) /\
  (forall neg d fp eneg ep ne, is_digit d = true -> forallb is_digit fp = true -> forallb is_digit ep = true ->
     (ne = 2 \/ ne = 3)%Z -> zlen ep = ne -> zlen fp = sci_decimals neg ne ->
     pydicom_valid_num DS (sci_str neg d fp eneg ep) = true /\ zlen (sci_str neg d fp eneg ep) = 16%Z).
Proof. exact (conj ds_auto_fixed_valid ds_auto_sci_valid). Qed.
Print Assumptions C20_ds_auto_format_fills_16.

(* what an element holds: the auto-formatted value is valid whenever the repr
   is a decimal number and the re-formatted string is valid; a plain float
   (written with its repr, seed C20-m15) is valid iff its repr has at most 16
   characters - 0.1 + 0.2 has 19 *)
Theorem C20_ds_auto_valid_plain_float_refuted :
  (forall repr formatted, ds_regex repr = true -> pydicom_valid_num DS formatted = true ->
     pydicom_valid_num DS (ds_auto repr formatted) = true) /\
  (forall repr formatted, ds_regex repr = true -> repr <> [] ->
     (pydicom_valid_num DS (ds_plain repr formatted) = true <-> (zlen repr <= 16)%Z)) /\
  (ds_regex repr_sum = true /\ pydicom_valid_num DS fmt_sum = true /\
   pydicom_valid_num DS (ds_plain repr_sum fmt_sum) = false /\
   pydicom_valid_num DS (ds_auto repr_sum fmt_sum) = true).
Proof. exact (conj ds_auto_valid (conj ds_plain_valid_iff ds_plain_refuted)). Qed.
Print Assumptions C20_ds_auto_valid_plain_float_refuted.

Example C20_ex_components_decimal_strings :
  comp_accepts (ex_args DArr64) = true /\
  comp_affine (ex_args DArr64) = Ok [0; -4; 0; 80; 20; 0; 0; -160; 0; 0; 6; 244; 0; 0; 0; 8]%Z /\
  comp_written (ex_args DArr64) = false /\
  snd (run_ops View (comp_ops_asarray_inplace (ex_args DArr64))) = true /\
  snd (run_ops View (comp_ops_asarray_inplace (ex_args DSeq))) = false /\
  scale_cols [0; -1; 0; 1; 0; 0; 0; 0; 1]%Z [10; 2; 3]%Z = [0; -2; 0; 10; 0; 0; 0; 0; 3]%Z /\
  run_affine_components 1 1 (Some [1; 0; 0; 0; 0; -1; 0; 1; 0]%Z) None [10; 2; 3]%Z None (Some [40; -80; 122]%Z)
      (Some [2; 3; 4]%Z)
    = VL [VB false; vz_list [20; 0; 0; 70; 0; 0; -6; -151; 0; 4; 0; 240; 0; 0; 0; 8]%Z] /\
  run_affine_components 0 0 None (Some [5; 2; 0]%Z) [4; 4; 4]%Z (Some [0; 0; 0]%Z) None None
    = VL [VB false; vz_list [0; 0; 8; 0; 0; 8; 0; 0; -8; 0; 0; 0; 0; 0; 0; 8]%Z] /\
  run_affine_components 1 0 (Some [2; 0; 0; 0; 1; 0; 0; 0; 1]%Z) None [4; 4; 4]%Z (Some [0; 0; 0]%Z) None None
    = VErr "ValueError" /\
  run_valid_num DS repr_sum = VB false /\ run_valid_num DS fmt_sum = VB true.
Proof. exact ex_components. Qed.
Print Assumptions C20_ex_components_decimal_strings.
