(* C20 - property theorems.  Statements, `exact <lemma>` and Print Assumptions.

   Scope (see harness/claims/C20.json): the copy-or-alias discipline of the
   from_dataset / from_sequence / extract_from_dataset converters (checker [ok]
   run on terms regenerated from the source on every check), the string guards
   of valuerep.py and identifier generation.  That the ~500-line constructors
   leave their inputs alone and that pydicom writes/reads the result are
   runtime checks in harness/c20.py. *)
From Coq Require Import String ZArith List Bool.
From HD Require Import Base.Val C20_Model C20_Proofs C20_Proofs_Str.
Import ListNotations.

(* ------------------------------------------------------------------ *)
(* 1. converters: checker soundness (all statement forms, incl. Star and
      CallConv under the call contract of C20_Model.prim)              *)

(* accepted + copy=True: every caller-owned object (tag TO) keeps content,
   class and ownership - also when an exception escapes (r = false) - and the
   result is converter-allocated; accepted + copy=False: the result IS the
   argument *)
Theorem C20_ok_sound : forall ms c sm, ms (cname c) = Some sm -> ok ms c = true ->
  (smode sm <> MInPlace ->
   forall e h r e' h', exec ms true (cbody c) e h r e' h' ->
   O_preserved h h' /\
   (r = true -> rootF h' (e' (cret c)) /\ (sclean sm = true -> closedF h' (e' (cret c))))) /\
  (smode sm = MStd \/ smode sm = MInPlace ->
   forall e h e' h', exec ms false (cbody c) e h true e' h' -> e' (cret c) = e 0%nat).
Proof. exact ok_sound. Qed.
Print Assumptions C20_ok_sound.

(* the caller's view: if the heap holds only the caller's objects, every one
   of them is bit-for-bit the same afterwards and the returned root is not one
   of them *)
Theorem C20_copy_leaves_caller_objects : forall ms sm c, ok_copy ms sm c = true ->
  forall e h r e' h', all_O h -> exec ms true (cbody c) e h r e' h' ->
  (forall a o, get h a = Some o -> get h' a = Some o) /\
  (r = true -> forall o, get h' (e' (cret c)) = Some o -> (length h <= e' (cret c))%nat).
Proof. exact ok_copy_caller_view. Qed.
Print Assumptions C20_copy_leaves_caller_objects.

Theorem C20_nocopy_returns_same_object : forall ms c, ok_same ms c = true ->
  forall e h e' h', exec ms false (cbody c) e h true e' h' -> e' (cret c) = e 0%nat.
Proof. exact ok_same_sound. Qed.
Print Assumptions C20_nocopy_returns_same_object.

(* every intermediate state as well: the invariant is preserved by any
   statement, so a raise anywhere leaves the caller's objects intact *)
Theorem C20_exec_invariant : forall ms cp a0 s e h r e' h', exec ms cp s e h r e' h' ->
  forall ae ae', sound_at a0 h e ae -> check ms cp s ae = Some ae' ->
  (cp = true -> O_preserved h h') /\ (r = true -> sound_at a0 h' e' ae').
Proof. exact exec_sound. Qed.
Print Assumptions C20_exec_invariant.

(* ------------------------------------------------------------------ *)
(* 2. string guards *)
Theorem C20_guard_implies_valid : forall v s, hd_guard v s = true -> pydicom_valid v s = true.
Proof. exact guard_implies_valid. Qed.
Print Assumptions C20_guard_implies_valid.

Theorem C20_cs_guard_spec : forall s, hd_check_cs s = true <->
  (1 <= zlen s <= 16)%Z /\ (forall c, In c s -> cs_class c = true) /\
  (exists c r, s = c :: r /\ is_upper c = true) /\
  last_is (fun c => (c =? 95) || (c =? 32))%Z s = false.
Proof. exact hd_check_cs_spec. Qed.
Print Assumptions C20_cs_guard_spec.

(* D30: the guard before fix 5166f58 accepted a value pydicom refuses *)
Theorem C20_guard_before_fix_refuted :
  exists s, hd_check_cs_old s = true /\ pydicom_valid CS s = false.
Proof. exact guard_old_refuted. Qed.
Print Assumptions C20_guard_before_fix_refuted.

(* ------------------------------------------------------------------ *)
(* 3. identifiers *)
Theorem C20_uid_uuid_wellformed : forall n, (0 <= n < 2 ^ 128)%Z ->
  uid_valid (uid_of prefix_uuid n) = true.
Proof. exact uid_uuid_wellformed. Qed.
Print Assumptions C20_uid_uuid_wellformed.

Theorem C20_uid_hd_wellformed : forall n, (0 <= n < 10 ^ 35)%Z ->
  uid_valid (uid_of prefix_hd n) = true.
Proof. exact uid_hd_wellformed. Qed.
Print Assumptions C20_uid_hd_wellformed.

Theorem C20_uid_injective : forall prefix n m, (0 <= n)%Z -> (0 <= m)%Z ->
  uid_of prefix n = uid_of prefix m -> n = m.
Proof. exact uid_injective. Qed.
Print Assumptions C20_uid_injective.

Theorem C20_uid_valid_means : forall s, uid_valid s = true ->
  (zlen s <= 64)%Z /\
  forall c, In c (split_dot s []) ->
    c <> [] /\ forallb is_digit c = true /\ (forall d r, c = d :: r -> r <> [] -> d <> 48%Z).
Proof.
  intros s H. unfold uid_valid in H. apply andb_true_iff in H. destruct H as [H1 H2].
  split; [apply Z.leb_le; exact H1|]. intros c Hc. rewrite forallb_forall in H2.
  apply component_ok_spec. exact (H2 c Hc).
Qed.
Print Assumptions C20_uid_valid_means.

(* ------------------------------------------------------------------ *)
(* 4. look-up tables: what PaletteColorLUT stores and what
      PaletteColorLUTTransformation copies has even length for every table
      (so the value written is the value held and reads back unchanged), and
      the [lut_data] accessor returns the caller's entries *)
Theorem C20_palette_store_even : forall bits data, bits = 8%Z \/ bits = 16%Z ->
  Z.even (zlen (palette_store bits data)) = true.
Proof. exact palette_store_even. Qed.
Print Assumptions C20_palette_store_even.

Theorem C20_palette_read_store : forall bits data, bits = 8%Z \/ bits = 16%Z ->
  (forall v, In v data -> (0 <= v < 2 ^ bits)%Z) ->
  palette_read bits (zlen data) (palette_store bits data) = data.
Proof. exact palette_read_store. Qed.
Print Assumptions C20_palette_read_store.

Theorem C20_palette_lut_spec : forall bits first data,
  (palette_lut bits first data = Err "ValueError" <-> palette_ok bits first data = false) /\
  (forall d s, palette_lut bits first data = Ok (d, s) ->
     palette_ok bits first data = true /\ d = lut_descriptor bits first data /\ s = palette_store bits data).
Proof. exact palette_lut_spec. Qed.
Print Assumptions C20_palette_lut_spec.

Theorem C20_palette_transformation_holds_padded_tables : forall bits first r g b d ss,
  palette_tf bits first r g b = Ok (d, ss) ->
  ss = [palette_store bits r; palette_store bits g; palette_store bits b] /\
  d = lut_descriptor bits first r /\ zlen r = zlen g /\ zlen g = zlen b /\
  (forall s, In s ss -> Z.even (zlen s) = true).
Proof. exact palette_tf_spec. Qed.
Print Assumptions C20_palette_transformation_holds_padded_tables.

(* copying [lut_data.tobytes()] instead of the stored value loses the pad *)
Theorem C20_unpadded_store_refuted : exists data, Z.even (zlen (lut_bytes 8 data)) = false.
Proof. exact unpadded_store_refuted. Qed.
Print Assumptions C20_unpadded_store_refuted.

(* LUT / VOILUT / ModalityLUT / PresentationLUT (after fix 90091a0, D93, found by
   this check): same storage, so even length for every accepted table *)
Theorem C20_plain_lut_spec : forall bits first data,
  (plain_lut bits first data = Err "ValueError" <-> plain_ok bits first data = false) /\
  (forall d s, plain_lut bits first data = Ok (d, s) ->
     d = lut_descriptor bits first data /\ s = palette_store bits data /\ Z.even (zlen s) = true).
Proof. exact plain_lut_spec. Qed.
Print Assumptions C20_plain_lut_spec.

(* ------------------------------------------------------------------ *)
(* 5. one call that builds several objects (create_segmentation_pyramid):
      at least two levels; with no identifiers passed every level gets its own
      valid identifier when the draws are distinct, and the harness observation
      [canon] is the identity exactly when no identifier repeats *)
Theorem C20_pyramid_outputs_ge2 : forall a b f n, (0 <= a)%Z -> (0 <= b)%Z ->
  pyramid_outputs a b f = Ok n -> (2 <= n)%Z.
Proof. exact pyramid_outputs_ge2. Qed.
Print Assumptions C20_pyramid_outputs_ge2.

Theorem C20_alloc_ids_fresh : forall n draws, NoDup draws ->
  (forall d, In d draws -> (0 <= d < 10 ^ 35)%Z) -> (0 <= n <= Z.of_nat (length draws))%Z ->
  exists l, alloc_ids n None draws = Ok l /\ Z.of_nat (length l) = n /\ NoDup l /\
            (forall u, In u l -> uid_valid u = true) /\ canon l = iota (length l).
Proof. exact alloc_ids_fresh. Qed.
Print Assumptions C20_alloc_ids_fresh.

Theorem C20_alloc_ids_given : forall n l draws,
  (alloc_ids n (Some l) draws = Ok l <-> Z.of_nat (length l) = n) /\
  (alloc_ids n (Some l) draws = Err "ValueError" <-> Z.of_nat (length l) <> n).
Proof. exact alloc_ids_given. Qed.
Print Assumptions C20_alloc_ids_given.

Theorem C20_canon_identity_iff_nodup : forall l, canon l = iota (length l) <-> NoDup l.
Proof. intros l. split; [apply canon_iota_nodup | apply canon_nodup]. Qed.
Print Assumptions C20_canon_identity_iff_nodup.

Theorem C20_repeated_identifier_refuted : exists u, canon [u; u] <> iota 2.
Proof. exact repeated_id_refuted. Qed.
Print Assumptions C20_repeated_identifier_refuted.

(* ------------------------------------------------------------------ *)
(* 6. native Parametric Map frames: stored elements are little endian and
      hold the value the array element holds in memory for either byte order;
      number of bytes; a little-endian single-mapping array is stored as its
      memory image (where a serialiser may alias the caller's buffer - that
      it does not WRITE to it is a run-time check only) *)
Theorem C20_item_le_value : forall be it,
  le_val (item_le be it) = if be then be_val it else le_val it.
Proof. exact item_le_value. Qed.
Print Assumptions C20_item_le_value.

Theorem C20_pm_native_length : forall be m p k arr,
  (forall plane, In plane arr -> length plane = p /\
     forall px, In px plane -> forall j, (j < m)%nat -> length (nth j px []) = k) ->
  length (pm_native be m arr) = (length arr * (m * (p * k)))%nat.
Proof. exact pm_native_length. Qed.
Print Assumptions C20_pm_native_length.

Theorem C20_pm_native_le_single : forall arr,
  (forall plane px, In plane arr -> In px plane -> exists it, px = [it]) ->
  pm_native false 1 arr = concat (map (fun plane => concat (map (fun px => concat px) plane)) arr).
Proof. exact pm_native_le_single. Qed.
Print Assumptions C20_pm_native_le_single.

Example C20_ex_lut : palette_lut 8 0 [1; 2; 3]%Z = Ok ([3; 0; 8], [1; 2; 3; 0])%Z /\
                     palette_lut 16 0 [1; 258]%Z = Ok ([2; 0; 16], [1; 0; 2; 1])%Z /\
                     palette_lut 8 256 [1]%Z = Err "ValueError" /\
                     run_palette_read 8 [9; 8; 7]%Z = vz_list [9; 8; 7]%Z.
Proof. vm_compute. repeat split. Qed.
Print Assumptions C20_ex_lut.

Example C20_ex_pyramid_ids :
  run_pyramid_ids 1 1 (Some [8; 16]%Z) None = VL [VZ 3; vz_list [0; 1; 2]%Z] /\
  run_pyramid_ids 1 1 (Some [8]%Z) (Some [5; 5]%Z) = VL [VZ 2; vz_list [0; 0]%Z] /\
  run_pyramid_ids 1 1 (Some [8]%Z) (Some [5]%Z) = VErr "ValueError" /\
  run_pyramid_ids 3 1 None None = VL [VZ 3; vz_list [0; 1; 2]%Z] /\
  run_pyramid_ids 1 1 None None = VErr "TypeError".
Proof. vm_compute. repeat split. Qed.
Print Assumptions C20_ex_pyramid_ids.

Example C20_ex_pm_native :
  pm_native true 2 [[[[0; 1]; [2; 3]]; [[4; 5]; [6; 7]]]]%Z = [1; 0; 5; 4; 3; 2; 7; 6]%Z.
Proof. vm_compute. reflexivity. Qed.
Print Assumptions C20_ex_pm_native.

(* ------------------------------------------------------------------ *)
(* non-vacuity *)
Close Scope Z_scope.
Open Scope nat_scope.
Open Scope string_scope.

Definition ex_modes : modes := fun f =>
  if String.eqb f "LUT.from_dataset" then Some {| smode := MStd; sclean := true |} else None.

(* LUT.from_dataset as it is now ... *)
Definition ex_lut_new : conv := {| cname := "LUT.from_dataset"; cret := 2; cbody := seqs [
  Check; IfCopy (seqs [Deepcopy 1 0; Alias 2 1]) (Alias 2 0); SetClass 2] |}.
(* ... and before fix 7e2d338 (D23): the copy is dropped, the argument retyped *)
Definition ex_lut_old : conv := {| cname := "LUT.from_dataset"; cret := 2; cbody := seqs [
  Check; IfCopy (seqs [Deepcopy 1 0; Alias 2 1]) (Alias 2 0); Alias 2 0; SetClass 2] |}.
(* _SR.from_dataset before fix 3fb8953 (D31), reduced: the root item is linked to
   the ARGUMENT's content and converted in place *)
Definition ex_sr_old : conv := {| cname := "LUT.from_dataset"; cret := 2; cbody := seqs [
  IfCopy (seqs [Deepcopy 1 0; Alias 2 1]) (Alias 2 0); SetClass 2;
  New 3 []; PathInto 4 0; SetAttr 3 [4]; New 5 [3];
  CallConv 6 "LUT.from_dataset" 5 FFalse; SetAttr 2 [6]] |}.
Definition ex_sr_new : conv := {| cname := "LUT.from_dataset"; cret := 2; cbody := seqs [
  IfCopy (seqs [Deepcopy 1 0; Alias 2 1]) (Alias 2 0); SetClass 2;
  New 3 []; PathInto 4 2; SetAttr 3 [4]; New 5 [3];
  CallConv 6 "LUT.from_dataset" 5 FFalse; SetAttr 2 [6]] |}.

Example C20_ex_checker_discriminates :
  ok ex_modes ex_lut_new = true /\ ok ex_modes ex_lut_old = false /\
  ok ex_modes ex_sr_new = true /\ ok ex_modes ex_sr_old = false.
Proof. vm_compute. repeat split. Qed.
Print Assumptions C20_ex_checker_discriminates.

(* a concrete run of the accepted converter: one caller-owned object of class 7;
   copy=True allocates address 1, retypes it to class 9 and returns it *)
Definition ex_h0 : heap := [{| otag := TO; ocls := 7; okids := [] |}].
Definition ex_h1 : heap := (ex_h0 ++ [{| otag := TF; ocls := 7; okids := [] |}])%list.
Definition ex_h2 : heap := (ex_h0 ++ [{| otag := TF; ocls := 9; okids := [] |}])%list.
Definition ex_e0 : env := fun _ => 0.

Lemma ex_upd_copy : upd nobody nobody ex_h0 ex_h1.
Proof.
  constructor.
  - cbn. auto.
  - intros [|[|a]] o H; cbn in *; try discriminate. left. exact H.
  - intros [|[|a]] o o' H H'; cbn in *; try discriminate. congruence.
  - intros [|[|[|a]]] o Hl H; cbn in *; try discriminate; try (inversion H; reflexivity).
    exfalso. inversion Hl.
  - intros [|[|[|a]]] o' k H Hin; cbn in *; try discriminate; inversion H; subst; contradiction.
Qed.
Print Assumptions ex_upd_copy.

Lemma ex_upd_retype : upd nobody (fun a => a = 1) ex_h1 ex_h2.
Proof.
  constructor.
  - cbn. auto.
  - intros [|[|[|a]]] o H; cbn in *; try discriminate; [left; exact H | right; reflexivity].
  - intros [|[|[|a]]] o o' H H'; cbn in *; try discriminate; inversion H; inversion H'; subst; reflexivity.
  - intros [|[|[|a]]] o Hl H; cbn in *; try discriminate; exfalso;
      repeat match goal with Hx : S _ <= _ |- _ => apply le_S_n in Hx end; inversion Hl.
  - intros [|[|[|a]]] o' k H Hin; cbn in *; try discriminate; inversion H; subst; contradiction.
Qed.
Print Assumptions ex_upd_retype.

Example C20_ex_run_exists :
  exists e' h', exec ex_modes true (cbody ex_lut_new) ex_e0 ex_h0 true e' h' /\
                e' (cret ex_lut_new) = 1 /\ get h' 0 = get ex_h0 0 /\
                get h' 1 = Some {| otag := TF; ocls := 9; okids := [] |}.
Proof.
  exists (upd_env (upd_env ex_e0 1 1) 2 1), ex_h2. split; [|repeat split].
  cbn [ex_lut_new cbody seqs].
  eapply ex_seq; [apply ex_prim; apply p_check|].
  eapply ex_seq.
  - apply ex_ifcopy. cbn [seqs].
    eapply ex_seq; [apply ex_prim; apply (p_deepcopy _ _ _ _ 1 0 ex_h1 1 ex_upd_copy); cbn; auto|].
    apply ex_prim. apply (p_alias _ _ _ _ 2 1).
  - apply ex_prim. apply p_setclass. exact ex_upd_retype.
Qed.
Print Assumptions C20_ex_run_exists.

(* the guards and the identifier theorems have inhabitants *)
Example C20_ex_guard : hd_guard CS [76; 65; 66; 69; 76; 95; 49]%Z = true /\
                       hd_guard CS [76; 65; 66; 10]%Z = false /\
                       hd_guard LO [72; 92; 73]%Z = false.
Proof. vm_compute. repeat split. Qed.
Print Assumptions C20_ex_guard.

Example C20_ex_uid : uid_valid (uid_of prefix_uuid (2 ^ 128 - 1)) = true /\
                     zlen (uid_of prefix_uuid (2 ^ 128 - 1)) = 44%Z /\
                     uid_valid [50; 46; 48; 53]%Z = false.
Proof. vm_compute. repeat split. Qed.
Print Assumptions C20_ex_uid.
