(* C18 - proofs, part 9: the non-finite guard is a guard on the INPUT, not on what is stored.
   AnnotationGroup.__init__ tests np.isfinite on the full coordinate array before the
   shared z column is factored out into CommonZCoordinateValue.  Consequences proved here:
     - whatever an accepted group stores (point data AND CommonZCoordinateValue) is finite;
     - a non-finite z is refused wherever it sits, in particular when EVERY row carries the
       same non-finite z word (the column that would leave the point data);
     - a test of the point data alone would not do: there are inputs whose would-be point
       data are finite and which must be (and are) refused. *)
From Coq Require Import String ZArith List Bool Lia ZifyBool.
From HD Require Import Base.Val C18_Model C18_Proofs.
Import ListNotations.
Open Scope Z_scope.

Lemma In_firstn {A} : forall (n : nat) (l : list A) x, In x (firstn n l) -> In x l.
Proof.
  induction n as [|n IH]; intros l x H; [destruct H|].
  destruct l as [|y t]; [destruct H|]. cbn [firstn] in H. destruct H as [->|H]; [now left|right; now apply IH].
Qed.

Lemma third_In : forall (r : row), zlen r = 3 -> In (third r) r.
Proof.
  intros r H. destruct r as [|a [|b [|c [|x r']]]]; unfold zlen in H; cbn [length] in H; try lia.
  unfold third. cbn. auto.
Qed.

(* every word an accepted group writes is finite: point data and the shared z *)
Lemma stored_words_finite : forall dbl gt gd e, encode dbl gt gd = Ok e ->
  (forall w, In w (e_data e) -> is_finite dbl w = true) /\
  (forall z, e_cz e = Some z -> is_finite dbl z = true).
Proof.
  intros dbl gt gd e He.
  destruct (encode_inv _ _ _ _ He) as (r0 & rest & Erows & _ & Hlen & _ & Hfin & ->).
  cbn [e_data e_cz]. destruct (common_z dbl gd) eqn:Ec; split.
  - intros w Hw. apply in_flat_map in Hw as (r & Hr & Hw). apply (Hfin r w Hr). exact (In_firstn _ _ _ Hw).
  - intros z Hz. inversion Hz; subst z.
    assert (Hr0 : In r0 (concat gd)) by (rewrite Erows; now left).
    apply (Hfin r0 (third r0) Hr0). apply third_In.
    unfold common_z in Ec. rewrite Erows in Ec. apply andb_prop in Ec as [E3 _]. lia.
  - intros w Hw. apply in_concat in Hw as (r & Hr & Hw). exact (Hfin r w Hr Hw).
  - intros z Hz. discriminate.
Qed.

(* a non-finite z in any 3-D row is refused *)
Lemma reject_non_finite_z : forall dbl gt gd a r, In a gd -> In r a -> zlen r = 3 ->
  is_finite dbl (third r) = false -> encode dbl gt gd = Err VE.
Proof.
  intros dbl gt gd a r Ha Hr H3 Hf. apply (reject_non_finite dbl gt gd a r (third r) Ha Hr); [|exact Hf].
  now apply third_In.
Qed.

(* ... in particular when the whole z column is one and the same non-finite word, i.e. the
   column that the shared-z compaction would remove from the point data *)
Lemma reject_non_finite_shared_z : forall dbl gt gd z, concat gd <> [] ->
  (forall a r, In a gd -> In r a -> zlen r = 3 /\ third r = z) ->
  is_finite dbl z = false -> encode dbl gt gd = Err VE.
Proof.
  intros dbl gt gd z Hne Hall Hf.
  destruct (concat gd) as [|r0 rest] eqn:Erows; [congruence|].
  assert (Hr0 : In r0 (concat gd)) by (rewrite Erows; now left).
  apply in_concat in Hr0 as (a & Ha & Hr). destruct (Hall a r0 Ha Hr) as [H3 Hz].
  apply (reject_non_finite_z dbl gt gd a r0 Ha Hr H3). now rewrite Hz.
Qed.

(* acceptance decided on the words that WOULD be written to the point data (x, y of every
   row) is strictly weaker than the guard: finite x / y everywhere, and still refused *)
Definition xy_words (gd : list annot) : list word := flat_map (firstn 2) (concat gd).

Lemma point_data_check_insufficient : exists dbl gt gd,
  forallb (is_finite dbl) (xy_words gd) = true /\ encode dbl gt gd = Err VE /\
  forallb (annot_ok dbl gt) gd = true.
Proof.
  (* one 3-D point (1.0, 2.0, NaN) in single precision *)
  exists false, POINT, [[[1065353216; 1073741824; 2143289344]]]. vm_compute. repeat split.
Qed.

(* the guard and "everything finite" coincide on non-empty inputs that pass the shape rules *)
Lemma accepted_iff_all_finite : forall dbl gt gd, gd <> [] ->
  forallb (annot_ok dbl gt) gd = true ->
  (exists d, (d = 2 \/ d = 3) /\ forall a r, In a gd -> In r a -> zlen r = d) ->
  ((exists e, encode dbl gt gd = Ok e) <->
   (forall a r w, In a gd -> In r a -> In w r -> is_finite dbl w = true)).
Proof.
  intros dbl gt gd Hne Hok Hdim. rewrite encode_accepts_iff. split.
  - intros (_ & _ & _ & Hfin). exact Hfin.
  - intros Hfin. unfold admissible. split; [exact Hne|]. split; [|split; [exact Hdim|exact Hfin]].
    intros a Ha. apply (annot_ok_spec dbl gt a). exact (forallb_In _ _ _ Hok Ha).
Qed.
