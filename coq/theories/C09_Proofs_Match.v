(* C09 - proofs about match_geometry in three dimensions *)
From Coq Require Import String ZArith List Bool Lia ZifyBool QArith Qround Qfield Lqa.
From HD Require Import Base.Val Base.PySlice C09_Model C09_Proofs.
Import ListNotations.
Open Scope Z_scope.

Definition gpos (s : t3 Z) : Prop := forall d, 0 < sel s d.
Definition orthonormal (g : geom) : Prop :=
  forall i j, (dot (sel (g_unit g) i) (sel (g_unit g) j) == if ax_eqb i j then 1 else 0)%Q.
Definition spac_pos (g : geom) : Prop := forall d, (0 < sel (g_spac g) d)%Q.
Definition sgn (k : Z) : Q := if 0 <? k then 1%Q else (-1)%Q.

(* the target is the source re-gridded: target axis d runs along source axis sg d with integer
   stride k d <> 0 (negative = flipped), its first voxel sits at source coordinate a d *)
Definition reaches (g h : geom) (sg : t3 ax) (k a : t3 Z) : Prop :=
  is_perm (p0 sg) (p1 sg) (p2 sg) = true /\
  (forall d, sel k d <> 0 /\
     veq (sel (g_unit h) d) (vscale (sgn (sel k d)) (sel (g_unit g) (sel sg d))) /\
     (sel (g_spac h) d == inject_Z (Z.abs (sel k d)) * sel (g_spac g) (sel sg d))%Q) /\
  veq (g_pos h)
      (vadd (g_pos g) (vadd (vscale (inject_Z (p0 a)) (col g (p0 sg)))
                      (vadd (vscale (inject_Z (p1 a)) (col g (p1 sg)))
                            (vscale (inject_Z (p2 a)) (col g (p2 sg)))))).

(* ---- small facts ----------------------------------------------------------------- *)
Lemma Qabs'_compat : forall a b, (a == b)%Q -> (Qabs' a == Qabs' b)%Q.
Proof.
  intros a b H. unfold Qabs'.
  destruct (Qle_bool 0 a) eqn:Ea; destruct (Qle_bool 0 b) eqn:Eb; try lra.
  - apply Qle_bool_iff in Ea. assert (~ (0 <= b)%Q) by (intros K; apply Qle_bool_iff in K; congruence). lra.
  - apply Qle_bool_iff in Eb. assert (~ (0 <= a)%Q) by (intros K; apply Qle_bool_iff in K; congruence). lra.
Qed.
Lemma Qabs'_pos : forall a, (0 <= a)%Q -> (Qabs' a == a)%Q.
Proof. intros a H. unfold Qabs'. apply Qle_bool_iff in H. rewrite H. reflexivity. Qed.

Lemma sq_bound : forall c t, (- t <= c)%Q -> (c <= t)%Q -> (c * c <= t * t)%Q.
Proof.
  intros c t H1 H2. assert (H : (0 <= (t - c) * (t + c))%Q) by (apply Qmult_le_0_compat; lra).
  assert (E : ((t - c) * (t + c) == t * t - c * c)%Q) by ring. rewrite E in H. lra.
Qed.
Lemma Qabs'_le : forall c t, (Qabs' c <= t)%Q -> (- t <= c)%Q /\ (c <= t)%Q.
Proof.
  intros c t. unfold Qabs'. destruct (Qle_bool 0 c) eqn:E.
  - apply Qle_bool_iff in E. intros H; split; lra.
  - assert (~ (0 <= c)%Q) by (intros K; apply Qle_bool_iff in K; congruence). intros H0; split; lra.
Qed.

Lemma vallclose_same : forall tol u v, (0 <= tol)%Q -> veq u v -> vallclose tol u v = true.
Proof.
  intros tol [u1 u2 u3] [v1 v2 v3] Ht (H1 & H2 & H3). unfold vallclose; cbn [vx vy vz] in *.
  rewrite !andb_true_iff. repeat split; apply Qle_bool_iff; rewrite Qabs'_zero; lra.
Qed.

(* orthogonal unit vectors are never within 4/5 of each other component-wise *)
Lemma vallclose_orth : forall tol u v, (0 <= tol)%Q -> (tol <= 4 # 5)%Q ->
  (dot u u == 1)%Q -> (dot v v == 1)%Q -> (dot u v == 0)%Q -> vallclose tol u v = false.
Proof.
  intros tol [u1 u2 u3] [v1 v2 v3] Ht0 Ht1 Hu Hv Huv.
  destruct (vallclose tol (V3 u1 u2 u3) (V3 v1 v2 v3)) eqn:E; [|reflexivity]. exfalso.
  unfold vallclose, dot in *; cbn [vx vy vz] in *.
  apply andb_true_iff in E as [E E3]. apply andb_true_iff in E as [E1 E2].
  apply Qle_bool_iff, Qabs'_le in E1. apply Qle_bool_iff, Qabs'_le in E2. apply Qle_bool_iff, Qabs'_le in E3.
  destruct E1 as [A1 B1], E2 as [A2 B2], E3 as [A3 B3].
  pose proof (sq_bound _ _ A1 B1) as S1. pose proof (sq_bound _ _ A2 B2) as S2. pose proof (sq_bound _ _ A3 B3) as S3.
  assert (T : (tol * tol <= (4 # 5) * (4 # 5))%Q) by (apply sq_bound; lra).
  assert (Sum : ((u1 - v1) * (u1 - v1) + (u2 - v2) * (u2 - v2) + (u3 - v3) * (u3 - v3) == 2)%Q).
  { assert (E : ((u1 - v1) * (u1 - v1) + (u2 - v2) * (u2 - v2) + (u3 - v3) * (u3 - v3) ==
                 (u1 * u1 + u2 * u2 + u3 * u3) + (v1 * v1 + v2 * v2 + v3 * v3)
                 - 2 * (u1 * v1 + u2 * v2 + u3 * v3))%Q) by ring.
    rewrite E, Hu, Hv, Huv. reflexivity. }
  assert (K : ((4 # 5) * (4 # 5) == 16 # 25)%Q) by reflexivity. rewrite K in T. lra.
Qed.

Lemma dot_vneg_r : forall u v, (dot u (vneg v) == - dot u v)%Q.
Proof. intros [u1 u2 u3] [v1 v2 v3]. unfold dot, vneg; cbn [vx vy vz]. ring. Qed.
Lemma dot_vneg_vneg : forall v, (dot (vneg v) (vneg v) == dot v v)%Q.
Proof. intros [v1 v2 v3]. unfold dot, vneg; cbn [vx vy vz]. ring. Qed.

Lemma dot_scaled : forall u c v w, veq u (vscale c v) -> (dot u w == c * dot v w)%Q.
Proof.
  intros [u1 u2 u3] c [v1 v2 v3] [w1 w2 w3] (H1 & H2 & H3).
  unfold dot, vscale in *; cbn [vx vy vz] in *. rewrite H1, H2, H3. ring.
Qed.

Lemma ax_eqb_refl : forall a, ax_eqb a a = true.
Proof. now destruct a. Qed.

Lemma sgn_cases : forall k, (sgn k == 1)%Q /\ 0 < k \/ (sgn k == -1)%Q /\ k <= 0.
Proof. intros k. unfold sgn. destruct (0 <? k) eqn:E; [left|right]; split; try reflexivity; lia. Qed.

(* ---- stage 1 ----------------------------------------------------------------------- *)
Lemma dot_veq_l : forall u u' w, veq u u' -> (dot u w == dot u' w)%Q.
Proof.
  intros [u1 u2 u3] [a1 a2 a3] [w1 w2 w3] (H1 & H2 & H3). unfold dot; cbn [vx vy vz] in *.
  rewrite H1, H2, H3. reflexivity.
Qed.
Lemma dot_veq_r : forall w u u', veq u u' -> (dot w u == dot w u')%Q.
Proof.
  intros [w1 w2 w3] [u1 u2 u3] [a1 a2 a3] (H1 & H2 & H3). unfold dot; cbn [vx vy vz] in *.
  rewrite H1, H2, H3. reflexivity.
Qed.

Lemma dot_vscale_r : forall a c b, (dot a (vscale c b) == c * dot a b)%Q.
Proof. intros [a1 a2 a3] c [b1 b2 b3]. unfold dot, vscale; cbn [vx vy vz]. ring. Qed.

Lemma find_axis_complete : forall tol g u j k, (0 <= tol)%Q -> (tol <= 4 # 5)%Q -> orthonormal g ->
  veq u (vscale (sgn k) (sel (g_unit g) j)) -> find_axis tol g u = Some j.
Proof.
  intros tol g u j k Ht0 Ht1 Ho Hu. unfold find_axis.
  assert (Duu : (dot u u == 1)%Q).
  { rewrite (dot_veq_r u _ _ Hu), dot_vscale_r, (dot_scaled u _ _ _ Hu), (Ho j j), ax_eqb_refl.
    destruct (sgn_cases k) as [[Hs _]|[Hs _]]; rewrite Hs; ring. }
  assert (D : forall i, (dot u (sel (g_unit g) i) == sgn k * (if ax_eqb j i then 1 else 0))%Q).
  { intros i. rewrite (dot_scaled u _ _ _ Hu). rewrite (Ho j i). reflexivity. }
  assert (Hyes : aligned tol u (sel (g_unit g) j) = true).
  { unfold aligned. apply orb_true_iff.
    destruct (sgn_cases k) as [[Hs _]|[Hs _]]; [left|right]; apply vallclose_same; try assumption;
      destruct Hu as (H1 & H2 & H3); destruct (sel (g_unit g) j) as [v1 v2 v3]; destruct u as [u1 u2 u3];
      unfold veq, vscale, vneg in *; cbn [vx vy vz] in *; rewrite H1, H2, H3, Hs; repeat split; ring. }
  assert (Hno : forall i, ax_eqb j i = false -> aligned tol u (sel (g_unit g) i) = false).
  { intros i Hi. specialize (D i). rewrite Hi in D. unfold aligned. apply orb_false_iff. split.
    - apply vallclose_orth; try assumption. { rewrite (Ho i i), ax_eqb_refl. reflexivity. } rewrite D. ring.
    - apply vallclose_orth; try assumption.
      + rewrite dot_vneg_vneg, (Ho i i), ax_eqb_refl. reflexivity.
      + rewrite dot_vneg_r, D. ring. }
  destruct j.
  - now rewrite Hyes.
  - rewrite (Hno X0), Hyes; reflexivity.
  - rewrite (Hno X0), (Hno X1), Hyes; reflexivity.
Qed.

Lemma axis_step_complete : forall tol g u s j k, (0 <= tol)%Q -> (tol <= 4 # 5)%Q -> orthonormal g -> spac_pos g ->
  k <> 0 -> veq u (vscale (sgn k) (sel (g_unit g) j)) ->
  (s == inject_Z (Z.abs k) * sel (g_spac g) j)%Q ->
  axis_step tol g u s = Ok (j, k).
Proof.
  intros tol g u s j k Ht0 Ht1 Ho Hsp Hk Hu Hs. unfold axis_step.
  rewrite (find_axis_complete tol g u j k) by assumption.
  pose proof (Hsp j) as Hpos.
  assert (Hsf : (s / sel (g_spac g) j == inject_Z (Z.abs k))%Q).
  { rewrite Hs. field. lra. }
  rewrite (rne_eq_compat _ _ Hsf).
  assert (E1 : Qltb tol (Qabs' (s / sel (g_spac g) j - inject_Z (Z.abs k))) = false).
  { apply Qltb_false_le. rewrite Qabs'_zero by lra. lra. }
  rewrite E1. replace (Z.abs k =? 0) with false by lia. cbn [orb].
  assert (D : (dot u (sel (g_unit g) j) == sgn k)%Q).
  { rewrite (dot_scaled u _ _ _ Hu), (Ho j j), ax_eqb_refl. ring. }
  destruct (sgn_cases k) as [[Hs1 Hk1]|[Hs1 Hk1]].
  - assert (E2 : Qltb (dot u (sel (g_unit g) j)) 0 = false) by (apply Qltb_false_le; lra).
    rewrite E2. f_equal. f_equal. lia.
  - assert (E2 : Qltb (dot u (sel (g_unit g) j)) 0 = true) by (apply Qltb_true_lt; lra).
    rewrite E2. f_equal. f_equal. lia.
Qed.

Lemma t3_eta : forall A (t : t3 A), t = T3 (p0 t) (p1 t) (p2 t).
Proof. now destruct t. Qed.

Lemma steps_complete : forall tol g h sg k a, (0 <= tol)%Q -> (tol <= 4 # 5)%Q -> orthonormal g -> spac_pos g ->
  reaches g h sg k a -> steps_of tol g h = Ok (sg, k).
Proof.
  intros tol g h sg k a Ht0 Ht1 Ho Hsp (Hperm & Hax & Hpos). unfold steps_of.
  destruct (Hax X0) as (K0 & U0 & S0). destruct (Hax X1) as (K1 & U1 & S1). destruct (Hax X2) as (K2 & U2 & S2).
  rewrite (axis_step_complete tol g _ _ (sel sg X0) (sel k X0)) by assumption. cbn [bind].
  rewrite (axis_step_complete tol g _ _ (sel sg X1) (sel k X1)) by assumption. cbn [bind].
  rewrite (axis_step_complete tol g _ _ (sel sg X2) (sel k X2)) by assumption. cbn [bind fst snd sel].
  now rewrite <- !t3_eta.
Qed.

(* ---- stage 2 ----------------------------------------------------------------------- *)
Lemma dot_offset : forall u ph pg A B C, veq ph (vadd pg (vadd A (vadd B C))) ->
  (dot u (vsub ph pg) == dot u A + dot u B + dot u C)%Q.
Proof.
  intros [u1 u2 u3] [h1 h2 h3] [g1 g2 g3] [a1 a2 a3] [b1 b2 b3] [c1 c2 c3] (H1 & H2 & H3).
  unfold dot, vsub, vadd in *; cbn [vx vy vz] in *. rewrite H1, H2, H3. ring.
Qed.
Lemma dot_col : forall u c g j, (dot u (vscale c (col g j)) == c * sel (g_spac g) j * dot u (sel (g_unit g) j))%Q.
Proof.
  intros [u1 u2 u3] c g j. unfold col. destruct (sel (g_unit g) j) as [v1 v2 v3].
  unfold dot, vscale; cbn [vx vy vz]. ring.
Qed.

Lemma is_perm_facts : forall a b c, is_perm a b c = true ->
  ax_eqb a b = false /\ ax_eqb a c = false /\ ax_eqb b c = false /\
  ax_eqb b a = false /\ ax_eqb c a = false /\ ax_eqb c b = false.
Proof. intros a b c. destruct a, b, c; cbn; intros H; try discriminate; repeat split; reflexivity. Qed.

Lemma start_ind_complete : forall g h sg k a d, orthonormal g -> spac_pos g -> reaches g h sg k a ->
  (start_ind g h sg d == inject_Z (sel a d))%Q.
Proof.
  intros g h sg k a d Ho Hsp (Hperm & Hax & Hpos). unfold start_ind. unfold orthonormal in Ho.
  rewrite (dot_offset _ _ _ _ _ _ Hpos), !dot_col, !Ho.
  destruct (is_perm_facts _ _ _ Hperm) as (E01 & E02 & E12 & E10 & E20 & E21).
  pose proof (Hsp (sel sg d)) as Hp.
  destruct d; cbn [sel] in *.
  - rewrite ax_eqb_refl, E01, E02. field. lra.
  - rewrite ax_eqb_refl, E10, E12. field. lra.
  - rewrite ax_eqb_refl, E20, E21. field. lra.
Qed.

Lemma plan_for_complete : forall tol g h sg k a d, (0 <= tol)%Q -> orthonormal g -> spac_pos g ->
  reaches g h sg k a ->
  plan_for tol g h sg k d =
  Ok (plan_of (sel a d) (sel k d) (sel (g_shape h) d) (sel (g_shape g) (sel sg d))).
Proof.
  intros tol g h sg k a d Ht Ho Hsp Hr. unfold plan_for. rewrite axis_plan_cases.
  pose proof (start_ind_complete g h sg k a d Ho Hsp Hr) as Hs.
  rewrite (rne_eq_compat _ _ Hs).
  assert (E : Qltb tol (Qabs' (inject_Z (sel a d) - start_ind g h sg d)) = false).
  { apply Qltb_false_le. rewrite Qabs'_zero by lra. exact Ht. }
  now rewrite E.
Qed.

(* ---- stage 3 ----------------------------------------------------------------------- *)
Lemma plan_zero_crops : forall a m n, pl_crop (plan_of a 0 m n) = true.
Proof. reflexivity. Qed.

Lemma apply_plan_total : forall c n m a k, 0 < n -> 0 < m ->
  (c = true \/ pl_crop (plan_of a k m n) = false) ->
  (k <> 0 /\ apply_plan c n (plan_of a k m n) = Ok (AxRes m a k)) \/
  (k = 0 /\ apply_plan c n (plan_of a k m n) = Err VE).
Proof.
  intros c n m a k Hn Hm Hc. destruct (Z.eq_dec k 0) as [->|Hk].
  - right. split; [reflexivity|]. destruct Hc as [->|Hc]; [apply apply_plan_zero_step|].
    rewrite plan_zero_crops in Hc. discriminate.
  - left. split; [assumption|]. destruct c.
    + now apply apply_plan_crop.
    + destruct Hc as [Hc|Hc]; [discriminate|]. now apply apply_plan_nocrop.
Qed.

Definition res3 (m a k : t3 Z) : t3 axres :=
  T3 (AxRes (p0 m) (p0 a) (p0 k)) (AxRes (p1 m) (p1 a) (p1 k)) (AxRes (p2 m) (p2 a) (p2 k)).
Definition plans3 (g : geom) (sg : t3 ax) (m a k : t3 Z) : t3 axplan :=
  tab (fun d => plan_of (sel a d) (sel k d) (sel m d) (sel (g_shape g) (sel sg d))).

Lemma results_total : forall g sg m a k, gpos (g_shape g) -> gpos m ->
  ((forall d, sel k d <> 0) /\ results_of g sg (plans3 g sg m a k) = Ok (res3 m a k)) \/
  ((exists d, sel k d = 0) /\ results_of g sg (plans3 g sg m a k) = Err VE).
Proof.
  intros g sg m a k Hg Hm. unfold results_of, plans3, tab. cbn [p0 p1 p2 sel].
  set (c := pl_crop _ || pl_crop _ || pl_crop _).
  assert (C0 : c = true \/ pl_crop (plan_of (p0 a) (p0 k) (p0 m) (sel (g_shape g) (p0 sg))) = false).
  { subst c. destruct (pl_crop (plan_of (p0 a) _ _ _)); cbn; tauto. }
  assert (C1 : c = true \/ pl_crop (plan_of (p1 a) (p1 k) (p1 m) (sel (g_shape g) (p1 sg))) = false).
  { subst c. destruct (pl_crop (plan_of (p1 a) _ _ _)); rewrite ?orb_true_r; cbn; tauto. }
  assert (C2 : c = true \/ pl_crop (plan_of (p2 a) (p2 k) (p2 m) (sel (g_shape g) (p2 sg))) = false).
  { subst c. destruct (pl_crop (plan_of (p2 a) _ _ _)); rewrite ?orb_true_r; cbn; tauto. }
  destruct (apply_plan_total c _ (p0 m) (p0 a) (p0 k) (Hg (p0 sg)) (Hm X0) C0) as [[K0 R0]|[K0 R0]];
    rewrite R0; cbn [bind]; [|right; split; [exists X0; exact K0|reflexivity]].
  destruct (apply_plan_total c _ (p1 m) (p1 a) (p1 k) (Hg (p1 sg)) (Hm X1) C1) as [[K1 R1]|[K1 R1]];
    rewrite R1; cbn [bind]; [|right; split; [exists X1; exact K1|reflexivity]].
  destruct (apply_plan_total c _ (p2 m) (p2 a) (p2 k) (Hg (p2 sg)) (Hm X2) C2) as [[K2 R2]|[K2 R2]];
    rewrite R2; cbn [bind]; [|right; split; [exists X2; exact K2|reflexivity]].
  left. split; [|reflexivity]. intros d; destruct d; assumption.
Qed.

(* ---- completeness: every reachable target is matched, exactly -------------------------- *)
Theorem match_complete : forall tol g h sg k a,
  (0 <= tol)%Q -> (tol <= 4 # 5)%Q -> orthonormal g -> spac_pos g ->
  gpos (g_shape g) -> gpos (g_shape h) ->
  for_conflict (g_for g) (g_for h) = false -> g_cs g = g_cs h ->
  reaches g h sg k a ->
  match_geometry tol g h = Ok (assemble g sg (res3 (g_shape h) a k)).
Proof.
  intros tol g h sg k a Ht0 Ht1 Ho Hsp Hg Hh Hfor Hcs Hr. unfold match_geometry.
  rewrite Hfor, Hcs, Z.eqb_refl. cbn [negb].
  rewrite (steps_complete tol g h sg k a) by assumption. cbn [bind fst snd].
  destruct Hr as (Hperm & Hax & Hpos). rewrite Hperm. cbn [negb].
  assert (Hr : reaches g h sg k a) by (split; [assumption|split; assumption]).
  unfold plans_of.
  rewrite !(plan_for_complete tol g h sg k a) by assumption. cbn [bind].
  destruct (results_total g sg (g_shape h) a k Hg Hh) as [[_ R]|[[d Hd] _]].
  - unfold plans3, tab in R. rewrite R. reflexivity.
  - destruct (Hax d) as (K & _). contradiction.
Qed.

(* what the assembled result is, geometrically *)
Lemma assemble_shape : forall g sg m a k d,
  sel (a_shape (m_geom (assemble g sg (res3 m a k)))) d = sel m d.
Proof. intros. destruct d; reflexivity. Qed.

Lemma assemble_cols_target : forall g h sg k a d, reaches g h sg k a ->
  veq (sel (a_cols (m_geom (assemble g sg (res3 (g_shape h) a k)))) d) (col h d).
Proof.
  intros g h sg k a d (Hperm & Hax & Hpos). destruct (Hax d) as (K & (U1 & U2 & U3) & S).
  assert (E : sel (a_cols (m_geom (assemble g sg (res3 (g_shape h) a k)))) d =
              vscale (inject_Z (sel k d)) (col g (sel sg d))) by (destruct d; reflexivity).
  rewrite E. unfold col at 2. unfold col.
  destruct (sel (g_unit h) d) as [h1 h2 h3]. destruct (sel (g_unit g) (sel sg d)) as [g1 g2 g3].
  unfold veq, vscale in *; cbn [vx vy vz] in *. rewrite U1, U2, U3, S.
  assert (Hk : (inject_Z (sel k d) == sgn (sel k d) * inject_Z (Z.abs (sel k d)))%Q).
  { unfold sgn. destruct (0 <? sel k d) eqn:E0.
    - rewrite Z.abs_eq by lia. ring.
    - rewrite Z.abs_neq by lia. rewrite inject_Z_opp. ring. }
  rewrite Hk. repeat split; ring.
Qed.

Lemma assemble_pos_target : forall g h sg k a, reaches g h sg k a ->
  veq (a_pos (m_geom (assemble g sg (res3 (g_shape h) a k)))) (g_pos h).
Proof. intros g h sg k a (_ & _ & Hpos). apply veq_sym. exact Hpos. Qed.

(* voxels do not move: result voxel (j0,j1,j2) lies at the physical position of the source
   voxel whose coordinate along source axis sg d is  first_d + j_d * step_d *)
Definition aphys (a : ageom) (i : vec3) : vec3 :=
  phys (Aff (p0 (a_cols a)) (p1 (a_cols a)) (p2 (a_cols a)) (a_pos a)) i.
Definition zvec (x : t3 Z) : vec3 := V3 (inject_Z (p0 x)) (inject_Z (p1 x)) (inject_Z (p2 x)).

Theorem assemble_fixes_voxels : forall g sg rs j0 j1 j2, is_perm (p0 sg) (p1 sg) (p2 sg) = true ->
  veq (aphys (m_geom (assemble g sg rs)) (zvec (T3 j0 j1 j2)))
      (phys (geom_aff g)
            (zvec (place sg (r_first (p0 rs) + j0 * r_step (p0 rs))
                            (r_first (p1 rs) + j1 * r_step (p1 rs))
                            (r_first (p2 rs) + j2 * r_step (p2 rs))))).
Proof.
  intros g [s0 s1 s2] [[m0 f0 k0] [m1 f1 k1] [m2 f2 k2]] j0 j1 j2 Hp.
  unfold aphys, assemble, geom_aff, phys, lin, zvec, place, tab; cbn [m_geom a_cols a_pos p0 p1 p2 sel r_first r_step f_c0 f_c1 f_c2 f_t vx vy vz].
  destruct (g_pos g) as [q1 q2 q3].
  destruct (col g X0) as [c00 c01 c02] eqn:E0, (col g X1) as [c10 c11 c12] eqn:E1, (col g X2) as [c20 c21 c22] eqn:E2.
  destruct s0, s1, s2; try discriminate Hp; cbn [ax_eqb sel p0 p1 p2]; rewrite ?E0, ?E1, ?E2;
    unfold veq, vadd, vscale; cbn [vx vy vz]; rewrite !inject_Z_plus, !inject_Z_mult; repeat split; ring.
Qed.

(* ---- soundness: whatever is returned is a pure re-gridding of the source with the target's shape ------- *)
Lemma steps_of_inv : forall tol g h sg k, steps_of tol g h = Ok (sg, k) ->
  forall d, axis_step tol g (sel (g_unit h) d) (sel (g_spac h) d) = Ok (sel sg d, sel k d).
Proof.
  intros tol g h sg k H. unfold steps_of in H.
  destruct (axis_step tol g (sel (g_unit h) X0) _) as [[j0 s0]|] eqn:E0; [|discriminate].
  destruct (axis_step tol g (sel (g_unit h) X1) _) as [[j1 s1]|] eqn:E1; [|discriminate].
  destruct (axis_step tol g (sel (g_unit h) X2) _) as [[j2 s2]|] eqn:E2; [|discriminate].
  cbn [bind fst snd] in H. inversion H; subst. intros d; destruct d; assumption.
Qed.

Lemma steps_of_err : forall tol g h e, steps_of tol g h = Err e ->
  e = RT /\ exists d, axis_step tol g (sel (g_unit h) d) (sel (g_spac h) d) = Err RT.
Proof.
  assert (A : forall tol g u s e, axis_step tol g u s = Err e -> e = RT).
  { intros tol g u s e. unfold axis_step. destruct (find_axis tol g u); [|intros H; now inversion H].
    destruct (_ || Qltb tol _); intros H; now inversion H. }
  intros tol g h e H. unfold steps_of in H.
  destruct (axis_step tol g (sel (g_unit h) X0) _) as [[j0 s0]|e0] eqn:E0.
  2:{ cbn [bind] in H. inversion H; subst. pose proof (A _ _ _ _ _ E0); subst. split; [reflexivity|]. now exists X0. }
  destruct (axis_step tol g (sel (g_unit h) X1) _) as [[j1 s1]|e1] eqn:E1.
  2:{ cbn [bind] in H. inversion H; subst. pose proof (A _ _ _ _ _ E1); subst. split; [reflexivity|]. now exists X1. }
  destruct (axis_step tol g (sel (g_unit h) X2) _) as [[j2 s2]|e2] eqn:E2.
  2:{ cbn [bind] in H. inversion H; subst. pose proof (A _ _ _ _ _ E2); subst. split; [reflexivity|]. now exists X2. }
  cbn [bind] in H. discriminate.
Qed.


(* ---- soundness and refusal ------------------------------------------------------------------- *)
Definition shift (g h : geom) (sg : t3 ax) (d : ax) : Q :=
  Qabs' (inject_Z (rne (start_ind g h sg d)) - start_ind g h sg d).
Definition starts (g h : geom) (sg : t3 ax) : t3 Z := tab (fun d => rne (start_ind g h sg d)).

Lemma plan_for_cases : forall tol g h sg k d,
  plan_for tol g h sg k d =
  if Qltb tol (shift g h sg d) then Err RT
  else Ok (plan_of (sel (starts g h sg) d) (sel k d) (sel (g_shape h) d) (sel (g_shape g) (sel sg d))).
Proof.
  intros. unfold plan_for. rewrite axis_plan_cases. unfold shift, starts.
  destruct (Qltb tol _); [reflexivity|]. destruct d; reflexivity.
Qed.

Lemma plans_of_cases : forall tol g h sg k,
  ((forall d, Qltb tol (shift g h sg d) = false) /\
   plans_of tol g h sg k = Ok (plans3 g sg (g_shape h) (starts g h sg) k)) \/
  ((exists d, Qltb tol (shift g h sg d) = true) /\ plans_of tol g h sg k = Err RT).
Proof.
  intros tol g h sg k. unfold plans_of. rewrite !plan_for_cases.
  destruct (Qltb tol (shift g h sg X0)) eqn:E0; cbn [bind]; [right; split; [now exists X0|reflexivity]|].
  destruct (Qltb tol (shift g h sg X1)) eqn:E1; cbn [bind]; [right; split; [now exists X1|reflexivity]|].
  destruct (Qltb tol (shift g h sg X2)) eqn:E2; cbn [bind]; [right; split; [now exists X2|reflexivity]|].
  left. split; [intros d; destruct d; assumption|reflexivity].
Qed.

Theorem match_sound : forall tol g h r, gpos (g_shape g) -> gpos (g_shape h) ->
  match_geometry tol g h = Ok r ->
  exists sg k,
    steps_of tol g h = Ok (sg, k) /\ is_perm (p0 sg) (p1 sg) (p2 sg) = true /\
    (forall d, sel k d <> 0) /\ (forall d, (shift g h sg d <= tol)%Q) /\
    for_conflict (g_for g) (g_for h) = false /\ g_cs g = g_cs h /\
    r = assemble g sg (res3 (g_shape h) (starts g h sg) k).
Proof.
  intros tol g h r Hg Hh. unfold match_geometry.
  destruct (for_conflict (g_for g) (g_for h)) eqn:EF; [discriminate|].
  destruct (g_cs g =? g_cs h) eqn:EC; cbn [negb]; [|discriminate]. apply Z.eqb_eq in EC.
  destruct (steps_of tol g h) as [[sg k]|e] eqn:ES; cbn [bind fst snd]; [|discriminate].
  destruct (is_perm (p0 sg) (p1 sg) (p2 sg)) eqn:EP; cbn [negb]; [|discriminate].
  destruct (plans_of_cases tol g h sg k) as [[Hs HP]|[_ HP]]; rewrite HP; cbn [bind]; [|discriminate].
  destruct (results_total g sg (g_shape h) (starts g h sg) k Hg Hh) as [[Hk R]|[_ R]]; rewrite R; cbn [bind]; [|discriminate].
  intros H. inversion H; subst. exists sg, k. repeat split; try assumption; try reflexivity.
  intros d. apply Qltb_false_le. apply Hs.
Qed.

Theorem match_refuses : forall tol g h, gpos (g_shape g) -> gpos (g_shape h) ->
  (match_geometry tol g h = Err RT <->
   for_conflict (g_for g) (g_for h) = true \/ g_cs g <> g_cs h \/
   steps_of tol g h = Err RT \/
   exists sg k, steps_of tol g h = Ok (sg, k) /\ is_perm (p0 sg) (p1 sg) (p2 sg) = true /\
                exists d, (tol < shift g h sg d)%Q).
Proof.
  intros tol g h Hg Hh. unfold match_geometry.
  destruct (for_conflict (g_for g) (g_for h)) eqn:EF; [split; [tauto|reflexivity]|].
  destruct (g_cs g =? g_cs h) eqn:EC; cbn [negb].
  2:{ apply Z.eqb_neq in EC. split; [tauto|reflexivity]. }
  apply Z.eqb_eq in EC.
  destruct (steps_of tol g h) as [[sg k]|e] eqn:ES; cbn [bind fst snd].
  2:{ destruct (steps_of_err _ _ _ _ ES) as [-> _]. split; [tauto|reflexivity]. }
  destruct (is_perm (p0 sg) (p1 sg) (p2 sg)) eqn:EP; cbn [negb].
  2:{ split; [discriminate|]. intros [H|[H|[H|(sg' & k' & H & HP & _)]]]; try discriminate; try contradiction.
      inversion H; subst. congruence. }
  destruct (plans_of_cases tol g h sg k) as [[Hs HP]|[[d Hd] HP]]; rewrite HP; cbn [bind].
  - destruct (results_total g sg (g_shape h) (starts g h sg) k Hg Hh) as [[_ R]|[_ R]]; rewrite R; cbn [bind];
      (split; [discriminate|]);
      (intros [H|[H|[H|(sg' & k' & H & _ & d & Hd)]]]; try discriminate; try contradiction;
       inversion H; subst; apply Qltb_true_lt in Hd; rewrite Hs in Hd; discriminate).
  - split; [|reflexivity]. intros _. right; right; right. exists sg, k. repeat split; try assumption.
    exists d. now apply Qltb_true_lt.
Qed.

Lemma find_axis_none_iff : forall tol g u,
  find_axis tol g u = None <-> forall j, aligned tol u (sel (g_unit g) j) = false.
Proof.
  intros tol g u. unfold find_axis. split.
  - destruct (aligned tol u (sel (g_unit g) X0)) eqn:A0; [discriminate|].
    destruct (aligned tol u (sel (g_unit g) X1)) eqn:A1; [discriminate|].
    destruct (aligned tol u (sel (g_unit g) X2)) eqn:A2; [discriminate|].
    intros _ j; destruct j; assumption.
  - intros H. now rewrite (H X0), (H X1), (H X2).
Qed.

Theorem axis_step_refuses_iff : forall tol g u s,
  axis_step tol g u s = Err RT <->
  find_axis tol g u = None \/
  exists j, find_axis tol g u = Some j /\
            (rne (s / sel (g_spac g) j) = 0 \/
             (tol < Qabs' (s / sel (g_spac g) j - inject_Z (rne (s / sel (g_spac g) j))))%Q).
Proof.
  intros tol g u s. unfold axis_step. destruct (find_axis tol g u) as [j|].
  - destruct (rne (s / sel (g_spac g) j) =? 0) eqn:E0; cbn [orb].
    + apply Z.eqb_eq in E0. split; [|reflexivity]. intros _. right. exists j. split; [reflexivity|now left].
    + apply Z.eqb_neq in E0. destruct (Qltb tol _) eqn:E.
      * split; [|reflexivity]. intros _. right. exists j. split; [reflexivity|]. right. now apply Qltb_true_lt.
      * split; [discriminate|]. intros [H|(j' & H & [Hz|Hlt])]; [discriminate| |]; inversion H; subst.
        -- contradiction.
        -- apply Qltb_true_lt in Hlt. congruence.
  - split; [tauto|reflexivity].
Qed.

Theorem steps_refuse_iff : forall tol g h,
  steps_of tol g h = Err RT <-> exists d, axis_step tol g (sel (g_unit h) d) (sel (g_spac h) d) = Err RT.
Proof.
  intros tol g h. split.
  - intros H. now destruct (steps_of_err _ _ _ _ H).
  - intros [d Hd]. destruct (steps_of tol g h) as [[sg k]|e] eqn:ES.
    + pose proof (steps_of_inv _ _ _ _ _ ES d) as H. congruence.
    + destruct (steps_of_err _ _ _ _ ES) as [-> _]. reflexivity.
Qed.

(* the rotated target of fixed defect D62 (rational angle 4e-3 rad, cos = 1 - 8e-6) is now refused *)
Definition d62_src : geom :=
  Geom (T3 3 4 5) 0 None (T3 (V3 1 0 0) (V3 0 1 0) (V3 0 0 1)) (T3 1 1 1)%Q (V3 0 0 0).
Definition d62_tgt : geom :=
  Geom (T3 3 4 5) 0 None
       (T3 (V3 (125500 # 125501) (501 # 125501) 0) (V3 (- (501 # 125501)) (125500 # 125501) 0) (V3 0 0 1))
       (T3 1 1 1)%Q (V3 0 0 0).
Definition ageom_geom (a : ageom) (cs : Z) (f : option Z) : geom :=
  (* columns used as direction vectors with spacing 1: col = 1 * column *)
  Geom (a_shape a) cs f (a_cols a) (T3 1 1 1)%Q (a_pos a).

Theorem d62_rotation_now_refused :
  orthonormal d62_src /\ orthonormal d62_tgt /\ match_geometry (1 # 100000) d62_src d62_tgt = Err RT.
Proof.
  split; [intros i j; destruct i, j; vm_compute; reflexivity|].
  split; [intros i j; destruct i, j; vm_compute; reflexivity|]. vm_compute. reflexivity.
Qed.

(* ... but "on success the result is geometry_equal to the target" is still false: the start test is in
   voxel units, geometry_equal in millimetres.  128 mm voxels, target shifted by 2^-10 mm (7.6e-6 voxel) *)
Definition gap_src : geom :=
  Geom (T3 2 2 2) 0 None (T3 (V3 1 0 0) (V3 0 1 0) (V3 0 0 1)) (T3 128 128 128)%Q (V3 0 0 0).
Definition gap_tgt : geom :=
  Geom (T3 2 2 2) 0 None (T3 (V3 1 0 0) (V3 0 1 0) (V3 0 0 1)) (T3 128 128 128)%Q (V3 (1 # 1024) 0 0).
Theorem match_sound_refuted :
  exists g h r, orthonormal g /\ orthonormal h /\
    match_geometry (1 # 100000) g h = Ok r /\
    geometry_equal (Some (1 # 100000)%Q) (ageom_geom (m_geom r) (g_cs g) (g_for g)) h = false.
Proof.
  exists gap_src, gap_tgt.
  destruct (match_geometry (1 # 100000) gap_src gap_tgt) as [r|e] eqn:E; [|vm_compute in E; discriminate].
  exists r. split; [intros i j; destruct i, j; vm_compute; reflexivity|].
  split; [intros i j; destruct i, j; vm_compute; reflexivity|]. split; [reflexivity|].
  vm_compute in E. inversion E; subst. vm_compute. reflexivity.
Qed.

(* completeness, spelled out: the call succeeds and returns exactly the target geometry, with the
   per-axis voxel maps of axis_match_1d *)
Theorem match_complete_full : forall tol g h sg k a,
  (0 <= tol)%Q -> (tol <= 4 # 5)%Q -> orthonormal g -> spac_pos g ->
  gpos (g_shape g) -> gpos (g_shape h) ->
  for_conflict (g_for g) (g_for h) = false -> g_cs g = g_cs h ->
  reaches g h sg k a ->
  exists r, match_geometry tol g h = Ok r /\ m_perm r = sg /\
    (forall d, sel (a_shape (m_geom r)) d = sel (g_shape h) d) /\
    (forall d, veq (sel (a_cols (m_geom r)) d) (col h d)) /\
    veq (a_pos (m_geom r)) (g_pos h) /\
    (forall d, sel (m_maps r) d =
               axis_map (sel (g_shape g) (sel sg d)) (AxRes (sel (g_shape h) d) (sel a d) (sel k d))).
Proof.
  intros tol g h sg k a Ht0 Ht1 Ho Hsp Hg Hh Hfor Hcs Hr.
  exists (assemble g sg (res3 (g_shape h) a k)). split; [now apply match_complete|].
  split; [reflexivity|]. split; [intros d; apply assemble_shape|].
  split; [intros d; now apply assemble_cols_target|]. split; [now apply assemble_pos_target|].
  intros d; destruct d; reflexivity.
Qed.

Lemma assemble_maps : forall g sg rs d,
  sel (m_maps (assemble g sg rs)) d = axis_map (sel (g_shape g) (sel sg d)) (sel rs d).
Proof. intros g sg rs d; destruct d; reflexivity. Qed.
