(* C03 - proofs, part 9: volumes rearranged through the Volume API before they are
   encoded.  permute_spatial_axes / swap_spatial_axes / flip_spatial (and
   to_patient_orientation = flip then permute) return numpy VIEWS of the caller's
   array together with a rearranged affine.  In the model (value semantics) they
   neither move a voxel nor change a value: every voxel of the input volume is a
   voxel of the result with the same value at the same physical position, the
   result is well shaped, and the acceptance of the calls is characterised
   exactly.  Composed with the round-trip theorem this gives the end-to-end
   statement for a volume whose axes were permuted before it was encoded. *)
From Coq Require Import String ZArith List Bool Lia QArith Qround Qfield Lqa.
From HD Require Import Base.Val Base.PySlice C03_Model C03_Proofs_Geom C03_Proofs_Stack.
Import ListNotations.
Open Scope Z_scope.

(* ---------------------------------------------------------------------- *)
(* arrays built from an index function                                      *)
(* ---------------------------------------------------------------------- *)
Lemma zrange_from_nth : forall n a k d, (k < n)%nat -> nth k (zrange_from a n) d = a + Z.of_nat k.
Proof.
  induction n as [|n IH]; intros a k d Hk; [lia|].
  cbn [zrange_from]. destruct k as [|k]; cbn [nth]; [lia|].
  rewrite IH by lia. lia.
Qed.

Lemma nth_map_zrange : forall {A} (f : Z -> A) n k d, (k < n)%nat ->
  nth k (map f (zrange_from 0 n)) d = f (Z.of_nat k).
Proof.
  intros A f n k d Hk.
  rewrite (nth_indep _ d (f 0)) by (rewrite map_length, zrange_from_length; exact Hk).
  rewrite map_nth. rewrite zrange_from_nth by exact Hk. reflexivity.
Qed.

Lemma vox_build3 : forall n0 n1 n2 f i j k,
  0 <= i < n0 -> 0 <= j < n1 -> 0 <= k < n2 -> vox (build3 n0 n1 n2 f) i j k = f i j k.
Proof.
  intros n0 n1 n2 f i j k Hi Hj Hk. unfold vox, build3.
  rewrite (nth_map_zrange _ (Z.to_nat n0) (Z.to_nat i)) by lia.
  rewrite (nth_map_zrange _ (Z.to_nat n1) (Z.to_nat j)) by lia.
  rewrite (nth_map_zrange _ (Z.to_nat n2) (Z.to_nat k)) by lia.
  rewrite !Z2Nat.id by lia. reflexivity.
Qed.

Lemma build3_length : forall n0 n1 n2 f, length (build3 n0 n1 n2 f) = Z.to_nat n0.
Proof. intros. unfold build3. rewrite map_length. apply zrange_from_length. Qed.

Lemma build3_planes : forall n0 n1 n2 f, Forall (plane_shape n1 n2) (build3 n0 n1 n2 f).
Proof.
  intros n0 n1 n2 f. unfold build3. apply Forall_forall. intros p Hp.
  apply in_map_iff in Hp as (i & <- & _). split.
  - rewrite map_length. apply zrange_from_length.
  - apply Forall_forall. intros row Hr. apply in_map_iff in Hr as (j & <- & _).
    rewrite map_length. apply zrange_from_length.
Qed.

Lemma build3_shape : forall n0 n1 n2 f, 1 <= n0 -> 1 <= n1 -> 1 <= n2 ->
  arr_shape (build3 n0 n1 n2 f) = (n0, n1, n2).
Proof.
  intros n0 n1 n2 f H0 H1 H2. unfold arr_shape. rewrite build3_length.
  unfold build3.
  destruct (Z.to_nat n0) as [|m0] eqn:E0; [lia|].
  destruct (Z.to_nat n1) as [|m1] eqn:E1; [lia|].
  cbn [zrange_from map hd length]. rewrite !map_length, !zrange_from_length.
  f_equal; [f_equal|]; lia.
Qed.

(* a well-shaped array: n0 planes of n1 rows of n2 values *)
Definition well3 (n0 n1 n2 : Z) (arr : list plane) : Prop :=
  length arr = Z.to_nat n0 /\ Forall (plane_shape n1 n2) arr.

Lemma well3_shape : forall n0 n1 n2 arr, 1 <= n0 -> 1 <= n1 -> 1 <= n2 -> well3 n0 n1 n2 arr ->
  arr_shape arr = (n0, n1, n2).
Proof.
  intros n0 n1 n2 arr H0 H1 H2 (Hl & Hp). unfold arr_shape.
  destruct arr as [|p arr]; [cbn [length] in Hl; lia|].
  inversion Hp as [|x l (Hr & Hc) Hp']; subst. cbn [hd].
  destruct p as [|row p]; [cbn [length] in Hr; lia|].
  inversion Hc as [|x l Hrow Hc']; subst. cbn [hd].
  rewrite Hl, Hr, Hrow. f_equal; [f_equal|]; lia.
Qed.

(* ---------------------------------------------------------------------- *)
(* permutations of {0, 1, 2}                                                *)
(* ---------------------------------------------------------------------- *)
Lemma is_perm3_cases : forall p0 p1 p2, is_perm3 p0 p1 p2 = true ->
  (p0, p1, p2) = (0, 1, 2) \/ (p0, p1, p2) = (0, 2, 1) \/ (p0, p1, p2) = (1, 0, 2) \/
  (p0, p1, p2) = (1, 2, 0) \/ (p0, p1, p2) = (2, 0, 1) \/ (p0, p1, p2) = (2, 1, 0).
Proof.
  intros p0 p1 p2 H. unfold is_perm3 in H.
  repeat (apply andb_true_iff in H as (H & ?)).
  assert (E0 : p0 = 0 \/ p0 = 1 \/ p0 = 2) by lia.
  assert (E1 : p1 = 0 \/ p1 = 1 \/ p1 = 2) by lia.
  assert (E2 : p2 = 0 \/ p2 = 1 \/ p2 = 2) by lia.
  destruct E0 as [-> | [-> | ->]], E1 as [-> | [-> | ->]], E2 as [-> | [-> | ->]];
    cbn in *; try discriminate; tauto.
Qed.

Lemma is_perm3_iff : forall p0 p1 p2, is_perm3 p0 p1 p2 = true <->
  (0 <= p0 <= 2 /\ 0 <= p1 <= 2 /\ 0 <= p2 <= 2 /\ p0 <> p1 /\ p0 <> p2 /\ p1 <> p2).
Proof.
  intros p0 p1 p2. unfold is_perm3. split.
  - intros H. repeat (apply andb_true_iff in H as (H & ?)). lia.
  - intros H. repeat (apply andb_true_iff; split); lia.
Qed.

(* acceptance of permute_spatial_axes, exactly *)
Lemma qvol_permute_accept_iff : forall p V,
  (exists V', qvol_permute p V = Ok V') <->
  (exists p0 p1 p2, p = [p0; p1; p2] /\ is_perm3 p0 p1 p2 = true).
Proof.
  intros p V. split.
  - intros (V' & H). unfold qvol_permute in H.
    destruct p as [|p0 [|p1 [|p2 [|x p]]]]; try discriminate.
    destruct (is_perm3 p0 p1 p2) eqn:E; [|discriminate].
    exists p0, p1, p2. split; [reflexivity | exact E].
  - intros (p0 & p1 & p2 & -> & E). unfold qvol_permute. rewrite E. cbn [negb].
    destruct (arr_shape (q_arr V)) as ((n0 & n1) & n2). eexists. reflexivity.
Qed.

Lemma qvol_permute_refused : forall p V,
  (forall V', qvol_permute p V <> Ok V') -> qvol_permute p V = Err "ValueError"%string.
Proof.
  intros p V H. unfold qvol_permute in *.
  destruct p as [|p0 [|p1 [|p2 [|x p]]]]; try reflexivity.
  destruct (is_perm3 p0 p1 p2); [|reflexivity]. cbn [negb] in *.
  destruct (arr_shape (q_arr V)) as ((n0 & n1) & n2). exfalso. eapply H. reflexivity.
Qed.

(* ---------------------------------------------------------------------- *)
(* permute_spatial_axes moves no voxel and changes no value                 *)
(* ---------------------------------------------------------------------- *)
Open Scope Q_scope.
Lemma permute_phys : forall pos d0 d1 d2 s0 s1 s2 p0 p1 p2 (j0 j1 j2 : Q),
  is_perm3 p0 p1 p2 = true ->
  phys (vol_aff pos (sel3 p0 d0 d1 d2) (sel3 p1 d0 d1 d2) (sel3 p2 d0 d1 d2)
                (sel3 p0 s0 s1 s2) (sel3 p1 s0 s1 s2) (sel3 p2 s0 s1 s2))
       (sel3 p0 j0 j1 j2) (sel3 p1 j0 j1 j2) (sel3 p2 j0 j1 j2)
  =v= phys (vol_aff pos d0 d1 d2 s0 s1 s2) j0 j1 j2.
Proof.
  intros [px py pz] [x0 y0 z0] [x1 y1 z1] [x2 y2 z2] s0 s1 s2 p0 p1 p2 j0 j1 j2 H.
  apply is_perm3_cases in H.
  destruct H as [E | [E | [E | [E | [E | E]]]]]; injection E as -> -> ->;
    unfold veq, phys, vol_aff, vadd, vscale, sel3; cbn [Z.eqb vx vy vz a0 a1 a2 atr Pos.eqb];
    repeat split; ring.
Qed.

Section Permute.
  Variables (V V' : qvol) (p : list Z) (n0 n1 n2 : Z).
  Hypothesis Hn0 : (1 <= n0)%Z.
  Hypothesis Hn1 : (1 <= n1)%Z.
  Hypothesis Hn2 : (1 <= n2)%Z.
  Hypothesis Hw : well3 n0 n1 n2 (q_arr V).
  Hypothesis Hp : qvol_permute p V = Ok V'.

  Lemma permute_inv : exists p0 p1 p2,
    p = [p0; p1; p2] /\ is_perm3 p0 p1 p2 = true /\
    V' = QVol (q_pos V) (sel3 p0 (q_d0 V) (q_d1 V) (q_d2 V)) (sel3 p1 (q_d0 V) (q_d1 V) (q_d2 V))
              (sel3 p2 (q_d0 V) (q_d1 V) (q_d2 V))
              (sel3 p0 (q_s0 V) (q_s1 V) (q_s2 V)) (sel3 p1 (q_s0 V) (q_s1 V) (q_s2 V))
              (sel3 p2 (q_s0 V) (q_s1 V) (q_s2 V))
              (build3 (sel3 p0 n0 n1 n2) (sel3 p1 n0 n1 n2) (sel3 p2 n0 n1 n2)
                 (fun i0 i1 i2 =>
                    vox (q_arr V)
                        (if (p0 =? 0)%Z then i0 else if (p1 =? 0)%Z then i1 else i2)
                        (if (p0 =? 1)%Z then i0 else if (p1 =? 1)%Z then i1 else i2)
                        (if (p0 =? 2)%Z then i0 else if (p1 =? 2)%Z then i1 else i2))).
  Proof.
    unfold qvol_permute in Hp.
    destruct p as [|p0 [|p1 [|p2 [|x l]]]]; try discriminate.
    destruct (is_perm3 p0 p1 p2) eqn:E; [|discriminate]. cbn [negb] in Hp.
    rewrite (well3_shape _ _ _ _ Hn0 Hn1 Hn2 Hw) in Hp.
    injection Hp as <-. exists p0, p1, p2. split; [reflexivity|]. split; [exact E | reflexivity].
  Qed.

  (* the result is well shaped: the extents are permuted like the axes *)
  Lemma permute_shape : forall p0 p1 p2, p = [p0; p1; p2] ->
    well3 (sel3 p0 n0 n1 n2) (sel3 p1 n0 n1 n2) (sel3 p2 n0 n1 n2) (q_arr V') /\
    arr_shape (q_arr V') = (sel3 p0 n0 n1 n2, sel3 p1 n0 n1 n2, sel3 p2 n0 n1 n2).
  Proof.
    intros p0 p1 p2 Ep. destruct permute_inv as (q0 & q1 & q2 & Ep' & Hperm & ->).
    rewrite Ep in Ep'. injection Ep' as <- <- <-. cbn [q_arr].
    split; [split; [apply build3_length | apply build3_planes]|].
    apply build3_shape; unfold sel3; repeat match goal with |- context [if ?b then _ else _] => destruct b end; lia.
  Qed.

  (* every voxel (j0, j1, j2) of the input is the voxel of the result whose index
     along result axis k is the input index along axis p_k: same value, same
     physical position *)
  Lemma permute_voxel_fixed : forall p0 p1 p2, p = [p0; p1; p2] ->
    (forall j0 j1 j2 : Z,
       physZ (qvol_aff V') (sel3 p0 j0 j1 j2) (sel3 p1 j0 j1 j2) (sel3 p2 j0 j1 j2)
       =v= physZ (qvol_aff V) j0 j1 j2) /\
    (forall j0 j1 j2 : Z, (0 <= j0 < n0)%Z -> (0 <= j1 < n1)%Z -> (0 <= j2 < n2)%Z ->
       vox (q_arr V') (sel3 p0 j0 j1 j2) (sel3 p1 j0 j1 j2) (sel3 p2 j0 j1 j2) = vox (q_arr V) j0 j1 j2).
  Proof.
    intros p0 p1 p2 Ep. destruct permute_inv as (q0 & q1 & q2 & Ep' & Hperm & ->).
    rewrite Ep in Ep'. injection Ep' as <- <- <-. split.
    - intros j0 j1 j2. unfold physZ, qvol_aff. cbn [q_pos q_d0 q_d1 q_d2 q_s0 q_s1 q_s2].
      pose proof (permute_phys (q_pos V) (q_d0 V) (q_d1 V) (q_d2 V) (q_s0 V) (q_s1 V) (q_s2 V)
                    p0 p1 p2 (inject_Z j0) (inject_Z j1) (inject_Z j2) Hperm) as H.
      replace (inject_Z (sel3 p0 j0 j1 j2)) with (sel3 p0 (inject_Z j0) (inject_Z j1) (inject_Z j2))
        by (unfold sel3; repeat match goal with |- context [if ?b then _ else _] => destruct b end; reflexivity).
      replace (inject_Z (sel3 p1 j0 j1 j2)) with (sel3 p1 (inject_Z j0) (inject_Z j1) (inject_Z j2))
        by (unfold sel3; repeat match goal with |- context [if ?b then _ else _] => destruct b end; reflexivity).
      replace (inject_Z (sel3 p2 j0 j1 j2)) with (sel3 p2 (inject_Z j0) (inject_Z j1) (inject_Z j2))
        by (unfold sel3; repeat match goal with |- context [if ?b then _ else _] => destruct b end; reflexivity).
      exact H.
    - intros j0 j1 j2 H0 H1 H2. cbn [q_arr].
      apply is_perm3_cases in Hperm.
      destruct Hperm as [E | [E | [E | [E | [E | E]]]]]; injection E as -> -> ->;
        unfold sel3; cbn [Z.eqb Pos.eqb]; rewrite vox_build3 by lia; reflexivity.
  Qed.
End Permute.

(* ---------------------------------------------------------------------- *)
(* flip_spatial                                                            *)
(* ---------------------------------------------------------------------- *)
Definition flip_ix (b : bool) (n i : Z) : Z := if b then (n - 1 - i)%Z else i.
Definition flipped (axes : list Z) (a : Z) : bool := existsb (Z.eqb a) axes.

Lemma qvol_flip_accept_iff : forall axes V,
  (exists V', qvol_flip axes V = Ok V') <->
  ((length axes <= 3)%nat /\ Forall (fun a => 0 <= a <= 2)%Z axes).
Proof.
  intros axes V. unfold qvol_flip. split.
  - intros (V' & H).
    destruct ((3 <? Z.of_nat (length axes))%Z || existsb (fun a => negb ((0 <=? a)%Z && (a <=? 2)%Z)) axes) eqn:E;
      [discriminate|].
    apply orb_false_iff in E as (E1 & E2). split; [lia|].
    apply Forall_forall. intros a Ha.
    assert (Hn : negb ((0 <=? a)%Z && (a <=? 2)%Z) = false).
    { destruct (negb ((0 <=? a)%Z && (a <=? 2)%Z)) eqn:En; [|reflexivity].
      assert (existsb (fun a => negb ((0 <=? a)%Z && (a <=? 2)%Z)) axes = true)
        by (apply existsb_exists; exists a; split; assumption). congruence. }
    lia.
  - intros (Hl & Hf).
    assert (E : (3 <? Z.of_nat (length axes))%Z || existsb (fun a => negb ((0 <=? a)%Z && (a <=? 2)%Z)) axes = false).
    { apply orb_false_iff. split; [lia|].
      destruct (existsb (fun a => negb ((0 <=? a)%Z && (a <=? 2)%Z)) axes) eqn:En; [|reflexivity].
      apply existsb_exists in En as (a & Ha & Hn). rewrite Forall_forall in Hf. specialize (Hf a Ha). lia. }
    rewrite E. destruct (arr_shape (q_arr V)) as ((n0 & n1) & n2). eexists. reflexivity.
Qed.

Lemma flip_phys : forall pos d0 d1 d2 s0 s1 s2 (b0 b1 b2 : bool) (n0 n1 n2 j0 j1 j2 : Z),
  let mv (b : bool) (n : Z) (s : Q) (d p : v3) :=
    if b then vadd p (vscale (inject_Z (n - 1) * s) d) else p in
  let ng (b : bool) (d : v3) := if b then vscale (-1) d else d in
  physZ (vol_aff (mv b2 n2 s2 d2 (mv b1 n1 s1 d1 (mv b0 n0 s0 d0 pos))) (ng b0 d0) (ng b1 d1) (ng b2 d2) s0 s1 s2)
        (flip_ix b0 n0 j0) (flip_ix b1 n1 j1) (flip_ix b2 n2 j2)
  =v= physZ (vol_aff pos d0 d1 d2 s0 s1 s2) j0 j1 j2.
Proof.
  intros [px py pz] [x0 y0 z0] [x1 y1 z1] [x2 y2 z2] s0 s1 s2 b0 b1 b2 n0 n1 n2 j0 j1 j2 mv ng.
  subst mv ng. unfold physZ, flip_ix.
  destruct b0, b1, b2; unfold Z.sub; rewrite ?inject_Z_plus, ?inject_Z_opp;
    unfold veq, phys, vol_aff, vadd, vscale; cbn [vx vy vz a0 a1 a2 atr];
    repeat split; ring.
Qed.

Section Flip.
  Variables (V V' : qvol) (axes : list Z) (n0 n1 n2 : Z).
  Hypothesis Hn0 : (1 <= n0)%Z.
  Hypothesis Hn1 : (1 <= n1)%Z.
  Hypothesis Hn2 : (1 <= n2)%Z.
  Hypothesis Hw : well3 n0 n1 n2 (q_arr V).
  Hypothesis Hf : qvol_flip axes V = Ok V'.

  Lemma flip_shape : well3 n0 n1 n2 (q_arr V') /\ arr_shape (q_arr V') = (n0, n1, n2).
  Proof.
    unfold qvol_flip in Hf.
    destruct ((3 <? Z.of_nat (length axes))%Z || existsb (fun a => negb ((0 <=? a)%Z && (a <=? 2)%Z)) axes);
      [discriminate|].
    rewrite (well3_shape _ _ _ _ Hn0 Hn1 Hn2 Hw) in Hf. injection Hf as <-. cbn [q_arr].
    split; [split; [apply build3_length | apply build3_planes]|]. apply build3_shape; assumption.
  Qed.

  (* voxel (j0, j1, j2) of the input is the voxel of the result with the index
     mirrored along every flipped axis: same value, same physical position *)
  Lemma flip_voxel_fixed :
    (forall j0 j1 j2 : Z,
       physZ (qvol_aff V') (flip_ix (flipped axes 0) n0 j0) (flip_ix (flipped axes 1) n1 j1)
             (flip_ix (flipped axes 2) n2 j2)
       =v= physZ (qvol_aff V) j0 j1 j2) /\
    (forall j0 j1 j2 : Z, (0 <= j0 < n0)%Z -> (0 <= j1 < n1)%Z -> (0 <= j2 < n2)%Z ->
       vox (q_arr V') (flip_ix (flipped axes 0) n0 j0) (flip_ix (flipped axes 1) n1 j1)
           (flip_ix (flipped axes 2) n2 j2) = vox (q_arr V) j0 j1 j2).
  Proof.
    unfold qvol_flip in Hf.
    destruct ((3 <? Z.of_nat (length axes))%Z || existsb (fun a => negb ((0 <=? a)%Z && (a <=? 2)%Z)) axes);
      [discriminate|].
    rewrite (well3_shape _ _ _ _ Hn0 Hn1 Hn2 Hw) in Hf. injection Hf as <-. split.
    - intros j0 j1 j2. unfold qvol_aff. cbn [q_pos q_d0 q_d1 q_d2 q_s0 q_s1 q_s2].
      apply (flip_phys (q_pos V) (q_d0 V) (q_d1 V) (q_d2 V) (q_s0 V) (q_s1 V) (q_s2 V)
                       (flipped axes 0) (flipped axes 1) (flipped axes 2) n0 n1 n2 j0 j1 j2).
    - intros j0 j1 j2 H0 H1 H2. cbn [q_arr]. fold (flipped axes 0) (flipped axes 1) (flipped axes 2).
      rewrite vox_build3 by (unfold flip_ix; repeat match goal with |- context [if ?b then _ else _] => destruct b end; lia).
      unfold flip_ix. f_equal;
        repeat match goal with |- context [if ?b then _ else _] => destruct b end; lia.
  Qed.
End Flip.

(* ---------------------------------------------------------------------- *)
(* end to end: a volume whose axes were permuted (e.g. a NIfTI-style        *)
(* (x, y, z) array brought to slices-first order) is encoded and read back  *)
(* ---------------------------------------------------------------------- *)
Lemma aeq_physZ : forall A B i j k, aeq A B -> physZ A i j k =v= physZ B i j k.
Proof.
  intros [[x0 y0 z0] [x1 y1 z1] [x2 y2 z2] [tx ty tz]] [[u0 v0 w0] [u1 v1 w1] [u2 v2 w2] [sx sy sz]] i j k
         ((E00 & E01 & E02) & (E10 & E11 & E12) & (E20 & E21 & E22) & (E30 & E31 & E32)).
  cbn [vx vy vz a0 a1 a2 atr] in *.
  unfold veq, physZ, phys, vadd, vscale; cbn [vx vy vz a0 a1 a2 atr].
  rewrite E00, E01, E02, E10, E11, E12, E20, E21, E22, E30, E31, E32. repeat split; reflexivity.
Qed.

Lemma mirrored_phys : forall A S i0 i1 i2,
  physZ (Aff (vscale (-1) (a0 A)) (a1 A) (a2 A) (physZ A (S - 1) 0 0)) (S - 1 - i0) i1 i2
  =v= physZ A i0 i1 i2.
Proof.
  intros [[x0 y0 z0] [x1 y1 z1] [x2 y2 z2] [tx ty tz]] S i0 i1 i2.
  unfold physZ. unfold Z.sub. rewrite ?inject_Z_plus, ?inject_Z_opp.
  unfold veq, phys, vadd, vscale; cbn [vx vy vz a0 a1 a2 atr]. repeat split; ring.
Qed.

Definition hand (lh : bool) (v : v3) : v3 := if lh then vscale (-1) v else v.

(* a volume in component form with unit orthogonal in-plane axes, stacked
   right-handedly (lh = false) or left-handedly (lh = true), nothing omitted, is
   encoded and read back: voxel (i0, i1, i2) is found with its value at its
   position, at the same index (right-handed) or mirrored along axis 0 *)
Lemma qvol_roundtrip : forall (V : qvol) (m0 m1 m2 : Z) (lh : bool),
  (1 <= m0)%Z -> (1 <= m1)%Z -> (1 <= m2)%Z -> well3 m0 m1 m2 (q_arr V) ->
  vdot (q_d1 V) (q_d1 V) == 1 -> vdot (q_d2 V) (q_d2 V) == 1 -> vdot (q_d1 V) (q_d2 V) == 0 ->
  q_d0 V =v= hand lh (vcross (q_d1 V) (q_d2 V)) -> 0 < q_s0 V ->
  exists G out,
    get_volume true (seg_from_qvol V false) None None None None None None false = Ok ((m0, m1, m2), G, out) /\
    (forall i0 i1 i2 : Z, physZ G (flip_ix lh m0 i0) i1 i2 =v= physZ (qvol_aff V) i0 i1 i2) /\
    (forall i0 i1 i2 : Z, (0 <= i0 < m0)%Z -> vox out (flip_ix lh m0 i0) i1 i2 = vox (q_arr V) i0 i1 i2).
Proof.
  intros V m0 m1 m2 lh H0 H1 H2 Hw H11 H22 H12 Hd0 Hs0.
  pose proof (well3_shape _ _ _ _ H0 H1 H2 Hw) as Esh.
  destruct Hw as (Hl & Hp).
  assert (Hne : q_arr V <> []) by (intros E; rewrite E in Hl; cbn [length] in Hl; lia).
  assert (ES : Z.of_nat (length (q_arr V)) = m0) by lia.
  unfold seg_from_qvol. rewrite Esh.
  destruct lh; cbn [hand] in Hd0.
  - destruct (volume_roundtrip_lh (q_pos V) (q_d0 V) (q_d1 V) (q_d2 V) (q_s0 V) (q_s1 V) (q_s2 V) m1 m2 (q_arr V)
                H11 H22 H12 Hd0 Hs0 Hne H1 H2 Hp) as (G & EV & EG).
    rewrite ES in EV, EG. exists G, (rev (q_arr V)). split; [exact EV|]. split.
    + intros i0 i1 i2. eapply veq_trans; [apply aeq_physZ; exact EG|].
      unfold flip_ix. apply mirrored_phys.
    + intros i0 i1 i2 Hi. unfold vox, flip_ix. f_equal. f_equal.
      rewrite rev_nth by lia. f_equal. lia.
  - destruct (volume_roundtrip_rh (q_pos V) (q_d0 V) (q_d1 V) (q_d2 V) (q_s0 V) (q_s1 V) (q_s2 V) m1 m2 (q_arr V)
                H11 H22 H12 Hd0 Hs0 Hne H1 H2 Hp) as (G & EV & EG).
    rewrite ES in EV. exists G, (q_arr V). split; [exact EV|]. split.
    + intros i0 i1 i2. unfold flip_ix. apply aeq_physZ. exact EG.
    + intros i0 i1 i2 Hi. reflexivity.
Qed.

(* END TO END, permuted axes: V (well shaped, any axis order) --permute_spatial_axes(p)-->
   V' (unit orthogonal in-plane axes, either handedness) --Segmentation, get_volume-->
   every voxel of V is found with its value at the physical position V gave it *)
Theorem permuted_volume_roundtrip : forall (V V' : qvol) p0 p1 p2 (n0 n1 n2 : Z) (lh : bool),
  (1 <= n0)%Z -> (1 <= n1)%Z -> (1 <= n2)%Z -> well3 n0 n1 n2 (q_arr V) ->
  qvol_permute [p0; p1; p2] V = Ok V' ->
  vdot (q_d1 V') (q_d1 V') == 1 -> vdot (q_d2 V') (q_d2 V') == 1 -> vdot (q_d1 V') (q_d2 V') == 0 ->
  q_d0 V' =v= hand lh (vcross (q_d1 V') (q_d2 V')) -> 0 < q_s0 V' ->
  let m0 := sel3 p0 n0 n1 n2 in
  exists G out,
    get_volume true (seg_from_qvol V' false) None None None None None None false
    = Ok ((m0, sel3 p1 n0 n1 n2, sel3 p2 n0 n1 n2), G, out) /\
    forall j0 j1 j2 : Z, (0 <= j0 < n0)%Z -> (0 <= j1 < n1)%Z -> (0 <= j2 < n2)%Z ->
      physZ G (flip_ix lh m0 (sel3 p0 j0 j1 j2)) (sel3 p1 j0 j1 j2) (sel3 p2 j0 j1 j2)
      =v= physZ (qvol_aff V) j0 j1 j2 /\
      vox out (flip_ix lh m0 (sel3 p0 j0 j1 j2)) (sel3 p1 j0 j1 j2) (sel3 p2 j0 j1 j2)
      = vox (q_arr V) j0 j1 j2.
Proof.
  intros V V' p0 p1 p2 n0 n1 n2 lh H0 H1 H2 Hw Hp H11 H22 H12 Hd0 Hs0 m0.
  destruct (permute_shape V V' _ n0 n1 n2 H0 H1 H2 Hw Hp p0 p1 p2 eq_refl) as (Hw' & _).
  destruct (permute_voxel_fixed V V' _ n0 n1 n2 H0 H1 H2 Hw Hp p0 p1 p2 eq_refl) as (Hphys & Hvox).
  assert (Hm : (1 <= sel3 p0 n0 n1 n2)%Z /\ (1 <= sel3 p1 n0 n1 n2)%Z /\ (1 <= sel3 p2 n0 n1 n2)%Z).
  { unfold sel3. repeat match goal with |- context [if ?b then _ else _] => destruct b end; lia. }
  destruct Hm as (M0 & M1 & M2).
  destruct (qvol_roundtrip V' _ _ _ lh M0 M1 M2 Hw' H11 H22 H12 Hd0 Hs0) as (G & out & EV & HG & Hout).
  exists G, out. split; [exact EV|].
  intros j0 j1 j2 J0 J1 J2. split.
  - eapply veq_trans; [apply HG|]. apply Hphys.
  - subst m0. rewrite Hout.
    + apply Hvox; assumption.
    + destruct (permute_inv V V' _ n0 n1 n2 H0 H1 H2 Hw Hp) as (q0 & q1 & q2 & Eq & Hperm & _).
      injection Eq as <- <- <-. apply is_perm3_cases in Hperm.
      destruct Hperm as [E | [E | [E | [E | [E | E]]]]]; injection E as -> -> ->;
        unfold sel3; cbn [Z.eqb Pos.eqb]; lia.
Qed.

(* END TO END, flipped axes (flip_spatial; with permuted_volume_roundtrip also
   to_patient_orientation, which flips and then permutes) *)
Theorem flipped_volume_roundtrip : forall (V V' : qvol) axes (n0 n1 n2 : Z) (lh : bool),
  (1 <= n0)%Z -> (1 <= n1)%Z -> (1 <= n2)%Z -> well3 n0 n1 n2 (q_arr V) ->
  qvol_flip axes V = Ok V' ->
  vdot (q_d1 V') (q_d1 V') == 1 -> vdot (q_d2 V') (q_d2 V') == 1 -> vdot (q_d1 V') (q_d2 V') == 0 ->
  q_d0 V' =v= hand lh (vcross (q_d1 V') (q_d2 V')) -> 0 < q_s0 V' ->
  exists G out,
    get_volume true (seg_from_qvol V' false) None None None None None None false = Ok ((n0, n1, n2), G, out) /\
    forall j0 j1 j2 : Z, (0 <= j0 < n0)%Z -> (0 <= j1 < n1)%Z -> (0 <= j2 < n2)%Z ->
      physZ G (flip_ix lh n0 (flip_ix (flipped axes 0) n0 j0)) (flip_ix (flipped axes 1) n1 j1)
            (flip_ix (flipped axes 2) n2 j2)
      =v= physZ (qvol_aff V) j0 j1 j2 /\
      vox out (flip_ix lh n0 (flip_ix (flipped axes 0) n0 j0)) (flip_ix (flipped axes 1) n1 j1)
          (flip_ix (flipped axes 2) n2 j2)
      = vox (q_arr V) j0 j1 j2.
Proof.
  intros V V' axes n0 n1 n2 lh H0 H1 H2 Hw Hf H11 H22 H12 Hd0 Hs0.
  destruct (flip_shape V V' axes n0 n1 n2 H0 H1 H2 Hw Hf) as (Hw' & _).
  destruct (flip_voxel_fixed V V' axes n0 n1 n2 H0 H1 H2 Hw Hf) as (Hphys & Hvox).
  destruct (qvol_roundtrip V' _ _ _ lh H0 H1 H2 Hw' H11 H22 H12 Hd0 Hs0) as (G & out & EV & HG & Hout).
  exists G, out. split; [exact EV|].
  intros j0 j1 j2 J0 J1 J2. split.
  - eapply veq_trans; [apply HG|]. apply Hphys.
  - rewrite Hout; [apply Hvox; assumption|].
    unfold flip_ix. destruct (flipped axes 0); lia.
Qed.

(* non-vacuity: a NIfTI-style (x, y, z) volume of 2 x 3 x 2 voxels, axis 0 -> L,
   axis 1 -> P, axis 2 -> F (left handed), anisotropic, brought to slices-first
   order (F, P, L) by permute_spatial_axes([2, 1, 0]) meets every hypothesis of
   permuted_volume_roundtrip with lh = false, and the permuted array differs
   from the original one *)
Definition perm_example_V : qvol :=
  QVol (V3 (-20) (-35) 60) (V3 1 0 0) (V3 0 1 0) (V3 0 0 (-1)) (4 # 5) (3 # 5) (5 # 2)
       [[[1; 0]; [0; 2]; [3; 0]]; [[0; 4]; [5; 0]; [0; 6]]]%Z.

Lemma perm_example : exists V',
  qvol_permute [2; 1; 0]%Z perm_example_V = Ok V' /\
  well3 2 3 2 (q_arr perm_example_V) /\
  vdot (q_d1 V') (q_d1 V') == 1 /\ vdot (q_d2 V') (q_d2 V') == 1 /\ vdot (q_d1 V') (q_d2 V') == 0 /\
  q_d0 V' =v= hand false (vcross (q_d1 V') (q_d2 V')) /\ 0 < q_s0 V' /\
  q_arr V' = [[[1; 0]; [0; 5]; [3; 0]]; [[0; 4]; [2; 0]; [0; 6]]]%Z /\
  vox (q_arr V') 1 1 0 = vox (q_arr perm_example_V) 0 1 1.
Proof.
  eexists. split; [vm_compute; reflexivity|].
  split; [split; [reflexivity|]; repeat constructor|].
  cbn [q_d0 q_d1 q_d2 q_s0 q_arr].
  repeat split; vm_compute; reflexivity.
Qed.

(* ... and the same volume flipped along axes 0 and 2 *)
Lemma flip_example : exists V',
  qvol_flip [0; 2]%Z perm_example_V = Ok V' /\
  q_pos V' =v= V3 (-20 + (4 # 5)) (-35) (60 - (5 # 2)) /\
  q_arr V' = [[[4; 0]; [0; 5]; [6; 0]]; [[0; 1]; [2; 0]; [0; 3]]]%Z.
Proof.
  eexists. split; [vm_compute; reflexivity|].
  split; [repeat split; vm_compute; reflexivity|]. vm_compute. reflexivity.
Qed.

(* ---------------------------------------------------------------------- *)
(* the statements as they appear in C03_Props.v                             *)
(* ---------------------------------------------------------------------- *)
Open Scope Z_scope.
Lemma permute_accept_full : forall p V,
  ((exists V', qvol_permute p V = Ok V') <->
   (exists p0 p1 p2, p = [p0; p1; p2] /\
      0 <= p0 <= 2 /\ 0 <= p1 <= 2 /\ 0 <= p2 <= 2 /\ p0 <> p1 /\ p0 <> p2 /\ p1 <> p2)) /\
  ((forall V', qvol_permute p V <> Ok V') -> qvol_permute p V = Err "ValueError"%string).
Proof.
  intros p V. split; [|apply qvol_permute_refused].
  rewrite qvol_permute_accept_iff.
  split; intros (p0 & p1 & p2 & E & H); exists p0, p1, p2; (split; [exact E|]); apply is_perm3_iff; exact H.
Qed.

Lemma permute_voxel_fixed_full : forall (V V' : qvol) (n0 n1 n2 p0 p1 p2 : Z),
  1 <= n0 -> 1 <= n1 -> 1 <= n2 -> well3 n0 n1 n2 (q_arr V) ->
  qvol_permute [p0; p1; p2] V = Ok V' ->
  (forall j0 j1 j2 : Z,
     physZ (qvol_aff V') (sel3 p0 j0 j1 j2) (sel3 p1 j0 j1 j2) (sel3 p2 j0 j1 j2)
     =v= physZ (qvol_aff V) j0 j1 j2) /\
  (forall j0 j1 j2 : Z, 0 <= j0 < n0 -> 0 <= j1 < n1 -> 0 <= j2 < n2 ->
     vox (q_arr V') (sel3 p0 j0 j1 j2) (sel3 p1 j0 j1 j2) (sel3 p2 j0 j1 j2) = vox (q_arr V) j0 j1 j2) /\
  well3 (sel3 p0 n0 n1 n2) (sel3 p1 n0 n1 n2) (sel3 p2 n0 n1 n2) (q_arr V') /\
  arr_shape (q_arr V') = (sel3 p0 n0 n1 n2, sel3 p1 n0 n1 n2, sel3 p2 n0 n1 n2).
Proof.
  intros V V' n0 n1 n2 p0 p1 p2 H0 H1 H2 Hw Hp.
  destruct (permute_voxel_fixed V V' _ n0 n1 n2 H0 H1 H2 Hw Hp p0 p1 p2 eq_refl) as (A & B).
  destruct (permute_shape V V' _ n0 n1 n2 H0 H1 H2 Hw Hp p0 p1 p2 eq_refl) as (C & D).
  split; [exact A|]. split; [exact B|]. split; [exact C | exact D].
Qed.

Lemma flip_voxel_fixed_full : forall (V V' : qvol) (axes : list Z) (n0 n1 n2 : Z),
  1 <= n0 -> 1 <= n1 -> 1 <= n2 -> well3 n0 n1 n2 (q_arr V) ->
  qvol_flip axes V = Ok V' ->
  (forall j0 j1 j2 : Z,
     physZ (qvol_aff V') (flip_ix (flipped axes 0) n0 j0) (flip_ix (flipped axes 1) n1 j1)
           (flip_ix (flipped axes 2) n2 j2)
     =v= physZ (qvol_aff V) j0 j1 j2) /\
  (forall j0 j1 j2 : Z, 0 <= j0 < n0 -> 0 <= j1 < n1 -> 0 <= j2 < n2 ->
     vox (q_arr V') (flip_ix (flipped axes 0) n0 j0) (flip_ix (flipped axes 1) n1 j1)
         (flip_ix (flipped axes 2) n2 j2) = vox (q_arr V) j0 j1 j2) /\
  well3 n0 n1 n2 (q_arr V') /\ arr_shape (q_arr V') = (n0, n1, n2).
Proof.
  intros V V' axes n0 n1 n2 H0 H1 H2 Hw Hf.
  destruct (flip_voxel_fixed V V' axes n0 n1 n2 H0 H1 H2 Hw Hf) as (A & B).
  destruct (flip_shape V V' axes n0 n1 n2 H0 H1 H2 Hw Hf) as (C & D).
  split; [exact A|]. split; [exact B|]. split; [exact C | exact D].
Qed.

(* swap_spatial_axes is permute_spatial_axes with the transposition; acceptance exactly *)
Lemma qvol_swap_spec : forall a b V,
  qvol_swap a b V =
  if (0 <=? a) && (a <=? 2) && (0 <=? b) && (b <=? 2) && negb (a =? b)
  then qvol_permute [if 0 =? a then b else if 0 =? b then a else 0;
                     if 1 =? a then b else if 1 =? b then a else 1;
                     if 2 =? a then b else if 2 =? b then a else 2] V
  else Err "ValueError"%string.
Proof.
  intros a b V. unfold qvol_swap.
  destruct ((0 <=? a) && (a <=? 2) && (0 <=? b) && (b <=? 2)) eqn:E; cbn [negb andb]; [|reflexivity].
  destruct (a =? b); reflexivity.
Qed.

Lemma qvol_swap_accept_iff : forall a b V,
  (exists V', qvol_swap a b V = Ok V') <-> (0 <= a <= 2 /\ 0 <= b <= 2 /\ a <> b).
Proof.
  intros a b V. rewrite qvol_swap_spec. split.
  - intros (V' & H).
    destruct ((0 <=? a) && (a <=? 2) && (0 <=? b) && (b <=? 2) && negb (a =? b)) eqn:E; [|discriminate]. lia.
  - intros H.
    replace ((0 <=? a) && (a <=? 2) && (0 <=? b) && (b <=? 2) && negb (a =? b)) with true by lia.
    apply qvol_permute_accept_iff. eexists _, _, _. split; [reflexivity|].
    apply is_perm3_iff.
    assert (Ea : a = 0 \/ a = 1 \/ a = 2) by lia. assert (Eb : b = 0 \/ b = 1 \/ b = 2) by lia.
    destruct Ea as [-> | [-> | ->]], Eb as [-> | [-> | ->]]; cbn; lia.
Qed.
