(* C08 - proofs, part 1: index arithmetic, affine identities, the three primitive methods
   (getitem / pad / permute) of Volume and VolumeGeometry. *)
From Coq Require Import String ZArith List Bool Lia ZifyBool Ring.
From HD Require Import C08_Model.
Import ListNotations.
Ltac Zify.zify_post_hook ::= Z.to_euclidean_division_equations.
Open Scope Z_scope.

Definition inr (s : idx) (j : idx) : Prop :=
  let '(n0, n1, n2) := s in let '(j0, j1, j2) := j in
  0 <= j0 < n0 /\ 0 <= j1 < n1 /\ 0 <= j2 < n2.
Definition wf (s : idx) : Prop := let '(n0, n1, n2) := s in 0 < n0 /\ 0 < n1 /\ 0 < n2.

Tactic Notation "inv_bind" hyp(H) "as" ident(v) ident(E) :=
  match type of H with
  | bind ?x _ = Ok _ => destruct x as [v|] eqn:E; cbn [bind] in H; [|discriminate H]
  end.

(* ------------------------------------------------------------------ slices *)
Lemma dim_of_spec : forall n sl f s z, 0 < n -> dim_of n sl = Ok (f, s, z) ->
  0 < z /\ s <> 0 /\ forall k, 0 <= k < z -> 0 <= f + k * s < n.
Proof.
  intros n sl f s z Hn H. destruct sl as [[[a b] st]|]; cbn [dim_of] in H.
  - set (st' := match st with None => 1 | Some x => x end) in *.
    destruct (st' =? 0) eqn:E0; [discriminate|].
    assert (Hs : st' <> 0) by lia.
    destruct (slice_indices a b st' n) as [[f' l'] s''] eqn:E.
    destruct (hd_size f' l' st') as [sz|] eqn:Hh; [|discriminate].
    inversion H; subst f s z; clear H.
    pose proof (hd_size_is_range_len f' l' st' Hs) as Hr. rewrite Hh in Hr. destruct Hr as [Hr Hpos].
    split; [lia|split; [exact Hs|]]. intros k Hk.
    pose proof (slice_in_bounds a b st' n k Hn Hs) as Hb; rewrite E in Hb.
    assert (s'' = st') by (unfold slice_indices in E; inversion E; reflexivity); subst s''.
    rewrite <- Hr in Hb; specialize (Hb Hk); lia.
  - inversion H; subst. split; [lia|split; [lia|]]. intros; lia.
Qed.

Lemma prep_getitem_spec : forall shape ix p, wf shape -> prep_getitem shape ix = Ok p ->
  wf (gp_n p) /\
  forall j, inr (gp_n p) j -> exists i, get_map p j = Some i /\ inr shape i.
Proof.
  intros [[n0 n1] n2] ix p (H0 & H1 & H2) H. unfold prep_getitem in H.
  destruct (3 <? Z.of_nat (length (items_of_index ix))); [discriminate|].
  inv_bind H as sl Es. inv_bind H as p0 E0. inv_bind H as p1 E1. inv_bind H as p2 E2.
  destruct p0 as [[f0 s0] z0], p1 as [[f1 s1] z1], p2 as [[f2 s2] z2].
  inversion H; subst p; clear H. cbn [gp_n gp_f gp_s].
  destruct (dim_of_spec _ _ _ _ _ H0 E0) as (Z0 & _ & B0).
  destruct (dim_of_spec _ _ _ _ _ H1 E1) as (Z1 & _ & B1).
  destruct (dim_of_spec _ _ _ _ _ H2 E2) as (Z2 & _ & B2).
  split; [cbn; lia|].
  intros [[j0 j1] j2] (J0 & J1 & J2). eexists; split; [reflexivity|].
  cbn. specialize (B0 j0 J0). specialize (B1 j1 J1). specialize (B2 j2 J2). lia.
Qed.

Lemma prep_getitem_steps : forall shape ix p, wf shape -> prep_getitem shape ix = Ok p ->
  let '(s0, s1, s2) := gp_s p in s0 <> 0 /\ s1 <> 0 /\ s2 <> 0.
Proof.
  intros [[n0 n1] n2] ix p (H0 & H1 & H2) H. unfold prep_getitem in H.
  destruct (3 <? Z.of_nat (length (items_of_index ix))); [discriminate|].
  inv_bind H as sl Es. inv_bind H as p0 E0. inv_bind H as p1 E1. inv_bind H as p2 E2.
  destruct p0 as [[f0 s0] z0], p1 as [[f1 s1] z1], p2 as [[f2 s2] z2].
  inversion H; subst p; clear H. cbn [gp_s].
  destruct (dim_of_spec _ _ _ _ _ H0 E0) as (_ & S0 & _).
  destruct (dim_of_spec _ _ _ _ _ H1 E1) as (_ & S1 & _).
  destruct (dim_of_spec _ _ _ _ _ H2 E2) as (_ & S2 & _). auto.
Qed.

(* ------------------------------------------------------------------ pad widths *)
Lemma pad_width_forms_len : forall w l, pad_width_forms w = Ok l ->
  exists a b c, l = [a; b; c].
Proof.
  intros w l H. destruct w as [p|fl|nl]; cbn in H.
  - destruct (p <? 0); inversion H; eauto.
  - destruct fl as [|a [|b [|c fl]]]; try discriminate.
    destruct ((a <? 0) || (b <? 0)); inversion H; eauto.
  - destruct nl as [|[|a [|a' [|? ?]]] [|[|b [|b' [|? ?]]] [|[|c [|c' [|? ?]]] [|? ?]]]]; try discriminate;
      inversion H; eauto.
Qed.

(* the width list that is accepted has three pairs, none negative - in every form *)
Lemma prep_pad_width_nonneg : forall w l, prep_pad_width w = Ok l ->
  existsb (fun p => (fst p <? 0) || (snd p <? 0)) l = false.
Proof.
  intros w l H. unfold prep_pad_width in H. destruct (pad_width_forms w) as [l'|]; [|discriminate].
  cbn [bind] in H. destruct (existsb _ l') eqn:E; [discriminate|]. inversion H; subst. exact E.
Qed.

Lemma prep_pad_width_len : forall w l, prep_pad_width w = Ok l ->
  exists a b c, l = [a; b; c].
Proof.
  intros w l H. unfold prep_pad_width in H. destruct (pad_width_forms w) as [l'|] eqn:F; [|discriminate].
  cbn [bind] in H. destruct (existsb _ l'); [discriminate|]. inversion H; subst.
  eapply pad_width_forms_len; exact F.
Qed.

Lemma prep_pad_width_int_refuses : forall p, prep_pad_width (PWInt p) = Err "ValueError"%string <-> p < 0.
Proof.
  intros p; unfold prep_pad_width; cbn. destruct (p <? 0) eqn:E; cbn; [split; [lia|reflexivity]|].
  rewrite E. cbn. split; [discriminate|lia].
Qed.

Lemma prep_pad_width_flat_ok : forall l r, prep_pad_width (PWFlat l) = Ok r <->
  exists a b, l = [a; b] /\ 0 <= a /\ 0 <= b /\ r = [(a, b); (a, b); (a, b)].
Proof.
  intros l r; unfold prep_pad_width; split.
  - destruct l as [|a [|b [|c l]]]; cbn; try discriminate.
    destruct ((a <? 0) || (b <? 0)) eqn:E; cbn; [discriminate|]. rewrite E. cbn. intros H; inversion H.
    exists a, b. repeat split; lia.
  - intros (a & b & E1 & Ha & Hb & E2). subst l r. cbn.
    replace ((a <? 0) || (b <? 0)) with false by lia. cbn.
    replace ((a <? 0) || (b <? 0)) with false by lia. reflexivity.
Qed.

(* nested forms: accepted exactly for three 1- or 2-element rows without negative entries *)
Lemma prep_pad_width_nest_ok : forall l r, prep_pad_width (PWNest l) = Ok r <->
  ((exists a b c, l = [[a]; [b]; [c]] /\ 0 <= a /\ 0 <= b /\ 0 <= c /\ r = [(a, a); (b, b); (c, c)]) \/
   (exists a a' b b' c c', l = [[a; a']; [b; b']; [c; c']] /\
      0 <= a /\ 0 <= a' /\ 0 <= b /\ 0 <= b' /\ 0 <= c /\ 0 <= c' /\ r = [(a, a'); (b, b'); (c, c')])).
Proof.
  intros l r; unfold prep_pad_width; split.
  - destruct l as [|[|a [|a' [|? ?]]] [|[|b [|b' [|? ?]]] [|[|c [|c' [|? ?]]] [|? ?]]]]; cbn; try discriminate.
    + destruct ((a <? 0) || (a <? 0) || ((b <? 0) || (b <? 0) || ((c <? 0) || (c <? 0) || false))) eqn:E;
        [discriminate|]. intros H; inversion H. left. exists a, b, c. repeat split; lia.
    + destruct ((a <? 0) || (a' <? 0) || ((b <? 0) || (b' <? 0) || ((c <? 0) || (c' <? 0) || false))) eqn:E;
        [discriminate|]. intros H; inversion H. right. exists a, a', b, b', c, c'. repeat split; lia.
  - intros [(a & b & c & E1 & ? & ? & ? & E2)|(a & a' & b & b' & c & c' & E1 & ? & ? & ? & ? & ? & ? & E2)];
      subst l r; cbn.
    + replace ((a <? 0) || (a <? 0) || ((b <? 0) || (b <? 0) || ((c <? 0) || (c <? 0) || false))) with false by lia.
      reflexivity.
    + replace ((a <? 0) || (a' <? 0) || ((b <? 0) || (b' <? 0) || ((c <? 0) || (c' <? 0) || false))) with false by lia.
      reflexivity.
Qed.

Lemma pad_map_spec : forall shape a0 b0 a1 b1 a2 b2 j,
  0 <= a0 -> 0 <= b0 -> 0 <= a1 -> 0 <= b1 -> 0 <= a2 -> 0 <= b2 ->
  inr (pad_shape shape ((a0, b0), (a1, b1), (a2, b2))) j ->
  match pad_map shape ((a0, b0), (a1, b1), (a2, b2)) j with
  | Some i => inr shape i /\ i = (let '(j0, j1, j2) := j in (j0 - a0, j1 - a1, j2 - a2))
  | None => ~ inr shape (let '(j0, j1, j2) := j in (j0 - a0, j1 - a1, j2 - a2))
  end.
Proof.
  intros [[n0 n1] n2] a0 b0 a1 b1 a2 b2 [[j0 j1] j2] ? ? ? ? ? ? (J0 & J1 & J2). cbn in *.
  destruct ((a0 <=? j0) && (j0 <? a0 + n0) && (a1 <=? j1) && (j1 <? a1 + n1) &&
            (a2 <=? j2) && (j2 <? a2 + n2)) eqn:E; cbn; [split; [lia|reflexivity]|lia].
Qed.

(* ------------------------------------------------------------------ permutations *)
Lemma is_perm3_cases : forall l, is_perm3 l = true ->
  perm_triple l = (0, 1, 2) \/ perm_triple l = (0, 2, 1) \/ perm_triple l = (1, 0, 2) \/
  perm_triple l = (1, 2, 0) \/ perm_triple l = (2, 0, 1) \/ perm_triple l = (2, 1, 0).
Proof.
  intros l H. destruct l as [|a [|b [|c [|? ?]]]]; try discriminate. cbn in *.
  assert (Ha : a = 0 \/ a = 1 \/ a = 2) by lia.
  assert (Hb : b = 0 \/ b = 1 \/ b = 2) by lia.
  assert (Hc : c = 0 \/ c = 1 \/ c = 2) by lia.
  destruct Ha as [-> | [-> | ->]], Hb as [-> | [-> | ->]], Hc as [-> | [-> | ->]]; cbn in H; try discriminate; tauto.
Qed.

Lemma is_perm3_iff : forall l, is_perm3 l = true <->
  exists a b c, l = [a; b; c] /\ 0 <= a <= 2 /\ 0 <= b <= 2 /\ 0 <= c <= 2 /\ a <> b /\ a <> c /\ b <> c.
Proof.
  intros l; split.
  - destruct l as [|a [|b [|c [|? ?]]]]; try discriminate. cbn. intros H.
    exists a, b, c. repeat split; lia.
  - intros (a & b & c & E1 & ?). subst l. cbn. lia.
Qed.

Lemma perm_map_inr : forall shape l j, is_perm3 l = true ->
  inr (perm_shape shape (perm_triple l)) j ->
  exists i, perm_map (perm_triple l) j = Some i /\ inr shape i.
Proof.
  intros [[n0 n1] n2] l [[j0 j1] j2] H.
  destruct (is_perm3_cases l H) as [E|[E|[E|[E|[E|E]]]]]; rewrite E; cbn; intros;
    eexists; (split; [reflexivity|]); cbn; lia.
Qed.

Lemma perm_shape_wf : forall shape l, is_perm3 l = true -> wf shape -> wf (perm_shape shape (perm_triple l)).
Proof.
  intros [[n0 n1] n2] l H.
  destruct (is_perm3_cases l H) as [E|[E|[E|[E|[E|E]]]]]; rewrite E; cbn; lia.
Qed.

(* ------------------------------------------------------------------ affine part *)
Section Ring.
Variable R : Type.
Variables (rO rI : R) (radd rmul rsub : R -> R -> R) (ropp : R -> R).
Variable Rth : ring_theory rO rI radd rmul rsub ropp (@eq R).
Add Ring Rr : Rth.
Variable inj : Z -> R.
Hypothesis inj_add : forall a b, inj (a + b) = radd (inj a) (inj b).
Hypothesis inj_mul : forall a b, inj (a * b) = rmul (inj a) (inj b).
Hypothesis inj_opp : forall a, inj (- a) = ropp (inj a).
Hypothesis inj_1 : inj 1 = rI.

Notation physR := (phys R radd rmul).
Notation dotR := (dot R radd rmul).
Notation orthoR := (ortho R rO radd rmul).

Definition physZ (A : aff R) (j : idx) : vec R :=
  let '(j0, j1, j2) := j in physR A (inj j0) (inj j1) (inj j2).

Lemma inj_0 : inj 0 = rO.
Proof.
  assert (H : inj (0 + 0) = radd (inj 0) (inj 0)) by apply inj_add. cbn in H.
  transitivity (rsub (radd (inj 0) (inj 0)) (inj 0)); [ring|rewrite <- H; ring].
Qed.

Lemma inj_sub : forall a b, inj (a - b) = rsub (inj a) (inj b).
Proof. intros. unfold Z.sub. rewrite inj_add, inj_opp. ring. Qed.

Lemma get_aff_phys : forall A p j,
  physZ (get_aff R radd rmul inj A p) j =
  physZ A (match get_map p j with Some i => i | None => j end).
Proof.
  intros A [[[f0 f1] f2] [[s0 s1] s2] n] [[j0 j1] j2]. unfold get_aff, physZ; cbn [gp_f gp_s get_map].
  rewrite (getitem_fixes_voxels R rO rI radd rmul rsub ropp Rth). rewrite !inj_add, !inj_mul. reflexivity.
Qed.

Lemma pad_aff_phys : forall A a0 b0 a1 b1 a2 b2 j0 j1 j2,
  physZ (pad_aff R radd rmul inj A ((a0, b0), (a1, b1), (a2, b2))) (j0, j1, j2) =
  physZ A (j0 - a0, j1 - a1, j2 - a2).
Proof.
  intros. unfold pad_aff, physZ. rewrite !inj_sub, !inj_opp.
  apply vec_eq; cbn; ring.
Qed.

Lemma perm_aff_phys : forall A l j, is_perm3 l = true ->
  physZ (perm_aff R A (perm_triple l)) j =
  physZ A (match perm_map (perm_triple l) j with Some i => i | None => j end).
Proof.
  intros A l [[j0 j1] j2] H.
  destruct (is_perm3_cases l H) as [E|[E|[E|[E|[E|E]]]]]; rewrite E;
    unfold perm_aff, physZ, perm_map, col; cbn; apply vec_eq; cbn; ring.
Qed.

(* ---- scaled orthogonality: pairwise orthogonal, non-zero columns *)
Definition vzero (v : vec R) : Prop := vx v = rO /\ vy v = rO /\ vz v = rO.
Definition cols_nonzero (A : aff R) : Prop := ~ vzero (c0 A) /\ ~ vzero (c1 A) /\ ~ vzero (c2 A).
Definition scaled_orthogonal (A : aff R) : Prop := orthoR A /\ cols_nonzero A.

(* the ring has no Z-torsion: true in every field of characteristic 0 *)
Hypothesis inj_regular : forall s x, s <> 0 -> rmul (inj s) x = rO -> x = rO.

Lemma get_aff_keeps : forall A p,
  (let '(s0, s1, s2) := gp_s p in s0 <> 0 /\ s1 <> 0 /\ s2 <> 0) ->
  scaled_orthogonal A -> scaled_orthogonal (get_aff R radd rmul inj A p).
Proof.
  intros A [[[f0 f1] f2] [[s0 s1] s2] n] (S0 & S1 & S2) [Ho (N0 & N1 & N2)].
  unfold get_aff; cbn [gp_f gp_s]. split.
  - apply (getitem_keeps_ortho R rO rI radd rmul rsub ropp Rth); exact Ho.
  - unfold cols_nonzero, getitem_aff, vzero, smul; cbn.
    repeat split; intros (X & Y & Z).
    + apply N0; repeat split; apply (inj_regular s0); assumption.
    + apply N1; repeat split; apply (inj_regular s1); assumption.
    + apply N2; repeat split; apply (inj_regular s2); assumption.
Qed.

Lemma pad_aff_keeps : forall A pw, scaled_orthogonal A -> scaled_orthogonal (pad_aff R radd rmul inj A pw).
Proof. intros A [[[a0 b0] [a1 b1]] [a2 b2]] H. exact H. Qed.

Lemma dot_comm : forall a b, dotR a b = dotR b a.
Proof. intros. unfold dot. ring. Qed.

Lemma perm_aff_keeps : forall A l, is_perm3 l = true ->
  scaled_orthogonal A -> scaled_orthogonal (perm_aff R A (perm_triple l)).
Proof.
  intros A l H [(H01 & H02 & H12) (N0 & N1 & N2)].
  destruct (is_perm3_cases l H) as [E|[E|[E|[E|[E|E]]]]]; rewrite E;
    unfold perm_aff, scaled_orthogonal, ortho, cols_nonzero, col; cbn;
    repeat split; auto; rewrite dot_comm; auto.
Qed.

(* ---- determinant (handedness) *)
Notation det := (det3 R radd rmul rsub).

Lemma det_get_aff : forall A p,
  det (get_aff R radd rmul inj A p) =
  (let '(s0, s1, s2) := gp_s p in rmul (rmul (rmul (inj s0) (inj s1)) (inj s2)) (det A)).
Proof.
  intros A [[[f0 f1] f2] [[s0 s1] s2] n]. unfold get_aff, det3, getitem_aff, smul; cbn. ring.
Qed.

Lemma det_swap : forall A a b, 0 <= a <= 2 -> 0 <= b <= 2 -> a <> b ->
  det (perm_aff R A (let p d := if d =? a then b else if d =? b then a else d in (p 0, p 1, p 2)))
  = ropp (det A).
Proof using Rth.
  clear inj_regular inj_opp inj_mul inj_add inj_1 inj.
  intros A a b Ha Hb Hab.
  assert (Ha' : a = 0 \/ a = 1 \/ a = 2) by lia. assert (Hb' : b = 0 \/ b = 1 \/ b = 2) by lia.
  destruct Ha' as [-> | [-> | ->]], Hb' as [-> | [-> | ->]]; try lia; unfold perm_aff, det3, col; cbn; ring.
Qed.

End Ring.
