(* C16 - property theorems.  Nothing but statements, `exact <lemma>` and Print Assumptions.
   Vocabulary (C16_Model.v): a report is `report pre gs` (arbitrary preamble items `pre` that contain no
   Imaging Measurements container, then the groups `map build gs` in document order); `build g` is the item
   skeleton the group constructors produce from the constructor-level record g; `sat f g` / `sat_image f g`
   say, on the RECORD, that g satisfies every filter of f; `good g` = the record is one the template classes
   accept (wf) and it is classifiable (template identification present, or content that TID 1410 / 1411 do not
   share). *)
From Coq Require Import String ZArith List Bool.
From HD Require Import Base.Val C16_Model C16_Proofs C16_Proofs_Acc C16_Proofs_Mixed C16_Proofs_Codes C16_Proofs_Tree
  C16_Proofs_E2E C16_Proofs_General C16_Proofs_Construct C16_Proofs_Enc C16_Proofs_Geom C16_Proofs_Meas.
Import ListNotations.
Open Scope Z_scope.

(* ---- soundness + completeness + document order, in one equation, per query ---------------------- *)
Theorem C16_query_exact_planar : forall pre gs f,
  no_im pre = true -> Forall good gs -> check_planar f = Ok tt ->
  get_planar (report pre gs) f = Ok (map build (filter (fun g => kind_eqb (g_kind g) Planar && sat f g) gs)).
Proof. exact query_exact_planar. Qed.
Print Assumptions C16_query_exact_planar.

Theorem C16_query_exact_volumetric : forall pre gs f,
  no_im pre = true -> Forall good gs -> check_volumetric f = Ok tt ->
  get_volumetric (report pre gs) f = Ok (map build (filter (fun g => kind_eqb (g_kind g) Volumetric && sat f g) gs)).
Proof. exact query_exact_volumetric. Qed.
Print Assumptions C16_query_exact_volumetric.

Theorem C16_query_exact_image : forall pre gs f,
  no_im pre = true -> Forall good gs ->
  get_image (report pre gs) f = Ok (map build (filter (fun g => kind_eqb (g_kind g) ImageK && sat_image f g) gs)).
Proof. exact query_exact_image. Qed.
Print Assumptions C16_query_exact_image.

(* ---- the same equations for reports as third parties write them: arbitrary items before and after the
        Imaging Measurements container (only the FIRST such container is searched) and foreign items
        (anything that is not a CONTAINER named Measurement Group) between the groups ------------------- *)
Theorem C16_query_exact_planar_mixed : forall pre xs post f,
  no_im pre = true -> others_ok xs = true -> Forall good (groups_of xs) -> check_planar f = Ok tt ->
  get_planar (report_mixed pre xs post) f
  = Ok (map build (filter (fun g => kind_eqb (g_kind g) Planar && sat f g) (groups_of xs))).
Proof. exact query_exact_planar_mixed. Qed.
Print Assumptions C16_query_exact_planar_mixed.

Theorem C16_query_exact_volumetric_mixed : forall pre xs post f,
  no_im pre = true -> others_ok xs = true -> Forall good (groups_of xs) -> check_volumetric f = Ok tt ->
  get_volumetric (report_mixed pre xs post) f
  = Ok (map build (filter (fun g => kind_eqb (g_kind g) Volumetric && sat f g) (groups_of xs))).
Proof. exact query_exact_volumetric_mixed. Qed.
Print Assumptions C16_query_exact_volumetric_mixed.

Theorem C16_query_exact_image_mixed : forall pre xs post f,
  no_im pre = true -> others_ok xs = true -> Forall good (groups_of xs) ->
  get_image (report_mixed pre xs post) f
  = Ok (map build (filter (fun g => kind_eqb (g_kind g) ImageK && sat_image f g) (groups_of xs))).
Proof. exact query_exact_image_mixed. Qed.
Print Assumptions C16_query_exact_image_mixed.

(* the guard `classifiable` is necessary: untyped content shared by TID 1410 and TID 1411 is
   returned by the wrong / by both queries *)
Theorem C16_unclassifiable_refuted :
  wf amb_single_region = true /\
  get_volumetric (report [] [amb_single_region]) nofilt = Ok [] /\
  get_planar (report [] [amb_single_region]) nofilt = Ok [build amb_single_region] /\
  wf amb_region_in_space = true /\
  get_volumetric (report [] [amb_region_in_space]) nofilt = Ok [build amb_region_in_space] /\
  get_planar (report [] [amb_region_in_space]) nofilt = Ok [build amb_region_in_space].
Proof. exact unclassifiable_refuted. Qed.
Print Assumptions C16_unclassifiable_refuted.

(* ---- refusals ------------------------------------------------------------------------------------- *)
(* a query errs exactly when its argument check errs (any report of good groups), with that error *)
Theorem C16_refusal_iff_planar : forall pre gs f e, no_im pre = true -> Forall good gs ->
  (get_planar (report pre gs) f = Err e <-> check_planar f = Err e).
Proof. intros pre gs f e. exact (planar_refusal_iff pre gs f e). Qed.
Print Assumptions C16_refusal_iff_planar.

Theorem C16_refusal_iff_volumetric : forall pre gs f e, no_im pre = true -> Forall good gs ->
  (get_volumetric (report pre gs) f = Err e <-> check_volumetric f = Err e).
Proof. intros pre gs f e. exact (volumetric_refusal_iff pre gs f e). Qed.
Print Assumptions C16_refusal_iff_volumetric.

(* filter combinations that can apply to no reference kind of the query are refused, whatever the report *)
Theorem C16_incompatible_filters_refused : forall root f, gfilter_in_enum (f_gt f) = true ->
  (can_apply Planar f = false -> exists e, get_planar root f = Err e) /\
  (can_apply Volumetric f = false -> exists e, get_volumetric root f = Err e).
Proof. exact incompatible_filters_refused. Qed.
Print Assumptions C16_incompatible_filters_refused.

(* ---- accessors: a group reports what it was constructed with ------------------------------------------- *)
Theorem C16_accessors_identity : forall g mname ename, wf g = true ->
  acc_tracking_uid (build g) = Some (g_tuid g) /\
  acc_tracking_identifier (build g) = Some (g_tid g) /\
  acc_finding_type (build g) = g_finding g /\
  acc_finding_category (build g) = g_category g /\
  acc_method (build g) = g_method g /\
  acc_finding_sites (build g) = g_sites g /\
  acc_measurements (build g) None = g_meas g /\
  acc_evaluations (build g) None = g_evals g /\
  acc_measurements (build g) (Some mname) = filter (fun m => fst m =? mname) (g_meas g) /\
  acc_evaluations (build g) (Some ename) = filter (fun e => fst e =? ename) (g_evals g).
Proof. exact accessors_identity. Qed.
Print Assumptions C16_accessors_identity.

Theorem C16_accessors_identity_planar : forall g, wf g = true -> g_kind g = Planar ->
  acc_reference_type allowed_planar (build g) = Ok (ref_code (g_ref g)) /\
  acc_planar_roi (build g) = planar_roi_of (g_ref g) /\
  acc_segframe (build g) = Ok (segframe_of (g_ref g)).
Proof. exact accessors_identity_planar. Qed.
Print Assumptions C16_accessors_identity_planar.

Theorem C16_accessors_identity_volumetric : forall g, wf g = true -> g_kind g = Volumetric ->
  acc_reference_type allowed_volumetric (build g) = Ok (ref_code (g_ref g)) /\
  acc_vol_roi (build g) = Ok (vol_roi_of (g_ref g)) /\
  acc_segment (build g) = Ok (segment_of (g_ref g)).
Proof. exact accessors_identity_volumetric. Qed.
Print Assumptions C16_accessors_identity_volumetric.

Theorem C16_accessors_identity_image : forall g, wf g = true -> g_kind g = ImageK ->
  acc_source_images (build g) = match g_ref g with SourceImgs l => l | _ => [] end.
Proof. exact acc_source_images_build. Qed.
Print Assumptions C16_accessors_identity_image.

(* ---- coded concepts: the integer a CODE value / filter stands for is the key of (code value, coding scheme
        designator, coding scheme version); on the range used the key is injective, so the integer comparison
        of the model is exactly the comparison pydicom Code.__eq__ / highdicom CodedConcept.__eq__ make, a
        code WITH a scheme version included: it matches the identical versioned code and neither the
        un-versioned one nor another version ------------------------------------------------------------- *)
Theorem C16_code_key_is_code_equality : forall a b, cc_ok a = true -> cc_ok b = true ->
  (cc_key a =? cc_key b) = cc_eqb a b /\ (cc_key a = cc_key b -> a = b).
Proof. intros a b Ha Hb. split; [exact (cc_key_eqb a b Ha Hb) | exact (cc_key_inj a b Ha Hb)]. Qed.
Print Assumptions C16_code_key_is_code_equality.

Theorem C16_code_version_distinguishes : forall v s k k',
  cc_eqb (CC v s (Some k)) (CC v s None) = false /\
  cc_eqb (CC v s None) (CC v s (Some k)) = false /\
  (k <> k' -> cc_eqb (CC v s (Some k)) (CC v s (Some k')) = false) /\
  cc_eqb (CC v s (Some k)) (CC v s (Some k)) = true.
Proof. exact cc_version_distinguishes. Qed.
Print Assumptions C16_code_version_distinguishes.

(* the exactness equations read on coded concepts: cf g / cs g are the finding type / finding sites group g
   was constructed with, ffind / fsite the codes given as filters; `sat_cc` compares them with cc_eqb *)
Theorem C16_query_exact_planar_coded : forall pre gs f ffind fsite cf cs,
  no_im pre = true -> Forall good gs -> check_planar f = Ok tt ->
  coded_filter f ffind fsite -> (forall g, In g gs -> coded_group g (cf g) (cs g)) ->
  get_planar (report pre gs) f
  = Ok (map build (filter (fun g => kind_eqb (g_kind g) Planar && sat_cc f ffind fsite cf cs g) gs)).
Proof. exact query_exact_planar_coded. Qed.
Print Assumptions C16_query_exact_planar_coded.

Theorem C16_query_exact_volumetric_coded : forall pre gs f ffind fsite cf cs,
  no_im pre = true -> Forall good gs -> check_volumetric f = Ok tt ->
  coded_filter f ffind fsite -> (forall g, In g gs -> coded_group g (cf g) (cs g)) ->
  get_volumetric (report pre gs) f
  = Ok (map build (filter (fun g => kind_eqb (g_kind g) Volumetric && sat_cc f ffind fsite cf cs g) gs)).
Proof. exact query_exact_volumetric_coded. Qed.
Print Assumptions C16_query_exact_volumetric_coded.

Theorem C16_query_exact_image_coded : forall pre gs f ffind fsite cf cs,
  no_im pre = true -> Forall good gs ->
  coded_filter f ffind fsite -> (forall g, In g gs -> coded_group g (cf g) (cs g)) ->
  get_image (report pre gs) f
  = Ok (map build (filter (fun g => kind_eqb (g_kind g) ImageK && sat_image_cc f ffind fsite cf cs g) gs)).
Proof. exact query_exact_image_coded. Qed.
Print Assumptions C16_query_exact_image_coded.

(* non-vacuity: four planar groups whose finding is the same code value un-versioned, in version 0, in
   version 1 and in another scheme; the filter "version 0" returns the second one only, the un-versioned
   filter the first one only *)
Definition ex_cc (s : Z) (ver : option Z) : ccode := CC 110 s ver.
Definition ex_cgs : list group :=
  map (fun '(tid, c) => Group Planar 1 tid None (Some (cc_key c)) None [cc_key c] (Region2D 4 0 3) [] [] None None None true)
      [(1000, ex_cc 0 None); (1001, ex_cc 0 (Some 0)); (1002, ex_cc 0 (Some 1)); (1003, ex_cc 1 (Some 0))].
Example C16_coded_nonvacuous :
  Forall good ex_cgs /\
  coded_filter (Filt None (Some (ck 110 0 (Some 0))) (Some (ck 110 0 (Some 0))) None GNone None None)
               (Some (ex_cc 0 (Some 0))) (Some (ex_cc 0 (Some 0))) /\
  positions (get_planar (report [] ex_cgs) (Filt None (Some (ck 110 0 (Some 0))) None None GNone None None))
    = VL [VZ 1001] /\
  positions (get_planar (report [] ex_cgs) (Filt None None (Some (ck 110 0 (Some 1))) None GNone None None))
    = VL [VZ 1002] /\
  positions (get_planar (report [] ex_cgs) (Filt None (Some 110) None None GNone None None)) = VL [VZ 1000] /\
  positions (get_planar (report [] ex_cgs) (Filt None (Some (ck 110 1 None)) None None GNone None None)) = VL [].
Proof. repeat split; try (repeat constructor); vm_compute; reflexivity. Qed.
Print Assumptions C16_coded_nonvacuous.

(* ---- non-vacuity: a concrete mixed report satisfies the hypotheses, the answer is neither empty nor total -- *)
Definition ex_gs : list group :=
  [ Group Planar 1 1000 (Some 100) (Some 110) None [130; 131] (Region2D 4 0 3) [(140, 7)] [(150, 160)] (Some 170) (Some 180) None true;
    Group Volumetric 1 1001 None (Some 110) None [130] (Regions [(3, (1, 1)); (3, (2, 2))]) [] [] None None None false;
    Group Planar 2 1002 None (Some 111) None [] (SegFrame 3 11 0 3) [] [(151, 161)] None None None false;
    Group ImageK 1 1003 None None None [] (SourceImgs [(0, 3)]) [(141, 2)] [] None None None true;
    Group Volumetric 3 1004 None None (Some 120) [] (Surface 6 1 (SrcSeries 2)) [] [] None None None false;
    Group Planar 1 1005 None (Some 110) None [131] (RegionInSpace 4 21) [] [] None None None true ].
Definition ex_f : filt := Filt (Some 1) (Some 110) None (Some cImageRegion) (G2 4) (Some 3) (Some 0).

Example C16_nonvacuous :
  Forall good ex_gs /\ no_im [leaf 31 CODE HAS_CONCEPT_MOD 32 0] = true /\ check_planar ex_f = Ok tt /\
  map acc_tracking_identifier
      match get_planar (report [leaf 31 CODE HAS_CONCEPT_MOD 32 0] ex_gs) ex_f with Ok l => l | Err _ => [] end
  = [Some 1000] /\
  positions (get_planar (report [] ex_gs) nofilt) = VL [VZ 1000; VZ 1002; VZ 1005] /\
  positions (get_volumetric (report [] ex_gs) nofilt) = VL [VZ 1001; VZ 1004] /\
  positions (get_image (report [] ex_gs) nofilt) = VL [VZ 1003] /\
  can_apply Volumetric (Filt None None None (Some cVolumeSurface) GNone (Some 3) None) = false /\
  can_apply Planar (Filt None None None (Some cRefSegFrame) (G2 4) None None) = false.
Proof. repeat split; try (repeat constructor); vm_compute; reflexivity. Qed.
Print Assumptions C16_nonvacuous.

(* the observation of the correspondence run (tracking identifiers of the three answers) is the spec *)
Theorem C16_run_queries_exact : forall pre gs f, no_im pre = true -> Forall good gs ->
  check_planar f = Ok tt -> check_volumetric f = Ok tt ->
  run_queries pre gs f =
  VL [VL (map (fun g => VZ (g_tid g)) (filter (fun g => kind_eqb (g_kind g) Planar && sat f g) gs));
      VL (map (fun g => VZ (g_tid g)) (filter (fun g => kind_eqb (g_kind g) Volumetric && sat f g) gs));
      VL (map (fun g => VZ (g_tid g)) (filter (fun g => kind_eqb (g_kind g) ImageK && sat_image f g) gs))].
Proof. exact run_queries_exact. Qed.
Print Assumptions C16_run_queries_exact.

(* ==== the property sentence as one statement ======================================================================
   `query k` is the query of kind k, `qcheck k f` its argument check, `satk k` = sat (ROI queries) / sat_image;
   `spec_acc k g mname ename` is what every accessor the correspondence run observes (tracking uid / identifier,
   finding type / category, method, sites, measurements and evaluations with and without name, reference type,
   roi, referenced segmentation frame / segment with sources, source images) must show for a group constructed as
   the RECORD g.  The answer is exactly the groups of kind k satisfying every filter, in document order, and every
   returned group reports what it was constructed with. *)
Theorem C16_end_to_end : forall k pre gs f mname ename,
  no_im pre = true -> Forall good gs -> qcheck k f = Ok tt ->
  let answer := filter (fun g => kind_eqb (g_kind g) k && satk k f g) gs in
  query k (report pre gs) f = Ok (map build answer) /\
  map (fun it => acc_val k it mname ename) (map build answer) = map (fun g => spec_acc k g mname ename) answer.
Proof. exact end_to_end. Qed.
Print Assumptions C16_end_to_end.

Theorem C16_end_to_end_mixed : forall k pre xs post f mname ename,
  no_im pre = true -> others_ok xs = true -> Forall good (groups_of xs) -> qcheck k f = Ok tt ->
  let answer := filter (fun g => kind_eqb (g_kind g) k && satk k f g) (groups_of xs) in
  query k (report_mixed pre xs post) f = Ok (map build answer) /\
  map (fun it => acc_val k it mname ename) (map build answer) = map (fun g => spec_acc k g mname ename) answer.
Proof. exact end_to_end_mixed. Qed.
Print Assumptions C16_end_to_end_mixed.

(* the accessor observation of the correspondence run is the record-level specification *)
Theorem C16_run_accessors_exact : forall pre gs mname ename, no_im pre = true -> Forall good gs ->
  run_accessors pre gs mname ename =
  VL (map (fun k => VL (map (fun g => spec_acc k g mname ename) (filter (fun g => kind_eqb (g_kind g) k) gs)))
          [Planar; Volumetric; ImageK]).
Proof. exact run_accessors_exact. Qed.
Print Assumptions C16_run_accessors_exact.

(* ==== ANY content tree (third-party / malformed reports): no hypothesis on `root` =================================
   is_group g = CONTAINER named Measurement Group; of_kind k g = template identification says k, or (no template
   identification) the ROI content says k; ref_test k f g = the reference-type / graphic-type / referenced-UID
   filters of query k on g; passes (gtest k f) g = the per-group test of query k answers True. *)
(* group discovery: CONTAINERs named Measurement Group among the children of the FIRST Imaging Measurements
   container, in document order *)
Theorem C16_any_tree_groups : forall root,
  find_measurement_groups root =
  match filter is_im (kids root) with
  | [] => []
  | im :: _ => filter (fun i => (nm i =? cMeasurementGroup) && vt_eqb (vt i) CONTAINER) (kids im)
  end.
Proof. exact found_groups_spec. Qed.
Print Assumptions C16_any_tree_groups.

(* whenever a query answers: document order + soundness (kind and every filter) + completeness *)
Theorem C16_any_tree_exact : forall k root f l, query k root f = Ok l ->
  l = filter (passes (gtest k f)) (find_measurement_groups root) /\
  (forall g, In g l -> is_group g /\ of_kind k g = true /\ common_matches f g = true /\ ref_test k f g = Ok true) /\
  (forall g, In g (find_measurement_groups root) ->
     of_kind k g = true -> common_matches f g = true -> ref_test k f g = Ok true -> In g l).
Proof. exact any_tree_exact. Qed.
Print Assumptions C16_any_tree_exact.

(* the unfiltered queries never raise and classify *)
Theorem C16_any_tree_unfiltered : forall k root,
  query k root nofilt = Ok (filter (of_kind k) (find_measurement_groups root)).
Proof. exact any_tree_unfiltered. Qed.
Print Assumptions C16_any_tree_unfiltered.

(* filters only remove groups *)
Theorem C16_any_tree_monotone : forall k root f l, query k root f = Ok l ->
  exists l0, query k root nofilt = Ok l0 /\ l = filter (passes (gtest k f)) l0.
Proof. exact any_tree_monotone. Qed.
Print Assumptions C16_any_tree_monotone.

(* never a group of another kind: answers of different queries share no group, except an UNTYPED group
   returned by both ROI queries (TID 1410 / 1411 overlap, cf. C16_unclassifiable_refuted) *)
Theorem C16_any_tree_disjoint : forall root f1 f2 l1 l2 k1 k2,
  query k1 root f1 = Ok l1 -> query k2 root f2 = Ok l2 ->
  forall g, In g l1 -> In g l2 -> k1 = k2 \/ (tmpl g = None /\ k1 <> ImageK /\ k2 <> ImageK).
Proof. exact any_tree_disjoint. Qed.
Print Assumptions C16_any_tree_disjoint.

(* which errors: the argument refusal, or RuntimeError - only a ROI query with a reference filter, at a group
   of its kind whose ROI reference is malformed; the image query never raises *)
Theorem C16_any_tree_errors : forall k root f e, query k root f = Err e ->
  qcheck k f = Err e \/
  (qcheck k f = Ok tt /\ e = "RuntimeError"%string /\ k <> ImageK /\
   (isSome (f_reftype f) || gt_given f || uid_given f = true) /\
   exists g, In g (find_measurement_groups root) /\ of_kind k g = true /\ ref_test k f g = Err e).
Proof. exact any_tree_errors. Qed.
Print Assumptions C16_any_tree_errors.

Theorem C16_image_query_total : forall root f, exists l, get_image root f = Ok l.
Proof. exact image_query_total. Qed.
Print Assumptions C16_image_query_total.

(* the reference loop of _get_roi_reference_items in closed form, for ANY group: all candidate items (CONTAINS,
   allowed name, value type expected for that name) in document order; refused when there is none, when two
   differ in name, or when there are several of a name other than Image Region / Volume Surface *)
Theorem C16_roi_reference_loop : forall g allowed,
  get_roi_reference_items g allowed =
  match cands allowed g with
  | [] => Err "RuntimeError"%string
  | c :: rest => if refs_ok (nm c) rest then Ok (nm c, c :: rest) else Err "RuntimeError"%string
  end.
Proof. exact roi_reference_spec. Qed.
Print Assumptions C16_roi_reference_loop.

Theorem C16_planar_reference_item : forall g,
  get_planar_ref_item g = match cands allowed_planar g with [c] => Ok (nm c, c) | _ => Err "RuntimeError"%string end.
Proof. exact planar_reference_spec. Qed.
Print Assumptions C16_planar_reference_item.

Theorem C16_ref_test_raises_iff : forall k f g, isSome (f_reftype f) || gt_given f || uid_given f = true ->
  ((exists e, ref_test k f g = Err e) <-> refs_malformed k g = true).
Proof. exact ref_test_raises_iff. Qed.
Print Assumptions C16_ref_test_raises_iff.

Example C16_any_tree_nonvacuous :
  positions (query Planar damaged_root nofilt) = VL [VZ 1000; VZ 1001] /\
  positions (query Volumetric damaged_root nofilt) = VL [] /\
  positions (query ImageK damaged_root nofilt) = VL [VZ 1002] /\
  query Planar damaged_root (Filt None None None (Some cRefSegFrame) GNone None None) = Err "RuntimeError"%string /\
  positions (query Planar damaged_root (Filt None None None None GNone None None)) = VL [VZ 1000; VZ 1001] /\
  positions (query ImageK damaged_root (Filt None None None None GNone (Some 3) None)) = VL [VZ 1002].
Proof. exact any_tree_nonvacuous. Qed.
Print Assumptions C16_any_tree_nonvacuous.

(* ==== refusals characterised: a filter combination is refused EXACTLY when it can apply to no reference kind of
   the query (strengthens C16_incompatible_filters_refused to an equivalence) - with one exception, which is real:
   the planar query refuses graphic type 3D POLYLINE although a planar group on such a region can be built ==== *)
Theorem C16_refusals_characterised : forall f, gfilter_in_enum (f_gt f) = true ->
  ((exists e, check_planar f = Err e) <-> (can_apply Planar f = false \/ f_gt f = G3 3)) /\
  ((exists e, check_volumetric f = Err e) <-> can_apply Volumetric f = false).
Proof. exact refusals_characterised. Qed.
Print Assumptions C16_refusals_characterised.

Theorem C16_planar_polyline3d_overstrict :
  good polyline3d_group /\ can_apply Planar polyline3d_filter = true /\ sat polyline3d_filter polyline3d_group = true /\
  get_planar (report [] [polyline3d_group]) polyline3d_filter = Err "ValueError"%string.
Proof. exact planar_polyline3d_overstrict. Qed.
Print Assumptions C16_planar_polyline3d_overstrict.

(* ==== exactness WITHOUT the classifiability guard: every report of records the template classes accept (wfp g :=
   wf g = true), typed or not, ambiguous content included.  eff_kind k g = the constructed kind is k when the
   container carries template identification; otherwise what the ROI content says (one image region, a segmentation
   frame or a region in space: planar; two or more regions, a segment, a volume surface or a region in space:
   volumetric; neither: image).  C16_query_exact_planar / _volumetric / _image are the special case classifiable
   (first clause of C16_effective_kind); the other clauses: every record is seen by some query, an image group by
   no other, and by both ROI queries only an untyped region in space. ==== *)
Theorem C16_query_exact_general : forall k pre gs f, no_im pre = true -> Forall wfp gs -> qcheck k f = Ok tt ->
  query k (report pre gs) f = Ok (map build (filter (fun g => eff_kind k g && satk k f g) gs)).
Proof. exact query_exact_general. Qed.
Print Assumptions C16_query_exact_general.

Theorem C16_effective_kind : forall g, wf g = true ->
  (classifiable g = true -> forall k, eff_kind k g = kind_eqb (g_kind g) k) /\
  eff_kind Planar g || eff_kind Volumetric g || eff_kind ImageK g = true /\
  (eff_kind ImageK g = true -> eff_kind Planar g = false /\ eff_kind Volumetric g = false) /\
  (eff_kind Planar g = true -> eff_kind Volumetric g = true ->
   g_has_tid g = false /\ exists c i, g_ref g = RegionInSpace c i).
Proof. exact effective_kind. Qed.
Print Assumptions C16_effective_kind.

Example C16_general_nonvacuous :
  Forall wfp amb_gs /\
  map (eff_kind Planar) amb_gs = [true; true; false] /\ map (eff_kind Volumetric) amb_gs = [false; true; true] /\
  positions (query Planar (report [] amb_gs) (Filt (Some 1) (Some 110) None None (G2 4) None None)) = VL [VZ 1000] /\
  positions (query Volumetric (report [] amb_gs) (Filt None (Some 110) None None GNone None (Some 4))) = VL [VZ 1001] /\
  positions (query Volumetric (report [] amb_gs) (Filt None (Some 110) None None GNone None None)) = VL [VZ 1001; VZ 1002].
Proof. exact general_nonvacuous. Qed.
Print Assumptions C16_general_nonvacuous.

(* ==== the premise `wf` / `ref_ok` against the CONSTRUCTORS: construct_planar / construct_volumetric are the argument
   checks of the two ROI template classes on objects built by make_obj (ReferencedSegment / VolumeSurface argument
   checks included); cp_spec / cv_spec = objects first, then the group (what run_construct_* observe).  Every accepted
   construction yields a reference ref_ok describes; every reference ref_ok describes is constructible (a region in
   space apart); so every group the template classes build is a record the theorems speak about and reports the
   reference it was constructed with (full since fix D107; the three former counterexamples are refused). ==== *)
Theorem C16_construct_planar_sound : forall region segment r,
  construct_planar region segment = Ok r -> ref_ok Planar r = true.
Proof. exact construct_planar_sound. Qed.
Print Assumptions C16_construct_planar_sound.

Theorem C16_construct_volumetric_sound : forall regions surface segment r,
  cv_spec regions surface segment = Ok (Ok r) -> ref_ok Volumetric r = true.
Proof. exact construct_volumetric_sound. Qed.
Print Assumptions C16_construct_volumetric_sound.

Theorem C16_construct_complete : forall k r, ref_ok k r = true -> constructible r ->
  match k with
  | Planar => exists region segment, cp_spec region segment = Ok (Ok r)
  | Volumetric => exists regions surface segment, cv_spec regions surface segment = Ok (Ok r)
  | ImageK => True
  end.
Proof. exact construct_complete. Qed.
Print Assumptions C16_construct_complete.

Theorem C16_constructed_group_good : forall k r,
  match k with
  | Planar => exists region segment, cp_spec region segment = Ok (Ok r)
  | Volumetric => exists regions surface segment, cv_spec regions surface segment = Ok (Ok r)
  | ImageK => False
  end -> good (bare_group k r).
Proof. exact constructed_group_good. Qed.
Print Assumptions C16_constructed_group_good.

(* a group the constructors accept reports the reference it was constructed with (false before fix D107) *)
Theorem C16_constructed_reference_reported : forall regions surface segment r,
  cv_spec regions surface segment = Ok (Ok r) ->
  acc_reference_type allowed_volumetric (build (bare_group Volumetric r)) = Ok (ref_code r) /\
  acc_vol_roi (build (bare_group Volumetric r)) = Ok (vol_roi_of r) /\
  acc_segment (build (bare_group Volumetric r)) = Ok (segment_of r).
Proof. exact constructed_reference_reported. Qed.
Print Assumptions C16_constructed_reference_reported.

Theorem C16_constructed_reference_reported_planar : forall region segment r,
  cp_spec region segment = Ok (Ok r) ->
  acc_reference_type allowed_planar (build (bare_group Planar r)) = Ok (ref_code r) /\
  acc_planar_roi (build (bare_group Planar r)) = planar_roi_of r /\
  acc_segframe (build (bare_group Planar r)) = Ok (segframe_of r).
Proof. exact constructed_reference_reported_planar. Qed.
Print Assumptions C16_constructed_reference_reported_planar.

Example C16_former_counterexamples_refused :
  cv_spec None None (Some (SpSegment 3 11 (SrcArg (Some []) None))) = Err "ValueError"%string /\
  cv_spec None (Some (SpSurface 6 1 (SrcArg (Some []) None))) None = Err "ValueError"%string /\
  cv_spec None (Some (SpSurface 1 0 (SrcArg None (Some 2)))) None = Err "ValueError"%string /\
  cv_spec None None (Some (SpSegment 3 11 (SrcArg (Some []) (Some 2)))) = Err "ValueError"%string /\
  (exists r, cv_spec None None (Some (SpSegment 3 11 (SrcArg (Some [(0, 3)]) None))) = Ok (Ok r)).
Proof. exact former_counterexamples_refused. Qed.
Print Assumptions C16_former_counterexamples_refused.

(* ---- measurement VALUES, also after the report went through DICOM encoding ------------------------------------
   Vocabulary: a NUM item carries Numeric Value (v1; VR DS: once encoded, the number its decimal string of at most
   16 characters says) and optionally Floating Point Value (v2 = fp_code x; 0 = absent).  `map_num fn` rewrites
   these two numbers on every NUM item of a tree; `encode trunc` = what writing + reading a data set does
   (Numeric Value x comes back as trunc x, for ANY function trunc); `with_fp fl` = what sr.Measurement writes for
   the values fl (Python floats, ints of more than 16 characters).  `built fl trunc g` = encode trunc (with_fp fl (build g)). *)

(* NumContentItem.value: the exact attribute has precedence; without it the value is Numeric Value *)
Theorem C16_value_prefers_floating_point :
  (forall n v r a x t k, num_value (Item n v r a (fp_code x) t k) = x) /\
  (forall i, v2 i = 0 -> num_value i = v1 i).
Proof. exact (conj num_value_prefers_fp num_value_nofp). Qed.
Print Assumptions C16_value_prefers_floating_point.

(* ANY tree, ANY rewriting of the numbers of its NUM items: every query returns the same groups (rewritten) in the
   same order, or the same error - group selection, filters and refusals cannot depend on measurement values *)
Theorem C16_queries_blind_to_numbers : forall fn k root f,
  query k (map_num fn root) f = on_items fn (query k root f).
Proof. exact query_M. Qed.
Print Assumptions C16_queries_blind_to_numbers.

(* ... and every accessor other than get_measurements shows the same (groups in which no child of a child is a
   NUM item: the two roi accessors read the first child of an image region whatever its value type) *)
Theorem C16_accessors_blind_to_numbers : forall fn k g mname ename, grandkids_not_num g ->
  (forall name, acc_measurements (map_num fn g) name = acc_measurements g name) ->
  acc_val k (map_num fn g) mname ename = acc_val k g mname ename.
Proof. exact acc_val_M. Qed.
Print Assumptions C16_accessors_blind_to_numbers.

(* ANY group of ANY tree, ANY behaviour of the DS string: get_measurements (all / by name) reports after encoding
   what it reported before, provided every measurement whose Numeric Value the string does not represent exactly
   carries Floating Point Value *)
Theorem C16_measurements_survive_encoding : forall trunc g name,
  (forall i, In i (kids g) -> vt_eqb (vt i) NUM = true -> v2 i <> 0 \/ trunc (v1 i) = v1 i) ->
  acc_measurements (encode trunc g) name = acc_measurements g name.
Proof. exact measurements_survive_encoding. Qed.
Print Assumptions C16_measurements_survive_encoding.

(* the precedence is necessary: an accessor that prefers Numeric Value reports another value after encoding although
   the measurement carries Floating Point Value (the regression class `value read from the lossy attribute`) *)
Theorem C16_numeric_value_first_refuted :
  let alt g := map (fun i => (nm i, v1 i)) (find_items (kids g) None (Some NUM) None) in
  (forall i, In i (kids third_g) -> vt_eqb (vt i) NUM = true -> v2 i <> 0) /\
  alt (encode (fun _ => 33) third_g) <> alt third_g /\
  acc_measurements (encode (fun _ => 33) third_g) None = acc_measurements third_g None /\
  acc_measurements third_g None = [(140, 33333)].
Proof. exact numeric_value_first_refuted. Qed.
Print Assumptions C16_numeric_value_first_refuted.

(* the property sentence for a report that went through DICOM encoding: for every query kind, every report of good
   records (measurement values = the doubles float(value) of the numbers given), every accepted filter combination,
   `fl` = the values for which the constructor writes Floating Point Value (floats, ints of more than 16 characters)
   and every DS behaviour `trunc` that is exact where none is written (ints of at most 16 characters, written digit
   by digit), the query on the ENCODED report returns exactly the groups of its kind satisfying every filter, in
   document order, and every returned group shows through every accessor what its record says - the measurement
   values included.  No premise on the values of the report is left (fix D111). *)
Theorem C16_end_to_end_encoded : forall fl trunc k pre gs f mname ename,
  no_im pre = true -> Forall good gs -> qcheck k f = Ok tt -> (forall x, fl x = false -> trunc x = x) ->
  let answer := filter (fun g => kind_eqb (g_kind g) k && satk k f g) gs in
  query k (encode trunc (with_fp fl (report pre gs))) f = Ok (map (built fl trunc) answer) /\
  map (fun it => acc_val k it mname ename) (map (built fl trunc) answer)
  = map (fun g => spec_acc k g mname ename) answer.
Proof. exact end_to_end_encoded_constructed. Qed.
Print Assumptions C16_end_to_end_encoded.

(* the general form (any fl, any trunc): it suffices that each value OF THE REPORT carries Floating Point Value or
   has an exact DS string *)
Theorem C16_end_to_end_encoded_general : forall fl trunc k pre gs f mname ename,
  no_im pre = true -> Forall good gs -> qcheck k f = Ok tt -> Forall (values_ok fl trunc) gs ->
  let answer := filter (fun g => kind_eqb (g_kind g) k && satk k f g) gs in
  query k (encode trunc (with_fp fl (report pre gs))) f = Ok (map (built fl trunc) answer) /\
  map (fun it => acc_val k it mname ename) (map (built fl trunc) answer)
  = map (fun g => spec_acc k g mname ename) answer.
Proof. exact end_to_end_encoded. Qed.
Print Assumptions C16_end_to_end_encoded_general.

(* and the condition on the DS string cannot be dropped: without Floating Point Value a rounded string is what comes
   back (ints of more than 16 characters before fix D111) *)
Theorem C16_ds_premise_needed :
  let g := Group ImageK 1 1000 None None None [] (SourceImgs []) [(140, 33333)] [] None None None true in
  good g /\ acc_measurements (built (fun _ => false) (fun _ => 33) g) None = [(140, 33)] /\
  acc_measurements (built (fun _ => true) (fun _ => 33) g) None = [(140, 33333)].
Proof. exact ds_premise_needed. Qed.
Print Assumptions C16_ds_premise_needed.

(* the observation of the correspondence run for encoded reports = the one for the report that never was *)
Theorem C16_run_accessors_enc_exact : forall floats tbl pre gs mname ename, no_im pre = true -> Forall good gs ->
  Forall (values_ok (fun x => mem x floats) (tbl_fun tbl)) gs ->
  run_accessors_enc floats tbl pre gs mname ename = run_accessors pre gs mname ename.
Proof. exact run_accessors_enc_exact. Qed.
Print Assumptions C16_run_accessors_enc_exact.

Example C16_encoded_nonvacuous :
  good enc_group /\ values_ok (fun x => mem x [33333]) (tbl_fun [(33333, 33)]) enc_group /\
  run_accessors_enc [33333] [(33333, 33)] [] [enc_group] None None = run_accessors [] [enc_group] None None /\
  run_accessors_enc [] [(33333, 33)] [] [enc_group] None None <> run_accessors [] [enc_group] None None.
Proof. exact encoded_nonvacuous. Qed.
Print Assumptions C16_encoded_nonvacuous.

(* ==== REGION GEOMETRY: a returned group reports the coordinates its region(s) were constructed with ==================
   An array is the list of its rows (coordinates are abstract integers, injective keys of doubles); `flatten_rows a`
   is the GraphicData ScoordContentItem / Scoord3DContentItem.__init__ store for the LOGICAL n x d array a - row by
   row, whatever the memory layout / strides / dtype of the ndarray that carried it (those are outside the model and
   exercised by the correspondence run) - and `reshape_rows d` is what `value` makes of GraphicData.  rows_ok d a:
   every row has d entries. *)
Theorem C16_geometry_roundtrip : forall (trunc : Z -> Z) d (a : coords), d <> 0%nat -> rows_ok d a = true ->
  reshape_rows d (flatten_rows a) = Ok a /\
  reshape_rows d (map trunc (flatten_rows a)) = Ok (map (map trunc) a).
Proof. intros trunc d a Hd Ha. split; [exact (reshape_flatten d a Hd Ha) | exact (reshape_map_flatten trunc d a Hd Ha)]. Qed.
Print Assumptions C16_geometry_roundtrip.

(* the observation of the correspondence run (accessors + geometry of every group the unfiltered queries return) is
   the record-level specification: the groups of each kind in document order, each with what its record says and,
   per coordinate-bearing reference item, the stored GraphicData = the rows one after the other and value = the array
   it was constructed with; in an encoded report every coordinate rounded by tbl32 (Graphic Data has VR FL, 2D and 3D).
   gitem_ok: positive dimension, every row of that length. *)
Theorem C16_run_accessors_geom_exact : forall tbl32 pre (ggs : list (group * list gitem)) mname ename,
  no_im pre = true -> Forall good (map fst ggs) -> NoDup (map (fun p => g_tid (fst p)) ggs) ->
  Forall (fun p => forallb gitem_ok (snd p) = true) ggs ->
  run_accessors_geom tbl32 pre ggs mname ename =
  VL (map (fun k => VL (map (fun p => VL [spec_acc k (fst p) mname ename;
                                          VL (map (spec_gitem (tbl_fun tbl32)) (snd p))])
                            (filter (fun p => kind_eqb (g_kind (fst p)) k) ggs)))
          [Planar; Volumetric; ImageK]).
Proof. exact run_accessors_geom_exact. Qed.
Print Assumptions C16_run_accessors_geom_exact.

(* in memory (empty table) the group reports exactly the arrays it was constructed with *)
Theorem C16_geometry_in_memory : forall x,
  spec_gitem (tbl_fun []) x = let 'GI d aux a := x in VL [VZ (Z.of_nat d); VZ aux; vz_list (concat a); vz_list2 a].
Proof. exact spec_gitem_mem. Qed.
Print Assumptions C16_geometry_in_memory.

(* the row-major order is necessary: storing a two-point array column by column (a memory-order walk of a
   Fortran-ordered ndarray) makes `value` report another region; a single point is the same in both orders *)
Theorem C16_column_major_refuted :
  exists a : coords, rows_ok 2 a = true /\ reshape_rows 2 (flatten_cols 2 a) <> Ok a /\
                     reshape_rows 2 (flatten_rows a) = Ok a.
Proof. exact column_major_refuted. Qed.
Print Assumptions C16_column_major_refuted.

Theorem C16_column_major_single_row : forall d r, length r = d -> flatten_cols d [r] = flatten_rows [r].
Proof. exact column_major_single_row. Qed.
Print Assumptions C16_column_major_single_row.

Example C16_geom_nonvacuous :
  Forall good (map fst ex_ggs) /\ NoDup (map (fun p => g_tid (fst p)) ex_ggs) /\
  Forall (fun p => forallb gitem_ok (snd p) = true) ex_ggs /\
  Forall (fun p => map gi_d (snd p) = geom_dims (g_ref (fst p))) ex_ggs /\
  run_accessors_geom [(13, 12)] [] ex_ggs None None <> run_accessors_geom [] [] ex_ggs None None.
Proof. exact geom_nonvacuous. Qed.
Print Assumptions C16_geom_nonvacuous.

(* ---- (I) the MEASUREMENTS a returned group reports, in full (TID 300 behind get_measurements) -------------------
   get_measurements(name) = [Measurement.from_sequence([item]) for the NUM items of the group (named name)], and
   from_sequence REBUILDS each NUM item from name, value, unit and qualifier and copies its child content.  The unit
   and the qualifier (attributes of the NUM item, not content items) are carried in the item model as two pseudo
   children with reserved names (see C16_Model.v); `meas_val` is the observation of one measurement: name, value,
   unit, qualifier, derivation, method, finding sites, referenced images, child content item by item. *)

(* the rebuild loses nothing, for EVERY NUM item that has a unit: every accessor of the rebuilt measurement shows what
   the stored item carries *)
Theorem C16_measurement_from_sequence_faithful : forall i u, num_unit i = Some u ->
  exists m, measurement_from_item i = Ok m /\ meas_val m = meas_val i.
Proof. exact from_sequence_faithful. Qed.
Print Assumptions C16_measurement_from_sequence_faithful.

Theorem C16_measurement_from_sequence_raises_iff : forall i,
  measurement_from_item i = Err "AttributeError"%string <-> num_unit i = None.
Proof. exact from_sequence_raises_iff. Qed.
Print Assumptions C16_measurement_from_sequence_raises_iff.

(* each argument of the rebuild is needed: rebuilt from name, value and unit only, a measurement that was stored with
   a qualifier is reported without one (and with nothing else changed) *)
Theorem C16_measurement_qualifier_needed :
  num_qualifier failed_measurement = Some 210 /\
  (exists m, measurement_from_item failed_measurement = Ok m /\ num_qualifier m = Some 210 /\
             meas_val m = meas_val failed_measurement) /\
  (exists m, from_item_no_qualifier failed_measurement = Ok m /\ num_qualifier m = None /\
             meas_val m <> meas_val failed_measurement).
Proof. exact qualifier_argument_needed. Qed.
Print Assumptions C16_measurement_qualifier_needed.

(* the full observation refines the (name, value) observation of (A) / (G), on ANY group *)
Theorem C16_measurements_full_refine : forall g name ms, acc_measurements_full g name = Ok ms ->
  map (fun m => (nm m, num_value m)) ms = acc_measurements g name.
Proof. exact measurements_full_refine. Qed.
Print Assumptions C16_measurements_full_refine.

(* the three queries cannot see the NUM items of the groups: ANY tree, ANY filter, ANY rewriting H of the NUM items
   (names, numbers, unit, qualifier, child content) that leaves every other item alone *)
Theorem C16_queries_blind_to_measurement_content : forall (H : item -> item),
  (forall i, vt_eqb (vt i) NUM = false -> H i = i) ->
  (forall i, vt_eqb (vt i) NUM = true -> vt_eqb (vt (H i)) NUM = true) ->
  forall k root f, query k (regraft H root) f = on_list (map_kids H) (query k root f).
Proof. exact query_regraft. Qed.
Print Assumptions C16_queries_blind_to_measurement_content.

(* a measurement built by sr.Measurement from record m shows its record *)
Theorem C16_measurement_reports_record : forall m, meas_val (build_meas m) = spec_meas m.
Proof. exact meas_val_build. Qed.
Print Assumptions C16_measurement_reports_record.

(* the property sentence for the measurements: a report of good group records, each with the full records of its
   measurements (good_m: g_meas is their (name, value) part), answers every accepted query with exactly the matching
   groups in document order, and every returned group reports its tracking identifier and every measurement (all /
   by name) as its record says - unit, qualifier, derivation, method, finding sites, referenced images, child content *)
Theorem C16_measurements_end_to_end : forall k pre gms f mname,
  no_im pre = true -> Forall good_m gms -> qcheck k f = Ok tt ->
  let answer := filter (sel_m k f) gms in
  query k (report_m pre gms) f = Ok (map build_m answer) /\
  map (group_meas_val mname) (map build_m answer) = map (spec_group_meas mname) answer.
Proof. exact meas_end_to_end. Qed.
Print Assumptions C16_measurements_end_to_end.

(* the observation of the correspondence run (kind acc_meas) is the record-level specification, refusals included *)
Theorem C16_run_meas_exact : forall pre gms f mname, no_im pre = true -> Forall good_m gms ->
  run_meas pre gms f mname =
  VL (map (fun k => match qcheck k f with
                    | Err e => VErr e
                    | Ok _ => VL (map (spec_group_meas mname) (filter (sel_m k f) gms))
                    end) [Planar; Volumetric; ImageK]).
Proof. exact run_meas_exact. Qed.
Print Assumptions C16_run_meas_exact.

Example C16_measurements_nonvacuous :
  Forall good_m ex_gms /\ Forall good_m (drop_qualifiers ex_gms) /\
  run_meas [] ex_gms (Filt None (Some 110) None None GNone None None) (Some 140) <>
  run_meas [] (drop_qualifiers ex_gms) (Filt None (Some 110) None None GNone None None) (Some 140).
Proof. exact meas_nonvacuous. Qed.
Print Assumptions C16_measurements_nonvacuous.
