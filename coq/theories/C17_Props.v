(* C17 - property theorems.  Nothing but statements, `exact <lemma>` and Print Assumptions.
   [srt] (the SRT->SCT table) and [H] (the string hash) are universally quantified: every
   theorem holds for every table and every hash function.
   Vocabulary (C17_Proofs): [oview o] = (value, scheme designator, scheme version) read through the
   accessors; [self_ready o] = o may stand on the left of == (a concept needs CodeMeaning and
   CodingSchemeDesignator); [other_ready o] = on the right (CodingSchemeDesignator);
   [wf_concept d] = exactly one code-value attribute, meaning and scheme present;
   [scheme_value o] = the (scheme, value) pair that is hashed.
   (C17_Proofs_Ext) [built o] = o is a pydicom Code or came out of CodedConcept(...), from_code, from_dataset
   (copy or not, any heap) or a later edit of the meaning; [Inv h] = every object of class CodedConcept in heap h is
   exactly one code; [run_ops] = a history of API calls and user actions (C17_Model, Extension 3).
   (C17_Proofs_Set) [eok U e] = entry e = (identity, object) is the object with that identity and can be hashed
   and compared; [ematch] = same hashed string and == ; [plast l x] = value written last under a key matching x.
   (C17_Proofs_Hist) histories also contain user edits of the code (OSetCode / OSetScheme / OSetVersion), copies made
   outside the API (OClone = deepcopy / pickle) and uses as a key (OHash, OLookup) before such edits.
   (C17_Proofs_More) [from_code_any] = from_code of any argument, [code_like x] = the Code an argument amounts to;
   [oeq srt st a b] = the value of heap[a] == heap[b]; [okc d] = d is a plain dataset or exactly one code; the larger machine [step2 / run_ops2] adds attribute deletions
   (ODelAttr) and shallow copies (OShallow: a new object on the same element store, [root l b] = representative of
   b's store); [fields d] = the six elements of d; [LInv] = every object carries the elements of its store.
   (C17_Proofs_FileVR) [rstrip_by p] = remove the trailing run of p-characters; [is_pad] = blank or NUL (SH, LO, UC),
   [is_ws] = Python white space (UR); [strip_of a] = the class of the attribute; [last_by p s] = s ends in a p-character;
   [sall f s] = every character satisfies f; [textc] = not NUL and no white space other than the blank. *)
From Coq Require Import String ZArith List Bool Ascii.
From HD Require Import Base.Val C17_Model C17_Proofs C17_Proofs_Ext C17_Proofs_Set C17_Proofs_File C17_Proofs_Hist C17_Proofs_More C17_Proofs_FileVR.
Import ListNotations.
Open Scope string_scope.
Open Scope Z_scope.

(* ---- equality is an equivalence relation, for every alias table and every mix of classes ---- *)
Theorem C17_eq_reflexive : forall srt a, self_ready a = true -> obj_eq srt a a = Ok true.
Proof. exact eq_refl_obj. Qed.
Print Assumptions C17_eq_reflexive.

Theorem C17_eq_symmetric : forall srt a b, self_ready a = true -> self_ready b = true ->
  obj_eq srt a b = obj_eq srt b a.
Proof. exact eq_sym_obj. Qed.
Print Assumptions C17_eq_symmetric.

Theorem C17_eq_transitive : forall srt a b c,
  obj_eq srt a b = Ok true -> obj_eq srt b c = Ok true -> obj_eq srt a c = Ok true.
Proof. exact eq_trans_obj. Qed.
Print Assumptions C17_eq_transitive.

Theorem C17_eq_equivalence : forall srt,
  (forall a, self_ready a = true -> obj_eq srt a a = Ok true) /\
  (forall a b, self_ready a = true -> self_ready b = true -> obj_eq srt a b = Ok true -> obj_eq srt b a = Ok true) /\
  (forall a b c, obj_eq srt a b = Ok true -> obj_eq srt b c = Ok true -> obj_eq srt a c = Ok true).
Proof. exact eq_equivalence. Qed.
Print Assumptions C17_eq_equivalence.

(* == answers exactly when the attributes it reads exist; the only error is AttributeError *)
Theorem C17_eq_defined_iff : forall srt a b,
  (exists r, obj_eq srt a b = Ok r) <-> (self_ready a = true /\ other_ready b = true).
Proof. exact eq_defined_iff. Qed.
Print Assumptions C17_eq_defined_iff.

Theorem C17_eq_error_kind : forall srt a b k, obj_eq srt a b = Err k -> k = "AttributeError".
Proof. exact eq_error_kind. Qed.
Print Assumptions C17_eq_error_kind.

(* decided by value, scheme and version ... *)
Theorem C17_eq_decided_by_value_scheme_version : forall srt a a' b b',
  self_ready a = true -> self_ready a' = true -> oview a = oview a' -> oview b = oview b' ->
  obj_eq srt a b = obj_eq srt a' b'.
Proof. exact eq_decided_by_view. Qed.
Print Assumptions C17_eq_decided_by_value_scheme_version.

Theorem C17_eq_is_kernel_of_norm : forall srt a b va vb,
  self_ready a = true -> oview a = Some va -> oview b = Some vb ->
  (obj_eq srt a b = Ok true <-> norm srt va = norm srt vb).
Proof. exact eq_kernel_of_norm. Qed.
Print Assumptions C17_eq_is_kernel_of_norm.

Theorem C17_eq_without_alias_is_identity_of_triples : forall srt a b,
  unaliased srt a -> unaliased srt b -> (code_eq srt a b = true <-> a = b).
Proof. exact code_eq_unaliased. Qed.
Print Assumptions C17_eq_without_alias_is_identity_of_triples.

Theorem C17_eq_alias : forall srt x y ver, srt x = Some y ->
  code_eq srt (Some x, "SRT", ver) (Some y, "SCT", ver) = true.
Proof. exact code_eq_alias. Qed.
Print Assumptions C17_eq_alias.

Theorem C17_eq_needs_same_version : forall srt a b, code_eq srt a b = true -> snd a = snd b.
Proof. exact code_eq_version. Qed.
Print Assumptions C17_eq_needs_same_version.

(* ... and never by meaning *)
Theorem C17_eq_ignores_meaning : forall srt a b m,
  (self_ready a = true -> obj_eq srt (with_meaning m a) b = obj_eq srt a b) /\
  obj_eq srt a (with_meaning m b) = obj_eq srt a b.
Proof. exact eq_ignores_meaning. Qed.
Print Assumptions C17_eq_ignores_meaning.

(* all four class pairings give the same answer *)
Theorem C17_eq_repr_independent : forall srt c1 c2 d1 d2, init_code c1 = Ok d1 -> init_code c2 = Ok d2 ->
  let r := Ok (code_eq srt (pd_view c1) (pd_view c2)) in
  obj_eq srt (HD d1) (HD d2) = r /\ obj_eq srt (HD d1) (PD c2) = r /\
  obj_eq srt (PD c1) (HD d2) = r /\ obj_eq srt (PD c1) (PD c2) = r.
Proof. exact eq_repr_independent. Qed.
Print Assumptions C17_eq_repr_independent.

(* any concept (whatever attribute holds its value, however it was made) is interchangeable with the Code
   that has the same accessors, on either side of == *)
Theorem C17_eq_class_independent : forall srt d c x, self_ready (HD d) = true -> oview (HD d) = Some (pd_view c) ->
  obj_eq srt (HD d) x = obj_eq srt (PD c) x /\ obj_eq srt x (HD d) = obj_eq srt x (PD c).
Proof. exact eq_class_independent. Qed.
Print Assumptions C17_eq_class_independent.

Theorem C17_ne_is_negation : forall srt a b r, obj_ne srt a b = Ok r <-> obj_eq srt a b = Ok (negb r).
Proof. exact ne_is_negation. Qed.
Print Assumptions C17_ne_is_negation.

(* ---- hash -------------------------------------------------------------------------------- *)
Theorem C17_hash_agrees : forall (H : string -> Z) a b p,
  scheme_value a = Some p -> scheme_value b = Some p ->
  obj_hash H a = obj_hash H b /\ obj_hash H a = Ok (H (fst p ++ snd p)).
Proof. exact hash_agrees. Qed.
Print Assumptions C17_hash_agrees.

Theorem C17_hash_defined_iff : forall (H : string -> Z) o,
  (exists z, obj_hash H o = Ok z) <-> scheme_value o <> None.
Proof. exact hash_defined_iff. Qed.
Print Assumptions C17_hash_defined_iff.

Theorem C17_eq_implies_hash_unless_alias : forall srt a b va vb pa pb,
  obj_eq srt a b = Ok true -> oview a = Some va -> oview b = Some vb ->
  unaliased srt va -> unaliased srt vb -> scheme_value a = Some pa -> scheme_value b = Some pb ->
  hash_key a = hash_key b /\ forall H, obj_hash H a = obj_hash H b.
Proof. exact eq_hash_unaliased. Qed.
Print Assumptions C17_eq_implies_hash_unless_alias.

(* sets / dicts: for equal scheme and value the lookup answers what == answers *)
Theorem C17_set_lookup : forall srt a b p, self_ready a = true ->
  scheme_value a = Some p -> scheme_value b = Some p ->
  in_set_of srt a b = obj_eq srt a b.
Proof. exact set_lookup. Qed.
Print Assumptions C17_set_lookup.

Theorem C17_set_treats_as_one : forall srt a b p, self_ready a = true ->
  scheme_value a = Some p -> scheme_value b = Some p -> oview a = oview b ->
  in_set_of srt a b = Ok true.
Proof. exact set_treats_as_one. Qed.
Print Assumptions C17_set_treats_as_one.

Theorem C17_set_lookup_sound : forall srt a b, in_set_of srt a b = Ok true -> obj_eq srt a b = Ok true.
Proof. exact set_lookup_true. Qed.
Print Assumptions C17_set_lookup_sound.

(* the gap the property statement names: alias-equal codes hash differently (pydicom) *)
Theorem C17_alias_hash_differs_refuted :
  exists srt a b, obj_eq srt a b = Ok true /\ obj_eq srt b a = Ok true /\
                  (exists ka kb, hash_key a = Ok ka /\ hash_key b = Ok kb /\ ka <> kb).
Proof. exact alias_hash_differs. Qed.
Print Assumptions C17_alias_hash_differs_refuted.

(* ---- storing and reading back ------------------------------------------------------------- *)
Theorem C17_store_load : forall v s m ver d, init v s m ver = Ok d ->
  attr_slot (select_attr v) d = Some v /\
  (forall a, a <> select_attr v -> attr_slot a d = None) /\
  ds_value d = Some v /\ ds_scheme d = Ok s /\ ds_meaning d = Ok m /\ ds_version d = ver /\
  count_cv d = 1 /\ d_cc d = true.
Proof. exact store_load. Qed.
Print Assumptions C17_store_load.

Theorem C17_attribute_rule : forall v,
  (select_attr v = AURNCodeValue <-> is_uri_form v = true) /\
  (select_attr v = ALongCodeValue <-> is_uri_form v = false /\ 16 < slen v) /\
  (select_attr v = ACodeValue <-> is_uri_form v = false /\ slen v <= 16).
Proof. exact select_attr_rule. Qed.
Print Assumptions C17_attribute_rule.

Theorem C17_uri_form : forall v,
  is_uri_form v = true <-> (exists t, v = "urn" ++ t) \/ (exists p t, v = p ++ "://" ++ t).
Proof. exact is_uri_form_spec. Qed.
Print Assumptions C17_uri_form.

Theorem C17_init_accepts_iff : forall v s m ver, (exists d, init v s m ver = Ok d) <-> slen m <= 64.
Proof. exact init_ok_iff. Qed.
Print Assumptions C17_init_accepts_iff.

Theorem C17_init_refuses : forall v s m ver k, init v s m ver = Err k -> k = "ValueError" /\ 64 < slen m.
Proof. exact init_err. Qed.
Print Assumptions C17_init_refuses.

(* ---- from_dataset ------------------------------------------------------------------------------ *)
Theorem C17_from_dataset_exactly_one : forall h a d copy, nth_error h a = Some d ->
  ((exists r, from_dataset h (Addr a) copy = Ok r) <-> wf_concept d).
Proof. exact from_dataset_ok_iff. Qed.
Print Assumptions C17_from_dataset_exactly_one.

Theorem C17_exactly_one_means : forall d,
  count_cv d = 1 <->
  (d_cv d <> None /\ d_lcv d = None /\ d_urn d = None) \/
  (d_cv d = None /\ d_lcv d <> None /\ d_urn d = None) \/
  (d_cv d = None /\ d_lcv d = None /\ d_urn d <> None).
Proof. exact count_cv_one. Qed.
Print Assumptions C17_exactly_one_means.

Theorem C17_from_dataset_refuses : forall h x copy k, from_dataset h x copy = Err k ->
  match x with
  | NotDataset => k = "TypeError"
  | Addr a => forall d, nth_error h a = Some d -> k = "AttributeError" /\ ~ wf_concept d
  end.
Proof. exact from_dataset_err. Qed.
Print Assumptions C17_from_dataset_refuses.

(* copy: fresh object, heap (hence the original, its class included) untouched, later writes to the
   result never reach the original *)
Theorem C17_from_dataset_copy_is_fresh : forall h a d h' r, nth_error h a = Some d ->
  from_dataset h (Addr a) true = Ok (h', r) ->
  r = length h /\ r <> a /\ nth_error h r = None /\
  nth_error h' r = Some (set_cc d) /\
  (forall i, (i < length h)%nat -> nth_error h' i = nth_error h i) /\
  (forall d' i, (i < length h)%nat -> nth_error (update h' r d') i = nth_error h i).
Proof. exact from_dataset_copy. Qed.
Print Assumptions C17_from_dataset_copy_is_fresh.

(* no copy: the same object, converted in place; writes to the result are writes to the original *)
Theorem C17_from_dataset_nocopy_is_same : forall h a d h' r, nth_error h a = Some d ->
  from_dataset h (Addr a) false = Ok (h', r) ->
  r = a /\ length h' = length h /\ nth_error h' a = Some (set_cc d) /\
  (forall i, i <> a -> nth_error h' i = nth_error h i) /\
  (forall d', nth_error (update h' r d') a = Some d').
Proof. exact from_dataset_alias. Qed.
Print Assumptions C17_from_dataset_nocopy_is_same.

(* what was converted reads as the one code it holds and can be compared and hashed *)
Theorem C17_converted_reads : forall d, wf_concept d ->
  (exists a v, attr_slot a d = Some v /\ ds_value (set_cc d) = Some v /\ forall a', a' <> a -> attr_slot a' d = None) /\
  self_ready (HD (set_cc d)) = true /\ scheme_value (HD (set_cc d)) <> None.
Proof. exact converted_reads. Qed.
Print Assumptions C17_converted_reads.

(* ---- from_code ------------------------------------------------------------------------------------ *)
Theorem C17_from_code_concept_is_same : forall h a, from_code h (RConcept a) = Ok (h, a).
Proof. exact from_code_concept. Qed.
Print Assumptions C17_from_code_concept_is_same.

Theorem C17_from_code_code : forall srt h c h' r, from_code h (RCode c) = Ok (h', r) ->
  exists d, init_code c = Ok d /\ r = length h /\ nth_error h' r = Some d /\
            (forall i, (i < length h)%nat -> nth_error h' i = nth_error h i) /\
            obj_eq srt (HD d) (PD c) = Ok true /\ obj_eq srt (PD c) (HD d) = Ok true /\
            hash_key (HD d) = hash_key (PD c).
Proof. exact from_code_code. Qed.
Print Assumptions C17_from_code_code.

Theorem C17_from_code_refuses : forall h c k, from_code h (RCode c) = Err k ->
  k = "ValueError" /\ 64 < slen (c_meaning c).
Proof. exact from_code_err. Qed.
Print Assumptions C17_from_code_refuses.

(* ---- non-vacuity: concrete, non-trivial instances -------------------------------------------------- *)
Definition ex_tbl := assoc [("T-04000", "76752008")].
Definition ex_srt := Code "T-04000" "SRT" "Breast" None.
Definition ex_sct := Code "76752008" "SCT" "breast structure" None.
Definition ex_urn := Code "urn:oid:1.2" "DCM" "short urn" (Some "1").

Example C17_example :
  (* an SRT concept equals its SCT alias given as pydicom Code, both ways, meanings differing *)
  (exists d, init_code ex_srt = Ok d /\ self_ready (HD d) = true /\
             obj_eq ex_tbl (HD d) (PD ex_sct) = Ok true /\ obj_eq ex_tbl (PD ex_sct) (HD d) = Ok true /\
             obj_eq (fun _ => None) (HD d) (PD ex_sct) = Ok false) /\
  (* a URN of 11 characters goes to URNCodeValue, 17 plain characters to LongCodeValue *)
  select_attr "urn:oid:1.2" = AURNCodeValue /\ select_attr "ABCDEFGHIJKLMNOPQ" = ALongCodeValue /\
  select_attr "ABCDEFGHIJKLMNOP" = ACodeValue /\ select_attr "http://x.org/c#1" = AURNCodeValue /\
  (* a dataset with two code-value attributes is refused, one is accepted and copied to a fresh address *)
  from_dataset [DS (Some "a") (Some "b") None (Some "m") (Some "DCM") None false] (Addr 0%nat) true = Err "AttributeError" /\
  from_dataset [DS None (Some "b") None (Some "m") (Some "DCM") None false] (Addr 0%nat) true =
    Ok ([DS None (Some "b") None (Some "m") (Some "DCM") None false;
         DS None (Some "b") None (Some "m") (Some "DCM") None true], 1%nat) /\
  wf_concept (DS None (Some "b") None (Some "m") (Some "DCM") None false).
Proof.
  split; [eexists; repeat split|]. repeat split; try reflexivity; cbn; discriminate.
Qed.
Print Assumptions C17_example.

(* ==== the property sentence, end to end ============================================================= *)
(* everything the API builds is exactly one code, can stand on either side of == and can be hashed *)
Theorem C17_built_is_one_code : forall o, built o -> match o with PD _ => True | HD d => wf_concept d end.
Proof. exact built_wf. Qed.
Print Assumptions C17_built_is_one_code.

Theorem C17_built_is_comparable_and_hashable : forall o, built o ->
  self_ready o = true /\ exists p, scheme_value o = Some p.
Proof. exact built_ready. Qed.
Print Assumptions C17_built_is_comparable_and_hashable.

(* "Equality between coded concepts, and between them and pydicom codes in either direction, is an equivalence
   relation decided by scheme, value and scheme version and never by meaning, and two codes with the same scheme
   and value hash equally whichever class represents them, so that sets and dictionaries treat them as one":
   no side condition other than that the operands were built through the API *)
Theorem C17_coded_concepts_are_values : forall srt (H : string -> Z),
  (forall a b, built a -> built b ->
     exists r, obj_eq srt a b = Ok r /\ obj_eq srt b a = Ok r /\ obj_ne srt a b = Ok (negb r)) /\
  (forall a, built a -> obj_eq srt a a = Ok true) /\
  (forall a b c, built a -> built b -> built c ->
     obj_eq srt a b = Ok true -> obj_eq srt b c = Ok true -> obj_eq srt a c = Ok true) /\
  (forall a b, built a -> built b ->
     exists va vb, oview a = Some va /\ oview b = Some vb /\
                   (obj_eq srt a b = Ok true <-> norm srt va = norm srt vb)) /\
  (forall a b m, built a -> built b ->
     built (with_meaning m a) /\ obj_eq srt (with_meaning m a) b = obj_eq srt a b /\
     obj_eq srt a (with_meaning m b) = obj_eq srt a b) /\
  (forall a b, built a -> built b -> scheme_value a = scheme_value b ->
     obj_hash H a = obj_hash H b /\ exists z, obj_hash H a = Ok z) /\
  (forall a b, built a -> built b -> scheme_value a = scheme_value b -> oview a = oview b ->
     in_set_of srt a b = Ok true /\ in_set_of srt b a = Ok true).
Proof. exact values_semantics. Qed.
Print Assumptions C17_coded_concepts_are_values.

(* "A code value is stored in the attribute the standard assigns to its form and length and read back unchanged,
   and converting from a dataset either copies or aliases it as requested": store, convert (either way, anywhere in
   any heap), read *)
Theorem C17_store_convert_load : forall v s m ver copy (h : heap), slen m <= 64 ->
  exists d h' r d',
    init v s m ver = Ok d /\
    from_dataset (h ++ [d])%list (Addr (length h)) copy = Ok (h', r) /\ nth_error h' r = Some d' /\
    (r = length h <-> copy = false) /\
    attr_slot (select_attr v) d' = Some v /\ (forall a, a <> select_attr v -> attr_slot a d' = None) /\
    ds_value d' = Some v /\ ds_scheme d' = Ok s /\ ds_meaning d' = Ok m /\ ds_version d' = ver /\ d_cc d' = true.
Proof. exact store_convert_load. Qed.
Print Assumptions C17_store_convert_load.

Theorem C17_convert_reads_any_attribute : forall a c copy,
  exists h' r d', from_dataset [ds_with a c] (Addr 0%nat) copy = Ok (h', r) /\ nth_error h' r = Some d' /\
    attr_slot a d' = Some (c_value c) /\ (forall a', a' <> a -> attr_slot a' d' = None) /\
    ds_value d' = Some (c_value c) /\ ds_scheme d' = Ok (c_scheme c) /\ ds_meaning d' = Ok (c_meaning c) /\
    ds_version d' = c_version c /\ d_cc d' = true.
Proof. exact convert_reads_any_attribute. Qed.
Print Assumptions C17_convert_reads_any_attribute.

(* ==== histories: every reachable heap ================================================================= *)
Theorem C17_reachable_invariant : forall srt ops, Inv (fst (fst (run_ops srt ([], []) ops))).
Proof. exact reachable_inv. Qed.
Print Assumptions C17_reachable_invariant.

Theorem C17_step_preserves_invariant : forall srt st o, Inv (fst st) -> Inv (fst (fst (step srt st o))).
Proof. exact step_inv. Qed.
Print Assumptions C17_step_preserves_invariant.

Theorem C17_reachable_concepts_are_values : forall srt ops h kids vs a b da db,
  run_ops srt ([], []) ops = ((h, kids), vs) ->
  nth_error h a = Some da -> nth_error h b = Some db -> d_cc da = true -> d_cc db = true ->
  wf_concept da /\ wf_concept db /\
  (exists r, obj_eq srt (HD da) (HD db) = Ok r /\ obj_eq srt (HD db) (HD da) = Ok r) /\
  obj_eq srt (HD da) (HD da) = Ok true /\ exists k, hash_key (HD da) = Ok k.
Proof. exact reachable_concepts_are_values. Qed.
Print Assumptions C17_reachable_concepts_are_values.

(* depth of the copy (a nested sequence item, depth 1) *)
Theorem C17_copy_is_deep : forall srt h kids a c d dc, nth_error h a = Some d -> wf_concept d ->
  kid_of kids a = Some c -> nth_error h c = Some dc ->
  let r := length h in
  step srt (h, kids) (OFromDataset (Addr a) true) = ((h ++ [set_cc d; dc])%list, (r, S r) :: kids, vnat r) /\
  kid_of ((r, S r) :: kids) r = Some (S r) /\ S r <> c /\ r <> a /\ nth_error h r = None /\ nth_error h (S r) = None /\
  (forall i, (i < length h)%nat -> nth_error (h ++ [set_cc d; dc])%list i = nth_error h i) /\
  (forall i x y, (i < length h)%nat ->
     nth_error (update (update (h ++ [set_cc d; dc])%list r x) (S r) y) i = nth_error h i).
Proof. exact copy_is_deep. Qed.
Print Assumptions C17_copy_is_deep.

Theorem C17_alias_shares_nested : forall srt h kids a d, nth_error h a = Some d -> wf_concept d ->
  step srt (h, kids) (OFromDataset (Addr a) false) = (update h a (set_cc d), kids, vnat a).
Proof. exact alias_shares_nested. Qed.
Print Assumptions C17_alias_shares_nested.

Theorem C17_reachable_no_shared_nested : forall srt ops h kids vs a b c,
  run_ops srt ([], []) ops = ((h, kids), vs) ->
  kid_of kids a = Some c -> kid_of kids b = Some c -> a = b.
Proof. exact reachable_no_shared_nested. Qed.
Print Assumptions C17_reachable_no_shared_nested.

(* ==== objects with a past: hashing, copying and editing in any order =================================== *)
(* after ANY history (earlier uses as a key, deepcopy / pickle, from_dataset copy or alias, edits of value, form,
   scheme, version or meaning of the object or of the object it was copied from) hash(obj) of a concept is the hash
   of scheme ++ value it carries NOW, i.e. the hash of the pydicom Code of that scheme and value (any meaning, any
   version), for every string hash H - so also for the H of another interpreter *)
Theorem C17_hash_follows_current_code : forall srt ops h kids vs a d,
  run_ops srt ([], []) ops = ((h, kids), vs) -> nth_error h a = Some d -> d_cc d = true ->
  exists s v, ds_scheme d = Ok s /\ ds_value d = Some v /\
    step srt (h, kids) (OHash a) = ((h, kids), VL [VS (s ++ v); VB true]) /\
    forall (H : string -> Z) m ver,
      obj_hash H (HD d) = Ok (H (s ++ v)) /\ obj_hash H (PD (Code v s m ver)) = obj_hash H (HD d).
Proof. exact reachable_hash_follows_code. Qed.
Print Assumptions C17_hash_follows_current_code.

Theorem C17_reachable_same_code_same_hash : forall srt ops h kids vs a b da db (H : string -> Z),
  run_ops srt ([], []) ops = ((h, kids), vs) -> nth_error h a = Some da -> nth_error h b = Some db ->
  d_cc da = true -> d_cc db = true -> ds_scheme da = ds_scheme db -> ds_value da = ds_value db ->
  obj_hash H (HD da) = obj_hash H (HD db) /\ exists z, obj_hash H (HD da) = Ok z.
Proof. exact reachable_same_code_same_hash. Qed.
Print Assumptions C17_reachable_same_code_same_hash.

(* hash, set / dict lookup and == change nothing; hash answers from the record as it is at the call *)
Theorem C17_observations_leave_no_trace : forall srt st a b,
  fst (step srt st (OHash a)) = st /\ fst (step srt st (OLookup a b)) = st /\ fst (step srt st (OEq a b)) = st.
Proof. exact observations_leave_no_trace. Qed.
Print Assumptions C17_observations_leave_no_trace.

Theorem C17_hash_reads_the_present : forall srt h kids h' kids' a d,
  nth_error h a = Some d -> nth_error h' a = Some d ->
  snd (step srt (h, kids) (OHash a)) = snd (step srt (h', kids') (OHash a)).
Proof. exact hash_reads_the_present. Qed.
Print Assumptions C17_hash_reads_the_present.

(* use as a key, copy with deepcopy / pickle, give the copy another code: the copy hashes as its new code *)
Theorem C17_hashed_then_cloned_then_edited : forall srt h kids a d k v', nth_error h a = Some d ->
  wf_concept d -> d_cc d = true ->
  exists s v st1 st2,
    ds_scheme d = Ok s /\ ds_value d = Some v /\
    step srt (h, kids) (OHash a) = ((h, kids), VL [VS (s ++ v); VB true]) /\
    step srt (h, kids) (OClone a) = (st1, vnat (length h)) /\
    step srt st1 (OSetCode (length h) k v') = (st2, vnat (length h)) /\
    snd (step srt st2 (OHash (length h))) = VL [VS (s ++ v'); VB true] /\
    snd (step srt st2 (OHash a)) = VL [VS (s ++ v); VB true].
Proof. exact hashed_then_cloned_then_edited. Qed.
Print Assumptions C17_hashed_then_cloned_then_edited.

(* edit of the object itself (also through an alias), of value / form, scheme, meaning, version *)
Theorem C17_hashed_then_edited : forall srt h kids a d, nth_error h a = Some d -> wf_concept d -> d_cc d = true ->
  exists s v, ds_scheme d = Ok s /\ ds_value d = Some v /\
    (forall k v', snd (step srt (fst (step srt (h, kids) (OSetCode a k v'))) (OHash a)) = VL [VS (s ++ v'); VB true]) /\
    (forall s', snd (step srt (fst (step srt (h, kids) (OSetScheme a s'))) (OHash a)) = VL [VS (s' ++ v); VB true]) /\
    (forall m, snd (step srt (fst (step srt (h, kids) (OSetMeaning a m))) (OHash a)) = VL [VS (s ++ v); VB true]) /\
    (forall ver, snd (step srt (fst (step srt (h, kids) (OSetVersion a ver))) (OHash a)) = VL [VS (s ++ v); VB true]).
Proof. exact hashed_then_edited. Qed.
Print Assumptions C17_hashed_then_edited.

(* {a} / {a: 1} probed with b, with the Code of b, {Code of a} probed with b: one answer (same hashed string and ==);
   a concept and the Code of its current scheme, value and version always find each other *)
Theorem C17_reachable_lookup_as_one : forall srt ops h kids vs a b da db,
  run_ops srt ([], []) ops = ((h, kids), vs) -> nth_error h a = Some da -> nth_error h b = Some db ->
  d_cc da = true -> d_cc db = true ->
  exists r, step srt (h, kids) (OLookup a b) = ((h, kids), VL [VB r; VB r; VB r; VB r; VB true; VB true]) /\
    (r = true <-> hash_key (HD da) = hash_key (HD db) /\ obj_eq srt (HD da) (HD db) = Ok true) /\
    (a = b -> r = true).
Proof. exact reachable_lookup. Qed.
Print Assumptions C17_reachable_lookup_as_one.

Example C17_example_object_with_a_past :
  exists h kids, run_ops (fun _ => None) ([], []) ex_past_ops =
    ((h, kids),
     [VZ 0; VL [VS "SCT373098007"; VB true]; VZ 1; VZ 1; VL [VS "SCT373099004"; VB true];
      VL [VS "SCT373098007"; VB true]; VZ 2; VZ 2; VL [VS "99TEST373098007"; VB true]; VZ 0;
      VL [VB true; VB true; VB true; VB true; VB true; VB true];
      VL [VB false; VB false; VB false; VB false; VB true; VB true];
      VL [VB true; VB true; VB true; VB true; VB true; VB true]]) /\
    length h = 3%nat /\
    map (fun d => vres VS (bind (hashable d) hash_key)) h =
      [VS "SCTsome_code_value_longer_than_sixteen_chars"; VS "SCT373099004"; VS "99TEST373098007"].
Proof. exact past_example. Qed.
Print Assumptions C17_example_object_with_a_past.

(* ==== == against non-codes (CodedConcept.__eq__ fall-through; outside the property, modelled and driven) ==== *)
Theorem C17_py_eq_on_codes_is_eq : forall srt a b, py_eq srt (VObj a) (VObj b) = obj_eq srt a b.
Proof. exact py_eq_objs. Qed.
Print Assumptions C17_py_eq_on_codes_is_eq.

Theorem C17_eq_concept_vs_plain_dataset : forall srt d p,
  (py_eq srt (VObj (HD d)) (VPlain p) = Ok true <->
   d_cv d = d_cv p /\ d_lcv d = d_lcv p /\ d_urn d = d_urn p /\ d_meaning d = d_meaning p /\
   d_scheme d = d_scheme p /\ d_version d = d_version p) /\
  (exists r, py_eq srt (VObj (HD d)) (VPlain p) = Ok r).
Proof. exact eq_plain_dataset_elementwise. Qed.
Print Assumptions C17_eq_concept_vs_plain_dataset.

Theorem C17_eq_concept_vs_foreign : forall srt d,
  py_eq srt (VObj (HD d)) VForeign = Ok false /\ py_eq srt VForeign (VObj (HD d)) = Ok false.
Proof. exact py_eq_concept_foreign. Qed.
Print Assumptions C17_eq_concept_vs_foreign.

Theorem C17_eq_code_vs_noncode_raises : forall srt c x, (forall o, x <> VObj o) ->
  py_eq srt (VObj (PD c)) x = Err "AttributeError" /\ py_eq srt x (VObj (PD c)) = Err "AttributeError".
Proof. exact py_eq_code_noncode. Qed.
Print Assumptions C17_eq_code_vs_noncode_raises.

Theorem C17_eq_mixed_symmetric : forall srt a x, (forall o, x <> VObj o) ->
  py_eq srt (VObj a) x = py_eq srt x (VObj a) /\ py_ne srt (VObj a) x = py_ne srt x (VObj a).
Proof. exact py_eq_mixed_sym. Qed.
Print Assumptions C17_eq_mixed_symmetric.

(* observation: against a plain Dataset (not a code) the meaning does take part *)
Theorem C17_eq_plain_dataset_compares_meaning_observation :
  exists srt d p, oview (HD d) = oview (HD p) /\ obj_eq srt (HD d) (HD p) = Ok true /\
                  py_eq srt (VObj (HD d)) (VPlain p) = Ok false.
Proof. exact plain_dataset_meaning_matters. Qed.
Print Assumptions C17_eq_plain_dataset_compares_meaning_observation.

(* ==== sets and dictionaries with any number of keys ===================================================== *)
Theorem C17_key_match_means : forall srt a b, ready a -> ready b ->
  (omatch srt a b = true <-> hash_key a = hash_key b /\ obj_eq srt a b = Ok true).
Proof. exact omatch_spec. Qed.
Print Assumptions C17_key_match_means.

Theorem C17_api_objects_are_keys : (forall d, wf_concept d -> ready (HD d)) /\ (forall c, ready (PD c)).
Proof. exact (conj wf_is_ready code_is_ready). Qed.
Print Assumptions C17_api_objects_are_keys.

(* set(l): never fails, keeps inserted objects only, x in set(l) iff some inserted key has the same hash and == x,
   no two kept keys match, exactly one kept key stands for each class *)
Theorem C17_set_of_codes : forall srt U l, Forall (eok U) l ->
  exists s, set_of_list srt l = Ok s /\
    (forall e, In e s -> In e l) /\
    (forall x, eok U x -> exists b, set_contains srt s x = Ok b /\
        (b = true <-> exists e, In e l /\ hash_key (snd e) = hash_key (snd x) /\ obj_eq srt (snd e) (snd x) = Ok true)) /\
    (forall i j a b, (i < j)%nat -> nth_error s i = Some a -> nth_error s j = Some b -> ematch srt a b = false) /\
    (forall x i j a b, nth_error s i = Some a -> nth_error s j = Some b ->
        ematch srt a x = true -> ematch srt b x = true -> i = j).
Proof. exact set_of_codes. Qed.
Print Assumptions C17_set_of_codes.

(* "so that sets and dictionaries treat them as one": same scheme, value and version, any two classes, any set *)
Theorem C17_set_treats_as_one_many : forall srt U s a b, Forall (eok U) s -> eok U a -> eok U b ->
  scheme_value (snd a) = scheme_value (snd b) -> oview (snd a) = oview (snd b) ->
  (exists s1, set_add srt s a = Ok s1 /\ set_add srt s1 b = Ok s1 /\ set_contains srt s1 b = Ok true) /\
  set_contains srt s a = set_contains srt s b.
Proof. exact set_treats_as_one_many. Qed.
Print Assumptions C17_set_treats_as_one_many.

(* d[k] = v for any sequence of writes: the keys are the set of the keys, a read returns the last write
   under a matching key *)
Theorem C17_dict_of_codes : forall srt U l, Forall (eok U) (map fst l) ->
  exists d, dict_of_list srt l = Ok d /\
    set_of_list srt (map fst l) = Ok (map fst d) /\
    forall x, eok U x -> dict_get srt d x = Ok (plast (ematch srt) l x).
Proof. exact dict_of_codes. Qed.
Print Assumptions C17_dict_of_codes.

Example C17_example_histories_and_mixed_eq :
  built (HD (set_meaning "edited" (set_cc ex_parent))) /\
  (exists h kids vs, run_ops (fun _ => None) ([], []) ex_ops = ((h, kids), vs) /\
     length h = 5%nat /\ kid_of kids 0%nat = Some 1%nat /\ kid_of kids 2%nat = Some 3%nat /\
     nth_error h 1%nat = Some ex_item /\ nth_error h 3%nat = Some (set_meaning "changed" ex_item) /\
     nth_error h 0%nat = Some (set_cc ex_parent) /\ nth_error h 2%nat = Some (set_cc ex_parent) /\
     vs = [VZ 0; VZ 2; VZ 3; VZ 0; VB true; VZ 4; VB true]) /\
  py_eq (fun _ => None) (VObj (HD (set_cc ex_parent))) (VPlain ex_parent) = Ok true /\
  py_eq (fun _ => None) (VPlain (set_meaning "x" ex_parent)) (VObj (HD (set_cc ex_parent))) = Ok false /\
  py_eq (fun _ => None) (VObj (HD (set_cc ex_parent))) VForeign = Ok false.
Proof. exact ext_example. Qed.
Print Assumptions C17_example_histories_and_mixed_eq.

Example C17_example_set_and_dict :
  Forall (eok ex_U) [(0%nat, ex_k0); (1%nat, ex_k1); (2%nat, ex_k2); (3%nat, ex_k3)] /\
  set_of_list (fun _ => None) [(0%nat, ex_k0); (1%nat, ex_k1); (2%nat, ex_k2); (3%nat, ex_k3)] =
    Ok [(0%nat, ex_k0); (2%nat, ex_k2)] /\
  set_contains (fun _ => None) [(0%nat, ex_k0); (2%nat, ex_k2)] (1%nat, ex_k1) = Ok true /\
  (exists d, dict_of_list (fun _ => None) [((0%nat, ex_k0), 10); ((2%nat, ex_k2), 20); ((1%nat, ex_k1), 30)] = Ok d /\
     map fst d = [(0%nat, ex_k0); (2%nat, ex_k2)] /\
     dict_get (fun _ => None) d (3%nat, ex_k3) = Ok (Some 30) /\ dict_get (fun _ => None) d (2%nat, ex_k2) = Ok (Some 20)).
Proof. exact set_example. Qed.
Print Assumptions C17_example_set_and_dict.

(* ==== through a file ===================================================================================== *)
(* the string rule of the round trip: rstrip removes a run of trailing blanks and nothing else *)
Theorem C17_rstrip_rule : forall s,
  (exists n, s = rstrip s ++ spaces n) /\ last_is_space (rstrip s) = false /\
  (forall p n, s = p ++ spaces n -> last_is_space p = false -> rstrip s = p) /\
  (rstrip s = s <-> last_is_space s = false).
Proof. exact (fun s => conj (rstrip_split s) (conj (rstrip_no_trailing_blank s) (conj (rstrip_unique s) (rstrip_id_iff s)))). Qed.
Print Assumptions C17_rstrip_rule.

(* store -> dcmwrite -> dcmread -> from_dataset: same attribute, every value without its trailing blanks *)
Theorem C17_store_file_load : forall v s m ver, slen m <= 64 ->
  exists d', store_file_load v s m ver = Ok d' /\
    attr_slot (select_attr v) d' = Some (rstrip v) /\ (forall a, a <> select_attr v -> attr_slot a d' = None) /\
    ds_value d' = Some (rstrip v) /\ ds_scheme d' = Ok (rstrip s) /\ ds_meaning d' = Ok (rstrip m) /\
    ds_version d' = option_map rstrip ver /\ d_cc d' = true.
Proof. exact store_file_load_spec. Qed.
Print Assumptions C17_store_file_load.

(* "read back unchanged": for every value, scheme, meaning, version not ending in a blank the concept read from
   the file IS the concept written *)
Theorem C17_store_file_load_unchanged : forall v s m ver, slen m <= 64 ->
  last_is_space v = false -> last_is_space s = false -> last_is_space m = false -> oclean ver ->
  exists d d', init v s m ver = Ok d /\ store_file_load v s m ver = Ok d' /\ d' = d /\
    attr_slot (select_attr v) d' = Some v /\ ds_value d' = Some v /\ ds_scheme d' = Ok s /\ ds_meaning d' = Ok m /\
    ds_version d' = ver.
Proof. exact store_file_load_unchanged. Qed.
Print Assumptions C17_store_file_load_unchanged.

Theorem C17_file_copy_equal : forall srt v s m ver, slen m <= 64 ->
  last_is_space v = false -> last_is_space s = false -> last_is_space m = false -> oclean ver ->
  exists d d', init v s m ver = Ok d /\ store_file_load v s m ver = Ok d' /\
    obj_eq srt (HD d) (HD d') = Ok true /\ obj_eq srt (HD d') (HD d) = Ok true /\ hash_key (HD d) = hash_key (HD d').
Proof. exact file_copy_equal. Qed.
Print Assumptions C17_file_copy_equal.

Theorem C17_file_roundtrip_idempotent : forall d, file_roundtrip (file_roundtrip d) = file_roundtrip d.
Proof. exact file_roundtrip_idem. Qed.
Print Assumptions C17_file_roundtrip_idempotent.

(* observation (DICOM padding, outside the property's alphabet): a value ending in a blank is not read back unchanged *)
Theorem C17_file_trailing_blank_lost_observation :
  exists v s m ver d d', init v s m ver = Ok d /\ store_file_load v s m ver = Ok d' /\
    ds_value d = Some v /\ ds_value d' <> Some v /\ obj_eq (fun _ => None) (HD d) (HD d') = Ok false.
Proof. exact trailing_blank_lost. Qed.
Print Assumptions C17_file_trailing_blank_lost_observation.

(* ==== residue of the earlier rounds (C17_Proofs_More) ================================================================ *)
(* ---- from_code of ANY argument ---- *)
Theorem C17_from_code_plain_dataset_refused : forall h d q,
  exists k, from_code_any h (FCPlain d q) = Err k /\
    ((3 <= n_elems d q <= 4 /\ k = "AttributeError") \/ ((n_elems d q < 3 \/ 4 < n_elems d q) /\ k = "TypeError")).
Proof. exact from_code_plain_refused. Qed.
Print Assumptions C17_from_code_plain_dataset_refused.

Theorem C17_from_code_any_ok_iff : forall h x h' r,
  from_code_any h x = Ok (h', r) <->
  ((exists a, x = FCRef (RConcept a) /\ h' = h /\ r = a) \/
   (exists c d, code_like x = Some c /\ init_code c = Ok d /\ h' = (h ++ [d])%list /\ r = length h)).
Proof. exact from_code_any_ok_iff. Qed.
Print Assumptions C17_from_code_any_ok_iff.

Theorem C17_from_code_any_accepts : forall h x,
  (exists h' r, from_code_any h x = Ok (h', r)) <->
  ((exists a, x = FCRef (RConcept a)) \/ (exists c, code_like x = Some c /\ slen (c_meaning c) <= 64)).
Proof. exact from_code_any_accepts. Qed.
Print Assumptions C17_from_code_any_accepts.

Theorem C17_from_code_any_is_the_code : forall srt h x h' r c, code_like x = Some c -> from_code_any h x = Ok (h', r) ->
  exists d, nth_error h' r = Some d /\ r = length h /\ d_cc d = true /\ wf_concept d /\
            (forall i, (i < length h)%nat -> nth_error h' i = nth_error h i) /\
            obj_eq srt (HD d) (PD c) = Ok true /\ obj_eq srt (PD c) (HD d) = Ok true /\
            hash_key (HD d) = hash_key (PD c).
Proof. exact from_code_any_is_the_code. Qed.
Print Assumptions C17_from_code_any_is_the_code.

Theorem C17_history_from_code_plain_refused : forall srt h kids a d, nth_error h a = Some d -> d_cc d = false ->
  exists k, step srt (h, kids) (OFromCode (RConcept a)) = ((h, kids), VErr k) /\ (k = "TypeError" \/ k = "AttributeError").
Proof. exact step_from_code_plain. Qed.
Print Assumptions C17_history_from_code_plain_refused.

(* ---- == between ANY two objects of ANY reachable heap (concepts, plain datasets, nested items, any mix):
        never an exception, same answer in both operand orders ---- *)
Theorem C17_reachable_eq_symmetric_total : forall srt ops h kids vs a b da db,
  run_ops srt ([], []) ops = ((h, kids), vs) -> nth_error h a = Some da -> nth_error h b = Some db ->
  oeq srt (h, kids) a b = oeq srt (h, kids) b a /\ exists r : bool, oeq srt (h, kids) a b = VB r.
Proof. exact reachable_eq_symmetric_total. Qed.
Print Assumptions C17_reachable_eq_symmetric_total.

(* the same for any two objects of ANY heap (also of the larger machine) that are, with their nested items, each a plain
   dataset or exactly one code *)
Theorem C17_eq_symmetric_total_local : forall srt h kids a b da db,
  nth_error h a = Some da -> nth_error h b = Some db -> okc da -> okc db ->
  (forall c x, kid_of kids a = Some c -> nth_error h c = Some x -> okc x) ->
  (forall c x, kid_of kids b = Some c -> nth_error h c = Some x -> okc x) ->
  oeq srt (h, kids) a b = oeq srt (h, kids) b a /\ exists r : bool, oeq srt (h, kids) a b = VB r.
Proof. exact oeq_sym_total_local. Qed.
Print Assumptions C17_eq_symmetric_total_local.

(* ---- a nested sequence item goes through the API itself ---- *)
Theorem C17_nested_item_through_api : forall srt h kids p c dc, kid_of kids p = Some c -> nth_error h c = Some dc ->
  (wf_concept dc ->
     step srt (h, kids) (OFromDataset (Addr c) false) = ((update h c (set_cc dc), kids), vnat c) /\
     nth_error (update h c (set_cc dc)) c = Some (set_cc dc) /\ kid_of kids p = Some c /\
     (forall i, i <> c -> nth_error (update h c (set_cc dc)) i = nth_error h i)) /\
  (wf_concept dc -> kid_of kids c = None ->
     step srt (h, kids) (OFromDataset (Addr c) true) = (((h ++ [set_cc dc])%list, kids), vnat (length h)) /\
     (forall i, (i < length h)%nat -> nth_error (h ++ [set_cc dc])%list i = nth_error h i)) /\
  (~ wf_concept dc -> forall copy,
     step srt (h, kids) (OFromDataset (Addr c) copy) = ((h, kids), VErr "AttributeError")).
Proof. exact item_through_api. Qed.
Print Assumptions C17_nested_item_through_api.

Example C17_nested_item_example :
  snd (run_ops (fun _ => None) ([], []) ex_item_ops) =
    [VZ 0; VZ 1; VZ 2; VZ 3; VB true; VB true; VL [VS "SRTT-04000"; VB true]; VErr "AttributeError"; VB true].
Proof. exact ex_item_run. Qed.
Print Assumptions C17_nested_item_example.

(* ---- the larger machine: attribute deletions and shallow copies ---- *)
Theorem C17_larger_machine_conservative : forall srt ops st,
  run_ops2 srt (st, []) (map Std ops) = ((fst (run_ops srt st ops), []), snd (run_ops srt st ops)).
Proof. exact run_ops2_conservative. Qed.
Print Assumptions C17_larger_machine_conservative.

Theorem C17_larger_machine_invariant : forall srt ops, LInv (fst (run_ops2 srt (([], []), []) ops)).
Proof. exact reachable2_linv. Qed.
Print Assumptions C17_larger_machine_invariant.

Theorem C17_one_store_one_code : forall srt ops h kids l vs b c db dc,
  run_ops2 srt (([], []), []) ops = (((h, kids), l), vs) ->
  root l b = root l c -> nth_error h b = Some db -> nth_error h c = Some dc ->
  fields db = fields dc /\
  hash_key (HD db) = hash_key (HD dc) /\ view_self (HD db) = view_self (HD dc) /\ view_other (HD db) = view_other (HD dc) /\
  fd_check db = fd_check dc /\ (wf_concept db <-> wf_concept dc).
Proof. exact reachable2_one_store_one_code. Qed.
Print Assumptions C17_one_store_one_code.

Theorem C17_shallow_copy_stays_equal : forall srt ops h kids l vs b c db dc,
  run_ops2 srt (([], []), []) ops = (((h, kids), l), vs) ->
  root l b = root l c -> nth_error h b = Some db -> nth_error h c = Some dc -> wf_concept db ->
  obj_eq srt (HD db) (HD dc) = Ok true /\ obj_eq srt (HD dc) (HD db) = Ok true /\
  hash_key (HD db) = hash_key (HD dc) /\ exists k, hash_key (HD db) = Ok k.
Proof. exact reachable2_shallow_equal. Qed.
Print Assumptions C17_shallow_copy_stays_equal.

Theorem C17_shallow_copy_is_linked : forall srt h kids l a d, nth_error h a = Some d -> LInv ((h, kids), l) ->
  exists kids' l', step2 srt ((h, kids), l) (OShallow a) = ((((h ++ [d])%list, kids'), l'), vnat (length h)) /\
    root l' (length h) = root l' a /\ nth_error h (length h) = None /\
    (forall c, kid_of kids a = Some c -> kid_of kids' (length h) = Some c) /\
    (forall p, p <> length h -> kid_of kids' p = kid_of kids p).
Proof. exact shallow_is_linked. Qed.
Print Assumptions C17_shallow_copy_is_linked.

Theorem C17_malformed_hash_refused : forall d, d_cc d = true ->
  match d_scheme d, ds_value d with
  | None, _ => hash_obs d = Err "AttributeError"
  | Some s, None => hash_obs d = Err "TypeError"
  | Some s, Some v => hash_obs d = Ok ((s ++ v)%string, true)
  end.
Proof. exact hash_obs_cases. Qed.
Print Assumptions C17_malformed_hash_refused.

Example C17_larger_machine_example :
  run_history2 [] ex2_ops =
  VL [VL [VZ 0; VZ 1; VZ 1; VL [VS "SRTABCDEFGHIJKLMNOPQ"; VB true]; VB true; VZ 0; VErr "AttributeError"];
      VL [VL [VB true; VNone; VS "ABCDEFGHIJKLMNOPQ"; VNone; VS "Breast"; VNone; VNone];
          VL [VB true; VNone; VS "ABCDEFGHIJKLMNOPQ"; VNone; VS "Breast"; VNone; VNone]];
      VL [VNone; VNone]; VL [VErr "AttributeError"; VErr "AttributeError"]].
Proof. exact ex2_run. Qed.
Print Assumptions C17_larger_machine_example.

(* ---- the file round trip per value representation (NUL padding, white space of UR) ---- *)
Theorem C17_rstrip_by_rule : forall p s,
  (exists t, s = rstrip_by p s ++ t /\ sall p t = true) /\ last_by p (rstrip_by p s) = false /\
  (forall x t, s = x ++ t -> sall p t = true -> last_by p x = false -> rstrip_by p s = x) /\
  (rstrip_by p s = s <-> last_by p s = false).
Proof. exact rstrip_by_rule. Qed.
Print Assumptions C17_rstrip_by_rule.

Theorem C17_store_file_load_per_vr : forall v s m ver, slen m <= 64 ->
  exists d', store_file_load_vr v s m ver = Ok d' /\
    attr_slot (select_attr v) d' = Some (rstrip_by (strip_of (select_attr v)) v) /\
    (forall a, a <> select_attr v -> attr_slot a d' = None) /\
    ds_value d' = Some (rstrip_by (strip_of (select_attr v)) v) /\ ds_scheme d' = Ok (rstrip_by is_pad s) /\
    ds_meaning d' = Ok (rstrip_by is_pad m) /\ ds_version d' = option_map (rstrip_by is_pad) ver /\ d_cc d' = true.
Proof. exact store_file_load_vr_spec. Qed.
Print Assumptions C17_store_file_load_per_vr.

(* "read back unchanged" at full strength for the per-VR reader: no attribute ends in a character its VR treats as padding
   => the concept read IS the concept written *)
Theorem C17_store_file_load_per_vr_unchanged : forall v s m ver, slen m <= 64 ->
  last_by (strip_of (select_attr v)) v = false -> last_by is_pad s = false -> last_by is_pad m = false ->
  match ver with Some x => last_by is_pad x = false | None => True end ->
  exists d', store_file_load_vr v s m ver = Ok d' /\ init v s m ver = Ok d' /\
    attr_slot (select_attr v) d' = Some v /\ ds_value d' = Some v /\ ds_scheme d' = Ok s /\ ds_meaning d' = Ok m /\
    ds_version d' = ver.
Proof. exact store_file_load_vr_unchanged. Qed.
Print Assumptions C17_store_file_load_per_vr_unchanged.

(* on ordinary text (no NUL, no control characters) the per-VR reader is the blank-only reader of C17_store_file_load *)
Theorem C17_per_vr_reader_on_text : forall v s m ver,
  sall textc v = true -> sall textc s = true -> sall textc m = true -> otext ver ->
  store_file_load_vr v s m ver = store_file_load v s m ver.
Proof. exact store_file_load_vr_text. Qed.
Print Assumptions C17_per_vr_reader_on_text.

Theorem C17_vr_padding_observation :
  exists d1 d2 d3 d4,
    store_file_load_vr (String "a" (String "000" "")) "DCM" "m" None = Ok d1 /\ ds_value d1 = Some "a" /\
    store_file_load_vr (String "u" (String "r" (String "n" (String "000" "")))) "DCM" "m" None = Ok d2 /\
    ds_value d2 = Some (String "u" (String "r" (String "n" (String "000" "")))) /\
    store_file_load_vr (String "u" (String "r" (String "n" (String "009" "")))) "DCM" "m" None = Ok d3 /\ ds_value d3 = Some "urn" /\
    store_file_load_vr (String "a" (String "009" "")) "DCM" "m" None = Ok d4 /\ ds_value d4 = Some (String "a" (String "009" "")).
Proof. exact vr_padding_observation. Qed.
Print Assumptions C17_vr_padding_observation.
