(* C17 - property theorems.  Nothing but statements, `exact <lemma>` and Print Assumptions.
   [srt] (the SRT->SCT table) and [H] (the string hash) are universally quantified: every
   theorem holds for every table and every hash function.
   Vocabulary (C17_Proofs): [oview o] = (value, scheme designator, scheme version) read through the
   accessors; [self_ready o] = o may stand on the left of == (a concept needs CodeMeaning and
   CodingSchemeDesignator); [other_ready o] = on the right (CodingSchemeDesignator);
   [wf_concept d] = exactly one code-value attribute, meaning and scheme present;
   [scheme_value o] = the (scheme, value) pair that is hashed. *)
From Coq Require Import String ZArith List Bool.
From HD Require Import Base.Val C17_Model C17_Proofs.
Import ListNotations.
Open Scope string_scope.
Open Scope Z_scope.

(* ---- equality is an equivalence relation, for every alias table and every mix of classes ---- *)
Theorem C17_eq_reflexive : forall srt a, self_ready a = true -> obj_eq srt a a = Ok true.
Proof. exact eq_refl_obj. Qed.
Print Assumptions C17_eq_reflexive.

Theorem C17_eq_symmetric : forall srt a b, self_ready a = true -> self_ready b = true ->
  obj_eq srt a b = obj_eq srt b a.
Proof. exact eq_sym_obj. Qed.
Print Assumptions C17_eq_symmetric.

Theorem C17_eq_transitive : forall srt a b c,
  obj_eq srt a b = Ok true -> obj_eq srt b c = Ok true -> obj_eq srt a c = Ok true.
Proof. exact eq_trans_obj. Qed.
Print Assumptions C17_eq_transitive.

Theorem C17_eq_equivalence : forall srt,
  (forall a, self_ready a = true -> obj_eq srt a a = Ok true) /\
  (forall a b, self_ready a = true -> self_ready b = true -> obj_eq srt a b = Ok true -> obj_eq srt b a = Ok true) /\
  (forall a b c, obj_eq srt a b = Ok true -> obj_eq srt b c = Ok true -> obj_eq srt a c = Ok true).
Proof. exact eq_equivalence. Qed.
Print Assumptions C17_eq_equivalence.

(* == answers exactly when the attributes it reads exist; the only error is AttributeError *)
Theorem C17_eq_defined_iff : forall srt a b,
  (exists r, obj_eq srt a b = Ok r) <-> (self_ready a = true /\ other_ready b = true).
Proof. exact eq_defined_iff. Qed.
Print Assumptions C17_eq_defined_iff.

Theorem C17_eq_error_kind : forall srt a b k, obj_eq srt a b = Err k -> k = "AttributeError".
Proof. exact eq_error_kind. Qed.
Print Assumptions C17_eq_error_kind.

(* decided by value, scheme and version ... *)
Theorem C17_eq_decided_by_value_scheme_version : forall srt a a' b b',
  self_ready a = true -> self_ready a' = true -> oview a = oview a' -> oview b = oview b' ->
  obj_eq srt a b = obj_eq srt a' b'.
Proof. exact eq_decided_by_view. Qed.
Print Assumptions C17_eq_decided_by_value_scheme_version.

Theorem C17_eq_is_kernel_of_norm : forall srt a b va vb,
  self_ready a = true -> oview a = Some va -> oview b = Some vb ->
  (obj_eq srt a b = Ok true <-> norm srt va = norm srt vb).
Proof. exact eq_kernel_of_norm. Qed.
Print Assumptions C17_eq_is_kernel_of_norm.

Theorem C17_eq_without_alias_is_identity_of_triples : forall srt a b,
  unaliased srt a -> unaliased srt b -> (code_eq srt a b = true <-> a = b).
Proof. exact code_eq_unaliased. Qed.
Print Assumptions C17_eq_without_alias_is_identity_of_triples.

Theorem C17_eq_alias : forall srt x y ver, srt x = Some y ->
  code_eq srt (Some x, "SRT", ver) (Some y, "SCT", ver) = true.
Proof. exact code_eq_alias. Qed.
Print Assumptions C17_eq_alias.

Theorem C17_eq_needs_same_version : forall srt a b, code_eq srt a b = true -> snd a = snd b.
Proof. exact code_eq_version. Qed.
Print Assumptions C17_eq_needs_same_version.

(* ... and never by meaning *)
Theorem C17_eq_ignores_meaning : forall srt a b m,
  (self_ready a = true -> obj_eq srt (with_meaning m a) b = obj_eq srt a b) /\
  obj_eq srt a (with_meaning m b) = obj_eq srt a b.
Proof. exact eq_ignores_meaning. Qed.
Print Assumptions C17_eq_ignores_meaning.

(* all four class pairings give the same answer *)
Theorem C17_eq_repr_independent : forall srt c1 c2 d1 d2, init_code c1 = Ok d1 -> init_code c2 = Ok d2 ->
  let r := Ok (code_eq srt (pd_view c1) (pd_view c2)) in
  obj_eq srt (HD d1) (HD d2) = r /\ obj_eq srt (HD d1) (PD c2) = r /\
  obj_eq srt (PD c1) (HD d2) = r /\ obj_eq srt (PD c1) (PD c2) = r.
Proof. exact eq_repr_independent. Qed.
Print Assumptions C17_eq_repr_independent.

(* any concept (whatever attribute holds its value, however it was made) is interchangeable with the Code
   that has the same accessors, on either side of == *)
Theorem C17_eq_class_independent : forall srt d c x, self_ready (HD d) = true -> oview (HD d) = Some (pd_view c) ->
  obj_eq srt (HD d) x = obj_eq srt (PD c) x /\ obj_eq srt x (HD d) = obj_eq srt x (PD c).
Proof. exact eq_class_independent. Qed.
Print Assumptions C17_eq_class_independent.

Theorem C17_ne_is_negation : forall srt a b r, obj_ne srt a b = Ok r <-> obj_eq srt a b = Ok (negb r).
Proof. exact ne_is_negation. Qed.
Print Assumptions C17_ne_is_negation.

(* ---- hash -------------------------------------------------------------------------------- *)
Theorem C17_hash_agrees : forall (H : string -> Z) a b p,
  scheme_value a = Some p -> scheme_value b = Some p ->
  obj_hash H a = obj_hash H b /\ obj_hash H a = Ok (H (fst p ++ snd p)).
Proof. exact hash_agrees. Qed.
Print Assumptions C17_hash_agrees.

Theorem C17_hash_defined_iff : forall (H : string -> Z) o,
  (exists z, obj_hash H o = Ok z) <-> scheme_value o <> None.
Proof. exact hash_defined_iff. Qed.
Print Assumptions C17_hash_defined_iff.

Theorem C17_eq_implies_hash_unless_alias : forall srt a b va vb pa pb,
  obj_eq srt a b = Ok true -> oview a = Some va -> oview b = Some vb ->
  unaliased srt va -> unaliased srt vb -> scheme_value a = Some pa -> scheme_value b = Some pb ->
  hash_key a = hash_key b /\ forall H, obj_hash H a = obj_hash H b.
Proof. exact eq_hash_unaliased. Qed.
Print Assumptions C17_eq_implies_hash_unless_alias.

(* sets / dicts: for equal scheme and value the lookup answers what == answers *)
Theorem C17_set_lookup : forall srt a b p, self_ready a = true ->
  scheme_value a = Some p -> scheme_value b = Some p ->
  in_set_of srt a b = obj_eq srt a b.
Proof. exact set_lookup. Qed.
Print Assumptions C17_set_lookup.

Theorem C17_set_treats_as_one : forall srt a b p, self_ready a = true ->
  scheme_value a = Some p -> scheme_value b = Some p -> oview a = oview b ->
  in_set_of srt a b = Ok true.
Proof. exact set_treats_as_one. Qed.
Print Assumptions C17_set_treats_as_one.

Theorem C17_set_lookup_sound : forall srt a b, in_set_of srt a b = Ok true -> obj_eq srt a b = Ok true.
Proof. exact set_lookup_true. Qed.
Print Assumptions C17_set_lookup_sound.

(* the gap the property statement names: alias-equal codes hash differently (pydicom) *)
Theorem C17_alias_hash_differs_refuted :
  exists srt a b, obj_eq srt a b = Ok true /\ obj_eq srt b a = Ok true /\
                  (exists ka kb, hash_key a = Ok ka /\ hash_key b = Ok kb /\ ka <> kb).
Proof. exact alias_hash_differs. Qed.
Print Assumptions C17_alias_hash_differs_refuted.

(* ---- storing and reading back ------------------------------------------------------------- *)
Theorem C17_store_load : forall v s m ver d, init v s m ver = Ok d ->
  attr_slot (select_attr v) d = Some v /\
  (forall a, a <> select_attr v -> attr_slot a d = None) /\
  ds_value d = Some v /\ ds_scheme d = Ok s /\ ds_meaning d = Ok m /\ ds_version d = ver /\
  count_cv d = 1 /\ d_cc d = true.
Proof. exact store_load. Qed.
Print Assumptions C17_store_load.

Theorem C17_attribute_rule : forall v,
  (select_attr v = AURNCodeValue <-> is_uri_form v = true) /\
  (select_attr v = ALongCodeValue <-> is_uri_form v = false /\ 16 < slen v) /\
  (select_attr v = ACodeValue <-> is_uri_form v = false /\ slen v <= 16).
Proof. exact select_attr_rule. Qed.
Print Assumptions C17_attribute_rule.

Theorem C17_uri_form : forall v,
  is_uri_form v = true <-> (exists t, v = "urn" ++ t) \/ (exists p t, v = p ++ "://" ++ t).
Proof. exact is_uri_form_spec. Qed.
Print Assumptions C17_uri_form.

Theorem C17_init_accepts_iff : forall v s m ver, (exists d, init v s m ver = Ok d) <-> slen m <= 64.
Proof. exact init_ok_iff. Qed.
Print Assumptions C17_init_accepts_iff.

Theorem C17_init_refuses : forall v s m ver k, init v s m ver = Err k -> k = "ValueError" /\ 64 < slen m.
Proof. exact init_err. Qed.
Print Assumptions C17_init_refuses.

(* ---- from_dataset ------------------------------------------------------------------------------ *)
Theorem C17_from_dataset_exactly_one : forall h a d copy, nth_error h a = Some d ->
  ((exists r, from_dataset h (Addr a) copy = Ok r) <-> wf_concept d).
Proof. exact from_dataset_ok_iff. Qed.
Print Assumptions C17_from_dataset_exactly_one.

Theorem C17_exactly_one_means : forall d,
  count_cv d = 1 <->
  (d_cv d <> None /\ d_lcv d = None /\ d_urn d = None) \/
  (d_cv d = None /\ d_lcv d <> None /\ d_urn d = None) \/
  (d_cv d = None /\ d_lcv d = None /\ d_urn d <> None).
Proof. exact count_cv_one. Qed.
Print Assumptions C17_exactly_one_means.

Theorem C17_from_dataset_refuses : forall h x copy k, from_dataset h x copy = Err k ->
  match x with
  | NotDataset => k = "TypeError"
  | Addr a => forall d, nth_error h a = Some d -> k = "AttributeError" /\ ~ wf_concept d
  end.
Proof. exact from_dataset_err. Qed.
Print Assumptions C17_from_dataset_refuses.

(* copy: fresh object, heap (hence the original, its class included) untouched, later writes to the
   result never reach the original *)
Theorem C17_from_dataset_copy_is_fresh : forall h a d h' r, nth_error h a = Some d ->
  from_dataset h (Addr a) true = Ok (h', r) ->
  r = length h /\ r <> a /\ nth_error h r = None /\
  nth_error h' r = Some (set_cc d) /\
  (forall i, (i < length h)%nat -> nth_error h' i = nth_error h i) /\
  (forall d' i, (i < length h)%nat -> nth_error (update h' r d') i = nth_error h i).
Proof. exact from_dataset_copy. Qed.
Print Assumptions C17_from_dataset_copy_is_fresh.

(* no copy: the same object, converted in place; writes to the result are writes to the original *)
Theorem C17_from_dataset_nocopy_is_same : forall h a d h' r, nth_error h a = Some d ->
  from_dataset h (Addr a) false = Ok (h', r) ->
  r = a /\ length h' = length h /\ nth_error h' a = Some (set_cc d) /\
  (forall i, i <> a -> nth_error h' i = nth_error h i) /\
  (forall d', nth_error (update h' r d') a = Some d').
Proof. exact from_dataset_alias. Qed.
Print Assumptions C17_from_dataset_nocopy_is_same.

(* what was converted reads as the one code it holds and can be compared and hashed *)
Theorem C17_converted_reads : forall d, wf_concept d ->
  (exists a v, attr_slot a d = Some v /\ ds_value (set_cc d) = Some v /\ forall a', a' <> a -> attr_slot a' d = None) /\
  self_ready (HD (set_cc d)) = true /\ scheme_value (HD (set_cc d)) <> None.
Proof. exact converted_reads. Qed.
Print Assumptions C17_converted_reads.

(* ---- from_code ------------------------------------------------------------------------------------ *)
Theorem C17_from_code_concept_is_same : forall h a, from_code h (RConcept a) = Ok (h, a).
Proof. exact from_code_concept. Qed.
Print Assumptions C17_from_code_concept_is_same.

Theorem C17_from_code_code : forall srt h c h' r, from_code h (RCode c) = Ok (h', r) ->
  exists d, init_code c = Ok d /\ r = length h /\ nth_error h' r = Some d /\
            (forall i, (i < length h)%nat -> nth_error h' i = nth_error h i) /\
            obj_eq srt (HD d) (PD c) = Ok true /\ obj_eq srt (PD c) (HD d) = Ok true /\
            hash_key (HD d) = hash_key (PD c).
Proof. exact from_code_code. Qed.
Print Assumptions C17_from_code_code.

Theorem C17_from_code_refuses : forall h c k, from_code h (RCode c) = Err k ->
  k = "ValueError" /\ 64 < slen (c_meaning c).
Proof. exact from_code_err. Qed.
Print Assumptions C17_from_code_refuses.

(* ---- non-vacuity: concrete, non-trivial instances -------------------------------------------------- *)
Definition ex_tbl := assoc [("T-04000", "76752008")].
Definition ex_srt := Code "T-04000" "SRT" "Breast" None.
Definition ex_sct := Code "76752008" "SCT" "breast structure" None.
Definition ex_urn := Code "urn:oid:1.2" "DCM" "short urn" (Some "1").

Example C17_example :
  (* an SRT concept equals its SCT alias given as pydicom Code, both ways, meanings differing *)
  (exists d, init_code ex_srt = Ok d /\ self_ready (HD d) = true /\
             obj_eq ex_tbl (HD d) (PD ex_sct) = Ok true /\ obj_eq ex_tbl (PD ex_sct) (HD d) = Ok true /\
             obj_eq (fun _ => None) (HD d) (PD ex_sct) = Ok false) /\
  (* a URN of 11 characters goes to URNCodeValue, 17 plain characters to LongCodeValue *)
  select_attr "urn:oid:1.2" = AURNCodeValue /\ select_attr "ABCDEFGHIJKLMNOPQ" = ALongCodeValue /\
  select_attr "ABCDEFGHIJKLMNOP" = ACodeValue /\ select_attr "http://x.org/c#1" = AURNCodeValue /\
  (* a dataset with two code-value attributes is refused, one is accepted and copied to a fresh address *)
  from_dataset [DS (Some "a") (Some "b") None (Some "m") (Some "DCM") None false] (Addr 0%nat) true = Err "AttributeError" /\
  from_dataset [DS None (Some "b") None (Some "m") (Some "DCM") None false] (Addr 0%nat) true =
    Ok ([DS None (Some "b") None (Some "m") (Some "DCM") None false;
         DS None (Some "b") None (Some "m") (Some "DCM") None true], 1%nat) /\
  wf_concept (DS None (Some "b") None (Some "m") (Some "DCM") None false).
Proof.
  split; [eexists; repeat split|]. repeat split; try reflexivity; cbn; discriminate.
Qed.
Print Assumptions C17_example.
