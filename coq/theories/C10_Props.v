(* C10 - property theorems.  Nothing but statements, `exact <lemma>` and Print Assumptions.
   Arithmetic is exact (Q); equality of coordinates is Qeq componentwise ([veq], [aeq]).
   Unit direction cosines enter as the hypothesis [orthonormal r c]. *)
From Coq Require Import String Ascii ZArith List Bool QArith Qabs Qround.
From HD Require Import Base.Val C10_Model C10_Proofs C10_Proofs_T C10_Proofs_L C10_Proofs_V C10_Proofs_D C10_Proofs_S C10_Proofs_X C10_Proofs_R.
Import ListNotations.
Open Scope Q_scope.

(* create_rotation_matrix (all 8 index conventions, slices first or last, both handednesses): orthogonal columns, squared lengths = spacings squared, sign(det) = handedness *)
Theorem C10_rotation_matrix_shape r c conv d0 d1 sf hs h sr sc ss :
  orthonormal r c -> normalize_pix conv = Ok (d0, d1) -> hand_of_string hs = Ok h ->
  0 < sr -> 0 < sc -> 0 < ss ->
  exists M, create_rotation_matrix [vx r; vy r; vz r; vx c; vy c; vz c] conv sf hs (asp sr sc) ss = Ok M /\
    ortho_cols M /\ veq (norms_sq M) (vsq (axis_spacings d0 d1 sf sr sc ss)) /\
    (0 < det M <-> h = RH) /\ (det M < 0 <-> h = LH).
Proof. exact (rotation_matrix_shape r c conv d0 d1 sf hs h sr sc ss). Qed.
Print Assumptions C10_rotation_matrix_shape.

(* create_affine_matrix_from_attributes: same shape, index 0 -> position; conventions with L or U refused *)
Theorem C10_affine_shape pos r c conv d0 d1 sf hs h sr sc ss :
  orthonormal r c -> normalize_pix conv = Ok (d0, d1) -> hand_of_string hs = Ok h ->
  0 < sr -> 0 < sc -> 0 < ss ->
  (no_LU d0 d1 = true ->
     exists A, affine_from_attributes (apos pos) (aori r c) (asp sr sc) ss conv sf hs = Ok A /\
       ortho_cols (lin A) /\
       veq (norms_sq (lin A)) (vsq (axis_spacings d0 d1 sf sr sc ss)) /\
       veq (aapply A (V3 0 0 0)) pos /\
       (0 < det (lin A) <-> h = RH) /\ (det (lin A) < 0 <-> h = LH)) /\
  (no_LU d0 d1 = false ->
     exists k, affine_from_attributes (apos pos) (aori r c) (asp sr sc) ss conv sf hs = Err k).
Proof. exact (affine_shape pos r c conv d0 d1 sf hs h sr sc ss). Qed.
Print Assumptions C10_affine_shape.

(* non-positive pixel spacing is refused *)
Theorem C10_create_rotation_matrix_refuses_spacing ori conv sf hs sr sc ss :
  sr <= 0 \/ sc <= 0 -> exists k, create_rotation_matrix ori conv sf hs (ASeq [sr; sc]) ss = Err k.
Proof. exact (create_rotation_matrix_refuses_spacing ori conv sf hs sr sc ss). Qed.
Print Assumptions C10_create_rotation_matrix_refuses_spacing.

(* R2P o P2R = id on the plane, P2R o R2P = id on in-plane points; same for image coordinates *)
Theorem C10_inverse_pairs pos r c sr sc ss :
  orthonormal r c -> 0 < sr -> 0 < sc -> ~ ss == 0 ->
  exists P Rv I Ri,
    p2r_make (apos pos) (aori r c) (asp sr sc) = Ok P /\
    r2p_make (apos pos) (aori r c) (asp sr sc) ss = Ok Rv /\
    i2r_make (apos pos) (aori r c) (asp sr sc) = Ok I /\
    r2i_make (apos pos) (aori r c) (asp sr sc) ss = Ok Ri /\
    (forall i j, veq (aapply Rv (aapply P (V3 i j 0))) (V3 i j 0)) /\
    (forall x, vz (aapply Rv x) == 0 ->
               veq (aapply P (V3 (vx (aapply Rv x)) (vy (aapply Rv x)) 0)) x) /\
    (forall u v, veq (aapply Ri (aapply I (V3 u v 0))) (V3 u v 0)) /\
    (forall x, vz (aapply Ri x) == 0 ->
               veq (aapply I (V3 (vx (aapply Ri x)) (vy (aapply Ri x)) 0)) x).
Proof. exact (inverse_pairs pos r c sr sc ss). Qed.
Print Assumptions C10_inverse_pairs.

(* integer indices survive the rounded (and slice-dropping) ReferenceToPixel transformer *)
Theorem C10_inverse_pairs_rounded pos r c sr sc ss (zs : list (Z * Z)) :
  orthonormal r c -> 0 < sr -> 0 < sc -> ~ ss == 0 ->
  exists P Rv,
    p2r_make (apos pos) (aori r c) (asp sr sc) = Ok P /\
    r2p_make (apos pos) (aori r c) (asp sr sc) ss = Ok Rv /\
    r2p_call Rv true false (call_2to3 P (map zpt zs)) = Ok (OutZ3 (map (fun p => (fst p, snd p, 0%Z)) zs)) /\
    (zs <> [] -> r2p_call Rv true true (call_2to3 P (map zpt zs)) = Ok (OutZ2 zs)).
Proof. exact (inverse_pairs_rounded pos r c sr sc ss zs). Qed.
Print Assumptions C10_inverse_pairs_rounded.

(* zero slice spacing: the inverse constructors refuse (singular matrix) *)
Theorem C10_r2p_make_singular pos r c sr sc ss : 0 < sr -> 0 < sc -> ss == 0 ->
  r2p_make (apos pos) (aori r c) (asp sr sc) ss = Err EValue.
Proof. exact (r2p_make_singular pos r c sr sc ss). Qed.
Print Assumptions C10_r2p_make_singular.

(* np.linalg.inv model (adjugate/det) is a two-sided inverse whenever it succeeds *)
Theorem C10_inv3_ok M Mi : inv3 M = Ok Mi ->
  forall p, veq (mapply Mi (mapply M p)) p /\ veq (mapply M (mapply Mi p)) p.
Proof. exact (inv3_ok M Mi). Qed.
Print Assumptions C10_inv3_ok.

(* I2R(c+1/2, r+1/2) = P2R(c, r) for every geometry accepted by the constructor *)
Theorem C10_half_pixel pos ori sp P :
  p2r_make pos ori sp = Ok P ->
  exists I, i2r_make pos ori sp = Ok I /\
    forall i j, veq (aapply I (V3 (i + (1 # 2)) (j + (1 # 2)) 0)) (aapply P (V3 i j 0)).
Proof. exact (half_pixel pos ori sp P). Qed.
Print Assumptions C10_half_pixel.

(* R2I(x) = R2P(x) + (1/2, 1/2, 0) *)
Theorem C10_half_pixel_inverse pos ori sp ss Rv :
  r2p_make pos ori sp ss = Ok Rv ->
  exists Ri, r2i_make pos ori sp ss = Ok Ri /\
    forall x, veq (aapply Ri x) (vadd (aapply Rv x) (V3 (1 # 2) (1 # 2) 0)).
Proof. exact (half_pixel_inverse pos ori sp ss Rv). Qed.
Print Assumptions C10_half_pixel_inverse.

(* P2P = R2P_to o P2R_from *)
Theorem C10_p2p_via_reference pf of_ sf pt ot st T :
  p2p_make pf of_ sf pt ot st = Ok T ->
  exists P Rv, p2r_make pf of_ sf = Ok P /\ r2p_make pt ot st 1 = Ok Rv /\
    forall p, veq (aapply T p) (aapply Rv (aapply P p)).
Proof. exact (p2p_via_reference pf of_ sf pt ot st T). Qed.
Print Assumptions C10_p2p_via_reference.

(* I2I = R2I_to o I2R_from *)
Theorem C10_i2i_via_reference pf of_ sf pt ot st T :
  i2i_make pf of_ sf pt ot st = Ok T ->
  exists I Ri, i2r_make pf of_ sf = Ok I /\ r2i_make pt ot st 1 = Ok Ri /\
    forall p, veq (aapply T p) (aapply Ri (aapply I p)).
Proof. exact (i2i_via_reference pf of_ sf pt ot st T). Qed.
Print Assumptions C10_i2i_via_reference.

(* batch P2P call = first two coordinates of the batch composition *)
Theorem C10_p2p_call_via_reference T P Rv pts :
  (forall p, veq (aapply T p) (aapply Rv (aapply P p))) ->
  Forall2 (fun q v => fst q == vx v /\ snd q == vy v) (call_2to2 T pts) (call_3to3 Rv (call_2to3 P pts)).
Proof. exact (p2p_call_via_reference T P Rv pts). Qed.
Print Assumptions C10_p2p_call_via_reference.

(* pairs judged non-coplanar are refused by both pair transformers *)
Theorem C10_non_coplanar_refused pa oa sa pb ob sb :
  are_images_coplanar pa oa pb ob = Ok false ->
  p2p_make (ASeq pa) (ASeq oa) sa (ASeq pb) (ASeq ob) sb = Err EValue /\
  i2i_make (ASeq pa) (ASeq oa) sa (ASeq pb) (ASeq ob) sb = Err EValue.
Proof. exact (non_coplanar_refused pa oa sa pb ob sb). Qed.
Print Assumptions C10_non_coplanar_refused.

(* what _are_images_coplanar decides *)
Theorem C10_coplanar_core_iff tol pa ra ca pb rb cb :
  coplanar_core tol pa ra ca pb rb cb = true <->
  (1 - Qabs (dot (cross ra ca) (cross rb cb)) <= tol /\
   Qabs (dot (vsub pa pb) (cross ra ca)) < tol).
Proof. exact (coplanar_core_iff tol pa ra ca pb rb cb). Qed.
Print Assumptions C10_coplanar_core_iff.

(* map_pixel_into_coordinate_system = k-th row of the batch transformer *)
Theorem C10_helper_pixel_agrees pos ori sp P (zs : list (Z * Z)) k p :
  p2r_make pos ori sp = Ok P -> nth_error zs k = Some p ->
  exists v, map_pixel_into_coordinate_system (zpt p) pos ori sp = Ok v /\
            nth_error (call_2to3 P (map zpt zs)) k = Some v.
Proof. exact (helper_pixel_agrees pos ori sp P zs k p). Qed.
Print Assumptions C10_helper_pixel_agrees.

(* map_coordinate_into_pixel_matrix = k-th row of the rounded batch transformer *)
Theorem C10_helper_coordinate_agrees pos ori sp ss Rv (xs : list vec) k x :
  r2p_make pos ori sp ss = Ok Rv -> nth_error xs k = Some x ->
  exists t l, map_coordinate_into_pixel_matrix x pos ori sp ss = Ok t /\
              r2p_call Rv true false xs = Ok (OutZ3 l) /\ nth_error l k = Some t.
Proof. exact (helper_coordinate_agrees pos ori sp ss Rv xs k x). Qed.
Print Assumptions C10_helper_coordinate_agrees.

(* pixel (i, j) of the frame at zero-based offset (C0, R0) is pixel (C0+i, R0+j) of the total pixel matrix *)
Theorem C10_frame_vs_tpm r c sr sc pos C0 R0 i j :
  let T := Aff (rotRD r c sr sc 1) pos in
  let Fm := Aff (rotRD r c sr sc 1) (aapply T (V3 C0 R0 0)) in
  veq (aapply Fm (V3 i j 0)) (aapply T (V3 (C0 + i) (R0 + j) 0)).
Proof. exact (frame_vs_tpm r c sr sc pos C0 R0 i j). Qed.
Print Assumptions C10_frame_vs_tpm.

(* the valid patient orientations are exactly the 48 listed *)
Theorem C10_valid_po_iff c : (length c = 3%nat /\ valid_po c = true) <-> In c all48.
Proof. exact (valid_po_iff c). Qed.
Print Assumptions C10_valid_po_iff.

(* 48 distinct orientations *)
Theorem C10_all48_count : length all48 = 48%nat /\ NoDup all48.
Proof. exact (all48_count ). Qed.
Print Assumptions C10_all48_count.

(* closest orientation is invariant under positive scaling of the columns *)
Theorem C10_closest_letters_scale s0 s1 s2 u0 u1 u2 : 0 < s0 -> 0 < s1 -> 0 < s2 ->
  closest_letters (M3 (smul s0 u0) (smul s1 u1) (smul s2 u2)) = closest_letters (M3 u0 u1 u2).
Proof. exact (closest_letters_scale s0 s1 s2 u0 u1 u2). Qed.
Print Assumptions C10_closest_letters_scale.

(* letters -> matrix -> letters = identity for all 48 orientations and all positive spacings *)
Theorem C10_letters_matrix o s0 s1 s2 : In o all48 -> 0 < s0 -> 0 < s1 -> 0 < s2 ->
  exists M, rot_for_letters o [s0; s1; s2] = Ok M /\ get_closest_patient_orientation M = Ok o.
Proof. exact (letters_matrix o s0 s1 s2). Qed.
Print Assumptions C10_letters_matrix.

(* same through the string-level API *)
Theorem C10_letters_matrix_strings po o s0 s1 s2 : normalize_po po = Ok o -> 0 < s0 -> 0 < s1 -> 0 < s2 ->
  exists M, rotation_for_patient_orientation po (SSeq [s0; s1; s2]) = Ok M /\
            get_closest_patient_orientation M = Ok o.
Proof. exact (letters_matrix_strings po o s0 s1 s2). Qed.
Print Assumptions C10_letters_matrix_strings.

(* to_convention with equal conventions is the identity *)
Theorem C10_convention_identity A n0 n1 n2 a : In a all48 ->
  exists R, to_convention_letters A [n0; n1; n2] a a = Ok R /\ aeq R A.
Proof. exact (convention_identity A n0 n1 n2 a). Qed.
Print Assumptions C10_convention_identity.

(* to_convention composes: (a->b) then (b->c) = (a->c) for all 48^3 triples *)
Theorem C10_convention_compose A n0 n1 n2 a b c : In a all48 -> In b all48 -> In c all48 ->
  exists R1 R2 R3,
    to_convention_letters A [n0; n1; n2] a b = Ok R1 /\
    to_convention_letters R1 [n0; n1; n2] b c = Ok R2 /\
    to_convention_letters A [n0; n1; n2] a c = Ok R3 /\ aeq R2 R3.
Proof. exact (convention_compose A n0 n1 n2 a b c). Qed.
Print Assumptions C10_convention_compose.

(* row k of the result is +-(row of the same anatomical axis), negated iff the letters differ *)
Theorem C10_convention_meaning A n0 n1 n2 a b : In a all48 -> In b all48 ->
  exists f p R, to_convention_letters A [n0; n1; n2] a b = Ok R /\ aeq R (aop f p A) /\
    forall k, (k < 3)%nat -> exists x y, nth_error a (nthn p k) = Some x /\ nth_error b k = Some y /\
      axis_of x = axis_of y /\ nthb f (nthn p k) = negb (letter_eqb x y).
Proof. exact (convention_meaning A n0 n1 n2 a b). Qed.
Print Assumptions C10_convention_meaning.

(* malformed conventions are refused *)
Theorem C10_convention_refuses A shape from to :
  (forall o, normalize_po from <> Ok o) \/ (forall o, normalize_po to <> Ok o) ->
  exists k, transform_affine_to_convention A shape from to = Err k.
Proof. exact (convention_refuses A shape from to). Qed.
Print Assumptions C10_convention_refuses.

(* create_affine_matrix_from_components with position: orthogonal columns, lengths = spacings (scalar or per axis), index 0 -> position *)
Theorem C10_components_shape sp s0 s1 s2 D pos :
  sarg3 sp = Some (s0, s1, s2) -> 0 < s0 -> 0 < s1 -> 0 < s2 ->
  ortho_cols D -> veq (norms_sq D) (V3 1 1 1) ->
  exists A, affine_from_components sp (Some [vx pos; vy pos; vz pos]) None (Some (rows_of D)) None None = Ok A /\
    ortho_cols (lin A) /\ veq (norms_sq (lin A)) (V3 (s0 * s0) (s1 * s1) (s2 * s2)) /\
    veq (aapply A (V3 0 0 0)) pos.
Proof. exact (components_shape sp s0 s1 s2 D pos). Qed.
Print Assumptions C10_components_shape.

(* with center_position: the array centre maps to the given position *)
Theorem C10_components_centre sp s0 s1 s2 D cp n0 n1 n2 :
  sarg3 sp = Some (s0, s1, s2) -> 0 < s0 -> 0 < s1 -> 0 < s2 ->
  ortho_cols D -> veq (norms_sq D) (V3 1 1 1) ->
  exists A, affine_from_components sp None (Some [vx cp; vy cp; vz cp]) (Some (rows_of D)) None
              (Some [n0; n1; n2]) = Ok A /\
    ortho_cols (lin A) /\ veq (norms_sq (lin A)) (V3 (s0 * s0) (s1 * s1) (s2 * s2)) /\
    veq (aapply A (centre_index n0 n1 n2)) cp.
Proof. exact (components_centre sp s0 s1 s2 D cp n0 n1 n2). Qed.
Print Assumptions C10_components_centre.

(* with patient_orientation: matrix and letters agree *)
Theorem C10_components_letters sp s0 s1 s2 po o pos :
  sarg3 sp = Some (s0, s1, s2) -> 0 < s0 -> 0 < s1 -> 0 < s2 -> normalize_po po = Ok o ->
  exists A, affine_from_components sp (Some [vx pos; vy pos; vz pos]) None None (Some po) None = Ok A /\
    get_closest_patient_orientation (lin A) = Ok o /\ veq (aapply A (V3 0 0 0)) pos /\
    ortho_cols (lin A) /\ veq (norms_sq (lin A)) (V3 (s0 * s0) (s1 * s1) (s2 * s2)).
Proof. exact (components_letters sp s0 s1 s2 po o pos). Qed.
Print Assumptions C10_components_letters.

(* non-positive spacing refused *)
Theorem C10_components_refuse_nonpositive sp s0 s1 s2 position center direction po shape :
  sarg3 sp = Some (s0, s1, s2) -> s0 <= 0 \/ s1 <= 0 \/ s2 <= 0 ->
  exists k, affine_from_components sp position center direction po shape = Err k.
Proof. exact (components_refuse_nonpositive sp s0 s1 s2 position center direction po shape). Qed.
Print Assumptions C10_components_refuse_nonpositive.

(* VolumeGeometry.from_attributes accessors return the attributes they were built from *)
Theorem C10_volume_accessors pos r c sr sc ss nf rows cols :
  orthonormal r c -> 0 < sr -> 0 < sc -> 0 < ss ->
  exists G, geom_from_attributes (apos pos) (aori r c) (asp sr sc) ss nf rows cols = Ok G /\
    g_aff G = Aff (rotation_core r c PD PR true RH sr sc ss) pos /\ g_shape G = [nf; rows; cols] /\
    g_position G = pos /\
    veq (g_spacing_sq G) (V3 (ss * ss) (sr * sr) (sc * sc)) /\
    ortho_cols (lin (g_aff G)) /\
    g_handedness G = RH /\
    (forall s, g_spacing G = Some s -> veq s (V3 ss sr sc)) /\
    (forall dr dc, g_direction_cosines G = Some (dr, dc) -> veq dr r /\ veq dc c) /\
    g_center_position G = Ok (aapply (g_aff G) (centre_index nf rows cols)).
Proof. exact (volume_accessors pos r c sr sc ss nf rows cols). Qed.
Print Assumptions C10_volume_accessors.

(* the private helper's flip_indices path (unreachable from the public API, pinned by a baseline test)
   does not move the origin to the opposite corner: modelled as coded, kept out of the property *)
Example C10_flip_indices_refuted :
  exists A n0 n1 n2 R,
    transform_affine_matrix A [n0; n1; n2] (Some [true; false; false]) None None None = Ok R /\
    ~ veq (tr R) (aapply A (V3 (inject_Z n0 - 1) 0 0)).
Proof. exact flip_indices_refuted. Qed.
Print Assumptions C10_flip_indices_refuted.

(* non-vacuity: an oblique Pythagorean geometry meets the hypotheses, is accepted by every
   constructor, and the round trip returns the index *)
Example C10_example :
  orthonormal (V3 (3 # 5) (4 # 5) 0) (V3 (-4 # 5) (3 # 5) 0) /\
  In [oF; oP; oL] all48 /\
  run_r2p (ASeq [10; 20; 30]) (ASeq [3 # 5; 4 # 5; 0; -4 # 5; 3 # 5; 0]) (ASeq [1 # 2; 3 # 4]) (5 # 2) true false 3
          [[10 + (9 # 10) - (12 # 5); 20 + (6 # 5) + (9 # 5); 30]]
    = match run_r2p (ASeq [10; 20; 30]) (ASeq [3 # 5; 4 # 5; 0; -4 # 5; 3 # 5; 0]) (ASeq [1 # 2; 3 # 4]) (5 # 2) true false 3 []
      with VL [a; _] => VL [a; VL [VL [VZ 2; VZ 6; VZ 0]]] | v => v end /\
  run_po_roundtrip "FPL" (SSeq [1 # 2; 3; 7 # 8]) = VS "FPL" /\
  run_coplanar [0; 0; 0] [1; 0; 0; 0; 1; 0] [0; 0; 1 # 2] [1; 0; 0; 0; 1; 0] = VB false.
Proof.
  split; [unfold orthonormal; vm_compute; repeat split; reflexivity|].
  split; [vm_compute; tauto|]. split; [vm_compute; reflexivity|]. split; vm_compute; reflexivity.
Qed.
Print Assumptions C10_example.

(* ======================= transformers built from image datasets ======================= *)

(* END TO END, TILED_FULL: for every frame f, for_image(frame_number = f) and
   for_image(for_total_pixel_matrix = True) succeed, the 1-based offsets (C, R) yielded by
   iter_tiled_full_frame_data lie inside the total pixel matrix, and pixel (i, j) of the frame is pixel
   (C - 1 + i, R - 1 + j) of the total pixel matrix displaced along z by (focal plane - 1) * spacing;
   on the first focal plane the two coincide - for EVERY Z offset of the origin item, present or not *)
Theorem C10_tiled_full_frame_vs_tpm d x y oz r c sr sc oss f :
  is_tiled_full d x y oz r c sr sc oss -> 0 < sr -> 0 < sc ->
  (1 <= d_rows d)%Z -> (1 <= d_cols d)%Z -> (1 <= d_tpm_rows d)%Z -> (1 <= d_tpm_cols d)%Z ->
  (1 <= d_focal d)%Z -> (1 <= d_paths d)%Z ->
  (1 <= f <= d_paths d * d_focal d * tf_nt d)%Z ->
  exists t Fm T,
    tiled_full_frame d f = Ok t /\
    for_image_p2r d (Some f) false = Ok Fm /\
    for_image_p2r d None true = Ok T /\
    (1 <= tf_col t <= d_tpm_cols d)%Z /\ (1 <= tf_row t <= d_tpm_rows d)%Z /\
    (1 <= tf_focal t <= d_focal d)%Z /\
    (forall i j, veq (aapply Fm (V3 i j 0))
                     (vadd (aapply T (V3 (inject_Z (tf_col t) - 1 + i) (inject_Z (tf_row t) - 1 + j) 0))
                           (V3 0 0 (inject_Z (tf_focal t - 1) * opt_or oss 1)))) /\
    (tf_focal t = 1%Z ->
     forall i j, veq (aapply Fm (V3 i j 0))
                     (aapply T (V3 (inject_Z (tf_col t) - 1 + i) (inject_Z (tf_row t) - 1 + j) 0))).
Proof. exact (tiled_full_frame_vs_tpm d x y oz r c sr sc oss f). Qed.
Print Assumptions C10_tiled_full_frame_vs_tpm.

(* the frame yielded for frame number f, in closed form *)
Theorem C10_tiled_full_frame_ok d x y oz r c sr sc oss f :
  is_tiled_full d x y oz r c sr sc oss -> 0 < sr -> 0 < sc ->
  (1 <= d_rows d)%Z -> (1 <= d_cols d)%Z -> (1 <= d_tpm_rows d)%Z -> (1 <= d_tpm_cols d)%Z ->
  (1 <= d_focal d)%Z -> (1 <= d_paths d)%Z ->
  (1 <= f <= d_paths d * d_focal d * tf_nt d)%Z ->
  tiled_full_frame d f =
  Ok (TFrame (tf_k f / (tf_nt d * d_focal d) + 1) (tf_sl d f + 1)
             (tf_ci d f * d_cols d + 1) (tf_ri d f * d_rows d + 1)
             (aapply (Aff (rotRD r c sr sc 1) (V3 x y (opt_or oz 0 + inject_Z (tf_sl d f) * opt_or oss 1)))
                     (V3 (inject_Z (tf_ci d f * d_cols d)) (inject_Z (tf_ri d f * d_rows d)) 0))).
Proof. exact (tiled_full_frame_ok d x y oz r c sr sc oss f). Qed.
Print Assumptions C10_tiled_full_frame_ok.

(* PixelToPixelTransformer.for_images(frame f -> total pixel matrix) is accepted and adds the offset *)
Theorem C10_tiled_full_p2p_frame_to_tpm d x y oz r c sr sc oss f :
  is_tiled_full d x y oz r c sr sc oss -> orthonormal r c -> 0 < sr -> 0 < sc ->
  (1 <= d_rows d)%Z -> (1 <= d_cols d)%Z -> (1 <= d_tpm_rows d)%Z -> (1 <= d_tpm_cols d)%Z ->
  (1 <= d_focal d)%Z -> (1 <= d_paths d)%Z ->
  (1 <= f <= d_paths d * d_focal d * tf_nt d)%Z ->
  tf_sl d f = 0%Z ->
  exists t X,
    tiled_full_frame d f = Ok t /\
    for_images_p2p d d (Some f) None false true = Ok X /\
    forall i j, veq (aapply X (V3 i j 0))
                    (V3 (inject_Z (tf_col t) - 1 + i) (inject_Z (tf_row t) - 1 + j) 0).
Proof. exact (tiled_full_p2p_frame_to_tpm d x y oz r c sr sc oss f). Qed.
Print Assumptions C10_tiled_full_p2p_frame_to_tpm.

(* tiled image with explicit per-frame positions consistent with its stored offsets *)
Theorem C10_tiled_perframe_frame_vs_tpm d x y r c sr sc oss sh l f g C R :
  has (d_for d) = true -> d_multiframe d = true -> d_tiled_full d = false ->
  d_ori_slide d = Some [vx r; vy r; vz r; vx c; vy c; vz c] -> d_origin d = Some (x, y, None) ->
  d_shared d = Some sh -> fg_pm sh = Some (PMeas (asp sr sc) oss) -> fg_slide sh = None ->
  d_perframe d = Some l -> (1 <= f <= Z.of_nat (length l))%Z -> nth_error l (Z.to_nat (f - 1)) = Some g ->
  0 < sr -> 0 < sc ->
  (exists px py pz, fg_slide g = Some (px, py, pz) /\
     veq (V3 px py pz) (aapply (Aff (rotRD r c sr sc 1) (V3 x y 0)) (V3 (inject_Z C - 1) (inject_Z R - 1) 0))) ->
  exists Fm T,
    for_image_p2r d (Some f) false = Ok Fm /\ for_image_p2r d None true = Ok T /\
    forall i j, veq (aapply Fm (V3 i j 0)) (aapply T (V3 (inject_Z C - 1 + i) (inject_Z R - 1 + j) 0)).
Proof. exact (tiled_perframe_frame_vs_tpm d x y r c sr sc oss sh l f g C R). Qed.
Print Assumptions C10_tiled_perframe_frame_vs_tpm.

(* single-frame image: dataset-built = explicit-attribute transformers; other frame numbers refused *)
Theorem C10_spatial_info_single d p o s f :
  has (d_for d) = true -> d_ori_slide d = None -> d_center_seq d = false -> d_multiframe d = false ->
  d_ipp d = Some p -> d_iop d = Some o -> d_ps d = Some s ->
  (f = None \/ f = Some 1%Z ->
     get_spatial_information d f false = Ok (SInfo p o s (d_ss d)) /\
     for_image_p2r d f false = p2r_make p o s /\
     for_image_r2p d f false = r2p_make p o s (opt_or (d_ss d) 1)) /\
  (forall k, f = Some k -> k <> 1%Z -> get_spatial_information d f false = Err EType).
Proof. exact (spatial_info_single d p o s f). Qed.
Print Assumptions C10_spatial_info_single.

(* multi-frame image (patient): shared functional group first, then the item of the requested frame *)
Theorem C10_spatial_info_multiframe_patient d sh l f g pm p o :
  has (d_for d) = true -> d_ori_slide d = None -> d_center_seq d = false -> d_multiframe d = true ->
  d_tiled_full d = false -> d_shared d = Some sh -> d_perframe d = Some l ->
  image_coordinate_system d = Ok (Some CPatient) ->
  (1 <= f <= Z.of_nat (length l))%Z -> nth_error l (Z.to_nat (f - 1)) = Some g ->
  first_of (fg_pm sh) (fg_pm g) EValue = Ok pm ->
  first_of (fg_ipp sh) (fg_ipp g) EValue = Ok p ->
  first_of (fg_iop sh) (fg_iop g) EValue = Ok o ->
  get_spatial_information d (Some f) false = Ok (SInfo p o (pm_spacing pm) (pm_ss pm)) /\
  for_image_p2r d (Some f) false = p2r_make p o (pm_spacing pm) /\
  for_image_r2p d (Some f) false = r2p_make p o (pm_spacing pm) (opt_or (pm_ss pm) 1) /\
  get_spatial_information d None false = Err EType.
Proof. exact (spatial_info_multiframe_patient d sh l f g pm p o). Qed.
Print Assumptions C10_spatial_info_multiframe_patient.

(* no frame of reference / not a tiled image / missing frame number are refused *)
Theorem C10_spatial_info_refusals d f tpm :
  (d_for d = None -> get_spatial_information d f tpm = Err EValue) /\
  (forall cs, image_coordinate_system d = Ok (Some cs) -> d_origin d = None ->
     get_spatial_information d f true = Err EValue) /\
  (forall cs, image_coordinate_system d = Ok (Some cs) -> d_multiframe d = true ->
     get_spatial_information d None false = Err EType).
Proof. exact (spatial_info_refusals d f tpm). Qed.
Print Assumptions C10_spatial_info_refusals.

(* for_images refuses datasets of different frames of reference *)
Theorem C10_for_images_refuses_other_frame_of_reference mk a b fa fb ta tb :
  (forall u, d_for a = Some u -> d_for b <> Some u) -> exists k, for_images mk a b fa fb ta tb = Err k.
Proof. exact (for_images_refuses_other_frame_of_reference mk a b fa fb ta tb). Qed.
Print Assumptions C10_for_images_refuses_other_frame_of_reference.

(* coplanar pairs (equal or opposite normals, offset within the plane) ARE accepted, the result is
   R2P_to o P2R_from, stays in the plane and designates the same physical point *)
Theorem C10_p2p_coplanar_accepted pos r c sr sc pos2 r2 c2 sr2 sc2 :
  orthonormal r c -> orthonormal r2 c2 -> same_plane pos r c pos2 r2 c2 ->
  0 < sr -> 0 < sc -> 0 < sr2 -> 0 < sc2 ->
  exists T P P2 Rv2,
    p2p_make (apos pos) (aori r c) (asp sr sc) (apos pos2) (aori r2 c2) (asp sr2 sc2) = Ok T /\
    p2r_make (apos pos) (aori r c) (asp sr sc) = Ok P /\
    p2r_make (apos pos2) (aori r2 c2) (asp sr2 sc2) = Ok P2 /\
    r2p_make (apos pos2) (aori r2 c2) (asp sr2 sc2) 1 = Ok Rv2 /\
    forall i j,
      veq (aapply T (V3 i j 0)) (aapply Rv2 (aapply P (V3 i j 0))) /\
      vz (aapply T (V3 i j 0)) == 0 /\
      veq (aapply P2 (V3 (vx (aapply T (V3 i j 0))) (vy (aapply T (V3 i j 0))) 0)) (aapply P (V3 i j 0)).
Proof. exact (p2p_coplanar_accepted pos r c sr sc pos2 r2 c2 sr2 sc2). Qed.
Print Assumptions C10_p2p_coplanar_accepted.

(* the exact square root of the spacing accessors exists on every positive rational *)
Theorem C10_qsqrt_square s : 0 < s -> exists s', qsqrt (s * s) = Some s' /\ s' == s.
Proof. exact (qsqrt_square s). Qed.
Print Assumptions C10_qsqrt_square.

(* VolumeGeometry.from_attributes: spacing / direction_cosines SUCCEED and return the attributes
   (strengthens C10_volume_accessors), and map_reference_to_indices inverts map_indices_to_reference *)
Theorem C10_volume_accessors_total pos r c sr sc ss nf rows cols :
  orthonormal r c -> 0 < sr -> 0 < sc -> 0 < ss ->
  exists G s dr dc,
    geom_from_attributes (apos pos) (aori r c) (asp sr sc) ss nf rows cols = Ok G /\
    g_position G = pos /\ g_shape G = [nf; rows; cols] /\ g_handedness G = RH /\
    g_spacing G = Some s /\ veq s (V3 ss sr sc) /\
    g_direction_cosines G = Some (dr, dc) /\ veq dr r /\ veq dc c /\
    g_center_position G = Ok (aapply (g_aff G) (centre_index nf rows cols)) /\
    (forall p, exists q, g_map_reference_to_indices G [aapply (g_aff G) p] = Ok [q] /\ veq q p).
Proof. exact (volume_accessors_total pos r c sr sc ss nf rows cols). Qed.
Print Assumptions C10_volume_accessors_total.

(* the first sentence of the property, as one statement *)
Theorem C10_transforms_consistent pos r c sr sc ss pos2 r2 c2 sr2 sc2 :
  orthonormal r c -> orthonormal r2 c2 -> same_plane pos r c pos2 r2 c2 ->
  0 < sr -> 0 < sc -> ~ ss == 0 -> 0 < sr2 -> 0 < sc2 ->
  exists P Rv I Ri T Rv2,
    p2r_make (apos pos) (aori r c) (asp sr sc) = Ok P /\
    r2p_make (apos pos) (aori r c) (asp sr sc) ss = Ok Rv /\
    i2r_make (apos pos) (aori r c) (asp sr sc) = Ok I /\
    r2i_make (apos pos) (aori r c) (asp sr sc) ss = Ok Ri /\
    p2p_make (apos pos) (aori r c) (asp sr sc) (apos pos2) (aori r2 c2) (asp sr2 sc2) = Ok T /\
    r2p_make (apos pos2) (aori r2 c2) (asp sr2 sc2) 1 = Ok Rv2 /\
    (forall i j, veq (aapply Rv (aapply P (V3 i j 0))) (V3 i j 0)) /\
    (forall x, vz (aapply Rv x) == 0 -> veq (aapply P (V3 (vx (aapply Rv x)) (vy (aapply Rv x)) 0)) x) /\
    (forall u v, veq (aapply Ri (aapply I (V3 u v 0))) (V3 u v 0)) /\
    (forall i j, veq (aapply I (V3 (i + (1 # 2)) (j + (1 # 2)) 0)) (aapply P (V3 i j 0))) /\
    (forall x, veq (aapply Ri x) (vadd (aapply Rv x) (V3 (1 # 2) (1 # 2) 0))) /\
    (forall i j, veq (aapply T (V3 i j 0)) (aapply Rv2 (aapply P (V3 i j 0))) /\ vz (aapply T (V3 i j 0)) == 0) /\
    (forall p : Z * Z, map_pixel_into_coordinate_system (zpt p) (apos pos) (aori r c) (asp sr sc)
                       = Ok (aapply P (V3 (inject_Z (fst p)) (inject_Z (snd p)) 0))) /\
    (forall x, map_coordinate_into_pixel_matrix x (apos pos) (aori r c) (asp sr sc) ss
               = Ok (rne (vx (aapply Rv x)), rne (vy (aapply Rv x)), rne (vz (aapply Rv x)))).
Proof. exact (transforms_consistent pos r c sr sc ss pos2 r2 c2 sr2 sc2). Qed.
Print Assumptions C10_transforms_consistent.

(* recorded as coded: frame number 0 of a per-frame multi-frame image is not refused, it wraps to the last frame *)
Example C10_frame_number_zero_wraps :
  let g k := FGroup None (Some (ASeq [0; 0; inject_Z k])) None None in
  let d := DSet (Some "1.2"%string) true false None false None None None None
                (Some (FGroup (Some (PMeas (ASeq [1; 1]) None)) None (Some (ASeq [1; 0; 0; 0; 1; 0])) None))
                (Some [g 10%Z; g 20%Z; g 30%Z]) false None 4 4 0 0 1 1 in
  get_spatial_information d (Some 0%Z) false = get_spatial_information d (Some 3%Z) false /\
  exists s, get_spatial_information d (Some 0%Z) false = Ok s.
Proof. exact frame_number_zero_wraps. Qed.
Print Assumptions C10_frame_number_zero_wraps.

(* non-vacuity of the dataset theorems *)
Example C10_dataset_example :
  is_tiled_full wsi5 10 20 (Some 5) (V3 0 1 0) (V3 1 0 0) (1 # 2) (1 # 2) None /\
  orthonormal (V3 0 1 0) (V3 1 0 0) /\
  (1 <= 4 <= d_paths wsi5 * d_focal wsi5 * tf_nt wsi5)%Z /\
  tf_sl wsi5 4 = 0%Z /\
  run_tiled_full_frame wsi5 4 = VL [VZ 1; VZ 1; VZ 5; VZ 5; VL [VQ (48 # 4); VQ (88 # 4); VQ (20 # 4)]] /\
  run_for_images wsi5 wsi5 (Some 4%Z) None false true [[1; 2]]
  = match run_for_images wsi5 wsi5 (Some 4%Z) None false true [[1; 2]] with
    | VL [VL [a; _]; b] => VL [VL [a; VL [VL [VQ 5; VQ 6]]]; b] | _ => VErr "shape" end.
Proof. exact dataset_example. Qed.
Print Assumptions C10_dataset_example.

(* pixel_spacing, spacing_between_slices, voxel_volume, physical_extent, direction, inverse_affine of a
   geometry built from attributes return / invert what it was built from *)
Theorem C10_volume_more_accessors pos r c sr sc ss nf rows cols :
  orthonormal r c -> 0 < sr -> 0 < sc -> 0 < ss ->
  exists G a b s0 D B,
    geom_from_attributes (apos pos) (aori r c) (asp sr sc) ss nf rows cols = Ok G /\
    g_pixel_spacing G = Some (a, b) /\ a == sr /\ b == sc /\
    g_spacing_between_slices G = Some s0 /\ s0 == ss /\
    (exists v, g_voxel_volume G = Some v /\ v == ss * sr * sc) /\
    (exists e, g_physical_extent G = Some e /\
               veq e (V3 (inject_Z nf * ss) (inject_Z rows * sr) (inject_Z cols * sc))) /\
    g_direction G = Some D /\ ortho_cols D /\ veq (norms_sq D) (V3 1 1 1) /\ veq (c2 D) r /\ veq (c1 D) c /\
    g_inverse_affine G = Ok B /\
    (forall p, veq (aapply B (aapply (g_aff G) p)) p /\ veq (aapply (g_aff G) (aapply B p)) p).
Proof. exact (volume_more_accessors pos r c sr sc ss nf rows cols). Qed.
Print Assumptions C10_volume_more_accessors.

(* ---------------- index arrays of any integer dtype ---------------- *)
(* PixelToReference / PixelToPixel (constructor or for_images): an index array of ANY signed or unsigned
   integer dtype that can hold the indices is answered exactly like the default integer array *)
Theorem C10_index_dtype_irrelevant dt w pts :
  dt_is_index dt = true -> forallb (forallb (dt_holds dt)) pts = true ->
  (forall pos ori sp, run_p2r_dt pos ori sp w dt pts = run_p2r pos ori sp w true pts) /\
  (forall pf of_ sf pt ot st round,
     run_p2p_dt pf of_ sf pt ot st round w dt pts = run_p2p pf of_ sf pt ot st round w true pts) /\
  (forall a b fa fb ta tb round,
     run_for_images_dt a b fa fb ta tb round dt pts =
     with_aff (for_images_p2p a b fa fb ta tb) (fun A => call_p 2 true pts (fun l => vpts (p2p_call A round l)))).
Proof. exact (index_dtype_irrelevant dt w pts). Qed.
Print Assumptions C10_index_dtype_irrelevant.

(* the rounded pixel-to-pixel result is the (int64) rounding of R2P_to(P2R_from(p)) - it is what the
   rounded ReferenceToPixel transformer of the target answers on the reference position of p *)
Theorem C10_p2p_rounded_via_reference pf of_ sf pt ot st T :
  p2p_make pf of_ sf pt ot st = Ok T ->
  exists P Rv, p2r_make pf of_ sf = Ok P /\ r2p_make pt ot st 1 = Ok Rv /\
    forall pts,
      p2p_call T true pts = OutZ2 (map (fun p => (rne (vx (via2 P Rv p)), rne (vy (via2 P Rv p)))) pts) /\
      r2p_call Rv true false (call_2to3 P pts)
      = Ok (OutZ3 (map (fun p => (rne (vx (via2 P Rv p)), rne (vy (via2 P Rv p)), rne (vz (via2 P Rv p)))) pts)).
Proof. exact (p2p_rounded_via_reference pf of_ sf pt ot st T). Qed.
Print Assumptions C10_p2p_rounded_via_reference.

(* at the harness boundary: integer indices zs held in ANY index dtype give, rounded, the rounding of the
   point reached through the frame of reference (negative and large results included: no wrap-around),
   and, un-rounded, the affine image *)
Theorem C10_p2p_any_index_dtype pf of_ sf pt ot st T dt (zs : list (Z * Z)) :
  p2p_make pf of_ sf pt ot st = Ok T -> dt_is_index dt = true -> Forall (dt_fits dt) zs ->
  exists P Rv, p2r_make pf of_ sf = Ok P /\ r2p_make pt ot st 1 = Ok Rv /\
    run_p2p_dt pf of_ sf pt ot st true 2 dt (map zrow zs)
    = VL [vaff T; VL (map (fun p => VL [VZ (rne (vx (via2 P Rv (zpt p)))); VZ (rne (vy (via2 P Rv (zpt p))))]) zs)] /\
    run_p2p_dt pf of_ sf pt ot st false 2 dt (map zrow zs)
    = VL [vaff T; VL (map (fun p => VL [VQ (vx (aapply T (V3 (inject_Z (fst p)) (inject_Z (snd p)) 0)));
                                         VQ (vy (aapply T (V3 (inject_Z (fst p)) (inject_Z (snd p)) 0)))]) zs)].
Proof. exact (p2p_any_index_dtype pf of_ sf pt ot st T dt zs). Qed.
Print Assumptions C10_p2p_any_index_dtype.

(* float / bool arrays: TypeError from the call *)
Theorem C10_non_index_dtype_refused dt pts pf of_ sf pt ot st round T :
  dt_is_index dt = false -> forallb (forallb (dt_holds dt)) pts = true ->
  p2p_make pf of_ sf pt ot st = Ok T ->
  run_p2p_dt pf of_ sf pt ot st round 2 dt pts = VL [vaff T; VErr EType].
Proof. exact (non_index_dtype_refused dt pts pf of_ sf pt ot st round T). Qed.
Print Assumptions C10_non_index_dtype_refused.

(* ---------------- Volume with channel dimensions ---------------- *)
(* Volume.__init__: accepted iff orthogonal affine, >= 3 dimensions, one value list of the right length per
   channel dimension; the spatial shape is the FIRST three sizes of the array *)
Theorem C10_vol_make_ok_iff A ashape ch G :
  vol_make A ashape ch = Ok G <->
  (is_orthogonal (lin A) false tol5 = true /\ (3 <= length ashape)%nat /\ ch = skipn 3 ashape /\
   G = Geom A (firstn 3 ashape)).
Proof. exact (vol_make_ok_iff A ashape ch G). Qed.
Print Assumptions C10_vol_make_ok_iff.

(* for EVERY argument combination (refusals included) and every list of channel sizes, the geometry of
   Volume.from_components(array of shape spatial ++ channels) is that of
   VolumeGeometry.from_components(spatial shape); same for from_attributes *)
Theorem C10_volume_channels_irrelevant n0 n1 n2 ch sp position center direction po cs :
  vol_from_components ([n0; n1; n2] ++ ch) ch sp position center direction po cs =
  geom_from_components [n0; n1; n2] sp position center direction po cs.
Proof. exact (vol_channels_irrelevant n0 n1 n2 ch sp position center direction po cs). Qed.
Print Assumptions C10_volume_channels_irrelevant.

Theorem C10_volume_attr_channels_irrelevant nf rows cols ch pos ori sp ss :
  vol_from_attributes ([nf; rows; cols] ++ ch) ch pos ori sp ss = geom_from_attributes pos ori sp ss nf rows cols.
Proof. exact (vol_attr_channels_irrelevant nf rows cols ch pos ori sp ss). Qed.
Print Assumptions C10_volume_attr_channels_irrelevant.

Theorem C10_geom_with_array_same G n0 n1 n2 ch :
  g_shape G = [n0; n1; n2] -> is_orthogonal (lin (g_aff G)) false tol5 = true ->
  geom_with_array G ([n0; n1; n2] ++ ch) ch = Ok G.
Proof. exact (geom_with_array_same G n0 n1 n2 ch). Qed.
Print Assumptions C10_geom_with_array_same.

(* Volume.from_components(array (n0, n1, n2) ++ channels, center_position=cp): accepted; orthogonal axes of the
   given lengths; center_position returns cp; cp maps back (bounds check on) to the centre index of the
   three SPATIAL axes - whatever the channel dimensions are *)
Theorem C10_volume_components_centre sp s0 s1 s2 D cp n0 n1 n2 ch cs :
  sarg3 sp = Some (s0, s1, s2) -> 0 < s0 -> 0 < s1 -> 0 < s2 ->
  ortho_cols D -> veq (norms_sq D) (V3 1 1 1) -> (0 <= n0)%Z -> (0 <= n1)%Z -> (0 <= n2)%Z ->
  exists G c i,
    vol_from_components ([n0; n1; n2] ++ ch) ch sp None (Some [vx cp; vy cp; vz cp]) (Some (rows_of D)) None cs = Ok G /\
    geom_from_components [n0; n1; n2] sp None (Some [vx cp; vy cp; vz cp]) (Some (rows_of D)) None cs = Ok G /\
    g_shape G = [n0; n1; n2] /\
    ortho_cols (lin (g_aff G)) /\ veq (norms_sq (lin (g_aff G))) (V3 (s0 * s0) (s1 * s1) (s2 * s2)) /\
    g_center_position G = Ok c /\ veq c cp /\
    g_center_indices G = Ok (centre_index n0 n1 n2) /\
    g_map_reference_to_indices_checked G [c] = Ok [i] /\ veq i (centre_index n0 n1 n2).
Proof. exact (vol_components_centre sp s0 s1 s2 D cp n0 n1 n2 ch cs). Qed.
Print Assumptions C10_volume_components_centre.

(* non-vacuity: uint16 indices whose image is negative; an RGB volume (20, 20, 50, 3) anchored by its centre *)
Example C10_dtype_volume_example :
  dt_is_index (DT KUnsigned 16) = true /\ Forall (dt_fits (DT KUnsigned 16)) [(0, 3); (65535, 0)]%Z /\
  run_p2p_dt (ASeq [56; 34; 1]) (ASeq [1; 0; 0; 0; 1; 0]) (ASeq [1; 1])
             (ASeq [66; 32; 1]) (ASeq [1; 0; 0; 0; 1; 0]) (ASeq [1; 1]) true 2 (DT KUnsigned 16) [[0; 3]; [65535; 0]]
  = match run_p2p_dt (ASeq [56; 34; 1]) (ASeq [1; 0; 0; 0; 1; 0]) (ASeq [1; 1])
             (ASeq [66; 32; 1]) (ASeq [1; 0; 0; 0; 1; 0]) (ASeq [1; 1]) true 2 dt_int64 []
    with VL [a; _] => VL [a; VL [VL [VZ (-10); VZ 5]; VL [VZ 65525; VZ 2]]] | v => v end /\
  match run_p2p_dt (ASeq [56; 34; 1]) (ASeq [1; 0; 0; 0; 1; 0]) (ASeq [1; 1])
             (ASeq [66; 32; 1]) (ASeq [1; 0; 0; 0; 1; 0]) (ASeq [1; 1]) true 2 (DT KUnsigned 16) [[-1; 3]]
  with VL [_; e] => e = VErr "harness" | _ => False end /\
  (exists G c, vol_from_components [20; 20; 50; 3]%Z [3]%Z (SSeq [1 # 2; 5 # 4; 2]) None (Some [10; 20; 30])
                 (Some [1; 0; 0; 0; 1; 0; 0; 0; 1]) None true = Ok G /\
     g_shape G = [20; 20; 50]%Z /\ g_center_position G = Ok c /\ veq c (V3 10 20 30) /\
     veq (g_position G) (V3 (10 - (19 # 4)) (20 - (95 # 8)) (30 - 49)) /\
     g_map_reference_to_indices_checked G [aapply (g_aff G) (V3 20 0 0)] = Err ERuntime /\
     vol_from_components [20; 20; 50; 3]%Z [4]%Z (SSeq [1 # 2; 5 # 4; 2]) None (Some [10; 20; 30])
                 (Some [1; 0; 0; 0; 1; 0; 0; 0; 1]) None true = Err EValue).
Proof.
  split; [reflexivity|]. split; [repeat constructor; vm_compute; discriminate|].
  split; [vm_compute; reflexivity|]. split; [vm_compute; reflexivity|].
  eexists. eexists. split; [vm_compute; reflexivity|]. split; [reflexivity|].
  split; [vm_compute; reflexivity|]. split; [vm_compute; repeat split; reflexivity|].
  split; [vm_compute; repeat split; reflexivity|]. split; vm_compute; reflexivity.
Qed.
Print Assumptions C10_dtype_volume_example.

(* ---------------- what "rounded" means; ties between pyramid levels; histories ---------------- *)
(* the rounding of every rounded transformer output (np.around) is to the NEAREST integer, and a
   coordinate exactly half way between two pixel centres goes to the EVEN one *)
Theorem C10_rounding_nearest_even q :
  Qabs (q - inject_Z (rne q)) <= 1 # 2 /\
  (Qabs (q - inject_Z (rne q)) == 1 # 2 -> Z.even (rne q) = true).
Proof. exact (rne_nearest_even q). Qed.
Print Assumptions C10_rounding_nearest_even.

Theorem C10_rounding_tie m : rne (inject_Z m + (1 # 2)) = if Z.even m then m else (m + 1)%Z.
Proof. exact (rne_tie m). Qed.
Print Assumptions C10_rounding_tie.

(* round-half-up is a different function: it disagrees on every tie above an even index *)
Theorem C10_half_up_is_not_the_rounding m :
  Z.even m = true -> Qfloor (inject_Z m + (1 # 2) + (1 # 2)) <> rne (inject_Z m + (1 # 2)).
Proof. exact (half_up_differs m). Qed.
Print Assumptions C10_half_up_is_not_the_rounding.

(* two levels of a resolution pyramid (same orientation, target spacings k times the source spacings,
   target origin at source index (a, b)): the pair is accepted and source index (i, j) is target index
   ((i - a) / k, (j - b) / k), directly and through the frame of reference *)
Theorem C10_pyramid_level pos r c sr sc k a b :
  orthonormal r c -> 0 < sr -> 0 < sc -> 0 < k ->
  let P := Aff (rotRD r c sr sc 1) pos in
  let pos2 := aapply P (V3 a b 0) in
  exists T Rv2,
    p2p_make (apos pos) (aori r c) (asp sr sc) (apos pos2) (aori r c) (asp (k * sr) (k * sc)) = Ok T /\
    p2r_make (apos pos) (aori r c) (asp sr sc) = Ok P /\
    r2p_make (apos pos2) (aori r c) (asp (k * sr) (k * sc)) 1 = Ok Rv2 /\
    forall i j,
      veq (aapply T (V3 i j 0)) (V3 ((i - a) / k) ((j - b) / k) 0) /\
      veq (aapply Rv2 (aapply P (V3 i j 0))) (V3 ((i - a) / k) ((j - b) / k) 0).
Proof. exact (pyramid_level pos r c sr sc k a b). Qed.
Print Assumptions C10_pyramid_level.

(* k = 2: every odd source offset is an exact tie; the default (rounded) PixelToPixel transformer and
   PixelToReference followed by the default (rounded) ReferenceToPixel transformer of the target BOTH
   answer the even neighbour - for all geometries, all integer origins, all indices *)
Theorem C10_pyramid_ties pos r c sr sc (a b i j m n : Z) :
  orthonormal r c -> 0 < sr -> 0 < sc ->
  (i - a = 2 * m + 1)%Z -> (j - b = 2 * n)%Z ->
  let P := Aff (rotRD r c sr sc 1) pos in
  let pos2 := aapply P (V3 (inject_Z a) (inject_Z b) 0) in
  exists T Rv2,
    p2p_make (apos pos) (aori r c) (asp sr sc) (apos pos2) (aori r c) (asp (2 * sr) (2 * sc)) = Ok T /\
    r2p_make (apos pos2) (aori r c) (asp (2 * sr) (2 * sc)) 1 = Ok Rv2 /\
    p2p_call T true [zpt (i, j)] = OutZ2 [(if Z.even m then m else (m + 1)%Z, n)] /\
    r2p_call Rv2 true false (call_2to3 P [zpt (i, j)])
      = Ok (OutZ3 [(if Z.even m then m else (m + 1)%Z, n, 0%Z)]).
Proof. exact (pyramid_ties pos r c sr sc a b i j m n). Qed.
Print Assumptions C10_pyramid_ties.

(* the harness boundary of the rounded routes (kind `routes`): for EVERY accepted pair and every list
   of source points the default PixelToPixel answer is the first two columns of the default
   ReferenceToPixel answer on the reference positions, which is the half-to-even rounding of the
   un-rounded answer, and map_coordinate_into_pixel_matrix answers the same triple point by point *)
Theorem C10_round_routes_agree pf of_ sf pt ot st rows cols pts l T :
  p2p_make pf of_ sf pt ot st = Ok T -> rows2 pts = Ok l ->
  exists P Rv geo,
    p2r_make pf of_ sf = Ok P /\ r2p_make pt ot st 1 = Ok Rv /\
    run_round_routes pf of_ sf pt ot st rows cols pts =
    VL [vpts (OutZ2 (map (fun t => (fst (fst t), snd (fst t))) (map (rz3 P Rv) l)));
        vpts (OutZ3 (map (rz3 P Rv) l));
        vpts (OutQ3 (map (via2 P Rv) l));
        vres vpts (r2p_call Rv true true (call_2to3 P l));
        VL (map (fun p => vz3 [rz3 P Rv p]) l);
        geo].
Proof. exact (round_routes_agree pf of_ sf pt ot st rows cols pts l T). Qed.
Print Assumptions C10_round_routes_agree.

(* VolumeGeometry.from_attributes(one frame).map_reference_to_indices(x, round_output=True) answers - as
   (slice, row, column) - exactly what the rounded ReferenceToPixel transformer of the same plane answers
   as (column, row, slice), for EVERY reference point (ties and off-plane points included; the slice axis
   of the volume points along -(r x c)) *)
Theorem C10_geometry_rounding_matches_r2p pos r c sr sc nf rows cols :
  orthonormal r c -> 0 < sr -> 0 < sc ->
  exists G Rv,
    geom_from_attributes (apos pos) (aori r c) (asp sr sc) 1 nf rows cols = Ok G /\
    r2p_make (apos pos) (aori r c) (asp sr sc) 1 = Ok Rv /\
    forall x,
      g_map_reference_to_indices_rounded G [x]
        = Ok [(rne (- vz (aapply Rv x)), rne (vy (aapply Rv x)), rne (vx (aapply Rv x)))] /\
      r2p_call Rv true false [x]
        = Ok (OutZ3 [(rne (vx (aapply Rv x)), rne (vy (aapply Rv x)), rne (vz (aapply Rv x)))]).
Proof. exact (geom_rounding_matches_r2p pos r c sr sc nf rows cols). Qed.
Print Assumptions C10_geometry_rounding_matches_r2p.

(* histories of ONE transformer object (kind `history`): whatever the caller does with the arrays it
   was handed - the matrix returned by `affine` edited in place, results of earlier calls, its own input
   arrays - every later [affine; call] observation is that of the freshly constructed object.  (Arrays
   are values in the model; this states what an implementation must observe, it does not model aliasing.) *)
Theorem C10_history_immutable mk call ops A :
  mk = Ok A ->
  exists l, run_history mk call ops = VL [VL [vaff A; call A]; VL l] /\
    length l = length ops /\
    forall v, In v l -> exists mine, v = VL [mine; VL [vaff A; call A]].
Proof. exact (run_history_fresh mk call ops A). Qed.
Print Assumptions C10_history_immutable.

(* non-vacuity: level 0 -> level 1 of a pyramid with 1/4 mm pixels, origins 3 source pixels apart; source
   column 4 is target column 1/2 (tie above the even index 0), source column 6 is 3/2 (tie above 1) *)
Example C10_pyramid_example :
  match run_round_routes (ASeq [10; 20; 0]) (ASeq [1; 0; 0; 0; 1; 0]) (ASeq [1 # 4; 1 # 4])
                   (ASeq [10 + (3 # 4); 20; 0]) (ASeq [1; 0; 0; 0; 1; 0]) (ASeq [1 # 2; 1 # 2]) 8 8 [[4; 0]; [6; -3]]
  with
  | VL [p2p; via; VL [VL [VQ x0; _; _]; VL [VQ x1; VQ y1; _]]; dropped; helper; VL [geo; _]] =>
      p2p = VL [VL [VZ 0; VZ 0]; VL [VZ 2; VZ (-2)]] /\
      via = VL [VL [VZ 0; VZ 0; VZ 0]; VL [VZ 2; VZ (-2); VZ 0]] /\
      x0 == 1 # 2 /\ x1 == 3 # 2 /\ y1 == - (3 # 2) /\
      dropped = p2p /\
      helper = VL [VL [VL [VZ 0; VZ 0; VZ 0]]; VL [VL [VZ 2; VZ (-2); VZ 0]]] /\
      geo = VL [VL [VZ 0; VZ 0; VZ 0]; VL [VZ 0; VZ (-2); VZ 2]]
  | _ => False
  end.
Proof. vm_compute. repeat split; reflexivity. Qed.
Print Assumptions C10_pyramid_example.
