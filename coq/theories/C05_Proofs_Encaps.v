(* C05 - proofs about the offset tables and the lazy reader on encapsulated pixel data. *)
From Coq Require Import String ZArith List Bool Lia ZifyBool Arith.
From HD Require Import Base.Val Base.ListZ Base.BitWindow C05_Model C05_Proofs.
Import ListNotations.
Open Scope Z_scope.
Ltac Zify.zify_post_hook ::= Z.to_euclidean_division_equations.

Definition good_item (it : item) : Prop := 0 < ilen it /\ Z.odd (ilen it) = false.
Definition good_items (its : list item) : Prop := forall it, In it its -> good_item it.
(* frames: non-empty lists of good fragments *)
Definition good_frames (fs : list (list item)) : Prop :=
  forall f, In f fs -> f <> [] /\ good_items f.

Lemma total_size_app : forall a b, total_size (a ++ b) = total_size a + total_size b.
Proof. induction a as [|x a IH]; intros b; unfold total_size in *; cbn [app fold_right]; [reflexivity|rewrite IH; lia]. Qed.

Lemma total_size_nonneg : forall a, good_items a -> 0 <= total_size a.
Proof.
  induction a as [|x a IH]; intros H; [cbn; lia|].
  assert (0 <= total_size a) by (apply IH; intros it Hit; apply H; now right).
  destruct (H x (or_introl eq_refl)) as [Hx _].
  change (total_size (x :: a)) with (isize x + total_size a). unfold isize. lia.
Qed.

Lemma good_items_concat : forall fs, good_frames fs -> good_items (concat fs).
Proof.
  intros fs H it Hit. apply in_concat in Hit as (f & Hf & Hi). exact (proj2 (H f Hf) it Hi).
Qed.

Lemma good_frames_firstn : forall fs i, good_frames fs -> good_frames (firstn i fs).
Proof. intros fs i H f Hf. apply H. rewrite <- (firstn_skipn i fs). apply in_or_app. now left. Qed.

(* ---------------- seek ---------------- *)
Lemma seek_zero : forall its k, seek 0 its k = Some (k, its).
Proof. intros [|x its] k; reflexivity. Qed.

Lemma seek_app : forall f r pos k, good_items f -> 0 <= pos ->
  seek (total_size f + pos) (f ++ r) k = seek pos r (k + zlen f).
Proof.
  induction f as [|x f IH]; intros r pos k Hg Hp.
  - cbn [total_size fold_right app]. unfold zlen. cbn [length]. f_equal; lia.
  - assert (Hgf : good_items f) by (intros it Hit; apply Hg; now right).
    pose proof (total_size_nonneg f Hgf) as Hnn.
    destruct (Hg x (or_introl eq_refl)) as [Hx _].
    cbn [app]. change (total_size (x :: f)) with (isize x + total_size f).
    cbn [seek]. unfold isize in *.
    replace (8 + ilen x + total_size f + pos =? 0) with false by lia.
    replace (8 + ilen x + total_size f + pos <? 0) with false by lia.
    replace (8 + ilen x + total_size f + pos - (8 + ilen x)) with (total_size f + pos) by lia.
    rewrite IH by assumption. f_equal. unfold zlen. cbn [length]. lia.
Qed.

(* ---------------- take ---------------- *)
Lemma take_frame : forall f r n0, good_items f ->
  take (n0 + total_size f) n0 (f ++ r) = f.
Proof.
  induction f as [|x f IH]; intros r n0 Hg.
  - cbn [total_size fold_right app]. replace (n0 + 0) with n0 by lia.
    destruct r as [|y r]; cbn [take]; [reflexivity|]. now rewrite Z.eqb_refl.
  - assert (Hgf : good_items f) by (intros it Hit; apply Hg; now right).
    pose proof (total_size_nonneg f Hgf) as Hnn.
    destruct (Hg x (or_introl eq_refl)) as [Hx _].
    cbn [app take]. change (total_size (x :: f)) with (isize x + total_size f). unfold isize in *.
    replace (n0 =? n0 + (8 + ilen x + total_size f)) with false by lia.
    f_equal. replace (n0 + (8 + ilen x + total_size f)) with (n0 + (8 + ilen x) + total_size f) by lia.
    now apply IH.
Qed.

Lemma take_all : forall l n0, good_items l -> 0 <= n0 -> take (-1) n0 l = l.
Proof.
  induction l as [|x l IH]; intros n0 Hg Hn; [reflexivity|].
  destruct (Hg x (or_introl eq_refl)) as [Hx _].
  cbn [take]. replace (n0 =? -1) with false by lia. f_equal.
  apply IH; [intros it Hit; apply Hg; now right|unfold isize; lia].
Qed.

(* ---------------- offsets ---------------- *)
Lemma frame_offsets_length : forall fs pos, length (frame_offsets pos fs) = length fs.
Proof. induction fs as [|f fs IH]; intros pos; cbn [frame_offsets length]; [reflexivity|now rewrite IH]. Qed.

Lemma frame_offsets_nth : forall fs pos i, (i < length fs)%nat ->
  nth_error (frame_offsets pos fs) i = Some (pos + total_size (concat (firstn i fs))).
Proof.
  induction fs as [|f fs IH]; intros pos i Hi; [cbn in Hi; lia|].
  destruct i as [|i]; cbn [frame_offsets nth_error firstn concat].
  - cbn [total_size fold_right]. f_equal. lia.
  - rewrite IH by (cbn [length] in Hi; lia). rewrite total_size_app. f_equal. lia.
Qed.

Lemma concat_firstn_S : forall (fs : list (list item)) i, (i < length fs)%nat ->
  concat (firstn (S i) fs) = concat (firstn i fs) ++ nth i fs [].
Proof.
  induction fs as [|f fs IH]; intros i Hi; [cbn in Hi; lia|].
  destruct i as [|i].
  - cbn [firstn concat nth app]. now rewrite app_nil_r.
  - change (firstn (S (S i)) (f :: fs)) with (f :: firstn (S i) fs).
    change (firstn (S i) (f :: fs)) with (f :: firstn i fs).
    cbn [concat nth]. rewrite IH by (cbn [length] in Hi; lia). now rewrite app_assoc.
Qed.

Lemma concat_skipn_nth : forall (fs : list (list item)) i, (i < length fs)%nat ->
  concat (skipn i fs) = nth i fs [] ++ concat (skipn (S i) fs).
Proof.
  induction fs as [|f fs IH]; intros i Hi; [cbn in Hi; lia|].
  destruct i as [|i]; [reflexivity|].
  cbn [skipn nth]. apply IH. cbn [length] in Hi. lia.
Qed.

Lemma py_nth_in : forall l i, 0 <= i < zlen l -> py_nth l i = nth_error l (Z.to_nat i).
Proof.
  intros l i Hi. unfold py_nth. replace (i <? 0) with false by lia.
  replace ((i <? 0) || (zlen l <=? i)) with false by lia. reflexivity.
Qed.

Lemma py_nth_out : forall l i, zlen l <= i -> 0 <= i -> py_nth l i = None.
Proof.
  intros l i Hi H0. unfold py_nth. replace (i <? 0) with false by lia.
  replace ((i <? 0) || (zlen l <=? i)) with true by lia. reflexivity.
Qed.

Lemma payload_positive : forall f, f <> [] -> good_items f -> 0 < fold_right (fun it a => ilen it + a) 0 f.
Proof.
  induction f as [|x f IH]; intros Hne Hg; [congruence|].
  destruct (Hg x (or_introl eq_refl)) as [Hx _]. cbn [fold_right].
  destruct f as [|y f]; [cbn; lia|].
  assert (0 < fold_right (fun it a => ilen it + a) 0 (y :: f)).
  { apply IH; [discriminate|intros it Hit; apply Hg; now right]. }
  lia.
Qed.

(* ---------------- read_frame_raw with a correct table ---------------- *)
Lemma read_frame_raw_correct : forall fs i, good_frames fs -> 0 <= i < zlen fs ->
  read_frame_raw_enc (frame_offsets 0 fs) (concat fs) (zlen fs) i
  = Ok (zlen (concat (firstn (Z.to_nat i) fs)), zlen (nth (Z.to_nat i) fs [])).
Proof.
  intros fs i Hg Hi. unfold read_frame_raw_enc.
  replace ((i <? 0) || (i >=? zlen fs)) with false by lia.
  assert (Hlen : zlen (frame_offsets 0 fs) = zlen fs) by (unfold zlen; now rewrite frame_offsets_length).
  set (I := Z.to_nat i). assert (HI : (I < length fs)%nat) by (unfold zlen in Hi; lia).
  rewrite py_nth_in by lia. fold I. rewrite frame_offsets_nth by exact HI.
  set (pre := concat (firstn I fs)). set (f := nth I fs []).
  assert (Hf : In f fs) by (apply nth_In; exact HI).
  destruct (Hg f Hf) as [Hne Hgf].
  assert (Hpre : good_items pre) by (apply good_items_concat, good_frames_firstn, Hg).
  assert (Hsplit : concat fs = pre ++ concat (skipn I fs)).
  { unfold pre. rewrite <- concat_app. now rewrite firstn_skipn. }
  replace (0 + total_size pre) with (total_size pre + 0) by lia.
  rewrite Hsplit at 1. rewrite seek_app by (assumption || lia). rewrite seek_zero.
  rewrite concat_skipn_nth by exact HI. fold f.
  assert (Htake : take (match py_nth (frame_offsets 0 fs) (i + 1) with
                        | Some o => o - (total_size pre + 0) | None => -1 end) 0
                       (f ++ concat (skipn (S I) fs)) = f).
  { destruct (Z_lt_le_dec (i + 1) (zlen fs)) as [Hlt | Hge].
    - rewrite py_nth_in by lia. replace (Z.to_nat (i + 1)) with (S I) by lia.
      rewrite frame_offsets_nth by (unfold zlen in Hlt; lia).
      rewrite concat_firstn_S by exact HI. fold pre f. rewrite total_size_app.
      replace (0 + (total_size pre + total_size f) - (total_size pre + 0)) with (0 + total_size f) by lia.
      now apply take_frame.
    - rewrite py_nth_out by lia.
      assert (HS : skipn (S I) fs = []) by (apply skipn_all2; unfold zlen in Hge; lia).
      rewrite HS. cbn [concat]. rewrite app_nil_r. apply take_all; [exact Hgf|lia]. }
  rewrite Htake.
  pose proof (payload_positive f Hne Hgf) as Hpos.
  replace (fold_right (fun it a => ilen it + a) 0 f =? 0) with false by lia.
  reflexivity.
Qed.

(* ---------------- rebuilding the table ---------------- *)
Fixpoint offs (pos : Z) (its : list item) : list Z :=
  match its with [] => [] | it :: r => pos :: offs (pos + isize it) r end.

Lemma scan_good : forall its pos, good_items its ->
  exists fm, scan pos its = Ok (offs pos its, fm) /\
             (length fm <= length its)%nat /\ (length fm = length its -> fm = offs pos its).
Proof.
  induction its as [|x its IH]; intros pos Hg.
  - exists []. cbn. repeat split; auto.
  - destruct (Hg x (or_introl eq_refl)) as [Hx Hodd].
    destruct (IH (pos + isize x) (fun it Hit => Hg it (or_intror Hit))) as (fm & E & Hle & Heq).
    cbn [scan]. rewrite Hodd. replace (ilen x =? 0) with false by lia. rewrite E. cbn [bind fst snd offs].
    destruct (imark x).
    + exists (pos :: fm). split; [reflexivity|]. cbn [length]. split; [lia|].
      intros H. f_equal. apply Heq. lia.
    + exists fm. split; [reflexivity|]. cbn [length]. split; [lia|]. intros H. lia.
Qed.

Lemma offs_length : forall its pos, length (offs pos its) = length its.
Proof. induction its as [|x its IH]; intros pos; cbn [offs length]; [reflexivity|now rewrite IH]. Qed.

(* one fragment per frame: the rebuilt table is the table of fragment offsets, whatever the markers *)
Lemma build_bot_single : forall its, good_items its -> its <> [] ->
  build_bot its (zlen its) = Ok (offs 0 its).
Proof.
  intros its Hg Hne. unfold build_bot.
  destruct (scan_good its 0 Hg) as (fm & E & Hle & Heq). rewrite E. cbn [bind fst snd].
  destruct (zlen fm =? zlen its) eqn:Em.
  - f_equal. apply Heq. unfold zlen in Em. lia.
  - unfold zlen. rewrite offs_length. now rewrite Z.eqb_refl.
Qed.

Lemma offs_single_frames : forall its pos, frame_offsets pos (map (fun it => [it]) its) = offs pos its.
Proof.
  induction its as [|x its IH]; intros pos; cbn [map frame_offsets offs]; [reflexivity|].
  f_equal. rewrite <- IH. f_equal. cbn. lia.
Qed.

(* several fragments per frame, first fragment of each frame (and no other) starts with a marker *)
Definition marked_frame (f : list item) : Prop :=
  match f with [] => False | x :: r => imark x = true /\ forall it, In it r -> imark it = false end.

Lemma scan_unmarked : forall r pos rest fg fm, good_items r -> (forall it, In it r -> imark it = false) ->
  scan (pos + total_size r) rest = Ok (fg, fm) ->
  exists fg', scan pos (r ++ rest) = Ok (fg', fm) /\ length fg' = (length r + length fg)%nat.
Proof.
  induction r as [|x r IH]; intros pos rest fg fm Hg Hm E.
  - cbn [total_size fold_right app] in *. replace (pos + 0) with pos in E by lia. exists fg. now split.
  - destruct (Hg x (or_introl eq_refl)) as [Hx Hodd].
    change (total_size (x :: r)) with (isize x + total_size r) in E.
    replace (pos + (isize x + total_size r)) with (pos + isize x + total_size r) in E by lia.
    destruct (IH (pos + isize x) rest fg fm (fun it Hit => Hg it (or_intror Hit))
                 (fun it Hit => Hm it (or_intror Hit)) E) as (fg' & E' & L).
    cbn [app scan]. rewrite Hodd. replace (ilen x =? 0) with false by lia. rewrite E'. cbn [bind fst snd].
    rewrite (Hm x (or_introl eq_refl)). exists (pos :: fg'). split; [reflexivity|]. cbn [length]. lia.
Qed.

Lemma scan_marked_frames : forall fs pos, good_frames fs -> (forall f, In f fs -> marked_frame f) ->
  exists fg, scan pos (concat fs) = Ok (fg, frame_offsets pos fs).
Proof.
  induction fs as [|f fs IH]; intros pos Hg Hm.
  - exists []. reflexivity.
  - destruct (Hg f (or_introl eq_refl)) as [Hne Hgf].
    pose proof (Hm f (or_introl eq_refl)) as Hmf. destruct f as [|x r]; [contradiction|].
    destruct Hmf as [Hx Hr]. destruct (Hgf x (or_introl eq_refl)) as [Hxl Hodd].
    destruct (IH (pos + total_size (x :: r)) (fun g Hgi => Hg g (or_intror Hgi))
                 (fun g Hgi => Hm g (or_intror Hgi))) as (fg & E).
    change (total_size (x :: r)) with (isize x + total_size r) in E.
    replace (pos + (isize x + total_size r)) with (pos + isize x + total_size r) in E by lia.
    destruct (scan_unmarked r (pos + isize x) (concat fs) fg _ (fun it Hit => Hgf it (or_intror Hit)) Hr E)
      as (fg' & E' & _).
    cbn [concat app scan frame_offsets]. rewrite Hodd. replace (ilen x =? 0) with false by lia.
    rewrite E'. cbn [bind fst snd]. rewrite Hx. exists (pos :: fg').
    change (total_size (x :: r)) with (isize x + total_size r).
    replace (pos + (isize x + total_size r)) with (pos + isize x + total_size r) by lia. reflexivity.
Qed.

Lemma build_bot_marked : forall fs, good_frames fs -> (forall f, In f fs -> marked_frame f) ->
  build_bot (concat fs) (zlen fs) = Ok (frame_offsets 0 fs).
Proof.
  intros fs Hg Hm. unfold build_bot. destruct (scan_marked_frames fs 0 Hg Hm) as (fg & E).
  rewrite E. cbn [bind fst snd]. unfold zlen. rewrite frame_offsets_length. now rewrite Z.eqb_refl.
Qed.

(* whichever table the reader ends up with, it is the true one *)
Lemma offset_table_correct : forall fs bot eot, good_frames fs -> fs <> [] ->
  (forall f, In f fs -> marked_frame f) \/ (forall f, In f fs -> exists it, f = [it]) ->
  (eot = None \/ eot = Some (frame_offsets 0 fs)) ->
  (bot = [] \/ bot = frame_offsets 0 fs) ->
  offset_table eot bot (concat fs) (zlen fs) = Ok (frame_offsets 0 fs).
Proof.
  intros fs bot eot Hg Hne Hshape He Hb.
  assert (Hlen : zlen (frame_offsets 0 fs) = zlen fs) by (unfold zlen; now rewrite frame_offsets_length).
  assert (Hpos : 0 < zlen fs) by (destruct fs; [congruence|unfold zlen; cbn [length]; lia]).
  destruct He as [-> | ->]; unfold offset_table.
  2:{ destruct (frame_offsets 0 fs) eqn:Ef; [destruct fs; [congruence|discriminate]|].
      rewrite Hlen. now rewrite Z.eqb_refl. }
  assert (Hc : concat fs <> []).
  { destruct fs as [|f fs]; [congruence|]. destruct (Hg f (or_introl eq_refl)) as [Hf _].
    cbn [concat]. destruct f; [congruence|discriminate]. }
  assert (Hbuild : build_bot (concat fs) (zlen fs) = Ok (frame_offsets 0 fs)).
  { destruct Hshape as [Hm | Hs]; [now apply build_bot_marked|].
    assert (Hfs : fs = map (fun it => [it]) (concat fs)).
    { clear -Hs. induction fs as [|f fs IH]; [reflexivity|].
      destruct (Hs f (or_introl eq_refl)) as (it & ->). cbn [concat app map]. f_equal.
      apply IH. intros g Hgi. apply Hs. now right. }
    rewrite Hfs at 2 3. rewrite offs_single_frames.
    replace (zlen (map (fun it => [it]) (concat fs))) with (zlen (concat fs)) by (unfold zlen; now rewrite map_length).
    apply build_bot_single; [now apply good_items_concat|exact Hc]. }
  unfold get_bot. destruct (concat fs) eqn:Ec; [congruence|].
  destruct Hb as [-> | ->].
  - replace (zlen (@nil Z) =? zlen fs) with false by (unfold zlen at 1; cbn [length]; lia).
    now rewrite Hbuild.
  - rewrite Hlen, Z.eqb_refl. reflexivity.
Qed.

(* ---------------- the reader's own entry point on native data ---------------- *)
Lemma nth_error_zrange : forall n i, 0 <= i < n -> nth_error (zrange n) (Z.to_nat i) = Some i.
Proof.
  intros n i Hi. unfold zrange. rewrite nth_error_map.
  rewrite (nth_error_nth' _ 0%nat) by (rewrite seq_length; lia).
  rewrite seq_nth by lia. cbn [option_map]. f_equal. lia.
Qed.

Lemma zlen_zrange : forall n, 0 <= n -> zlen (zrange n) = n.
Proof. intros n Hn. unfold zlen, zrange. rewrite map_length, seq_length. lia. Qed.

Lemma reader_native_in_range : forall bits npx n pd i, 0 <= i < n ->
  raw_of_range (lazy_range bits npx i) pd <> [] ->
  read_frame_raw_native bits npx n pd i = Ok (raw_of_range (eager_range bits npx i) pd).
Proof.
  intros bits npx n pd i Hi Hne. unfold read_frame_raw_native.
  replace ((i <? 0) || (i >=? n)) with false by lia.
  rewrite py_nth_in by (unfold zlen; rewrite map_length; fold (zlen (zrange n)); rewrite zlen_zrange; lia).
  rewrite nth_error_map, nth_error_zrange by lia. cbn [option_map].
  rewrite <- raw_ranges_agree. unfold raw_of_range, lazy_range in *. cbn [fst snd] in *.
  destruct (pyslice (lazy_offset bits npx i) (lazy_offset bits npx i + lazy_nbytes bits npx i) pd); [congruence|reflexivity].
Qed.

(* outside the image the reader refuses, on native and on encapsulated data (never wraps) *)
Lemma reader_native_rejects : forall bits npx n pd i,
  (i < 0 \/ n <= i) -> read_frame_raw_native bits npx n pd i = Err "ValueError".
Proof.
  intros bits npx n pd i H. unfold read_frame_raw_native.
  replace ((i <? 0) || (i >=? n)) with true by lia. reflexivity.
Qed.

Lemma reader_enc_rejects : forall table its n i,
  (i < 0 \/ n <= i) -> read_frame_raw_enc table its n i = Err "ValueError".
Proof.
  intros table its n i H. unfold read_frame_raw_enc.
  replace ((i <? 0) || (i >=? n)) with true by lia. reflexivity.
Qed.

(* conversely, an answer implies an index inside the image *)
Lemma reader_answers_in_range : forall bits npx n pd i d,
  read_frame_raw_native bits npx n pd i = Ok d -> 0 <= i < n.
Proof.
  intros bits npx n pd i d H. unfold read_frame_raw_native in H.
  destruct ((i <? 0) || (i >=? n)) eqn:E; [discriminate|lia].
Qed.

Lemma reader_enc_answers_in_range : forall table its n i r,
  read_frame_raw_enc table its n i = Ok r -> 0 <= i < n.
Proof.
  intros table its n i r H. unfold read_frame_raw_enc in H.
  destruct ((i <? 0) || (i >=? n)) eqn:E; [discriminate|lia].
Qed.
