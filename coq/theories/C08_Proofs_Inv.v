(* C08 - proofs, part 8: the coordinate -> index direction.
   inverse_affine / map_reference_to_indices / VolumeToVolumeTransformer of the RESULT of any
   history find every retained voxel at the physical coordinate it had in the initial volume;
   queries never change the history. *)
From Coq Require Import String ZArith List Bool Lia Ring Field QArith Qcanon Lqa.
From HD Require Import C08_Model C08_Proofs C08_Proofs_Step C08_Proofs_Qc C08_Proofs_Top.
Import ListNotations.
Open Scope Z_scope.

(* ------------------------------------------------------------------ ring-generic: Cramer *)
Section Cramer.
Variable R : Type.
Variables (rO rI : R) (radd rmul rsub : R -> R -> R) (ropp : R -> R).
Variable Rth : ring_theory rO rI radd rmul rsub ropp (@eq R).
Add Ring RrInv : Rth.

Notation physR := (phys R radd rmul).
Notation det := (det3 R radd rmul rsub).
Notation lnum := (lookup_num R radd rmul rsub).
Notation llin := (lookup_lin_num R radd rmul rsub).
Notation n2 := (norm2 R radd rmul).

(* adjugate . A = det . identity : no division, any commutative ring, ANY matrix *)
Lemma cramer_left : forall (A : aff R) i j k,
  lnum A (physR A i j k) = V (rmul (det A) i) (rmul (det A) j) (rmul (det A) k).
Proof.
  intros [[a0 a1 a2] [b0 b1 b2] [d0 d1 d2] [t0 t1 t2]] i j k.
  unfold lookup_num, lookup_lin_num, vsubR, crossR, dotR3, det3, phys, vadd, smul; cbn.
  f_equal; ring.
Qed.

(* A . adjugate = det . identity *)
Lemma cramer_right : forall (A : aff R) p,
  let n := lnum A p in
  vadd R radd (vadd R radd (smul R rmul (vx n) (c0 A)) (smul R rmul (vy n) (c1 A))) (smul R rmul (vz n) (c2 A))
  = smul R rmul (det A) (vsubR R rsub p (tr A)).
Proof.
  intros [[a0 a1 a2] [b0 b1 b2] [d0 d1 d2] [t0 t1 t2]] [p0 p1 p2].
  unfold lookup_num, lookup_lin_num, vsubR, crossR, dotR3, det3, vadd, smul; cbn.
  f_equal; ring.
Qed.

(* Gram determinant: for pairwise orthogonal columns det^2 = |c0|^2 |c1|^2 |c2|^2 *)
Lemma gram_det : forall (A : aff R), ortho R rO radd rmul A ->
  rmul (det A) (det A) = rmul (rmul (n2 (c0 A)) (n2 (c1 A))) (n2 (c2 A)).
Proof.
  intros [[a0 a1 a2] [b0 b1 b2] [d0 d1 d2] t] (H01 & H02 & H12).
  unfold dot in H01, H02, H12; cbn in H01, H02, H12.
  unfold det3, norm2, dotR3; cbn.
  set (d01 := radd (radd (rmul a0 b0) (rmul a1 b1)) (rmul a2 b2)) in *.
  set (d02 := radd (radd (rmul a0 d0) (rmul a1 d1)) (rmul a2 d2)) in *.
  set (d12 := radd (radd (rmul b0 d0) (rmul b1 d1)) (rmul b2 d2)) in *.
  set (na := radd (radd (rmul a0 a0) (rmul a1 a1)) (rmul a2 a2)).
  set (nb := radd (radd (rmul b0 b0) (rmul b1 b1)) (rmul b2 b2)).
  set (nd := radd (radd (rmul d0 d0) (rmul d1 d1)) (rmul d2 d2)).
  transitivity (rsub (radd (rmul (rmul na nb) nd)
                           (rmul (radd rI rI) (rmul (rmul d01 d02) d12)))
                     (radd (radd (rmul na (rmul d12 d12)) (rmul nb (rmul d02 d02)))
                           (rmul nd (rmul d01 d01)))).
  - subst d01 d02 d12 na nb nd. ring.
  - rewrite H01, H02, H12. ring.
Qed.
(* ---- dividing by the determinant: any k with k * det = 1 *)
Definition g_scale (k : R) (v : vec R) : vec R := V (rmul (vx v) k) (rmul (vy v) k) (rmul (vz v) k).

Lemma g_lookup_phys : forall (A : aff R) k i j l, rmul k (det A) = rI ->
  g_scale k (lnum A (physR A i j l)) = V i j l.
Proof.
  intros A k i j l H. rewrite cramer_left. unfold g_scale; cbn [vx vy vz].
  f_equal.
  - transitivity (rmul (rmul k (det A)) i); [ring|rewrite H; ring].
  - transitivity (rmul (rmul k (det A)) j); [ring|rewrite H; ring].
  - transitivity (rmul (rmul k (det A)) l); [ring|rewrite H; ring].
Qed.

Lemma g_phys_lookup : forall (A : aff R) k p, rmul k (det A) = rI ->
  let n := g_scale k (lnum A p) in physR A (vx n) (vy n) (vz n) = p.
Proof.
  intros A k p H n. pose proof (cramer_right A p) as C. cbn zeta in C. subst n.
  set (m := lnum A p) in *. set (D := det A) in *.
  destruct A as [[a0 a1 a2] [b0 b1 b2] [d0 d1 d2] [t0 t1 t2]], p as [p0 p1 p2], m as [m0 m1 m2].
  unfold vadd, smul, vsubR in C; cbn [vx vy vz c0 c1 c2 tr] in C. injection C as C0 C1 C2.
  unfold g_scale, phys, vadd, smul; cbn [vx vy vz c0 c1 c2 tr].
  f_equal.
  - transitivity (radd (rmul k (radd (radd (rmul m0 a0) (rmul m1 b0)) (rmul m2 d0))) t0); [ring|].
    rewrite C0. transitivity (radd (rmul (rmul k D) (rsub p0 t0)) t0); [ring|rewrite H; ring].
  - transitivity (radd (rmul k (radd (radd (rmul m0 a1) (rmul m1 b1)) (rmul m2 d1))) t1); [ring|].
    rewrite C1. transitivity (radd (rmul (rmul k D) (rsub p1 t1)) t1); [ring|rewrite H; ring].
  - transitivity (radd (rmul k (radd (radd (rmul m0 a2) (rmul m1 b2)) (rmul m2 d2))) t2); [ring|].
    rewrite C2. transitivity (radd (rmul (rmul k D) (rsub p2 t2)) t2); [ring|rewrite H; ring].
Qed.

(* the inverse as a matrix (columns = images of the unit vectors, translation = image of the
   origin) is the lookup function, whatever the scalar *)
Lemma g_inv_aff_spec : forall (A : aff R) k p0 p1 p2,
  physR (Aff (g_scale k (llin A (V rI rO rO))) (g_scale k (llin A (V rO rI rO)))
             (g_scale k (llin A (V rO rO rI))) (g_scale k (lnum A (V rO rO rO)))) p0 p1 p2
  = g_scale k (lnum A (V p0 p1 p2)).
Proof.
  intros [[a0 a1 a2] [b0 b1 b2] [d0 d1 d2] [t0 t1 t2]] k p0 p1 p2.
  unfold g_scale, lookup_num, lookup_lin_num, vsubR, crossR, dotR3, phys, vadd, smul; cbn.
  f_equal; ring.
Qed.

Lemma g_xform_spec : forall (Af At : aff R) k i j l,
  physR (Aff (g_scale k (llin At (c0 Af))) (g_scale k (llin At (c1 Af))) (g_scale k (llin At (c2 Af)))
             (g_scale k (lnum At (tr Af)))) i j l
  = g_scale k (lnum At (physR Af i j l)).
Proof.
  intros [[a0 a1 a2] [b0 b1 b2] [d0 d1 d2] [t0 t1 t2]] [[e0 e1 e2] [f0 f1 f2] [g0 g1 g2] [u0 u1 u2]] k i j l.
  unfold g_scale, lookup_num, lookup_lin_num, vsubR, crossR, dotR3, phys, vadd, smul; cbn.
  f_equal; ring.
Qed.
End Cramer.

(* ------------------------------------------------------------------ the field Qc *)
Local Notation Q0 := (Q2Qc 0%Q).
Local Notation qphys := (phys Qc Qcplus Qcmult).

Lemma q_zero_eq : q_zero = 0%Qc. Proof. reflexivity. Qed.
Lemma q_one_eq : q_one = 1%Qc. Proof. reflexivity. Qed.

Lemma qc_sq_nonneg : forall x : Qc, (0 <= this (x * x)%Qc)%Q.
Proof.
  intros x. unfold Qcmult. cbn [this Q2Qc]. rewrite Qred_correct.
  destruct (Qlt_le_dec (this x) 0) as [H|H].
  - setoid_replace (this x * this x)%Q with ((- this x) * (- this x))%Q by ring.
    apply Qmult_le_0_compat; lra.
  - apply Qmult_le_0_compat; lra.
Qed.

Lemma this_plus : forall a b : Qc, (this (a + b)%Qc == this a + this b)%Q.
Proof. intros. unfold Qcplus. cbn [this Q2Qc]. apply Qred_correct. Qed.

Lemma qc_sq_zero : forall x : Qc, (this (x * x)%Qc == 0)%Q -> x = 0%Qc.
Proof.
  intros x H. assert (E : (x * x)%Qc = 0%Qc) by (apply Qc_is_canon; rewrite H; reflexivity).
  destruct (Qcmult_integral _ _ E); assumption.
Qed.

Lemma qc_sumsq_zero : forall x y z : Qc, (x * x + y * y + z * z)%Qc = 0%Qc ->
  x = 0%Qc /\ y = 0%Qc /\ z = 0%Qc.
Proof.
  intros x y z H.
  assert (H' : (this (x * x + y * y + z * z)%Qc == 0)%Q) by (rewrite H; reflexivity).
  rewrite !this_plus in H'.
  pose proof (qc_sq_nonneg x). pose proof (qc_sq_nonneg y). pose proof (qc_sq_nonneg z).
  repeat split; apply qc_sq_zero; lra.
Qed.

(* a scaled orthogonal affine is invertible *)
Lemma so_det_nonzero : forall A : aff Qc,
  scaled_orthogonal Qc Q0 Qcplus Qcmult A -> q_det A <> q_zero.
Proof.
  intros A [Ho (N0 & N1 & N2)] Hd. unfold q_det in Hd.
  pose proof (gram_det Qc Q0 (Q2Qc 1%Q) Qcplus Qcmult Qcminus Qcopp Qcrt A Ho) as G.
  rewrite Hd in G. rewrite q_zero_eq in G.
  assert (Z0 : (0 * 0)%Qc = 0%Qc) by ring. change (Qcmult 0%Qc 0%Qc) with (0 * 0)%Qc in G. rewrite Z0 in G.
  symmetry in G. apply Qcmult_integral in G. destruct G as [G|G].
  - apply Qcmult_integral in G. destruct G as [G|G].
    + apply N0. unfold norm2, dotR3 in G. exact (qc_sumsq_zero _ _ _ G).
    + apply N1. unfold norm2, dotR3 in G. exact (qc_sumsq_zero _ _ _ G).
  - apply N2. unfold norm2, dotR3 in G. exact (qc_sumsq_zero _ _ _ G).
Qed.

Lemma qc_inv_det : forall d : Qc, d <> q_zero -> Qcmult (Qcinv d) d = Q2Qc 1%Q.
Proof. intros d Hd. rewrite Qcmult_comm. apply Qcmult_inv_r. exact Hd. Qed.

(* index -> coordinate -> index is the identity *)
Lemma q_lookup_phys : forall (A : aff Qc) i j k, q_det A <> q_zero ->
  q_lookup A (qphys A i j k) = V i j k.
Proof.
  intros A i j k Hd.
  exact (g_lookup_phys Qc Q0 (Q2Qc 1%Q) Qcplus Qcmult Qcminus Qcopp Qcrt A (Qcinv (q_det A)) i j k
           (qc_inv_det _ Hd)).
Qed.

(* coordinate -> index -> coordinate is the identity *)
Lemma q_phys_lookup : forall (A : aff Qc) p, q_det A <> q_zero ->
  let n := q_lookup A p in qphys A (vx n) (vy n) (vz n) = p.
Proof.
  intros A p Hd.
  exact (g_phys_lookup Qc Q0 (Q2Qc 1%Q) Qcplus Qcmult Qcminus Qcopp Qcrt A (Qcinv (q_det A)) p
           (qc_inv_det _ Hd)).
Qed.

(* the matrix inverse_affine IS the lookup function *)
Lemma q_inv_aff_spec : forall (A : aff Qc) p0 p1 p2,
  qphys (q_inv_aff A) p0 p1 p2 = q_lookup A (V p0 p1 p2).
Proof.
  intros A p0 p1 p2.
  exact (g_inv_aff_spec Qc Q0 (Q2Qc 1%Q) Qcplus Qcmult Qcminus Qcopp Qcrt A (Qcinv (q_det A)) p0 p1 p2).
Qed.

(* VolumeToVolumeTransformer(from, to): index of `from` -> coordinate -> index of `to` *)
Lemma q_xform_spec : forall (Af At : aff Qc) i j k,
  qphys (q_xform Af At) i j k = q_lookup At (qphys Af i j k).
Proof.
  intros Af At i j k.
  exact (g_xform_spec Qc Q0 (Q2Qc 1%Q) Qcplus Qcmult Qcminus Qcopp Qcrt Af At (Qcinv (q_det At)) i j k).
Qed.

Definition vecZ (j : idx) : vec Qc := let '(j0, j1, j2) := j in V (qc_inj j0) (qc_inj j1) (qc_inj j2).

Lemma q_phys_physZ : forall A j, q_phys A j = physZ Qc Qcplus Qcmult qc_inj A j.
Proof. intros A [[j0 j1] j2]. reflexivity. Qed.

Lemma q_lookup_own_voxel : forall A j, q_det A <> q_zero -> q_lookup A (q_phys A j) = vecZ j.
Proof. intros A [[j0 j1] j2] Hd. unfold q_phys, vecZ. apply q_lookup_phys. exact Hd. Qed.

(* ------------------------------------------------------------------ histories *)
Notation qrun_tr := (run_tr Qc Q0 Qcplus Qcmult Qcminus Qcopp qc_inj qc_ltb Q q_padval).
Notation qrun := (run Qc Q0 Qcplus Qcmult Qcminus Qcopp qc_inj qc_ltb Q q_padval).
Notation qso := (scaled_orthogonal Qc Q0 Qcplus Qcmult).

(* EVERY finite history: the result is invertible, and its coordinate -> index query finds every
   voxel that descends from an initial voxel at the coordinate that voxel had; the transformer
   from the initial volume to the result maps the initial index to the new one *)
Theorem history_lookup_finds_voxels : forall (ops : list qop) (v : qvol),
  wf (v_shape _ _ v) -> qso (v_aff _ _ v) ->
  let v' := fst (qrun_tr v ops) in
  let Phi := snd (qrun_tr v ops) in
  q_det (v_aff _ _ v') <> q_zero /\
  forall j, inr (v_shape _ _ v') j -> forall i, Phi j = Some i ->
    inr (v_shape _ _ v) i /\
    q_lookup (v_aff _ _ v') (q_phys (v_aff _ _ v) i) = vecZ j /\
    (let '(i0, i1, i2) := i in
     qphys (q_xform (v_aff _ _ v) (v_aff _ _ v')) (qc_inj i0) (qc_inj i1) (qc_inj i2)) = vecZ j /\
    (let '(j0, j1, j2) := j in
     qphys (q_xform (v_aff _ _ v') (v_aff _ _ v)) (qc_inj j0) (qc_inj j1) (qc_inj j2)) = vecZ i.
Proof.
  intros ops v W S v' Phi.
  destruct (top_history Qc Q0 (Q2Qc 1%Q) Qcplus Qcmult Qcminus Qcopp qc_inj qc_ltb Q q_padval Zring_Qc ops v W)
    as (_ & W' & S' & _ & _ & P & _).
  fold v' in W', S', P. fold Phi in P.
  assert (D' : q_det (v_aff _ _ v') <> q_zero) by (apply so_det_nonzero; apply S'; exact S).
  assert (D0 : q_det (v_aff _ _ v) <> q_zero) by (apply so_det_nonzero; exact S).
  split; [exact D'|]. intros j Hj i Hi. destruct (P j Hj i Hi) as (Ii & E).
  split; [exact Ii|].
  assert (L : q_lookup (v_aff _ _ v') (q_phys (v_aff _ _ v) i) = vecZ j).
  { rewrite q_phys_physZ, <- E, <- q_phys_physZ. apply q_lookup_own_voxel. exact D'. }
  split; [exact L|]. split.
  - destruct i as [[i0 i1] i2]. rewrite q_xform_spec. exact L.
  - destruct j as [[j0 j1] j2]. rewrite q_xform_spec.
    change (qphys (v_aff _ _ v') (qc_inj j0) (qc_inj j1) (qc_inj j2)) with (q_phys (v_aff _ _ v') (j0, j1, j2)).
    rewrite q_phys_physZ, E, <- q_phys_physZ. apply q_lookup_own_voxel. exact D0.
Qed.

(* inverse_affine of an invertible affine is a two-sided inverse, as a function and as a matrix *)
Theorem inverse_affine_is_inverse : forall A : aff Qc, q_det A <> q_zero ->
  (forall i j k, qphys (q_inv_aff A) (vx (qphys A i j k)) (vy (qphys A i j k)) (vz (qphys A i j k)) = V i j k) /\
  (forall p0 p1 p2, let n := qphys (q_inv_aff A) p0 p1 p2 in qphys A (vx n) (vy n) (vz n) = V p0 p1 p2).
Proof.
  intros A Hd. split.
  - intros i j k. rewrite q_inv_aff_spec.
    replace (V (vx (qphys A i j k)) (vy (qphys A i j k)) (vz (qphys A i j k))) with (qphys A i j k)
      by (destruct (qphys A i j k); reflexivity).
    apply q_lookup_phys. exact Hd.
  - intros p0 p1 p2 n. subst n. rewrite q_inv_aff_spec. apply (q_phys_lookup A (V p0 p1 p2) Hd).
Qed.

(* ------------------------------------------------------------------ queries are pure *)
Fixpoint op_outputs (evs : list event) (outs : list val) : list val :=
  match evs, outs with
  | e :: evs', o :: outs' => if is_op e then o :: op_outputs evs' outs' else op_outputs evs' outs'
  | _, _ => []
  end.

(* what a history reports for its operations does not depend on the queries made in between
   (nor on the initial affine the queries refer to) *)
Theorem queries_do_not_change_history : forall evs A0 v g,
  op_outputs evs (run_events_from A0 v g evs) = run_hist_from v g (ops_of evs).
Proof.
  induction evs as [|[o|l] evs IH]; intros A0 v g; [reflexivity| |].
  - cbn [run_events_from op_outputs is_op ops_of flat_map app run_hist_from].
    f_equal. apply IH.
  - cbn [run_events_from op_outputs is_op ops_of flat_map app]. apply IH.
Qed.

Theorem query_outputs_aligned : forall evs A0 v g,
  length (run_events_from A0 v g evs) = length evs.
Proof.
  induction evs as [|[o|l] evs IH]; intros; cbn [run_events_from length]; [reflexivity| |]; f_equal; apply IH.
Qed.

(* ---- non-vacuity: ex_vol2 (rotated 3-4-5, left-handed, spacing 2) is scaled orthogonal; after a
   slice with a negative step of 2, an EDGE pad, a re-orientation and a handedness fix the
   coordinate -> index query of the result, asked for the coordinate initial voxel (1,2,0) had,
   answers (0,0,2) - the voxel that descends from it *)
Definition ex_ops_inv : list qop :=
  [Sp (OGet (XTup [ISlc (Some 1) None None; ISlc None None (Some (-2))]));
   Sp (OPad (PWNest [[1; 0]; [0; 0]; [0; 1]]) PEdge (Qmake 0 1) false);
   Sp (OOrient [5; 2; 0]); Sp (OHanded HRight (Some 1) None)].

Lemma ex_so : qso (v_aff _ _ ex_vol2).
Proof.
  split.
  - repeat split; apply Qc_is_canon; vm_compute; reflexivity.
  - cbn [ex_vol2 mkvol v_aff ex_aff]. unfold cols_nonzero, vzero; cbn [c0 c1 c2 vx vy vz].
    repeat split; intros (X & Y & Z).
    + apply (qc_nz 3 5) in Y; [exact Y|lia].
    + apply (qc_nz (-4) 5) in Y; [exact Y|lia].
    + apply (qc_nz (-2) 1) in X; [exact X|lia].
Qed.

Lemma ex_lookup :
  wf (v_shape _ _ ex_vol2) /\ qso (v_aff _ _ ex_vol2) /\
  let r := qrun_tr ex_vol2 ex_ops_inv in
  v_shape _ _ (fst r) = (2, 2, 3) /\ snd r (0, 0, 2) = Some (1, 2, 0) /\
  vec_int (q_lookup (v_aff _ _ (fst r)) (q_phys (v_aff _ _ ex_vol2) (1, 2, 0))) = Some (0, 0, 2) /\
  vec_int (q_lookup (v_aff _ _ ex_vol2) (q_phys (v_aff _ _ ex_vol2) (1, 2, 0))) = Some (1, 2, 0).
Proof.
  split; [cbn; lia|]. split; [exact ex_so|]. vm_compute. repeat split; reflexivity.
Qed.
