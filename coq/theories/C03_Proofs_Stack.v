(* C03 - proofs, part 3: the list plumbing of the read-back.  A stack of planes
   lying on a line p0 + m * sp * n (m distinct integers, in any order, any
   subset) goes through get_volume_positions / stacked_full / get_volume and
   comes back with every plane at the volume index m - min m, the origin at
   the plane of minimal m, and every voxel where the input put it.  This
   instantiates the building blocks of C03_Proofs_Geom.v end to end for
   seg_from_volume (both handednesses, with and without omitted planes) and
   for aligned source stacks with a recorded slice spacing. *)
From Coq Require Import String ZArith List Bool Lia QArith Qround Qfield Lqa FinFun.
From HD Require Import Base.Val Base.PySlice C03_Model C03_Proofs_Geom.
Import ListNotations.
Open Scope Q_scope.

(* ---------------------------------------------------------------------- *)
(* numeric helpers of the model                                            *)
(* ---------------------------------------------------------------------- *)
Lemma qabs_pos : forall q, 0 < q -> qabs q = q.
Proof.
  intros q H. unfold qabs.
  assert (E : Qle_bool 0 q = true) by (apply Qle_bool_iff; lra).
  rewrite E. reflexivity.
Qed.

Lemma qabs_nonneg : forall q, 0 <= qabs q.
Proof.
  intros q. unfold qabs. destruct (Qle_bool 0 q) eqn:E.
  - apply Qle_bool_iff in E. exact E.
  - assert (~ 0 <= q) by (intros H; apply Qle_bool_iff in H; congruence). lra.
Qed.

Lemma qabs_zero : forall q, q == 0 -> qabs q == 0.
Proof. intros q H. unfold qabs. destruct (Qle_bool 0 q); lra. Qed.

Lemma qmin_le_l : forall a b, qmin a b <= a.
Proof.
  intros a b. unfold qmin. destruct (Qle_bool a b) eqn:E; [lra|].
  assert (~ a <= b) by (intros H; apply Qle_bool_iff in H; congruence). lra.
Qed.
Lemma qmin_le_r : forall a b, qmin a b <= b.
Proof.
  intros a b. unfold qmin. destruct (Qle_bool a b) eqn:E; [apply Qle_bool_iff in E; exact E|lra].
Qed.
Lemma qmin_cases : forall a b, qmin a b = a \/ qmin a b = b.
Proof. intros a b. unfold qmin. destruct (Qle_bool a b); auto. Qed.
Lemma qmax_ge_l : forall a b, a <= qmax a b.
Proof.
  intros a b. unfold qmax. destruct (Qle_bool a b) eqn:E; [apply Qle_bool_iff in E; exact E|lra].
Qed.
Lemma qmax_ge_r : forall a b, b <= qmax a b.
Proof.
  intros a b. unfold qmax. destruct (Qle_bool a b) eqn:E; [lra|].
  assert (~ a <= b) by (intros H; apply Qle_bool_iff in H; congruence). lra.
Qed.
Lemma qmax_cases : forall a b, qmax a b = a \/ qmax a b = b.
Proof. intros a b. unfold qmax. destruct (Qle_bool a b); auto. Qed.

Lemma qmin_list_spec : forall l d,
  (qmin_list d l = d \/ In (qmin_list d l) l) /\
  qmin_list d l <= d /\ (forall x, In x l -> qmin_list d l <= x).
Proof.
  induction l as [|a l IH]; intros d; unfold qmin_list in *; cbn [fold_left].
  - split; [left; reflexivity|]. split; [lra|]. intros x [].
  - destruct (IH (qmin d a)) as (Hin & Hd & Hall).
    pose proof (qmin_le_l d a). pose proof (qmin_le_r d a).
    split; [|split].
    + destruct Hin as [E | Hin]; [|right; right; exact Hin].
      rewrite E. destruct (qmin_cases d a) as [-> | ->]; [left; reflexivity|right; left; reflexivity].
    + lra.
    + intros x [<- | Hx]; [lra|apply Hall; exact Hx].
Qed.

Lemma qmax_list_spec : forall l d,
  (qmax_list d l = d \/ In (qmax_list d l) l) /\
  d <= qmax_list d l /\ (forall x, In x l -> x <= qmax_list d l).
Proof.
  induction l as [|a l IH]; intros d; unfold qmax_list in *; cbn [fold_left].
  - split; [left; reflexivity|]. split; [lra|]. intros x [].
  - destruct (IH (qmax d a)) as (Hin & Hd & Hall).
    pose proof (qmax_ge_l d a). pose proof (qmax_ge_r d a).
    split; [|split].
    + destruct Hin as [E | Hin]; [|right; right; exact Hin].
      rewrite E. destruct (qmax_cases d a) as [-> | ->]; [left; reflexivity|right; left; reflexivity].
    + lra.
    + intros x [<- | Hx]; [lra|apply Hall; exact Hx].
Qed.

(* the minimum over a non-empty list, as the model computes it *)
Lemma qmin_hd_spec : forall ds, ds <> [] ->
  In (qmin_list (hd 0 ds) ds) ds /\ forall x, In x ds -> qmin_list (hd 0 ds) ds <= x.
Proof.
  intros [|d t] H; [congruence|]. cbn [hd].
  destruct (qmin_list_spec (d :: t) d) as (Hin & _ & Hall).
  split; [|exact Hall]. destruct Hin as [-> | Hin]; [left; reflexivity|exact Hin].
Qed.
Lemma qmax_hd_spec : forall ds, ds <> [] ->
  In (qmax_list (hd 0 ds) ds) ds /\ forall x, In x ds -> x <= qmax_list (hd 0 ds) ds.
Proof.
  intros [|d t] H; [congruence|]. cbn [hd].
  destruct (qmax_list_spec (d :: t) d) as (Hin & _ & Hall).
  split; [|exact Hall]. destruct Hin as [-> | Hin]; [left; reflexivity|exact Hin].
Qed.

Lemma zmax_list_spec : forall l d,
  (zmax_list d l = d \/ In (zmax_list d l) l) /\
  (d <= zmax_list d l)%Z /\ (forall x, In x l -> (x <= zmax_list d l)%Z).
Proof.
  induction l as [|a l IH]; intros d; unfold zmax_list in *; cbn [fold_left].
  - split; [left; reflexivity|]. split; [lia|]. intros x [].
  - destruct (IH (Z.max d a)) as (Hin & Hd & Hall).
    split; [|split].
    + destruct Hin as [E | Hin]; [|right; right; exact Hin].
      rewrite E. destruct (Z.max_spec d a) as [[_ ->] | [_ ->]]; [right; left; reflexivity|left; reflexivity].
    + lia.
    + intros x [<- | Hx]; [lia|apply Hall; exact Hx].
Qed.

(* ---------------------------------------------------------------------- *)
(* Forall2 helpers                                                         *)
(* ---------------------------------------------------------------------- *)
Lemma Forall2_in_l : forall {A B} (R : A -> B -> Prop) l1 l2 a,
  Forall2 R l1 l2 -> In a l1 -> exists b, In b l2 /\ R a b.
Proof.
  intros A B R l1 l2 a H. induction H as [|x y l1 l2 Hxy H IH]; intros Hin; [destruct Hin|].
  destruct Hin as [<- | Hin]; [exists y; split; [left; reflexivity|exact Hxy]|].
  destruct (IH Hin) as (b & Hb & Rb). exists b; split; [right; exact Hb|exact Rb].
Qed.
Lemma Forall2_in_r : forall {A B} (R : A -> B -> Prop) l1 l2 b,
  Forall2 R l1 l2 -> In b l2 -> exists a, In a l1 /\ R a b.
Proof.
  intros A B R l1 l2 b H. induction H as [|x y l1 l2 Hxy H IH]; intros Hin; [destruct Hin|].
  destruct Hin as [<- | Hin]; [exists x; split; [left; reflexivity|exact Hxy]|].
  destruct (IH Hin) as (a & Ha & Ra). exists a; split; [right; exact Ha|exact Ra].
Qed.
Lemma Forall2_map_eq : forall {A B C} (R : A -> B -> Prop) (f : A -> C) (g : B -> C) l1 l2,
  Forall2 R l1 l2 -> (forall a b, R a b -> f a = g b) -> map f l1 = map g l2.
Proof.
  intros A B C R f g l1 l2 H Hfg. induction H as [|x y l1 l2 Hxy H IH]; [reflexivity|].
  cbn [map]. rewrite (Hfg _ _ Hxy), IH. reflexivity.
Qed.
Lemma Forall2_map_l : forall {A B C} (R : C -> B -> Prop) (f : A -> C) l1 l2,
  Forall2 (fun a b => R (f a) b) l1 l2 -> Forall2 R (map f l1) l2.
Proof. intros A B C R f l1 l2 H. induction H; cbn [map]; constructor; assumption. Qed.

(* ---------------------------------------------------------------------- *)
(* planes on a line                                                        *)
(* ---------------------------------------------------------------------- *)
Definition on_line (n p0 : v3) (sp : Q) (p : v3) (m : Z) : Prop :=
  p =v= vadd p0 (vscale (inject_Z m * sp) n).

Section Line.
  Variables (rowcos colcos p0 : v3) (sp : Q).
  Notation n := (normal rowcos colcos).
  Hypothesis Hn : vdot n n == 1.
  Hypothesis Hsp : 0 < sp.
  Notation c0 := (vdot n p0).
  Notation OL := (on_line n p0 sp).
  Notation DR := (fun (d : Q) (m : Z) => d == c0 + inject_Z m * sp).

  Lemma line_distance : forall p m, OL p m -> vdot n p == c0 + inject_Z m * sp.
  Proof.
    intros p m (X & Y & Z). revert Hn X Y Z.
    generalize n. intros [nx ny nz] Hn' X Y Z.
    destruct p0 as [px py pz]. unfold vdot, vadd, vscale in *; cbn [vx vy vz] in *.
    rewrite X, Y, Z.
    setoid_replace (nx * (px + inject_Z m * sp * nx) + ny * (py + inject_Z m * sp * ny) +
                    nz * (pz + inject_Z m * sp * nz))
      with (nx * px + ny * py + nz * pz + inject_Z m * sp * (nx * nx + ny * ny + nz * nz)) by ring.
    rewrite Hn'. ring.
  Qed.

  Lemma line_distances : forall ps ms, Forall2 OL ps ms -> Forall2 DR (map (vdot n) ps) ms.
  Proof.
    intros ps ms H. apply Forall2_map_l.
    induction H as [|p m ps ms Hpm H IH]; constructor; [apply line_distance; exact Hpm|exact IH].
  Qed.

  Lemma DR_le : forall d1 m1 d2 m2, DR d1 m1 -> DR d2 m2 -> (d1 <= d2 <-> (m1 <= m2)%Z).
  Proof.
    intros d1 m1 d2 m2 H1 H2. rewrite Zle_Qle. rewrite H1, H2. split; intros H; nra.
  Qed.
  Lemma DR_eq : forall d1 m1 d2 m2, DR d1 m1 -> DR d2 m2 -> d1 == d2 -> m1 = m2.
  Proof.
    intros d1 m1 d2 m2 H1 H2 E. apply inject_Z_injective. rewrite H1, H2 in E. nra.
  Qed.

  (* minimum / maximum distance = distance of the minimal / maximal multiple *)
  Lemma line_min : forall ds ms, Forall2 DR ds ms -> ds <> [] ->
    exists mmin, In mmin ms /\ DR (qmin_list (hd 0 ds) ds) mmin /\ forall m, In m ms -> (mmin <= m)%Z.
  Proof.
    intros ds ms H Hne. destruct (qmin_hd_spec ds Hne) as (Hin & Hall).
    destruct (Forall2_in_l _ _ _ _ H Hin) as (mmin & Hm & Rm).
    exists mmin. split; [exact Hm|]. split; [exact Rm|].
    intros m Hmin. destruct (Forall2_in_r _ _ _ _ H Hmin) as (d & Hd & Rd).
    apply (DR_le _ _ _ _ Rm Rd). apply Hall. exact Hd.
  Qed.
  Lemma line_max : forall ds ms, Forall2 DR ds ms -> ds <> [] ->
    exists mmax, In mmax ms /\ DR (qmax_list (hd 0 ds) ds) mmax /\ forall m, In m ms -> (m <= mmax)%Z.
  Proof.
    intros ds ms H Hne. destruct (qmax_hd_spec ds Hne) as (Hin & Hall).
    destruct (Forall2_in_l _ _ _ _ H Hin) as (mmax & Hm & Rm).
    exists mmax. split; [exact Hm|]. split; [exact Rm|].
    intros m Hmin. destruct (Forall2_in_r _ _ _ _ H Hmin) as (d & Hd & Rd).
    apply (DR_le _ _ _ _ Rd Rm). apply Hall. exact Hd.
  Qed.

  (* the volume index of a plane: round((d - dmin) / spacing) = m - mmin *)
  Lemma line_index : forall d m dmin mmin, DR d m -> DR dmin mmin ->
    rne ((d - dmin) / sp) = (m - mmin)%Z.
  Proof.
    intros d m dmin mmin H1 H2. apply rne_integer. rewrite H1, H2.
    unfold Zminus. rewrite inject_Z_plus, inject_Z_opp. field. lra.
  Qed.

  Lemma line_regular : forall d m dmin mmin, DR d m -> DR dmin mmin ->
    Qle_bool (qabs ((d - dmin) / sp - inject_Z (rne ((d - dmin) / sp))))
             (RTOL * qabs (inject_Z (rne ((d - dmin) / sp)))) = true.
  Proof.
    intros d m dmin mmin H1 H2. rewrite (line_index _ _ _ _ H1 H2).
    apply Qle_bool_iff.
    assert (E : (d - dmin) / sp - inject_Z (m - mmin) == 0).
    { rewrite H1, H2. unfold Zminus. rewrite inject_Z_plus, inject_Z_opp. field. lra. }
    rewrite (qabs_zero _ E).
    apply Qmult_le_0_compat; [unfold RTOL; lra|apply qabs_nonneg].
  Qed.

  (* two planes on the line span a vector parallel to the normal *)
  Lemma line_perp : forall p1 m1 p2 m2, OL p1 m1 -> OL p2 m2 -> m1 <> m2 ->
    qlt_bool ((1 - PERP_TOL) * (1 - PERP_TOL) * vdot (vsub p2 p1) (vsub p2 p1))
             (vdot n (vsub p2 p1) * vdot n (vsub p2 p1)) = true.
  Proof.
    intros p1 m1 p2 m2 (X1 & Y1 & Z1) (X2 & Y2 & Z2) Hne.
    set (k := (inject_Z m2 - inject_Z m1) * sp).
    assert (Hk : ~ k == 0).
    { subst k. intros E. apply Hne. apply inject_Z_injective. nra. }
    revert Hn X1 Y1 Z1 X2 Y2 Z2. generalize n. intros [nx ny nz] Hn' X1 Y1 Z1 X2 Y2 Z2.
    destruct p0 as [px py pz], p1 as [x1 y1 z1], p2 as [x2 y2 z2].
    unfold vdot, vsub, vadd, vscale in *; cbn [vx vy vz] in *.
    assert (D : nx * (x2 - x1) + ny * (y2 - y1) + nz * (z2 - z1) == k).
    { rewrite X1, Y1, Z1, X2, Y2, Z2. subst k.
      setoid_replace (nx * (px + inject_Z m2 * sp * nx - (px + inject_Z m1 * sp * nx)) +
                      ny * (py + inject_Z m2 * sp * ny - (py + inject_Z m1 * sp * ny)) +
                      nz * (pz + inject_Z m2 * sp * nz - (pz + inject_Z m1 * sp * nz)))
        with ((inject_Z m2 - inject_Z m1) * sp * (nx * nx + ny * ny + nz * nz)) by ring.
      rewrite Hn'. ring. }
    assert (S : (x2 - x1) * (x2 - x1) + (y2 - y1) * (y2 - y1) + (z2 - z1) * (z2 - z1) == k * k).
    { rewrite X1, Y1, Z1, X2, Y2, Z2. subst k.
      setoid_replace ((px + inject_Z m2 * sp * nx - (px + inject_Z m1 * sp * nx)) *
                      (px + inject_Z m2 * sp * nx - (px + inject_Z m1 * sp * nx)) +
                      (py + inject_Z m2 * sp * ny - (py + inject_Z m1 * sp * ny)) *
                      (py + inject_Z m2 * sp * ny - (py + inject_Z m1 * sp * ny)) +
                      (pz + inject_Z m2 * sp * nz - (pz + inject_Z m1 * sp * nz)) *
                      (pz + inject_Z m2 * sp * nz - (pz + inject_Z m1 * sp * nz)))
        with ((inject_Z m2 - inject_Z m1) * sp * ((inject_Z m2 - inject_Z m1) * sp) *
              (nx * nx + ny * ny + nz * nz)) by ring.
      rewrite Hn'. ring. }
    unfold qlt_bool. apply negb_true_iff.
    destruct (Qle_bool _ _) eqn:E; [|reflexivity]. exfalso.
    apply Qle_bool_iff in E. rewrite D, S in E. unfold PERP_TOL in E.
    assert (0 < k * k) by nra. lra.
  Qed.
End Line.

(* ---------------------------------------------------------------------- *)
(* get_volume_positions / stacked_full on planes on a line                 *)
(* ---------------------------------------------------------------------- *)
Lemma find_pos_map : forall {A} (f : A -> Q) (p : Q -> bool) (ps : list A),
  (exists x, In x ps /\ p (f x) = true) ->
  exists x, find_pos p (map f ps) ps = Some x /\ In x ps /\ p (f x) = true.
Proof.
  intros A f p ps. induction ps as [|a ps IH]; intros (x & Hin & Hp); [destruct Hin|].
  cbn [map find_pos]. destruct (p (f a)) eqn:E.
  - exists a. split; [reflexivity|]. split; [left; reflexivity|exact E].
  - destruct Hin as [<- | Hin]; [congruence|].
    destruct (IH (ex_intro _ x (conj Hin Hp))) as (y & Hy & Hiny & Hpy).
    exists y. split; [exact Hy|]. split; [right; exact Hiny|exact Hpy].
Qed.

Lemma find_idx0_line : forall {A} (R : A -> Z -> Prop) (ps : list A) (ms : list Z) mmin,
  Forall2 R ps ms -> In mmin ms ->
  exists p, find_idx0 (map (fun m => (m - mmin)%Z) ms) ps = Some p /\ In p ps /\ R p mmin.
Proof.
  intros A R ps ms mmin H. induction H as [|p m ps ms Hpm H IH]; intros Hin; [destruct Hin|].
  cbn [map find_idx0]. destruct (m - mmin =? 0)%Z eqn:E.
  - exists p. split; [reflexivity|]. split; [left; reflexivity|].
    assert (m = mmin) by lia. subst m. exact Hpm.
  - destruct Hin as [-> | Hin]; [lia|].
    destruct (IH Hin) as (q & Hq & Hinq & Rq). exists q. split; [exact Hq|]. split; [right; exact Hinq|exact Rq].
Qed.

Lemma NoDup_two_distinct : forall (a b : Z) l, NoDup (a :: b :: l) -> a <> b.
Proof. intros a b l H E. inversion H as [|x l' Hnin _]; subst. apply Hnin. left. reflexivity. Qed.

Section LineStack.
  Variables (rowcos colcos p0 : v3) (sp : Q).
  Notation n := (normal rowcos colcos).
  Hypothesis Hn : vdot n n == 1.
  Hypothesis Hsp : 0 < sp.
  Notation OL := (on_line n p0 sp).

  (* >= 2 planes: the regular-with-gaps branch of get_volume_positions accepts
     and gives plane m the index m - min *)
  Lemma core_line : forall ps ms, Forall2 OL ps ms -> NoDup ms -> (2 <= length ms)%nat ->
    exists mmin, In mmin ms /\ (forall m, In m ms -> (mmin <= m)%Z) /\
      vol_positions_core true (Some sp) rowcos colcos ps =
      Ok (Some (sp, map (fun m => (m - mmin)%Z) ms)).
  Proof.
    intros ps ms H Hnd Hlen.
    pose proof (line_distances rowcos colcos p0 sp Hn ps ms H) as HD.
    assert (Hne : map (vdot n) ps <> []).
    { intros E. rewrite E in HD. inversion HD; subst. cbn in Hlen. lia. }
    destruct (line_min rowcos colcos p0 sp Hsp _ _ HD Hne) as (mmin & Hmin_in & Hmin_d & Hmin_all).
    destruct (line_max rowcos colcos p0 sp Hsp _ _ HD Hne) as (mmax & Hmax_in & Hmax_d & Hmax_all).
    exists mmin. split; [exact Hmin_in|]. split; [exact Hmin_all|].
    assert (Hlt : mmin <> mmax).
    { destruct ms as [|a [|b ms']]; cbn in Hlen; try lia.
      pose proof (NoDup_two_distinct _ _ _ Hnd) as Hab.
      pose proof (Hmin_all a (or_introl eq_refl)). pose proof (Hmin_all b (or_intror (or_introl eq_refl))).
      pose proof (Hmax_all a (or_introl eq_refl)). pose proof (Hmax_all b (or_intror (or_introl eq_refl))). lia. }
    unfold vol_positions_core. cbv zeta.
    set (ds := map (vdot n) ps) in *.
    set (dmin := qmin_list (hd 0 ds) ds) in *. set (dmax := qmax_list (hd 0 ds) ds) in *.
    (* the two extreme positions *)
    destruct (Forall2_in_r _ _ _ _ H Hmin_in) as (q1 & Hq1 & Rq1).
    destruct (Forall2_in_r _ _ _ _ H Hmax_in) as (q2 & Hq2 & Rq2).
    destruct (find_pos_map (vdot n) (fun d => Qeq_bool d dmin) ps) as (p1 & E1 & Hp1 & Hd1).
    { exists q1. split; [exact Hq1|]. apply Qeq_bool_iff.
      rewrite (line_distance rowcos colcos p0 sp Hn _ _ Rq1). symmetry. exact Hmin_d. }
    destruct (find_pos_map (vdot n) (fun d => Qeq_bool d dmax) ps) as (p2 & E2 & Hp2 & Hd2).
    { exists q2. split; [exact Hq2|]. apply Qeq_bool_iff.
      rewrite (line_distance rowcos colcos p0 sp Hn _ _ Rq2). symmetry. exact Hmax_d. }
    fold ds in E1, E2. rewrite E1, E2.
    destruct (Forall2_in_l _ _ _ _ H Hp1) as (m1 & Hm1 & R1).
    destruct (Forall2_in_l _ _ _ _ H Hp2) as (m2 & Hm2 & R2).
    apply Qeq_bool_iff in Hd1, Hd2.
    assert (m1 = mmin).
    { apply (DR_eq rowcos colcos p0 sp Hsp (vdot n p1) m1 dmin mmin);
        [apply (line_distance rowcos colcos p0 sp Hn); exact R1|exact Hmin_d|exact Hd1]. }
    assert (m2 = mmax).
    { apply (DR_eq rowcos colcos p0 sp Hsp (vdot n p2) m2 dmax mmax);
        [apply (line_distance rowcos colcos p0 sp Hn); exact R2|exact Hmax_d|exact Hd2]. }
    subst m1 m2.
    rewrite (line_perp rowcos colcos p0 sp Hn Hsp p1 mmin p2 mmax R1 R2 Hlt).
    (* indices and regularity *)
    assert (Eidx : map rne (map (fun d => (d - dmin) / sp) ds) = map (fun m => (m - mmin)%Z) ms).
    { rewrite map_map. apply (Forall2_map_eq _ _ _ _ _ HD). intros d m Hdm.
      apply (line_index rowcos colcos p0 sp Hsp _ _ _ _ Hdm Hmin_d). }
    assert (Ereg : forallb (fun m => Qle_bool (qabs (m - inject_Z (rne m))) (RTOL * qabs (inject_Z (rne m))))
                           (map (fun d => (d - dmin) / sp) ds) = true).
    { apply forallb_forall. intros x Hx. apply in_map_iff in Hx as (d & <- & Hd).
      destruct (Forall2_in_l _ _ _ _ HD Hd) as (m & _ & Hdm).
      apply (line_regular rowcos colcos p0 sp Hsp _ _ _ _ Hdm Hmin_d). }
    rewrite Ereg, Eidx. cbn [andb]. rewrite (qabs_pos _ Hsp). reflexivity.
  Qed.

  Lemma positions_line : forall ps ms, Forall2 OL ps ms -> NoDup ms -> ms <> [] ->
    exists mmin, In mmin ms /\ (forall m, In m ms -> (mmin <= m)%Z) /\
      get_volume_positions true (Some sp) rowcos colcos ps =
      Ok (Some (sp, map (fun m => (m - mmin)%Z) ms)).
  Proof.
    intros ps ms H Hnd Hne. unfold get_volume_positions. rewrite (qabs_pos _ Hsp).
    assert (E0 : Qeq_bool sp 0 = false).
    { destruct (Qeq_bool sp 0) eqn:E; [|reflexivity]. apply Qeq_bool_iff in E. lra. }
    rewrite E0.
    destruct H as [|p m ps ms Hpm H]; [congruence|].
    destruct H as [|p' m' ps ms Hpm' H].
    - exists m. split; [left; reflexivity|]. split; [intros ? [<- | []]; lia|].
      cbn [map]. rewrite Z.sub_diag. reflexivity.
    - apply (core_line (p :: p' :: ps) (m :: m' :: ms)); [constructor; [exact Hpm|constructor; [exact Hpm'|exact H]]|exact Hnd|cbn; lia].
  Qed.

  (* stacked_full: origin = the plane of minimal m, plane m at index m - min,
     number of slices = max - min + 1 *)
  Lemma stacked_line : forall st ms,
    st_rowcos st = rowcos -> st_colcos st = colcos -> st_sbs st = Some sp ->
    Forall2 OL (map fst (st_planes st)) ms -> NoDup ms -> ms <> [] ->
    exists origin mmin n0,
      In mmin ms /\ (forall m, In m ms -> (0 <= m - mmin < n0)%Z) /\ In (mmin + n0 - 1)%Z ms /\
      In origin (map fst (st_planes st)) /\ OL origin mmin /\
      stacked_full true st =
      Ok (attr_aff origin rowcos colcos (st_spr st) (st_spc st) sp, n0, map (fun m => (m - mmin)%Z) ms).
  Proof.
    intros st ms Hrc Hcc Hsbs H Hnd Hne.
    destruct (positions_line _ _ H Hnd Hne) as (mmin & Hmin_in & Hmin_all & E).
    destruct (find_idx0_line OL _ _ mmin H Hmin_in) as (origin & Eo & Hino & Ro).
    set (idx := map (fun m => (m - mmin)%Z) ms) in *.
    exists origin, mmin, (zmax_list 0 idx + 1)%Z.
    destruct (zmax_list_spec idx 0) as (Hzin & Hz0 & Hzall).
    split; [exact Hmin_in|]. split; [|split; [|split; [exact Hino|split; [exact Ro|]]]].
    - intros m Hm. split; [specialize (Hmin_all m Hm); lia|].
      assert (In (m - mmin)%Z idx) by (apply in_map_iff; exists m; split; [reflexivity|exact Hm]).
      specialize (Hzall _ H0). lia.
    - destruct Hzin as [Ez | Hzin].
      + rewrite Ez. replace (mmin + (0 + 1) - 1)%Z with mmin by lia. exact Hmin_in.
      + apply in_map_iff in Hzin as (m & Em & Hm). replace (mmin + (zmax_list 0 idx + 1) - 1)%Z with m by lia. exact Hm.
    - unfold stacked_full, bind. rewrite Hrc, Hcc, Hsbs, E. fold idx. rewrite Eo. reflexivity.
  Qed.

  (* every voxel of the rebuilt geometry lies on the input's grid *)
  Lemma line_voxel : forall origin mmin spr spc (m r c : Z), OL origin mmin ->
    physZ (attr_aff origin rowcos colcos spr spc sp) (m - mmin) r c =v=
    vadd (vadd (vadd p0 (vscale (inject_Z m * sp) n)) (vscale (inject_Z r * spr) colcos))
         (vscale (inject_Z c * spc) rowcos).
  Proof.
    clear Hn Hsp. intros origin mmin spr spc m r c (X & Y & Z).
    unfold physZ. unfold Zminus. rewrite inject_Z_plus, inject_Z_opp.
    set (qn := inject_Z mmin) in *. clearbody qn.
    generalize (inject_Z m) (inject_Z r) (inject_Z c). intros qm qr qc.
    destruct origin as [ox oy oz], p0 as [px py pz], rowcos as [x1 y1 z1], colcos as [x2 y2 z2].
    unfold attr_aff, normal, phys, vadd, vscale, veq, vcross in *; cbn [vx vy vz a0 a1 a2 atr] in *.
    rewrite X, Y, Z. repeat split; ring.
  Qed.
End LineStack.

(* ---------------------------------------------------------------------- *)
(* which planes of a volume are stored                                     *)
(* ---------------------------------------------------------------------- *)
Open Scope Z_scope.
Definition indexed (arr : list plane) : list (Z * plane) := combine (zrange_from 0 (length arr)) arr.
(* (input slice number, pixels) of the stored planes, in storage order *)
Definition kept (omit : bool) (arr : list plane) : list (Z * plane) :=
  if omit then match filter (fun ip => plane_nonempty (snd ip)) (indexed arr) with
               | [] => indexed arr
               | ne => ne
               end
  else indexed arr.

Lemma filter_map_swap : forall {A B} (f : B -> bool) (g : A -> B) l,
  filter f (map g l) = map g (filter (fun x => f (g x)) l).
Proof.
  intros A B f g l. induction l as [|a l IH]; [reflexivity|].
  cbn [map filter]. destruct (f (g a)); cbn [map]; rewrite IH; reflexivity.
Qed.

Lemma seg_volume_planes : forall pos d0 d1 d2 s0 s1 s2 rows cols arr omit,
  st_planes (seg_from_volume pos d0 d1 d2 s0 s1 s2 rows cols arr omit) =
  map (fun ip => (physZ (vol_aff pos d0 d1 d2 s0 s1 s2) (fst ip) 0 0, snd ip)) (kept omit arr).
Proof.
  intros. unfold seg_from_volume, omit_planes, kept, indexed. cbn [st_planes].
  destruct omit; [|reflexivity].
  rewrite filter_map_swap. cbn [snd].
  destruct (filter (fun x : Z * plane => plane_nonempty (snd x)) (combine (zrange_from 0 (length arr)) arr));
    reflexivity.
Qed.

Lemma zrange_from_length : forall n k, length (zrange_from k n) = n.
Proof. induction n as [|n IH]; intros k; cbn [zrange_from length]; [reflexivity|rewrite IH; reflexivity]. Qed.
Lemma zrange_from_in : forall n k x, In x (zrange_from k n) <-> k <= x < k + Z.of_nat n.
Proof.
  induction n as [|n IH]; intros k x; cbn [zrange_from In].
  - split; [intros []|lia].
  - rewrite IH. lia.
Qed.
Lemma zrange_from_nodup : forall n k, NoDup (zrange_from k n).
Proof.
  induction n as [|n IH]; intros k; cbn [zrange_from]; constructor; [|apply IH].
  rewrite zrange_from_in. lia.
Qed.
Lemma map_fst_combine : forall {A B} (a : list A) (b : list B), length a = length b -> map fst (combine a b) = a.
Proof.
  intros A B a. induction a as [|x a IH]; intros [|y b] H; cbn in *; try reflexivity; try discriminate.
  rewrite IH by lia. reflexivity.
Qed.
Lemma map_snd_combine : forall {A B} (a : list A) (b : list B), length a = length b -> map snd (combine a b) = b.
Proof.
  intros A B a. induction a as [|x a IH]; intros [|y b] H; cbn in *; try reflexivity; try discriminate.
  rewrite IH by lia. reflexivity.
Qed.
Lemma NoDup_map_filter : forall {A B} (f : A -> B) (g : A -> bool) l, NoDup (map f l) -> NoDup (map f (filter g l)).
Proof.
  intros A B f g l. induction l as [|a l IH]; intros H; [constructor|].
  cbn [map filter] in *. inversion H as [|x l' Hnin Hnd]; subst.
  destruct (g a); [|apply IH; exact Hnd]. cbn [map]. constructor; [|apply IH; exact Hnd].
  intros Hin. apply Hnin. apply in_map_iff in Hin as (y & Ey & Hy). apply in_map_iff. exists y.
  split; [exact Ey|]. apply filter_In in Hy. apply Hy.
Qed.

Lemma indexed_fst : forall arr, map fst (indexed arr) = zrange_from 0 (length arr).
Proof. intros arr. unfold indexed. apply map_fst_combine. apply zrange_from_length. Qed.
Lemma indexed_snd : forall arr, map snd (indexed arr) = arr.
Proof. intros arr. unfold indexed. apply map_snd_combine. apply zrange_from_length. Qed.

Lemma kept_incl : forall omit arr ip, In ip (kept omit arr) -> In ip (indexed arr).
Proof.
  intros omit arr ip. unfold kept. destruct omit; [|auto].
  destruct (filter _ (indexed arr)) as [|a l] eqn:E; [auto|].
  intros H. rewrite <- E in H. apply filter_In in H. apply H.
Qed.
Lemma kept_nodup : forall omit arr, NoDup (map fst (kept omit arr)).
Proof.
  intros omit arr. assert (H : NoDup (map fst (indexed arr))) by (rewrite indexed_fst; apply zrange_from_nodup).
  unfold kept. destruct omit; [|exact H].
  destruct (filter _ (indexed arr)) as [|a l] eqn:E; [exact H|]. rewrite <- E. apply NoDup_map_filter. exact H.
Qed.
Lemma kept_nonempty : forall omit arr, arr <> [] -> kept omit arr <> [].
Proof.
  intros omit arr H. assert (Hi : indexed arr <> []).
  { destruct arr as [|p arr]; [congruence|]. unfold indexed. cbn. discriminate. }
  unfold kept. destruct omit; [|exact Hi].
  destruct (filter _ (indexed arr)) as [|a l]; [exact Hi|discriminate].
Qed.
(* a plane that is not stored is empty *)
Lemma kept_complete : forall omit arr ip, In ip (indexed arr) -> ~ In ip (kept omit arr) -> plane_nonempty (snd ip) = false.
Proof.
  intros omit arr ip Hin Hnot. unfold kept in Hnot. destruct omit; [|contradiction].
  destruct (filter (fun ip => plane_nonempty (snd ip)) (indexed arr)) as [|a l] eqn:E; [contradiction|].
  rewrite <- E in Hnot. destruct (plane_nonempty (snd ip)) eqn:P; [|reflexivity].
  exfalso. apply Hnot. apply filter_In. split; assumption.
Qed.
Lemma kept_index_range : forall omit arr i, In i (map fst (kept omit arr)) -> 0 <= i < Z.of_nat (length arr).
Proof.
  intros omit arr i H. apply in_map_iff in H as (ip & <- & Hip). apply kept_incl in Hip.
  assert (In (fst ip) (map fst (indexed arr))) by (apply in_map; exact Hip).
  rewrite indexed_fst in H. apply zrange_from_in in H. lia.
Qed.

(* ---------------------------------------------------------------------- *)
(* END TO END: a volume written as a segmentation and read back             *)
(* ---------------------------------------------------------------------- *)
Open Scope Q_scope.
Lemma normal_unit' : forall d1 d2, vdot d1 d1 == 1 -> vdot d2 d2 == 1 -> vdot d1 d2 == 0 ->
  vdot (normal d2 d1) (normal d2 d1) == 1.
Proof.
  intros d1 d2 H11 H22 H12. unfold normal.
  assert (L : vdot (vcross d1 d2) (vcross d1 d2) == vdot d1 d1 * vdot d2 d2 - vdot d1 d2 * vdot d1 d2).
  { destruct d1 as [a b c], d2 as [d e f]. unfold vdot, vcross; cbn [vx vy vz]. ring. }
  rewrite L, H11, H22, H12. ring.
Qed.

Section VolumeRoundTrip.
  Variables (pos d0 d1 d2 : v3) (s0 s1 s2 : Q) (sg : Z).
  Hypothesis Hsg : (sg = 1 \/ sg = -1)%Z.
  Hypothesis H11 : vdot d1 d1 == 1.
  Hypothesis H22 : vdot d2 d2 == 1.
  Hypothesis H12 : vdot d1 d2 == 0.
  Hypothesis H0 : d0 =v= vscale (inject_Z sg) (vcross d1 d2).
  Hypothesis Hs0 : 0 < s0.
  Notation A := (vol_aff pos d0 d1 d2 s0 s1 s2).
  Notation n := (normal d2 d1).

  Lemma volume_plane_on_line : forall i, on_line n pos s0 (physZ A i 0 0) (sg * i).
  Proof.
    intros i. destruct H0 as (X & Y & Z). unfold on_line, physZ. rewrite inject_Z_mult.
    change (inject_Z 0) with 0.
    generalize (inject_Z i) (inject_Z sg) X Y Z. intros qi g X' Y' Z'.
    unfold vol_aff, normal, phys, vadd, vscale, veq in *; cbn [vx vy vz a0 a1 a2 atr] in *.
    rewrite X', Y', Z'.
    destruct d1 as [x1 y1 z1], d2 as [x2 y2 z2], pos as [px py pz]; cbn [vx vy vz vcross] in *.
    repeat split; ring.
  Qed.

  Lemma sg_mul_inj : forall a b, (sg * a = sg * b)%Z -> a = b.
  Proof. intros a b H. destruct Hsg as [-> | ->]; lia. Qed.

  Theorem volume_stacked : forall rows cols arr omit, arr <> [] ->
    let st := seg_from_volume pos d0 d1 d2 s0 s1 s2 rows cols arr omit in
    exists j n0,
      In j (map fst (kept omit arr)) /\
      (forall i, In i (map fst (kept omit arr)) -> (0 <= sg * (i - j) < n0)%Z) /\
      (exists i, In i (map fst (kept omit arr)) /\ (sg * (i - j) = n0 - 1)%Z) /\
      stacked_full true st =
      Ok (attr_aff (physZ A j 0 0) d2 d1 s1 s2 s0, n0, map (fun ip => (sg * (fst ip - j))%Z) (kept omit arr)) /\
      (forall i r c : Z,
         physZ (attr_aff (physZ A j 0 0) d2 d1 s1 s2 s0) (sg * (i - j)) r c =v= physZ A i r c).
  Proof.
    intros rows cols arr omit Hne st.
    pose proof (normal_unit' d1 d2 H11 H22 H12) as Hn.
    set (L := kept omit arr) in *.
    set (ms := map (fun ip => (sg * fst ip)%Z) L).
    assert (HP : st_planes st = map (fun ip => (physZ A (fst ip) 0 0, snd ip)) L) by apply seg_volume_planes.
    assert (HF : Forall2 (on_line n pos s0) (map fst (st_planes st)) ms).
    { rewrite HP. subst ms. rewrite map_map. cbn [fst].
      clear HP. induction L as [|ip L IH]; cbn [map]; constructor; [apply volume_plane_on_line|exact IH]. }
    assert (Hnd : NoDup ms).
    { subst ms. rewrite <- (map_map fst (fun x => (sg * x)%Z)).
      apply Injective_map_NoDup; [intros a b; apply sg_mul_inj|apply kept_nodup]. }
    assert (Hms : ms <> []).
    { subst ms. pose proof (kept_nonempty omit arr Hne) as K. fold L in K. destruct L; [congruence|discriminate]. }
    destruct (stacked_line d2 d1 pos s0 Hn Hs0 st ms eq_refl eq_refl eq_refl HF Hnd Hms)
      as (origin & mmin & n0 & Hmin_in & Hrange & Hlast & Hino & Ro & E).
    (* the origin is the position of a stored plane j with sg * j = mmin *)
    rewrite HP, map_map in Hino. cbn [fst] in Hino. apply in_map_iff in Hino as (ipj & Eo & Hipj).
    set (j := fst ipj) in *.
    assert (Ej : mmin = (sg * j)%Z).
    { apply (DR_eq d2 d1 pos s0 Hs0 (vdot n origin) mmin (vdot n origin) (sg * j)%Z);
        [apply (line_distance d2 d1 pos s0 Hn); exact Ro
        |apply (line_distance d2 d1 pos s0 Hn); rewrite <- Eo; apply volume_plane_on_line|reflexivity]. }
    subst mmin. exists j, n0.
    split; [apply in_map; exact Hipj|]. split; [|split; [|split]].
    - intros i Hi. replace (sg * (i - j))%Z with (sg * i - sg * j)%Z by lia. apply Hrange.
      subst ms. apply in_map_iff in Hi as (ip & <- & Hip). apply in_map_iff. exists ip. split; [reflexivity|exact Hip].
    - subst ms. apply in_map_iff in Hlast as (ip & Eip & Hip). exists (fst ip).
      split; [apply in_map; exact Hip|lia].
    - rewrite E. rewrite <- Eo. cbn [st_spr st_spc st seg_from_volume]. f_equal. f_equal.
      subst ms. rewrite map_map. apply map_ext. intros ip. lia.
    - intros i r c. rewrite <- Eo in Ro.
      replace (sg * (i - j))%Z with (sg * i - sg * j)%Z by lia.
      eapply veq_trans; [apply (line_voxel d2 d1 pos s0) with (1 := Ro)|].
      destruct H0 as (X & Y & Z). unfold physZ. rewrite inject_Z_mult.
      generalize (inject_Z i) (inject_Z sg) (inject_Z r) (inject_Z c) X Y Z. intros qi g qr qc X' Y' Z'.
      unfold vol_aff, normal, phys, vadd, vscale, veq in *; cbn [vx vy vz a0 a1 a2 atr] in *.
      rewrite X', Y', Z'.
      destruct d1 as [x1 y1 z1], d2 as [x2 y2 z2], pos as [px py pz]; cbn [vx vy vz vcross] in *.
      repeat split; ring.
  Qed.
End VolumeRoundTrip.

(* ---------------------------------------------------------------------- *)
(* the pixel array that get_volume() returns (no sub-volume arguments)      *)
(* ---------------------------------------------------------------------- *)
Open Scope Z_scope.
Lemma slice_first_size_some : forall a b n, 0 <= a -> a < b <= n ->
  slice_first_size (Some a) (Some b) n = Some (a, b - a).
Proof.
  intros a b n Ha Hb. unfold slice_first_size, slice_indices, clamp_idx, hd_size.
  replace (1 <? 0) with false by reflexivity.
  replace (a <? 0) with false by lia. replace (b <? 0) with false by lia.
  replace (n <? a) with false by lia. replace (n <? b) with false by lia.
  replace (b - a =? 0) with false by lia. replace (b - a <? 0) with false by lia.
  cbn [orb negb Bool.eqb]. f_equal. f_equal.
  rewrite Z.abs_eq by lia. change (Z.abs 1) with 1. rewrite Z.div_1_r. lia.
Qed.
Lemma slice_first_size_none : forall n, 1 <= n -> slice_first_size None None n = Some (0, n).
Proof.
  intros n Hn. unfold slice_first_size, slice_indices, hd_size.
  replace (1 <? 0) with false by reflexivity.
  replace (n - 0 =? 0) with false by lia. replace (n - 0 <? 0) with false by lia.
  cbn [orb negb Bool.eqb]. f_equal. f_equal.
  rewrite Z.abs_eq by lia. change (Z.abs 1) with 1. rewrite Z.div_1_r. lia.
Qed.
Lemma slice_first_size_from : forall a n, 0 <= a < n -> slice_first_size (Some a) None n = Some (a, n - a).
Proof.
  intros a n Ha. unfold slice_first_size, slice_indices, clamp_idx, hd_size.
  replace (1 <? 0) with false by reflexivity.
  replace (a <? 0) with false by lia. replace (n <? a) with false by lia.
  replace (n - a =? 0) with false by lia. replace (n - a <? 0) with false by lia.
  cbn [orb negb Bool.eqb]. f_equal. f_equal.
  rewrite Z.abs_eq by lia. change (Z.abs 1) with 1. rewrite Z.div_1_r. lia.
Qed.

Lemma std_rc_all : forall rows cols ai, 1 <= rows -> 1 <= cols ->
  std_rc None None None None rows cols ai true = Ok (0, rows, 0, cols).
Proof.
  intros rows cols ai Hr Hc. unfold std_rc, to_one_based.
  replace (1 =? 0) with false by reflexivity.
  replace (rows + 1 =? 0) with false by lia. replace (cols + 1 =? 0) with false by lia. cbn [orb].
  replace (rows <? 1) with false by lia. replace (1 <? 0) with false by reflexivity.
  replace (1 <? 1) with false by reflexivity.
  replace (rows + 1 <? rows + 1) with false by lia. replace (rows + 1 <? 0) with false by lia.
  replace (cols <? 1) with false by lia.
  replace (cols + 1 <? cols + 1) with false by lia. replace (cols + 1 <? 0) with false by lia.
  cbn [andb]. repeat f_equal; lia.
Qed.
Lemma std_slice_all : forall n ai, 1 <= n -> std_slice None None n ai = Ok (0, n).
Proof.
  intros n ai Hn. unfold std_slice, conv1, bind. destruct ai; cbn;
    replace (n - 0 <? 1) with false by lia; reflexivity.
Qed.

Lemma existsb_false : forall {A} (f : A -> bool) l, (forall x, In x l -> f x = false) -> existsb f l = false.
Proof.
  intros A f l H. destruct (existsb f l) eqn:E; [|reflexivity].
  apply existsb_exists in E as (x & Hx & Fx). rewrite (H x Hx) in Fx. discriminate.
Qed.

Definition trim (rows cols : Z) (p : plane) : plane := map (cut 0 cols) (cut 0 rows p).

(* symbolic evaluation of get_volume() on a stack that stacked_full accepts *)
Lemma get_volume_all : forall am st G n0 idx ai,
  stacked_full am st = Ok (G, n0, idx) -> 1 <= st_rows st -> 1 <= st_cols st -> 1 <= n0 ->
  (forall i, In i idx -> 0 <= i < n0) ->
  get_volume am st None None None None None None ai =
  Ok ((n0, st_rows st, st_cols st), sub_aff (sub_aff G 0 0 0) 0 0 0,
      map (fun k => trim (st_rows st) (st_cols st)
                         (plane_at (0 + k) idx (map snd (st_planes st)) (zeros_plane (st_rows st) (st_cols st))))
          (zrange_from 0 (Z.to_nat n0))).
Proof.
  intros am st G n0 idx ai E Hr Hc Hn Hidx. unfold get_volume, bind.
  rewrite (std_rc_all _ _ ai Hr Hc), E, (std_slice_all _ ai Hn).
  unfold geom_getitem, check_slice. cbn [fst snd].
  replace (0 <? - n0) with false by lia. replace (n0 <=? 0) with false by lia.
  replace (n0 <? - n0 - 1) with false by lia. replace (n0 <? n0) with false by lia.
  cbn [orb negb andb].
  rewrite (slice_first_size_some 0 n0 n0) by lia.
  rewrite (slice_first_size_none _ Hr), (slice_first_size_none _ Hc).
  rewrite existsb_false by (intros i Hi; specialize (Hidx i Hi); lia).
  replace (n0 - 0) with n0 by lia.
  replace (0 <? - st_rows st) with false by lia. replace (st_rows st <=? 0) with false by lia.
  replace (st_rows st <? - st_rows st - 1) with false by lia. replace (st_rows st <? st_rows st) with false by lia.
  replace (0 <? - st_cols st) with false by lia. replace (st_cols st <=? 0) with false by lia.
  replace (st_cols st <? - st_cols st - 1) with false by lia. replace (st_cols st <? st_cols st) with false by lia.
  cbn [orb negb andb].
  rewrite (slice_first_size_none _ Hn).
  rewrite (slice_first_size_some 0 (st_rows st) (st_rows st)) by lia.
  rewrite (slice_first_size_some 0 (st_cols st) (st_cols st)) by lia.
  replace (st_rows st - 0) with (st_rows st) by lia. replace (st_cols st - 0) with (st_cols st) by lia.
  reflexivity.
Qed.

(* plane_at: the stored plane with that index, zeros where there is none *)
Lemma plane_at_notin : forall k idx pls d, ~ In k idx -> plane_at k idx pls d = d.
Proof.
  intros k idx. induction idx as [|i idx IH]; intros pls d H; [reflexivity|].
  destruct pls as [|p pls]; [reflexivity|]. cbn [plane_at].
  replace (i =? k) with false by (assert (i <> k) by (intros ->; apply H; left; reflexivity); lia).
  apply IH. intros Hin. apply H. right. exact Hin.
Qed.
Lemma plane_at_in : forall k p idx pls d, NoDup idx -> In (k, p) (combine idx pls) -> plane_at k idx pls d = p.
Proof.
  intros k p idx. induction idx as [|i idx IH]; intros pls d Hnd Hin; [destruct Hin|].
  destruct pls as [|q pls]; [destruct Hin|]. cbn [plane_at combine] in *.
  inversion Hnd as [|x l Hnin Hnd']; subst.
  destruct Hin as [E | Hin].
  - injection E as -> ->. rewrite Z.eqb_refl. apply plane_at_notin. exact Hnin.
  - apply IH; assumption.
Qed.

(* well-formed pixel arrays *)
Definition plane_shape (rows cols : Z) (p : plane) : Prop :=
  length p = Z.to_nat rows /\ Forall (fun row => length row = Z.to_nat cols) p.

Lemma cut_all : forall {A} (l : list A) n, length l = Z.to_nat n -> cut 0 n l = l.
Proof. intros A l n H. unfold cut. cbn [Z.to_nat skipn]. rewrite <- H. apply firstn_all. Qed.
Lemma trim_shape : forall rows cols p, plane_shape rows cols p -> trim rows cols p = p.
Proof.
  intros rows cols p (Hl & Hr). unfold trim. rewrite (cut_all _ _ Hl).
  clear Hl. induction Hr as [|row p Hrow Hr IH]; [reflexivity|].
  cbn [map]. rewrite (cut_all _ _ Hrow), IH. reflexivity.
Qed.
Lemma zeros_shape : forall rows cols, plane_shape rows cols (zeros_plane rows cols).
Proof.
  intros rows cols. unfold plane_shape, zeros_plane. split; [apply repeat_length|].
  apply Forall_forall. intros row H. apply repeat_spec in H. subst row. apply repeat_length.
Qed.
Lemma row_zero : forall row, existsb (fun v => negb (v =? 0)) row = false -> row = repeat 0 (length row).
Proof.
  induction row as [|v row IH]; intros H; [reflexivity|].
  cbn [existsb] in H. apply orb_false_iff in H as (Hv & H).
  cbn [length repeat]. rewrite <- (IH H). f_equal. lia.
Qed.
Lemma empty_plane_zeros : forall rows cols p, plane_shape rows cols p -> plane_nonempty p = false ->
  p = zeros_plane rows cols.
Proof.
  intros rows cols p (Hl & Hr) He. unfold zeros_plane. rewrite <- Hl. unfold plane_nonempty in He.
  clear Hl. induction Hr as [|row p Hrow Hr IH]; [reflexivity|].
  cbn [existsb] in He. apply orb_false_iff in He as (H1 & H2).
  cbn [length repeat]. rewrite <- (IH H2). f_equal. rewrite (row_zero _ H1), Hrow. reflexivity.
Qed.

Lemma indexed_in_gen : forall (arr : list plane) k i p,
  In (i, p) (combine (zrange_from k (length arr)) arr) <->
  (k <= i < k + Z.of_nat (length arr) /\ nth (Z.to_nat (i - k)) arr [] = p).
Proof.
  induction arr as [|q arr IH]; intros k i p.
  - cbn. split; [intros []|lia].
  - cbn [length zrange_from combine In]. rewrite IH. split.
    + intros [E | (Hr & Hn)].
      * injection E as <- <-. split; [lia|]. rewrite Z.sub_diag. reflexivity.
      * split; [lia|]. replace (Z.to_nat (i - k)) with (S (Z.to_nat (i - (k + 1)))) by lia. exact Hn.
    + intros (Hr & Hn). destruct (Z.eq_dec i k) as [-> | Hik].
      * left. rewrite Z.sub_diag in Hn. cbn in Hn. rewrite Hn. reflexivity.
      * right. split; [lia|]. replace (Z.to_nat (i - k)) with (S (Z.to_nat (i - (k + 1)))) in Hn by lia. exact Hn.
Qed.
Lemma indexed_in : forall arr i p,
  In (i, p) (indexed arr) <-> (0 <= i < Z.of_nat (length arr) /\ nth (Z.to_nat i) arr [] = p).
Proof. intros. unfold indexed. rewrite indexed_in_gen. rewrite Z.sub_0_r. reflexivity. Qed.

Lemma nth_zrange_map : forall {B} (f : Z -> B) n a k d, (k < n)%nat ->
  nth k (map f (zrange_from a n)) d = f (a + Z.of_nat k).
Proof.
  intros B f n. induction n as [|n IH]; intros a k d H; [lia|].
  cbn [zrange_from map]. destruct k as [|k]; cbn [nth].
  - f_equal. lia.
  - rewrite IH by lia. f_equal. lia.
Qed.

Lemma combine_map_map : forall {A B C} (f : A -> B) (g : A -> C) l,
  combine (map f l) (map g l) = map (fun x => (f x, g x)) l.
Proof. intros A B C f g l. induction l as [|a l IH]; [reflexivity|]. cbn [map combine]. rewrite IH. reflexivity. Qed.

Open Scope Q_scope.
Section VolumeArray.
  Variables (pos d0 d1 d2 : v3) (s0 s1 s2 : Q) (sg : Z).
  Hypothesis Hsg : (sg = 1 \/ sg = -1)%Z.
  Hypothesis H11 : vdot d1 d1 == 1.
  Hypothesis H22 : vdot d2 d2 == 1.
  Hypothesis H12 : vdot d1 d2 == 0.
  Hypothesis H0 : d0 =v= vscale (inject_Z sg) (vcross d1 d2).
  Hypothesis Hs0 : 0 < s0.
  Notation A := (vol_aff pos d0 d1 d2 s0 s1 s2).

  (* volume_roundtrip + omitted_slices, end to end over seg_from_volume and get_volume *)
  Theorem volume_roundtrip : forall rows cols arr omit,
    arr <> [] -> (1 <= rows)%Z -> (1 <= cols)%Z -> Forall (plane_shape rows cols) arr ->
    let st := seg_from_volume pos d0 d1 d2 s0 s1 s2 rows cols arr omit in
    let S := Z.of_nat (length arr) in
    exists j n0 G out,
      (0 <= j < S)%Z /\ (1 <= n0)%Z /\
      G = sub_aff (sub_aff (attr_aff (physZ A j 0 0) d2 d1 s1 s2 s0) 0 0 0) 0 0 0 /\
      (forall ip, In ip (kept omit arr) -> (0 <= sg * (fst ip - j) < n0)%Z) /\
      get_volume true st None None None None None None false = Ok ((n0, rows, cols), G, out) /\
      length out = Z.to_nat n0 /\
      (forall i r c : Z, physZ G (sg * (i - j)) r c =v= physZ A i r c) /\
      (forall i, (0 <= i < S)%Z -> (0 <= sg * (i - j) < n0)%Z ->
                 nth (Z.to_nat (sg * (i - j))) out [] = nth (Z.to_nat i) arr []) /\
      (forall i, (0 <= i < S)%Z -> ~ (0 <= sg * (i - j) < n0)%Z ->
                 nth (Z.to_nat i) arr [] = zeros_plane rows cols) /\
      (forall k, (0 <= k < n0)%Z -> exists i, (0 <= i < S)%Z /\ k = (sg * (i - j))%Z).
  Proof.
    intros rows cols arr omit Hne Hr Hc Hshape st S.
    destruct (volume_stacked pos d0 d1 d2 s0 s1 s2 sg Hsg H11 H22 H12 H0 Hs0 rows cols arr omit Hne)
      as (j & n0 & Hj & Hrange & (il & Hil & Elast) & E & Hvox).
    fold st in E. set (L := kept omit arr) in *.
    set (idx := map (fun ip : Z * plane => (sg * (fst ip - j))%Z) L) in *.
    pose proof (kept_index_range omit arr j Hj) as Hjr. pose proof (kept_index_range omit arr il Hil) as Hilr.
    fold S in Hjr, Hilr.
    assert (Hn0 : (1 <= n0)%Z) by (specialize (Hrange j Hj); lia).
    assert (Hidx : forall i, In i idx -> (0 <= i < n0)%Z).
    { intros i Hi. subst idx. apply in_map_iff in Hi as (ip & <- & Hip). apply Hrange. apply in_map. exact Hip. }
    pose proof (get_volume_all true st _ n0 idx false E Hr Hc Hn0 Hidx) as EV.
    cbn [st st_rows st_cols seg_from_volume] in EV. fold st in EV.
    assert (HP : map snd (st_planes st) = map snd L).
    { subst st. rewrite seg_volume_planes, map_map. reflexivity. }
    rewrite HP in EV.
    assert (Hnd : NoDup idx).
    { subst idx. rewrite <- (map_map fst (fun x => (sg * (x - j))%Z)).
      apply Injective_map_NoDup; [intros a b Hab; destruct Hsg as [-> | ->]; lia|apply kept_nodup]. }
    (* the pixels of input slice i, whether it was stored or not *)
    assert (Hnth_shape : forall i, (0 <= i < S)%Z -> plane_shape rows cols (nth (Z.to_nat i) arr [])).
    { intros i Hi. rewrite Forall_forall in Hshape. apply Hshape. apply nth_In. subst S. lia. }
    assert (Hkept_pix : forall ip, In ip L -> snd ip = nth (Z.to_nat (fst ip)) arr []).
    { intros [i p] Hip. apply kept_incl in Hip. apply indexed_in in Hip as (_ & <-). reflexivity. }
    assert (Hnot_kept : forall i, (0 <= i < S)%Z -> ~ In i (map fst L) -> nth (Z.to_nat i) arr [] = zeros_plane rows cols).
    { intros i Hi Hnk. apply empty_plane_zeros; [apply Hnth_shape; exact Hi|].
      apply (kept_complete omit arr (i, nth (Z.to_nat i) arr [])).
      - apply indexed_in. split; [exact Hi|reflexivity].
      - intros Hin. apply Hnk. apply (in_map fst) in Hin. exact Hin. }
    eexists j, n0, _, _. split; [exact Hjr|]. split; [exact Hn0|]. split; [reflexivity|].
    split; [intros ip Hip; apply Hrange; apply in_map; exact Hip|]. split; [exact EV|].
    split; [rewrite map_length, zrange_from_length; reflexivity|].
    split; [|split; [|split]].
    - intros i r c. eapply veq_trans; [apply sub_aff_compose|].
      rewrite !Z.add_0_l. apply Hvox.
    - intros i Hi Hk. set (k := (sg * (i - j))%Z) in *.
      rewrite nth_zrange_map by lia. rewrite !Z.add_0_l, Z2Nat.id by lia.
      destruct (in_dec Z.eq_dec i (map fst L)) as [Hin | Hnin].
      + apply in_map_iff in Hin as (ip & Eip & Hip).
        rewrite (plane_at_in k (snd ip)); [|exact Hnd|].
        * rewrite (Hkept_pix ip Hip), Eip. apply trim_shape. apply Hnth_shape. exact Hi.
        * subst idx. rewrite combine_map_map. apply in_map_iff. exists ip. split; [|exact Hip].
          subst k. rewrite Eip. reflexivity.
      + rewrite plane_at_notin.
        * rewrite (Hnot_kept i Hi Hnin). apply trim_shape. apply zeros_shape.
        * intros Hin. apply Hnin. subst idx. apply in_map_iff in Hin as (ip & Eip & Hip).
          apply in_map_iff. exists ip. split; [|exact Hip]. subst k. destruct Hsg as [-> | ->]; lia.
    - intros i Hi Hout. apply Hnot_kept; [exact Hi|]. intros Hin. apply Hout. apply Hrange. exact Hin.
    - intros k Hk. exists (j + sg * k)%Z. split; destruct Hsg as [-> | ->]; lia.
  Qed.
End VolumeArray.

(* ---------------------------------------------------------------------- *)
(* the two composite statements of the property sentence (nothing omitted) *)
(* ---------------------------------------------------------------------- *)
Lemma aeq_trans : forall X Y Z, aeq X Y -> aeq Y Z -> aeq X Z.
Proof.
  intros X Y Z (P0 & P1 & P2 & P3) (Q0 & Q1 & Q2 & Q3).
  repeat split; eapply veq_trans; eauto.
Qed.
Lemma physZ_origin : forall X, physZ X 0 0 0 =v= atr X.
Proof.
  intros [[x0 y0 z0] [x1 y1 z1] [x2 y2 z2] [tx ty tz]].
  unfold physZ, inject_Z, phys, vadd, vscale, veq; cbn [vx vy vz a0 a1 a2 atr]. repeat split; ring.
Qed.
Lemma sub_aff_zero2 : forall X, aeq (sub_aff (sub_aff X 0 0 0) 0 0 0) X.
Proof.
  intros X. unfold aeq. unfold sub_aff at 1 2 3 4. cbn [a0 a1 a2 atr].
  split; [apply veq_refl|]. split; [apply veq_refl|]. split; [apply veq_refl|].
  eapply veq_trans; [apply sub_aff_origin|]. apply physZ_origin.
Qed.

Lemma nth_indexed_kept : forall arr i, (0 <= i < Z.of_nat (length arr))%Z ->
  In (i, nth (Z.to_nat i) arr []) (kept false arr).
Proof. intros arr i Hi. unfold kept. apply indexed_in. split; [exact Hi|reflexivity]. Qed.

(* right-handed input, every slice stored: SAME array, SAME affine *)
Theorem volume_roundtrip_rh : forall pos d0 d1 d2 s0 s1 s2 rows cols arr,
  vdot d1 d1 == 1 -> vdot d2 d2 == 1 -> vdot d1 d2 == 0 -> d0 =v= vcross d1 d2 -> 0 < s0 ->
  arr <> [] -> (1 <= rows)%Z -> (1 <= cols)%Z -> Forall (plane_shape rows cols) arr ->
  exists G,
    get_volume true (seg_from_volume pos d0 d1 d2 s0 s1 s2 rows cols arr false)
               None None None None None None false
    = Ok ((Z.of_nat (length arr), rows, cols), G, arr) /\
    aeq G (vol_aff pos d0 d1 d2 s0 s1 s2).
Proof.
  intros pos d0 d1 d2 s0 s1 s2 rows cols arr H11 H22 H12 H0 Hs0 Hne Hr Hc Hshape.
  assert (H0' : d0 =v= vscale (inject_Z 1) (vcross d1 d2)).
  { destruct H0 as (X & Y & Z). unfold veq, vscale in *; cbn [vx vy vz] in *.
    change (inject_Z 1) with 1. rewrite X, Y, Z. repeat split; ring. }
  destruct (volume_roundtrip pos d0 d1 d2 s0 s1 s2 1 (or_introl eq_refl) H11 H22 H12 H0' Hs0
                             rows cols arr false Hne Hr Hc Hshape)
    as (j & n0 & G & out & Hj & Hn0 & EG & Hkept & EV & Hlen & _ & Hpix & _ & Hsurj).
  set (S := Z.of_nat (length arr)) in *.
  assert (HS : (1 <= S)%Z) by (subst S; destruct arr; [congruence|cbn [length]; lia]).
  assert (Ej : j = 0%Z).
  { assert (R0 : (0 <= 0 < S)%Z) by lia.
    pose proof (Hkept _ (nth_indexed_kept arr 0 R0)) as K. cbn [fst] in K. lia. }
  subst j.
  assert (En : n0 = S).
  { assert (R1 : (0 <= S - 1 < S)%Z) by lia.
    pose proof (Hkept _ (nth_indexed_kept arr (S - 1) R1)) as K. cbn [fst] in K.
    destruct (Hsurj (n0 - 1)%Z ltac:(lia)) as (i & Hi & Ei). lia. }
  subst n0. exists G. split.
  - rewrite EV. f_equal. f_equal. apply (nth_ext _ _ [] []); [etransitivity; [exact Hlen|subst S; apply Nat2Z.id]|].
    intros k Hk. assert (Hk' : (k < Z.to_nat S)%nat) by (eapply Nat.lt_le_trans; [exact Hk|apply Nat.eq_le_incl; exact Hlen]).
    specialize (Hpix (Z.of_nat k) ltac:(lia) ltac:(lia)).
    replace (1 * (Z.of_nat k - 0))%Z with (Z.of_nat k) in Hpix by lia. rewrite Nat2Z.id in Hpix. exact Hpix.
  - rewrite EG. eapply aeq_trans; [apply sub_aff_zero2|]. apply roundtrip_rh_affine. exact H0.
Qed.

(* left-handed input, every slice stored: the MIRROR IMAGE along the stacking axis *)
Theorem volume_roundtrip_lh : forall pos d0 d1 d2 s0 s1 s2 rows cols arr,
  vdot d1 d1 == 1 -> vdot d2 d2 == 1 -> vdot d1 d2 == 0 -> d0 =v= vscale (-1) (vcross d1 d2) -> 0 < s0 ->
  arr <> [] -> (1 <= rows)%Z -> (1 <= cols)%Z -> Forall (plane_shape rows cols) arr ->
  let A := vol_aff pos d0 d1 d2 s0 s1 s2 in
  let S := Z.of_nat (length arr) in
  exists G,
    get_volume true (seg_from_volume pos d0 d1 d2 s0 s1 s2 rows cols arr false)
               None None None None None None false
    = Ok ((S, rows, cols), G, rev arr) /\
    aeq G (Aff (vscale (-1) (a0 A)) (a1 A) (a2 A) (physZ A (S - 1) 0 0)).
Proof.
  intros pos d0 d1 d2 s0 s1 s2 rows cols arr H11 H22 H12 H0 Hs0 Hne Hr Hc Hshape A S.
  destruct (volume_roundtrip pos d0 d1 d2 s0 s1 s2 (-1) (or_intror eq_refl) H11 H22 H12 H0 Hs0
                             rows cols arr false Hne Hr Hc Hshape)
    as (j & n0 & G & out & Hj & Hn0 & EG & Hkept & EV & Hlen & _ & Hpix & _ & Hsurj).
  fold S in Hj, Hpix, Hsurj.
  assert (HS : (1 <= S)%Z) by (subst S; destruct arr; [congruence|cbn [length]; lia]).
  assert (Ej : j = (S - 1)%Z).
  { assert (R1 : (0 <= S - 1 < S)%Z) by lia.
    pose proof (Hkept _ (nth_indexed_kept arr (S - 1) R1)) as K. cbn [fst] in K. lia. }
  subst j.
  assert (En : n0 = S).
  { assert (R0 : (0 <= 0 < S)%Z) by lia.
    pose proof (Hkept _ (nth_indexed_kept arr 0 R0)) as K. cbn [fst] in K.
    destruct (Hsurj (n0 - 1)%Z ltac:(lia)) as (i & Hi & Ei). lia. }
  subst n0. exists G. split.
  - rewrite EV. f_equal. f_equal. apply (nth_ext _ _ [] []); [rewrite rev_length; etransitivity; [exact Hlen|subst S; apply Nat2Z.id]|].
    intros k Hk. assert (Hk' : (k < Z.to_nat S)%nat) by (eapply Nat.lt_le_trans; [exact Hk|apply Nat.eq_le_incl; exact Hlen]).
    rewrite rev_nth by (subst S; lia).
    specialize (Hpix (S - 1 - Z.of_nat k)%Z ltac:(lia) ltac:(lia)).
    replace (-1 * (S - 1 - Z.of_nat k - (S - 1)))%Z with (Z.of_nat k) in Hpix by lia.
    rewrite Nat2Z.id in Hpix. etransitivity; [exact Hpix|]. f_equal. subst S. lia.
  - rewrite EG. eapply aeq_trans; [apply sub_aff_zero2|]. apply (roundtrip_lh_affine pos d0 d1 d2 s0 s1 s2 S H0).
Qed.

(* ---------------------------------------------------------------------- *)
(* aligned source stack with a recorded slice spacing: planes at            *)
(* p0 + m sbs n for distinct integers m in ANY order, any subset stored     *)
(* ---------------------------------------------------------------------- *)
Definition keep {X} (omit : bool) (l : list (X * plane)) : list (X * plane) :=
  if omit then match filter (fun x => plane_nonempty (snd x)) l with [] => l | ne => ne end else l.

Lemma combine_map_l : forall {X Y B} (f : X -> Y) (a : list X) (b : list B),
  combine (map f a) b = map (fun x => (f (fst x), snd x)) (combine a b).
Proof.
  intros X Y B f a. induction a as [|x a IH]; intros [|y b]; cbn [map combine]; try reflexivity.
  rewrite IH. reflexivity.
Qed.
Lemma omit_planes_keep : forall {X} (f : X -> v3) omit (l : list (X * plane)),
  omit_planes omit (map (fun x => (f (fst x), snd x)) l) = map (fun x => (f (fst x), snd x)) (keep omit l).
Proof.
  intros X f omit l. unfold omit_planes, keep. destruct omit; [|reflexivity].
  rewrite filter_map_swap. cbn [snd]. destruct (filter (fun x : X * plane => plane_nonempty (snd x)) l); reflexivity.
Qed.
Lemma keep_incl : forall {X} omit (l : list (X * plane)) x, In x (keep omit l) -> In x l.
Proof.
  intros X omit l x. unfold keep. destruct omit; [|auto].
  destruct (filter _ l) as [|a t] eqn:E; [auto|]. intros H. rewrite <- E in H. apply filter_In in H. apply H.
Qed.
Lemma keep_nodup : forall omit (l : list (Z * plane)), NoDup (map fst l) -> NoDup (map fst (keep omit l)).
Proof.
  intros omit l H. unfold keep. destruct omit; [|exact H].
  destruct (filter _ l) as [|a t] eqn:E; [exact H|]. rewrite <- E. apply NoDup_map_filter. exact H.
Qed.
Lemma keep_nonempty : forall {X} omit (l : list (X * plane)), l <> [] -> keep omit l <> [].
Proof.
  intros X omit l H. unfold keep. destruct omit; [|exact H]. destruct (filter _ l); [exact H|discriminate].
Qed.

Open Scope Q_scope.
Theorem sources_stacked : forall (p0 rowcos colcos : v3) (spr spc sbs : Q) rows cols ms arr omit,
  vdot rowcos rowcos == 1 -> vdot colcos colcos == 1 -> vdot rowcos colcos == 0 -> 0 < sbs ->
  NoDup ms -> length ms = length arr -> arr <> [] ->
  let n := normal rowcos colcos in
  let plane m := vadd p0 (vscale (inject_Z m * sbs) n) in
  let st := seg_from_sources (map plane ms) rowcos colcos spr spc (Some sbs) rows cols arr omit in
  let K := keep omit (combine ms arr) in
  exists mmin n0,
    In mmin (map fst K) /\
    (forall m, In m (map fst K) -> (0 <= m - mmin < n0)%Z) /\ In (mmin + n0 - 1)%Z (map fst K) /\
    stacked_full true st =
    Ok (attr_aff (plane mmin) rowcos colcos spr spc sbs, n0, map (fun mp => (fst mp - mmin)%Z) K) /\
    (forall m r c : Z,
       physZ (attr_aff (plane mmin) rowcos colcos spr spc sbs) (m - mmin) r c =v=
       vadd (vadd (plane m) (vscale (inject_Z r * spr) colcos)) (vscale (inject_Z c * spc) rowcos)).
Proof.
  intros p0 rowcos colcos spr spc sbs rows cols ms arr omit Hr Hc Hrc Hs Hnd Hlen Hne n plane st K.
  assert (Hcr : vdot colcos rowcos == 0).
  { rewrite <- Hrc. destruct rowcos as [a b c], colcos as [d e f]. unfold vdot; cbn [vx vy vz]. ring. }
  pose proof (normal_unit' colcos rowcos Hc Hr Hcr) as Hn. fold n in Hn.
  assert (HP : st_planes st = map (fun mp => (plane (fst mp), snd mp)) K).
  { subst st K. unfold seg_from_sources. cbn [st_planes]. rewrite combine_map_l. apply omit_planes_keep. }
  assert (HF : Forall2 (on_line n p0 sbs) (map fst (st_planes st)) (map fst K)).
  { rewrite HP, map_map. cbn [fst]. clear HP. induction K as [|mp K IH]; cbn [map]; constructor;
      [apply veq_refl|exact IH]. }
  assert (HndK : NoDup (map fst K)).
  { subst K. apply keep_nodup. rewrite map_fst_combine by exact Hlen. exact Hnd. }
  assert (HneK : map fst K <> []).
  { assert (Hc0 : combine ms arr <> []).
    { destruct arr as [|q arr]; [congruence|]. destruct ms as [|m ms]; [discriminate|]. discriminate. }
    pose proof (keep_nonempty omit _ Hc0) as H. fold K in H. destruct K; [congruence|discriminate]. }
  destruct (stacked_line rowcos colcos p0 sbs Hn Hs st (map fst K) eq_refl eq_refl eq_refl HF HndK HneK)
    as (origin & mmin & n0 & Hmin_in & Hrange & Hlast & Hino & Ro & E).
  rewrite HP, map_map in Hino. cbn [fst] in Hino. apply in_map_iff in Hino as (mpj & Eo & Hmpj).
  assert (Ej : mmin = fst mpj).
  { apply (DR_eq rowcos colcos p0 sbs Hs (vdot n origin) mmin (vdot n origin) (fst mpj));
      [apply (line_distance rowcos colcos p0 sbs Hn); exact Ro
      |apply (line_distance rowcos colcos p0 sbs Hn); rewrite <- Eo; apply veq_refl|reflexivity]. }
  exists mmin, n0. split; [exact Hmin_in|]. split; [exact Hrange|]. split; [exact Hlast|]. split.
  - rewrite E, <- Eo, <- Ej. cbn [st st_spr st_spc seg_from_sources]. rewrite map_map. reflexivity.
  - intros m r c. apply (line_voxel rowcos colcos p0 sbs). apply veq_refl.
Qed.

(* ---------------------------------------------------------------------- *)
(* tiled images: every accepted get_volume request passed both             *)
(* standardisers, returns the requested region of the total pixel matrix   *)
(* and places its voxel (0, i, j) where the image's own geometry places     *)
(* (0, r0 + i, c0 + j)                                                      *)
(* ---------------------------------------------------------------------- *)
Theorem get_volume_tiled_inv : forall G R C M ss se rs re cs ce ai sh A' arr,
  get_volume_tiled G R C M ss se rs re cs ce ai = Ok (sh, A', arr) ->
  exists r0 r1 c0 c1 s e,
    std_rc rs re cs ce R C ai true = Ok (r0, r1, c0, c1) /\ std_slice ss se 1 ai = Ok (s, e) /\
    (0 <= r0 < r1)%Z /\ (0 <= c0 < c1)%Z /\ (r0 < R)%Z /\ (c0 < C)%Z /\
    sh = (1, r1 - r0, c1 - c0)%Z /\ A' = sub_aff G 0 r0 c0 /\
    arr = [map (cut c0 (c1 - c0)) (cut r0 (r1 - r0) M)] /\
    (forall i j : Z, physZ A' 0 i j =v= physZ G 0 (r0 + i) (c0 + j)).
Proof.
  intros G R C M ss se rs re cs ce ai sh A' arr. unfold get_volume_tiled, bind.
  destruct (std_rc rs re cs ce R C ai true) as [[[[r0 r1] c0] c1]|] eqn:Erc; [|discriminate].
  destruct (std_slice ss se 1 ai) as [[s e]|] eqn:Esl; [|discriminate].
  destruct ((r1 <=? r0)%Z || (c1 <=? c0)%Z || (r0 <? 0)%Z || (c0 <? 0)%Z) eqn:Eg; [discriminate|].
  apply orb_false_iff in Eg as (Eg & G4). apply orb_false_iff in Eg as (Eg & G3).
  apply orb_false_iff in Eg as (G1 & G2).
  unfold geom_getitem, check_slice. cbn [fst snd andb].
  destruct (negb _) eqn:Ec; [discriminate|].
  apply negb_false_iff in Ec. rewrite !andb_true_r in Ec. apply andb_true_iff in Ec as (Ec1 & Ec2).
  apply negb_true_iff in Ec1, Ec2. apply orb_false_iff in Ec1 as (_ & Ec1). apply orb_false_iff in Ec2 as (_ & Ec2).
  destruct (slice_first_size None None 1) as [[? ?]|]; [|discriminate].
  rewrite (slice_first_size_from r0 R) by lia. rewrite (slice_first_size_from c0 C) by lia.
  intros H. injection H as <- <- <-.
  exists r0, r1, c0, c1, s, e. repeat split; try reflexivity; try lia.
  all: pose proof (sub_aff_physZ G 0 r0 c0 0 i j) as P; rewrite Z.add_0_l in P; apply P.
Qed.

(* ---------------------------------------------------------------------- *)
(* sub-volume of a volume that went through a segmentation: voxel (i, r, c) *)
(* of ANY accepted request lies where the input put voxel                  *)
(* (j + sg (f0 + i), f1 + r, f2 + c), (f0, f1, f2) = first voxel of region  *)
(* ---------------------------------------------------------------------- *)
Theorem volume_subvolume_placed : forall pos d0 d1 d2 s0 s1 s2 sg rows cols arr omit ss se rs re cs ce ai sh A' out,
  (sg = 1 \/ sg = -1)%Z -> vdot d1 d1 == 1 -> vdot d2 d2 == 1 -> vdot d1 d2 == 0 ->
  d0 =v= vscale (inject_Z sg) (vcross d1 d2) -> 0 < s0 -> arr <> [] ->
  get_volume true (seg_from_volume pos d0 d1 d2 s0 s1 s2 rows cols arr omit) ss se rs re cs ce ai
  = Ok (sh, A', out) ->
  exists j n0 r0 r1 c0 c1 s e f0 z0 f1 z1 f2 z2,
    In j (map fst (kept omit arr)) /\
    std_rc rs re cs ce rows cols ai true = Ok (r0, r1, c0, c1) /\ std_slice ss se n0 ai = Ok (s, e) /\
    slice_first_size (Some s) (Some e) n0 = Some (f0, z0) /\
    slice_first_size (Some r0) (Some r1) rows = Some (f1, z1) /\
    slice_first_size (Some c0) (Some c1) cols = Some (f2, z2) /\
    sh = (z0, z1, z2) /\
    forall i r c : Z,
      physZ A' i r c =v= physZ (vol_aff pos d0 d1 d2 s0 s1 s2) (j + sg * (f0 + i)) (f1 + r) (f2 + c).
Proof.
  intros pos d0 d1 d2 s0 s1 s2 sg rows cols arr omit ss se rs re cs ce ai sh A' out
         Hsg H11 H22 H12 H0 Hs0 Hne HV.
  apply get_volume_inv in HV as (G & n0 & idx & r0 & r1 & c0 & c1 & s & e & f0 & z0 & f1 & z1 & f2 & z2 &
                                  EF & Erc & Esl & S0 & S1 & S2 & -> & -> & _).
  destruct (volume_stacked pos d0 d1 d2 s0 s1 s2 sg Hsg H11 H22 H12 H0 Hs0 rows cols arr omit Hne)
    as (j & n0' & Hj & _ & _ & E & Hvox).
  rewrite E in EF. injection EF as <- <- <-.
  cbn [st_rows st_cols seg_from_volume] in Erc, S1, S2.
  exists j, n0', r0, r1, c0, c1, s, e, f0, z0, f1, z1, f2, z2.
  repeat split; try assumption.
  all: eapply veq_trans; [apply sub_aff_compose|];
       pose proof (Hvox (j + sg * (f0 + i))%Z (f1 + r)%Z (f2 + c)%Z) as P;
       replace (sg * (j + sg * (f0 + i) - j))%Z with (f0 + i)%Z in P by (destruct Hsg as [-> | ->]; lia);
       apply P.
Qed.

(* ---------------------------------------------------------------------- *)
(* pyramids from several source images and / or several pixel arrays        *)
(* ---------------------------------------------------------------------- *)
Theorem pyramid_multi_ok : forall srcs pix ls, pyramid_multi srcs pix = Ok ls ->
  srcs <> [] /\ pix <> [] /\
  (* several source images: every level IS its source level (size, spacing, origin) *)
  ((2 <= length srcs)%nat -> ls = srcs /\ (length pix = 1%nat \/ length pix = length srcs)) /\
  (* one source image: each level has the shape of its pixel array, the source's origin,
     and covers the physical extent of the source image *)
  (forall R C spr spc org, srcs = [(R, C, spr, spc, org)] ->
     length ls = length pix /\ hd (R, C) pix = (R, C) /\
     forall l, In l ls ->
       let '(Rl, Cl, a, b, o) := l in
       o = org /\ In (Rl, Cl) pix /\
       ((1 <= Rl)%Z -> (1 <= Cl)%Z ->
        inject_Z Rl * a == inject_Z R * spr /\ inject_Z Cl * b == inject_Z C * spc)).
Proof.
  intros srcs pix ls H. unfold pyramid_multi in H.
  destruct ((Z.of_nat (length srcs) =? 0)%Z || (Z.of_nat (length pix) =? 0)%Z) eqn:E0; [discriminate|].
  destruct ((Z.of_nat (length srcs) =? 1)%Z && (Z.of_nat (length pix) =? 1)%Z) eqn:E1; [discriminate|].
  destruct ((1 <? Z.of_nat (length srcs))%Z && (1 <? Z.of_nat (length pix))%Z &&
            negb (Z.of_nat (length srcs) =? Z.of_nat (length pix))%Z) eqn:E2; [discriminate|].
  destruct (negb (decreasing_src (map lvl_size srcs))) eqn:E3; [discriminate|].
  destruct (negb (decreasing_pix pix)) eqn:E4; [discriminate|].
  destruct (existsb _ (combine srcs pix)) eqn:E5; [discriminate|].
  split; [destruct srcs; [cbn in E0; discriminate|discriminate]|].
  split; [destruct pix; [cbn in E0; rewrite orb_true_r in E0; discriminate|discriminate]|].
  split.
  - intros Hlen. destruct srcs as [|s1 [|s2 srcs']]; cbn [length] in *; try lia.
    destruct s1 as [[[[R C] spr] spc] org]. injection H as <-. split; [reflexivity|].
    cbn [length] in E2. lia.
  - intros R C spr spc org ->.
    assert (Hhd : hd (R, C) pix = (R, C)).
    { destruct pix as [|[R0 C0] pix']; [reflexivity|].
      cbn [combine existsb fst snd lvl_size] in E5. rewrite orb_false_r in E5.
      apply negb_false_iff in E5. unfold size_eqb in E5. cbn [fst snd] in E5.
      cbn [hd]. f_equal; lia. }
    rewrite Hhd in H. cbv beta iota zeta in H. injection H as <-.
    split; [apply map_length|]. split; [exact Hhd|].
    intros l Hl. apply in_map_iff in Hl as ([Rl Cl] & <- & Hp). cbn [fst snd].
    split; [reflexivity|]. split; [exact Hp|]. intros HR HC.
    assert (0 < inject_Z Rl) by (change 0 with (inject_Z 0); rewrite <- Zlt_Qlt; lia).
    assert (0 < inject_Z Cl) by (change 0 with (inject_Z 0); rewrite <- Zlt_Qlt; lia).
    split; field; lra.
Qed.

(* ---------------------------------------------------------------------- *)
(* placed tiled segmentation, end to end through get_volume                *)
(* ---------------------------------------------------------------------- *)
Theorem placed_get_volume :
  forall src_org usr_org npos rp cp o_given src_rc src_cc u_rc u_cc m_given
         src_spr src_spc u_spr u_spc srcR srcC MR MC src_th src_tw th tw o,
  placed_origin src_org usr_org npos rp cp o_given src_rc src_cc u_rc u_cc m_given
                src_spr src_spc u_spr u_spc srcR srcC MR MC src_th src_tw th tw = Ok o ->
  forall rowcos colcos spr spc sbs M ss se rs re cs ce ai sh A' arr,
  get_volume_tiled (tiled_geometry o rowcos colcos spr spc sbs) MR MC M ss se rs re cs ce ai = Ok (sh, A', arr) ->
  exists r0 r1 c0 c1,
    std_rc rs re cs ce MR MC ai true = Ok (r0, r1, c0, c1) /\
    (0 <= r0 < r1)%Z /\ (0 <= c0 < c1)%Z /\ sh = (1, r1 - r0, c1 - c0)%Z /\
    arr = [map (cut c0 (c1 - c0)) (cut r0 (r1 - r0) M)] /\
    forall d0 s0 (i j : Z),
      physZ A' 0 i j =v= physZ (vol_aff usr_org d0 colcos rowcos s0 spr spc) 0 (r0 + i) (c0 + j).
Proof.
  intros until o. intros HP rowcos colcos spr spc sbs M ss se rs re cs ce ai sh A' arr HV.
  apply get_volume_tiled_inv in HV as (r0 & r1 & c0 & c1 & s & e & Erc & _ & Hr & Hc & _ & _ & Esh & _ & Earr & Hvox).
  exists r0, r1, c0, c1. repeat split; try assumption; try lia.
  all: eapply veq_trans; [apply Hvox|]; eapply placed_voxel_fixed; exact HP.
Qed.

(* every non-empty tile of the mask has a frame (and, when nothing is omitted, every tile) *)
Theorem tile_frames_complete : forall org rowcos colcos spr spc MR MC th tw M omit r0 c0,
  In r0 (tile_starts MR th) -> In c0 (tile_starts MC tw) ->
  (omit = false \/ tile_nonempty M th tw (r0, c0) = true) ->
  In ((r0 + 1)%Z, (c0 + 1)%Z, tile_pos org rowcos colcos spr spc r0 c0)
     (tile_frames org rowcos colcos spr spc MR MC th tw M omit).
Proof.
  intros org rowcos colcos spr spc MR MC th tw M omit r0 c0 Hr Hc Hne. unfold tile_frames.
  set (all := flat_map (fun r => map (fun c => (r, c)) (tile_starts MC tw)) (tile_starts MR th)).
  assert (Hall : In (r0, c0) all).
  { subst all. apply in_flat_map. exists r0. split; [exact Hr|]. apply in_map. exact Hc. }
  apply (in_map (fun rc0 : Z * Z => ((fst rc0 + 1)%Z, (snd rc0 + 1)%Z,
                                    tile_pos org rowcos colcos spr spc (fst rc0) (snd rc0))) _ (r0, c0)).
  destruct omit; [|exact Hall].
  destruct Hne as [Hf | Hne]; [discriminate|].
  destruct (filter (tile_nonempty M th tw) all) as [|a l] eqn:E; [exact Hall|].
  rewrite <- E. apply filter_In. split; [exact Hall|exact Hne].
Qed.
