(* C14 - families of content sequences: a sequence constructed FROM another sequence
   (ContentSequence(seq), item.ContentSequence = seq, copy.deepcopy(seq), seq.find(name),
   seq.get_nodes()) is a sequence of its own.  Proved here, for all family histories [mrun]:
     - every member of the family is in a state in which index and list agree, every item
       passed the rule and the flags are consistent ([Fine]) - hence every query theorem of
       the single-sequence development applies to every member (family_summary);
     - an operation on one member leaves every other member exactly as it was, a derivation
       leaves every existing member as it was (mstep_frame_on, mstep_frame_derive);
     - what the new member is (derive_spec). *)
From Coq Require Import String ZArith List Bool Lia ZifyBool Permutation.
From HD Require Import Base.Val Base.PySlice C14_Model C14_Proofs C14_Proofs_Ext.
Import ListNotations.
Open Scope Z_scope.

Definition Fine (s : st) : Prop := Inv s /\ Strict s /\ is_root s && negb (is_sr s) = false.

Lemma init_fine l root sr s : init l root sr = Ok s -> Fine s.
Proof.
  intros H. destruct (inv_init _ _ _ _ H) as (HI & _ & Hr & Hs).
  split; [exact HI|]. split; [eapply strict_init, H|]. rewrite Hr, Hs. eapply flags_ok_init, H.
Qed.

Lemma construct_fine c root sr s : construct c root sr = Ok s -> Fine s.
Proof.
  intros H. destruct (construct_ok _ _ _ _ H) as (HI & HS & Hr & Hs & Hf & _).
  split; [exact HI|]. split; [exact HS|]. now rewrite Hr, Hs.
Qed.

Lemma xstep_fine s o : Fine s -> Fine (fst (xstep s o)).
Proof.
  intros (HI & HS & HF). split; [now apply xstep_inv|]. split; [now apply xstep_strict|].
  destruct (xstep_flags s o) as [-> ->]. exact HF.
Qed.

Lemma derive_fine s d s' : derive_from s d = Ok s' -> Fine s'.
Proof. destruct d; cbn [derive_from]; apply init_fine. Qed.

(* ---- what the new member is -------------------------------------------------------------------- *)
(* ContentSequence(seq, root, sr): accepted iff the flags are consistent and every item of seq passes the rule
   of the NEW sequence; the new list is the old list *)
Theorem derive_ctor_ok_iff s root sr :
  (exists s', derive_from s (DCtor root sr) = Ok s') <->
  root && negb sr = false /\ Forall (fun x => init_check root sr x = None) (items s).
Proof.
  cbn [derive_from]. split.
  - intros [s' H]. split; [eapply flags_ok_init, H|]. now apply init_ok_items in H.
  - intros [Hf Ha]. destruct (init_ok_of_Forall _ _ _ Hf Ha) as (s' & H & _). now exists s'.
Qed.

Theorem derive_spec s d s' : Fine s -> derive_from s d = Ok s' ->
  Fine s' /\
  lut s' = fold_left lut_add (items s') empty_lut /\       (* an index of its own, built from its own list *)
  match d with
  | DCtor root sr => items s' = items s /\ is_root s' = root /\ is_sr s' = sr
  | DCopy => items s' = items s /\ is_root s' = is_root s /\ is_sr s' = is_sr s
  | DFind n => Permutation (items s') (filter (has n) (items s)) /\ is_root s' = is_root s /\ is_sr s' = is_sr s
  | DNodes => items s' = filter inode (items s) /\ is_root s' = is_root s /\ is_sr s' = is_sr s
  end.
Proof.
  intros (HI & _ & _) H. split; [eapply derive_fine, H|].
  assert (Hl : forall l root sr, init l root sr = Ok s' -> lut s' = fold_left lut_add (items s') empty_lut).
  { intros l root sr. unfold init. destruct (root && negb sr); [discriminate|].
    destruct (existsb _ l); [discriminate|]. destruct (first_err _ l); [discriminate|].
    intros E. inversion E. reflexivity. }
  destruct d; cbn [derive_from] in H; (split; [eapply Hl, H|]);
    destruct (inv_init _ _ _ _ H) as (_ & Hi & Hr & Hs); rewrite Hi, Hr, Hs; repeat split; try reflexivity.
  apply HI.
Qed.

(* copy.deepcopy / find / get_nodes of a member never fail *)
Theorem derive_total s d : Fine s -> match d with DCtor _ _ => True | _ => exists s', derive_from s d = Ok s' end.
Proof.
  intros (HI & HS & HF). destruct d; [exact I| | |]; cbn [derive_from].
  - destruct (init_ok_of_Forall (items s) _ _ HF HS) as (s' & H & _). now exists s'.
  - pose proof (find_total s n HI HS HF) as Hf. unfold find in Hf.
    destruct (init (lut s n) (is_root s) (is_sr s)) as [s'|e]; [now exists s'|discriminate].
  - pose proof (get_nodes_exact s HS HF) as Hg. unfold get_nodes in Hg.
    destruct (init (filter inode (items s)) (is_root s) (is_sr s)) as [s'|e]; [now exists s'|discriminate].
Qed.

(* ---- frame: nobody else is touched ------------------------------------------------------------- *)
Lemma set_nth_length ss : forall i s, length (set_nth ss i s) = length ss.
Proof. induction ss as [|x r IH]; intros [|i] s; cbn [set_nth length]; try reflexivity. now rewrite IH. Qed.

Lemma set_nth_same ss : forall i s, (i < length ss)%nat -> nth_error (set_nth ss i s) i = Some s.
Proof.
  induction ss as [|x r IH]; intros [|i] s H; cbn [set_nth nth_error length] in *; try lia; [reflexivity|].
  apply IH. lia.
Qed.

Lemma set_nth_other ss : forall i j s, i <> j -> nth_error (set_nth ss i s) j = nth_error ss j.
Proof.
  induction ss as [|x r IH]; intros [|i] [|j] s H; cbn [set_nth nth_error]; try reflexivity; try congruence.
  apply IH. congruence.
Qed.

Lemma get_seq_some ss i s : get_seq ss i = Some s -> 0 <= i /\ (Z.to_nat i < length ss)%nat /\ nth_error ss (Z.to_nat i) = Some s.
Proof.
  unfold get_seq. destruct (i <? 0) eqn:E; [discriminate|]. intros H. split; [lia|]. split; [|exact H].
  apply nth_error_Some. congruence.
Qed.

(* an operation on member i: member i makes its own single-sequence step, every other member is unchanged,
   nobody joins or leaves *)
Theorem mstep_frame_on ss i o s : get_seq ss i = Some s ->
  let ss' := fst (mstep ss (MOn i o)) in
  length ss' = length ss /\
  get_seq ss' i = Some (fst (xstep s o)) /\
  snd (mstep ss (MOn i o)) = snd (xstep s o) /\
  (forall j, j <> i -> get_seq ss' j = get_seq ss j).
Proof.
  intros H. cbn [mstep]. rewrite H. destruct (get_seq_some _ _ _ H) as (H0 & Hlt & _).
  destruct (xstep s o) as [s1 r]. cbn [fst snd]. split; [apply set_nth_length|]. split.
  - unfold get_seq. replace (i <? 0) with false by lia. now apply set_nth_same.
  - split; [reflexivity|]. intros j Hj. unfold get_seq. destruct (j <? 0) eqn:E; [reflexivity|].
    apply set_nth_other. lia.
Qed.

Theorem mstep_frame_missing ss i o : get_seq ss i = None -> mstep ss (MOn i o) = (ss, Err ENOSEQ).
Proof. intros H. cbn [mstep]. now rewrite H. Qed.

(* a derivation: the existing members are a prefix of the new family, unchanged; at most one member joins *)
Theorem mstep_frame_derive ss src d :
  let ss' := fst (mstep ss (MDerive src d)) in
  (forall j s, get_seq ss j = Some s -> get_seq ss' j = Some s) /\
  match get_seq ss src with
  | None => ss' = ss /\ snd (mstep ss (MDerive src d)) = Err ENOSEQ
  | Some s => match derive_from s d with
              | Ok s' => ss' = ss ++ [s'] /\ snd (mstep ss (MDerive src d)) = Ok None
              | Err e => ss' = ss /\ snd (mstep ss (MDerive src d)) = Err e
              end
  end.
Proof.
  cbn [mstep]. destruct (get_seq ss src) as [s|]; [|split; [tauto|split; reflexivity]].
  destruct (derive_from s d) as [s'|e]; cbn [fst snd]; (split; [|split; reflexivity]); [|tauto].
  intros j t Hj. destruct (get_seq_some _ _ _ Hj) as (H0 & Hlt & Hn).
  unfold get_seq. replace (j <? 0) with false by lia. rewrite nth_error_app1 by exact Hlt. exact Hn.
Qed.

(* ---- every member of every reachable family is fine --------------------------------------------- *)
Lemma Forall_set_nth (P : st -> Prop) ss : forall i s, Forall P ss -> P s -> Forall P (set_nth ss i s).
Proof.
  induction ss as [|x r IH]; intros [|i] s H Hs; cbn [set_nth]; try constructor; inversion H; subst; auto.
Qed.

Lemma mstep_fine ss o : Forall Fine ss -> Forall Fine (fst (mstep ss o)).
Proof.
  intros H. destruct o as [i o|src d]; cbn [mstep].
  - destruct (get_seq ss i) as [s|] eqn:E; [|exact H].
    destruct (get_seq_some _ _ _ E) as (_ & _ & Hn). apply nth_error_In in Hn.
    rewrite Forall_forall in H. pose proof (xstep_fine s o (H s Hn)) as Hf.
    destruct (xstep s o) as [s1 r]. cbn [fst] in *. apply Forall_set_nth; [now apply Forall_forall|exact Hf].
  - destruct (get_seq ss src) as [s|] eqn:E; [|exact H].
    destruct (derive_from s d) as [s'|e] eqn:Ed; cbn [fst]; [|exact H].
    apply Forall_app. split; [exact H|]. constructor; [eapply derive_fine, Ed|constructor].
Qed.

Lemma mrun_fine ops : forall ss, Forall Fine ss -> Forall Fine (mrun ss ops).
Proof.
  unfold mrun. induction ops as [|o ops IH]; intros ss H; cbn [fold_left]; [exact H|]. apply IH, mstep_fine, H.
Qed.

(* the property sentence for every member of a family grown from one constructed sequence by any history of
   operations on any member and derivations from any member *)
Theorem family_summary c root sr s0 ops : construct c root sr = Ok s0 ->
  Forall (fun t =>
    (forall n, Permutation (lut t n) (filter (has n) (items t))) /\
    (forall n, exists r, find t n = Ok r /\ Permutation r (filter (has n) (items t)) /\
       forall x, count_occ item_eq_dec r x = if has n x then count_occ item_eq_dec (items t) x else 0%nat) /\
    (forall x, (forall k, index t x = Ok k ->
                  0 <= k < zlen (items t) /\ nth_error (items t) (Z.to_nat k) = Some x /\
                  forall j, 0 <= j < k -> nth_error (items t) (Z.to_nat j) <> Some x) /\
               ((exists k, index t x = Ok k) <-> is_item x = true /\ In x (items t)) /\
               (is_item x = true -> (contains t x = Ok true <-> In x (items t)) /\
                                    (contains t x = Ok false <-> ~ In x (items t))) /\
               count t x = Z.of_nat (count_occ item_eq_dec (items t) x)) /\
    get_nodes t = Ok (filter inode (items t)) /\
    Forall (fun x => is_item x = true /\ (is_sr t = true -> (irel x =? 0) = is_root t)) (items t))
  (mrun [s0] ops).
Proof.
  intros H. eapply Forall_impl; [|apply mrun_fine; constructor; [eapply construct_fine, H|constructor]].
  intros t (HI & HS & HF). now apply state_summary.
Qed.
