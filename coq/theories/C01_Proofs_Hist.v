(* C01 - proofs, part 6: histories.  The decoded-array cache (.pixel_array
   touched before a read) returns the same frames as decoding one frame's byte
   range, so every read entry point gives the same answer whatever was called
   before; the label-map view (combine_segments=True) of a combinable input. *)
From Coq Require Import String ZArith List Bool Lia ZifyBool Arith Permutation.
From HD Require Import Base.Val Base.ListZ Base.BitWindow C01_Model C01_Proofs C01_Proofs_Frames
  C01_Proofs_Lut C01_Proofs_Value C01_Proofs_Full.
Import ListNotations.
Open Scope Z_scope.
Ltac Zify.zify_post_hook ::= Z.to_euclidean_division_equations.

(* ------------------------------------------------------------------ *)
(* the whole PixelData decoded at once is the concatenation of the frames *)
(* ------------------------------------------------------------------ *)
Lemma un16_le16_app : forall f pad, Forall (fun v => 0 <= v < 65536) f ->
  un16 (flat_map le16 f ++ pad) = f ++ un16 pad.
Proof.
  induction f as [|v f IH]; intros pad H; [reflexivity|].
  inversion H as [|? ? Hv Hf]; subst. cbn [flat_map le16 app un16]. rewrite IH by assumption. f_equal.
  cbv beta in Hv. assert (Hq : 0 <= v / 256 < 256) by (clear - Hv; lia).
  rewrite (Z.mod_small (v / 256)) by exact Hq. lia.
Qed.

Lemma flat_map_flat_map {A B C} : forall (f : B -> list C) (g : A -> list B) l,
  flat_map f (flat_map g l) = flat_map (fun x => flat_map f (g x)) l.
Proof.
  intros f g l. induction l as [|x t IH]; [reflexivity|].
  cbn [flat_map]. rewrite flat_map_app. now rewrite IH.
Qed.

Lemma Forall_concat {A} : forall (P : A -> Prop) (ls : list (list A)),
  (forall l, In l ls -> Forall P l) -> Forall P (concat ls).
Proof.
  intros P ls H. induction ls as [|l t IH]; [constructor|].
  cbn [concat]. apply Forall_app. split; [apply H; now left|apply IH; intros; apply H; now right].
Qed.

Lemma whole_flat_concat : forall c (fs : list frame) meta dec,
  1 <= npix c -> (forall f, In f fs -> frame_ok c (f_pix f)) ->
  exists rest, whole_flat (Stored c meta (pixel_data c fs) dec) = concat (map f_pix fs) ++ rest.
Proof.
  intros c fs meta dec Hn Hok. unfold whole_flat, pixel_data. cbn [s_cfg s_bytes].
  destruct (bits_alloc_cases c) as [Hb | [Hb | Hb]]; rewrite Hb in *; cbn match.
  - (* 1 bit *)
    destruct (even_pad_app (bin_pixel_data (npix c) (map (fun f => map bit_of_pixel (f_pix f)) fs)))
      as (pad & ->).
    assert (Hlen : forall f, In f (map (fun f => map bit_of_pixel (f_pix f)) fs) -> zlen f = npix c).
    { intros f Hf. apply in_map_iff in Hf as (g & <- & Hg). unfold zlen. rewrite map_length.
      destruct (Hok g Hg) as (Hl & _). exact Hl. }
    rewrite pack_loop_is_global_pack by assumption.
    rewrite unpack_app.
    destruct (unpack_pack (concat (map (fun f => map bit_of_pixel (f_pix f)) fs))) as (k & ->).
    rewrite <- app_assoc, map_app.
    exists (map pixel_of_bit (repeat false k ++ unpack_bits pad)). f_equal.
    rewrite concat_map, map_map. f_equal. apply map_ext_in. intros f Hf.
    apply bit_pixel_roundtrip. specialize (Hok f Hf). unfold frame_ok in Hok. rewrite Hb in Hok. apply Hok.
  - (* 8 bits *)
    destruct (even_pad_app (flat_map (fun f => map u8 (f_pix f)) fs)) as (pad & ->).
    exists pad. f_equal. rewrite flat_map_concat_map. f_equal. apply map_ext_in. intros f Hf.
    apply map_u8_id. specialize (Hok f Hf). unfold frame_ok in Hok. rewrite Hb in Hok. apply Hok.
  - (* 16 bits *)
    destruct (even_pad_app (flat_map (fun f => flat_map le16 (f_pix f)) fs)) as (pad & ->).
    exists (un16 pad).
    replace (flat_map (fun f => flat_map le16 (f_pix f)) fs)
      with (flat_map le16 (concat (map f_pix fs))).
    + apply un16_le16_app. apply Forall_concat. intros l Hl. apply in_map_iff in Hl as (f & <- & Hf).
      specialize (Hok f Hf). unfold frame_ok in Hok. rewrite Hb in Hok. apply Hok.
    + rewrite <- flat_map_concat_map. apply flat_map_flat_map.
Qed.

(* T9: frame i taken from the decoded-array cache is frame i *)
Theorem cached_frame_correct : forall c (fs : list frame) meta dec i,
  native c = true -> 1 <= npix c ->
  (forall f, In f fs -> frame_ok c (f_pix f)) ->
  0 <= i < zlen fs ->
  cached_frame (Stored c meta (pixel_data c fs) dec) i
  = f_pix (nth (Z.to_nat i) fs (Frame 0 0 [])).
Proof.
  intros c fs meta dec i Hnat Hn Hok Hi.
  unfold cached_frame. cbn [s_cfg]. rewrite Hnat.
  destruct (whole_flat_concat c fs meta dec Hn Hok) as (rest & ->).
  rewrite slice_concat_frame.
  - apply nth_map_default. unfold zlen in Hi. lia.
  - lia.
  - intros f Hf. apply in_map_iff in Hf as (g & <- & Hg). apply (Hok g Hg).
  - unfold zlen in *. now rewrite map_length.
Qed.

(* ------------------------------------------------------------------ *)
(* the frames of a constructed object do not depend on the history       *)
(* ------------------------------------------------------------------ *)
Lemma constructed_frames : forall c i perm st,
  valid c i = true -> Permutation perm (zrange (nsrc c)) -> construct c i perm = Ok st ->
  exists fs, st = Stored c (map key_of fs) (if native c then pixel_data c fs else []) (map f_pix fs) /\
             (forall f, In f fs -> frame_ok c (f_pix f)).
Proof.
  intros c i perm st Hv Hperm Hc.
  destruct (construct_inv c i perm st Hc) as (a & inc & om & _ & Ha & _ & _ & Hst).
  cbv zeta in Hst. destruct Hst as (_ & Hst).
  eexists. split; [exact Hst|].
  intros f Hf. apply in_frames_of in Hf. destruct Hf as (Hs & Hj & -> & _).
  apply (frame_ok_valid c i a _ _ Hv Ha Hs).
  apply filter_In in Hj as (Hj & _). apply in_zrange. now apply (Permutation_in _ Hperm).
Qed.

Theorem getter_history_independent : forall c i perm st lazy warm k,
  valid c i = true -> Permutation perm (zrange (nsrc c)) -> construct c i perm = Ok st ->
  0 <= k < zlen (s_meta st) ->
  frame_getter lazy warm st k = stored_frame lazy st k.
Proof.
  intros c i perm st lazy warm k Hv Hperm Hc Hk.
  unfold frame_getter. destruct (warm && negb lazy) eqn:E; [|reflexivity].
  assert (lazy = false) by (destruct lazy; [rewrite andb_false_r in E; discriminate|reflexivity]). subst lazy.
  destruct (valid_basic c i Hv) as (_ & Hn & _).
  destruct (constructed_frames c i perm st Hv Hperm Hc) as (fs & -> & Hok).
  cbn [s_meta] in Hk. unfold zlen in Hk. rewrite map_length in Hk.
  destruct (native c) eqn:En.
  - rewrite cached_frame_correct, stored_frame_correct; auto.
  - rewrite stored_frame_encaps by exact En. unfold cached_frame. cbn [s_cfg s_frames]. now rewrite En.
Qed.

(* a look-up only ever yields the index of a stored frame *)
Lemma find_frame_bound : forall st s j k, find_frame st s j = Some k -> 0 <= k < zlen (s_meta st).
Proof.
  intros st s j k H. unfold find_frame in H. apply find_from_some in H. lia.
Qed.

Lemma fetch_g_ext : forall g g' st s j,
  (forall k, 0 <= k < zlen (s_meta st) -> g k = g' k) -> fetch_g g st s j = fetch_g g' st s j.
Proof.
  intros g g' st s j H. unfold fetch_g. destruct (find_frame st s j) as [k|] eqn:E; [|reflexivity].
  apply H. now apply (find_frame_bound st s j).
Qed.

Lemma read_plane_g_ext : forall g g' st j,
  (forall k, 0 <= k < zlen (s_meta st) -> g k = g' k) -> read_plane_g g st j = read_plane_g g' st j.
Proof.
  intros g g' st j H. unfold read_plane_g. cbv zeta.
  assert (E : map (fun s => fetch_g g st s j) (segs (s_cfg st)) =
              map (fun s => fetch_g g' st s j) (segs (s_cfg st))).
  { apply map_ext. intros s. now apply fetch_g_ext. }
  rewrite E, (fetch_g_ext g g' st 0 j H). reflexivity.
Qed.

(* ------------------------------------------------------------------ *)
(* the stacked read after any history                                   *)
(* ------------------------------------------------------------------ *)
Lemma read_plane_g_stored : forall lazy st j, read_plane_g (stored_frame lazy st) st j = read_plane lazy st j.
Proof. reflexivity. Qed.

Theorem roundtrip_any_history : forall c i perm st,
  valid c i = true -> Permutation perm (zrange (nsrc c)) -> construct c i perm = Ok st ->
  forall lazy warm,
    read_g (frame_getter lazy warm st) st (zrange (nsrc c)) false false = Ok (expected c i) /\
    read_g (frame_getter lazy warm st) st (one_to (nsrc c)) true true = Ok (expected c i).
Proof.
  intros c i perm st Hv Hperm Hc lazy warm.
  pose proof (roundtrip c i perm st Hv Hperm Hc) as Hr.
  pose proof (roundtrip_by_frame c i perm st Hv Hperm Hc) as Hf.
  assert (Hext : forall j, read_plane_g (frame_getter lazy warm st) st j = read_plane lazy st j).
  { intros j. rewrite <- read_plane_g_stored. apply read_plane_g_ext. intros k Hk.
    now apply (getter_history_independent c i perm). }
  split.
  - unfold read_g, read_guard. rewrite (Hr false). cbn [bind]. f_equal.
    specialize (Hr lazy). unfold read_by_instance in Hr.
    destruct (zrange (nsrc c)) as [|z0 zs] eqn:Ez; [discriminate|]. rewrite <- Ez in *.
    destruct (negb (nodup_keys (s_meta st))); [discriminate|].
    destruct (negb false && existsb _ (zrange (nsrc c))); [discriminate|].
    injection Hr as Hr. rewrite <- Hr. apply map_ext. intros j. unfold src_index. apply Hext.
  - unfold read_g, read_guard. rewrite (Hf false). cbn [bind]. f_equal.
    specialize (Hf lazy). unfold read_by_frame in Hf.
    destruct (one_to (nsrc c)) as [|z0 zs] eqn:Ez; [discriminate|]. rewrite <- Ez in *.
    destruct (existsb (fun f => f <=? 0) (one_to (nsrc c))); [discriminate|].
    destruct (negb (nodup_keys (s_meta st))); [discriminate|].
    destruct (negb true && existsb _ (one_to (nsrc c))); [discriminate|].
    injection Hf as Hf. rewrite <- Hf. apply map_ext. intros j. unfold src_index. apply Hext.
Qed.

(* the combined read does not depend on the history either *)
Lemma combine_step_ext : forall g g' st j acc s,
  (forall k, 0 <= k < zlen (s_meta st) -> g k = g' k) ->
  combine_step g st j acc s = combine_step g' st j acc s.
Proof.
  intros g g' st j acc s H. unfold combine_step. destruct acc as [out|e]; [|reflexivity]. cbn [bind].
  destruct (find_frame st s j) as [k|] eqn:E; [|reflexivity].
  now rewrite (H k (find_frame_bound st s j k E)).
Qed.

Lemma fold_left_ext {A B} : forall (f f' : A -> B -> A) l a,
  (forall a b, f a b = f' a b) -> fold_left f l a = fold_left f' l a.
Proof.
  intros f f' l. induction l as [|x t IH]; intros a H; [reflexivity|].
  cbn [fold_left]. rewrite H. now apply IH.
Qed.

Lemma combine_plane_ext : forall g g' st j,
  (forall k, 0 <= k < zlen (s_meta st) -> g k = g' k) -> combine_plane g st j = combine_plane g' st j.
Proof.
  intros g g' st j H. unfold combine_plane. cbv zeta.
  rewrite (fetch_g_ext g g' st 0 j H).
  rewrite (fold_left_ext (combine_step g st j) (combine_step g' st j)); [reflexivity|].
  intros a b. now apply combine_step_ext.
Qed.

Lemma map_res_ext {A B} : forall (f f' : A -> res B) l,
  (forall x, f x = f' x) -> map_res f l = map_res f' l.
Proof.
  intros f f' l H. induction l as [|x t IH]; [reflexivity|]. cbn [map_res]. now rewrite H, IH.
Qed.

Theorem combined_history_independent : forall c i perm st lazy warm req byframe am,
  valid c i = true -> Permutation perm (zrange (nsrc c)) -> construct c i perm = Ok st ->
  read_combined (frame_getter lazy warm st) st req byframe am =
  read_combined (stored_frame lazy st) st req byframe am.
Proof.
  intros c i perm st lazy warm req byframe am Hv Hperm Hc. unfold read_combined.
  destruct (read_guard st req byframe am); [|reflexivity]. cbn [bind].
  apply map_res_ext. intros r. apply combine_plane_ext. intros k Hk.
  now apply (getter_history_independent c i perm).
Qed.

(* ------------------------------------------------------------------ *)
(* the label-map view (combine_segments=True) of a combinable input      *)
(* ------------------------------------------------------------------ *)
Lemma sum_app : forall a b, sum (a ++ b) = sum a + sum b.
Proof. unfold sum. induction a as [|x a IH]; intros b; cbn [app fold_right]; [lia|]. rewrite IH. lia. Qed.

Lemma sum_map_zero {A} : forall (f : A -> Z) l, (forall x, In x l -> f x = 0) -> sum (map f l) = 0.
Proof.
  intros f l H. unfold sum. induction l as [|x t IH]; [reflexivity|].
  cbn [map fold_right]. rewrite (H x) by now left. rewrite IH; [lia|].
  intros y Hy. apply H. now right.
Qed.

Lemma sum_map_nonneg {A} : forall (f : A -> Z) l, (forall x, In x l -> 0 <= f x) -> 0 <= sum (map f l).
Proof.
  intros f l H. unfold sum. induction l as [|x t IH]; [cbn; lia|].
  cbn [map fold_right]. pose proof (H x (or_introl eq_refl)) as Hx.
  specialize (IH ltac:(intros y Hy; apply H; now right)). lia.
Qed.

Lemma zrange_succ : forall m, 0 <= m -> zrange (m + 1) = zrange m ++ [m].
Proof.
  intros m Hm. unfold zrange. replace (Z.to_nat (m + 1)) with (S (Z.to_nat m)) by lia.
  rewrite seq_S, map_app. cbn [map Nat.add]. f_equal. f_equal. lia.
Qed.

Lemma zlen_zeros : forall n, 0 <= n -> zlen (zeros n) = n.
Proof. intros n H. unfold zlen, zeros. rewrite repeat_length. lia. Qed.

Lemma nthz_zeros : forall n p, nthz p (zeros n) 0 = 0.
Proof. intros n p. unfold nthz, zeros. apply nth_repeat. Qed.

Lemma list_eq_map_nth : forall (l : list Z) n (h : Z -> Z), zlen l = n ->
  (forall p, 0 <= p < n -> nthz p l 0 = h p) -> l = map h (zrange n).
Proof.
  intros l n h Hn H. rewrite (list_as_map_nth l 0) at 1. rewrite Hn.
  apply map_ext_in. intros p Hp. apply H. now apply in_zrange.
Qed.

(* picking a described label *)
Lemma sum_pick_notin : forall L l, ~ In L l -> sum (map (fun x => if L =? x then L else 0) l) = 0.
Proof.
  intros L l H. apply sum_map_zero. intros x Hx.
  destruct (L =? x) eqn:E; [|reflexivity]. exfalso. apply H. assert (L = x) by lia. now subst.
Qed.

Lemma sum_pick : forall L l, NoDup l -> In L l \/ L = 0 ->
  sum (map (fun x => if L =? x then L else 0) l) = L.
Proof.
  intros L l Hnd [Hin | ->].
  - induction l as [|x t IH]; [contradiction|].
    inversion Hnd as [|? ? Hnx Hnt]; subst.
    change (sum (map (fun x0 => if L =? x0 then L else 0) (x :: t)))
      with ((if L =? x then L else 0) + sum (map (fun x0 => if L =? x0 then L else 0) t)).
    destruct Hin as [-> | Hin].
    + rewrite Z.eqb_refl. rewrite (sum_pick_notin L t Hnx). lia.
    + destruct (L =? x) eqn:E.
      * assert (L = x) by lia. subst x. contradiction.
      * rewrite (IH Hnt Hin). lia.
  - apply sum_map_zero. intros x _. now destruct (0 =? x).
Qed.

(* one step of the label-map assembly, on lists *)
Definition pickz (s : Z) (vo : Z * Z) : Z := if fst vo =? 0 then snd vo else s.

Lemma step_lists : forall top s col out, 1 <= top -> 1 <= s -> length col = length out ->
  Forall (fun vo => (fst vo = 0 \/ fst vo = top) /\ 0 <= snd vo /\ (fst vo <> 0 -> snd vo = 0))
         (combine col out) ->
  overlap2 (map (fun v => v / top) col) out = false /\
  max2 (map (fun v => v * s) (map (fun v => v / top) col)) out = map (pickz s) (combine col out).
Proof.
  intros top s col. induction col as [|v col IH]; intros out Ht Hs Hlen H.
  - destruct out; [split; reflexivity|discriminate].
  - destruct out as [|o out]; [discriminate|].
    cbn [combine] in H. inversion H as [|? ? Hvo Hrest]; subst. cbn [fst snd] in Hvo.
    destruct Hvo as (Hv & Ho & Hz).
    destruct (IH out Ht Hs ltac:(cbn in Hlen; lia) Hrest) as (IH1 & IH2).
    cbn [map overlap2 max2 combine]. rewrite IH1, IH2.
    destruct Hv as [-> | ->].
    + rewrite Z.div_0_l by lia. split; [reflexivity|]. f_equal. unfold pickz. cbn [fst snd]. cbn. lia.
    + rewrite Z.div_same by lia. assert (o = 0) by (apply Hz; lia). subst o.
      split; [reflexivity|]. f_equal. unfold pickz. cbn [fst snd]. destruct (top =? 0) eqn:E; lia.
Qed.

Lemma nonbinary_false : forall mf f, Forall (fun v => v = 0 \/ v = mf) f -> nonbinary mf f = false.
Proof.
  intros mf f H. unfold nonbinary. apply existsb_false_of_forall. intros x Hx.
  rewrite Forall_forall in H. specialize (H x Hx). lia.
Qed.

Lemma combinable_facts : forall c i, valid c i = true -> combinable c i = true ->
  1 <= top_value c /\
  (forall j p k, 0 <= j < nsrc c -> 0 <= p < npix c -> 0 <= k < zlen (segs c) ->
     expected_pixel c i j p k = 0 \/ expected_pixel c i j p k = top_value c) /\
  (forall j p k1 k2, 0 <= j < nsrc c -> 0 <= p < npix c -> 0 <= k1 < zlen (segs c) ->
     0 <= k2 < zlen (segs c) -> k1 <> k2 ->
     expected_pixel c i j p k1 = 0 \/ expected_pixel c i j p k2 = 0).
Proof.
  intros c i Hv H. destruct (valid_basic c i Hv) as (_ & _ & _ & Hpl & _).
  unfold combinable in H. rewrite Hpl in H. apply andb_prop in H as (Ht & H).
  rewrite forallb_forall in H.
  assert (Hjp : forall j p, 0 <= j < nsrc c -> 0 <= p < npix c -> _) by
    (intros j p Hj Hp; specialize (H j (proj2 (in_zrange _ _) Hj)); rewrite forallb_forall in H;
     exact (H p (proj2 (in_zrange _ _) Hp))).
  split; [lia|]. split.
  - intros j p k Hj Hp Hk. specialize (Hjp j p Hj Hp). cbv zeta in Hjp.
    apply andb_prop in Hjp as (Hb & _). rewrite forallb_forall in Hb.
    specialize (Hb k (proj2 (in_zrange _ _) Hk)). lia.
  - intros j p k1 k2 Hj Hp Hk1 Hk2 Hne. specialize (Hjp j p Hj Hp). cbv zeta in Hjp.
    apply andb_prop in Hjp as (_ & Hu). rewrite forallb_forall in Hu.
    specialize (Hu k1 (proj2 (in_zrange _ _) Hk1)). rewrite forallb_forall in Hu.
    specialize (Hu k2 (proj2 (in_zrange _ _) Hk2)). lia.
Qed.

Lemma Forall_combine_nthz : forall (P : Z * Z -> Prop) col out n, zlen col = n -> zlen out = n ->
  (forall p, 0 <= p < n -> P (nthz p col 0, nthz p out 0)) -> Forall P (combine col out).
Proof.
  intros P col out n Hc Ho H. apply Forall_forall. intros vo Hin.
  destruct (In_nth _ _ (0, 0) Hin) as (k & Hk & <-).
  rewrite combine_length in Hk. rewrite combine_nth by (unfold zlen in *; lia).
  specialize (H (Z.of_nat k) ltac:(unfold zlen in *; lia)). unfold nthz in H. now rewrite Nat2Z.id in H.
Qed.

Lemma nthz_combine : forall (col out : list Z) p, zlen col = zlen out -> 0 <= p < zlen col ->
  nthz p (combine col out) (0, 0) = (nthz p col 0, nthz p out 0).
Proof. intros col out p Hl Hp. unfold nthz. apply combine_nth. unfold zlen in Hl. lia. Qed.

Lemma firstn_succ {A} : forall (l : list A) m d, (m < length l)%nat ->
  firstn (S m) l = firstn m l ++ [nth m l d].
Proof.
  induction l as [|x t IH]; intros m d H; [cbn in H; lia|].
  destruct m as [|m]; [reflexivity|]. cbn [firstn nth app]. f_equal. apply IH. cbn in H. lia.
Qed.

Lemma map_res_ok {A B} : forall (f : A -> res B) (h : A -> B) l,
  (forall x, In x l -> f x = Ok (h x)) -> map_res f l = Ok (map h l).
Proof.
  intros f h l H. induction l as [|x t IH]; [reflexivity|].
  cbn [map_res map]. rewrite (H x) by now left. cbn [bind].
  rewrite IH by (intros y Hy; apply H; now right). reflexivity.
Qed.

Lemma constructed_cfg : forall c i perm st, construct c i perm = Ok st -> s_cfg st = c.
Proof.
  intros c i perm st Hc. destruct (construct_inv c i perm st Hc) as (? & ? & ? & _ & _ & _ & _ & Hst).
  cbv zeta in Hst. destruct Hst as (_ & ->). reflexivity.
Qed.

(* the partial label sums *)
Definition psum (c : cfg) (i : input) (j p m : Z) : Z :=
  sum (map (fun k => if expected_pixel c i j p k =? 0 then 0 else nthz k (segs c) 0) (zrange m)).

Lemma combine_step_spec : forall c i perm st a lazy j m out,
  valid c i = true -> Permutation perm (zrange (nsrc c)) -> construct c i perm = Ok st ->
  check_and_cast c i = Ok a -> combinable c i = true -> ty c <> LABELMAP ->
  0 <= j < nsrc c -> 0 <= m < zlen (segs c) ->
  zlen out = npix c ->
  (forall p, 0 <= p < npix c -> 0 <= nthz p out 0) ->
  (forall p, 0 <= p < npix c -> expected_pixel c i j p m <> 0 -> nthz p out 0 = 0) ->
  exists out', combine_step (stored_frame lazy st) st j (Ok out) (nthz m (segs c) 0) = Ok out' /\
    zlen out' = npix c /\
    forall p, 0 <= p < npix c ->
      nthz p out' 0 = if expected_pixel c i j p m =? 0 then nthz p out 0 else nthz m (segs c) 0.
Proof.
  intros c i perm st a lazy j m out Hv Hperm Hc Ha Hcomb Hty Hj Hm Hlen Hnn Hz.
  destruct (valid_basic c i Hv) as (Hsn & Hn & _).
  destruct (segs_facts c Hsn) as (_ & Hpos & _).
  destruct (combinable_facts c i Hv Hcomb) as (Htop & Hbin & _).
  set (s := nthz m (segs c) 0).
  assert (Hs_in : In s (seg_iter c)).
  { unfold seg_iter. destruct (ty c); try (apply nthz_in; exact Hm). contradiction. }
  assert (Hs1 : 1 <= s). { apply Hpos. apply nthz_in. exact Hm. }
  pose proof (fetch_correct c i perm st a lazy s j Hv Hperm Hc Ha Hs_in Hj) as Hfetch.
  pose proof (seg_plane_zlen c i a s j Hv Ha Hj) as Hcl.
  assert (Hcv : forall p, 0 <= p < npix c -> nthz p (seg_plane c a s j) 0 = expected_pixel c i j p m).
  { intros p Hp. apply (seg_plane_expected c i a j m p Hv Ha Hty Hj Hm Hp). }
  pose proof (constructed_cfg c i perm st Hc) as Hcfg.
  unfold combine_step. cbn [bind]. unfold fetch in Hfetch. rewrite Hcfg in *.
  destruct (find_frame st s j) as [idx|].
  - rewrite Hfetch. set (col := seg_plane c a s j) in *.
    assert (Hcb : Forall (fun v => v = 0 \/ v = top_value c) col).
    { apply (Forall_nthz _ col (npix c) Hcl). intros p Hp. rewrite (Hcv p Hp). now apply Hbin. }
    assert (Hnb : (match ty c with FRACTIONAL => true | _ => false end) && nonbinary (maxfrac c) col = false).
    { unfold top_value in Hcb. destruct (ty c); try reflexivity. cbn [andb]. now apply nonbinary_false. }
    rewrite Hnb.
    assert (Hb : (if match ty c with FRACTIONAL => true | _ => false end
                  then map (fun v => v / maxfrac c) col else col) = map (fun v => v / top_value c) col).
    { unfold top_value. destruct (ty c); try reflexivity;
        (rewrite <- (map_id col) at 1; apply map_ext; intros v; now rewrite Z.div_1_r). }
    rewrite Hb.
    destruct (step_lists (top_value c) s col out Htop Hs1) as (Hov & Hmax).
    + unfold zlen in *. lia.
    + apply (Forall_combine_nthz _ col out (npix c) Hcl Hlen). intros p Hp. cbn [fst snd].
      rewrite (Hcv p Hp). split; [now apply Hbin|]. split; [now apply Hnn|]. now apply Hz.
    + rewrite Hov, Hmax. eexists. split; [reflexivity|]. split.
      * unfold zlen in *. rewrite map_length, combine_length. lia.
      * intros p Hp. rewrite (nthz_map _ _ p (0, 0)).
        -- rewrite nthz_combine by lia. unfold pickz. cbn [fst snd]. now rewrite (Hcv p Hp).
        -- unfold zlen in *. rewrite combine_length. lia.
  - exists out. split; [reflexivity|]. split; [exact Hlen|].
    intros p Hp. rewrite <- (Hcv p Hp), <- Hfetch, nthz_zeros. reflexivity.
Qed.

Lemma psum_succ : forall c i j p m, 0 <= m ->
  psum c i j p (m + 1) = psum c i j p m +
    (if expected_pixel c i j p m =? 0 then 0 else nthz m (segs c) 0).
Proof.
  intros c i j p m Hm. unfold psum. rewrite zrange_succ by exact Hm. rewrite map_app, sum_app.
  cbn [map]. unfold sum at 2. cbn [fold_right]. lia.
Qed.

Lemma combine_fold : forall c i perm st a lazy j,
  valid c i = true -> Permutation perm (zrange (nsrc c)) -> construct c i perm = Ok st ->
  check_and_cast c i = Ok a -> combinable c i = true -> ty c <> LABELMAP -> 0 <= j < nsrc c ->
  forall m : nat, (m <= length (segs c))%nat ->
  exists out, fold_left (combine_step (stored_frame lazy st) st j) (firstn m (segs c)) (Ok (zeros (npix c))) = Ok out /\
    zlen out = npix c /\ forall p, 0 <= p < npix c -> nthz p out 0 = psum c i j p (Z.of_nat m).
Proof.
  intros c i perm st a lazy j Hv Hperm Hc Ha Hcomb Hty Hj.
  destruct (valid_basic c i Hv) as (Hsn & Hn & _).
  destruct (segs_facts c Hsn) as (_ & Hpos & _).
  destruct (combinable_facts c i Hv Hcomb) as (_ & _ & Huniq).
  induction m as [|m IH]; intros Hm.
  - exists (zeros (npix c)). split; [reflexivity|]. split; [apply zlen_zeros; lia|].
    intros p _. rewrite nthz_zeros. reflexivity.
  - destruct (IH ltac:(lia)) as (out & Hfold & Hlen & Hval).
    assert (Hmz : 0 <= Z.of_nat m < zlen (segs c)) by (unfold zlen; lia).
    rewrite (firstn_succ (segs c) m 0) by lia. rewrite fold_left_app, Hfold. cbn [fold_left].
    change (nth m (segs c) 0) with (nth m (segs c) 0).
    replace (nth m (segs c) 0) with (nthz (Z.of_nat m) (segs c) 0) by (unfold nthz; now rewrite Nat2Z.id).
    destruct (combine_step_spec c i perm st a lazy j (Z.of_nat m) out Hv Hperm Hc Ha Hcomb Hty Hj Hmz Hlen)
      as (out' & Hstep & Hlen' & Hval').
    + intros p Hp. rewrite (Hval p Hp). unfold psum. apply sum_map_nonneg. intros k Hk.
      apply in_zrange in Hk. destruct (expected_pixel c i j p k =? 0); [lia|].
      assert (1 <= nthz k (segs c) 0) by (apply Hpos; apply nthz_in; lia). lia.
    + intros p Hp Hne. rewrite (Hval p Hp). unfold psum. apply sum_map_zero. intros k Hk.
      apply in_zrange in Hk.
      destruct (Huniq j p k (Z.of_nat m) Hj Hp ltac:(lia) Hmz ltac:(lia)) as [E | E]; [|contradiction].
      now rewrite E.
    + exists out'. split; [exact Hstep|]. split; [exact Hlen'|].
      intros p Hp. rewrite (Hval' p Hp), (Hval p Hp).
      replace (Z.of_nat (S m)) with (Z.of_nat m + 1) by lia. rewrite psum_succ by lia.
      destruct (expected_pixel c i j p (Z.of_nat m) =? 0) eqn:E; [lia|].
      assert (Hz0 : psum c i j p (Z.of_nat m) = 0).
      { unfold psum. apply sum_map_zero. intros k Hk. apply in_zrange in Hk.
        destruct (Huniq j p k (Z.of_nat m) Hj Hp ltac:(lia) Hmz ltac:(lia)) as [E' | E']; [now rewrite E'|lia]. }
      lia.
Qed.

(* one output plane of the combined read is the label map of the input plane *)
Theorem combine_plane_expected : forall c i perm st a lazy j,
  valid c i = true -> Permutation perm (zrange (nsrc c)) -> construct c i perm = Ok st ->
  check_and_cast c i = Ok a -> combinable c i = true -> 0 <= j < nsrc c ->
  combine_plane (stored_frame lazy st) st j = Ok (map (expected_label c i j) (zrange (npix c))).
Proof.
  intros c i perm st a lazy j Hv Hperm Hc Ha Hcomb Hj.
  destruct (valid_basic c i Hv) as (Hsn & Hn & _).
  pose proof (constructed_cfg c i perm st Hc) as Hcfg.
  destruct (segs_facts c Hsn) as (Hnd & Hpos & _).
  unfold combine_plane. rewrite Hcfg. cbv zeta.
  destruct (ty c) eqn:Et.
  1, 2: destruct (combine_fold c i perm st a lazy j Hv Hperm Hc Ha Hcomb ltac:(congruence) Hj
                  (length (segs c)) (le_n _)) as (out & Hfold & Hlen & Hval);
        rewrite firstn_all in Hfold; rewrite Hfold; f_equal;
        apply (list_eq_map_nth out (npix c) _ Hlen); intros p Hp; rewrite (Hval p Hp); reflexivity.
  (* LABELMAP *)
  f_equal. change (fetch_g (stored_frame lazy st) st 0 j) with (fetch lazy st 0 j).
  rewrite (fetch_correct c i perm st a lazy 0 j Hv Hperm Hc Ha); auto;
    [|unfold seg_iter; rewrite Et; now left].
  apply (list_eq_map_nth _ (npix c)); [now apply (seg_plane_zlen c i)|].
  intros p Hp.
  destruct (label_plane_expected c i a j p Hv Ha Et Hj Hp) as (HL & Hone). cbv zeta in HL, Hone.
  set (L := nthz p (seg_plane c a 0 j) 0) in *.
  unfold expected_label.
  assert (E : map (fun k => if expected_pixel c i j p k =? 0 then 0 else nthz k (segs c) 0) (zrange (zlen (segs c)))
            = map (fun k => (fun x => if L =? x then L else 0) (nthz k (segs c) 0)) (zrange (zlen (segs c)))).
  { apply map_ext_in. intros k Hk. apply in_zrange in Hk. rewrite <- (Hone k Hk).
    pose proof (remap_spec (segs c) 1 L k ltac:(lia) Hnd Hk) as R.
    replace (1 + k) with (k + 1) in R by lia. rewrite R.
    destruct (L =? nthz k (segs c) 0) eqn:EL; cbn [Z.eqb]; [|reflexivity].
    assert (L = nthz k (segs c) 0) by lia. lia. }
  rewrite E, <- (map_map (fun k => nthz k (segs c) 0) (fun x => if L =? x then L else 0)).
  rewrite <- (list_as_map_nth (segs c) 0).
  symmetry. apply sum_pick; [exact Hnd|]. destruct HL as [<- | HL]; [now right|now left].
Qed.

(* THE PROPERTY for the label-map view: whatever was called before, the combined
   read of all sources in input order is the label map of the input *)
Theorem roundtrip_combined : forall c i perm st,
  valid c i = true -> Permutation perm (zrange (nsrc c)) -> construct c i perm = Ok st ->
  combinable c i = true ->
  forall lazy warm,
    read_combined (frame_getter lazy warm st) st (zrange (nsrc c)) false false = Ok (expected_labels c i) /\
    read_combined (frame_getter lazy warm st) st (one_to (nsrc c)) true true = Ok (expected_labels c i).
Proof.
  intros c i perm st Hv Hperm Hc Hcomb lazy warm.
  destruct (valid_basic c i Hv) as (_ & _ & _ & Hpl & _).
  destruct (construct_inv c i perm st Hc) as (a & _ & _ & _ & Ha & _).
  rewrite !(combined_history_independent c i perm st lazy warm) by assumption.
  unfold read_combined, read_guard, expected_labels. rewrite Hpl.
  rewrite (roundtrip c i perm st Hv Hperm Hc false), (roundtrip_by_frame c i perm st Hv Hperm Hc false).
  cbn [bind]. split.
  - apply map_res_ok. intros j Hj. apply in_zrange in Hj. unfold src_index.
    now apply (combine_plane_expected c i perm st a).
  - unfold one_to. rewrite <- (map_map (fun k => k + 1) (fun r => r - 1 + 1 - 1)) at 1 || idtac.
    assert (E : map (fun j => map (fun p => expected_label c i j p) (zrange (npix c))) (zrange (nsrc c))
              = map (fun r => map (fun p => expected_label c i (src_index true r) p) (zrange (npix c)))
                    (map (fun k => k + 1) (zrange (nsrc c)))).
    { rewrite map_map. apply map_ext. intros k. unfold src_index. now replace (k + 1 - 1) with k by lia. }
    rewrite E. apply map_res_ok. intros r Hr. apply in_map_iff in Hr as (k & <- & Hk). apply in_zrange in Hk.
    apply (combine_plane_expected c i perm st a); auto. unfold src_index. lia.
Qed.

(* every way of getting frame k - lazy reader or not, cache warm or cold - agrees
   with the eager frame-by-frame decoder *)
Theorem frames_history_independent : forall c i perm st lazy warm k,
  valid c i = true -> Permutation perm (zrange (nsrc c)) -> construct c i perm = Ok st ->
  0 <= k < zlen (s_meta st) ->
  frame_getter lazy warm st k = stored_frame false st k.
Proof.
  intros c i perm st lazy warm k Hv Hp Hc Hk.
  rewrite (getter_history_independent c i perm st lazy warm k Hv Hp Hc Hk).
  rewrite <- (getter_history_independent c i perm st lazy false k Hv Hp Hc Hk).
  destruct lazy; [|reflexivity].
  (* lazy reader, cold cache = eager reader, cold cache *)
  unfold frame_getter. cbn [andb negb].
  destruct (constructed_frames c i perm st Hv Hp Hc) as (fs & -> & Hok).
  destruct (valid_basic c i Hv) as (_ & Hn & _).
  cbn [s_meta] in Hk. unfold zlen in Hk. rewrite map_length in Hk.
  destruct (native c) eqn:En.
  - rewrite !stored_frame_correct; auto.
  - now rewrite !stored_frame_encaps.
Qed.
