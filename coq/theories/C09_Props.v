(* C09 - property theorems.  Nothing but statements, `exact <lemma>` and Print Assumptions.
   Numbers: Z indices, Q coordinates ( == is Qeq, veq is component-wise Qeq ).
   A geometry is (shape, coordinate system, optional FoR token, unit vectors, spacings, position);
   its affine column j is  spacing_j * unit_j. *)
From Coq Require Import String ZArith List Bool QArith.
From HD Require Import Base.Val Base.PySlice C09_Model C09_Proofs C09_Proofs_Match C09_Proofs_Voxels C09_Proofs_Sound
  C09_Proofs_Index C09_Proofs_Dtype C09_Proofs_Float.
Import ListNotations.
Open Scope Z_scope.

(* 1. comparison: equal exactly when same shape, same coordinate system, affine within tolerance
      (numpy.allclose: |a-b| <= tol + 1e-5|b|, or exact for tol=None) and no conflicting FoR UIDs *)
Theorem C09_geometry_equal_iff : forall tol g h,
  geometry_equal tol g h = true <->
  (g_shape g = g_shape h /\ g_cs g = g_cs h /\ affine_close tol g h = true /\
   ~ for_conflicting (g_for g) (g_for h)).
Proof. exact geometry_equal_iff. Qed.
Print Assumptions C09_geometry_equal_iff.

Theorem C09_affine_close_iff : forall tol g h,
  affine_close tol g h = true <->
  (forall j, vclose_spec tol (col g j) (col h j)) /\ vclose_spec tol (g_pos g) (g_pos h).
Proof. exact affine_close_iff. Qed.
Print Assumptions C09_affine_close_iff.

(* 2. one axis: source n voxels, target m voxels starting at source coordinate a with stride k <> 0
      (prefix, suffix, interior, strided, reversed, partly or wholly outside alike): the computed
      pad/crop plan is accepted by the slicing code and yields m voxels, voxel j being source voxel
      a + j*k when that exists and padding otherwise *)
Theorem C09_axis_match_1d : forall tol n m a k c, (0 <= tol)%Q -> 0 < n -> 0 < m -> k <> 0 ->
  (c = true \/ pl_crop (plan_of a k m n) = false) ->
  exists p, axis_plan tol (inject_Z a) k m n = Ok p /\
  apply_plan c n p = Ok (AxRes m a k) /\
  0 <= pl_pb p /\ 0 <= pl_pa p /\
  Z.of_nat (length (axis_map n (AxRes m a k))) = m /\
  forall j, 0 <= j < m ->
    nth (Z.to_nat j) (axis_map n (AxRes m a k)) None =
    (if (0 <=? a + j * k) && (a + j * k <? n) then Some (a + j * k) else None).
Proof. exact axis_match_1d. Qed.
Print Assumptions C09_axis_match_1d.

(* 3. completeness: a target reachable by permutation, flips, integer-stride cropping and padding is
      matched, and the result has exactly the target's shape, affine and the voxel maps of (2) *)
Theorem C09_match_complete : forall tol g h sg k a,
  (0 <= tol)%Q -> (tol <= 4 # 5)%Q -> orthonormal g -> spac_pos g ->
  gpos (g_shape g) -> gpos (g_shape h) ->
  for_conflict (g_for g) (g_for h) = false -> g_cs g = g_cs h ->
  reaches g h sg k a ->
  exists r, match_geometry tol g h = Ok r /\ m_perm r = sg /\
    (forall d, sel (a_shape (m_geom r)) d = sel (g_shape h) d) /\
    (forall d, veq (sel (a_cols (m_geom r)) d) (col h d)) /\
    veq (a_pos (m_geom r)) (g_pos h) /\
    (forall d, sel (m_maps r) d =
               axis_map (sel (g_shape g) (sel sg d)) (AxRes (sel (g_shape h) d) (sel a d) (sel k d))).
Proof. exact match_complete_full. Qed.
Print Assumptions C09_match_complete.

(* 4. soundness (PARTIAL).  Full statement wanted: on success the result is geometry_equal to the target.
      That is FALSE for the code as it is (see C09_match_sound_refuted: tolerances are in voxel / ratio /
      unit-vector units, geometry_equal compares millimetres).
      Proved: whatever is returned is a pure re-gridding of the source (axis permutation sg, nonzero
      integer strides k, integer starts) with exactly the target's shape, whose alignment, stride and
      start each passed the code's tolerance test against the target. *)
Theorem C09_match_sound_partial : forall tol g h r, gpos (g_shape g) -> gpos (g_shape h) ->
  match_geometry tol g h = Ok r ->
  exists sg k,
    steps_of tol g h = Ok (sg, k) /\ is_perm (p0 sg) (p1 sg) (p2 sg) = true /\
    (forall d, sel k d <> 0) /\ (forall d, (shift g h sg d <= tol)%Q) /\
    for_conflict (g_for g) (g_for h) = false /\ g_cs g = g_cs h /\
    r = assemble g sg (res3 (g_shape h) (starts g h sg) k).
Proof. exact match_sound. Qed.
Print Assumptions C09_match_sound_partial.

(* 5. ... and in such a re-gridding no voxel moves: result voxel (j0,j1,j2) lies at the physical
      position of the source voxel it was copied from *)
Theorem C09_match_fixes_voxels : forall g sg rs j0 j1 j2, is_perm (p0 sg) (p1 sg) (p2 sg) = true ->
  veq (aphys (m_geom (assemble g sg rs)) (zvec (T3 j0 j1 j2)))
      (phys (geom_aff g)
            (zvec (place sg (r_first (p0 rs) + j0 * r_step (p0 rs))
                            (r_first (p1 rs) + j1 * r_step (p1 rs))
                            (r_first (p2 rs) + j2 * r_step (p2 rs))))).
Proof. exact assemble_fixes_voxels. Qed.
Print Assumptions C09_match_fixes_voxels.

Theorem C09_match_voxel_maps : forall g sg rs d,
  sel (m_maps (assemble g sg rs)) d = axis_map (sel (g_shape g) (sel sg d)) (sel rs d).
Proof. exact assemble_maps. Qed.
Print Assumptions C09_match_voxel_maps.

(* 6. refusal: RuntimeError exactly for conflicting FoR UIDs, different coordinate systems, an axis that
      cannot be aligned or needs a non-integer stride, or a start that is off the source grid by > tol *)
Theorem C09_match_refuses : forall tol g h, gpos (g_shape g) -> gpos (g_shape h) ->
  (match_geometry tol g h = Err RT <->
   for_conflict (g_for g) (g_for h) = true \/ g_cs g <> g_cs h \/
   steps_of tol g h = Err RT \/
   exists sg k, steps_of tol g h = Ok (sg, k) /\ is_perm (p0 sg) (p1 sg) (p2 sg) = true /\
                exists d, (tol < shift g h sg d)%Q).
Proof. exact match_refuses. Qed.
Print Assumptions C09_match_refuses.

Theorem C09_steps_refuse_iff : forall tol g h,
  steps_of tol g h = Err RT <-> exists d, axis_step tol g (sel (g_unit h) d) (sel (g_spac h) d) = Err RT.
Proof. exact steps_refuse_iff. Qed.
Print Assumptions C09_steps_refuse_iff.

Theorem C09_axis_step_refuses_iff : forall tol g u s,
  axis_step tol g u s = Err RT <->
  find_axis tol g u = None \/
  exists j, find_axis tol g u = Some j /\
            (rne (s / sel (g_spac g) j) = 0 \/
             (tol < Qabs' (s / sel (g_spac g) j - inject_Z (rne (s / sel (g_spac g) j))))%Q).
Proof. exact axis_step_refuses_iff. Qed.
Print Assumptions C09_axis_step_refuses_iff.

Theorem C09_unalignable_iff : forall tol g u,
  find_axis tol g u = None <-> forall j, aligned tol u (sel (g_unit g) j) = false.
Proof. exact find_axis_none_iff. Qed.
Print Assumptions C09_unalignable_iff.

(* 7. the rotated target of fixed defect D62 is refused; yet the full soundness clause "result is
      geometry_equal to the target" is still refuted (start tolerance in voxel units vs. millimetres) *)
Theorem C09_d62_rotation_now_refused :
  orthonormal d62_src /\ orthonormal d62_tgt /\ match_geometry (1 # 100000) d62_src d62_tgt = Err RT.
Proof. exact d62_rotation_now_refused. Qed.
Print Assumptions C09_d62_rotation_now_refused.

Theorem C09_match_sound_refuted :
  exists g h r, orthonormal g /\ orthonormal h /\
    match_geometry (1 # 100000) g h = Ok r /\
    geometry_equal (Some (1 # 100000)%Q) (ageom_geom (m_geom r) (g_cs g) (g_for g)) h = false.
Proof. exact match_sound_refuted. Qed.
Print Assumptions C09_match_sound_refuted.

(* 8. index mapping between two volumes = mapping through physical space *)
Theorem C09_v2v_via_physical : forall A B i, ~ (det B == 0)%Q ->
  veq (phys B (phys (v2v_aff A B) i)) (phys A i).
Proof. exact v2v_via_physical. Qed.
Print Assumptions C09_v2v_via_physical.

Theorem C09_v2v_is_inverse_after_phys : forall A B i,
  veq (phys (v2v_aff A B) i) (inv_apply B (phys A i)).
Proof. exact v2v_is_inverse_after_phys. Qed.
Print Assumptions C09_v2v_is_inverse_after_phys.

Theorem C09_ref2idx_inverts : forall B x, ~ (det B == 0)%Q -> veq (phys B (inv_apply B x)) x.
Proof. exact ref2idx_inverts. Qed.
Print Assumptions C09_ref2idx_inverts.

Theorem C09_idx2ref2idx : forall B i, ~ (det B == 0)%Q -> veq (inv_apply B (phys B i)) i.
Proof. exact idx2ref2idx. Qed.
Print Assumptions C09_idx2ref2idx.

(* 9. bounds checks: fail exactly when some (mapped) point lies outside the target by more than half a
      voxel on some axis *)
Theorem C09_bounds_fail_iff : forall shape x xs,
  exists b, bounds_fail shape (x :: xs) = Some b /\
  (b = true <-> exists p d, In p (x :: xs) /\ outside shape p d).
Proof. exact bounds_fail_iff. Qed.
Print Assumptions C09_bounds_fail_iff.

Theorem C09_v2v_bounds_exact : forall A B shape x xs, ~ (det B == 0)%Q ->
  let out := map (phys (v2v_aff A B)) (x :: xs) in
  ((exists p d, In p out /\ outside shape p d) -> v2v A B shape false true (x :: xs) = Err VE) /\
  (~ (exists p d, In p out /\ outside shape p d) -> v2v A B shape false true (x :: xs) = Ok out).
Proof. exact v2v_bounds_exact. Qed.
Print Assumptions C09_v2v_bounds_exact.

(* with round_output the transformer checks the indices it returns ... *)
Theorem C09_v2v_bounds_rounded : forall A B shape x xs, ~ (det B == 0)%Q ->
  let out := map vround (map (phys (v2v_aff A B)) (x :: xs)) in
  ((exists p d, In p out /\ outside shape p d) -> v2v A B shape true true (x :: xs) = Err VE) /\
  (~ (exists p d, In p out /\ outside shape p d) -> v2v A B shape true true (x :: xs) = Ok out).
Proof. exact v2v_bounds_rounded. Qed.
Print Assumptions C09_v2v_bounds_rounded.

(* ... which rejects every point that is outside by more than half a voxel, and only points on or
   beyond a face (the face itself is rejected iff half-even rounding leaves the array) *)
Theorem C09_outside_stays_outside_after_rounding : forall shape p d,
  outside shape p d -> outside shape (vround p) d.
Proof. exact outside_stays_outside_after_rounding. Qed.
Print Assumptions C09_outside_stays_outside_after_rounding.

Theorem C09_rounded_outside_is_on_or_beyond_face : forall shape p d,
  outside shape (vround p) d ->
  (comp p d <= - half)%Q \/ (inject_Z (sel shape d) - half <= comp p d)%Q.
Proof. exact rounded_outside_is_on_or_beyond_face. Qed.
Print Assumptions C09_rounded_outside_is_on_or_beyond_face.

Theorem C09_ref2idx_bounds_exact : forall B shape r x xs, ~ (det B == 0)%Q ->
  let out := map (inv_apply B) (x :: xs) in
  ((exists p d, In p out /\ outside shape p d) -> ref2idx B shape r true (x :: xs) = Err RT) /\
  (~ (exists p d, In p out /\ outside shape p d) ->
     ref2idx B shape r true (x :: xs) = Ok (if r then map vround out else out)).
Proof. exact ref2idx_bounds_exact. Qed.
Print Assumptions C09_ref2idx_bounds_exact.

Theorem C09_v2v_unchecked : forall A B shape r pts, ~ (det B == 0)%Q ->
  v2v A B shape r false pts =
  Ok (if r then map vround (map (phys (v2v_aff A B)) pts) else map (phys (v2v_aff A B)) pts).
Proof. exact v2v_unchecked. Qed.
Print Assumptions C09_v2v_unchecked.

(* non-vacuity: a concrete oblique source and a permuted / flipped / strided / padded target meet the
   hypotheses of C09_match_complete, and the model computes the expected voxel rearrangement *)
Definition ex_src : geom :=
  Geom (T3 3 2 4) 0 (Some 1)
       (T3 (V3 (3 # 5) (4 # 5) 0) (V3 (- (4 # 5)) (3 # 5) 0) (V3 0 0 1)) (T3 (1 # 2) 2 (5 # 4))%Q (V3 10 (- (7 # 2)) 3).
Definition ex_tgt : geom :=
  Geom (T3 3 2 2) 0 None
       (T3 (V3 0 0 (-1)) (V3 (3 # 5) (4 # 5) 0) (V3 (- (4 # 5)) (3 # 5) 0)) (T3 (5 # 2) (1 # 2) 2)%Q
       (V3 (103 # 10) (- (31 # 10)) (27 # 4)).
Example C09_example :
  orthonormal ex_src /\ spac_pos ex_src /\ gpos (g_shape ex_src) /\ gpos (g_shape ex_tgt) /\
  reaches ex_src ex_tgt (T3 X2 X0 X1) (T3 (-2) 1 1) (T3 3 1 0) /\
  (~ (det (geom_aff ex_tgt) == 0)%Q) /\
  mismatches [run_match (1 # 100000) ex_src ex_tgt]
   [VL [VL [VL [VZ 3; VZ 2; VZ 2];
            VL [VQ 0; VQ 0; VQ (- (5 # 2))]; VL [VQ (3 # 10); VQ (2 # 5); VQ 0]; VL [VQ (- (8 # 5)); VQ (6 # 5); VQ 0];
            VL [VQ (103 # 10); VQ (- (31 # 10)); VQ (27 # 4)]];
        VL [VZ 12; VZ 16; VZ 20; VZ 24; VZ 10; VZ 14; VZ 18; VZ 22; VZ 0; VZ 0; VZ 0; VZ 0];
        VL [VB true; VB true; VB true; VB true; VB true]]] = [].
Proof.
  split; [intros i j; destruct i, j; vm_compute; reflexivity|].
  split; [intros d; destruct d; vm_compute; reflexivity|].
  split; [intros d; destruct d; vm_compute; reflexivity|].
  split; [intros d; destruct d; vm_compute; reflexivity|].
  split.
  { split; [reflexivity|]. split.
    - intros d; destruct d; (split; [discriminate|]); split; vm_compute; repeat split; reflexivity.
    - vm_compute. repeat split; reflexivity. }
  split; [vm_compute; discriminate|].
  vm_compute. reflexivity.
Qed.
Print Assumptions C09_example.

(* ===================================================================================================== *)
(* 10. soundness at FULL strength, tolerance units explicit (supersedes the _partial statement of (4); the
       literal clause with the SAME numeric atol stays refuted because match_geometry's tolerances are in
       voxel / ratio / unit-vector units): on success the result has the target's shape and every entry of
       its affine is within tol x (target spacing + source spacing) resp. tol x (sum of source spacings)
       of the target's *)
Theorem C09_match_sound_within : forall tol g h r,
  (0 <= tol)%Q -> (3 * tol < 1)%Q -> orthonormal g -> spac_pos g -> spac_pos h ->
  gpos (g_shape g) -> gpos (g_shape h) ->
  match_geometry tol g h = Ok r ->
  is_perm (p0 (m_perm r)) (p1 (m_perm r)) (p2 (m_perm r)) = true /\
  a_shape (m_geom r) = g_shape h /\
  (forall d, vwithin (tol * (sel (g_spac h) d + sel (g_spac g) (sel (m_perm r) d)))
                     (sel (a_cols (m_geom r)) d) (col h d)) /\
  vwithin (tol * spac_sum g) (a_pos (m_geom r)) (g_pos h).
Proof. exact match_sound_within. Qed.
Print Assumptions C09_match_sound_within.

(* ... hence geometry_equal(result, target, tol=T) holds for every T at least that large *)
Theorem C09_match_sound_geometry_equal : forall tol g h r T,
  (0 <= tol)%Q -> (3 * tol < 1)%Q -> orthonormal g -> spac_pos g -> spac_pos h ->
  gpos (g_shape g) -> gpos (g_shape h) ->
  match_geometry tol g h = Ok r ->
  (forall d, (tol * (sel (g_spac h) d + sel (g_spac g) (sel (m_perm r) d)) <= T)%Q) ->
  (tol * spac_sum g <= T)%Q ->
  geometry_equal (Some T) (ageom_geom (m_geom r) (g_cs g) (g_for g)) h = true.
Proof. exact match_sound_geometry_equal. Qed.
Print Assumptions C09_match_sound_geometry_equal.

(* ... and with tol = 0 the result is exactly the target (geometry_equal with tol=None) *)
Theorem C09_match_sound_exact : forall g h r,
  orthonormal g -> spac_pos g -> spac_pos h -> gpos (g_shape g) -> gpos (g_shape h) ->
  match_geometry 0 g h = Ok r ->
  geometry_equal None (ageom_geom (m_geom r) (g_cs g) (g_for g)) h = true.
Proof. exact match_sound_exact. Qed.
Print Assumptions C09_match_sound_exact.

(* 11. success <-> reachable (exact arithmetic): the converse of C09_match_complete *)
Theorem C09_match_exact_iff_reachable : forall g h,
  orthonormal g -> spac_pos g -> spac_pos h -> gpos (g_shape g) -> gpos (g_shape h) ->
  ((exists r, match_geometry 0 g h = Ok r) <->
   (for_conflict (g_for g) (g_for h) = false /\ g_cs g = g_cs h /\ exists sg k a, reaches g h sg k a)).
Proof. exact match_exact_iff_reachable. Qed.
Print Assumptions C09_match_exact_iff_reachable.

Theorem C09_match_exact_reaches : forall g h r,
  orthonormal g -> spac_pos g -> spac_pos h -> gpos (g_shape g) -> gpos (g_shape h) ->
  match_geometry 0 g h = Ok r ->
  for_conflict (g_for g) (g_for h) = false /\ g_cs g = g_cs h /\
  exists k a, reaches g h (m_perm r) k a /\ r = assemble g (m_perm r) (res3 (g_shape h) a k).
Proof. exact match_exact_reaches. Qed.
Print Assumptions C09_match_exact_reaches.

(* 12. the voxel ARRAY (no longer model glue): flat index (j0,j1,j2) of the result holds the label of the
       source voxel (place sg c) when every per-axis source coordinate c_d = first_d + j_d step_d is inside
       the source, the padding value 0 otherwise; the array has prod(sizes) entries *)
Theorem C09_match_voxel_array : forall g sg rs j0 j1 j2,
  0 <= j0 < r_size (p0 rs) -> 0 <= j1 < r_size (p1 rs) -> 0 <= j2 < r_size (p2 rs) ->
  voxel_at (g_shape g) (assemble g sg rs) j0 j1 j2 =
  (if inb (sel (g_shape g) (p0 sg)) (coord rs X0 j0) && inb (sel (g_shape g) (p1 sg)) (coord rs X1 j1) &&
      inb (sel (g_shape g) (p2 sg)) (coord rs X2 j2)
   then src_label (g_shape g) (place sg (coord rs X0 j0) (coord rs X1 j1) (coord rs X2 j2)) else 0).
Proof. exact assemble_voxel. Qed.
Print Assumptions C09_match_voxel_array.

Theorem C09_match_voxel_array_length : forall g sg rs,
  0 <= r_size (p0 rs) -> 0 <= r_size (p1 rs) -> 0 <= r_size (p2 rs) ->
  Z.of_nat (length (voxels (g_shape g) (assemble g sg rs))) = r_size (p0 rs) * r_size (p1 rs) * r_size (p2 rs).
Proof. exact assemble_voxels_length. Qed.
Print Assumptions C09_match_voxel_array_length.

(* "its voxels coincide with the source wherever the two overlap (padding elsewhere)", physically: *)
Theorem C09_match_voxels_coincide : forall g sg rs j0 j1 j2,
  is_perm (p0 sg) (p1 sg) (p2 sg) = true -> ~ (det (geom_aff g) == 0)%Q ->
  0 <= j0 < r_size (p0 rs) -> 0 <= j1 < r_size (p1 rs) -> 0 <= j2 < r_size (p2 rs) ->
  let x := aphys (m_geom (assemble g sg rs)) (zvec (T3 j0 j1 j2)) in
  let v := voxel_at (g_shape g) (assemble g sg rs) j0 j1 j2 in
  (forall i, in_shape (g_shape g) i -> veq x (phys (geom_aff g) (zvec i)) -> v = src_label (g_shape g) i) /\
  ((forall i, in_shape (g_shape g) i -> ~ veq x (phys (geom_aff g) (zvec i))) -> v = 0).
Proof. exact match_voxels_coincide. Qed.
Print Assumptions C09_match_voxels_coincide.

(* 13. END TO END - the property sentence about match_geometry in one statement *)
Theorem C09_match_end_to_end : forall tol g h r,
  (0 <= tol)%Q -> (3 * tol < 1)%Q -> orthonormal g -> spac_pos g -> spac_pos h ->
  gpos (g_shape g) -> gpos (g_shape h) ->
  match_geometry tol g h = Ok r ->
  a_shape (m_geom r) = g_shape h /\
  (forall T, (forall d, (tol * (sel (g_spac h) d + sel (g_spac g) (sel (m_perm r) d)) <= T)%Q) ->
             (tol * spac_sum g <= T)%Q ->
             geometry_equal (Some T) (ageom_geom (m_geom r) (g_cs g) (g_for g)) h = true) /\
  (forall j0 j1 j2, 0 <= j0 < p0 (g_shape h) -> 0 <= j1 < p1 (g_shape h) -> 0 <= j2 < p2 (g_shape h) ->
     let x := aphys (m_geom r) (zvec (T3 j0 j1 j2)) in
     let v := voxel_at (g_shape g) r j0 j1 j2 in
     (forall i, in_shape (g_shape g) i -> veq x (phys (geom_aff g) (zvec i)) -> v = src_label (g_shape g) i) /\
     ((forall i, in_shape (g_shape g) i -> ~ veq x (phys (geom_aff g) (zvec i))) -> v = 0)).
Proof. exact match_end_to_end. Qed.
Print Assumptions C09_match_end_to_end.

Theorem C09_match_exact_end_to_end : forall g h,
  orthonormal g -> spac_pos g -> spac_pos h -> gpos (g_shape g) -> gpos (g_shape h) ->
  let reachable := for_conflict (g_for g) (g_for h) = false /\ g_cs g = g_cs h /\
                   exists sg k a, reaches g h sg k a in
  (reachable -> exists r, match_geometry 0 g h = Ok r /\
                 geometry_equal None (ageom_geom (m_geom r) (g_cs g) (g_for g)) h = true) /\
  (~ reachable -> exists e, match_geometry 0 g h = Err e).
Proof. exact match_exact_end_to_end. Qed.
Print Assumptions C09_match_exact_end_to_end.

(* non-vacuity of (10)-(13): oblique source, permuted/flipped/strided/padded target shifted by tol/4 *)
Example C09_match_sound_example :
  orthonormal snd_src /\ spac_pos snd_src /\ spac_pos snd_tgt /\
  exists r, match_geometry (1 # 100000) snd_src snd_tgt = Ok r /\
    geometry_equal None (ageom_geom (m_geom r) 0 (Some 1)) snd_tgt = false /\
    (forall d, ((1 # 100000) * (sel (g_spac snd_tgt) d + sel (g_spac snd_src) (sel (m_perm r) d)) <= 4 # 100000)%Q) /\
    ((1 # 100000) * spac_sum snd_src <= 4 # 100000)%Q /\
    geometry_equal (Some (4 # 100000)%Q) (ageom_geom (m_geom r) 0 (Some 1)) snd_tgt = true /\
    voxel_at (g_shape snd_src) r 0 1 1 = 24 /\ voxel_at (g_shape snd_src) r 2 0 0 = 0.
Proof. exact match_sound_example. Qed.
Print Assumptions C09_match_sound_example.

(* 14. "... or refuses": every refusal between orthonormal geometries is the documented RuntimeError
       (FULL; before fix D104 this was refuted: a stride rounding to 0 escaped as ValueError) *)
Theorem C09_match_refusal_is_runtime_error : forall tol g h e, (0 <= tol)%Q -> (7 * tol < 1)%Q ->
  orthonormal g -> orthonormal h -> gpos (g_shape g) -> gpos (g_shape h) ->
  match_geometry tol g h = Err e -> e = RT.
Proof. exact match_refusal_is_runtime_error. Qed.
Print Assumptions C09_match_refusal_is_runtime_error.

(* without orthonormality of the target the only other outcome is ValueError for two target axes that
   align with the same source axis (permute_spatial_axes rejects the non-permutation) *)
Theorem C09_match_refusal_class : forall tol g h e, gpos (g_shape g) -> gpos (g_shape h) ->
  match_geometry tol g h = Err e ->
  e = RT \/ (e = VE /\ exists sg k, steps_of tol g h = Ok (sg, k) /\ is_perm (p0 sg) (p1 sg) (p2 sg) = false).
Proof. exact match_refusal_class. Qed.
Print Assumptions C09_match_refusal_class.

Example C09_zero_stride_now_refused :
  orthonormal zs_src /\ orthonormal zs_tgt /\ gpos (g_shape zs_src) /\ gpos (g_shape zs_tgt) /\
  match_geometry (1 # 100000) zs_src zs_tgt = Err RT.
Proof. exact zero_stride_now_refused. Qed.
Print Assumptions C09_zero_stride_now_refused.

(* 15. pad options of match_geometry (mode, constant_value): same geometry pipeline ... *)
Theorem C09_match_rs_refines : forall tol g h,
  match_geometry tol g h = bind (match_rs tol g h) (fun pr => Ok (assemble g (fst pr) (snd pr))).
Proof. exact match_rs_refines. Qed.
Print Assumptions C09_match_rs_refines.

(* ... CONSTANT / MINIMUM / MAXIMUM / MEAN / MEDIAN: the source voxel where there is one, else the pad value *)
Theorem C09_voxel_mode_const : forall mode cval g sg rs j0 j1 j2, mode <> PEdge ->
  0 <= j0 < r_size (p0 rs) -> 0 <= j1 < r_size (p1 rs) -> 0 <= j2 < r_size (p2 rs) ->
  voxel_mode_at mode cval g sg rs j0 j1 j2 =
  (if inb (sel (g_shape g) (p0 sg)) (coord rs X0 j0) && inb (sel (g_shape g) (p1 sg)) (coord rs X1 j1) &&
      inb (sel (g_shape g) (p2 sg)) (coord rs X2 j2)
   then inject_Z (src_label (g_shape g) (place sg (coord rs X0 j0) (coord rs X1 j1) (coord rs X2 j2)))
   else pad_value mode (g_shape g) cval).
Proof. exact voxel_mode_const. Qed.
Print Assumptions C09_voxel_mode_const.

Theorem C09_voxel_mode_default : forall g sg rs j0 j1 j2,
  0 <= j0 < r_size (p0 rs) -> 0 <= j1 < r_size (p1 rs) -> 0 <= j2 < r_size (p2 rs) ->
  voxel_mode_at PConst 0 g sg rs j0 j1 j2 = inject_Z (voxel_at (g_shape g) (assemble g sg rs) j0 j1 j2).
Proof. exact voxel_mode_default. Qed.
Print Assumptions C09_voxel_mode_default.

(* ... EDGE: the source voxel nearest along each axis (overlap untouched, never a foreign value) *)
Theorem C09_voxel_mode_edge : forall cval g sg rs j0 j1 j2, gpos (g_shape g) ->
  is_perm (p0 sg) (p1 sg) (p2 sg) = true ->
  0 <= j0 < r_size (p0 rs) -> 0 <= j1 < r_size (p1 rs) -> 0 <= j2 < r_size (p2 rs) ->
  let i := place sg (clampc (sel (g_shape g) (p0 sg)) (coord rs X0 j0))
                    (clampc (sel (g_shape g) (p1 sg)) (coord rs X1 j1))
                    (clampc (sel (g_shape g) (p2 sg)) (coord rs X2 j2)) in
  in_shape (g_shape g) i /\
  voxel_mode_at PEdge cval g sg rs j0 j1 j2 = inject_Z (src_label (g_shape g) i).
Proof. exact voxel_mode_edge. Qed.
Print Assumptions C09_voxel_mode_edge.

(* 16. the transformer agrees with the route through physical space (map_indices_to_reference, then
       map_reference_to_indices), bounds checks included *)
Theorem C09_v2v_agrees_with_physical_route : forall A B shape check pts, ~ (det B == 0)%Q ->
  agree (v2v A B shape false check pts) (ref2idx B shape false check (idx2ref A pts)) /\
  (forall e, v2v A B shape false check pts = Err e -> e = VE /\ check = true) /\
  (forall e, ref2idx B shape false check (idx2ref A pts) = Err e ->
             check = true /\ (e = RT \/ pts = [] /\ e = VE)).
Proof. exact v2v_agrees_with_physical_route. Qed.
Print Assumptions C09_v2v_agrees_with_physical_route.

Theorem C09_v2v_rounded_agrees_with_physical_route : forall A B shape check pts, ~ (det B == 0)%Q ->
  (forall l, v2v A B shape true check pts = Ok l -> ref2idx B shape true check (idx2ref A pts) = Ok l) /\
  (forall e, ref2idx B shape true check (idx2ref A pts) = Err e -> exists e', v2v A B shape true check pts = Err e').
Proof. exact v2v_rounded_agrees_with_physical_route. Qed.
Print Assumptions C09_v2v_rounded_agrees_with_physical_route.

(* ===================================================================================================== *)
(* 17. the dtype of the index array given to VolumeToVolumeTransformer.__call__ (signed / unsigned integers and
       floats of 8..64 bits).  zfits w z: smin w <= z <= smax w (two's complement range of w bits);
       vfits w v: the three ROUNDED coordinates of v fit; round_width dt = the width of dt for SIGNED integer
       inputs and 64 (np.int64) for unsigned and floating inputs.
       (a) astype to the signed output type changes a value iff it does not fit;
       (b) the rounded mapping equals the dtype-independent one (values, acceptance, refusal) whenever the rounded
           indices fit the output type - and only then; for unsigned / floating inputs the output type is int64,
           so negative indices are returned unchanged;
       (c) hence it agrees with the route through physical space for EVERY input dtype;
       (d) unrounded: dtype independent for signed, unsigned (fix D112: the code used to cast the float result to
           the unsigned input type - a point 1.5 voxels before the target came back as 255 and passed check_bounds)
           and floating inputs (rounding to float32 is an oracle premise), hence agrees with the physical route *)
Theorem C09_astype_signed_id_iff : forall w z, wrap_s w z = z <-> smin w <= z <= smax w.
Proof. exact wrap_s_id_iff. Qed.
Print Assumptions C09_astype_signed_id_iff.

Theorem C09_v2v_dtype_rounded_exact : forall dt A B shape check pts,
  Forall (vfits (round_width dt)) (map (phys (v2v_aff A B)) pts) ->
  v2v_dt dt A B shape true check pts = v2v A B shape true check pts.
Proof. exact v2v_dt_rounded_exact. Qed.
Print Assumptions C09_v2v_dtype_rounded_exact.

Theorem C09_v2v_dtype_rounded_exact_iff : forall dt A B shape pts, ~ (det B == 0)%Q ->
  (v2v_dt dt A B shape true false pts = v2v A B shape true false pts <->
   Forall (vfits (round_width dt)) (map (phys (v2v_aff A B)) pts)).
Proof. exact v2v_dt_rounded_exact_iff. Qed.
Print Assumptions C09_v2v_dtype_rounded_exact_iff.

Theorem C09_v2v_dtype_nonint_rounded : forall dt A B shape check pts, input_is_int dt = false ->
  Forall (vfits W64) (map (phys (v2v_aff A B)) pts) ->
  v2v_dt dt A B shape true check pts = v2v A B shape true check pts.
Proof. exact v2v_dt_nonint_rounded. Qed.
Print Assumptions C09_v2v_dtype_nonint_rounded.

Theorem C09_v2v_dtype_unrounded_exact : forall dt A B shape check pts,
  v2v_dt dt A B shape false check pts = v2v A B shape false check pts.
Proof. exact v2v_dt_unrounded_exact. Qed.
Print Assumptions C09_v2v_dtype_unrounded_exact.

Theorem C09_v2v_dtype_rounded_agrees_with_physical_route : forall dt A B shape check pts, ~ (det B == 0)%Q ->
  Forall (vfits (round_width dt)) (map (phys (v2v_aff A B)) pts) ->
  (forall l, v2v_dt dt A B shape true check pts = Ok l -> ref2idx B shape true check (idx2ref A pts) = Ok l) /\
  (forall e, ref2idx B shape true check (idx2ref A pts) = Err e ->
             exists e', v2v_dt dt A B shape true check pts = Err e').
Proof. exact v2v_dt_rounded_agrees_with_physical_route. Qed.
Print Assumptions C09_v2v_dtype_rounded_agrees_with_physical_route.

Theorem C09_v2v_dtype_unrounded_agrees_with_physical_route : forall dt A B shape check pts, ~ (det B == 0)%Q ->
  agree (v2v_dt dt A B shape false check pts) (ref2idx B shape false check (idx2ref A pts)) /\
  (forall e, v2v_dt dt A B shape false check pts = Err e -> e = VE /\ check = true) /\
  (forall e, ref2idx B shape false check (idx2ref A pts) = Err e ->
             check = true /\ (e = RT \/ pts = [] /\ e = VE)).
Proof. exact v2v_dt_unrounded_agrees_with_physical_route. Qed.
Print Assumptions C09_v2v_dtype_unrounded_agrees_with_physical_route.

(* the witness of fixed defect D112 is now refused by the bounds check / returned unchanged without it *)
Example C09_d112_unsigned_unrounded_now_exact :
  ~ (det rf_B == 0)%Q /\
  v2v_dt (DUInt W8) rf_A rf_B (T3 300 10 10) false true [V3 1 2 3] = Err VE /\
  ref2idx rf_B (T3 300 10 10) false true (idx2ref rf_A [V3 1 2 3]) = Err RT /\
  exists l, v2v_dt (DUInt W8) rf_A rf_B (T3 300 10 10) false false [V3 1 2 3] = Ok l /\
            Forall2 veq l [V3 (- (3 # 2)) 2 3].
Proof. exact d112_unsigned_unrounded_now_exact. Qed.
Print Assumptions C09_d112_unsigned_unrounded_now_exact.

(* non-vacuity: a uint8 point lying 4 voxels before the first voxel of a permuted sub-window keeps its negative
   index (-4, not 252), the hypotheses of (b)/(c) hold, and the bounds check refuses it *)
Example C09_v2v_dtype_example :
  let A := geom_aff ex_src in let B := geom_aff ex_tgt in
  ~ (det B == 0)%Q /\
  Forall (vfits (round_width (DUInt W8))) (map (phys (v2v_aff A B)) [V3 2 1 11]) /\
  mismatches [run_v2v_dt (DUInt W8) ex_src ex_tgt true false [V3 2 1 11];
              run_v2v_dt (DUInt W8) ex_src ex_tgt true true [V3 2 1 11]]
             [VL [VL [VL [VL [VZ (-4); VZ 1; VZ 1]]; VZ 164]; VL [VL [VZ (-4); VZ 1; VZ 1]]];
              VL [VErr VE; VErr RT]] = [].
Proof.
  cbv zeta. split; [vm_compute; discriminate|]. split; [|vm_compute; reflexivity].
  constructor; [|constructor]. unfold vfits, zfits. vm_compute. repeat split; discriminate.
Qed.
Print Assumptions C09_v2v_dtype_example.

(* ===================================================================================================== *)
(* 18. index arrays of REDUCED floating point precision (float16 / float32).  fl_round p q = the nearest number
       m * 2^e with |m| < 2^p, ties to even (np.astype(float16 / float32) with p = 11 / 24; exponent range not
       modelled); v2v_fp = the transformer with that cast modelled faithfully (applied in the un-rounded branch
       only, bounds check on the returned values).
       (a) fl_round is a rounding: relative error <= 2^-p, identity on every representable number;
       (b) ROUNDED: the precision of the input never enters - same result for float16 / float32 / float64, equal
           to the dtype-free mapping, hence agreeing with the route through physical space;
       (c) UN-ROUNDED: for every non-float dtype and float64 the dtype-free mapping; for float16 / float32 every
           returned coordinate is the physical route's coordinate rounded to the format (within |x| / 2^p);
       (d) witnesses that "cast to the input precision, THEN round" names another voxel / leaves the array. *)
Theorem C09_fl_round_rel_err : forall p q, (Qabs' (fl_round p q - q) * pow2 p <= Qabs' q)%Q.
Proof. exact fl_round_rel_err. Qed.
Print Assumptions C09_fl_round_rel_err.

Theorem C09_fl_round_representable : forall p m e, Z.abs m < 2 ^ p -> 0 <= p ->
  (fl_round p (inject_Z m * pow2 e) == inject_Z m * pow2 e)%Q.
Proof. exact fl_round_representable. Qed.
Print Assumptions C09_fl_round_representable.

Theorem C09_v2v_fp_rounded_exact : forall dt A B shape check pts,
  Forall (vfits (round_width dt)) (map (phys (v2v_aff A B)) pts) ->
  v2v_fp dt A B shape true check pts = v2v A B shape true check pts.
Proof. exact v2v_fp_rounded_exact. Qed.
Print Assumptions C09_v2v_fp_rounded_exact.

Theorem C09_v2v_fp_rounded_width_irrelevant : forall w w' A B shape check pts,
  v2v_fp (DFloat w) A B shape true check pts = v2v_fp (DFloat w') A B shape true check pts.
Proof. exact v2v_fp_rounded_width_irrelevant. Qed.
Print Assumptions C09_v2v_fp_rounded_width_irrelevant.

Theorem C09_v2v_fp_rounded_agrees_with_physical_route : forall dt A B shape check pts, ~ (det B == 0)%Q ->
  Forall (vfits (round_width dt)) (map (phys (v2v_aff A B)) pts) ->
  (forall l, v2v_fp dt A B shape true check pts = Ok l -> ref2idx B shape true check (idx2ref A pts) = Ok l) /\
  (forall e, ref2idx B shape true check (idx2ref A pts) = Err e ->
             exists e', v2v_fp dt A B shape true check pts = Err e').
Proof. exact v2v_fp_rounded_agrees_with_physical_route. Qed.
Print Assumptions C09_v2v_fp_rounded_agrees_with_physical_route.

Theorem C09_v2v_fp_unrounded_full_precision : forall dt A B shape check pts, is_lowprec dt = false ->
  v2v_fp dt A B shape false check pts = v2v A B shape false check pts.
Proof. exact v2v_fp_unrounded_full_precision. Qed.
Print Assumptions C09_v2v_fp_unrounded_full_precision.

Theorem C09_v2v_fp_unrounded_values : forall w A B shape pts l,
  v2v A B shape false false pts = Ok l ->
  v2v_fp (DFloat w) A B shape false false pts = Ok (map (to_float_fp w) l).
Proof. exact v2v_fp_unrounded_values. Qed.
Print Assumptions C09_v2v_fp_unrounded_values.

Theorem C09_v2v_fp_unrounded_close_to_physical_route : forall w A B shape pts l, ~ (det B == 0)%Q ->
  v2v_fp (DFloat w) A B shape false false pts = Ok l ->
  exists l', ref2idx B shape false false (idx2ref A pts) = Ok l' /\
             exists l0, Forall2 veq l0 l' /\ Forall2 (vrel_close (fbits w)) l l0.
Proof. exact v2v_fp_unrounded_close_to_physical_route. Qed.
Print Assumptions C09_v2v_fp_unrounded_close_to_physical_route.

(* the order the code must not use: float32 65601.497 -> 65601.5 -> 65602, 65600.503 -> 65600.5 -> 65600;
   float16 512.7 -> 512.5 -> 512, 715.3 -> 715.5 -> 716 (outside an axis of 716 voxels) *)
Example C09_cast_then_round_differs :
  rne (65601497 # 1000) = 65601 /\ cast_then_round W32 (65601497 # 1000) = 65602 /\
  rne (65600503 # 1000) = 65601 /\ cast_then_round W32 (65600503 # 1000) = 65600 /\
  rne (5127 # 10) = 513 /\ cast_then_round W16 (5127 # 10) = 512 /\
  rne (7153 # 10) = 715 /\ cast_then_round W16 (7153 # 10) = 716.
Proof. exact cast_then_round_differs. Qed.
Print Assumptions C09_cast_then_round_differs.

(* non-vacuity: a float point 4100 on a pyramid level, base level 16 x finer and shifted by 1.497 px: the rounded
   mapping names voxel 65601 for every float width (hypotheses of (b) hold), the un-rounded float32 mapping
   returns 65601.5 = the float32 nearest to 65601.497 *)
Example C09_v2v_fp_example :
  ~ (det fp_B == 0)%Q /\
  Forall (vfits W64) (map (phys (v2v_aff fp_A fp_B)) [V3 4100 0 0]) /\
  (forall w, exists l, v2v_fp (DFloat w) fp_A fp_B (T3 131072 1 1) true true [V3 4100 0 0] = Ok l /\
                       Forall2 veq l [V3 65601 0 0]) /\
  exists l, v2v_fp (DFloat W32) fp_A fp_B (T3 131072 1 1) false true [V3 4100 0 0] = Ok l /\
            Forall2 veq l [V3 (131203 # 2) 0 0].
Proof. exact fp_example. Qed.
Print Assumptions C09_v2v_fp_example.
