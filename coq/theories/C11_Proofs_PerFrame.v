(* C11 - frames of a multi-frame image whose orientation / pixel spacing / spacing hint are stored PER FRAME:
   _get_shared_frame_value demands ONE distinct value.  A geometry is reported / a volume assembled only for
   frames that all carry the same orientation, pixel spacing and spacing hint, and then it is the geometry of
   the frame positions under that orientation and hint (so every theorem about multiframe_geometry /
   channel_volume applies); frames that disagree are never a stack, wherever the foreign frame sits in the
   frame table; per-frame values that agree behave exactly like shared values; the verdict "consistent" does
   not depend on the order of the frames. *)
From Coq Require Import String ZArith List Bool QArith Lia Permutation.
From HD Require Import Base.Val C11_Model C11_Proofs_Geom.
Import ListNotations.
Open Scope Q_scope.

(* ---- the three comparisons are equivalences --------------------------------------------------------- *)
Lemma Qeqb_refl x : Qeq_bool x x = true.
Proof. apply Qeq_bool_iff. reflexivity. Qed.
Lemma Qeqb_sym x y : Qeq_bool x y = true -> Qeq_bool y x = true.
Proof. intro H. apply Qeq_bool_iff. symmetry. now apply Qeq_bool_iff. Qed.
Lemma Qeqb_trans x y z : Qeq_bool x y = true -> Qeq_bool y z = true -> Qeq_bool x z = true.
Proof. intros H1 H2. apply Qeq_bool_iff. transitivity y; now apply Qeq_bool_iff. Qed.

Lemma veqb_refl' v : veqb v v = true.
Proof. unfold veqb. now rewrite !Qeqb_refl. Qed.
Lemma veqb_sym' a b : veqb a b = true -> veqb b a = true.
Proof.
  unfold veqb. intro H. apply andb_prop in H as [H H3]. apply andb_prop in H as [H1 H2].
  now rewrite (Qeqb_sym _ _ H1), (Qeqb_sym _ _ H2), (Qeqb_sym _ _ H3).
Qed.
Lemma veqb_trans' a b c : veqb a b = true -> veqb b c = true -> veqb a c = true.
Proof.
  unfold veqb. intros H G. apply andb_prop in H as [H H3]. apply andb_prop in H as [H1 H2].
  apply andb_prop in G as [G G3]. apply andb_prop in G as [G1 G2].
  now rewrite (Qeqb_trans _ _ _ H1 G1), (Qeqb_trans _ _ _ H2 G2), (Qeqb_trans _ _ _ H3 G3).
Qed.

Lemma oq_eqb_refl a : oq_eqb a a = true.
Proof. destruct a; cbn; [apply Qeqb_refl|reflexivity]. Qed.
Lemma oq_eqb_sym a b : oq_eqb a b = true -> oq_eqb b a = true.
Proof. destruct a, b; cbn; try discriminate; auto using Qeqb_sym. Qed.
Lemma oq_eqb_trans a b c : oq_eqb a b = true -> oq_eqb b c = true -> oq_eqb a c = true.
Proof. destruct a, b, c; cbn; try discriminate; eauto using Qeqb_trans. Qed.

Record equivb (eqb : frame_attrs -> frame_attrs -> bool) : Prop := mkEquivb {
  eb_refl : forall a, eqb a a = true;
  eb_sym : forall a b, eqb a b = true -> eqb b a = true;
  eb_trans : forall a b c, eqb a b = true -> eqb b c = true -> eqb a c = true }.

Lemma orient_equivb : equivb orient_eqb.
Proof.
  split; unfold orient_eqb.
  - intro a. now rewrite !veqb_refl'.
  - intros a b H. apply andb_prop in H as [H1 H2]. now rewrite (veqb_sym' _ _ H1), (veqb_sym' _ _ H2).
  - intros a b c H G. apply andb_prop in H as [H1 H2]. apply andb_prop in G as [G1 G2].
    now rewrite (veqb_trans' _ _ _ H1 G1), (veqb_trans' _ _ _ H2 G2).
Qed.
Lemma px_equivb : equivb px_eqb.
Proof.
  split; unfold px_eqb.
  - intro a. now rewrite !Qeqb_refl.
  - intros a b H. apply andb_prop in H as [H1 H2]. now rewrite (Qeqb_sym _ _ H1), (Qeqb_sym _ _ H2).
  - intros a b c H G. apply andb_prop in H as [H1 H2]. apply andb_prop in G as [G1 G2].
    now rewrite (Qeqb_trans _ _ _ H1 G1), (Qeqb_trans _ _ _ H2 G2).
Qed.
Lemma sbs_equivb : equivb sbs_eqb.
Proof.
  split; unfold sbs_eqb.
  - intro a. apply oq_eqb_refl.
  - intros a b. apply oq_eqb_sym.
  - intros a b c. apply oq_eqb_trans.
Qed.

(* ---- shared_frame: Ok iff all frames pairwise agree ----------------------------------------------------- *)
Definition all_agree (eqb : frame_attrs -> frame_attrs -> bool) (frames : list frame_attrs) : Prop :=
  forall a b, In a frames -> In b frames -> eqb a b = true.

Lemma shared_frame_err eqb frames k : shared_frame eqb frames = Err k -> k = "RuntimeError"%string.
Proof.
  unfold shared_frame. destruct frames as [|f rest]; [now intros [= <-]|].
  destruct (forallb (eqb f) rest); [discriminate|now intros [= <-]].
Qed.

Lemma shared_frame_ok_iff eqb frames : equivb eqb ->
  ((exists f, shared_frame eqb frames = Ok f) <-> (frames <> [] /\ all_agree eqb frames)).
Proof.
  intros [R S T]. unfold shared_frame, all_agree. destruct frames as [|f rest].
  - split; [intros [f H]; discriminate|intros [H _]; now elim H].
  - destruct (forallb (eqb f) rest) eqn:E.
    + split; [|intros _; now exists f]. intros _. split; [discriminate|].
      rewrite forallb_forall in E.
      assert (A : forall x, In x (f :: rest) -> eqb f x = true).
      { intros x [<-|Hx]; [apply R|now apply E]. }
      intros a b Ha Hb. apply (T a f b); [apply S; now apply A|now apply A].
    + split; [intros [g H]; discriminate|]. intros [_ H]. exfalso.
      assert (forallb (eqb f) rest = true); [|congruence].
      apply forallb_forall. intros x Hx. apply H; [now left|now right].
Qed.

Lemma shared_frame_head eqb f rest g : shared_frame eqb (f :: rest) = Ok g -> g = f.
Proof. unfold shared_frame. destruct (forallb (eqb f) rest); [now intros [= <-]|discriminate]. Qed.

(* ---- shared_attrs ----------------------------------------------------------------------------------------- *)
Definition attrs_eqb (a b : frame_attrs) : bool := orient_eqb a b && px_eqb a b && sbs_eqb a b.
(* every two frames carry the same orientation, pixel spacing and spacing hint (float equality) *)
Definition consistent (frames : list frame_attrs) : Prop := all_agree attrs_eqb frames.

Lemma consistent_split frames :
  consistent frames <-> (all_agree orient_eqb frames /\ all_agree px_eqb frames /\ all_agree sbs_eqb frames).
Proof.
  unfold consistent, all_agree, attrs_eqb. split.
  - intro H. repeat split; intros a b Ha Hb; specialize (H a b Ha Hb);
      apply andb_prop in H as [H H3]; apply andb_prop in H as [H1 H2]; assumption.
  - intros (H1 & H2 & H3) a b Ha Hb. now rewrite H1, H2, H3.
Qed.

Lemma shared_attrs_err frames k : shared_attrs frames = Err k -> k = "RuntimeError"%string.
Proof.
  unfold shared_attrs.
  destruct (shared_frame orient_eqb frames) eqn:E1; [|intros [= <-]; eapply shared_frame_err; eassumption].
  destruct (shared_frame px_eqb frames) eqn:E2; [|intros [= <-]; eapply shared_frame_err; eassumption].
  destruct (shared_frame sbs_eqb frames) eqn:E3; [discriminate|intros [= <-]; eapply shared_frame_err; eassumption].
Qed.

Lemma shared_attrs_ok_iff frames :
  (exists a, shared_attrs frames = Ok a) <-> (frames <> [] /\ consistent frames).
Proof.
  rewrite consistent_split. unfold shared_attrs.
  pose proof (shared_frame_ok_iff orient_eqb frames orient_equivb) as O.
  pose proof (shared_frame_ok_iff px_eqb frames px_equivb) as P.
  pose proof (shared_frame_ok_iff sbs_eqb frames sbs_equivb) as S.
  split.
  - intros [a H].
    destruct (shared_frame orient_eqb frames) as [fo|] eqn:E1; [|discriminate].
    destruct (shared_frame px_eqb frames) as [fp|] eqn:E2; [|discriminate].
    destruct (shared_frame sbs_eqb frames) as [fs|] eqn:E3; [|discriminate].
    destruct (proj1 O (ex_intro _ fo eq_refl)) as [N AO].
    destruct (proj1 P (ex_intro _ fp eq_refl)) as [_ AP].
    destruct (proj1 S (ex_intro _ fs eq_refl)) as [_ AS].
    repeat split; assumption.
  - intros (N & AO & AP & AS).
    destruct (proj2 O (conj N AO)) as [fo ->]. destruct (proj2 P (conj N AP)) as [fp ->].
    destruct (proj2 S (conj N AS)) as [fs ->]. eexists. reflexivity.
Qed.

(* the shared values are those of the first frame of the table *)
Lemma shared_attrs_head f rest a : shared_attrs (f :: rest) = Ok a ->
  a = mkShared (fa_rowc f) (fa_colc f) (fa_px0 f) (fa_px1 f) (fa_sbs f).
Proof.
  unfold shared_attrs.
  destruct (shared_frame orient_eqb (f :: rest)) as [fo|] eqn:E1; [|discriminate].
  destruct (shared_frame px_eqb (f :: rest)) as [fp|] eqn:E2; [|discriminate].
  destruct (shared_frame sbs_eqb (f :: rest)) as [fs|] eqn:E3; [|discriminate].
  apply shared_frame_head in E1, E2, E3. subst. now intros [= <-].
Qed.

(* two frames that disagree: no shared values *)
Lemma shared_attrs_inconsistent frames a b :
  In a frames -> In b frames -> attrs_eqb a b = false -> shared_attrs frames = Err "RuntimeError"%string.
Proof.
  intros Ha Hb D. destruct (shared_attrs frames) as [s|k] eqn:E.
  - exfalso. destruct (proj1 (shared_attrs_ok_iff frames) (ex_intro _ s E)) as [_ C].
    specialize (C a b Ha Hb). congruence.
  - now rewrite (shared_attrs_err _ _ E).
Qed.

(* the verdict does not depend on the order of the frames *)
Lemma consistent_perm frames frames2 : Permutation frames frames2 -> consistent frames -> consistent frames2.
Proof.
  intros P C a b Ha Hb. apply C; eapply Permutation_in; try eassumption; now symmetry.
Qed.

Lemma shared_attrs_order_free frames frames2 : Permutation frames frames2 ->
  ((exists a, shared_attrs frames = Ok a) <-> (exists a, shared_attrs frames2 = Ok a)).
Proof.
  intro P. rewrite !shared_attrs_ok_iff. split; intros [N C]; split.
  - intro E. subst frames2. apply Permutation_sym, Permutation_nil in P. contradiction.
  - eapply consistent_perm; eassumption.
  - intro E. subst frames. apply Permutation_nil in P. contradiction.
  - eapply consistent_perm; [symmetry|]; eassumption.
Qed.

(* ---- geometry / volume of frames with per-frame attributes ------------------------------------------------ *)
(* frames that disagree about orientation, pixel spacing or spacing hint are never a stack: no geometry, no
   volume - whatever the positions, tolerances and declarations, wherever the two frames sit in the table *)
Lemma perframe_inconsistent_refused frames a b chans outch rtol atol seg om od :
  In a frames -> In b frames -> attrs_eqb a b = false ->
  perframe_geometry frames rtol atol seg om od = Ok None /\
  perframe_volume chans outch frames rtol atol seg om = Err "RuntimeError"%string.
Proof.
  intros Ha Hb D. pose proof (shared_attrs_inconsistent frames a b Ha Hb D) as E.
  unfold perframe_geometry, perframe_volume. rewrite E. split; [reflexivity|].
  destruct (negb (pairs_unique _)); reflexivity.
Qed.

(* soundness of a reported geometry: the frames all agree, the shared values are those of the first frame
   and the geometry is the one of the positions under that orientation and hint *)
Lemma perframe_geometry_sound frames rtol atol seg om od g s :
  perframe_geometry frames rtol atol seg om od = Ok (Some (g, s)) ->
  consistent frames /\
  (exists f rest, frames = f :: rest /\
     s = mkShared (fa_rowc f) (fa_colc f) (fa_px0 f) (fa_px1 f) (fa_sbs f)) /\
  multiframe_geometry (map fa_pos frames) (sh_rowc s) (sh_colc s) (sh_sbs s) rtol atol seg om od = Ok (Some g).
Proof.
  unfold perframe_geometry. destruct (shared_attrs frames) as [a|k] eqn:E.
  - destruct (multiframe_geometry _ _ _ _ _ _ _ _ _) as [[g'|]|k] eqn:G; try discriminate.
    intros [= <- <-]. destruct (proj1 (shared_attrs_ok_iff frames) (ex_intro _ a E)) as [N C].
    split; [exact C|]. split; [|exact G].
    destruct frames as [|f rest]; [now elim N|]. exists f, rest. split; [reflexivity|].
    now apply shared_attrs_head with rest.
  - destruct (String.eqb k "RuntimeError"); discriminate.
Qed.

Lemma perframe_volume_sound chans outch frames rtol atol seg om g slots s :
  perframe_volume chans outch frames rtol atol seg om = Ok (g, slots, s) ->
  consistent frames /\
  channel_volume chans outch (map fa_pos frames) (sh_rowc s) (sh_colc s) (sh_sbs s) rtol atol seg om = Ok (g, slots).
Proof.
  unfold perframe_volume. destruct (negb (pairs_unique _)); [discriminate|].
  destruct (shared_attrs frames) as [a|k] eqn:E; [|discriminate].
  destruct (channel_volume _ _ _ _ _ _ _ _ _ _) as [[g' sl]|k] eqn:G; [|discriminate].
  intros [= <- <- <-]. split; [|exact G].
  exact (proj2 (proj1 (shared_attrs_ok_iff frames) (ex_intro _ a E))).
Qed.

(* per-frame values that all agree (Leibniz) behave exactly like shared values *)
Definition uniform (s : shared_t) (frames : list frame_attrs) : Prop :=
  forall f, In f frames ->
    fa_rowc f = sh_rowc s /\ fa_colc f = sh_colc s /\ fa_px0 f = sh_px0 s /\ fa_px1 f = sh_px1 s /\
    fa_sbs f = sh_sbs s.

Lemma uniform_shared s frames : frames <> [] -> uniform s frames -> shared_attrs frames = Ok s.
Proof.
  intros N U. destruct frames as [|f rest]; [now elim N|].
  assert (A : forall eqb, equivb eqb ->
              (forall x y, In x (f :: rest) -> In y (f :: rest) -> eqb x y = true) ->
              shared_frame eqb (f :: rest) = Ok f).
  { intros eqb Q H. destruct (proj2 (shared_frame_ok_iff eqb (f :: rest) Q) (conj N H)) as [g Hg].
    now rewrite Hg, (shared_frame_head _ _ _ _ Hg). }
  assert (P : forall x y, In x (f :: rest) -> In y (f :: rest) ->
              fa_rowc x = fa_rowc y /\ fa_colc x = fa_colc y /\ fa_px0 x = fa_px0 y /\ fa_px1 x = fa_px1 y /\
              fa_sbs x = fa_sbs y).
  { intros x y Hx Hy. destruct (U x Hx) as (-> & -> & -> & -> & ->).
    destruct (U y Hy) as (-> & -> & -> & -> & ->). repeat split. }
  unfold shared_attrs.
  rewrite (A orient_eqb orient_equivb), (A px_eqb px_equivb), (A sbs_eqb sbs_equivb).
  - destruct (U f (or_introl eq_refl)) as (-> & -> & -> & -> & ->). now destruct s.
  - intros x y Hx Hy. destruct (P x y Hx Hy) as (_ & _ & _ & _ & E). unfold sbs_eqb. rewrite E. apply oq_eqb_refl.
  - intros x y Hx Hy. destruct (P x y Hx Hy) as (_ & _ & E0 & E1 & _). unfold px_eqb. rewrite E0, E1.
    now rewrite !Qeqb_refl.
  - intros x y Hx Hy. destruct (P x y Hx Hy) as (E0 & E1 & _). unfold orient_eqb. rewrite E0, E1.
    now rewrite !veqb_refl'.
Qed.

Definition with_shared (s : shared_t) (r : res (option geom)) : res (option (geom * shared_t)) :=
  match r with Err k => Err k | Ok None => Ok None | Ok (Some g) => Ok (Some (g, s)) end.
Definition geometry_only (r : res (option (geom * shared_t))) : res (option geom) :=
  match r with Err k => Err k | Ok None => Ok None | Ok (Some (g, _)) => Ok (Some g) end.

Lemma perframe_uniform s frames rtol atol seg om od : frames <> [] -> uniform s frames ->
  perframe_geometry frames rtol atol seg om od =
  with_shared s (multiframe_geometry (map fa_pos frames) (sh_rowc s) (sh_colc s) (sh_sbs s) rtol atol seg om od).
Proof.
  intros N U. unfold perframe_geometry. rewrite (uniform_shared s frames N U).
  destruct (multiframe_geometry _ _ _ _ _ _ _ _ _) as [[g|]|k]; reflexivity.
Qed.

Lemma perframe_volume_uniform s chans outch frames rtol atol seg om : frames <> [] -> uniform s frames ->
  perframe_volume chans outch frames rtol atol seg om =
  match channel_volume chans outch (map fa_pos frames) (sh_rowc s) (sh_colc s) (sh_sbs s) rtol atol seg om with
  | Err k => Err k
  | Ok (g, slots) => Ok (g, slots, s)
  end.
Proof.
  intros N U. unfold perframe_volume. rewrite (uniform_shared s frames N U).
  destruct (negb (pairs_unique _)) eqn:E; [|reflexivity].
  unfold channel_volume. now rewrite E.
Qed.

(* order_invariant for the frames of such an object: frames that agree (Leibniz) or that contain two frames
   which disagree give, in any order of the frame table, the same verdict / number of slices / spacing /
   slice axis, with origins at index 0 of the common assignment (same_geometry of C11_Proofs_Geom) *)
Lemma uniform_perm s frames frames2 : Permutation frames frames2 -> uniform s frames -> uniform s frames2.
Proof. intros P U f Hf. apply U. eapply Permutation_in; [symmetry|]; eassumption. Qed.

Lemma geometry_only_with_shared s r : geometry_only (with_shared s r) = r.
Proof. destruct r as [[g|]|k]; reflexivity. Qed.

Lemma perframe_order_invariant frames frames2 rtol atol seg om od :
  Permutation frames frames2 ->
  ((exists s, uniform s frames) \/ (exists a b, In a frames /\ In b frames /\ attrs_eqb a b = false)) ->
  exists f,
    same_geometry f (map fa_pos frames) (map fa_pos frames2)
      (geometry_only (perframe_geometry frames rtol atol seg om od))
      (geometry_only (perframe_geometry frames2 rtol atol seg om od)).
Proof.
  intros P [[s U]|(a & b & Ha & Hb & D)].
  - destruct frames as [|f0 rest].
    + apply Permutation_nil in P. subst frames2. exists (fun _ => 0%Z). cbn. reflexivity.
    + assert (N : f0 :: rest <> []) by discriminate.
      assert (N2 : frames2 <> []).
      { intro E. subst frames2. apply Permutation_sym, Permutation_nil in P. discriminate. }
      rewrite (perframe_uniform s _ rtol atol seg om od N U).
      rewrite (perframe_uniform s _ rtol atol seg om od N2 (uniform_perm _ _ _ P U)).
      rewrite !geometry_only_with_shared.
      destruct (geometry_order_invariant_all (map fa_pos (f0 :: rest)) (map fa_pos frames2) (sh_rowc s) (sh_colc s)
                  (sh_sbs s) rtol atol seg om od (Permutation_map fa_pos P)) as [f [H _]].
      exists f. exact H.
  - exists (fun _ => 0%Z).
    destruct (perframe_inconsistent_refused frames a b [] [] rtol atol seg om od Ha Hb D) as [-> _].
    destruct (perframe_inconsistent_refused frames2 a b [] [] rtol atol seg om od) as [-> _]; try assumption.
    + eapply Permutation_in; eassumption.
    + eapply Permutation_in; eassumption.
    + exact I.
Qed.
