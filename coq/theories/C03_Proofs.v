(* C03 - proofs, part 1: integer standardisers, sub-region placement, pyramid. *)
From Coq Require Import String ZArith List Bool Lia ZifyBool QArith Qround Qfield Lqa.
From HD Require Import Base.Val Base.PySlice C03_Model.
Import ListNotations.
Ltac Zify.zify_post_hook ::= Z.to_euclidean_division_equations.
Open Scope Z_scope.

(* destruct the innermost [if] conditions of the goal first *)
Ltac case_if :=
  match goal with
  | |- context[if ?c then _ else _] =>
      lazymatch c with
      | context[if _ then _ else _] => fail
      | _ => destruct c eqn:?
      end
  end.
Ltac case_ifs := rewrite ?Z.ltb_irrefl; repeat case_if.
Ltac tup4 := repeat (first [lia | f_equal]).

(* ---------------------------------------------------------------------- *)
(* documented meaning of the sub-volume arguments (independent one-liners) *)
(* ---------------------------------------------------------------------- *)
(* zero-based meaning of one bound; None = outside the documented range.
   start: first element, end: one beyond the last element.
   1-based numbers (as_idx = false): k >= 1 means element k; negative values
   count from the end like Python; 0 is not a number.  0-based (as_idx = true):
   Python indices. *)
Definition doc_bound (as_idx is_end : bool) (n : Z) (x : option Z) : option Z :=
  match x with
  | None => Some (if is_end then n else 0)
  | Some v =>
      let hi := if is_end then n else n - 1 in
      if v <? 0 then (if - n <=? v then Some (n + v) else None)
      else if as_idx then (if v <=? hi then Some v else None)
      else if v =? 0 then None
      else if v - 1 <=? hi then Some (v - 1) else None
  end.

Lemma doc_bound_range : forall ai ie n x v, 1 <= n -> doc_bound ai ie n x = Some v ->
  0 <= v <= (if ie then n else n - 1).
Proof.
  intros ai ie n [x|] v Hn; unfold doc_bound; cbn [doc_bound].
  - destruct (x <? 0) eqn:E1.
    + destruct (- n <=? x) eqn:E2; [|discriminate]. intros [= <-]. destruct ie; lia.
    + destruct ai.
      * destruct (x <=? (if ie then n else n - 1)) eqn:E3; [|discriminate]. intros [= <-]. destruct ie; lia.
      * destruct (x =? 0) eqn:E4; [discriminate|].
        destruct (x - 1 <=? (if ie then n else n - 1)) eqn:E3; [|discriminate]. intros [= <-]. destruct ie; lia.
  - intros [= <-]. destruct ie; lia.
Qed.

(* --- _standardize_slice_indices ---------------------------------------- *)
Lemma std_slice_documented : forall ss se n ai s e, 1 <= n ->
  doc_bound ai false n ss = Some s -> doc_bound ai true n se = Some e ->
  std_slice ss se n ai = if s <? e then Ok (s, e) else Err "ValueError"%string.
Proof.
  intros ss se n ai s e Hn Hs He. unfold std_slice, doc_bound, conv1, bind in *.
  rewrite ?Z.ltb_irrefl.
  destruct ai; destruct ss as [a|]; destruct se as [b|];
    repeat match type of Hs with context[if ?c then _ else _] => destruct c eqn:? end;
    repeat match type of He with context[if ?c then _ else _] => destruct c eqn:? end;
    try discriminate; injection Hs as <-; injection He as <-;
    case_ifs; try reflexivity; try lia; try (f_equal; f_equal; lia).
Qed.

(* whatever is accepted: the end is a valid exclusive end, the region is
   non-empty, and the bounds are the Python meaning of the arguments *)
Definition conv_val (ai : bool) (v : Z) : Z := if ai then v else if 0 <? v then v - 1 else v.
Definition norm_start (ai : bool) (n : Z) (x : option Z) : Z :=
  match x with None => 0 | Some v => let w := conv_val ai v in if w <? 0 then n + w else w end.
Definition norm_end (ai : bool) (n : Z) (x : option Z) : Z :=
  match x with None => n | Some v => let w := conv_val ai v in if w <? 0 then n + w else w end.
Definition zero_ok (ai : bool) (x : option Z) : bool :=
  match x with Some v => ai || negb (v =? 0) | None => true end.
Definition end_in_range (ai : bool) (n : Z) (x : option Z) : bool :=
  match x with Some v => let w := conv_val ai v in (- n <=? w) && (w <=? n) | None => true end.

Lemma std_slice_ok_iff : forall ss se n ai s e,
  std_slice ss se n ai = Ok (s, e) <->
  (zero_ok ai ss = true /\ zero_ok ai se = true /\ end_in_range ai n se = true /\
   s = norm_start ai n ss /\ e = norm_end ai n se /\ s < e).
Proof.
  intros ss se n ai s e. unfold std_slice, conv1, bind, zero_ok, end_in_range, norm_start, norm_end, conv_val.
  rewrite ?Z.ltb_irrefl.
  destruct ai; destruct ss as [a|]; destruct se as [b|]; cbn [orb negb];
    case_ifs;
    split; intros H; try discriminate; try (injection H as <- <-); try lia;
    try (destruct H as (H1 & H2 & H3 & -> & -> & H6)); try discriminate; try lia;
    try (repeat split; try reflexivity; lia); try (f_equal; f_equal; lia).
Qed.

Lemma std_slice_ok_bounds : forall ss se n ai s e, 1 <= n ->
  std_slice ss se n ai = Ok (s, e) -> s < e <= n /\ (0 <= s \/ doc_bound ai false n ss = None).
Proof.
  intros ss se n ai s e Hn H. apply std_slice_ok_iff in H as (H1 & H2 & H3 & -> & -> & H6).
  unfold zero_ok, end_in_range, norm_start, norm_end, conv_val, doc_bound in *.
  destruct ai; destruct ss as [a|]; destruct se as [b|]; cbn [orb negb] in *;
    repeat match goal with |- context[if ?c then _ else _] => destruct c eqn:? end;
    repeat match goal with H : context[if ?c then _ else _] |- _ => destruct c eqn:? end;
    try discriminate; try lia; try (split; [lia|]; try (right; reflexivity); left; lia).
Qed.

(* the one accepted-but-undocumented family: a start below -n (returned negative) *)
Lemma std_slice_negative_start_refuted :
  exists ss se n ai s e, std_slice ss se n ai = Ok (s, e) /\ s < 0.
Proof. exists (Some (-4)), None, 3, false, (-1), 3. split; [vm_compute; reflexivity|lia]. Qed.

(* --- _standardize_row_column_indices ----------------------------------- *)
Definition start_ok (ai : bool) (n : Z) (x : option Z) : bool :=
  match x with
  | None => true
  | Some v => if ai then (- n <=? v) && (v <=? n - 1) else negb (v =? 0) && (- n <=? v) && (v <=? n)
  end.
(* (a 1-based end of 0 is refused like a 1-based start of 0 - fix D100; before, it was let
   through and meant "all but the last", like -1) *)
Definition end_ok (ai : bool) (n : Z) (x : option Z) : bool :=
  match x with
  | None => true
  | Some v => if ai then (- n <=? v) && (v <=? n) else negb (v =? 0) && (- n <=? v) && (v <=? n + 1)
  end.
Definition rc_start (ai : bool) (n : Z) (x : option Z) : Z :=
  match x with None => 0 | Some v => if v <? 0 then n + v else if ai then v else v - 1 end.
Definition rc_end (ai : bool) (n : Z) (x : option Z) : Z :=
  match x with None => n | Some v => if v <? 0 then n + v else if ai then v else v - 1 end.

(* the chain of tests of the code on the four 1-based values *)
Definition one_start (ai : bool) (x : option Z) : Z :=
  match to_one_based ai x with Some v => v | None => 1 end.
Definition one_end (ai : bool) (n : Z) (x : option Z) : Z :=
  match to_one_based ai x with Some v => v | None => n + 1 end.
Definition norm1 (n v : Z) : Z := if v <? 0 then n + v + 1 else v.

Lemma std_rc_chain : forall rs re cs ce rows cols ai oi r,
  std_rc rs re cs ce rows cols ai oi = Ok r <->
  (let rs1 := one_start ai rs in let re1 := one_end ai rows re in
   let cs1 := one_start ai cs in let ce1 := one_end ai cols ce in
   (rs1 <> 0 /\ - rows <= rs1 <= rows) /\ (re1 <> 0 /\ - rows <= re1 <= rows + 1) /\
   (cs1 <> 0 /\ - cols <= cs1 <= cols) /\ (ce1 <> 0 /\ - cols <= ce1 <= cols + 1) /\
   let o := if oi then 1 else 0 in
   r = (norm1 rows rs1 - o, norm1 rows re1 - o, norm1 cols cs1 - o, norm1 cols ce1 - o)).
Proof.
  intros rs re cs ce rows cols ai oi r. unfold std_rc.
  fold (one_start ai rs) (one_end ai rows re) (one_start ai cs) (one_end ai cols ce).
  generalize (one_start ai rs) (one_end ai rows re) (one_start ai cs) (one_end ai cols ce).
  intros a b c d. cbv zeta. unfold norm1.
  destruct ((c =? 0) || (a =? 0)) eqn:E0; [split; [discriminate|lia]|].
  destruct ((d =? 0) || (b =? 0)) eqn:E0'; [split; [discriminate|lia]|].
  destruct (rows <? a) eqn:E1; [split; [discriminate|lia]|].
  destruct (a <? 0) eqn:Ea.
  - destruct (rows + a + 1 <? 1) eqn:E2; [split; [discriminate|lia]|].
    destruct (rows + 1 <? b) eqn:E3; [split; [discriminate|lia]|].
    destruct (b <? 0) eqn:Eb; cbn [andb].
    + destruct (rows + b + 1 <? 1) eqn:E4; [split; [discriminate|lia]|].
      destruct (cols <? c) eqn:E5; [split; [discriminate|lia]|].
      destruct (c <? 0) eqn:Ec.
      * destruct (cols + c + 1 <? 1) eqn:E6; [split; [discriminate|lia]|].
        destruct (cols + 1 <? d) eqn:E7; [split; [discriminate|lia]|].
        destruct (d <? 0) eqn:Ed; cbn [andb];
          [destruct (cols + d + 1 <? 1) eqn:E8; [split; [discriminate|lia]|]|];
          destruct oi; (split; [intros [= <-]; repeat split; try lia; tup4
                              | intros (_ & _ & _ & _ & ->); tup4]).
      * destruct (c <? 1) eqn:E6; [split; [discriminate|lia]|].
        destruct (cols + 1 <? d) eqn:E7; [split; [discriminate|lia]|].
        destruct (d <? 0) eqn:Ed; cbn [andb];
          [destruct (cols + d + 1 <? 1) eqn:E8; [split; [discriminate|lia]|]|];
          destruct oi; (split; [intros [= <-]; repeat split; try lia; tup4
                              | intros (_ & _ & _ & _ & ->); tup4]).
    + destruct (cols <? c) eqn:E5; [split; [discriminate|lia]|].
      destruct (c <? 0) eqn:Ec.
      * destruct (cols + c + 1 <? 1) eqn:E6; [split; [discriminate|lia]|].
        destruct (cols + 1 <? d) eqn:E7; [split; [discriminate|lia]|].
        destruct (d <? 0) eqn:Ed; cbn [andb];
          [destruct (cols + d + 1 <? 1) eqn:E8; [split; [discriminate|lia]|]|];
          destruct oi; (split; [intros [= <-]; repeat split; try lia; tup4
                              | intros (_ & _ & _ & _ & ->); tup4]).
      * destruct (c <? 1) eqn:E6; [split; [discriminate|lia]|].
        destruct (cols + 1 <? d) eqn:E7; [split; [discriminate|lia]|].
        destruct (d <? 0) eqn:Ed; cbn [andb];
          [destruct (cols + d + 1 <? 1) eqn:E8; [split; [discriminate|lia]|]|];
          destruct oi; (split; [intros [= <-]; repeat split; try lia; tup4
                              | intros (_ & _ & _ & _ & ->); tup4]).
  - destruct (a <? 1) eqn:E2; [split; [discriminate|lia]|].
    destruct (rows + 1 <? b) eqn:E3; [split; [discriminate|lia]|].
    destruct (b <? 0) eqn:Eb; cbn [andb].
    + destruct (rows + b + 1 <? 1) eqn:E4; [split; [discriminate|lia]|].
      destruct (cols <? c) eqn:E5; [split; [discriminate|lia]|].
      destruct (c <? 0) eqn:Ec.
      * destruct (cols + c + 1 <? 1) eqn:E6; [split; [discriminate|lia]|].
        destruct (cols + 1 <? d) eqn:E7; [split; [discriminate|lia]|].
        destruct (d <? 0) eqn:Ed; cbn [andb];
          [destruct (cols + d + 1 <? 1) eqn:E8; [split; [discriminate|lia]|]|];
          destruct oi; (split; [intros [= <-]; repeat split; try lia; tup4
                              | intros (_ & _ & _ & _ & ->); tup4]).
      * destruct (c <? 1) eqn:E6; [split; [discriminate|lia]|].
        destruct (cols + 1 <? d) eqn:E7; [split; [discriminate|lia]|].
        destruct (d <? 0) eqn:Ed; cbn [andb];
          [destruct (cols + d + 1 <? 1) eqn:E8; [split; [discriminate|lia]|]|];
          destruct oi; (split; [intros [= <-]; repeat split; try lia; tup4
                              | intros (_ & _ & _ & _ & ->); tup4]).
    + destruct (cols <? c) eqn:E5; [split; [discriminate|lia]|].
      destruct (c <? 0) eqn:Ec.
      * destruct (cols + c + 1 <? 1) eqn:E6; [split; [discriminate|lia]|].
        destruct (cols + 1 <? d) eqn:E7; [split; [discriminate|lia]|].
        destruct (d <? 0) eqn:Ed; cbn [andb];
          [destruct (cols + d + 1 <? 1) eqn:E8; [split; [discriminate|lia]|]|];
          destruct oi; (split; [intros [= <-]; repeat split; try lia; tup4
                              | intros (_ & _ & _ & _ & ->); tup4]).
      * destruct (c <? 1) eqn:E6; [split; [discriminate|lia]|].
        destruct (cols + 1 <? d) eqn:E7; [split; [discriminate|lia]|].
        destruct (d <? 0) eqn:Ed; cbn [andb];
          [destruct (cols + d + 1 <? 1) eqn:E8; [split; [discriminate|lia]|]|];
          destruct oi; (split; [intros [= <-]; repeat split; try lia; tup4
                              | intros (_ & _ & _ & _ & ->); tup4]).
Qed.

Lemma start_ok_one : forall ai n x, 1 <= n ->
  start_ok ai n x = true <-> (one_start ai x <> 0 /\ - n <= one_start ai x <= n).
Proof.
  intros ai n [v|] Hn; unfold start_ok, one_start, to_one_based; [|split; [lia|reflexivity]].
  destruct ai; cbn [andb]; [destruct (0 <=? v) eqn:E|]; lia.
Qed.
Lemma end_ok_one : forall ai n x, 1 <= n ->
  end_ok ai n x = true <-> (one_end ai n x <> 0 /\ - n <= one_end ai n x <= n + 1).
Proof.
  intros ai n [v|] Hn; unfold end_ok, one_end, to_one_based; [|split; [lia|reflexivity]].
  destruct ai; cbn [andb]; [destruct (0 <=? v) eqn:E|]; lia.
Qed.
Lemma rc_start_one : forall ai n x, start_ok ai n x = true -> norm1 n (one_start ai x) = rc_start ai n x + 1.
Proof.
  intros ai n [v|]; unfold start_ok, one_start, to_one_based, norm1, rc_start; [|reflexivity].
  destruct ai; cbn [andb]; [destruct (0 <=? v) eqn:E|]; case_ifs; lia.
Qed.
Lemma rc_end_one : forall ai n x, 1 <= n -> end_ok ai n x = true -> norm1 n (one_end ai n x) = rc_end ai n x + 1.
Proof.
  intros ai n [v|] Hn; unfold end_ok, one_end, to_one_based, norm1, rc_end; [|case_ifs; lia].
  destruct ai; cbn [andb]; [destruct (0 <=? v) eqn:E|]; case_ifs; lia.
Qed.

Lemma std_rc_ok_iff : forall rs re cs ce rows cols ai oi r, 1 <= rows -> 1 <= cols ->
  std_rc rs re cs ce rows cols ai oi = Ok r <->
  (start_ok ai rows rs = true /\ end_ok ai rows re = true /\
   start_ok ai cols cs = true /\ end_ok ai cols ce = true /\
   let o := if oi then 0 else 1 in
   r = (rc_start ai rows rs + o, rc_end ai rows re + o, rc_start ai cols cs + o, rc_end ai cols ce + o)).
Proof.
  intros rs re cs ce rows cols ai oi r Hr Hc. rewrite std_rc_chain. cbv zeta.
  rewrite <- (start_ok_one ai rows rs Hr), <- (end_ok_one ai rows re Hr),
          <- (start_ok_one ai cols cs Hc), <- (end_ok_one ai cols ce Hc).
  split; intros (H1 & H2 & H3 & H4 & ->); repeat split; auto;
    rewrite (rc_start_one _ _ _ H1), (rc_end_one _ _ _ Hr H2), (rc_start_one _ _ _ H3), (rc_end_one _ _ _ Hc H4);
    destruct oi; tup4.
Qed.
