(* C07 - the accept table for ALL parameter values (not only the finite matrix
   of C07_Proofs_Table): whatever the validation cascade lets through is
   representable in the chosen transfer syntax, or lies in the cells of the open
   finding D51.  Case analysis over syntax x array rank x planar configuration x
   photometric interpretation; the integer parameters stay universally
   quantified (lia). *)
From Coq Require Import String ZArith List Bool Lia ZifyBool.
From HD Require Import Base.Val C07_Model.
Import ListNotations.
Open Scope Z_scope.
Ltac Zify.zify_post_hook ::= Z.to_euclidean_division_equations.

Ltac close_enums :=
  repeat match goal with
         | |- context [ts_eqb ?a ?b] => let v := eval vm_compute in (ts_eqb a b) in change (ts_eqb a b) with v
         | |- context [pi_eqb ?a ?b] => let v := eval vm_compute in (pi_eqb a b) in change (pi_eqb a b) with v
         | H : context [ts_eqb ?a ?b] |- _ => let v := eval vm_compute in (ts_eqb a b) in change (ts_eqb a b) with v in H
         | H : context [pi_eqb ?a ?b] |- _ => let v := eval vm_compute in (pi_eqb a b) in change (pi_eqb a b) with v in H
         end.

Ltac unfold_all H :=
  cbv [accepts check check_cascade check_hd check_hd_content check_encoder check_common check_native
       check_jpeg check_codec check_pydicom check_profile profile_matches uses_pydicom_encoder is_native
       representable open_gap colour_ok mono_ok mono_pis
       mem_ts mem_pi memZ existsb assoc_ts assocZ pi_in pi_is is_none optZ_eqb spp npix
       default_tables t_uncompressed t_compressed t_native_pis t_jpeg_mono_pis t_jpeg_color_pi t_jpeg_bits
       t_codec_names t_codec_spp t_mono_pis t_mono_bits_j2kl t_mono_bits t_color_bits t_required_pi
       t_j2k_min_size t_rle_min_alloc t_profiles
       p_ts p_rows p_cols p_ndim3 p_shape2 p_balloc p_bstored p_pi p_pixrep p_planar p_dkind p_dsize
       fst snd].

Ltac split_ifs H :=
  repeat (match type of H with
          | context [if ?c then _ else _] =>
              match type of c with
              | bool => let E := fresh "E" in destruct c eqn:E; cbv beta iota in H; try discriminate H
              end
          | context [match ?k with KBool => _ | KUInt => _ | KInt => _ end] => destruct k; try discriminate H
          end).

Ltac norm_cell H := revert H; unfold_all H; close_enums; unfold_all H; close_enums; unfold_all H; close_enums;
  cbn [andb orb negb implb]; intros H; split_ifs H.
Ltac solve_cell H := norm_cell H; lia.

Lemma accept_sound_ts : forall ts rows cols nd sh2 ba bs pi pr pl dk ds lo hi,
  1 <= rows -> 1 <= cols -> In ds [1; 2; 4; 8] ->
  accepts default_tables (mkP ts rows cols nd sh2 ba bs pi pr pl dk ds) lo hi = true ->
  representable (mkP ts rows cols nd sh2 ba bs pi pr pl dk ds) = true
  \/ open_gap (mkP ts rows cols nd sh2 ba bs pi pr pl dk ds) = true.
Proof.
  intros ts rows cols nd sh2 ba bs pi pr pl dk ds lo hi Hr Hc Hds H.
  assert (Hds' : ds = 1 \/ ds = 2 \/ ds = 4 \/ ds = 8) by (cbn in Hds; intuition lia). clear Hds.
  destruct ts, nd, pl as [z|], pi as [[]|]; solve_cell H.
Qed.

(* for EVERY parameter combination (all integers, not a finite matrix): accepted
   implies representable, or one of the D51 cells *)
Theorem accept_sound_all : forall p lo hi,
  1 <= p_rows p -> 1 <= p_cols p -> In (p_dsize p) [1; 2; 4; 8] ->
  accepts default_tables p lo hi = true ->
  representable p = true \/ open_gap p = true.
Proof. intros [ts rows cols nd sh2 ba bs pi pr pl dk ds] lo hi. cbn [p_rows p_cols p_dsize]. apply accept_sound_ts. Qed.

(* contrapositive, as the property states it: what the syntax cannot represent is
   refused with an error *)
Theorem unrepresentable_refused : forall p f,
  1 <= p_rows p -> 1 <= p_cols p -> In (p_dsize p) [1; 2; 4; 8] ->
  representable p = false -> open_gap p = false ->
  exists e, encode_frame default_tables p f = Err e.
Proof.
  intros p f Hr Hc Hd Hrep Hgap. unfold encode_frame.
  destruct (check default_tables p (list_min f) (list_max f)) as [e|] eqn:Hchk; [eauto|].
  destruct (accept_sound_all p (list_min f) (list_max f) Hr Hc Hd) as [H|H]; [|congruence|congruence].
  unfold accepts. now rewrite Hchk.
Qed.

