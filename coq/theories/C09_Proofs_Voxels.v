(* C09 - the voxel array returned by match_geometry: every result voxel holds the source voxel that lies
   at the same physical position, and padding where the source has no voxel there *)
From Coq Require Import String ZArith List Bool Lia ZifyBool QArith Qround Qfield Lqa.
From HD Require Import Base.Val Base.PySlice C09_Model C09_Proofs C09_Proofs_Match.
Import ListNotations.
Open Scope Z_scope.

(* ---- flat indexing of nested flat_map ---------------------------------------------------------- *)
Lemma nth_flat_map_const {A B} : forall (f : A -> list B) (l : list A) (L i j : nat) (d : B) (da : A),
  (forall x, In x l -> length (f x) = L) -> (i < length l)%nat -> (j < L)%nat ->
  nth (i * L + j) (flat_map f l) d = nth j (f (nth i l da)) d.
Proof.
  intros f l L. induction l as [|x l IH]; intros i j d da Hlen Hi Hj; [cbn in Hi; lia|].
  cbn [flat_map]. destruct i as [|i].
  - cbn [Nat.mul Nat.add nth]. rewrite app_nth1 by (rewrite (Hlen x); [exact Hj|now left]). reflexivity.
  - rewrite app_nth2 by (rewrite (Hlen x) by (now left); lia). rewrite (Hlen x) by now left.
    replace (S i * L + j - L)%nat with (i * L + j)%nat by lia. cbn [nth].
    apply IH; [intros y Hy; apply Hlen; now right|cbn in Hi; lia|exact Hj].
Qed.

Lemma length_flat_map_const' {A B} : forall (f : A -> list B) (l : list A) (L : nat),
  (forall x, In x l -> length (f x) = L) -> length (flat_map f l) = (length l * L)%nat.
Proof.
  intros f l L. induction l as [|x l IH]; intros Hlen; [reflexivity|].
  cbn [flat_map length]. rewrite app_length, (Hlen x) by now left. rewrite IH; [lia|].
  intros y Hy; apply Hlen; now right.
Qed.

Lemma voxels_length : forall src m,
  length (voxels src m) =
  (length (p0 (m_maps m)) * (length (p1 (m_maps m)) * length (p2 (m_maps m))))%nat.
Proof.
  intros src m. unfold voxels.
  apply length_flat_map_const'. intros c0 _.
  apply length_flat_map_const'. intros c1 _. apply map_length.
Qed.

Lemma voxels_nth : forall src m i0 i1 i2,
  (i0 < length (p0 (m_maps m)))%nat -> (i1 < length (p1 (m_maps m)))%nat -> (i2 < length (p2 (m_maps m)))%nat ->
  nth ((i0 * length (p1 (m_maps m)) + i1) * length (p2 (m_maps m)) + i2) (voxels src m) 0 =
  label src (m_perm m) (nth i0 (p0 (m_maps m)) None) (nth i1 (p1 (m_maps m)) None) (nth i2 (p2 (m_maps m)) None).
Proof.
  intros src m i0 i1 i2 H0 H1 H2. unfold voxels.
  set (M1 := length (p1 (m_maps m))). set (M2 := length (p2 (m_maps m))).
  replace ((i0 * M1 + i1) * M2 + i2)%nat with (i0 * (M1 * M2) + (i1 * M2 + i2))%nat by lia.
  rewrite nth_flat_map_const with (L := (M1 * M2)%nat) (da := None); [| |exact H0|].
  - rewrite nth_flat_map_const with (L := M2) (da := None); [| |exact H1|exact H2].
    + rewrite nth_indep with (d' := label src (m_perm m) (nth i0 (p0 (m_maps m)) None) (nth i1 (p1 (m_maps m)) None) None)
        by (rewrite map_length; exact H2).
      apply (map_nth (fun c2 => label src (m_perm m) (nth i0 (p0 (m_maps m)) None) (nth i1 (p1 (m_maps m)) None) c2)).
    + intros c1 _. apply map_length.
  - intros c0 _. apply length_flat_map_const'. intros c1 _. apply map_length.
  - subst M1 M2. nia.
Qed.

(* ---- per-axis map ---------------------------------------------------------------------------------- *)
Definition inb (n c : Z) : bool := (0 <=? c) && (c <? n).

Lemma axis_map_length : forall n r, length (axis_map n r) = Z.to_nat (r_size r).
Proof. intros n r. unfold axis_map, zrange. now rewrite !map_length, seq_length. Qed.

Lemma axis_map_nth : forall n r j, 0 <= j < r_size r ->
  nth (Z.to_nat j) (axis_map n r) None =
  (if inb n (r_first r + j * r_step r) then Some (r_first r + j * r_step r) else None).
Proof.
  intros n r j Hj. unfold axis_map, zrange, inb.
  set (F := fun k : Z => if (0 <=? r_first r + k * r_step r) && (r_first r + k * r_step r <? n)
                         then Some (r_first r + k * r_step r) else None).
  rewrite nth_indep with (d' := F 0) by (rewrite !map_length, seq_length; lia).
  rewrite (map_nth F).
  rewrite nth_indep with (d' := Z.of_nat 0) by (rewrite map_length, seq_length; lia).
  rewrite map_nth, seq_nth by lia. cbn [plus]. rewrite Z2Nat.id by lia. reflexivity.
Qed.

(* ---- the result array ------------------------------------------------------------------------------- *)
Definition src_label (shape i : t3 Z) : Z := 1 + (p0 i * p1 shape + p1 i) * p2 shape + p2 i.
Definition in_shape (shape i : t3 Z) : Prop := forall d, 0 <= sel i d < sel shape d.
Definition coord (rs : t3 axres) (d : ax) (j : Z) : Z := r_first (sel rs d) + j * r_step (sel rs d).
(* the value stored at index (j0,j1,j2) of the result (row-major flattening, as numpy reshape(-1)) *)
Definition voxel_at (src : t3 Z) (m : matched) (j0 j1 j2 : Z) : Z :=
  let s := a_shape (m_geom m) in nth (Z.to_nat ((j0 * p1 s + j1) * p2 s + j2)) (voxels src m) 0.

Theorem assemble_voxel : forall g sg rs j0 j1 j2,
  0 <= j0 < r_size (p0 rs) -> 0 <= j1 < r_size (p1 rs) -> 0 <= j2 < r_size (p2 rs) ->
  voxel_at (g_shape g) (assemble g sg rs) j0 j1 j2 =
  (if inb (sel (g_shape g) (p0 sg)) (coord rs X0 j0) && inb (sel (g_shape g) (p1 sg)) (coord rs X1 j1) &&
      inb (sel (g_shape g) (p2 sg)) (coord rs X2 j2)
   then src_label (g_shape g) (place sg (coord rs X0 j0) (coord rs X1 j1) (coord rs X2 j2)) else 0).
Proof.
  intros g sg rs j0 j1 j2 H0 H1 H2. unfold voxel_at.
  cbn [assemble m_geom a_shape tab p0 p1 p2 sel].
  set (m := assemble g sg rs).
  assert (L0 : length (p0 (m_maps m)) = Z.to_nat (r_size (p0 rs))) by apply axis_map_length.
  assert (L1 : length (p1 (m_maps m)) = Z.to_nat (r_size (p1 rs))) by apply axis_map_length.
  assert (L2 : length (p2 (m_maps m)) = Z.to_nat (r_size (p2 rs))) by apply axis_map_length.
  replace (Z.to_nat ((j0 * r_size (p1 rs) + j1) * r_size (p2 rs) + j2))
    with ((Z.to_nat j0 * length (p1 (m_maps m)) + Z.to_nat j1) * length (p2 (m_maps m)) + Z.to_nat j2)%nat
    by (rewrite L1, L2; nia).
  rewrite voxels_nth by lia.
  subst m. cbn [assemble m_maps m_perm tab p0 p1 p2 sel].
  rewrite !axis_map_nth by assumption. unfold coord. cbn [sel].
  destruct (inb _ (r_first (p0 rs) + _)); [|reflexivity].
  destruct (inb _ (r_first (p1 rs) + _)); [|reflexivity].
  destruct (inb _ (r_first (p2 rs) + _)); reflexivity.
Qed.

Lemma assemble_voxels_length : forall g sg rs,
  0 <= r_size (p0 rs) -> 0 <= r_size (p1 rs) -> 0 <= r_size (p2 rs) ->
  Z.of_nat (length (voxels (g_shape g) (assemble g sg rs))) = r_size (p0 rs) * r_size (p1 rs) * r_size (p2 rs).
Proof.
  intros g sg rs H0 H1 H2. rewrite voxels_length. cbn [assemble m_maps tab p0 p1 p2 sel].
  rewrite !axis_map_length. nia.
Qed.

(* ---- ... in physical terms ---------------------------------------------------------------------------- *)
Lemma inv_apply_compat : forall B a b, veq a b -> veq (inv_apply B a) (inv_apply B b).
Proof.
  intros B a b (H1 & H2 & H3). unfold inv_apply. apply inv_lin_compat.
  destruct a as [a0 a1 a2], b as [b0 b1 b2], (f_t B) as [t0 t1 t2]. unfold veq, vsub; cbn [vx vy vz] in *.
  rewrite H1, H2, H3. repeat split; reflexivity.
Qed.

Lemma zvec_inj : forall a b, veq (zvec a) (zvec b) -> a = b.
Proof.
  intros [a0 a1 a2] [b0 b1 b2] (H0 & H1 & H2). unfold zvec in *; cbn [vx vy vz p0 p1 p2] in *.
  unfold Qeq in H0, H1, H2. cbn [Qnum Qden inject_Z] in H0, H1, H2.
  assert (a0 = b0) by lia. assert (a1 = b1) by lia. assert (a2 = b2) by lia. subst. reflexivity.
Qed.

Lemma phys_inj : forall B a b, ~ (det B == 0)%Q -> veq (phys B (zvec a)) (phys B (zvec b)) -> a = b.
Proof.
  intros B a b Hd H. apply zvec_inj.
  apply veq_trans with (inv_apply B (phys B (zvec a))); [apply veq_sym; now apply idx2ref2idx|].
  apply veq_trans with (inv_apply B (phys B (zvec b))); [now apply inv_apply_compat|now apply idx2ref2idx].
Qed.

Lemma place_in_shape : forall shape sg c0 c1 c2, is_perm (p0 sg) (p1 sg) (p2 sg) = true ->
  (in_shape shape (place sg c0 c1 c2) <->
   inb (sel shape (p0 sg)) c0 && inb (sel shape (p1 sg)) c1 && inb (sel shape (p2 sg)) c2 = true).
Proof.
  intros shape [s0 s1 s2] c0 c1 c2 Hp.
  destruct s0, s1, s2; try discriminate Hp; unfold in_shape, place, inb, tab; cbn [p0 p1 p2 sel ax_eqb];
    (split; [intros H; pose proof (H X0) as K0; pose proof (H X1) as K1; pose proof (H X2) as K2;
             cbn [sel p0 p1 p2] in K0, K1, K2; lia
            |intros H d; destruct d; cbn [sel p0 p1 p2]; lia]).
Qed.

(* "its voxels coincide with the source wherever the two overlap (padding elsewhere)":
   the value at result index j is the label of THE source voxel lying at the same physical position,
   and the padding value 0 when no source voxel lies there *)
Theorem match_voxels_coincide : forall g sg rs j0 j1 j2,
  is_perm (p0 sg) (p1 sg) (p2 sg) = true -> ~ (det (geom_aff g) == 0)%Q ->
  0 <= j0 < r_size (p0 rs) -> 0 <= j1 < r_size (p1 rs) -> 0 <= j2 < r_size (p2 rs) ->
  let x := aphys (m_geom (assemble g sg rs)) (zvec (T3 j0 j1 j2)) in
  let v := voxel_at (g_shape g) (assemble g sg rs) j0 j1 j2 in
  (forall i, in_shape (g_shape g) i -> veq x (phys (geom_aff g) (zvec i)) -> v = src_label (g_shape g) i) /\
  ((forall i, in_shape (g_shape g) i -> ~ veq x (phys (geom_aff g) (zvec i))) -> v = 0).
Proof.
  intros g sg rs j0 j1 j2 Hp Hd H0 H1 H2 x v.
  pose proof (assemble_fixes_voxels g sg rs j0 j1 j2 Hp) as Hx. fold x in Hx.
  pose proof (assemble_voxel g sg rs j0 j1 j2 H0 H1 H2) as Hv. fold v in Hv.
  fold (coord rs X0 j0) (coord rs X1 j1) (coord rs X2 j2) in Hx.
  set (c := place sg (coord rs X0 j0) (coord rs X1 j1) (coord rs X2 j2)) in *.
  pose proof (place_in_shape (g_shape g) sg (coord rs X0 j0) (coord rs X1 j1) (coord rs X2 j2) Hp) as Hin.
  fold c in Hin. split.
  - intros i Hi Hxi.
    assert (E : i = c).
    { apply (phys_inj (geom_aff g)); [exact Hd|]. eapply veq_trans; [apply veq_sym; exact Hxi|exact Hx]. }
    subst i. apply Hin in Hi. rewrite Hi in Hv. exact Hv.
  - intros Hno. destruct (inb _ _ && inb _ _ && inb _ _) eqn:E; [|exact Hv].
    exfalso. apply (Hno c); [now apply Hin|exact Hx].
Qed.

(* ---- pad modes ---------------------------------------------------------------------------------------- *)
Lemma match_rs_refines : forall tol g h,
  match_geometry tol g h = bind (match_rs tol g h) (fun pr => Ok (assemble g (fst pr) (snd pr))).
Proof.
  intros tol g h. unfold match_geometry, match_rs.
  destruct (for_conflict (g_for g) (g_for h)); [reflexivity|].
  destruct (negb (g_cs g =? g_cs h)); [reflexivity|].
  destruct (steps_of tol g h) as [[sg k]|e]; cbn [bind fst snd]; [|reflexivity].
  destruct (negb (is_perm (p0 sg) (p1 sg) (p2 sg))); [reflexivity|].
  destruct (plans_of tol g h sg k) as [q|e]; cbn [bind]; [|reflexivity].
  destruct (results_of g sg q) as [rs|e]; reflexivity.
Qed.

Lemma nth_grid {A B} : forall (f : A -> A -> A -> B) (l0 l1 l2 : list A) (i0 i1 i2 : nat) (d : B) (da : A),
  (i0 < length l0)%nat -> (i1 < length l1)%nat -> (i2 < length l2)%nat ->
  nth ((i0 * length l1 + i1) * length l2 + i2)
      (flat_map (fun a => flat_map (fun b => map (f a b) l2) l1) l0) d =
  f (nth i0 l0 da) (nth i1 l1 da) (nth i2 l2 da).
Proof.
  intros f l0 l1 l2 i0 i1 i2 d da H0 H1 H2.
  set (M1 := length l1). set (M2 := length l2).
  replace ((i0 * M1 + i1) * M2 + i2)%nat with (i0 * (M1 * M2) + (i1 * M2 + i2))%nat by lia.
  rewrite nth_flat_map_const with (L := (M1 * M2)%nat) (da := da); [| |exact H0|].
  - rewrite nth_flat_map_const with (L := M2) (da := da); [| |exact H1|exact H2].
    + rewrite nth_indep with (d' := f (nth i0 l0 da) (nth i1 l1 da) da) by (rewrite map_length; exact H2).
      apply (map_nth (f (nth i0 l0 da) (nth i1 l1 da))).
    + intros c1 _. apply map_length.
  - intros c0 _. apply length_flat_map_const'. intros c1 _. apply map_length.
  - subst M1 M2. nia.
Qed.

Lemma axis_map_mode_length : forall mode n r, length (axis_map_mode mode n r) = Z.to_nat (r_size r).
Proof. intros. unfold axis_map_mode, zrange. now rewrite !map_length, seq_length. Qed.

Lemma axis_map_mode_nth : forall mode n r j, 0 <= j < r_size r ->
  nth (Z.to_nat j) (axis_map_mode mode n r) None = cell mode n (r_first r + j * r_step r).
Proof.
  intros mode n r j Hj. unfold axis_map_mode, zrange.
  set (F := fun k : Z => cell mode n (r_first r + k * r_step r)).
  rewrite nth_indep with (d' := F 0) by (rewrite !map_length, seq_length; lia).
  rewrite (map_nth F).
  rewrite nth_indep with (d' := Z.of_nat 0) by (rewrite map_length, seq_length; lia).
  rewrite map_nth, seq_nth by lia. cbn [plus]. rewrite Z2Nat.id by lia. reflexivity.
Qed.

Definition voxel_mode_at (mode : padmode) (cval : Q) (g : geom) (sg : t3 ax) (rs : t3 axres) (j0 j1 j2 : Z) : Q :=
  nth (Z.to_nat ((j0 * r_size (p1 rs) + j1) * r_size (p2 rs) + j2)) (voxels_mode mode cval g sg rs) 0%Q.

Lemma voxel_mode_cells : forall mode cval g sg rs j0 j1 j2,
  0 <= j0 < r_size (p0 rs) -> 0 <= j1 < r_size (p1 rs) -> 0 <= j2 < r_size (p2 rs) ->
  voxel_mode_at mode cval g sg rs j0 j1 j2 =
  label_q (g_shape g) sg (pad_value mode (g_shape g) cval)
          (cell mode (sel (g_shape g) (p0 sg)) (coord rs X0 j0))
          (cell mode (sel (g_shape g) (p1 sg)) (coord rs X1 j1))
          (cell mode (sel (g_shape g) (p2 sg)) (coord rs X2 j2)).
Proof.
  intros mode cval g sg rs j0 j1 j2 H0 H1 H2. unfold voxel_mode_at, voxels_mode. cbn [sel].
  set (l0 := axis_map_mode mode (sel (g_shape g) (p0 sg)) (p0 rs)).
  set (l1 := axis_map_mode mode (sel (g_shape g) (p1 sg)) (p1 rs)).
  set (l2 := axis_map_mode mode (sel (g_shape g) (p2 sg)) (p2 rs)).
  assert (L0 : length l0 = Z.to_nat (r_size (p0 rs))) by apply axis_map_mode_length.
  assert (L1 : length l1 = Z.to_nat (r_size (p1 rs))) by apply axis_map_mode_length.
  assert (L2 : length l2 = Z.to_nat (r_size (p2 rs))) by apply axis_map_mode_length.
  replace (Z.to_nat ((j0 * r_size (p1 rs) + j1) * r_size (p2 rs) + j2))
    with ((Z.to_nat j0 * length l1 + Z.to_nat j1) * length l2 + Z.to_nat j2)%nat by (rewrite L1, L2; nia).
  rewrite (nth_grid (label_q (g_shape g) sg (pad_value mode (g_shape g) cval)) l0 l1 l2 _ _ _ 0%Q None) by lia.
  subst l0 l1 l2. rewrite !axis_map_mode_nth by assumption. reflexivity.
Qed.

(* CONSTANT / MINIMUM / MAXIMUM / MEAN / MEDIAN: the source voxel where there is one, the pad value elsewhere *)
Theorem voxel_mode_const : forall mode cval g sg rs j0 j1 j2, mode <> PEdge ->
  0 <= j0 < r_size (p0 rs) -> 0 <= j1 < r_size (p1 rs) -> 0 <= j2 < r_size (p2 rs) ->
  voxel_mode_at mode cval g sg rs j0 j1 j2 =
  (if inb (sel (g_shape g) (p0 sg)) (coord rs X0 j0) && inb (sel (g_shape g) (p1 sg)) (coord rs X1 j1) &&
      inb (sel (g_shape g) (p2 sg)) (coord rs X2 j2)
   then inject_Z (src_label (g_shape g) (place sg (coord rs X0 j0) (coord rs X1 j1) (coord rs X2 j2)))
   else pad_value mode (g_shape g) cval).
Proof.
  intros mode cval g sg rs j0 j1 j2 Hm H0 H1 H2. rewrite voxel_mode_cells by assumption.
  unfold cell, inb.
  destruct ((0 <=? coord rs X0 j0) && (coord rs X0 j0 <? _)); [|destruct mode; try reflexivity; contradiction].
  destruct ((0 <=? coord rs X1 j1) && (coord rs X1 j1 <? _)); [|destruct mode; try reflexivity; contradiction].
  destruct ((0 <=? coord rs X2 j2) && (coord rs X2 j2 <? _)); [|destruct mode; try reflexivity; contradiction].
  reflexivity.
Qed.

(* the default call (CONSTANT, 0) is the array of the plain model *)
Theorem voxel_mode_default : forall g sg rs j0 j1 j2,
  0 <= j0 < r_size (p0 rs) -> 0 <= j1 < r_size (p1 rs) -> 0 <= j2 < r_size (p2 rs) ->
  voxel_mode_at PConst 0 g sg rs j0 j1 j2 = inject_Z (voxel_at (g_shape g) (assemble g sg rs) j0 j1 j2).
Proof.
  intros g sg rs j0 j1 j2 H0 H1 H2.
  rewrite voxel_mode_const by (assumption || discriminate). rewrite assemble_voxel by assumption.
  destruct (inb _ _ && inb _ _ && inb _ _); reflexivity.
Qed.

(* EDGE: every result voxel holds the source voxel nearest to it along each axis (never a new value) *)
Lemma clampc_in : forall n c, 0 < n -> inb n (clampc n c) = true.
Proof. intros n c Hn. unfold inb, clampc. lia. Qed.
Lemma clampc_id : forall n c, inb n c = true -> clampc n c = c.
Proof. intros n c H. unfold inb, clampc in *. lia. Qed.

Theorem voxel_mode_edge : forall cval g sg rs j0 j1 j2, gpos (g_shape g) ->
  is_perm (p0 sg) (p1 sg) (p2 sg) = true ->
  0 <= j0 < r_size (p0 rs) -> 0 <= j1 < r_size (p1 rs) -> 0 <= j2 < r_size (p2 rs) ->
  let i := place sg (clampc (sel (g_shape g) (p0 sg)) (coord rs X0 j0))
                    (clampc (sel (g_shape g) (p1 sg)) (coord rs X1 j1))
                    (clampc (sel (g_shape g) (p2 sg)) (coord rs X2 j2)) in
  in_shape (g_shape g) i /\
  voxel_mode_at PEdge cval g sg rs j0 j1 j2 = inject_Z (src_label (g_shape g) i).
Proof.
  intros cval g sg rs j0 j1 j2 Hg Hp H0 H1 H2 i. split.
  - apply place_in_shape; [exact Hp|]. rewrite !clampc_in by apply Hg. reflexivity.
  - rewrite voxel_mode_cells by assumption. subst i.
    assert (C : forall n c, cell PEdge n c = Some (clampc n c)).
    { intros n c. unfold cell. fold (inb n c). destruct (inb n c) eqn:E; [now rewrite clampc_id|reflexivity]. }
    rewrite !C. reflexivity.
Qed.
