(* C12 - proofs, extension 2: unpadded round trip, arrays with a trailing
   sample dimension, the single-tile helper over the whole enumeration as a
   LIST identity, per-frame data against the full-tiling test, the whole
   integer domain of the size arguments. *)
From Coq Require Import String ZArith List Bool Lia ZifyBool Arith QArith Permutation.
From HD Require Import Base.Val Base.ListZ C12_Model C12_Proofs C12_Proofs_Ext.
Import ListNotations.
Ltac Zify.zify_post_hook ::= Z.to_euclidean_division_equations.
Open Scope Z_scope.

(* ====================================================================== *)
(* 1. the round trip with UNPADDED tiles                                    *)
(* ====================================================================== *)

Lemma paste_fold_unpadded : forall M R C th tw, wf_matrix M R C -> 1 <= R -> 1 <= C -> 1 <= th -> 1 <= tw ->
  forall (l : list (Z * Z)), (forall o, In o l -> 1 <= snd o <= R /\ 1 <= fst o <= C) ->
  forall buf, wf_matrix buf R C ->
  let buf' := fold_left (fun buf ot => match snd ot with
                           | Ok T => paste_one buf R C (snd (fst ot)) (fst (fst ot)) th tw T
                           | Err _ => buf end)
                 (map (fun o => (o, get_tile_array M R C (snd o) (fst o) th tw false)) l) buf in
  wf_matrix buf' R C /\
  forall r c, 0 <= r < R -> 0 <= c < C ->
    cell buf' r c = if existsb (covers th tw r c) l then cell M r c else cell buf r c.
Proof.
  intros M R C th tw Hwf HR HC Hh Hw. induction l as [|o l IH]; intros Hval buf Hbuf; cbn [map fold_left existsb];
    [|specialize (IH (fun o' H => Hval o' (or_intror H))); pose proof (Hval o (or_introl eq_refl)) as Ho].
  - split; [assumption|reflexivity].
  - cbn [fst snd]. destruct (get_tile_array M R C (snd o) (fst o) th tw false) as [T|e] eqn:ET.
    + specialize (IH (paste_one buf R C (snd o) (fst o) th tw T) (wf_paste_one buf R C (snd o) (fst o) th tw T ltac:(lia) ltac:(lia))).
      cbv zeta in IH. destruct IH as [IHw IHc]. split; [exact IHw|].
      intros r c Hr Hc. rewrite (IHc r c Hr Hc). rewrite cell_paste_one by lia. unfold covers at 2.
      destruct (existsb (covers th tw r c) l); [now rewrite orb_true_r|]. rewrite orb_false_r.
      destruct (in_tile (snd o) (fst o) th tw r c) eqn:Ein; [|reflexivity].
      unfold in_tile in Ein.
      rewrite (tile_cell_unpadded M R C (snd o) (fst o) th tw _ _ T Hwf) by (try exact ET; lia).
      replace (snd o - 1 + (r - (snd o - 1))) with r by lia.
      replace (fst o - 1 + (c - (fst o - 1))) with c by lia. reflexivity.
    + specialize (IH buf Hbuf). cbv zeta in IH. destruct IH as [IHw IHc]. split; [exact IHw|].
      intros r c Hr Hc. rewrite (IHc r c Hr Hc). unfold covers at 2.
      destruct (existsb (covers th tw r c) l); [now rewrite orb_true_r|]. rewrite orb_false_r.
      assert (G : snd o < 1 \/ R < snd o \/ fst o < 1 \/ C < fst o).
      { unfold get_tile_array in ET. destruct ((snd o <? 1) || (R <? snd o)) eqn:G1; [lia|].
        destruct ((fst o <? 1) || (C <? fst o)) eqn:G2; [lia|]. discriminate. }
      lia.
Qed.

(* cutting WITHOUT padding and pasting back reproduces the matrix as well *)
Lemma cut_paste_roundtrip_unpadded : forall M R C th tw, wf_matrix M R C -> 1 <= R -> 1 <= C -> 1 <= th -> 1 <= tw ->
  paste_all R C th tw (cut_all M R C th tw false) = M.
Proof.
  intros M R C th tw Hwf HR HC Hh Hw. unfold paste_all, cut_all.
  rewrite tile_offsets_is_grid by lia.
  destruct (paste_fold_unpadded M R C th tw Hwf HR HC Hh Hw (grid R C th tw)
             (fun o Ho => grid_offsets_in_matrix R C th tw (fst o) (snd o) HR HC Hh Hw
                            ltac:(now destruct o))
             (zeros R C) (wf_zeros R C ltac:(lia) ltac:(lia)))
    as [Hw' Hc'].
  apply (matrix_ext _ _ R C Hw' Hwf). intros r c Hr Hc. rewrite (Hc' r c Hr Hc).
  replace (existsb (covers th tw r c) (grid R C th tw)) with true; [reflexivity|].
  symmetry. apply existsb_exists. exists (tile_of tw (c + 1), tile_of th (r + 1)).
  destruct (cover_exists R C th tw (r + 1) (c + 1) Hh Hw ltac:(lia) ltac:(lia)) as [Hin Hb].
  split; [exact Hin|]. unfold covers, in_tile. cbn [fst snd]. lia.
Qed.

Lemma cut_paste_roundtrip_any : forall pad M R C th tw, wf_matrix M R C -> 1 <= R -> 1 <= C -> 1 <= th -> 1 <= tw ->
  paste_all R C th tw (cut_all M R C th tw pad) = M.
Proof. intros [|]; [apply cut_paste_roundtrip|apply cut_paste_roundtrip_unpadded]. Qed.

(* every unpadded cut succeeds and has the clipped shape *)
Lemma cut_all_tiles_unpadded : forall M R C th tw o t, wf_matrix M R C -> 1 <= R -> 1 <= C -> 1 <= th -> 1 <= tw ->
  In (o, t) (cut_all M R C th tw false) ->
  In o (grid R C th tw) /\
  exists T, t = Ok T /\ wf_matrix T (Z.min th (R - snd o + 1)) (Z.min tw (C - fst o + 1)).
Proof.
  intros M R C th tw o t Hwf HR HC Hh Hw Hin. unfold cut_all in Hin. rewrite tile_offsets_is_grid in Hin by lia.
  apply in_map_iff in Hin as (o' & E & Ho). inversion E; subst. split; [assumption|].
  destruct o as [pc pr]. pose proof (grid_offsets_in_matrix R C th tw pc pr HR HC Hh Hw Ho) as Hb. cbn [fst snd].
  destruct (get_tile_array M R C pr pc th tw false) as [T|e] eqn:ET.
  - exists T. split; [reflexivity|]. eapply tile_shape_unpadded; eauto; lia.
  - exfalso. unfold get_tile_array in ET. destruct ((pr <? 1) || (R <? pr)) eqn:G1; [lia|].
    destruct ((pc <? 1) || (C <? pc)) eqn:G2; [lia|]. discriminate.
Qed.

(* ====================================================================== *)
(* 2. arrays with a trailing sample dimension (R x C x S)                   *)
(* ====================================================================== *)

(* sample plane s of an R x C x S array *)
Definition proj (s : nat) (M : list (list (list Z))) : list (list Z) :=
  map (map (fun px => nth s px 0)) M.
Definition map_res {A B} (f : A -> B) (r : res A) : res B :=
  match r with Ok a => Ok (f a) | Err e => Err e end.
Definition wf_nd (M : list (list (list Z))) (R C S : Z) : Prop :=
  Z.of_nat (length M) = R /\
  forall row, In row M -> Z.of_nat (length row) = C /\ forall px, In px row -> Z.of_nat (length px) = S.

Lemma map_slice : forall {A B} (f : A -> B) a b l, map f (slice_list a b l) = slice_list a b (map f l).
Proof. intros. unfold slice_list. now rewrite skipn_map, firstn_map. Qed.

Lemma map_repeat' : forall {A B} (f : A -> B) x n, map f (repeat x n) = repeat (f x) n.
Proof. induction n as [|n IH]; cbn; [reflexivity|now rewrite IH]. Qed.

Lemma map_pad_right : forall {A B} (f : A -> B) d n l, map f (pad_right d n l) = pad_right (f d) n (map f l).
Proof. intros. unfold pad_right. now rewrite map_app, map_repeat'. Qed.

Lemma nth_repeat0 : forall s n, nth s (repeat 0 n) 0 = 0.
Proof. induction s as [|s IH]; intros [|n]; cbn; auto. Qed.

(* PLANEWISE: cutting a tile commutes with taking a sample plane - errors
   included.  Every theorem on 2-D matrices therefore holds for each sample
   plane of an R x C x S array. *)
Lemma tile_array_nd_planewise : forall s S M R C ro co th tw pad,
  get_tile_array (proj s M) R C ro co th tw pad =
  map_res (proj s) (get_tile_array_nd S M R C ro co th tw pad).
Proof.
  intros s S M R C ro co th tw pad. unfold get_tile_array, get_tile_array_nd.
  destruct ((ro <? 1) || (R <? ro)); [reflexivity|].
  destruct ((co <? 1) || (C <? co)); [reflexivity|].
  cbv zeta. set (f := fun px : list Z => nth s px 0).
  assert (Ht : map (slice_list (co - 1) (Z.min (co - 1 + tw) C))
                 (slice_list (ro - 1) (Z.min (ro - 1 + th) R) (proj s M)) =
               proj s (map (slice_list (co - 1) (Z.min (co - 1 + tw) C))
                          (slice_list (ro - 1) (Z.min (ro - 1 + th) R) M))).
  { unfold proj. fold f. rewrite <- map_slice, !map_map. apply map_ext. intros row. now rewrite map_slice. }
  destruct pad; cbn [map_res]; f_equal; [|exact Ht].
  rewrite Ht. unfold proj. fold f. rewrite map_pad_right, map_repeat'.
  replace (f (repeat 0 (Z.to_nat S))) with 0 by (unfold f; now rewrite nth_repeat0).
  f_equal. rewrite !map_map. apply map_ext. intros row.
  rewrite map_pad_right. f_equal. unfold f. now rewrite nth_repeat0.
Qed.

Lemma wf_proj : forall s M R C S, wf_nd M R C S -> wf_matrix (proj s M) R C.
Proof.
  intros s M R C S [HL HR]. unfold proj. split; [now rewrite map_length|].
  intros row Hin. apply in_map_iff in Hin as (r0 & <- & Hr0). rewrite map_length. now apply HR.
Qed.

Lemma tile_array_nd_refuses : forall S M R C ro co th tw pad,
  (ro < 1 \/ R < ro \/ co < 1 \/ C < co) <-> get_tile_array_nd S M R C ro co th tw pad = Err "ValueError"%string.
Proof.
  intros. unfold get_tile_array_nd.
  destruct ((ro <? 1) || (R <? ro)) eqn:E1; [split; [reflexivity|lia]|].
  destruct ((co <? 1) || (C <? co)) eqn:E2; [split; [reflexivity|lia]|].
  destruct pad; (split; [lia|discriminate]).
Qed.

(* SHAPE: the padded tile of an R x C x S array is th x tw x S *)
Lemma tile_shape_nd_padded : forall S M R C ro co th tw T, wf_nd M R C S -> 0 <= th -> 0 <= tw -> 0 <= S ->
  get_tile_array_nd S M R C ro co th tw true = Ok T -> wf_nd T th tw S.
Proof.
  intros S M R C ro co th tw T [HlenM Hrows] Hh Hw HS. unfold get_tile_array_nd.
  destruct ((ro <? 1) || (R <? ro)) eqn:E1; [discriminate|].
  destruct ((co <? 1) || (C <? co)) eqn:E2; [discriminate|].
  intros E; inversion E; subst T; clear E. split.
  - rewrite length_pad_right, !map_length.
    pose proof (length_slice M (ro - 1) (Z.min (ro - 1 + th) R) ltac:(lia) ltac:(lia)) as L. lia.
  - intros row Hin. unfold pad_right at 1 in Hin. apply in_app_or in Hin as [Hin|Hin].
    + apply in_map_iff in Hin as (r0 & <- & Hr0). apply in_map_iff in Hr0 as (r1 & <- & Hr1).
      apply in_slice in Hr1. apply Hrows in Hr1 as [Hr1 Hpx]. split.
      * rewrite length_pad_right.
        pose proof (length_slice r1 (co - 1) (Z.min (co - 1 + tw) C) ltac:(lia) ltac:(lia)) as L. lia.
      * intros px Hin. unfold pad_right in Hin. apply in_app_or in Hin as [Hin|Hin].
        -- apply in_slice in Hin. now apply Hpx.
        -- apply repeat_spec in Hin. subst px. rewrite repeat_length. lia.
    + apply repeat_spec in Hin. subst row. split; [rewrite repeat_length; lia|].
      intros px Hin. apply repeat_spec in Hin. subst px. rewrite repeat_length. lia.
Qed.

(* CELLS of the tile of an R x C x S array, sample by sample *)
Lemma tile_cell_nd : forall s S M R C ro co th tw a b T, wf_nd M R C S ->
  1 <= th -> 1 <= tw -> 0 <= a < th -> 0 <= b < tw ->
  get_tile_array_nd S M R C ro co th tw true = Ok T ->
  cell (proj s T) a b =
  if (ro - 1 + a <? R) && (co - 1 + b <? C) then cell (proj s M) (ro - 1 + a) (co - 1 + b) else 0.
Proof.
  intros s S M R C ro co th tw a b T Hwf Hh Hw Ha Hb HT.
  apply (tile_cell (proj s M) R C ro co th tw a b (proj s T) (wf_proj s M R C S Hwf) Hh Hw Ha Hb).
  rewrite (tile_array_nd_planewise s S), HT. reflexivity.
Qed.

(* ROUND TRIP for R x C x S arrays: every sample plane of the tiles, pasted
   back, is that sample plane of the array (padded or not) *)
Lemma cut_all_nd_planewise : forall s S M R C th tw pad,
  map (fun ot => (fst ot, map_res (proj s) (snd ot))) (cut_all_nd S M R C th tw pad) =
  cut_all (proj s M) R C th tw pad.
Proof.
  intros. unfold cut_all_nd, cut_all. rewrite map_map. apply map_ext. intros o. cbn [fst snd].
  now rewrite (tile_array_nd_planewise s S).
Qed.

Lemma cut_paste_roundtrip_nd : forall s S pad M R C th tw, wf_nd M R C S -> 1 <= R -> 1 <= C -> 1 <= th -> 1 <= tw ->
  paste_all R C th tw (map (fun ot => (fst ot, map_res (proj s) (snd ot))) (cut_all_nd S M R C th tw pad)) = proj s M.
Proof.
  intros s S pad M R C th tw Hwf HR HC Hh Hw. rewrite cut_all_nd_planewise.
  apply cut_paste_roundtrip_any; auto. exact (wf_proj s M R C S Hwf).
Qed.

Lemma nth_map_d : forall {A B} (f : A -> B) l n d d', (n < length l)%nat -> nth n (map f l) d' = f (nth n l d).
Proof. intros. rewrite nth_indep with (d' := f d) by now rewrite map_length. apply map_nth. Qed.

(* an array is determined by its sample planes *)
Lemma nd_ext : forall A B R C S, wf_nd A R C S -> wf_nd B R C S ->
  (forall s, (Z.of_nat s < S) -> proj s A = proj s B) -> A = B.
Proof.
  intros A B R C S [HA HAr] [HB HBr] H. apply (nth_ext A B [] []); [lia|].
  intros n Hn.
  assert (InA : In (nth n A []) A) by (apply nth_In; lia).
  assert (InB : In (nth n B []) B) by (apply nth_In; lia).
  destruct (HAr _ InA) as [LA PA]. destruct (HBr _ InB) as [LB PB].
  apply (nth_ext _ _ [] []); [lia|]. intros m Hm.
  assert (InA' : In (nth m (nth n A []) []) (nth n A [])) by (apply nth_In; lia).
  assert (InB' : In (nth m (nth n B []) []) (nth n B [])) by (apply nth_In; lia).
  pose proof (PA _ InA') as LA'. pose proof (PB _ InB') as LB'.
  apply (nth_ext _ _ 0 0); [lia|]. intros s Hs.
  specialize (H s ltac:(lia)). unfold proj in H.
  apply (f_equal (fun X => nth m (nth n X []) 0)) in H.
  rewrite (nth_map_d _ A n [] []) in H by lia. rewrite (nth_map_d _ (nth n A []) m [] 0) in H by lia.
  rewrite (nth_map_d _ B n [] []) in H by lia. rewrite (nth_map_d _ (nth n B []) m [] 0) in H by lia.
  exact H.
Qed.

(* ====================================================================== *)
(* 3. the single-tile helper over the whole enumeration: a LIST identity    *)
(* ====================================================================== *)

Lemma flat_map_ext_in : forall {A B} (f g : A -> list B) l, (forall a, In a l -> f a = g a) ->
  flat_map f l = flat_map g l.
Proof.
  induction l as [|a l IH]; intros H; cbn; [reflexivity|].
  rewrite (H a) by (now left). f_equal. apply IH. intros b Hb. apply H. now right.
Qed.

Definition slice_z (sl : option (Z * Q)) : Q :=
  match sl with Some (k, sbs) => (inject_Z (k - 1) * sbs)%Q | None => 0%Q end.

(* calling compute_plane_position_tiled_full for every index pair of
   tile_pixel_matrix, in order, yields exactly the list of
   compute_tile_positions_per_frame (all calls succeed) *)
Lemma helper_positions_eq : forall R C th tw x y rc cc spr spc sl, 1 <= R -> 1 <= C -> 1 <= th -> 1 <= tw ->
  helper_positions R C th tw x y rc cc spr spc sl =
  map Ok (tile_positions R C th tw (V3 x y (slice_z sl)) rc cc spr spc).
Proof.
  intros R C th tw x y rc cc spr spc sl HR HC Hh Hw.
  unfold helper_positions, tile_pixel_matrix, tile_positions, tile_offsets, tiles_per_column, tiles_per_row.
  rewrite !cdiv_eq by lia. rewrite !map_flat_map. apply flat_map_ext_in. intros r Hr. apply in_zrange in Hr.
  rewrite !map_map. apply map_ext_in. intros c Hc. apply in_zrange in Hc. cbn [fst snd].
  unfold plane_position_tiled_full. replace ((r + 1 <? 1) || (c + 1 <? 1)) with false by lia.
  cbv zeta. replace ((c + 1 - 1) * tw) with (c * tw) by lia. replace ((r + 1 - 1) * th) with (r * th) by lia.
  replace (c * tw + 1 - 1) with (c * tw) by lia. replace (r * th + 1 - 1) with (r * th) by lia.
  unfold slice_z. destruct sl as [[k sbs]|]; reflexivity.
Qed.

Lemma oks_map_Ok : forall {A} (l : list A), oks (map Ok l) = l.
Proof. induction l as [|a l IH]; cbn; [reflexivity|]. unfold oks in IH. now rewrite IH. Qed.

(* ... and the plane positions so produced pass the full-tiling test *)
Lemma helper_positions_tiled_full : forall R C th tw x y rc cc spr spc sl, 1 <= R -> 1 <= C -> 1 <= th -> 1 <= tw ->
  are_tiled_full_code (map rc_of (oks (helper_positions R C th tw x y rc cc spr spc sl))) th tw = true.
Proof.
  intros R C th tw x y rc cc spr spc sl HR HC Hh Hw.
  rewrite helper_positions_eq by lia. rewrite oks_map_Ok. rewrite tiled_full_code_refines.
  unfold tile_positions. rewrite map_map.
  replace (map (fun o => rc_of (o, pix2ref (V3 x y (slice_z sl)) rc cc spr spc (fst o - 1) (snd o - 1)))
               (tile_offsets R C th tw)) with (map swap (tile_offsets R C th tw)) by (apply map_ext; reflexivity).
  now apply tiled_full_accepts_offsets.
Qed.

(* ====================================================================== *)
(* 4. per-frame plane positions against the full-tiling test                *)
(* ====================================================================== *)

Lemma pf_tiled_full_spec : forall d, pf_tiled_full d =
  map_res (fun l => are_tiled_full (map rc_of l) (ds_th d) (ds_tw d)) (slide_per_frame d).
Proof.
  intros. unfold pf_tiled_full, bind, map_res.
  destruct (slide_per_frame d); [now rewrite tiled_full_code_refines|reflexivity].
Qed.

Lemma pf_positions : forall d l, ds_sizes_ok d -> slide_per_frame d = Ok l ->
  map rc_of l = map (fun t => swap (snd (fst t)))
                    (iter_gen (ds_channels d) (opt_default 1 (ds_nfp d)) (plane_of (ds_grid d) (ds_pos d))).
Proof.
  intros d l Hs H. rewrite slide_per_frame_spec in H.
  destruct (iter_tiled_full_ds d) as [l0|e] eqn:E; [|discriminate]. inversion H; subst l.
  rewrite (iter_ds_gen d l0 Hs E). rewrite map_map. apply map_ext. intros [[[ch k] o] p]. reflexivity.
Qed.

Lemma zrange_nil : forall n, n <= 0 -> zrange n = [].
Proof. intros n Hn. unfold zrange. replace (Z.to_nat n) with 0%nat by lia. reflexivity. Qed.

Lemma pf_refuses : forall d,
  pf_tiled_full d = Err "ValueError"%string <-> (ds_sop d = SC_OTHER \/ ds_dim_org d <> Some true).
Proof.
  intros d. rewrite <- iter_ds_refuses. rewrite pf_tiled_full_spec, slide_per_frame_spec.
  destruct (iter_tiled_full_ds d) as [l|e]; cbn [map_res]; split; intros H; try discriminate; inversion H; reflexivity.
Qed.

(* THE COMPOSITE: the plane positions computed for a TILED_FULL image pass
   the full-tiling test exactly when they describe at most ONE channel and
   focal plane (one copy of the grid); with two or more, the grid repeats
   and the test - which accepts one grid in row-major order - refuses. *)
Lemma pf_tiled_full_iff : forall d b, ds_sizes_ok d -> pf_tiled_full d = Ok b ->
  (b = true <-> (length (ds_channels d) * Z.to_nat (opt_default 1%Z (ds_nfp d)) <= 1)%nat).
Proof.
  intros d b Hs H. rewrite pf_tiled_full_spec in H.
  destruct (slide_per_frame d) as [l|e] eqn:El; [|discriminate].
  cbn [map_res] in H. inversion H; subst b; clear H.
  pose proof (slide_per_frame_count d l Hs El) as Hlen.
  pose proof (pf_positions d l Hs El) as Hps.
  destruct Hs as (HR & HC & Hh & Hw).
  assert (HG : (1 <= length (ds_grid d))%nat).
  { unfold ds_grid. pose proof (grid_count _ _ _ _ HR HC Hh Hw).
    pose proof (cdiv_pos _ _ HR Hh). pose proof (cdiv_pos _ _ HC Hw). nia. }
  set (nf := opt_default 1 (ds_nfp d)) in *. set (G := ds_grid d) in *.
  split.
  - intros Ht. apply tiled_full_NoDup in Ht; [|lia|lia].
    assert (Hincl : incl (map rc_of l) (grid_rc (ds_R d) (ds_C d) (ds_th d) (ds_tw d))).
    { intros p Hp. rewrite Hps in Hp. apply in_map_iff in Hp as ([[[ch k] o] pos] & <- & Hin).
      apply in_iter_gen in Hin as (_ & _ & Ho & _). cbn [fst snd]. rewrite <- swap_grid.
      apply in_map. exact Ho. }
    apply (NoDup_incl_length Ht) in Hincl. rewrite map_length, length_grid_rc in Hincl.
    fold (ds_grid d) in Hincl. fold G in Hincl. nia.
  - intros Hn. rewrite Hps.
    destruct (ds_channels d) as [|ch [|ch2 chs]] eqn:Ech.
    + cbn; first [reflexivity | apply tiled_full_nil].
    + cbn [length] in Hn. destruct (Z.to_nat nf) as [|[|k]] eqn:Enf; [| |lia].
      * unfold iter_gen. rewrite zrange_nil by lia. cbn; first [reflexivity | apply tiled_full_nil].
      * assert (nf = 1) by lia. replace nf with 1 by lia. unfold iter_gen, plane_of.
        change (zrange 1) with [0]. cbn [flat_map]. rewrite !app_nil_r, !map_map. cbn [fst snd].
        replace (map (fun x : Z * Z => swap x) G) with (map swap G) by reflexivity.
        unfold G, ds_grid. rewrite swap_grid. apply tiled_full_complete; lia.
    + cbn [length] in Hn. assert (Z.to_nat nf = 0)%nat by lia.
      unfold iter_gen. rewrite zrange_nil by lia. cbn [flat_map]. rewrite flat_map_nil_inner. cbn; first [reflexivity | apply tiled_full_nil].
Qed.

(* ====================================================================== *)
(* 5. the whole integer domain of compute_tile_positions_per_frame          *)
(* ====================================================================== *)

(* on the property's domain the extended model is the checked one *)
Lemma tile_positions_dom_agrees : forall npos nori nsp R C th tw pos rc cc spr spc,
  1 <= R -> 1 <= C -> 1 <= th -> 1 <= tw ->
  tile_positions_dom npos nori nsp R C th tw pos rc cc spr spc =
  tile_positions_chk npos nori nsp R C th tw pos rc cc spr spc.
Proof.
  intros. unfold tile_positions_dom, tile_positions_chk, tiles_per_column, tiles_per_row.
  pose proof (Z.div_pos (C - 1) tw ltac:(lia) ltac:(lia)). pose proof (Z.div_pos (R - 1) th ltac:(lia) ltac:(lia)).
  replace (((C - 1) / tw + 1 <=? 0) || ((R - 1) / th + 1 <=? 0)) with false by lia. reflexivity.
Qed.

(* a tile count is positive iff (size >= 1 and tile > 0) or (size = 1 and tile < 0) *)
Lemma tile_count_pos : forall n t, t <> 0 -> (0 < (n - 1) / t + 1 <-> (0 < t /\ 1 <= n) \/ (t < 0 /\ n <= 1)).
Proof. intros n t Ht. split; intros H; nia. Qed.

Lemma tile_positions_dom_ok : forall npos nori nsp R C th tw pos rc cc spr spc l,
  tile_positions_dom npos nori nsp R C th tw pos rc cc spr spc = Ok l <->
  (npos = 3 /\ nori = 6 /\ nsp = 2 /\ (0 < spr /\ 0 < spc)%Q /\
   ((0 < th /\ 1 <= R) \/ (th < 0 /\ R <= 1)) /\ ((0 < tw /\ 1 <= C) \/ (tw < 0 /\ C <= 1)) /\
   l = tile_positions R C th tw pos rc cc spr spc).
Proof.
  intros. unfold tile_positions_dom, tiles_per_column, tiles_per_row.
  destruct (npos =? 3) eqn:E1; cbn [negb]; [|split; [discriminate|lia]].
  destruct (nori =? 6) eqn:E2; cbn [negb]; [|split; [discriminate|lia]].
  destruct (nsp =? 2) eqn:E3; cbn [negb]; [|split; [discriminate|lia]].
  destruct ((tw =? 0) || (th =? 0)) eqn:E4; [split; [discriminate|lia]|].
  destruct (bad_spacing spr spc) eqn:E5.
  - split; [discriminate|]. intros (_ & _ & _ & Hsp & _). apply bad_spacing_iff in Hsp. congruence.
  - apply bad_spacing_iff in E5.
    pose proof (tile_count_pos C tw ltac:(lia)) as PC. pose proof (tile_count_pos R th ltac:(lia)) as PR.
    destruct (((C - 1) / tw + 1 <=? 0) || ((R - 1) / th + 1 <=? 0)) eqn:E6.
    + split; [discriminate|]. intros (_ & _ & _ & _ & HRr & HCc & _).
      apply PR in HRr. apply PC in HCc. lia.
    + split.
      * intros E; inversion E; subst l.
        assert (HRr : (0 < th /\ 1 <= R) \/ (th < 0 /\ R <= 1)) by (apply PR; lia).
        assert (HCc : (0 < tw /\ 1 <= C) \/ (tw < 0 /\ C <= 1)) by (apply PC; lia).
        destruct E5 as [S1 S2]. repeat split; try lia; try assumption.
      * intros (_ & _ & _ & _ & _ & _ & ->). reflexivity.
Qed.

Lemma tile_positions_dom_errors : forall npos nori nsp R C th tw pos rc cc spr spc,
  (tile_positions_dom npos nori nsp R C th tw pos rc cc spr spc = Err "ZeroDivisionError"%string <->
   npos = 3 /\ nori = 6 /\ nsp = 2 /\ (th = 0 \/ tw = 0)) /\
  (tile_positions_dom npos nori nsp R C th tw pos rc cc spr spc = Err "ValueError"%string <->
   npos <> 3 \/ nori <> 6 \/ nsp <> 2 \/ (th <> 0 /\ tw <> 0 /\ bad_spacing spr spc = true)) /\
  (tile_positions_dom npos nori nsp R C th tw pos rc cc spr spc = Err "TypeError"%string <->
   npos = 3 /\ nori = 6 /\ nsp = 2 /\ th <> 0 /\ tw <> 0 /\ bad_spacing spr spc = false /\
   ~ (((0 < th /\ 1 <= R) \/ (th < 0 /\ R <= 1)) /\ ((0 < tw /\ 1 <= C) \/ (tw < 0 /\ C <= 1)))).
Proof.
  intros npos nori nsp R C th tw pos rc cc spr spc. unfold tile_positions_dom, tiles_per_column, tiles_per_row.
  destruct (npos =? 3) eqn:E1; cbn [negb]; [|(split; [|split]); (split; intros H); try discriminate; try reflexivity; lia].
  destruct (nori =? 6) eqn:E2; cbn [negb]; [|(split; [|split]); (split; intros H); try discriminate; try reflexivity; lia].
  destruct (nsp =? 2) eqn:E3; cbn [negb]; [|(split; [|split]); (split; intros H); try discriminate; try reflexivity; lia].
  destruct ((tw =? 0) || (th =? 0)) eqn:E4; [(split; [|split]); (split; intros H); try discriminate; try reflexivity; lia|].
  destruct (bad_spacing spr spc) eqn:E5.
  - (split; [|split]); (split; intros H); try discriminate; try reflexivity; try lia.
  - pose proof (tile_count_pos C tw ltac:(lia)) as PC. pose proof (tile_count_pos R th ltac:(lia)) as PR.
    destruct (((C - 1) / tw + 1 <=? 0) || ((R - 1) / th + 1 <=? 0)) eqn:E6.
    + (split; [|split]); (split; intros H); try discriminate; try reflexivity; try lia.
    + (split; [|split]); (split; intros H); try discriminate; try reflexivity; try lia.
Qed.

(* a negative tile size with a matrix of size one: ONE tile at offset (1, 1) *)
Lemma tile_offsets_negative : forall th tw, th < 0 -> tw < 0 -> tile_offsets 1 1 th tw = [(1, 1)].
Proof.
  intros th tw Hh Hw. unfold tile_offsets, tiles_per_column, tiles_per_row.
  change (1 - 1) with 0. rewrite !Z.div_0_l by lia. change (0 + 1) with 1.
  change (zrange 1) with [0]. cbn [flat_map map app]. repeat f_equal; lia.
Qed.

(* ---- the generator consumed to the end ------------------------------------ *)
Lemma iter_ds_chk_agrees : forall d, ds_sizes_ok d -> bad_spacing (ds_spr d) (ds_spc d) = false ->
  iter_tiled_full_ds_chk d = iter_tiled_full_ds d.
Proof.
  intros d (HR & HC & Hh & Hw) Hsp. unfold iter_tiled_full_ds_chk, bind.
  destruct (iter_tiled_full_ds d) as [l|e]; [|reflexivity].
  destruct (ds_channels d); [reflexivity|].
  destruct (opt_default 1 (ds_nfp d) <=? 0); [reflexivity|].
  rewrite tile_positions_dom_agrees by lia. unfold tile_positions_chk. rewrite Hsp.
  replace ((ds_tw d =? 0) || (ds_th d =? 0)) with false by lia. reflexivity.
Qed.

(* it fails with the error of compute_tile_positions_per_frame iff the loop body runs *)
Lemma iter_ds_chk_spec : forall d l, iter_tiled_full_ds d = Ok l ->
  iter_tiled_full_ds_chk d =
  if (match ds_channels d with [] => true | _ => false end) || (opt_default 1 (ds_nfp d) <=? 0) then Ok l
  else map_res (fun _ => l)
         (tile_positions_dom 3 6 2 (ds_R d) (ds_C d) (ds_th d) (ds_tw d)
            (V3 (ds_x d) (ds_y d) 0) (ds_rc d) (ds_cc d) (ds_spr d) (ds_spc d)).
Proof.
  intros d l E. unfold iter_tiled_full_ds_chk, bind, map_res. rewrite E.
  destruct (ds_channels d); [reflexivity|]. cbn [orb].
  destruct (opt_default 1 (ds_nfp d) <=? 0); reflexivity.
Qed.

Lemma iter_ds_chk_nil : forall d l, iter_tiled_full_ds_chk d = Ok l ->
  (ds_channels d = [] \/ opt_default 1 (ds_nfp d) <= 0) -> l = [].
Proof.
  intros d l H Hz. unfold iter_tiled_full_ds_chk, bind in H.
  destruct (iter_tiled_full_ds d) as [l0|e] eqn:E; [|discriminate].
  assert (l0 = []).
  { destruct (iter_ds_total d) as (r & Er & [E'|E']); rewrite E' in Er; rewrite Er in E; [discriminate|].
    inversion E; subst l0. destruct Hz as [Hz|Hz].
    - rewrite Hz. reflexivity.
    - unfold iter_gen. rewrite zrange_nil by lia. cbn [flat_map]. apply flat_map_nil_inner. }
  subst l0. destruct (ds_channels d); [congruence|].
  destruct (opt_default 1 (ds_nfp d) <=? 0); [congruence|].
  destruct (tile_positions_dom _ _ _ _ _ _ _ _ _ _ _ _); [congruence|discriminate].
Qed.

(* ====================================================================== *)
(* 6. get_tile_array for all integer tile sizes; is_tiled_image             *)
(* ====================================================================== *)

(* for tile sizes >= 0 the Python-slice model is the plain one *)
Lemma tile_array_py_agrees : forall M R C ro co th tw pad, 0 <= th -> 0 <= tw ->
  get_tile_array_py M R C ro co th tw pad = get_tile_array M R C ro co th tw pad.
Proof.
  intros M R C ro co th tw pad Hh Hw. unfold get_tile_array_py, get_tile_array, py_end.
  destruct ((ro <? 1) || (R <? ro)) eqn:E1; [reflexivity|].
  destruct ((co <? 1) || (C <? co)) eqn:E2; [reflexivity|].
  cbv zeta.
  replace (Z.min (ro - 1 + th) R <? 0) with false by lia.
  replace (Z.min (co - 1 + tw) C <? 0) with false by lia.
  replace (Z.min (Z.min (ro - 1 + th) R) R) with (Z.min (ro - 1 + th) R) by lia.
  replace (Z.min (Z.min (co - 1 + tw) C) C) with (Z.min (co - 1 + tw) C) by lia.
  replace (Z.max (Z.min (co - 1 + tw) C - (co - 1)) 0) with (Z.min (co - 1 + tw) C - (co - 1)) by lia.
  reflexivity.
Qed.

(* same refusals for every tile size *)
Lemma tile_array_py_refuses : forall M R C ro co th tw pad,
  (ro < 1 \/ R < ro \/ co < 1 \/ C < co) <-> get_tile_array_py M R C ro co th tw pad = Err "ValueError"%string.
Proof.
  intros. unfold get_tile_array_py.
  destruct ((ro <? 1) || (R <? ro)) eqn:E1; [split; [reflexivity|lia]|].
  destruct ((co <? 1) || (C <? co)) eqn:E2; [split; [reflexivity|lia]|].
  destruct pad; (split; [lia|discriminate]).
Qed.

(* a negative tile size -n: if offset - 1 - n is still >= 0 the tile is empty,
   otherwise the cut runs from the offset up to n rows / columns before the END
   of the matrix (numpy's negative slice end); it is never padded *)
Lemma tile_shape_py_negative : forall M R C ro co th tw pad T, wf_matrix M R C -> th < 0 -> tw < 0 ->
  get_tile_array_py M R C ro co th tw pad = Ok T ->
  wf_matrix T (if ro - 1 + th <? 0 then Z.max (Z.max (ro - 1 + th + R) 0 - (ro - 1)) 0 else 0)
              (if co - 1 + tw <? 0 then Z.max (Z.max (co - 1 + tw + C) 0 - (co - 1)) 0 else 0).
Proof.
  intros M R C ro co th tw pad T [HlenM Hrows] Hh Hw. unfold get_tile_array_py, py_end.
  destruct ((ro <? 1) || (R <? ro)) eqn:E1; [discriminate|].
  destruct ((co <? 1) || (C <? co)) eqn:E2; [discriminate|].
  cbv zeta.
  replace (Z.max (ro - 1 + th - R) 0) with 0 by lia. replace (Z.max (co - 1 + tw - C) 0) with 0 by lia.
  replace (Z.min (ro - 1 + th) R) with (ro - 1 + th) by lia. replace (Z.min (co - 1 + tw) C) with (co - 1 + tw) by lia.
  assert (Hsl : forall {A} (l : list A) a b n, Z.of_nat (length l) = n -> 0 <= a -> b <= n ->
            Z.of_nat (length (slice_list a b l)) = Z.max (b - a) 0).
  { intros A l a b n Hl Ha Hb. destruct (Z_le_gt_dec a b).
    - rewrite length_slice by lia. lia.
    - unfold slice_list. replace (Z.to_nat (b - a)) with 0%nat by lia. cbn. lia. }
  assert (Hpad0 : forall {A} (d : A) l, pad_right d 0 l = l).
  { intros. unfold pad_right. cbn. apply app_nil_r. }
  intros E.
  assert (ET : T = map (slice_list (co - 1) (if co - 1 + tw <? 0 then Z.max (co - 1 + tw + C) 0 else Z.min (co - 1 + tw) C))
                   (slice_list (ro - 1) (if ro - 1 + th <? 0 then Z.max (ro - 1 + th + R) 0 else Z.min (ro - 1 + th) R) M)).
  { assert (Hmp : forall t : list (list Z), map (pad_right 0 0) t = t).
    { intros t. rewrite <- (map_id t) at 2. apply map_ext. intros row. apply Hpad0. }
    destruct pad; injection E as <-; [rewrite Hpad0, Hmp|]; reflexivity. }
  clear E. subst T. split.
  - rewrite map_length. rewrite (Hsl _ M _ _ R HlenM) by (try destruct (ro - 1 + th <? 0) eqn:Eb; lia).
    destruct (ro - 1 + th <? 0) eqn:Eb; lia.
  - intros row Hin. apply in_map_iff in Hin as (r1 & <- & Hr1). apply in_slice in Hr1. apply Hrows in Hr1.
    rewrite (Hsl _ r1 _ _ C Hr1) by (try destruct (co - 1 + tw <? 0) eqn:Eb; lia).
    destruct (co - 1 + tw <? 0) eqn:Eb; lia.
Qed.

Lemma is_tiled_image_iff : forall a b c, is_tiled_image a b c = true <-> a = true /\ b = true /\ c = true.
Proof. intros [|] [|] [|]; cbn; intuition congruence. Qed.

(* non-vacuity *)
Definition exN : list (list (list Z)) := [[[1;2];[3;4];[5;6]];[[7;8];[9;10];[11;12]]].
Lemma ex_ext2 :
  wf_nd exN 2 3 2 /\
  get_tile_array_nd 2 exN 2 3 1 3 2 2 true = Ok [[[5;6];[0;0]];[[11;12];[0;0]]] /\
  proj 1 exN = [[2;4;6];[8;10;12]] /\
  paste_all 5 3 2 2 (cut_all exM 5 3 2 2 false) = exM /\
  nth 5 (map snd (cut_all exM 5 3 2 2 false)) (Err "") = Ok [[15]] /\
  helper_positions 3 3 2 2 0 0 (V3 1 0 0) (V3 0 1 0) 1 1 None =
    map Ok (tile_positions 3 3 2 2 (V3 0 0 0) (V3 1 0 0) (V3 0 1 0) 1 1) /\
  length (helper_positions 3 3 2 2 0 0 (V3 1 0 0) (V3 0 1 0) 1 1 None) = 4%nat /\
  pf_tiled_full (exD SC_LABELMAP_SEG true) = Ok true /\ pf_tiled_full (exD SC_WSI false) = Ok false /\
  tile_positions_dom 3 6 2 0 3 2 2 (V3 0 0 0) (V3 1 0 0) (V3 0 1 0) 1 1 = Err "TypeError"%string /\
  tile_positions_dom 3 6 2 1 5 (-2) 3 (V3 0 0 0) (V3 1 0 0) (V3 0 1 0) 1 1 =
    Ok [((1, 1), V3 0 0 0); ((4, 1), V3 (0 + (3 * 1 * 1 + 0 * 1 * 0)) (0 + (3 * 1 * 0 + 0 * 1 * 1)) (0 + (3 * 1 * 0 + 0 * 1 * 0)))] /\
  get_tile_array_py [[0;1;2;3;4];[5;6;7;8;9];[10;11;12;13;14];[15;16;17;18;19]] 4 5 1 1 (-1) (-1) true =
    Ok [[0;1;2;3];[5;6;7;8];[10;11;12;13]].
Proof.
  split; [|repeat split; reflexivity].
  split; [reflexivity|].
  intros row [<-|[<-|[]]]; (split; [reflexivity|]); intros px Hpx; cbn in Hpx; intuition (subst; reflexivity).
Qed.

(* ====================================================================== *)
(* 7. the full-tiling test for all integer tile sizes                       *)
(* ====================================================================== *)

Lemma tiled_full_dom_agrees : forall ps th tw, 1 <= th -> 1 <= tw ->
  are_tiled_full_dom ps th tw = Ok (are_tiled_full_code ps th tw).
Proof.
  intros ps th tw Hh Hw. unfold are_tiled_full_dom, are_tiled_full_code, expected_positions, py_range1.
  replace ((th =? 0) || (tw =? 0)) with false by lia.
  destruct (scan_max ps (-1) (-1)) as [mr mc].
  replace (0 <? th) with true by lia. replace (0 <? tw) with true by lia. reflexivity.
Qed.

Lemma tiled_full_dom_error : forall ps th tw,
  are_tiled_full_dom ps th tw = Err "ValueError"%string <-> (th = 0 \/ tw = 0).
Proof.
  intros ps th tw. unfold are_tiled_full_dom.
  destruct ((th =? 0) || (tw =? 0)) eqn:E; [split; [lia|reflexivity]|].
  destruct (scan_max ps (-1) (-1)) as [mr mc]. split; [discriminate|lia].
Qed.

Lemma max_from_lb : forall l i, i <= max_from i l.
Proof. exact max_from_ge. Qed.

(* two negative tile sizes: nothing is accepted, not even the empty list
   (range(1, 0, -n) = [1], so the expected list is [(1, 1)], whose own
   maxima would be 1 and not -1) *)
Lemma tiled_full_dom_negative : forall ps th tw, th < 0 -> tw < 0 ->
  are_tiled_full_dom ps th tw = Ok false.
Proof.
  intros ps th tw Hh Hw. unfold are_tiled_full_dom, py_range1.
  replace ((th =? 0) || (tw =? 0)) with false by lia.
  rewrite scan_max_spec.
  replace (0 <? th) with false by lia. replace (0 <? tw) with false by lia.
  pose proof (max_from_ge (map fst ps) (-1)) as Lr. pose proof (max_from_ge (map snd ps) (-1)) as Lc.
  destruct ps as [|[r c] ps].
  - cbn [map max_from fold_left]. replace (-1 <? 0) with true by lia.
    change (- -1 - 1) with 0. rewrite !Z.div_0_l by lia. reflexivity.
  - set (mr := max_from (-1) (map fst ((r, c) :: ps))) in *.
    set (mc := max_from (-1) (map snd ((r, c) :: ps))) in *.
    assert (Hr : r <= mr) by (apply max_from_in; now left).
    destruct (mr <? 0) eqn:Er; [|reflexivity].
    destruct (mc <? 0) eqn:Ec; [|cbn [map]; rewrite flat_map_nil_inner; reflexivity].
    replace mr with (-1) by lia. replace mc with (-1) by lia. change (- -1 - 1) with 0.
    rewrite !Z.div_0_l by lia. change (zrange (1 + 0)) with [0]. cbn [map flat_map app length].
    destruct ps as [|q ps]; [|reflexivity]. cbn [length Nat.eqb negb zip_all_eq].
    replace (r =? 1 + 0 * th) with false by lia. reflexivity.
Qed.

(* one negative tile size: only the empty list is accepted *)
Lemma tiled_full_dom_one_negative : forall ps th tw, (th < 0 /\ 0 < tw) \/ (0 < th /\ tw < 0) ->
  are_tiled_full_dom ps th tw = Ok (match ps with [] => true | _ => false end).
Proof.
  intros ps th tw Hs. unfold are_tiled_full_dom, py_range1.
  replace ((th =? 0) || (tw =? 0)) with false by lia.
  rewrite scan_max_spec.
  pose proof (max_from_ge (map fst ps) (-1)) as Lr. pose proof (max_from_ge (map snd ps) (-1)) as Lc.
  destruct ps as [|[r c] ps].
  - cbn [map max_from fold_left]. rewrite range1_small by lia.
    destruct Hs as [[Hh Hw]|[Hh Hw]].
    + replace (0 <? th) with false by lia. replace (0 <? tw) with true by lia.
      cbn [map]. rewrite flat_map_nil_inner. reflexivity.
    + replace (0 <? th) with true by lia. reflexivity.
  - set (mr := max_from (-1) (map fst ((r, c) :: ps))) in *.
    set (mc := max_from (-1) (map snd ((r, c) :: ps))) in *.
    assert (Hr : r <= mr) by (apply max_from_in; now left).
    assert (Hc : c <= mc) by (apply (max_from_in (map snd ((r, c) :: ps))); now left).
    destruct Hs as [[Hh Hw]|[Hh Hw]].
    + replace (0 <? th) with false by lia. replace (0 <? tw) with true by lia.
      destruct (mr <? 0) eqn:Er; [|reflexivity].
      replace mr with (-1) by lia. change (- -1 - 1) with 0. rewrite Z.div_0_l by lia.
      change (zrange (1 + 0)) with [0]. cbn [map flat_map]. rewrite app_nil_r.
      destruct (Nat.eqb (length (map (fun c0 => (1 + 0 * th, c0)) (range1 mc tw))) (length ((r, c) :: ps))) eqn:El;
        [|reflexivity]. cbn [negb].
      destruct (range1 mc tw) as [|c1 l1]; [cbn in El; discriminate|]. cbn [map zip_all_eq].
      replace (r =? 1 + 0 * th) with false by lia. reflexivity.
    + replace (0 <? th) with true by lia. replace (0 <? tw) with false by lia.
      destruct (mc <? 0) eqn:Ec; [|cbn [map]; rewrite flat_map_nil_inner; reflexivity].
      replace mc with (-1) by lia. change (- -1 - 1) with 0. rewrite Z.div_0_l by lia.
      change (zrange (1 + 0)) with [0]. cbn [map].
      destruct (Nat.eqb (length (flat_map (fun r0 => [(r0, 1 + 0 * tw)]) (range1 mr th))) (length ((r, c) :: ps))) eqn:El;
        [|reflexivity]. cbn [negb].
      destruct (range1 mr th) as [|r1 l1]; [cbn in El; discriminate|]. cbn [flat_map app zip_all_eq].
      replace (c =? 1 + 0 * tw) with false by lia. now rewrite orb_true_r.
Qed.
