(* C15 - proofs, part 3: references derived from a segmentation object. *)
From Coq Require Import String ZArith List Bool Lia.
From HD Require Import Base.Val C15_Model C15_Proofs.
Import ListNotations.
Open Scope Z_scope.

(* frame number f is valid in g and names frame record fi *)
Definition names_frame (g : seg) (f : Z) (fi : seg_frame) : Prop :=
  1 <= f <= g_nframes g /\ frame_at g f = Some fi.

(* ---- ReferencedSegment.from_segmentation -------------------------------------- *)
Lemma rs_check_frames_iff : forall g sn fs infos,
  rs_check_frames g sn fs = Ok infos <->
  Forall2 (fun f fi => names_frame g f fi /\ f_segment fi = sn) fs infos.
Proof.
  intros g sn. induction fs as [|f fs IH]; intros infos; cbn [rs_check_frames].
  - split; [intros H; inversion H; constructor|intros H; inversion H; reflexivity].
  - destruct ((f <? 1) || (g_nframes g <? f)) eqn:Er.
    + split; [discriminate|]. intros H. inversion H as [|? fi ? ? [[Hr _] _] _]; subst. lia.
    + destruct (frame_at g f) as [fi|] eqn:Ef.
      * destruct (f_segment fi =? sn) eqn:Es; cbn [negb].
        -- destruct (rs_check_frames g sn fs) as [l|k] eqn:El; cbn [bind].
           ++ split.
              ** intros H. inversion H; subst. constructor; [|now apply IH].
                 unfold names_frame. repeat split; try lia; try assumption; try (now apply Z.eqb_eq).
              ** intros H. inversion H as [|? fi' ? l' [[_ Hf] _] Hr]; subst.
                 rewrite Ef in Hf. inversion Hf; subst. apply IH in Hr. now inversion Hr.
           ++ split; [discriminate|]. intros H. inversion H as [|? fi' ? l' _ Hr]; subst.
              apply IH in Hr. discriminate.
        -- split; [discriminate|]. intros H. inversion H as [|? fi' ? l' [[_ Hf] Hs] _]; subst.
           rewrite Ef in Hf. inversion Hf; subst. apply Z.eqb_neq in Es. contradiction.
      * split; [discriminate|]. intros H. inversion H as [|? fi' ? l' [[_ Hf] _] _]; subst. congruence.
Qed.

(* frames used by the reference *)
Definition rs_infos (g : seg) (sn : Z) (fns : option (list Z)) (infos : list seg_frame) : Prop :=
  match fns with
  | Some fs => Forall2 (fun f fi => names_frame g f fi /\ f_segment fi = sn) fs infos
  | None => infos = filter (fun fi => f_segment fi =? sn) (g_frames g) /\ infos <> []
  end.

Lemma dedup_src_in : forall l seen s, In s (dedup_src seen l) -> In s l /\ ~ In (s_uid s) seen.
Proof.
  induction l as [|x l IH]; intros seen s H; cbn [dedup_src] in H; [destruct H|].
  destruct (mem (s_uid x) seen) eqn:E.
  - apply IH in H. destruct H. split; [now right|assumption].
  - apply mem_false in E. destruct H as [<-|H]; [split; [now left|assumption]|].
    apply IH in H. destruct H as [H1 H2]. split; [now right|]. intro; apply H2; now right.
Qed.

Lemma dedup_src_NoDup : forall l seen, NoDup (map s_uid (dedup_src seen l)).
Proof.
  induction l as [|x l IH]; intros seen; cbn [dedup_src map]; [constructor|].
  destruct (mem (s_uid x) seen); [apply IH|]. cbn [map]. constructor; [|apply IH].
  intro Hin. apply in_map_iff in Hin. destruct Hin as [s [E Hs]]. apply dedup_src_in in Hs.
  destruct Hs as [_ Hn]. apply Hn. left. now symmetry.
Qed.

Lemma dedup_src_covers : forall l seen s, In s l -> ~ In (s_uid s) seen ->
  In (s_uid s) (map s_uid (dedup_src seen l)).
Proof.
  induction l as [|x l IH]; intros seen s H Hn; [destruct H|]. cbn [dedup_src].
  destruct (mem (s_uid x) seen) eqn:E.
  - destruct H as [->|H]; [apply mem_In in E; contradiction|now apply IH].
  - cbn [map In]. destruct H as [->|H]; [now left|].
    destruct (Z.eq_dec (s_uid x) (s_uid s)) as [Eq|Ne]; [now left|]. right.
    apply IH; [assumption|]. intros [?|?]; [congruence|contradiction].
Qed.

(* the named source of an instance is the FIRST derivation reference to it *)
Lemma dedup_src_first : forall l seen s, In s (dedup_src seen l) ->
  find (fun x => s_uid x =? s_uid s) l = Some s.
Proof.
  induction l as [|x l IH]; intros seen s H; cbn [dedup_src] in H; [destruct H|]. cbn [find].
  destruct (mem (s_uid x) seen) eqn:E.
  - pose proof (dedup_src_in _ _ _ H) as [_ Hn]. apply mem_In in E.
    destruct (s_uid x =? s_uid s) eqn:Eq; [apply Z.eqb_eq in Eq; rewrite Eq in E; contradiction|].
    eapply IH; eassumption.
  - destruct H as [<-|H]; [now rewrite Z.eqb_refl|].
    pose proof (dedup_src_in _ _ _ H) as [_ Hn].
    destruct (s_uid x =? s_uid s) eqn:Eq; [apply Z.eqb_eq in Eq; exfalso; apply Hn; now left|].
    eapply IH; eassumption.
Qed.

Lemma rs_spec : forall g sn fns r, rs_from_segmentation g sn fns = Ok r ->
  g_is_seg g = true /\ r_seg r = g_uid g /\ r_segment r = sn /\ r_frames r = fns /\
  exists infos, rs_infos g sn fns infos /\
    let D := flat_map frame_sources infos in
    (dedup_src [] D <> [] -> r_sources r = dedup_src [] D /\ r_series r = None) /\
    (dedup_src [] D = [] ->
       exists rs, g_refseries g = Some rs /\
         ((exists l, rs_instances rs = Some l /\ l <> [] /\ r_series r = None /\
                     r_sources r = map (fun uc => Src (fst uc) (snd uc) None) l) \/
          (rs_instances rs = None /\ r_sources r = [] /\ r_series r = rs_series rs /\ r_series r <> None))).
Proof.
  intros g sn fns r H. unfold rs_from_segmentation in H.
  destruct (g_is_seg g); cbn [negb] in H; [|discriminate].
  assert (Hi : exists infos, rs_infos g sn fns infos /\
     match dedup_src [] (flat_map frame_sources infos) with
     | s :: l => Ok (RS (g_uid g) sn fns (s :: l) None)
     | [] => match g_refseries g with
             | None => Err "AttributeError"
             | Some rs => match rs_instances rs with
                          | Some [] => Err "ValueError"
                          | Some l => Ok (RS (g_uid g) sn fns (map (fun uc => Src (fst uc) (snd uc) None) l) None)
                          | None => match rs_series rs with
                                    | Some se => Ok (RS (g_uid g) sn fns [] (Some se))
                                    | None => Err "AttributeError" end
                          end
             end
     end = Ok r).
  { destruct fns as [fs|]; cbn [rs_infos].
    - destruct (rs_check_frames g sn fs) as [infos|k] eqn:E; cbn [bind] in H; [|discriminate].
      exists infos. split; [now apply rs_check_frames_iff|exact H].
    - destruct (filter (fun fi => f_segment fi =? sn) (g_frames g)) as [|x l] eqn:E; cbn [bind] in H; [discriminate|].
      exists (x :: l). split; [split; [reflexivity|discriminate]|exact H]. }
  clear H. destruct Hi as [infos [Hinf H]].
  destruct (dedup_src [] (flat_map frame_sources infos)) as [|s l] eqn:ED.
  - destruct (g_refseries g) as [rs|]; [|discriminate].
    destruct (rs_instances rs) as [[|uc l]|] eqn:EI; [discriminate| |].
    + inversion H; subst r. cbn [r_seg r_segment r_frames r_sources r_series].
      repeat split. exists infos. split; [assumption|]. cbn zeta. rewrite ED. split; [intros Hn; now elim Hn|].
      intros _. exists rs. split; [reflexivity|]. left. exists (uc :: l). repeat split; try reflexivity; try assumption; try discriminate.
    + destruct (rs_series rs) as [se|] eqn:ES; [|discriminate]. inversion H; subst r.
      cbn [r_seg r_segment r_frames r_sources r_series].
      repeat split. exists infos. split; [assumption|]. cbn zeta. rewrite ED. split; [intros Hn; now elim Hn|].
      intros _. exists rs. split; [reflexivity|]. right. repeat split; try reflexivity; try assumption; try discriminate; try (now symmetry).
  - inversion H; subst r. cbn [r_seg r_segment r_frames r_sources r_series].
    repeat split. exists infos. split; [assumption|]. cbn zeta. rewrite ED.
    split; [intros _; split; reflexivity|discriminate].
Qed.

(* invalid or foreign frames are refused *)
Lemma rs_bad_frame_refused : forall g sn fs f,
  In f fs -> (f < 1 \/ g_nframes g < f \/ exists fi, frame_at g f = Some fi /\ f_segment fi <> sn) ->
  forall r, rs_from_segmentation g sn (Some fs) <> Ok r.
Proof.
  intros g sn fs f Hin Hbad r H. apply rs_spec in H.
  destruct H as [_ [_ [_ [_ [infos [Hinf _]]]]]]. cbn [rs_infos] in Hinf.
  revert Hin. induction Hinf as [|f0 fi0 fs0 l0 [[Hr Hf] Hs] _ IH]; intros Hin; [destruct Hin|].
  destruct Hin as [->|Hin]; [|now apply IH].
  destruct Hbad as [?|[?|[fi [Hf' Hs']]]]; try lia. rewrite Hf in Hf'. inversion Hf'; subst. contradiction.
Qed.

Lemma rs_frames_refusal_kind : forall g sn fs k,
  g_nframes g = Z.of_nat (length (g_frames g)) ->
  rs_check_frames g sn fs = Err k -> k = "ValueError"%string.
Proof.
  intros g sn fs k W. induction fs as [|f fs IH]; cbn [rs_check_frames]; [discriminate|].
  destruct ((f <? 1) || (g_nframes g <? f)) eqn:Er; [intros H; now inversion H|].
  destruct (frame_at g f) as [fi|] eqn:Ef.
  - destruct (f_segment fi =? sn); cbn [negb]; [|intros H; now inversion H].
    destruct (rs_check_frames g sn fs); cbn [bind]; [discriminate|]. intros H. inversion H; subst. now apply IH.
  - exfalso. unfold frame_at in Ef. apply nth_error_None in Ef. lia.
Qed.

(* ---- ReferencedSegmentationFrame.from_segmentation ------------------------------ *)
(* the source of the first frame (in the order given) whose derivation names one *)
Inductive first_source : list seg_frame -> option src -> Prop :=
| fs_none : forall fis, Forall (fun x => frame_source x = Ok None) fis -> first_source fis None
| fs_some : forall pre fi post s,
    Forall (fun x => frame_source x = Ok None) pre -> frame_source fi = Ok (Some s) ->
    first_source (pre ++ fi :: post) (Some s).

Lemma rsf_loop_spec : forall g fns segs found segs' found',
  rsf_loop g fns segs found = Ok (segs', found') ->
  exists fis, Forall2 (names_frame g) fns fis /\ segs' = segs ++ map f_segment fis /\
    (forall s, found = Some s -> found' = Some s) /\
    (found = None -> first_source fis found').
Proof.
  intros g. induction fns as [|f fns IH]; intros segs found segs' found' H; cbn [rsf_loop] in H.
  - inversion H; subst. exists []. repeat split; [constructor|now rewrite app_nil_r|auto|].
    intros ->. constructor. constructor.
  - destruct ((f <? 1) || (g_nframes g <? f)) eqn:Er; [discriminate|].
    destruct (frame_at g f) as [fi|] eqn:Ef; [|discriminate].
    assert (Hn : names_frame g f fi) by (unfold names_frame; split; [lia|assumption]).
    destruct found as [s0|].
    + apply IH in H. destruct H as [fis [F2 [E [Hs _]]]]. exists (fi :: fis).
      repeat split; [constructor; assumption|cbn [map]; now rewrite <- app_assoc in E|auto|discriminate].
    + destruct (frame_source fi) as [os|k] eqn:Efs; cbn [bind] in H; [|discriminate].
      apply IH in H. destruct H as [fis [F2 [E [Hs Hnone]]]]. exists (fi :: fis).
      repeat split; [constructor; assumption|cbn [map]; now rewrite <- app_assoc in E|discriminate|].
      intros _. destruct os as [s|].
      * rewrite (Hs s eq_refl). apply (fs_some [] fi fis s); [constructor|assumption].
      * specialize (Hnone eq_refl). inversion Hnone as [fis0 Hall|pre fi1 post s Hpre Hsrc]; subst.
        -- constructor. constructor; assumption.
        -- apply (fs_some (fi :: pre) fi1 post s); [constructor; assumption|assumption].
Qed.

Definition requested_frames (g : seg) (fa : fn_arg) (sn : option Z) (fns : list Z) : Prop :=
  match fa with
  | FInt z => fns = [z]
  | FList l => fns = l
  | FNone => exists n, sn = Some n /\ fns = frames_of_segment n 1 (g_frames g) /\
                       (g_tiled g = true \/ exists f, fns = [f])
  end.

Lemma rsf_spec : forall g fa sn r, rsf_from_segmentation g fa sn = Ok r ->
  g_is_seg g = true /\ q_seg r = g_uid g /\ requested_frames g fa sn (q_frames r) /\ q_frames r <> [] /\
  (forall m, sn = Some m -> q_segment r = m) /\
  exists fis, Forall2 (names_frame g) (q_frames r) fis /\
    Forall (fun fi => f_segment fi = q_segment r) fis /\
    (first_source fis (Some (q_src r)) \/
     (first_source fis None /\ exists rs uc, g_refseries g = Some rs /\ rs_instances rs = Some [uc] /\
                                            q_src r = Src (fst uc) (snd uc) None)).
Proof.
  intros g fa sn r H. unfold rsf_from_segmentation in H.
  destruct (g_is_seg g); cbn [negb] in H; [|discriminate].
  match type of H with bind ?X _ = _ => destruct X as [fns|k] eqn:EF end; cbn [bind] in H; [|discriminate].
  assert (HR : requested_frames g fa sn fns).
  { destruct fa as [|z|l]; cbn [requested_frames].
    - destruct sn as [n|]; [|discriminate]. exists n. split; [reflexivity|].
      destruct (frames_of_segment n 1 (g_frames g)) as [|f [|f2 l]] eqn:E; [discriminate| |].
      + inversion EF; subst. split; [reflexivity|]. right. eauto.
      + destruct (g_tiled g); [|discriminate]. inversion EF; subst. split; [reflexivity|now left].
    - now inversion EF.
    - now inversion EF. }
  destruct (rsf_loop g fns [] None) as [[segs found]|k] eqn:EL; cbn [bind] in H; [|discriminate].
  apply rsf_loop_spec in EL. destruct EL as [fis [F2 [Esegs [_ Hfirst]]]]. specialize (Hfirst eq_refl).
  cbn [app] in Esegs. cbn [fst snd] in H.
  match type of H with bind ?X _ = _ => destruct X as [s|k] eqn:ES end; cbn [bind] in H; [|discriminate].
  destruct segs as [|n more]; [discriminate|].
  destruct (forallb (Z.eqb n) more) eqn:EA; cbn [negb] in H; [|discriminate].
  assert (Hall : Forall (fun fi => f_segment fi = n) fis).
  { apply Forall_forall. intros fi Hin. assert (Hm : In (f_segment fi) (n :: more)) by (rewrite Esegs; now apply in_map).
    destruct Hm as [<-|Hm]; [reflexivity|]. rewrite forallb_forall in EA. specialize (EA _ Hm). apply Z.eqb_eq in EA. now symmetry. }
  assert (Hsn : forall m, sn = Some m -> m = n /\ Ok (RSF (g_uid g) fns n s) = Ok r).
  { intros m ->. destruct (m =? n) eqn:Em; cbn [negb] in H; [|discriminate]. apply Z.eqb_eq in Em. auto. }
  assert (Hr : r = RSF (g_uid g) fns n s).
  { destruct sn as [m|]; [destruct (Hsn m eq_refl) as [_ E]; now inversion E|now inversion H]. }
  subst r. cbn [q_seg q_frames q_segment q_src].
  repeat split; try assumption.
  - intros ->. inversion F2; subst. discriminate.
  - intros m Hm. destruct (Hsn m Hm) as [-> _]. reflexivity.
  - exists fis. repeat split; try assumption.
    destruct found as [s0|]; cbn [snd] in ES.
    + inversion ES; subst. now left.
    + right. split; [assumption|]. destruct (g_refseries g) as [rs|]; [|discriminate].
      destruct (rs_instances rs) as [[|uc [|uc2 l]]|] eqn:EI; try discriminate.
      inversion ES; subst. exists rs, uc. repeat split; try reflexivity; assumption.
Qed.

(* a frame number out of range is refused wherever it stands in the list *)
Lemma rsf_invalid_frame_refused : forall g fa sn fns f,
  requested_frames g fa sn fns -> (fa = FNone -> False) ->
  In f fns -> (f < 1 \/ g_nframes g < f) ->
  forall r, rsf_from_segmentation g fa sn <> Ok r.
Proof.
  intros g fa sn fns f HR Hfa Hin Hbad r H. apply rsf_spec in H.
  destruct H as [_ [_ [HR' [_ [_ [fis [F2 _]]]]]]].
  assert (E : q_frames r = fns).
  { destruct fa as [|z|l]; [now elim Hfa| |]; cbn [requested_frames] in *; congruence. }
  rewrite E in F2. clear - F2 Hin Hbad. revert Hin.
  induction F2 as [|f0 fi0 fs0 l0 [Hr _] _ IH]; intros Hin; [destruct Hin|].
  destruct Hin as [->|Hin]; [lia|now apply IH].
Qed.

(* frames of two different segments are refused *)
Lemma rsf_mixed_segments_refused : forall g fa sn r f1 f2 fi1 fi2,
  rsf_from_segmentation g fa sn = Ok r ->
  In f1 (q_frames r) -> In f2 (q_frames r) ->
  frame_at g f1 = Some fi1 -> frame_at g f2 = Some fi2 -> f_segment fi1 = f_segment fi2.
Proof.
  intros g fa sn r f1 f2 fi1 fi2 H H1 H2 E1 E2. apply rsf_spec in H.
  destruct H as [_ [_ [_ [_ [_ [fis [F2 [Hall _]]]]]]]].
  assert (K : forall f fi, In f (q_frames r) -> frame_at g f = Some fi -> f_segment fi = q_segment r).
  { clear - F2 Hall. induction F2 as [|f0 fi0 fs0 l0 [_ Hf] _ IH]; intros f fi Hin Hat; [destruct Hin|].
    inversion Hall; subst. destruct Hin as [->|Hin]; [rewrite Hf in Hat; inversion Hat; now subst|].
    eapply IH; eassumption. }
  rewrite (K _ _ H1 E1), (K _ _ H2 E2). reflexivity.
Qed.

(* all frames of the segment, and only those, when no frame is named *)
Lemma frames_of_segment_spec : forall sn l i f,
  In f (frames_of_segment sn i l) <->
  i <= f /\ exists fi, nth_error l (Z.to_nat (f - i)) = Some fi /\ f_segment fi = sn.
Proof.
  intros sn. induction l as [|x l IH]; intros i f; cbn [frames_of_segment].
  - split; [intros []|]. intros [_ [fi [H _]]]. destruct (Z.to_nat (f - i)); discriminate.
  - rewrite in_app_iff, IH. split.
    + intros [H|[Hi [fi [Hn Hs]]]].
      * destruct (f_segment x =? sn) eqn:E; [|destruct H]. destruct H as [<-|[]].
        split; [lia|]. exists x. rewrite Z.sub_diag. split; [reflexivity|now apply Z.eqb_eq].
      * split; [lia|]. exists fi. split; [|assumption].
        replace (Z.to_nat (f - i)) with (S (Z.to_nat (f - (i + 1)))) by lia. exact Hn.
    + intros [Hi [fi [Hn Hs]]]. destruct (Z.eq_dec f i) as [->|Hne].
      * left. rewrite Z.sub_diag in Hn. cbn in Hn. inversion Hn; subst.
        rewrite Z.eqb_refl. now left.
      * right. split; [lia|]. exists fi. split; [|assumption].
        replace (Z.to_nat (f - i)) with (S (Z.to_nat (f - (i + 1)))) in Hn by lia. exact Hn.
Qed.

Lemma dedup_src_facts : forall l,
  NoDup (map s_uid (dedup_src [] l)) /\
  (forall s, In s (dedup_src [] l) -> find (fun x => s_uid x =? s_uid s) l = Some s) /\
  (forall s, In s l -> In (s_uid s) (map s_uid (dedup_src [] l))).
Proof.
  intros l. split; [apply dedup_src_NoDup|]. split.
  - intros s H. eapply dedup_src_first; eassumption.
  - intros s H. apply dedup_src_covers; [assumption|intros []].
Qed.
