(* C15 - proofs, part 2: evidence partition, refusal, documents, read-back,
   3-D coordinate rejection, verification guard, parsing, key object documents. *)
From Coq Require Import String ZArith List Bool Lia Permutation.
From HD Require Import Base.Val C15_Model C15_Proofs.
Import ListNotations.
Open Scope Z_scope.

(* ---- referenced uids ------------------------------------------------------------ *)
Lemma ref_uids_of_spec : forall l R, ref_uids_of l = Ok R ->
  forall u, In u R <-> exists it c, In it l /\ i_ref it = Some (u, c).
Proof.
  induction l as [|it l IH]; intros R H u; cbn [ref_uids_of] in H.
  - inversion H; subst. split; [intros []|intros [? [? [[] _]]]].
  - destruct (i_ref it) as [[u0 c0]|] eqn:E; [|discriminate].
    destruct (ref_uids_of l) as [us|k] eqn:El; cbn [bind] in H; [|discriminate].
    inversion H; subst. cbn [fst In]. rewrite (IH us eq_refl u). split.
    + intros [<-|[x [c [Hx Hr]]]]; [exists it, c0; split; [now left|assumption]|].
      exists x, c. split; [now right|assumption].
    + intros [x [c [[<-|Hx] Hr]]]; [left; rewrite E in Hr; now inversion Hr|].
      right. exists x, c. now split.
Qed.

Lemma ref_uids_of_total : forall l, (forall it, In it l -> i_ref it <> None) -> exists R, ref_uids_of l = Ok R.
Proof.
  induction l as [|it l IH]; intros H; cbn [ref_uids_of]; [now exists []|].
  destruct (i_ref it) as [uc|] eqn:E; [|exfalso; apply (H it); [now left|assumption]].
  destruct IH as [R HR]; [intros x Hx; apply H; now right|]. rewrite HR. cbn [bind]. eauto.
Qed.

Lemma ref_uids_of_err : forall l k, ref_uids_of l = Err k ->
  k = "AttributeError"%string /\ exists it, In it l /\ i_ref it = None.
Proof.
  induction l as [|it l IH]; intros k H; cbn [ref_uids_of] in H; [discriminate|].
  destruct (i_ref it) as [uc|] eqn:E.
  - destruct (ref_uids_of l) as [us|k'] eqn:El; cbn [bind] in H; [discriminate|].
    inversion H; subst. destruct (IH k eq_refl) as [-> [x [Hx Hr]]]. split; [reflexivity|].
    exists x. split; [now right|assumption].
  - inversion H. split; [reflexivity|]. exists it. split; [now left|assumption].
Qed.

Lemma has_vt_true : forall t it, has_vt t it = true <-> i_vt it = t.
Proof. intros. unfold has_vt. apply vt_eqb_eq. Qed.

Lemma references_in : forall root it,
  In it (references root) <-> In it (descendants root) /\ (i_vt it = IMAGE \/ i_vt it = COMPOSITE).
Proof.
  intros. unfold references. rewrite in_app_iff, !search_tree_recursive, !filter_In, !has_vt_true. tauto.
Qed.

Lemma R_spec : forall root R, ref_uids_of (references root) = Ok R ->
  forall u, In u R <-> referenced root u.
Proof.
  intros root R H u. rewrite (ref_uids_of_spec _ _ H u). unfold referenced. split.
  - intros [it [c [Hin Hr]]]. apply references_in in Hin. destruct Hin as [Hd Hv]. exists it, c. auto.
  - intros [it [c [Hd [Hv Hr]]]]. exists it, c. split; [apply references_in; auto|assumption].
Qed.

Lemma refs_wf_total : forall root, refs_wf root -> exists R, ref_uids_of (references root) = Ok R.
Proof.
  intros root H. apply ref_uids_of_total. intros it Hin. apply references_in in Hin.
  destruct Hin as [Hd Hv]. now apply H.
Qed.

(* ---- partition -------------------------------------------------------------------- *)
Definition t4_of (kv : (Z * Z) * inst) : Z * Z * Z * Z :=
  (fst (fst kv), snd (fst kv), fst (snd kv), snd (snd kv)).

Lemma flat1_gflat : forall g, flat1 g = map t4_of (gflat g).
Proof.
  induction g as [|[[st se] is] g IH]; [reflexivity|].
  unfold flat1, gflat in *. cbn [flat_map fst snd]. rewrite map_app, <- IH. f_equal.
  rewrite map_map. reflexivity.
Qed.

Lemma filter_split_perm {A} (p : A -> bool) : forall l,
  Permutation (filter p l ++ filter (fun x => negb (p x)) l) l.
Proof.
  induction l as [|a l IH]; cbn [filter app]; [constructor|].
  destruct (p a); cbn [negb app].
  - now constructor.
  - apply Permutation_sym. apply Permutation_cons_app. now apply Permutation_sym.
Qed.

Definition in_R (R : list Z) (e : evd) : bool := mem (e_uid e) R.

(* the raw statement: what collect_evidence returns, as multisets of
   (study, series, uid, class), is the de-duplicated supplied evidence split by
   membership in the referenced uids; plus the structural facts *)
Lemma collect_ok : forall ev root cur oth,
  collect_evidence true ev root = Ok (cur, oth) ->
  exists R, ref_uids_of (references root) = Ok R /\
    (forall u, In u R -> In u (map e_uid ev)) /\
    Permutation (flatten cur) (map tup (filter (in_R R) (dedup_uid [] ev))) /\
    Permutation (flatten oth) (map tup (filter (fun e => negb (in_R R e)) (dedup_uid [] ev))) /\
    NoDup (map fst cur) /\ NoDup (flatten_series cur) /\
    NoDup (map fst oth) /\ NoDup (flatten_series oth).
Proof.
  intros ev root cur oth H. unfold collect_evidence in H. cbn [negb] in H.
  destruct (ref_uids_of (references root)) as [R|k] eqn:ER; cbn [bind] in H; [|discriminate].
  exists R. split; [reflexivity|].
  pose proof (collect_fold R ev [] [] []) as F. cbn zeta in F. unfold sgroups in F.
  destruct (fold_left (collect_step R) ev ([], [], [])) as [[seen rg] ug] eqn:EF.
  cbn [fst snd] in F. destruct F as [F1 [F2 [F3 [F4 F5]]]].
  destruct (forallb (fun u => mem u seen) R) eqn:EA; [|discriminate].
  inversion H; subst cur oth. clear H.
  assert (T : forall l : list evd, map t4_of (map kv_of l) = map tup l).
  { intros l. rewrite map_map. apply map_ext. intros [u c st se]. reflexivity. }
  repeat split.
  - intros u Hu. rewrite forallb_forall in EA. specialize (EA u Hu). apply mem_In in EA.
    rewrite F1, app_nil_r in EA. apply in_rev in EA. now apply dedup_uid_covers.
  - rewrite create_references_perm, flat1_gflat. cbn [gflat flat_map app] in F2.
    rewrite <- T. now apply Permutation_map.
  - rewrite create_references_perm, flat1_gflat. cbn [gflat flat_map app] in F3.
    rewrite <- T. now apply Permutation_map.
  - apply create_references_studies_NoDup.
  - apply create_references_series_NoDup. apply F4. constructor.
  - apply create_references_studies_NoDup.
  - apply create_references_series_NoDup. apply F5. constructor.
Qed.

Lemma tup_eq : forall e st se u c, tup e = (st, se, u, c) <-> e = Evd u c st se.
Proof. intros [u0 c0 st0 se0] st se u c. unfold tup. cbn. split; intros E; inversion E; reflexivity. Qed.

Lemma in_surviving : forall ev e, In e (dedup_uid [] ev) <-> first_evd ev (e_uid e) = Some e.
Proof. intros. rewrite dedup_uid_spec. cbn [In]. tauto. Qed.

Lemma partition_current : forall ev root cur oth,
  collect_evidence true ev root = Ok (cur, oth) ->
  forall st se u c, In (st, se, u, c) (flatten cur) <->
    referenced root u /\ first_evd ev u = Some (Evd u c st se).
Proof.
  intros ev root cur oth H st se u c.
  destruct (collect_ok _ _ _ _ H) as [R [HR [_ [P1 _]]]].
  split.
  - intros Hin. apply (Permutation_in _ P1) in Hin. apply in_map_iff in Hin.
    destruct Hin as [e [E He]]. apply filter_In in He. destruct He as [He Hm].
    apply tup_eq in E. subst e. apply in_surviving in He. cbn [e_uid] in He.
    unfold in_R in Hm. cbn [e_uid] in Hm. apply mem_In in Hm. split; [now apply (R_spec _ _ HR)|assumption].
  - intros [Hr Hf]. apply (Permutation_in _ (Permutation_sym P1)). apply in_map_iff.
    exists (Evd u c st se). split; [reflexivity|]. apply filter_In. split.
    + apply in_surviving. exact Hf.
    + unfold in_R. cbn [e_uid]. apply mem_In. now apply (R_spec _ _ HR).
Qed.

Lemma partition_other : forall ev root cur oth,
  collect_evidence true ev root = Ok (cur, oth) ->
  forall st se u c, In (st, se, u, c) (flatten oth) <->
    ~ referenced root u /\ first_evd ev u = Some (Evd u c st se).
Proof.
  intros ev root cur oth H st se u c.
  destruct (collect_ok _ _ _ _ H) as [R [HR [_ [_ [P2 _]]]]].
  split.
  - intros Hin. apply (Permutation_in _ P2) in Hin. apply in_map_iff in Hin.
    destruct Hin as [e [E He]]. apply filter_In in He. destruct He as [He Hm].
    apply tup_eq in E. subst e. apply in_surviving in He. cbn [e_uid] in He.
    unfold in_R in Hm. cbn [e_uid] in Hm. apply negb_true_iff, mem_false in Hm.
    split; [intro Hr; apply Hm; now apply (R_spec _ _ HR)|assumption].
  - intros [Hr Hf]. apply (Permutation_in _ (Permutation_sym P2)). apply in_map_iff.
    exists (Evd u c st se). split; [reflexivity|]. apply filter_In. split.
    + apply in_surviving. exact Hf.
    + unfold in_R. cbn [e_uid]. apply negb_true_iff, mem_false. intro Hin. apply Hr. now apply (R_spec _ _ HR).
Qed.

(* every instance at most once over BOTH sequences together *)
Lemma partition_once : forall ev root cur oth,
  collect_evidence true ev root = Ok (cur, oth) ->
  NoDup (map uid4 (flatten cur ++ flatten oth)).
Proof.
  intros ev root cur oth H.
  destruct (collect_ok _ _ _ _ H) as [R [_ [_ [P1 [P2 _]]]]].
  eapply Permutation_NoDup.
  - apply Permutation_map. apply Permutation_sym. apply Permutation_app; eassumption.
  - rewrite <- map_app, map_map.
    assert (E : forall l : list evd, map (fun x => uid4 (tup x)) l = map e_uid l) by (intros; now apply map_ext).
    rewrite E. eapply Permutation_NoDup.
    + apply Permutation_map. apply Permutation_sym. apply filter_split_perm.
    + apply dedup_uid_NoDup.
Qed.

Lemma partition_grouping : forall ev root cur oth,
  collect_evidence true ev root = Ok (cur, oth) ->
  NoDup (map fst cur) /\ NoDup (flatten_series cur) /\
  (forall st sers, In (st, sers) cur -> NoDup (map fst sers)) /\
  NoDup (map fst oth) /\ NoDup (flatten_series oth) /\
  (forall st sers, In (st, sers) oth -> NoDup (map fst sers)).
Proof.
  intros ev root cur oth H.
  destruct (collect_ok _ _ _ _ H) as [R [_ [_ [_ [_ [N1 [N2 [N3 N4]]]]]]]].
  repeat split; try assumption.
  - intros st sers Hin. exact (series_NoDup_under_study cur st sers N2 Hin).
  - intros st sers Hin. exact (series_NoDup_under_study oth st sers N4 Hin).
Qed.

(* ---- refusal ------------------------------------------------------------------------ *)
Lemma collect_accepts_iff : forall ev root, refs_wf root ->
  ((exists r, collect_evidence true ev root = Ok r) <->
   (forall u, referenced root u -> In u (map e_uid ev))).
Proof.
  intros ev root W. split.
  - intros [[cur oth] H]. destruct (collect_ok _ _ _ _ H) as [R [HR [Hs _]]].
    intros u Hu. apply Hs. now apply (R_spec _ _ HR).
  - intros Hs. destruct (refs_wf_total _ W) as [R HR].
    unfold collect_evidence. cbn [negb]. rewrite HR. cbn [bind].
    pose proof (collect_fold R ev [] [] []) as F. cbn zeta in F. unfold sgroups in F.
    destruct (fold_left (collect_step R) ev ([], [], [])) as [[seen rg] ug] eqn:EF.
    cbn [fst snd] in F. destruct F as [F1 _].
    assert (EA : forallb (fun u => mem u seen) R = true).
    { apply forallb_forall. intros u Hu. apply mem_In. rewrite F1, app_nil_r. apply in_rev.
      rewrite rev_involutive. apply dedup_uid_covers. apply Hs. now apply (R_spec _ _ HR). }
    rewrite EA. eauto.
Qed.

Lemma collect_refused_iff : forall ev root, refs_wf root ->
  (collect_evidence true ev root = Err "ValueError" <->
   ~ (forall u, referenced root u -> In u (map e_uid ev))).
Proof.
  intros ev root W. rewrite <- (collect_accepts_iff ev root W). split.
  - intros H [r Hr]. congruence.
  - intros Hn. destruct (refs_wf_total _ W) as [R HR].
    unfold collect_evidence in *. cbn [negb] in *. rewrite HR in *. cbn [bind] in *.
    destruct (fold_left (collect_step R) ev ([], [], [])) as [[seen rg] ug].
    destruct (forallb (fun u => mem u seen) R); [exfalso; apply Hn; eauto|reflexivity].
Qed.

Lemma collect_attribute_error_iff : forall has_cs ev root,
  collect_evidence has_cs ev root = Err "AttributeError" <->
  (has_cs = false \/
   exists it, In it (descendants root) /\ (i_vt it = IMAGE \/ i_vt it = COMPOSITE) /\ i_ref it = None).
Proof.
  intros has_cs ev root. unfold collect_evidence. destruct has_cs; cbn [negb].
  - destruct (ref_uids_of (references root)) as [R|k] eqn:ER; cbn [bind].
    + split.
      * destruct (fold_left (collect_step R) ev ([], [], [])) as [[seen rg] ug].
        destruct (forallb (fun u => mem u seen) R); discriminate.
      * intros [?|[it [Hd [Hv Hn]]]]; [discriminate|]. exfalso.
        assert (Hin : In it (references root)) by (apply references_in; auto).
        clear - ER Hin Hn. revert R ER. induction (references root) as [|x l IH]; intros R ER; [destruct Hin|].
        cbn [ref_uids_of] in ER. destruct Hin as [->|Hin].
        -- rewrite Hn in ER. discriminate.
        -- destruct (i_ref x); [|discriminate]. destruct (ref_uids_of l) eqn:El; cbn [bind] in ER; [|discriminate].
           eapply IH; eauto.
    + destruct (ref_uids_of_err _ _ ER) as [-> [it [Hin Hn]]]. apply references_in in Hin.
      split; [intros _; right; exists it; tauto|reflexivity].
  - split; [now left|reflexivity].
Qed.

(* ---- documents ---------------------------------------------------------------------- *)
Definition single_root (c : content_arg) : option item :=
  match c with CDataset it => Some it | CSequence [it] => Some it | CSequence _ => None end.

Definition is_some {A} (o : option A) : bool := match o with Some _ => true | None => false end.

(* the document the constructor builds when every guard passes *)
Definition built_doc (cls : Z) (a : sr_args) (root : item) (cu : refs_t * refs_t) : doc :=
  Doc cls root (fst cu) (if a_record a then snd cu else [])
      (match a_previous a with None => None | Some pv => Some (collect_predecessors pv) end)
      (a_complete a) (a_verified a) (a_final a)
      (if a_verified a
       then match a_observer a, a_org a with Some n, Some o => Some (n, o) | _, _ => None end
       else None)
      (record_extras (a_extras a)).

Definition base_guards (a : sr_args) (root : item) (cu : refs_t * refs_t) : Prop :=
  a_evidence a <> [] /\ a_ts_ok a = true /\
  (a_verified a = true -> given (a_observer a) = true /\ given (a_org a) = true) /\
  single_root (a_content a) = Some root /\
  i_rel root = 0 /\ i_vt root = CONTAINER /\
  collect_evidence (a_root_cs a) (a_evidence a) root = Ok cu.

Lemma sr_base_init_iff : forall cls a d,
  sr_base_init cls a = Ok d <-> exists root cu, base_guards a root cu /\ d = built_doc cls a root cu.
Proof.
  intros cls a d. unfold sr_base_init, base_guards, built_doc. split.
  - intros H. destruct (a_evidence a) as [|e0 ev] eqn:EE; [discriminate|].
    destruct (a_ts_ok a); cbn [negb] in H; [|discriminate].
    destruct (a_verified a) eqn:EV; cbn [andb] in H.
    + destruct (given (a_observer a)) eqn:Go; cbn [negb] in H; [|discriminate].
      destruct (given (a_org a)) eqn:Gg; cbn [negb] in H; [|discriminate].
      destruct (a_content a) as [it|[|it [|it2 l]]] eqn:EC; cbn [bind] in H; try discriminate.
      all: destruct (i_rel it =? 0) eqn:ER; cbn [negb] in H; [|discriminate];
        destruct (vt_eqb (i_vt it) CONTAINER) eqn:EVt; cbn [negb] in H; [|discriminate];
        destruct (collect_evidence (a_root_cs a) (e0 :: ev) it) as [cu|k] eqn:ECo; cbn [bind] in H; [|discriminate];
        inversion H; subst d; exists it, cu;
        (split; [|reflexivity]); repeat split; try discriminate; try reflexivity; try assumption;
        try (now apply Z.eqb_eq); try (now apply vt_eqb_eq).
    + destruct (a_content a) as [it|[|it [|it2 l]]] eqn:EC; cbn [bind] in H; try discriminate.
      all: destruct (i_rel it =? 0) eqn:ER; cbn [negb] in H; [|discriminate];
        destruct (vt_eqb (i_vt it) CONTAINER) eqn:EVt; cbn [negb] in H; [|discriminate];
        destruct (collect_evidence (a_root_cs a) (e0 :: ev) it) as [cu|k] eqn:ECo; cbn [bind] in H; [|discriminate];
        inversion H; subst d; exists it, cu;
        (split; [|reflexivity]); repeat split; try discriminate; try reflexivity; try assumption;
        try (now apply Z.eqb_eq); try (now apply vt_eqb_eq).
  - intros [root [cu [[G1 [G2 [G3 [G4 [G5 [G6 G7]]]]]] ->]]].
    destruct (a_evidence a) as [|e0 ev] eqn:EE; [congruence|].
    rewrite G2. cbn [negb].
    assert (EV : (a_verified a && negb (given (a_observer a)) = false) /\
                 (a_verified a && negb (given (a_org a)) = false)).
    { destruct (a_verified a); [|split; reflexivity]. destruct (G3 eq_refl) as [Ho Hg].
      rewrite Ho, Hg. split; reflexivity. }
    destruct EV as [EV1 EV2]. rewrite EV1, EV2.
    assert (EC : match a_content a with
                 | CDataset it => Ok it | CSequence [it] => Ok it | CSequence _ => Err "ValueError" end = Ok root).
    { destruct (a_content a) as [it|[|it [|it2 l]]]; cbn [single_root] in G4; congruence. }
    rewrite EC. cbn [bind]. rewrite G5. cbn [Z.eqb negb].
    apply vt_eqb_eq in G6. rewrite G6. cbn [negb]. rewrite G7. cbn [bind]. reflexivity.
Qed.

Lemma has_scoord3d_iff : forall root,
  has_scoord3d root = true <-> exists it, In it (descendants root) /\ i_vt it = SCOORD3D.
Proof.
  intros root. unfold has_scoord3d. rewrite search_tree_recursive.
  destruct (filter (has_vt SCOORD3D) (descendants root)) as [|x l] eqn:E.
  - split; [discriminate|]. intros [it [Hd Hv]].
    assert (Hin : In it (filter (has_vt SCOORD3D) (descendants root))) by (apply filter_In; split; [assumption|now apply has_vt_true]).
    rewrite E in Hin. destruct Hin.
  - split; [|reflexivity]. intros _. exists x.
    assert (Hin : In x (filter (has_vt SCOORD3D) (descendants root))) by (rewrite E; now left).
    apply filter_In in Hin. destruct Hin as [Hd Hv]. split; [assumption|now apply has_vt_true].
Qed.

Definition holds_3d (c : sr_class) : bool := match c with Comprehensive3D => true | _ => false end.

Lemma sr_init_iff : forall c a d,
  sr_init c a = Ok d <->
  exists root cu, base_guards a root cu /\ d = built_doc (class_code c) a root cu /\
                  (holds_3d c = false -> has_scoord3d root = false).
Proof.
  intros c a d. unfold sr_init. split.
  - intros H. destruct (sr_base_init (class_code c) a) as [d0|k] eqn:EB; cbn [bind] in H; [|discriminate].
    apply sr_base_init_iff in EB. destruct EB as [root [cu [G ->]]].
    exists root, cu. destruct c; cbn [holds_3d].
    + cbn [built_doc d_content] in H. destruct (has_scoord3d root) eqn:E3; [discriminate|].
      inversion H. split; [exact G|split; [reflexivity|auto]].
    + cbn [built_doc d_content] in H. destruct (has_scoord3d root) eqn:E3; [discriminate|].
      inversion H. split; [exact G|split; [reflexivity|auto]].
    + inversion H. split; [exact G|split; [reflexivity|discriminate]].
  - intros [root [cu [G [-> H3]]]].
    assert (EB : sr_base_init (class_code c) a = Ok (built_doc (class_code c) a root cu))
      by (apply sr_base_init_iff; eauto).
    rewrite EB. cbn [bind]. destruct c; cbn [holds_3d] in H3; cbn [built_doc d_content];
      try rewrite (H3 eq_refl); reflexivity.
Qed.

(* content is the tree given *)
Lemma tree_copied : forall c a d, sr_init c a = Ok d -> single_root (a_content a) = Some (d_content d).
Proof.
  intros c a d H. apply sr_init_iff in H. destruct H as [root [cu [[_ [_ [_ [G4 _]]]] [-> _]]]]. exact G4.
Qed.

(* 3-D coordinates *)
Lemma scoord3d_any_depth : forall c a root it,
  holds_3d c = false -> single_root (a_content a) = Some root ->
  In it (descendants root) -> i_vt it = SCOORD3D ->
  (forall d, sr_init c a <> Ok d) /\
  (forall d0, sr_base_init (class_code c) a = Ok d0 -> sr_init c a = Err "ValueError").
Proof.
  intros c a root it Hc Hroot Hd Hv.
  assert (H3 : has_scoord3d root = true) by (apply has_scoord3d_iff; eauto).
  split.
  - intros d H. apply sr_init_iff in H. destruct H as [root' [cu [[_ [_ [_ [G4 _]]]] [_ Hn]]]].
    rewrite Hroot in G4. inversion G4; subst root'. rewrite (Hn Hc) in H3. discriminate.
  - intros d0 H0. unfold sr_init. rewrite H0. cbn [bind].
    apply sr_base_init_iff in H0. destruct H0 as [root' [cu [[_ [_ [_ [G4 _]]]] ->]]].
    rewrite Hroot in G4. inversion G4; subst root'. cbn [built_doc d_content]. rewrite H3.
    destruct c; [reflexivity|reflexivity|discriminate].
Qed.

Lemma scoord3d_allowed : forall a, sr_init Comprehensive3D a = sr_base_init 2 a.
Proof. intros a. unfold sr_init. cbn [class_code]. destruct (sr_base_init 2 a); reflexivity. Qed.

Lemma no_scoord3d_same : forall c a root,
  single_root (a_content a) = Some root ->
  (forall it, In it (descendants root) -> i_vt it <> SCOORD3D) ->
  sr_init c a = sr_base_init (class_code c) a.
Proof.
  intros c a root Hroot Hn. unfold sr_init.
  destruct (sr_base_init (class_code c) a) as [d0|k] eqn:EB; cbn [bind]; [|reflexivity].
  apply sr_base_init_iff in EB. destruct EB as [root' [cu [[_ [_ [_ [G4 _]]]] ->]]].
  rewrite Hroot in G4. inversion G4; subst root'. cbn [built_doc d_content].
  destruct (has_scoord3d root) eqn:E3.
  - apply has_scoord3d_iff in E3. destruct E3 as [it [Hd Hv]]. exfalso. eapply Hn; eauto.
  - destruct c; reflexivity.
Qed.

(* verification *)
Lemma given_false_iff : forall o, given o = false <-> o = None \/ o = Some 0.
Proof.
  intros [n|]; cbn [given].
  - destruct (n =? 0) eqn:E; cbn [negb].
    + apply Z.eqb_eq in E. subst n. split; auto.
    + apply Z.eqb_neq in E. split; [discriminate|]. intros [H|H]; [discriminate|]. inversion H. contradiction.
  - split; auto.
Qed.

Lemma given_true_iff : forall o, given o = true <-> exists n, o = Some n /\ n <> 0.
Proof.
  intros [n|]; cbn [given].
  - destruct (n =? 0) eqn:E; cbn [negb].
    + apply Z.eqb_eq in E. split; [discriminate|]. intros [m [H Hm]]. inversion H. congruence.
    + apply Z.eqb_neq in E. split; [eauto|reflexivity].
  - split; [discriminate|]. intros [m [H _]]. discriminate.
Qed.

(* a detail is missing when it is absent (None) OR empty *)
Lemma verified_needs_details : forall c a,
  a_verified a = true -> (given (a_observer a) = false \/ given (a_org a) = false) ->
  sr_init c a = Err "ValueError".
Proof.
  intros c a Hv Hn. unfold sr_init, sr_base_init. rewrite Hv.
  destruct (a_evidence a); [reflexivity|]. destruct (a_ts_ok a); cbn [negb]; [|reflexivity].
  destruct Hn as [-> | ->]; cbn [andb negb]; [reflexivity|].
  destruct (given (a_observer a)); reflexivity.
Qed.

Lemma verified_recorded : forall c a d, sr_init c a = Ok d ->
  d_verified d = a_verified a /\ d_complete d = a_complete a /\ d_final d = a_final a /\
  (a_verified a = true -> exists n o, a_observer a = Some n /\ a_org a = Some o /\ d_observer d = Some (n, o) /\
                                      n <> 0 /\ o <> 0) /\
  (a_verified a = false -> d_observer d = None).
Proof.
  intros c a d H. apply sr_init_iff in H. destruct H as [root [cu [[_ [_ [G3 _]]] [-> _]]]].
  cbn [built_doc d_verified d_complete d_final d_observer]. repeat split.
  - intros Hv. destruct (G3 Hv) as [Ho Hg]. rewrite Hv.
    apply given_true_iff in Ho. apply given_true_iff in Hg.
    destruct Ho as [n [-> Hn]]. destruct Hg as [o [-> Ho]]. exists n, o. auto.
  - intros ->. reflexivity.
Qed.

(* refusal, document level: with every other guard satisfied, the constructor
   refuses exactly when some reference lacks supplied evidence *)
Lemma sr_refused_iff : forall c a root,
  a_evidence a <> [] -> a_ts_ok a = true ->
  (a_verified a = true -> given (a_observer a) = true /\ given (a_org a) = true) ->
  single_root (a_content a) = Some root -> i_rel root = 0 -> i_vt root = CONTAINER ->
  a_root_cs a = true -> refs_wf root ->
  (holds_3d c = false -> has_scoord3d root = false) ->
  ((exists k, sr_init c a = Err k) <-> ~ (forall u, referenced root u -> In u (map e_uid (a_evidence a)))) /\
  (forall k, sr_init c a = Err k -> k = "ValueError"%string).
Proof.
  intros c a root G1 G2 G3 G4 G5 G6 Gcs W H3.
  assert (Hdec : (exists r, collect_evidence true (a_evidence a) root = Ok r) \/
                 collect_evidence true (a_evidence a) root = Err "ValueError").
  { destruct (collect_evidence true (a_evidence a) root) as [r|k] eqn:E; [left; eauto|right].
    destruct (refs_wf_total _ W) as [R HR]. unfold collect_evidence in E. cbn [negb] in E.
    rewrite HR in E. cbn [bind] in E.
    destruct (fold_left (collect_step R) (a_evidence a) ([], [], [])) as [[seen rg] ug].
    destruct (forallb (fun u => mem u seen) R); [discriminate|]. now inversion E. }
  destruct Hdec as [[cu Hcu]|Hcu].
  - assert (Hok : sr_init c a = Ok (built_doc (class_code c) a root cu)).
    { apply sr_init_iff. exists root, cu. unfold base_guards. rewrite Gcs. repeat split; auto; now apply G3. }
    split.
    + split.
      * intros [k Hk]. congruence.
      * intros Hn. exfalso. apply Hn. apply (collect_accepts_iff _ _ W). eauto.
    + intros k Hk. congruence.
  - assert (Herr : sr_init c a = Err "ValueError").
    { unfold sr_init, sr_base_init. destruct (a_evidence a) as [|e0 ev] eqn:EE; [congruence|].
      rewrite G2. cbn [negb].
      assert (EV : (a_verified a && negb (given (a_observer a)) = false) /\
                   (a_verified a && negb (given (a_org a)) = false)).
      { destruct (a_verified a); [|split; reflexivity]. destruct (G3 eq_refl) as [Ho Hg].
        rewrite Ho, Hg. split; reflexivity. }
      destruct EV as [EV1 EV2]. rewrite EV1, EV2.
      assert (EC : match a_content a with
                   | CDataset it => Ok it | CSequence [it] => Ok it | CSequence _ => Err "ValueError" end = Ok root).
      { destruct (a_content a) as [it|[|it [|it2 l]]]; cbn [single_root] in G4; congruence. }
      rewrite EC. cbn [bind]. rewrite G5. cbn [Z.eqb negb].
      apply vt_eqb_eq in G6. rewrite G6. cbn [negb]. rewrite Gcs, Hcu. reflexivity. }
    split.
    + split.
      * intros _. now apply (collect_refused_iff _ _ W).
      * intros _. eauto.
    + intros k Hk. congruence.
Qed.

(* ---- partition, document level ------------------------------------------------------------ *)
Lemma doc_collect : forall c a d, sr_init c a = Ok d ->
  exists oth, collect_evidence true (a_evidence a) (d_content d) = Ok (d_current d, oth) /\
              d_other d = if a_record a then oth else [].
Proof.
  intros c a d H. apply sr_init_iff in H. destruct H as [root [[cur oth] [[_ [_ [_ [_ [_ [_ G7]]]]]] [-> _]]]].
  cbn [built_doc d_content d_current d_other fst snd]. exists oth. split; [|reflexivity].
  destruct (a_root_cs a); [assumption|]. unfold collect_evidence in G7. cbn [negb] in G7. discriminate.
Qed.

(* ---- read-back ------------------------------------------------------------------------------ *)
Section DedupFacts.
  Context {A : Type} (eqb : A -> A -> bool).
  Hypothesis eqb_spec : forall a b, eqb a b = true <-> a = b.

  Lemma existsb_eqb_In : forall x l, existsb (eqb x) l = true <-> In x l.
  Proof.
    intros x l. rewrite existsb_exists. split.
    - intros [y [Hy E]]. apply eqb_spec in E. now subst.
    - intros H. exists x. split; [assumption|now apply eqb_spec].
  Qed.

  Lemma dedup_from_id : forall l seen, NoDup l -> (forall x, In x l -> ~ In x seen) ->
    dedup_from eqb seen l = l.
  Proof.
    induction l as [|x l IH]; intros seen Hn Hs; cbn [dedup_from]; [reflexivity|].
    inversion Hn as [|? ? Hx Hl]; subst.
    destruct (existsb (eqb x) seen) eqn:E.
    - apply existsb_eqb_In in E. exfalso. apply (Hs x); [now left|assumption].
    - f_equal. apply IH; [assumption|]. intros y Hy [<-|Hin]; [contradiction|]. apply (Hs y); [now right|assumption].
  Qed.

  Lemma dedup_id : forall l, NoDup l -> dedup eqb l = l.
  Proof. intros l H. apply dedup_from_id; [assumption|intros x _ []]. Qed.

  Lemma dedup_from_in : forall l seen x, In x (dedup_from eqb seen l) <-> In x l /\ ~ In x seen.
  Proof.
    induction l as [|y l IH]; intros seen x; cbn [dedup_from In]; [tauto|].
    destruct (existsb (eqb y) seen) eqn:E.
    - apply existsb_eqb_In in E. rewrite IH. split; [tauto|]. intros [[<-|H] Hn]; [contradiction|tauto].
    - assert (Hy : ~ In y seen) by (intro Hin; apply existsb_eqb_In in Hin; congruence).
      cbn [In]. rewrite IH. cbn [In]. split.
      + intros [<-|[H Hn]]; [tauto|]. split; [tauto|]. intro; apply Hn; now right.
      + intros [[<-|H] Hn]; [now left|].
        destruct (eqb y x) eqn:Exy; [apply eqb_spec in Exy; now left|].
        right. split; [assumption|]. intros [->|Hin]; [|contradiction].
        assert (eqb x x = true) by now apply eqb_spec. congruence.
  Qed.

  Lemma dedup_in : forall l x, In x (dedup eqb l) <-> In x l.
  Proof. intros. unfold dedup. rewrite dedup_from_in. cbn [In]. tauto. Qed.

  Lemma dedup_from_NoDup : forall l seen, NoDup (dedup_from eqb seen l).
  Proof.
    induction l as [|y l IH]; intros seen; cbn [dedup_from]; [constructor|].
    destruct (existsb (eqb y) seen); [apply IH|]. constructor; [|apply IH].
    intro Hin. apply dedup_from_in in Hin. destruct Hin as [_ Hn]. apply Hn. now left.
  Qed.
End DedupFacts.

Lemma t4_eqb_spec : forall a b, t4_eqb a b = true <-> a = b.
Proof.
  intros [[[a1 a2] a3] a4] [[[b1 b2] b3] b4]. unfold t4_eqb.
  rewrite !andb_true_iff, !Z.eqb_eq. split; [intros [[[-> ->] ->] ->]; reflexivity|intros E; inversion E; auto].
Qed.

Lemma NoDup_map_uid4 : forall l, NoDup (map uid4 l) -> NoDup l.
Proof. intros l. apply NoDup_map_inv. Qed.

Lemma doc_evidence_once : forall c a d, sr_init c a = Ok d ->
  NoDup (map uid4 (flatten (d_current d) ++ flatten (d_other d))).
Proof.
  intros c a d H. destruct (doc_collect _ _ _ H) as [oth [Hc Ho]].
  pose proof (partition_once _ _ _ _ Hc) as N. rewrite Ho. destruct (a_record a); [assumption|].
  cbn [flatten flat_map]. rewrite app_nil_r. rewrite map_app in N. now apply NoDup_app_inv in N as [N _].
Qed.

Lemma readback : forall c a d, sr_init c a = Ok d ->
  get_evidence d false = flatten (d_current d) ++ flatten (d_other d) /\
  get_evidence d true = flatten (d_current d).
Proof.
  intros c a d H. pose proof (doc_evidence_once _ _ _ H) as N.
  apply NoDup_map_uid4 in N. unfold get_evidence. split.
  - apply (dedup_id _ t4_eqb_spec). assumption.
  - rewrite app_nil_r. apply (dedup_id _ t4_eqb_spec). now apply NoDup_app_inv in N as [N _].
Qed.

Lemma readback_series : forall c a d, sr_init c a = Ok d ->
  get_evidence_series d true = flatten_series (d_current d) /\
  NoDup (get_evidence_series d false) /\
  (forall p, In p (get_evidence_series d false) <->
             In p (flatten_series (d_current d)) \/ In p (flatten_series (d_other d))).
Proof.
  intros c a d H. destruct (doc_collect _ _ _ H) as [oth [Hc Ho]].
  destruct (partition_grouping _ _ _ _ Hc) as [_ [N2 _]].
  unfold get_evidence_series. repeat split.
  - rewrite app_nil_r. now apply (dedup_id _ pair_eqb_spec).
  - apply dedup_from_NoDup. exact pair_eqb_spec.
  - rewrite (dedup_in _ pair_eqb_spec). apply in_app_or.
  - rewrite (dedup_in _ pair_eqb_spec). apply in_or_app.
Qed.

(* ---- parsing --------------------------------------------------------------------------------- *)
Lemma sr_init_class : forall c a d, sr_init c a = Ok d -> d_cls d = class_code c.
Proof. intros c a d H. apply sr_init_iff in H. destruct H as [root [cu [_ [-> _]]]]. reflexivity. Qed.

(* the part of an item that _SR.from_dataset carries over to the rebuilt root: no referenced
   instance and no optional attribute besides template, continuity and the name entry (root_key) *)
Definition root_typed (it : item) : Prop :=
  i_ref it = None /\ forall kv, In kv (i_attrs it) -> root_key (fst kv) = true.

Lemma filter_len {A} (p : A -> bool) (l : list A) : (length (filter p l) <= length l)%nat.
Proof. induction l as [|x l IH]; cbn [filter length]; [lia|]. destruct (p x); cbn [length]; lia. Qed.

Lemma filter_id_iff {A} (p : A -> bool) (l : list A) :
  filter p l = l <-> forall x, In x l -> p x = true.
Proof.
  induction l as [|x l IH]; cbn [filter]; [split; [intros _ y []|reflexivity]|].
  destruct (p x) eqn:E; split.
  - intros H y [<-|Hy]; [exact E|]. injection H as H. now apply IH.
  - intros H. f_equal. apply IH. intros y Hy. apply H. now right.
  - intros H. exfalso. assert (L : (length (filter p l) <= length l)%nat) by apply filter_len.
    rewrite H in L. cbn [length] in L. lia.
  - intros H. specialize (H x (or_introl eq_refl)). congruence.
Qed.

Lemma reroot_iff : forall it, reroot it = it <-> i_rel it = 0 /\ root_typed it.
Proof.
  intros [t g r rf ats ks]. unfold reroot, root_typed. cbn [i_vt i_tag i_rel i_ref i_attrs i_kids]. split.
  - intros H. injection H as Hr Hf Ha. repeat split; try congruence.
    now apply (filter_id_iff (fun kv : Z * list Z => root_key (fst kv))).
  - intros [-> [-> Ha]]. f_equal.
    now apply (filter_id_iff (fun kv : Z * list Z => root_key (fst kv))).
Qed.

Lemma attr_get_filter : forall k a, root_key k = true ->
  attr_get k (filter (fun kv : Z * list Z => root_key (fst kv)) a) = attr_get k a.
Proof.
  intros k a Hk. induction a as [|[k' v] a IH]; [reflexivity|]. cbn [filter fst attr_get].
  destruct (root_key k') eqn:E; cbn [attr_get].
  - destruct (k' =? k); [reflexivity|exact IH].
  - destruct (k' =? k) eqn:E2; [apply Z.eqb_eq in E2; congruence|exact IH].
Qed.

(* what the rebuilt root keeps, whatever the root given carried: value type, name, children
   (hence every descendant with all of its attributes), template and continuity *)
Lemma reroot_keeps : forall it,
  i_vt (reroot it) = i_vt it /\ i_tag (reroot it) = i_tag it /\ i_kids (reroot it) = i_kids it /\
  descendants (reroot it) = descendants it /\
  (forall k, root_key k = true -> attr_get k (i_attrs (reroot it)) = attr_get k (i_attrs it)) /\
  is_report (reroot it) = is_report it.
Proof.
  intros [t g r rf ats ks]. unfold reroot, descendants, is_report.
  cbn [i_vt i_tag i_rel i_ref i_attrs i_kids]. repeat split.
  - intros k Hk. now apply attr_get_filter.
  - now rewrite attr_get_filter.
Qed.

Lemma from_dataset_spec : forall target has_cs d d',
  sr_from_dataset target has_cs d = Ok d' ->
  d' = set_content d (reroot (d_content d)) /\ has_cs = true /\ i_vt (d_content d) = CONTAINER /\
  (target = Comprehensive -> d_cls d = 1) /\ (target = Comprehensive3D -> d_cls d = 2).
Proof.
  intros target has_cs d d' H. unfold sr_from_dataset, parse_root in H.
  assert (B : (if has_cs then bind (if is_report (d_content d)
                 then if vt_eqb (i_vt (d_content d)) CONTAINER then Ok (reroot (d_content d)) else Err "ValueError"
                 else if vt_eqb (i_vt (d_content d)) CONTAINER then Ok (reroot (d_content d)) else Err "TypeError")
                 (fun r => Ok (set_content d r)) else Err "ValueError") = Ok d' ->
              d' = set_content d (reroot (d_content d)) /\ has_cs = true /\ i_vt (d_content d) = CONTAINER).
  { intros B. destruct has_cs; [|discriminate].
    destruct (vt_eqb (i_vt (d_content d)) CONTAINER) eqn:EV.
    - apply vt_eqb_eq in EV. destruct (is_report (d_content d)); cbn [bind] in B; inversion B; auto.
    - destruct (is_report (d_content d)); discriminate. }
  destruct target.
  - destruct (B H) as [-> [-> HV]]. repeat split; try assumption; intros; congruence.
  - destruct (d_cls d =? 1) eqn:E; [|discriminate]. apply Z.eqb_eq in E.
    destruct (B H) as [-> [-> HV]]. repeat split; try assumption; intros; congruence.
  - destruct (d_cls d =? 2) eqn:E; [|discriminate]. apply Z.eqb_eq in E.
    destruct (B H) as [-> [-> HV]]. repeat split; try assumption; intros; congruence.
Qed.

Lemma set_content_same : forall d, set_content d (d_content d) = d.
Proof. intros []. reflexivity. Qed.

Lemma set_content_inj : forall d it, set_content d it = d -> it = d_content d.
Proof. intros [] it H. unfold set_content in H. cbn in H. now inversion H. Qed.

(* srread of a written document: same class; the content tree exposed is the rebuilt root *)
Lemma srread_spec : forall c a d, sr_init c a = Ok d ->
  srread d = Ok (c, set_content d (reroot (d_content d))).
Proof.
  intros c a d H. pose proof (sr_init_class _ _ _ H) as HC. apply sr_init_iff in H.
  destruct H as [root [cu [[_ [_ [_ [_ [_ [G6 _]]]]]] [-> _]]]].
  unfold srread, sr_from_dataset, parse_root. rewrite HC. cbn [built_doc d_content d_cls].
  rewrite G6. replace (vt_eqb CONTAINER CONTAINER) with true by reflexivity.
  destruct c; cbn; destruct (is_report root); reflexivity.
Qed.

(* ... and it is the document that was written EXACTLY when the root given carries nothing
   but what the parser copies *)
Lemma srread_roundtrip : forall c a d, sr_init c a = Ok d ->
  (srread d = Ok (c, d) <-> root_typed (d_content d)).
Proof.
  intros c a d H. rewrite (srread_spec _ _ _ H).
  assert (R0 : i_rel (d_content d) = 0).
  { apply sr_init_iff in H. destruct H as [root [cu [[_ [_ [_ [_ [G5 _]]]]] [-> _]]]]. exact G5. }
  split.
  - intros E. injection E as E. apply set_content_inj in E. apply reroot_iff in E. destruct E as [_ E]. exact E.
  - intros T. replace (reroot (d_content d)) with (d_content d) by (symmetry; apply reroot_iff; tauto).
    now rewrite set_content_same.
Qed.

(* construct, write, parse: what the parsed document exposes in terms of the tree GIVEN *)
Lemma parsed_tree : forall c a d root, sr_init c a = Ok d -> single_root (a_content a) = Some root ->
  exists d', srread d = Ok (c, d') /\
    descendants (d_content d') = descendants root /\
    i_vt (d_content d') = CONTAINER /\ i_tag (d_content d') = i_tag root /\ i_rel (d_content d') = 0 /\
    (forall k, root_key k = true -> attr_get k (i_attrs (d_content d')) = attr_get k (i_attrs root)) /\
    is_report (d_content d') = is_report root /\
    (root_typed root -> d' = d /\ d_content d' = root).
Proof.
  intros c a d root H HR. pose proof (tree_copied _ _ _ H) as HT. rewrite HR in HT. inversion HT as [E].
  exists (set_content d (reroot (d_content d))). split; [exact (srread_spec _ _ _ H)|].
  destruct (reroot_keeps (d_content d)) as [K1 [K2 [K3 [K4 [K5 K6]]]]].
  assert (HV : i_vt (d_content d) = CONTAINER).
  { pose proof H as H2. apply sr_init_iff in H2. destruct H2 as [r0 [cu [[_ [_ [_ [_ [_ [G6 _]]]]]] [-> _]]]]. exact G6. }
  replace (d_content (set_content d (reroot (d_content d)))) with (reroot (d_content d))
    by (destruct d; reflexivity).
  subst root.
  split; [exact K4|]. split; [congruence|]. split; [exact K2|].
  split; [destruct (d_content d); reflexivity|]. split; [exact K5|]. split; [exact K6|].
  intros T. assert (ER : reroot (d_content d) = d_content d).
  { apply reroot_iff. split; [|exact T].
    apply sr_init_iff in H. destruct H as [r0 [cu [[_ [_ [_ [_ [G5 _]]]]] [-> _]]]]. exact G5. }
  rewrite ER. split; [apply set_content_same|reflexivity].
Qed.

(* ---- key object documents ----------------------------------------------------------------- *)
Lemma ko_init_inv : forall ev ts root d, ko_init ev ts root = Ok d ->
  ev <> [] /\ ts = true /\ d_content d = root /\ d_other d = [] /\ d_cls d = ko_code /\
  exists oth st sers, collect_evidence true ev root = Ok (d_current d, oth) /\ d_current d = [(st, sers)].
Proof.
  intros ev ts root d H. unfold ko_init in H.
  destruct ev as [|e0 ev]; [discriminate|]. destruct ts; cbn [negb] in H; [|discriminate].
  destruct (collect_evidence true (e0 :: ev) root) as [[cur oth]|k] eqn:E; cbn [bind fst] in H; [|discriminate].
  destruct cur as [|[st sers] [|s2 cur]]; try discriminate. inversion H; subst d.
  cbn [d_content d_other d_cls d_current]. repeat split; try discriminate. eauto.
Qed.

Lemma filter_unique : forall (l : list (Z * Z * Z * Z)) t, NoDup (map uid4 l) -> In t l ->
  filter (fun x => match x with (_, _, u', _) => u' =? uid4 t end) l = [t].
Proof.
  induction l as [|x l IH]; intros t Hn Hin0; [destruct Hin0|].
  destruct Hin0 as [->|Hin]; cbn [map] in Hn; inversion Hn as [|? ? Hx Hl]; subst; cbn [filter].
  - destruct t as [[[st se] u] c]. cbn [uid4]. rewrite Z.eqb_refl. f_equal.
    assert (E : forall l', ~ In u (map uid4 l') ->
                filter (fun x : Z * Z * Z * Z => match x with (_, _, u', _) => u' =? u end) l' = []).
    { induction l' as [|[[[a b] u'] d] l' IH']; intros Hni; [reflexivity|]. cbn [filter].
      destruct (u' =? u) eqn:E; [apply Z.eqb_eq in E; exfalso; apply Hni; now left|].
      apply IH'. intro; apply Hni; now right. }
    apply E. exact Hx.
  - destruct x as [[[a b] u'] d]. destruct (u' =? uid4 t) eqn:E.
    + apply Z.eqb_eq in E. exfalso. apply Hx. cbn [uid4]. rewrite E. now apply in_map.
    + now apply IH.
Qed.

Lemma ko_resolve : forall ev ts root d, ko_init ev ts root = Ok d ->
  forall u, (referenced root u ->
             exists c st se, first_evd ev u = Some (Evd u c st se) /\ resolve_reference d u = Ok (st, se, u)) /\
            (~ referenced root u -> resolve_reference d u = Err "ValueError").
Proof.
  intros ev ts root d H u. destruct (ko_init_inv _ _ _ _ H) as [_ [_ [_ [_ [_ [oth [st0 [sers [Hc _]]]]]]]]].
  pose proof (partition_once _ _ _ _ Hc) as N. rewrite map_app in N. apply NoDup_app_inv in N as [N _].
  split.
  - intros Hr.
    assert (Hs : In u (map e_uid ev)).
    { destruct (collect_ok _ _ _ _ Hc) as [R [HR [Hs _]]]. apply Hs. now apply (R_spec _ _ HR). }
    apply first_evd_some in Hs. destruct Hs as [[u' c st se] Hf].
    destruct (first_evd_uid _ _ _ Hf) as [Eu _]. cbn [e_uid] in Eu. subst u'.
    exists c, st, se. split; [assumption|].
    assert (Hin : In (st, se, u, c) (flatten (d_current d))) by (apply (partition_current _ _ _ _ Hc); auto).
    unfold resolve_reference. pose proof (filter_unique _ _ N Hin) as F. cbn [uid4] in F. rewrite F. reflexivity.
  - intros Hn. unfold resolve_reference.
    destruct (filter (fun t : Z * Z * Z * Z => match t with (_, _, u', _) => u' =? u end) (flatten (d_current d)))
      as [|[[[st se] u'] c] l] eqn:F; [reflexivity|].
    assert (Hin : In (st, se, u', c) (filter (fun t : Z * Z * Z * Z => match t with (_, _, u', _) => u' =? u end)
                                            (flatten (d_current d)))) by (rewrite F; now left).
    apply filter_In in Hin. destruct Hin as [Hin E]. apply Z.eqb_eq in E. subst u'.
    apply (partition_current _ _ _ _ Hc) in Hin. tauto.
Qed.

(* ---- document-level partition (the property's evidence clause) ------------------------------ *)
Lemma doc_partition : forall c a d, sr_init c a = Ok d ->
  (forall st se u k, In (st, se, u, k) (flatten (d_current d)) <->
     referenced (d_content d) u /\ first_evd (a_evidence a) u = Some (Evd u k st se)) /\
  (forall st se u k, In (st, se, u, k) (flatten (d_other d)) <->
     a_record a = true /\ ~ referenced (d_content d) u /\ first_evd (a_evidence a) u = Some (Evd u k st se)) /\
  NoDup (map uid4 (flatten (d_current d) ++ flatten (d_other d))) /\
  NoDup (map fst (d_current d)) /\ NoDup (flatten_series (d_current d)) /\
  (forall st sers, In (st, sers) (d_current d) -> NoDup (map fst sers)) /\
  NoDup (map fst (d_other d)) /\ NoDup (flatten_series (d_other d)) /\
  (forall st sers, In (st, sers) (d_other d) -> NoDup (map fst sers)).
Proof.
  intros c a d H. destruct (doc_collect _ _ _ H) as [oth [Hc Ho]].
  destruct (partition_grouping _ _ _ _ Hc) as [N1 [N2 [N3 [N4 [N5 N6]]]]].
  split; [apply (partition_current _ _ _ _ Hc)|].
  split.
  - intros st se u k. rewrite Ho. destruct (a_record a).
    + rewrite (partition_other _ _ _ _ Hc). tauto.
    + cbn [flatten flat_map In]. split; [intros []|intros [E _]; discriminate].
  - split; [eapply doc_evidence_once; eassumption|].
    rewrite Ho. destruct (a_record a).
    + repeat split; assumption.
    + repeat split; try assumption; try constructor. intros st sers [].
Qed.

Lemma find_refuses_iff : forall has_cs q r node k,
  find_content_items has_cs q r node = Err k <-> has_cs = false /\ k = "AttributeError"%string.
Proof.
  intros has_cs q r node k. unfold find_content_items. destruct has_cs.
  - split; [discriminate|intros [E _]; discriminate].
  - split; [intros E; inversion E; auto|intros [_ ->]; reflexivity].
Qed.

Lemma find_ok : forall q r node,
  find_content_items true q r node =
  Ok (filter (matches q) (if r then descendants node else i_kids node)).
Proof.
  intros q r node. unfold find_content_items. destruct r;
    [rewrite search_tree_recursive|rewrite search_tree_flat]; reflexivity.
Qed.
