(* C19 - sub-ranges of the volume read: the window of the full volume, element by element *)
From Coq Require Import String ZArith List Bool QArith Lia ZifyBool Permutation Sorted.
From HD Require Import Base.Val C19_Model C19_Proofs C19_Proofs_Ext C19_Proofs_Vol.
Import ListNotations.
Open Scope Z_scope.

Lemma nth_error_skipn' {A} (l : list A) : forall s p, nth_error (skipn s l) p = nth_error l (s + p).
Proof.
  induction l as [|x l IH]; intros s p.
  - destruct s, p; reflexivity.
  - destruct s; [reflexivity|]. cbn [skipn Nat.add nth_error]. apply IH.
Qed.

Lemma nth_error_firstn' {A} (l : list A) : forall k p, (p < k)%nat ->
  nth_error (firstn k l) p = nth_error l p.
Proof.
  induction l as [|x l IH]; intros k p Hp.
  - destruct k, p; reflexivity.
  - destruct k; [lia|]. destruct p; [reflexivity|]. cbn [firstn nth_error]. apply IH. lia.
Qed.

(* ---- the crop ------------------------------------------------------------------------------ *)
Lemma crop_length {A} (d : A) C r0 r1 c0 c1 fr :
  length (crop_frame d C r0 r1 c0 c1 fr) = (Z.to_nat (r1 - r0) * Z.to_nat (c1 - c0))%nat.
Proof.
  unfold crop_frame, zrange2. rewrite flat_map_map'.
  rewrite (length_flat_map_const' _ _ (Z.to_nat (c1 - c0))).
  - now rewrite zrange_length.
  - intros x. now rewrite !map_length, zrange_length.
Qed.

Lemma crop_nth {A} (d : A) C r0 r1 c0 c1 fr r c : 0 <= r < r1 - r0 -> 0 <= c < c1 - c0 ->
  nth_error (crop_frame d C r0 r1 c0 c1 fr) (Z.to_nat (r * (c1 - c0) + c)) =
  Some (nth (Z.to_nat ((r0 + r) * C + (c0 + c))) fr d).
Proof.
  intros Hr Hc. unfold crop_frame, zrange2. rewrite flat_map_map'.
  replace (Z.to_nat (r * (c1 - c0) + c)) with (Z.to_nat r * Z.to_nat (c1 - c0) + Z.to_nat c)%nat by nia.
  rewrite (nth_error_flat_map_zrange _ (Z.to_nat (c1 - c0))).
  - rewrite map_map. rewrite nth_error_map_zrange by lia. reflexivity.
  - intros x. now rewrite !map_length, zrange_length.
  - lia.
  - lia.
Qed.

(* ---- structure of an accepted request (stored values) ----------------------------------------- *)
Lemma res_all_pair_id {A} (l : list (list Z * A)) :
  res_all (map (fun pf : list Z * A => Ok (fst pf, snd pf)) l) = Ok l.
Proof.
  rewrite (map_ext _ (fun pf => Ok pf)) by (intros [q v]; reflexivity).
  induction l as [|x l IH]; cbn [map res_all]; [reflexivity|]. rewrite IH. reflexivity.
Qed.

Lemma flat_map_repeat_1 {A} (l : list A) : flat_map (fun p => repeat p (Z.to_nat 1)) l = l.
Proof.
  change (Z.to_nat 1) with 1%nat.
  induction l as [|x l IH]; cbn [flat_map repeat app]; [reflexivity|]. f_equal. exact IH.
Qed.

Lemma pm_volume_sub_stored_ok R C pos frames a nr nc out :
  pm_volume_sub 0 (fun ws => Ok ws) R C 1 pos frames a = Ok (nr, nc, out) <->
  exists sl s e r0 r1 c0 c1,
    std_axis (v_rs a) (v_re a) R (v_ai a) = Ok (r0, r1) /\
    std_axis (v_cs a) (v_ce a) C (v_ai a) = Ok (c0, c1) /\
    pm_volume pos frames = Ok sl /\
    std_slice (v_ss a) (v_se a) (Z.of_nat (length sl)) (v_ai a) = Ok (s, e) /\
    0 <= s /\ r0 < r1 /\ c0 < c1 /\ nr = r1 - r0 /\ nc = c1 - c0 /\
    out = map (fun pf => (fst pf, crop_frame 0 C r0 r1 c0 c1 (snd pf)))
              (firstn (Z.to_nat (e - s)) (skipn (Z.to_nat s) sl)).
Proof.
  unfold pm_volume_sub. rewrite flat_map_repeat_1.
  destruct (std_axis (v_rs a) (v_re a) R (v_ai a)) as [[r0 r1]|k1] eqn:Er; cbn [bind].
  2:{ split; [discriminate|]. intros (sl & s & e & r0 & r1 & c0 & c1 & H & _). discriminate. }
  destruct (std_axis (v_cs a) (v_ce a) C (v_ai a)) as [[c0 c1]|k2] eqn:Ec; cbn [bind].
  2:{ split; [discriminate|]. intros (sl & s & e & r0' & r1' & c0 & c1 & _ & H & _). discriminate. }
  destruct (pm_volume pos frames) as [sl|k3] eqn:Ev; cbn [bind].
  2:{ split; [discriminate|]. intros (sl & s & e & r0' & r1' & c0' & c1' & _ & _ & H & _). discriminate. }
  destruct (std_slice (v_ss a) (v_se a) (Z.of_nat (length sl)) (v_ai a)) as [[s e]|k4] eqn:Es; cbn [bind fst snd].
  2:{ split; [discriminate|]. intros (sl' & s & e & r0' & r1' & c0' & c1' & _ & _ & H1 & H2 & _).
      inversion H1; subst. rewrite Es in H2. discriminate. }
  rewrite res_all_pair_id. cbn [bind].
  destruct (s <? 0) eqn:E1.
  { split; [destruct (s <? - Z.of_nat (length sl)); discriminate|]. intros (sl' & s' & e' & r0' & r1' & c0' & c1' & _ & _ & H1 & H2 & H3 & _).
    inversion H1; subst. rewrite Es in H2. inversion H2; subst. lia. }
  destruct ((r1 <=? r0) || (c1 <=? c0)) eqn:E2.
  { split; [discriminate|].
    intros (sl' & s' & e' & r0' & r1' & c0' & c1' & H1 & H2 & _ & _ & _ & H3 & H4 & _).
    inversion H1; inversion H2; subst. lia. }
  split.
  - intros H. inversion H; subst. exists sl, s, e, r0, r1, c0, c1. repeat split; auto; lia.
  - intros (sl' & s' & e' & r0' & r1' & c0' & c1' & H1 & H2 & H3 & H4 & _ & _ & _ & -> & -> & ->).
    inversion H1; inversion H2; inversion H3; subst. rewrite Es in H4. inversion H4; subst. reflexivity.
Qed.

(* ---- end to end: the sub-volume is the requested window of the full volume, and each of its
   elements is the pixel given for that plane, row and column ---------------------------------- *)
Lemma volume_sub_roundtrip : forall get N R C w pos a nr nc out,
  (forall i r c j, 0 <= get i r c j < 256 ^ Z.of_nat w) -> 0 < R -> 0 < C -> 0 <= N ->
  length pos = Z.to_nat N ->
  pm_volume_sub 0 (fun ws => Ok ws) R C 1 pos
    (map (read_frame w R C (pm_bytes get N R C 1 w)) (zrange N)) a = Ok (nr, nc, out) ->
  exists sl s e r0 r1 c0 c1,
    pm_volume pos (map (read_frame w R C (pm_bytes get N R C 1 w)) (zrange N)) = Ok sl /\
    std_slice (v_ss a) (v_se a) N (v_ai a) = Ok (s, e) /\ 0 <= s < e /\ e <= N /\
    std_axis (v_rs a) (v_re a) R (v_ai a) = Ok (r0, r1) /\ 0 <= r0 < r1 /\ r1 <= R /\
    std_axis (v_cs a) (v_ce a) C (v_ai a) = Ok (c0, c1) /\ 0 <= c0 < c1 /\ c1 <= C /\
    nr = r1 - r0 /\ nc = c1 - c0 /\ length out = Z.to_nat (e - s) /\
    forall p, 0 <= p < e - s ->
      exists q i vals,
        nth_error sl (Z.to_nat (s + p)) = Some (q, frame_words get R C i 0) /\
        0 <= i < N /\ nth_error pos (Z.to_nat i) = Some q /\
        nth_error out (Z.to_nat p) = Some (q, vals) /\
        length vals = Z.to_nat ((r1 - r0) * (c1 - c0)) /\
        forall r c, 0 <= r < r1 - r0 -> 0 <= c < c1 - c0 ->
          nth_error vals (Z.to_nat (r * (c1 - c0) + c)) = Some (get i (r0 + r) (c0 + c) 0).
Proof.
  intros get N R C w pos a nr nc out Hfit HR HC HN Hlen H.
  apply pm_volume_sub_stored_ok in H.
  destruct H as (sl & s & e & r0 & r1 & c0 & c1 & Hr & Hc & Hv & Hs & Hs0 & Hrr & Hcc & -> & -> & ->).
  destruct (pm_volume_roundtrip get N R C w pos sl Hfit ltac:(lia) ltac:(lia) HN Hlen Hv)
    as (_ & Hlensl & Hin).
  rewrite Hlensl, Z2Nat.id in Hs by lia.
  pose proof (std_axis_bounds _ _ _ _ _ _ HR Hr) as Br.
  pose proof (std_axis_bounds _ _ _ _ _ _ HC Hc) as Bc.
  pose proof (std_slice_bounds _ _ _ _ _ _ HN Hs) as Bs.
  exists sl, s, e, r0, r1, c0, c1.
  split; [exact Hv|]. split; [exact Hs|]. split; [lia|]. split; [lia|].
  split; [exact Hr|]. split; [lia|]. split; [lia|].
  split; [exact Hc|]. split; [lia|]. split; [lia|].
  split; [reflexivity|]. split; [reflexivity|]. split.
  { rewrite map_length, firstn_length, skipn_length. lia. }
  intros p Hp.
  destruct (nth_error sl (Z.to_nat (s + p))) as [[q fr]|] eqn:En.
  2:{ apply nth_error_None in En. lia. }
  pose proof (nth_error_In _ _ En) as HIn. apply Hin in HIn. destruct HIn as (i & Hi & Hq & ->).
  exists q, i, (crop_frame 0 C r0 r1 c0 c1 (frame_words get R C i 0)).
  split; [reflexivity|]. split; [exact Hi|]. split; [exact Hq|]. split.
  { rewrite nth_error_map, nth_error_firstn' by lia. rewrite nth_error_skipn'.
    replace (Z.to_nat s + Z.to_nat p)%nat with (Z.to_nat (s + p)) by lia.
    rewrite En. reflexivity. }
  split.
  { rewrite crop_length. rewrite Z2Nat.inj_mul by lia. reflexivity. }
  intros r c Hr' Hc'. rewrite crop_nth by lia. f_equal.
  apply nth_error_nth.
  destruct (pm_frame_order get N R C 1 i 0 (r0 + r) (c0 + c)) as (_ & _ & Hnth); try lia.
  exact Hnth.
Qed.

(* ---- refusals ------------------------------------------------------------------------------- *)
(* a map with several channels has several frames at every position: never a volume *)
Lemma NoDup_flat_map_repeat {A} (l : list A) k : (2 <= k)%nat -> l <> [] ->
  ~ NoDup (flat_map (fun p => repeat p k) l).
Proof.
  intros Hk Hl Hnd. destruct l as [|x l]; [congruence|].
  destruct k as [|[|k]]; try lia. cbn [flat_map repeat app] in Hnd.
  inversion Hnd as [|? ? Hnotin _]; subst. apply Hnotin. now left.
Qed.

Lemma volume_sub_multi_channel {A} (d : A) tr R C M pos frames a r0 r1 c0 c1 :
  1 < M -> pos <> [] ->
  std_axis (v_rs a) (v_re a) R (v_ai a) = Ok (r0, r1) ->
  std_axis (v_cs a) (v_ce a) C (v_ai a) = Ok (c0, c1) ->
  pm_volume_sub d tr R C M pos frames a = Err "RuntimeError".
Proof.
  intros HM Hpos Hr Hc. unfold pm_volume_sub. rewrite Hr, Hc. cbn [bind].
  assert (E : pm_volume (flat_map (fun p => repeat p (Z.to_nat M)) pos) frames = Err "RuntimeError").
  { apply (proj1 (volume_refused_full _ _)). apply NoDup_flat_map_repeat; [lia|exact Hpos]. }
  rewrite E. reflexivity.
Qed.

(* every refusal of a stored-value request is one of three classes; the row/column ones are
   ValueError and come first *)
Lemma volume_sub_error_kinds R C M pos frames a k :
  pm_volume_sub 0 (fun ws => Ok ws) R C M pos frames a = Err k ->
  k = "ValueError"%string \/ k = "IndexError"%string \/ k = "RuntimeError"%string.
Proof.
  unfold pm_volume_sub.
  destruct (std_axis (v_rs a) (v_re a) R (v_ai a)) as [[r0 r1]|k1] eqn:Er; cbn [bind].
  2:{ intros H. inversion H; subst. left. eapply std_axis_err; exact Er. }
  destruct (std_axis (v_cs a) (v_ce a) C (v_ai a)) as [[c0 c1]|k2] eqn:Ec; cbn [bind].
  2:{ intros H. inversion H; subst. left. eapply std_axis_err; exact Ec. }
  destruct (pm_volume _ frames) as [sl|k3] eqn:Ev; cbn [bind].
  2:{ intros H. inversion H; subst. right. right.
      eapply (proj2 (volume_refused_full _ _)); exact Ev. }
  destruct (std_slice _ _ _ _) as [[s e]|k4] eqn:Es; cbn [bind fst snd].
  2:{ intros H. inversion H; subst. apply std_slice_err_kinds in Es. tauto. }
  rewrite res_all_pair_id. cbn [bind].
  destruct (s <? 0); [destruct (s <? - Z.of_nat (length sl)); intros H; inversion H; auto|].
  destruct ((r1 <=? r0) || (c1 <=? c0)); [intros H; inversion H; auto|discriminate].
Qed.

Lemma volume_sub_axis_refused {A} (d : A) tr R C M pos frames a k :
  std_axis (v_rs a) (v_re a) R (v_ai a) = Err k \/
  (exists rr, std_axis (v_rs a) (v_re a) R (v_ai a) = Ok rr) /\
  std_axis (v_cs a) (v_ce a) C (v_ai a) = Err k ->
  pm_volume_sub d tr R C M pos frames a = Err "ValueError".
Proof.
  unfold pm_volume_sub. intros [H|[[rr H1] H2]].
  - rewrite H. cbn [bind]. f_equal. eapply std_axis_err; exact H.
  - rewrite H1, H2. cbn [bind]. f_equal. eapply std_axis_err; exact H2.
Qed.

(* non-vacuity *)
Lemma vol_example :
  let get := fun i r c (j : Z) => 100 * i + 10 * r + c in
  let pos := [[0; 0; 8]; [0; 0; 24]; [0; 0; 16]] in
  let frames := map (read_frame 1 3 2 (pm_bytes get 3 3 2 1 1)) (zrange 3) in
  let args := fun ss se rs re cs ce ai =>
    {| v_ss := ss; v_se := se; v_rs := rs; v_re := re; v_cs := cs; v_ce := ce; v_ai := ai |} in
  (* one-based: slices 2..3 (z 16 and 8 = planes 2 and 0), rows 2..3, last column *)
  pm_volume_sub 0 (fun ws => Ok ws) 3 2 1 pos frames
    (args (Some 2) None (Some 2) None (Some (-1)) None false)
    = Ok (2, 1, [([0; 0; 16], [211; 221]); ([0; 0; 8], [11; 21])]) /\
  (* the same window written as zero-based indices *)
  pm_volume_sub 0 (fun ws => Ok ws) 3 2 1 pos frames
    (args (Some 1) (Some 3) (Some 1) (Some 3) (Some 1) (Some 2) true)
    = Ok (2, 1, [([0; 0; 16], [211; 221]); ([0; 0; 8], [11; 21])]) /\
  pm_volume_sub 0 (fun ws => Ok ws) 3 2 1 pos frames
    (args (Some 0) None None None None None false) = Err "ValueError" /\
  pm_volume_sub 0 (fun ws => Ok ws) 3 2 1 pos frames
    (args None (Some 5) None None None None false) = Err "IndexError" /\
  pm_volume_sub 0 (fun ws => Ok ws) 3 2 1 pos frames
    (args (Some (-4)) None None None None None false) = Err "IndexError" /\
  pm_volume_sub 0 (fun ws => Ok ws) 3 2 1 pos frames
    (args None None (Some 2) (Some 2) None None false) = Err "IndexError" /\
  pm_volume_sub 0 (fun ws => Ok ws) 3 2 1 pos frames
    (args None None (Some 4) None None None false) = Err "ValueError" /\
  pm_volume_sub 0 (fun ws => Ok ws) 3 2 2 pos frames
    (args None None None None None None false) = Err "RuntimeError".
Proof. vm_compute. repeat split; reflexivity. Qed.

(* ---- with a transform (real world values): each slice of the window is transformed as a whole
   frame, then cropped --------------------------------------------------------------------------- *)
Lemma volume_sub_transformed {A} (d : A) (tr : list Z -> res (list A)) R C pos frames a nr nc out :
  pm_volume_sub d tr R C 1 pos frames a = Ok (nr, nc, out) ->
  exists sl s e r0 r1 c0 c1,
    std_axis (v_rs a) (v_re a) R (v_ai a) = Ok (r0, r1) /\
    std_axis (v_cs a) (v_ce a) C (v_ai a) = Ok (c0, c1) /\
    pm_volume pos frames = Ok sl /\
    std_slice (v_ss a) (v_se a) (Z.of_nat (length sl)) (v_ai a) = Ok (s, e) /\
    0 <= s /\ r0 < r1 /\ c0 < c1 /\ nr = r1 - r0 /\ nc = c1 - c0 /\
    Forall2 (fun pf o => exists v, tr (snd pf) = Ok v /\
                                   o = (fst pf, crop_frame d C r0 r1 c0 c1 v))
            (firstn (Z.to_nat (e - s)) (skipn (Z.to_nat s) sl)) out.
Proof.
  unfold pm_volume_sub. rewrite flat_map_repeat_1.
  destruct (std_axis (v_rs a) (v_re a) R (v_ai a)) as [[r0 r1]|k1] eqn:Er; cbn [bind]; [|discriminate].
  destruct (std_axis (v_cs a) (v_ce a) C (v_ai a)) as [[c0 c1]|k2] eqn:Ec; cbn [bind]; [|discriminate].
  destruct (pm_volume pos frames) as [sl|k3] eqn:Ev; cbn [bind]; [|discriminate].
  destruct (std_slice (v_ss a) (v_se a) (Z.of_nat (length sl)) (v_ai a)) as [[s e]|k4] eqn:Es;
    cbn [bind fst snd]; [|discriminate].
  destruct (s <? 0) eqn:E1; [destruct (s <? - Z.of_nat (length sl)); discriminate|].
  destruct (res_all _) as [out'|k5] eqn:Ea; cbn [bind]; [|discriminate].
  destruct ((r1 <=? r0) || (c1 <=? c0)) eqn:E2; [discriminate|].
  intros H. inversion H; subst. exists sl, s, e, r0, r1, c0, c1.
  repeat split; auto; try lia.
  apply res_all_map_ok in Ea. clear - Ea.
  induction Ea as [|pf o l t Hx _ IH]; cbn [map]; constructor; [|exact IH].
  destruct (tr (snd pf)) as [v|] eqn:Et; cbn [bind] in Hx; [|discriminate].
  inversion Hx; subst. exists v. split; [reflexivity|reflexivity].
Qed.
