(* C04 - model of reading regions of a tiled total pixel matrix and of tiling a
   whole-matrix mask.  Mirrors (src/highdicom):
     image.py    _Image._standardize_row_column_indices        (standardize_rc)
                 _Image._iterate_indices_for_tiled_region       (selected, in_/out_ slices,
                                                                 count check, ORDER BY)
                 _Image._get_pixels_by_frame / Image.get_total_pixel_matrix
                                                                (read_region, img_read)
                 _build_luts TILED_FULL branch + spatial.iter_tiled_full_frame_data
                                                                (imply_full)
     seg/sop.py  Segmentation.__init__(tile_pixel_array=True)   (seg_store)
                 _get_nonempty_tile_indices, _check_tiled_dimension_organization,
                 _get_segment_pixel_array (integer inputs)
                 Segmentation.get_total_pixel_matrix            (seg_read, seg_read_labelmap)
     spatial.py  get_tile_array, compute_tile_positions_per_frame (from C12_Model)
   Integers are Z.  The output array of the frame loop
       out = zeros(shape); for tile in ORDER BY (rp, cp): out[out_slice] = frame[in_slice]
   is modelled cell-wise: the value of an output cell is the one written by the
   LAST tile (in iteration order) whose output slice contains the cell, else 0. *)
From Coq Require Import String ZArith List Bool.
From HD Require Import Base.Val Base.PySlice C12_Model.
Import ListNotations.
Open Scope Z_scope.

(* ---------------------------------------------------------------------- *)
(* _standardize_row_column_indices                                          *)
(* ---------------------------------------------------------------------- *)
Definition pre_idx (as_indices : bool) (x : option Z) : option Z :=
  match x with
  | Some v => if as_indices && (0 <=? v) then Some (v + 1) else Some v
  | None => None
  end.
Definition dflt (d : Z) (x : option Z) : Z := match x with Some v => v | None => d end.

(* `if start > n: raise
    elif start < 0: start = n + start + 1; if start < 1: raise` *)
Definition std_start (n s : Z) : res Z :=
  if n <? s then Err "ValueError"
  else if s <? 0 then (if n + s + 1 <? 1 then Err "ValueError" else Ok (n + s + 1))
  else Ok s.
(* `if end > n + 1: raise
    elif end < 0: end = n + end + 1; if end < 1: raise` *)
Definition std_end (n e : Z) : res Z :=
  if n + 1 <? e then Err "ValueError"
  else if e <? 0 then (if n + e + 1 <? 1 then Err "ValueError" else Ok (n + e + 1))
  else Ok e.

Definition standardize_rc (as_indices : bool) (rs re cs ce : option Z) (rows cols : Z)
  : res (Z * Z * Z * Z) :=
  let rs1 := dflt 1 (pre_idx as_indices rs) in
  let re1 := dflt (rows + 1) (pre_idx as_indices re) in
  let cs1 := dflt 1 (pre_idx as_indices cs) in
  let ce1 := dflt (cols + 1) (pre_idx as_indices ce) in
  if (cs1 =? 0) || (rs1 =? 0) then Err "ValueError"
  else if (ce1 =? 0) || (re1 =? 0) then Err "ValueError"
  else
    bind (std_start rows rs1) (fun rs2 =>
    bind (std_end rows re1) (fun re2 =>
    bind (std_start cols cs1) (fun cs2 =>
    bind (std_end cols ce1) (fun ce2 => Ok (rs2, re2, cs2, ce2))))).

Definition standardize_rc_out (as_indices out_as_indices : bool) (rs re cs ce : option Z)
           (rows cols : Z) : res (Z * Z * Z * Z) :=
  bind (standardize_rc as_indices rs re cs ce rows cols) (fun t =>
    match t with (a, b, c, d) =>
      if out_as_indices then Ok (a - 1, b - 1, c - 1, d - 1) else Ok (a, b, c, d) end).

(* ---------------------------------------------------------------------- *)
(* _iterate_indices_for_tiled_region : per-axis predicate and slices        *)
(* ---------------------------------------------------------------------- *)
(* WHERE pos >= start - t + 1 AND pos < end *)
Definition selected (s e t p : Z) : bool := (s - t + 1 <=? p) && (p <? e).
(* input  slice(max(start - p, 0), min(end - p, t)) *)
Definition in_lo (s p : Z) : Z := Z.max (s - p) 0.
Definition in_hi (e t p : Z) : Z := Z.min (e - p) t.
(* output slice(max(p - start, 0), min(p + t - start, end - start)) *)
Definition out_lo (s p : Z) : Z := Z.max (p - s) 0.
Definition out_hi (s e t p : Z) : Z := Z.min (p + t - s) (e - s).

(* a stored frame with its (explicit or implied) 1-based position *)
Record tile := mkT { t_rp : Z; t_cp : Z; t_px : list (list Z) }.

Definition tile_selected (s e cs ce th tw : Z) (t : tile) : bool :=
  selected s e th (t_rp t) && selected cs ce tw (t_cp t).

(* does the output slice of tile t contain output cell (i, j) ? *)
Definition covers (s e cs ce th tw : Z) (t : tile) (i j : Z) : bool :=
  tile_selected s e cs ce th tw t &&
  ((out_lo s (t_rp t) <=? i) && (i <? out_hi s e th (t_rp t))) &&
  ((out_lo cs (t_cp t) <=? j) && (j <? out_hi cs ce tw (t_cp t))).

(* numpy basic-slice assignment copies position-wise: output index i of the
   slice takes input index in_lo + (i - out_lo) *)
Definition src_cell (s cs : Z) (t : tile) (i j : Z) : Z :=
  cell (t_px t) (in_lo s (t_rp t) + (i - out_lo s (t_rp t)))
                (in_lo cs (t_cp t) + (j - out_lo cs (t_cp t))).

Definition out_cell (ts : list tile) (s e cs ce th tw i j : Z) : Z :=
  fold_left (fun acc t => if covers s e cs ce th tw t i j then src_cell s cs t i j else acc) ts 0.

(* ORDER BY RowPosition, ColumnPosition *)
Definition tile_leb (a b : tile) : bool :=
  (t_rp a <? t_rp b) || ((t_rp a =? t_rp b) && (t_cp a <=? t_cp b)).
Fixpoint insert_tile (t : tile) (l : list tile) : list tile :=
  match l with
  | [] => [t]
  | x :: r => if tile_leb t x then t :: l else x :: insert_tile t r
  end.
Definition sort_tiles (l : list tile) : list tile := fold_right insert_tile [] l.

Definition read_region (ts : list tile) (s e cs ce th tw : Z) : list (list Z) :=
  let ts' := sort_tiles ts in
  map (fun i => map (fun j => out_cell ts' s e cs ce th tw i j) (zrange (ce - cs)))
      (zrange (e - s)).

(* shapes of the two slices (numpy requires them to agree; proved always equal) *)
Definition in_len (s e t p : Z) : Z := in_hi e t p - in_lo s p.
Definition out_len (s e t p : Z) : Z := out_hi s e t p - out_lo s p.

(* the "missing frames" count of the TILED_SPARSE branch *)
Definition frames_expected (s e t : Z) : Z := ((e - 2) / t) - ((s - 1) / t) + 1.
Definition count_selected (ts : list tile) (s e cs ce th tw : Z) : Z :=
  Z.of_nat (length (filter (tile_selected s e cs ce th tw) ts)).

(* _do_columns_identify_unique_frames on (row position, column position) *)
Fixpoint pos_mem (rp cp : Z) (l : list tile) : bool :=
  match l with
  | [] => false
  | x :: r => ((t_rp x =? rp) && (t_cp x =? cp)) || pos_mem rp cp r
  end.
Fixpoint unique_positions (l : list tile) : bool :=
  match l with
  | [] => true
  | x :: r => negb (pos_mem (t_rp x) (t_cp x) r) && unique_positions r
  end.

(* TILED_FULL: positions implied by frame order (iter_tiled_full_frame_data,
   one channel, one focal plane): frame k sits at the k-th grid offset *)
Definition imply_full (R C th tw : Z) (frames : list (list (list Z))) : list tile :=
  map (fun p => mkT (snd (fst p)) (fst (fst p)) (snd p))
      (combine (tile_offsets R C th tw) frames).

(* region read after standardisation; [check_count] = TILED_SPARSE Image path
   (allow_missing_combinations = False); np.zeros refuses negative shapes *)
Definition read_std (check_count : bool) (ts : list tile) (R C th tw : Z)
           (as_indices : bool) (rs re cs ce : option Z) : res (list (list Z)) :=
  bind (standardize_rc as_indices rs re cs ce R C) (fun t =>
    match t with (s, e, c0, c1) =>
      if check_count &&
         negb (count_selected ts s e c0 c1 th tw =? frames_expected s e th * frames_expected c0 c1 tw)
      then Err "RuntimeError"
      else if (e - s <? 0) || (c1 - c0 <? 0) then Err "ValueError"
      else Ok (read_region ts s e c0 c1 th tw)
    end).

(* Image.get_total_pixel_matrix for one sample plane *)
Definition img_read (full : bool) (ts : list tile) (R C th tw : Z)
           (as_indices : bool) (rs re cs ce : option Z) : res (list (list Z)) :=
  if negb (unique_positions ts) then Err "RuntimeError"
  else read_std (negb full) ts R C th tw as_indices rs re cs ce.

(* ---------------------------------------------------------------------- *)
(* Segmentation(tile_pixel_array=True, tile_size=(th, tw))                   *)
(* ---------------------------------------------------------------------- *)
Inductive segtype := Binary | Fractional | Labelmap.

(* a plane = (segment number, R x C matrix); LABELMAP has the single plane
   (0, label map); BINARY/FRACTIONAL one 0/1 plane per described segment *)
Definition plane := (Z * list (list Z))%type.
Record stile := mkS { s_seg : Z; s_tile : tile }.

Definition planes_of_labelmap (L : list (list Z)) (segs : list Z) : list plane :=
  map (fun k => (k, map (map (fun v => if v =? k then 1 else 0)) L)) segs.

Definition any_nonzero (T : list (list Z)) : bool :=
  existsb (fun row => existsb (fun v => negb (v =? 0)) row) T.

(* get_tile_array(pixel_array[0], row_offset, column_offset, th, tw), padded *)
Definition cut (M : list (list Z)) (R C th tw : Z) (pos : Z * Z) : list (list Z) :=
  match get_tile_array M R C (snd pos) (fst pos) th tw true with
  | Ok T => T
  | Err _ => []
  end.

(* _get_nonempty_tile_indices: np.any over all segments of the tile *)
Definition nonempty_positions (planes : list plane) (R C th tw : Z) : list (Z * Z) :=
  filter (fun pos => existsb (fun pl => any_nonzero (cut (snd pl) R C th tw pos)) planes)
         (tile_offsets R C th tw).

Definition scale_tile (k : Z) (T : list (list Z)) : list (list Z) := map (map (fun v => v * k)) T.

Definition seg_store (ty : segtype) (maxfrac : Z) (full omit : bool) (planes : list plane)
           (R C th tw : Z) : res (list stile) :=
  let positions := tile_offsets R C th tw in
  let ne := nonempty_positions planes R C th tw in
  let omit' := omit && negb (match ne with [] => true | _ => false end) in
  let included := if omit' then ne else positions in
  if full && omit' then Err "ValueError"
  else Ok (flat_map (fun pl : plane =>
         flat_map (fun pos =>
           let T := cut (snd pl) R C th tw pos in
           match ty with
           | Labelmap => [mkS (fst pl) (mkT (snd pos) (fst pos) T)]
           | Binary => if omit' && negb (any_nonzero T) then []
                       else [mkS (fst pl) (mkT (snd pos) (fst pos) T)]
           | Fractional => if omit' && negb (any_nonzero T) then []
                           else [mkS (fst pl) (mkT (snd pos) (fst pos) (scale_tile maxfrac T))]
           end) included) planes).

(* what the reader sees: explicit positions (TILED_SPARSE) or positions
   re-derived from the frame order (TILED_FULL: segment x grid) *)
Definition reimply_full (segs : list Z) (R C th tw : Z) (st : list stile) : list stile :=
  map (fun p => mkS (fst (fst p)) (mkT (snd (snd (fst p))) (fst (snd (fst p))) (t_px (s_tile (snd p)))))
      (combine (flat_map (fun k => map (fun pos => (k, pos)) (tile_offsets R C th tw)) segs) st).

Definition tiles_of_seg (k : Z) (st : list stile) : list tile :=
  map s_tile (filter (fun x => s_seg x =? k) st).

(* Segmentation.get_total_pixel_matrix(segment_numbers=sel, combine_segments=False,
   rescale_fractional=False): one 2-D region per requested segment *)
Definition seg_read (st : list stile) (sel : list Z) (R C th tw : Z)
           (as_indices : bool) (rs re cs ce : option Z) : res (list (list (list Z))) :=
  fold_right (fun k acc =>
      bind (read_std false (tiles_of_seg k st) R C th tw as_indices rs re cs ce) (fun a =>
      bind acc (fun l => Ok (a :: l))))
    (Ok []) sel.

(* LABELMAP, combine_segments=True, relabel=False: stored label map with the
   unrequested segments mapped to background 0 *)
Definition seg_read_labelmap (st : list stile) (sel : list Z) (R C th tw : Z)
           (as_indices : bool) (rs re cs ce : option Z) : res (list (list Z)) :=
  bind (read_std false (tiles_of_seg 0 st) R C th tw as_indices rs re cs ce) (fun a =>
    Ok (map (map (fun v => if existsb (Z.eqb v) sel then v else 0)) a)).

(* ---- boundary functions for the correspondence run --------------------- *)
Definition v4 (t : Z * Z * Z * Z) : val :=
  match t with (a, b, c, d) => VL [VZ a; VZ b; VZ c; VZ d] end.
Definition run_std (as_indices out_as_indices : bool) rs re cs ce rows cols : val :=
  vres v4 (standardize_rc_out as_indices out_as_indices rs re cs ce rows cols).

(* several sample planes of one image (RGB): same error for all planes *)
Fixpoint all_ok {A} (l : list (res A)) : res (list A) :=
  match l with
  | [] => Ok []
  | x :: r => bind x (fun a => bind (all_ok r) (fun t => Ok (a :: t)))
  end.
Definition run_img (full : bool) (R C th tw : Z) (planes : list (list tile))
           (as_indices : bool) rs re cs ce : val :=
  vres (fun l => VL (map vz_list2 l))
       (all_ok (map (fun ts => img_read full ts R C th tw as_indices rs re cs ce) planes)).
Definition run_img_full (R C th tw : Z) (planes : list (list (list (list Z))))
           (as_indices : bool) rs re cs ce : val :=
  run_img true R C th tw (map (imply_full R C th tw) planes) as_indices rs re cs ce.

Definition region := (bool * (option Z * option Z * option Z * option Z))%type.

Definition stored (ty : segtype) (maxfrac : Z) (full omit : bool) (planes : list plane)
           (segs : list Z) (R C th tw : Z) : res (list stile) :=
  bind (seg_store ty maxfrac full omit planes R C th tw) (fun st =>
    Ok (if full then reimply_full segs R C th tw st else st)).

(* construct once, read several regions *)
Definition run_seg (ty : segtype) (maxfrac : Z) (full omit : bool) (planes : list plane)
           (segs sel : list Z) (R C th tw : Z) (regions : list region) : val :=
  match stored ty maxfrac full omit planes segs R C th tw with
  | Err k => VErr k
  | Ok st =>
      VL (VZ (Z.of_nat (length st)) ::
          map (fun rg : region =>
                 match rg with (ai, (rs, re, cs, ce)) =>
                   match ty with
                   | Labelmap => vres vz_list2 (seg_read_labelmap st sel R C th tw ai rs re cs ce)
                   | _ => vres (fun l => VL (map vz_list2 l)) (seg_read st sel R C th tw ai rs re cs ce)
                   end
                 end) regions)
  end.

(* all (start, end) combinations along one axis (other axis: whole matrix),
   for the exhaustive model-vs-numpy enumeration *)
Definition run_grid1d (rows_axis : bool) (ai : bool) (R C th tw : Z)
           (planes : list (list (list (list Z)))) (starts ends : list (option Z)) : val :=
  VL (flat_map (fun s => map (fun e =>
        if rows_axis then run_img_full R C th tw planes ai s e None None
        else run_img_full R C th tw planes ai None None s e) ends) starts).

(* ---------------------------------------------------------------------- *)
(* geometry of the tiled segmentation relative to its source image           *)
(* (Segmentation.__init__, tile_pixel_array branch, sop.py 749-753 and        *)
(*  1027-1116; _add_slide_coordinate_metadata)                               *)
(* ---------------------------------------------------------------------- *)
(* `tile_size = tile_size or (src_img.Rows, src_img.Columns)` *)
Definition eff_tile (ts : option (Z * Z)) (sth stw : Z) : Z * Z :=
  match ts with Some t => t | None => (sth, stw) end.

(* plane_positions given with tile_pixel_array: exactly one item, at pixel
   matrix position (1, 1); argument = (number of items, row, column of the first) *)
Definition pp_ok (pp : option (Z * Z * Z)) : bool :=
  match pp with
  | None => true
  | Some (n, rp, cp) => (n =? 1) && (rp =? 1) && (cp =? 1)
  end.

(* are_total_pixel_matrix_locations_preserved: same origin, and the
   orientation / pixel spacing either not given by the caller or equal to the
   source image's *)
Definition tpm_preserved (origin_same user_ori ori_same user_meas meas_same : bool) : bool :=
  origin_same && (negb user_ori || ori_same) && (negb user_meas || meas_same).

(* the TotalPixelMatrixRows/Columns the segmentation declares for an R x C
   mask of a source with SR x SC total pixel matrix in sth x stw tiles:
   the shape guard, are_spatial_locations_preserved, and the two branches of
   _add_slide_coordinate_metadata (copy from the source / shape of the array) *)
Definition seg_declared (pres : bool) (R C SR SC th tw sth stw : Z) : res (Z * Z) :=
  if pres then
    if negb ((R =? SR) && (C =? SC)) then Err "ValueError"
    else if (th =? sth) && (tw =? stw) then Ok (SR, SC) else Ok (R, C)
  else Ok (R, C).

Record geom := mkGeom {
  g_SR : Z; g_SC : Z; g_sth : Z; g_stw : Z;          (* source matrix and tile size *)
  g_tile : option (Z * Z);                           (* tile_size argument *)
  g_pp : option (Z * Z * Z);                         (* plane_positions argument *)
  g_origin_same : bool; g_user_ori : bool; g_ori_same : bool;
  g_user_meas : bool; g_meas_same : bool }.

Definition g_pres (g : geom) : bool :=
  tpm_preserved (g_origin_same g) (g_user_ori g) (g_ori_same g) (g_user_meas g) (g_meas_same g).

(* construction with geometry: (tile rows, tile columns, declared rows,
   declared columns, frames as the READER will see them).  The frames are cut
   from the R x C mask; a TILED_FULL reader re-derives positions from the
   DECLARED matrix size. *)
Definition stored_geom (ty : segtype) (maxfrac : Z) (full omit : bool) (planes : list plane)
           (segs : list Z) (R C : Z) (g : geom) : res (Z * Z * Z * Z * list stile) :=
  let th := fst (eff_tile (g_tile g) (g_sth g) (g_stw g)) in
  let tw := snd (eff_tile (g_tile g) (g_sth g) (g_stw g)) in
  if negb (pp_ok (g_pp g)) then Err "ValueError"
  else
    bind (seg_declared (g_pres g) R C (g_SR g) (g_SC g) th tw (g_sth g) (g_stw g)) (fun d =>
    bind (seg_store ty maxfrac full omit planes R C th tw) (fun st =>
      Ok (th, tw, fst d, snd d,
          if full then reimply_full segs (fst d) (snd d) th tw st else st))).

(* construct once with geometry; observe tile size, declared matrix size,
   number of frames, and several regions read against the DECLARED size *)
Definition run_seg_geom (ty : segtype) (maxfrac : Z) (full omit : bool) (planes : list plane)
           (segs sel : list Z) (R C : Z) (g : geom) (regions : list region) : val :=
  match stored_geom ty maxfrac full omit planes segs R C g with
  | Err k => VErr k
  | Ok (th, tw, RD, CD, st) =>
      VL (VZ (Z.of_nat (length st)) :: VZ th :: VZ tw :: VZ RD :: VZ CD ::
          map (fun rg : region =>
                 match rg with (ai, (rs, re, cs, ce)) =>
                   match ty with
                   | Labelmap => vres vz_list2 (seg_read_labelmap st sel RD CD th tw ai rs re cs ce)
                   | _ => vres (fun l => VL (map vz_list2 l)) (seg_read st sel RD CD th tw ai rs re cs ce)
                   end
                 end) regions)
  end.

(* ---------------------------------------------------------------------- *)
(* the frame loop of _get_pixels_by_frame as ARRAY UPDATES                   *)
(*   out = np.zeros(shape); for (rp, cp, frame) in ORDER BY ...:             *)
(*       out[out_rows, out_cols] = frame[in_rows, in_cols]                   *)
(* (proved equal to the cell-wise [read_region]: C04_Proofs_Arr.v)           *)
(* ---------------------------------------------------------------------- *)
(* a[lo:hi] (step 1) on an axis of length n: CPython slice.indices, then the
   half-open index range [a, max a b) *)
Definition np_slice (n lo hi : Z) : Z * Z :=
  let a := clamp_idx 0 n n lo in
  let b := clamp_idx 0 n n hi in (a, Z.max a b).

Definition mapi {A B} (f : Z -> A -> B) (l : list A) : list B :=
  map (fun p => f (fst p) (snd p)) (combine (zrange (Z.of_nat (length l))) l).

(* out[orl:orh, ocl:och] = frame[irl:irh, icl:ich] for an H x W array and an
   fh x fw frame.  Equal slice shapes: position-wise copy.  Different shapes:
   ValueError (numpy would broadcast a length-1 source axis first; this branch
   is proved unreachable for the slices of the tiled-region iterator). *)
Definition assign2d (H W : Z) (out : list (list Z)) (orl orh ocl och : Z)
           (fh fw : Z) (frame : list (list Z)) (irl irh icl ich : Z) : res (list (list Z)) :=
  let r := np_slice H orl orh in let c := np_slice W ocl och in
  let a := np_slice fh irl irh in let b := np_slice fw icl ich in
  if negb ((snd r - fst r =? snd a - fst a) && (snd c - fst c =? snd b - fst b)) then Err "ValueError"
  else Ok (mapi (fun i row =>
             if (fst r <=? i) && (i <? snd r) then
               mapi (fun j v => if (fst c <=? j) && (j <? snd c)
                                then cell frame (fst a + (i - fst r)) (fst b + (j - fst c)) else v) row
             else row) out).

Definition zeros2 (H W : Z) : list (list Z) := map (fun _ => map (fun _ => 0) (zrange W)) (zrange H).

(* one iteration of the loop for a frame the WHERE clause selected *)
Definition paste (s e cs ce th tw : Z) (out : list (list Z)) (t : tile) : res (list (list Z)) :=
  assign2d (e - s) (ce - cs) out
           (out_lo s (t_rp t)) (out_hi s e th (t_rp t)) (out_lo cs (t_cp t)) (out_hi cs ce tw (t_cp t))
           th tw (t_px t)
           (in_lo s (t_rp t)) (in_hi e th (t_rp t)) (in_lo cs (t_cp t)) (in_hi ce tw (t_cp t)).

(* WHERE ... ORDER BY ...; then the loop (the order among frames with equal
   positions is unspecified in SQL; such images are refused before) *)
Definition read_region_arr (ts : list tile) (s e cs ce th tw : Z) : res (list (list Z)) :=
  fold_left (fun acc t => bind acc (fun out => paste s e cs ce th tw out t))
            (filter (tile_selected s e cs ce th tw) (sort_tiles ts))
            (Ok (zeros2 (e - s) (ce - cs))).

(* read_std / img_read with the array loop *)
Definition read_std_arr (check_count : bool) (ts : list tile) (R C th tw : Z)
           (as_indices : bool) (rs re cs ce : option Z) : res (list (list Z)) :=
  bind (standardize_rc as_indices rs re cs ce R C) (fun t =>
    match t with (s, e, c0, c1) =>
      if check_count &&
         negb (count_selected ts s e c0 c1 th tw =? frames_expected s e th * frames_expected c0 c1 tw)
      then Err "RuntimeError"
      else if (e - s <? 0) || (c1 - c0 <? 0) then Err "ValueError"
      else read_region_arr ts s e c0 c1 th tw
    end).
Definition img_read_arr (full : bool) (ts : list tile) (R C th tw : Z)
           (as_indices : bool) (rs re cs ce : option Z) : res (list (list Z)) :=
  if negb (unique_positions ts) then Err "RuntimeError"
  else read_std_arr (negb full) ts R C th tw as_indices rs re cs ce.

Definition run_img_arr (full : bool) (R C th tw : Z) (planes : list (list tile))
           (as_indices : bool) rs re cs ce : val :=
  vres (fun l => VL (map vz_list2 l))
       (all_ok (map (fun ts => img_read_arr full ts R C th tw as_indices rs re cs ce) planes)).
Definition run_img_full_arr (R C th tw : Z) (planes : list (list (list (list Z))))
           (as_indices : bool) rs re cs ce : val :=
  run_img_arr true R C th tw (map (imply_full R C th tw) planes) as_indices rs re cs ce.

(* ---------------------------------------------------------------------- *)
(* Image.get_volume / Segmentation.get_volume on a TILED image (image.py    *)
(* 5141-5199, seg/sop.py 4462-4529): the region arguments are standardised   *)
(* to zero-based indices FIRST (outputs_as_indices=True) and                 *)
(* get_total_pixel_matrix is then called with as_indices=True on the result, *)
(* which standardises a second time.                                         *)
(* ---------------------------------------------------------------------- *)
Definition vol_region {A} (ai : bool) (rs re cs ce : option Z) (R C : Z)
           (read : bool -> option Z -> option Z -> option Z -> option Z -> res A) : res A :=
  bind (standardize_rc_out ai true rs re cs ce R C) (fun t =>
    match t with (a, b, c, d) => read true (Some a) (Some b) (Some c) (Some d) end).

Definition img_vol_read (full : bool) (ts : list tile) (R C th tw : Z)
           (ai : bool) (rs re cs ce : option Z) : res (list (list Z)) :=
  vol_region ai rs re cs ce R C (img_read full ts R C th tw).

(* all sample planes; the array of the Volume is the region with a leading axis of length 1 *)
Definition run_img_vol (full : bool) (R C th tw : Z) (planes : list (list tile))
           (ai : bool) rs re cs ce : val :=
  vres (fun l => VL (map vz_list2 l))
       (all_ok (map (fun ts => img_vol_read full ts R C th tw ai rs re cs ce) planes)).
Definition run_img_full_vol (R C th tw : Z) (planes : list (list (list (list Z))))
           (ai : bool) rs re cs ce : val :=
  run_img_vol true R C th tw (map (imply_full R C th tw) planes) ai rs re cs ce.

(* ---------------------------------------------------------------------- *)
(* Segmentation.get_total_pixel_matrix: checks on segment_numbers and the    *)
(* remaining output modes                                                    *)
(* ---------------------------------------------------------------------- *)
(* `if len(segment_numbers) == 0: raise ValueError`; numbers that are not
   described segments: ValueError ("invalid values") *)
Definition sel_ok (described sel : list Z) : bool :=
  negb (match sel with [] => true | _ => false end) &&
  forallb (fun k => existsb (Z.eqb k) described) sel.

(* LABELMAP, combine_segments=False: one binary plane (stored value == k) per requested segment *)
Definition seg_read_labelmap_planes (st : list stile) (sel : list Z) (R C th tw : Z)
           (as_indices : bool) (rs re cs ce : option Z) : res (list (list (list Z))) :=
  bind (read_std false (tiles_of_seg 0 st) R C th tw as_indices rs re cs ce) (fun a =>
    Ok (map (fun k => map (map (fun v => if v =? k then 1 else 0)) a) sel)).

(* 1-based position of the first occurrence of v in sel, 0 when absent *)
Fixpoint index1 (v : Z) (sel : list Z) : Z :=
  match sel with
  | [] => 0
  | k :: r => if v =? k then 1 else (let i := index1 v r in if i =? 0 then 0 else i + 1)
  end.
(* LABELMAP, combine_segments=True, relabel=True: segment sel[i] is shown as i + 1 *)
Definition seg_read_labelmap_relabel (st : list stile) (sel : list Z) (R C th tw : Z)
           (as_indices : bool) (rs re cs ce : option Z) : res (list (list Z)) :=
  bind (read_std false (tiles_of_seg 0 st) R C th tw as_indices rs re cs ce) (fun a =>
    Ok (map (map (fun v => index1 v sel)) a)).

Inductive seg_mode := Planes | Combined | Relabelled.

(* one read of a stored segmentation: (segment numbers described, mode, via get_volume?) *)
Definition seg_read_any (ty : segtype) (described : list Z) (st : list stile) (sel : list Z) (mode : seg_mode)
           (R C th tw : Z) (ai : bool) (rs re cs ce : option Z) : res val :=
  if negb (sel_ok described sel) then Err "ValueError"
  else match ty, mode with
       | Labelmap, Combined => bind (seg_read_labelmap st sel R C th tw ai rs re cs ce) (fun a => Ok (vz_list2 a))
       | Labelmap, Relabelled => bind (seg_read_labelmap_relabel st sel R C th tw ai rs re cs ce) (fun a => Ok (vz_list2 a))
       | Labelmap, Planes => bind (seg_read_labelmap_planes st sel R C th tw ai rs re cs ce)
                                  (fun l => Ok (VL (map vz_list2 l)))
       | _, _ => bind (seg_read st sel R C th tw ai rs re cs ce) (fun l => Ok (VL (map vz_list2 l)))
       end.

Definition vres_id (r : res val) : val := match r with Ok v => v | Err k => VErr k end.

(* construct once; then reads (mode, through get_volume?, region) with a
   caller-chosen list of segment numbers each *)
Definition run_seg_reads (ty : segtype) (maxfrac : Z) (full omit : bool) (planes : list plane)
           (segs described : list Z) (R C th tw : Z)
           (reads : list (seg_mode * bool * list Z * region)) : val :=
  match stored ty maxfrac full omit planes segs R C th tw with
  | Err k => VErr k
  | Ok st =>
      VL (VZ (Z.of_nat (length st)) ::
          map (fun rd : seg_mode * bool * list Z * region =>
                 match rd with (mode, via_volume, sel, (ai, (rs, re, cs, ce))) =>
                   if via_volume then
                     (* get_volume checks `len(segment_numbers) == 0` first, standardises, then reads *)
                     if match sel with [] => true | _ => false end then VErr "ValueError"
                     else vres_id (vol_region ai rs re cs ce R C
                                     (seg_read_any ty described st sel mode R C th tw))
                   else vres_id (seg_read_any ty described st sel mode R C th tw ai rs re cs ce)
                 end) reads)
  end.

(* ---------------------------------------------------------------------- *)
(* combine_segments=True on BINARY / FRACTIONAL segmentations                *)
(* (_get_pixels_by_seg_frame, sop.py 3510-3578): a zero array of the region  *)
(* shape, then per selected frame                                            *)
(*     out[o] = np.maximum(frame[i] * label, out[o])                         *)
(* after the overlap check `frame[i] > 0 & out[o] > 0 -> RuntimeError`.      *)
(* np.maximum is commutative/associative, the check symmetric: the result    *)
(* does not depend on the frame order and is modelled cell-wise on the       *)
(* regions of the requested segments (one per requested number).             *)
(* FRACTIONAL: refused unless rescale_fractional; every stored value read    *)
(* must be 0 or MaximumFractionalValue (ValueError), then value // maxfrac.  *)
(* (The code interleaves the two refusals frame by frame; the model tests    *)
(* "not binary" first.  They can only differ on float-valued FRACTIONAL      *)
(* inputs, which are outside the model: integer inputs store 0 / maxfrac.)   *)
(* ---------------------------------------------------------------------- *)
Definition unit_value (ty : segtype) (mf v : Z) : Z :=
  match ty with Fractional => v / mf | _ => v end.

(* value written for the k-th requested segment: its number, or k + 1 with relabel *)
Definition labels_of (relabel : bool) (sel : list Z) : list Z :=
  if relabel then map (fun i => i + 1) (zrange (Z.of_nat (length sel))) else sel.

Definition all_cells (h w : Z) (P : Z -> Z -> bool) : bool :=
  forallb (fun i => forallb (fun j => P i j) (zrange w)) (zrange h).

Definition count_positive (ty : segtype) (mf : Z) (pl : list (list (list Z))) (i j : Z) : Z :=
  Z.of_nat (length (filter (fun A => 0 <? unit_value ty mf (cell A i j)) pl)).

Definition label_cell (ty : segtype) (mf : Z) (lp : list (Z * list (list Z))) (i j : Z) : Z :=
  fold_right (fun p acc => Z.max (unit_value ty mf (cell (snd p) i j) * fst p) acc) 0 lp.

Definition combine_planes (ty : segtype) (mf : Z) (skip : bool) (labels : list Z)
           (pl : list (list (list Z))) (h w : Z) : res (list (list Z)) :=
  if match ty with
     | Fractional => negb (all_cells h w (fun i j =>
                        forallb (fun A => (cell A i j =? 0) || (cell A i j =? mf)) pl))
     | _ => false
     end
  then Err "ValueError"
  else if negb skip && negb (all_cells h w (fun i j => count_positive ty mf pl i j <=? 1))
  then Err "RuntimeError"
  else Ok (map (fun i => map (fun j => label_cell ty mf (combine labels pl) i j) (zrange w)) (zrange h)).

(* Segmentation.get_total_pixel_matrix(segment_numbers=sel, combine_segments=True,
   relabel, rescale_fractional, skip_overlap_checks) for BINARY / FRACTIONAL;
   sel without repetitions (a repeated number is refused by the code in ways
   that are not modelled) *)
Definition seg_read_combined (ty : segtype) (mf : Z) (st : list stile) (sel : list Z)
           (relabel rescale skip : bool) (R C th tw : Z)
           (ai : bool) (rs re cs ce : option Z) : res (list (list Z)) :=
  if match ty with Fractional => negb rescale | _ => false end then Err "ValueError"
  else
    bind (standardize_rc ai rs re cs ce R C) (fun t =>
      match t with (s, e, c0, c1) =>
        if (e - s <? 0) || (c1 - c0 <? 0) then Err "ValueError"
        else bind (seg_read st sel R C th tw ai rs re cs ce) (fun pl =>
               combine_planes ty mf skip (labels_of relabel sel) pl (e - s) (c1 - c0))
      end).

(* one read with its options: (mode, rescale_fractional, skip_overlap_checks) *)
Definition seg_read_opts (ty : segtype) (mf : Z) (described : list Z) (st : list stile) (sel : list Z)
           (mode : seg_mode) (rescale skip : bool)
           (R C th tw : Z) (ai : bool) (rs re cs ce : option Z) : res val :=
  match ty, mode with
  | Labelmap, _ | _, Planes => seg_read_any ty described st sel mode R C th tw ai rs re cs ce
  | _, _ =>
      if negb (sel_ok described sel) then Err "ValueError"
      else bind (seg_read_combined ty mf st sel
                   (match mode with Relabelled => true | _ => false end) rescale skip
                   R C th tw ai rs re cs ce) (fun a => Ok (vz_list2 a))
  end.

(* a HISTORY of reads on one object: construct once; every read is a function
   of the stored frames alone (the model has no state: whether the decoded
   pixel array has been cached, which reads came before, what the caller did
   to the arrays returned earlier or to the array passed to the constructor
   cannot matter), and the stored frames are the same afterwards (last item) *)
Definition run_seg_hist (ty : segtype) (maxfrac : Z) (full omit : bool) (planes : list plane)
           (segs described : list Z) (R C th tw : Z)
           (reads : list (seg_mode * bool * (bool * bool) * list Z * region)) : val :=
  match stored ty maxfrac full omit planes segs R C th tw with
  | Err k => VErr k
  | Ok st =>
      VL (VZ (Z.of_nat (length st)) ::
          map (fun rd : seg_mode * bool * (bool * bool) * list Z * region =>
                 match rd with (mode, via_volume, (rescale, skip), sel, (ai, (rs, re, cs, ce))) =>
                   if via_volume then
                     if match sel with [] => true | _ => false end then VErr "ValueError"
                     else vres_id (vol_region ai rs re cs ce R C
                                     (seg_read_opts ty maxfrac described st sel mode rescale skip R C th tw))
                   else vres_id (seg_read_opts ty maxfrac described st sel mode rescale skip
                                               R C th tw ai rs re cs ce)
                 end) reads
          ++ [VB true])
  end.

(* ---------------------------------------------------------------------- *)
(* reads with options on a stored segmentation, shared by the run_* boundary *)
(* functions below (the same list run_seg_hist maps over)                    *)
(* ---------------------------------------------------------------------- *)
Definition opt_read := (seg_mode * bool * (bool * bool) * list Z * region)%type.

Definition reads_with_opts (ty : segtype) (maxfrac : Z) (described : list Z) (st : list stile)
           (R C th tw : Z) (reads : list opt_read) : list val :=
  map (fun rd : opt_read =>
         match rd with (mode, via_volume, (rescale, skip), sel, (ai, (rs, re, cs, ce))) =>
           if via_volume then
             if match sel with [] => true | _ => false end then VErr "ValueError"
             else vres_id (vol_region ai rs re cs ce R C
                             (seg_read_opts ty maxfrac described st sel mode rescale skip R C th tw))
           else vres_id (seg_read_opts ty maxfrac described st sel mode rescale skip
                                       R C th tw ai rs re cs ce)
         end) reads.

(* ---------------------------------------------------------------------- *)
(* FLOATING POINT masks stored as FRACTIONAL (sop.py _check_and_cast_pixel_  *)
(* array float branch, _get_nonempty_tile_indices / _get_nonempty_plane_     *)
(* indices, float branch of _get_segment_pixel_array).  A probability p      *)
(* enters the model as the LEVEL q = around(p * MaximumFractionalValue) it   *)
(* is stored as (float rounding is a premise of the correspondence run: the  *)
(* harness generates p = (q + d) / maxfrac with |d| <= 1/4).  Values outside *)
(* [0, 1] (levels outside [0, maxfrac]) and maxfrac > 255 are refused.       *)
(* Emptiness of a tile - over all segments for the tile position, per        *)
(* segment for the frame - is decided on the LEVELS, i.e. after quantisation *)
(* with the segmentation's own maxfrac: a tile holding only low              *)
(* probabilities that still quantise to a non-zero level is stored.          *)
(* ---------------------------------------------------------------------- *)
Definition levels_ok (maxfrac : Z) (planes : list plane) : bool :=
  forallb (fun pl : plane => forallb (forallb (fun v => (0 <=? v) && (v <=? maxfrac))) (snd pl)) planes.

Definition stored_frac (maxfrac : Z) (full omit : bool) (planes : list plane) (segs : list Z)
           (R C th tw : Z) : res (list stile) :=
  if (255 <? maxfrac) || negb (levels_ok maxfrac planes) then Err "ValueError"
  else stored Fractional 1 full omit planes segs R C th tw.

Definition run_seg_frac (maxfrac : Z) (full omit : bool) (planes : list plane)
           (segs described : list Z) (R C th tw : Z) (reads : list opt_read) : val :=
  match stored_frac maxfrac full omit planes segs R C th tw with
  | Err k => VErr k
  | Ok st => VL (VZ (Z.of_nat (length st)) ::
                 reads_with_opts Fractional maxfrac described st R C th tw reads)
  end.

(* ---------------------------------------------------------------------- *)
(* frames at CALLER-CHOSEN positions: Segmentation(tile_pixel_array=False,   *)
(* plane_positions=[...]) on a tiled source - any offsets, on the tile grid  *)
(* or not, overlapping or with gaps (sop.py 1164-1240, 1287-1317, 1501-1557; *)
(* _add_slide_coordinate_metadata 1962-2010)                                 *)
(* ---------------------------------------------------------------------- *)
(* a frame as passed: 1-based position and one th x tw tile per plane
   (LABELMAP: the single plane 0) *)
Record fframe := mkF { f_rp : Z; f_cp : Z; f_planes : list plane }.

Definition frame_nonempty (f : fframe) : bool :=
  existsb (fun pl : plane => any_nonzero (snd pl)) (f_planes f).

(* _get_nonempty_plane_indices, then the per-segment omission of the main loop *)
Definition seg_store_frames (ty : segtype) (maxfrac : Z) (omit : bool) (frames : list fframe) : list stile :=
  let ne := filter frame_nonempty frames in
  let omit' := omit && negb (match ne with [] => true | _ => false end) in
  let included := if omit' then ne else frames in
  flat_map (fun f : fframe =>
    flat_map (fun pl : plane =>
      let T := snd pl in
      match ty with
      | Labelmap => [mkS (fst pl) (mkT (f_rp f) (f_cp f) T)]
      | Binary => if omit' && negb (any_nonzero T) then []
                  else [mkS (fst pl) (mkT (f_rp f) (f_cp f) T)]
      | Fractional => if omit' && negb (any_nonzero T) then []
                      else [mkS (fst pl) (mkT (f_rp f) (f_cp f) (scale_tile maxfrac T))]
      end) (f_planes f)) included.

(* TotalPixelMatrixRows / Columns written by _add_slide_coordinate_metadata when
   spatial locations are not preserved and no matrix size is given (since fix D121):
       rows = row_offsets.max() + Rows - 1;  columns = col_offsets.max() + Columns - 1
   Positions are (row, column). *)
Definition declared_free (th tw : Z) (ps : list (Z * Z)) : Z * Z :=
  match ps with
  | [] => (0, 0)
  | p :: r => (fold_left Z.max (map fst r) (fst p) + th - 1,
               fold_left Z.max (map snd r) (snd p) + tw - 1)
  end.

(* construct from frames; observe the number of stored frames, the declared
   matrix size, and reads addressed against the DECLARED size *)
Definition run_seg_free (ty : segtype) (maxfrac : Z) (omit : bool) (frames : list fframe)
           (described : list Z) (th tw : Z) (reads : list opt_read) : val :=
  let st := seg_store_frames ty maxfrac omit frames in
  let d := declared_free th tw (map (fun f => (f_rp f, f_cp f)) frames) in
  VL (VZ (Z.of_nat (length st)) :: VZ (fst d) :: VZ (snd d) ::
      reads_with_opts ty maxfrac described st (fst d) (snd d) th tw reads).
