(* C17 - model of coded concepts as values.
   Mirrors (src/highdicom/sr/coding.py, pydicom/sr/coding.py):
     CodedConcept.__init__       attribute selection by form and length, meaning length guard
     CodedConcept.value / meaning / scheme_designator / scheme_version
     CodedConcept.__eq__ / __ne__ / __hash__
     CodedConcept.from_dataset (copy / alias, exactly-one check), from_code
     pydicom Code.__eq__ / __ne__ / __hash__  (SRT -> SCT retired-scheme table)
   Strings are Coq strings.  The SRT->SCT table [srt] and the string hash [H]
   are parameters (Section variables in the proofs; a finite association list
   in the correspondence run).  Python objects that can be aliased live in a
   small heap (list of datasets, address = position). *)
From Coq Require Import String ZArith List Bool Ascii.
From HD Require Import Base.Val.
Import ListNotations.
Open Scope string_scope.
Open Scope Z_scope.

(* ---- strings ------------------------------------------------------------ *)
Definition slen (s : string) : Z := Z.of_nat (String.length s).
(* pat in s *)
Fixpoint contains (pat s : string) : bool :=
  prefix pat s || match s with EmptyString => false | String _ s' => contains pat s' end.
(* value.startswith('urn') or '://' in value *)
Definition is_uri_form (v : string) : bool := prefix "urn" v || contains "://" v.

Definition ostr_eqb (a b : option string) : bool :=
  match a, b with
  | Some x, Some y => String.eqb x y
  | None, None => true
  | _, _ => false
  end.

(* ---- pydicom Code (a named tuple) ----------------------------------------- *)
Record code := Code { c_value : string; c_scheme : string; c_meaning : string; c_version : option string }.

(* ---- datasets -------------------------------------------------------------- *)
Inductive attr := ACodeValue | ALongCodeValue | AURNCodeValue.

Record dsobj := DS {
  d_cv : option string;        (* CodeValue *)
  d_lcv : option string;       (* LongCodeValue *)
  d_urn : option string;       (* URNCodeValue *)
  d_meaning : option string;   (* CodeMeaning *)
  d_scheme : option string;    (* CodingSchemeDesignator *)
  d_version : option string;   (* CodingSchemeVersion *)
  d_cc : bool                  (* __class__ is CodedConcept *)
}.

Definition select_attr (v : string) : attr :=
  if is_uri_form v then AURNCodeValue
  else if 16 <? slen v then ALongCodeValue
  else ACodeValue.

Definition attr_slot (a : attr) (d : dsobj) : option string :=
  match a with ACodeValue => d_cv d | ALongCodeValue => d_lcv d | AURNCodeValue => d_urn d end.

(* CodedConcept.__init__ *)
Definition init (v s m : string) (ver : option string) : res dsobj :=
  if 64 <? slen m then Err "ValueError"
  else
    let a := select_attr v in
    Ok (DS (match a with ACodeValue => Some v | _ => None end)
           (match a with ALongCodeValue => Some v | _ => None end)
           (match a with AURNCodeValue => Some v | _ => None end)
           (Some m) (Some s) ver true).
Definition init_code (c : code) : res dsobj := init (c_value c) (c_scheme c) (c_meaning c) (c_version c).

(* accessors: value is getattr(.., None) chained CodeValue > LongCodeValue > URNCodeValue;
   meaning / scheme_designator raise AttributeError when absent *)
Definition ds_value (d : dsobj) : option string :=
  match d_cv d with
  | Some v => Some v
  | None => match d_lcv d with Some v => Some v | None => d_urn d end
  end.
Definition req (o : option string) : res string :=
  match o with Some s => Ok s | None => Err "AttributeError" end.
Definition ds_meaning (d : dsobj) : res string := req (d_meaning d).
Definition ds_scheme (d : dsobj) : res string := req (d_scheme d).
Definition ds_version (d : dsobj) : option string := d_version d.

(* ---- equality ---------------------------------------------------------------- *)
(* what Code.__eq__ looks at: (value, scheme designator, scheme version) *)
Definition view := (option string * string * option string)%type.

Definition norm (srt : string -> option string) (v : view) : view :=
  match v with
  | (Some x, s, ver) =>
      if String.eqb s "SRT" then
        match srt x with Some y => (Some y, "SCT", ver) | None => v end
      else v
  | _ => v
  end.
Definition view_eqb (a b : view) : bool :=
  match a, b with
  | (va, sa, ra), (vb, sb, rb) => ostr_eqb va vb && String.eqb sa sb && ostr_eqb ra rb
  end.
(* pydicom Code.__eq__ on the attributes of both sides *)
Definition code_eq (srt : string -> option string) (a b : view) : bool :=
  view_eqb (norm srt a) (norm srt b).

Inductive obj := PD (c : code) | HD (d : dsobj).

Definition pd_view (c : code) : view := (Some (c_value c), c_scheme c, c_version c).
(* right operand: only scheme_designator, value, scheme_version are read *)
Definition view_other (o : obj) : res view :=
  match o with
  | PD c => Ok (pd_view c)
  | HD d => bind (ds_scheme d) (fun s => Ok (ds_value d, s, ds_version d))
  end.
(* left operand: a CodedConcept first rebuilds a Code from all four accessors *)
Definition view_self (o : obj) : res view :=
  match o with
  | PD c => Ok (pd_view c)
  | HD d => bind (ds_scheme d) (fun s => bind (ds_meaning d) (fun _ => Ok (ds_value d, s, ds_version d)))
  end.
(* a == b   (CodedConcept.__eq__ / Code.__eq__, whichever class is on the left) *)
Definition obj_eq (srt : string -> option string) (a b : obj) : res bool :=
  bind (view_self a) (fun va => bind (view_other b) (fun vb => Ok (code_eq srt va vb))).
(* a != b *)
Definition obj_ne (srt : string -> option string) (a b : obj) : res bool :=
  bind (obj_eq srt a b) (fun r => Ok (negb r)).

(* ---- hash ---------------------------------------------------------------------- *)
(* hash(scheme_designator + value); value None -> TypeError *)
Definition hash_key (o : obj) : res string :=
  match o with
  | PD c => Ok (c_scheme c ++ c_value c)%string
  | HD d => bind (ds_scheme d) (fun s =>
              match ds_value d with Some v => Ok (s ++ v)%string | None => Err "TypeError" end)
  end.
Definition obj_hash (H : string -> Z) (o : obj) : res Z := bind (hash_key o) (fun k => Ok (H k)).

(* ---- heap, from_dataset, from_code --------------------------------------------- *)
Definition heap := list dsobj.
Fixpoint update (h : heap) (a : nat) (d : dsobj) : heap :=
  match h, a with
  | [], _ => []
  | _ :: t, O => d :: t
  | x :: t, S a' => x :: update t a' d
  end.
Definition isSome {A} (o : option A) : bool := match o with Some _ => true | None => false end.
Definition b2z (b : bool) : Z := if b then 1 else 0.
Definition count_cv (d : dsobj) : Z := b2z (isSome (d_cv d)) + b2z (isSome (d_lcv d)) + b2z (isSome (d_urn d)).
Definition set_cc (d : dsobj) : dsobj :=
  DS (d_cv d) (d_lcv d) (d_urn d) (d_meaning d) (d_scheme d) (d_version d) true.
Definition set_meaning (m : string) (d : dsobj) : dsobj :=
  DS (d_cv d) (d_lcv d) (d_urn d) (Some m) (d_scheme d) (d_version d) (d_cc d).

(* the argument of from_dataset: something that is not a Dataset, or a heap address *)
Inductive pyarg := NotDataset | Addr (a : nat).

Definition fd_check (d : dsobj) : res unit :=
  if negb (count_cv d =? 1) then Err "AttributeError"
  else if negb (isSome (d_meaning d)) then Err "AttributeError"
  else if negb (isSome (d_scheme d)) then Err "AttributeError"
  else Ok tt.

(* CodedConcept.from_dataset(dataset, copy): new heap and the address returned *)
Definition from_dataset (h : heap) (x : pyarg) (copy : bool) : res (heap * nat) :=
  match x with
  | NotDataset => Err "TypeError"
  | Addr a =>
      match nth_error h a with
      | None => Err "dangling"
      | Some d =>
          bind (fd_check d) (fun _ =>
            if copy then Ok ((h ++ [set_cc d])%list, length h)
            else Ok (update h a (set_cc d), a))
      end
  end.

(* objects that may be passed to from_code: a Code value or a concept at an address *)
Inductive cref := RCode (c : code) | RConcept (a : nat).
(* CodedConcept.from_code: isinstance(code, cls) -> the same object; else cls( *code ) *)
Definition from_code (h : heap) (x : cref) : res (heap * nat) :=
  match x with
  | RConcept a => Ok (h, a)
  | RCode c => bind (init_code c) (fun d => Ok ((h ++ [d])%list, length h))
  end.

(* from_code of anything else: cls( *code ) unpacks its argument.  A plain pydicom Dataset iterates its DATA ELEMENTS:
   fewer than 3 or more than 4 of them -> TypeError (arity of __init__); 3 or 4 -> the first element lands in `value`
   and value.startswith fails: AttributeError.  So from_code never accepts a plain Dataset. *)
Definition n_elems (d : dsobj) (has_seq : bool) : Z :=
  b2z (isSome (d_cv d)) + b2z (isSome (d_lcv d)) + b2z (isSome (d_urn d)) + b2z (isSome (d_meaning d)) +
  b2z (isSome (d_scheme d)) + b2z (isSome (d_version d)) + b2z has_seq.
Definition from_code_plain_err (n : Z) : string :=
  if (n <? 3) || (4 <? n) then "TypeError" else "AttributeError".
(* every argument from_code can be given: a Code / a concept (cref), a plain Dataset (with or without a nested
   sequence), something that cannot be unpacked (None, int), or an iterable of strings (a tuple, a str = its characters) *)
Inductive fcarg :=
| FCRef (x : cref)
| FCPlain (d : dsobj) (has_seq : bool)
| FCNotIterable
| FCStrings (l : list string).
Definition from_code_any (h : heap) (x : fcarg) : res (heap * nat) :=
  match x with
  | FCRef r => from_code h r
  | FCPlain d has_seq => Err (from_code_plain_err (n_elems d has_seq))
  | FCNotIterable => Err "TypeError"
  | FCStrings [v; s; m] => from_code h (RCode (Code v s m None))
  | FCStrings [v; s; m; ver] => from_code h (RCode (Code v s m (Some ver)))
  | FCStrings _ => Err "TypeError"
  end.

(* ---- boundary functions for the correspondence run ----------------------------- *)
Fixpoint assoc (tbl : list (string * string)) (k : string) : option string :=
  match tbl with
  | [] => None
  | (a, b) :: t => if String.eqb a k then Some b else assoc t k
  end.

Definition vostr (o : option string) : val := vopt VS o.
Definition vrb (r : res bool) : val := vres VB r.

(* how an object of a case is produced *)
Inductive route :=
| RtCode                      (* pydicom Code(...) *)
| RtInit                      (* CodedConcept(...) *)
| RtFromCode                  (* CodedConcept.from_code(Code(...)) *)
| RtDataset (a : attr)        (* from_dataset of a dataset holding the value in attribute a *)
| RtBroken (del : Z) (base : route). (* then delete: 0 value attrs, 1 meaning, 2 scheme *)

Definition ds_with (a : attr) (c : code) : dsobj :=
  DS (match a with ACodeValue => Some (c_value c) | _ => None end)
     (match a with ALongCodeValue => Some (c_value c) | _ => None end)
     (match a with AURNCodeValue => Some (c_value c) | _ => None end)
     (Some (c_meaning c)) (Some (c_scheme c)) (c_version c) false.

Definition delete (k : Z) (d : dsobj) : dsobj :=
  if k =? 0 then DS None None None (d_meaning d) (d_scheme d) (d_version d) (d_cc d)
  else if k =? 1 then DS (d_cv d) (d_lcv d) (d_urn d) None (d_scheme d) (d_version d) (d_cc d)
  else DS (d_cv d) (d_lcv d) (d_urn d) (d_meaning d) None (d_version d) (d_cc d).

Fixpoint mk_obj (r : route) (c : code) : res obj :=
  match r with
  | RtCode => Ok (PD c)
  | RtInit | RtFromCode => bind (init_code c) (fun d => Ok (HD d))
  | RtDataset a =>
      bind (from_dataset [ds_with a c] (Addr 0%nat) true) (fun r =>
        match nth_error (fst r) (snd r) with Some d => Ok (HD d) | None => Err "dangling" end)
  | RtBroken k base =>
      bind (mk_obj base c) (fun o =>
        match o with HD d => Ok (HD (delete k d)) | PD _ => Err "unsupported" end)
  end.

(* the hash itself is abstract; two hashes are equal iff the hashed strings are
   (collision-freeness of Python's hash on the strings of a run is checked by the harness) *)
Definition hash_eq (a b : obj) : res bool :=
  bind (hash_key a) (fun ka => bind (hash_key b) (fun kb => Ok (String.eqb ka kb))).
(* b in {a}  (set lookup: equal hash, then identity or a == b with the stored key on the right:
   CPython compares  stored == probe  as  PyObject_RichCompare(startkey, key, Py_EQ)) *)
Definition in_set_of (srt : string -> option string) (a b : obj) : res bool :=
  bind (hash_eq a b) (fun he => if he then obj_eq srt a b else Ok false).

Definition run_pair (tbl : list (string * string)) (ra : route) (ca : code) (rb : route) (cb : code) : val :=
  match mk_obj ra ca, mk_obj rb cb with
  | Ok a, Ok b =>
      VL [vrb (obj_eq (assoc tbl) a b); vrb (obj_eq (assoc tbl) b a);
          vrb (obj_ne (assoc tbl) a b); vrb (obj_ne (assoc tbl) b a);
          vrb (hash_eq a b); vrb (in_set_of (assoc tbl) a b); vrb (in_set_of (assoc tbl) b a);
          vrb (bind (hash_key a) (fun k => Ok (String.eqb k (c_scheme ca ++ c_value ca))))]
  | Err k, _ => VErr k
  | _, Err k => VErr k
  end.

Definition run_triple (tbl : list (string * string)) (ra : route) (ca : code) (rb : route) (cb : code)
           (rc : route) (cc : code) : val :=
  match mk_obj ra ca, mk_obj rb cb, mk_obj rc cc with
  | Ok a, Ok b, Ok c =>
      VL [vrb (obj_eq (assoc tbl) a b); vrb (obj_eq (assoc tbl) b c); vrb (obj_eq (assoc tbl) a c);
          vrb (obj_eq (assoc tbl) a a)]
  | _, _, _ => VErr "construct"
  end.

(* every code of a scheme x value x version x class alphabet (one meaning), in the harness's order *)
Definition all_codes (schemes values : list string) (meaning : string) (versions : list (option string))
  : list (route * code) :=
  flat_map (fun s => flat_map (fun v => flat_map (fun ver =>
    map (fun hd : bool => (if hd then RtInit else RtCode, Code v s meaning ver)) [true; false])
    versions) values) schemes.

(* a == b, then (b == c, a == c) for every c of the alphabet *)
Definition run_triple_row (tbl : list (string * string)) (ra : route) (ca : code) (rb : route) (cb : code)
           (cs : list (route * code)) : val :=
  match mk_obj ra ca, mk_obj rb cb with
  | Ok a, Ok b =>
      VL (vrb (obj_eq (assoc tbl) a b) ::
          map (fun rc => match mk_obj (fst rc) (snd rc) with
                         | Ok c => VL [vrb (obj_eq (assoc tbl) b c); vrb (obj_eq (assoc tbl) a c)]
                         | Err k => VErr k
                         end) cs)
  | _, _ => VErr "construct"
  end.

(* observation of a concept: the three attributes, then the four accessors *)
Definition vconcept (d : dsobj) : val :=
  VL [vostr (d_cv d); vostr (d_lcv d); vostr (d_urn d);
      vostr (ds_value d); vres VS (ds_scheme d); vres VS (ds_meaning d); vostr (ds_version d)].
Definition run_store (v s m : string) (ver : option string) : val := vres vconcept (init v s m ver).

(* from_dataset on a heap holding one dataset; afterwards the result's meaning is overwritten.
   Observed: result is dataset; class of the original afterwards; class of the result; the result;
   meaning of the original after the write to the result; nested item shared; nested write visible *)
Definition run_from_dataset (d : option dsobj) (copy : bool) : val :=
  match d with
  | None => vres (fun _ => VNone) (from_dataset [] NotDataset copy)
  | Some d0 =>
      match from_dataset [d0] (Addr 0%nat) copy with
      | Err k => VErr k
      | Ok (h, r) =>
          match nth_error h r, nth_error h 0%nat with
          | Some dr, Some d0' =>
              let h' := update h r (set_meaning "changed" dr) in
              VL [VB (Nat.eqb r 0); VB (d_cc d0'); VB (d_cc dr); vconcept dr;
                  match nth_error h' 0%nat with Some d0'' => vostr (d_meaning d0'') | None => VErr "dangling" end;
                  (* datasets are flat in the model: a nested item is shared / written through exactly
                     when result and original are the same object (deepcopy shares nothing) *)
                  VB (Nat.eqb r 0); VB (Nat.eqb r 0)]
          | _, _ => VErr "dangling"
          end
      end
  end.

(* from_code on a Code (fresh concept) or on a concept (same object) *)
Definition run_from_code (is_concept : bool) (c : code) : val :=
  if is_concept then
    match init_code c with
    | Err k => VErr k
    | Ok d => match from_code [d] (RConcept 0%nat) with
              | Ok (h, r) => VL [VB (Nat.eqb r 0); vopt vconcept (nth_error h r)]
              | Err k => VErr k
              end
    end
  else
    match from_code [] (RCode c) with
    | Ok (h, r) => VL [VB false; vopt vconcept (nth_error h r)]
    | Err k => VErr k
    end.

(* ======================================================================================
   Extension 1: == against anything.
   CodedConcept.__eq__ falls through to Dataset.__eq__ for an operand that is neither a Code nor
   a CodedConcept; pydicom's Dataset.__eq__ answers NotImplemented unless isinstance(other,
   self.__class__); Python then tries the reflected method (first, when the right operand's
   class is a proper subclass of the left one's) and finally falls back to identity.
   [None] below stands for NotImplemented.  [VForeign] is None / str / int (a tuple behaves alike). *)
Inductive pyval := VObj (o : obj) | VPlain (d : dsobj) | VForeign.

(* pydicom _dict_equal on the six attributes of the model (CodeMeaning included) *)
Definition fields_eqb (a b : dsobj) : bool :=
  ostr_eqb (d_cv a) (d_cv b) && ostr_eqb (d_lcv a) (d_lcv b) && ostr_eqb (d_urn a) (d_urn b) &&
  ostr_eqb (d_meaning a) (d_meaning b) && ostr_eqb (d_scheme a) (d_scheme b) &&
  ostr_eqb (d_version a) (d_version b).

(* Dataset.__eq__(self, other) for two distinct objects; self_cc: self.__class__ is CodedConcept *)
Definition ds_eq_method (self_cc : bool) (d : dsobj) (b : pyval) : option (res bool) :=
  match b with
  | VObj (HD d') => Some (Ok (fields_eqb d d'))                    (* a CodedConcept is a Dataset *)
  | VPlain p => if self_cc then None else Some (Ok (fields_eqb d p))
  | _ => None
  end.
(* type(a).__eq__(a, b) *)
Definition eq_method (srt : string -> option string) (a b : pyval) : option (res bool) :=
  match a with
  | VObj (HD d) =>
      match b with
      | VObj o => Some (obj_eq srt (HD d) o)          (* isinstance(other, (Code, CodedConcept)) *)
      | _ => ds_eq_method true d b                    (* super().__eq__(other) *)
      end
  | VObj (PD c) =>
      match b with
      | VObj o => Some (obj_eq srt (PD c) o)
      | _ => Some (Err "AttributeError")              (* other.scheme_designator *)
      end
  | VPlain p => ds_eq_method false p b
  | VForeign => None
  end.
(* the right operand's class is a proper subclass of the left one's and overrides __eq__ *)
Definition reflected_first (a b : pyval) : bool :=
  match a, b with VPlain _, VObj (HD _) => true | _, _ => false end.
(* a == b for two distinct objects, at least one of them a code *)
Definition py_eq (srt : string -> option string) (a b : pyval) : res bool :=
  let first := if reflected_first a b then eq_method srt b a else eq_method srt a b in
  let second := if reflected_first a b then eq_method srt a b else eq_method srt b a in
  match first with
  | Some r => r
  | None => match second with Some r => r | None => Ok false end
  end.
(* a != b: CodedConcept / Code define __ne__ as not (self == other); for the other left operands
   Python's default __ne__ inverts __eq__ / the reflected __ne__ *)
Definition py_ne (srt : string -> option string) (a b : pyval) : res bool :=
  bind (py_eq srt a b) (fun r => Ok (negb r)).

Definition ds_of_code (a : attr) (c : code) : dsobj := ds_with a c.
(* the other operand of a mixed comparison: 0 foreign, 1 plain dataset with the same content as [c] stored
   in attribute [a], 2 the same with another meaning *)
Definition run_eq_any (tbl : list (string * string)) (r : route) (c : code) (k : Z) (a : attr) (c2 : code) : val :=
  match mk_obj r c with
  | Err e => VErr e
  | Ok o =>
      let x := if k =? 0 then VForeign else VPlain (ds_with a c2) in
      VL [vrb (py_eq (assoc tbl) (VObj o) x); vrb (py_eq (assoc tbl) x (VObj o));
          vrb (py_ne (assoc tbl) (VObj o) x); vrb (py_ne (assoc tbl) x (VObj o))]
  end.

(* ======================================================================================
   Extension 2: sets and dictionaries with several keys.
   An entry is (identity, object).  CPython's lookup of key x: hash(x) (may raise); a stored
   entry e matches when hash(e) = hash(x) and (e is x or e == x), with the STORED key on the left.
   The table is searched in insertion order (the probing order of CPython is unobservable for
   keys on which the match relation is an equivalence - proved in C17_Proofs_Set). *)
Definition entry := (nat * obj)%type.
Definition slot_match (srt : string -> option string) (e x : entry) : res bool :=
  bind (hash_eq (snd e) (snd x)) (fun he =>
    if he then (if Nat.eqb (fst e) (fst x) then Ok true else obj_eq srt (snd e) (snd x)) else Ok false).
Fixpoint set_find (srt : string -> option string) (s : list entry) (x : entry) : res (option nat) :=
  match s with
  | [] => Ok None
  | e :: t => bind (slot_match srt e x) (fun m =>
               if m then Ok (Some 0%nat) else bind (set_find srt t x) (fun r => Ok (option_map S r)))
  end.
(* x in s: the hash of x is taken first *)
Definition set_lookup_ix (srt : string -> option string) (s : list entry) (x : entry) : res (option nat) :=
  bind (hash_key (snd x)) (fun _ => set_find srt s x).
Definition set_contains (srt : string -> option string) (s : list entry) (x : entry) : res bool :=
  bind (set_lookup_ix srt s x) (fun r => Ok (isSome r)).
Definition set_add (srt : string -> option string) (s : list entry) (x : entry) : res (list entry) :=
  bind (set_lookup_ix srt s x) (fun r => match r with Some _ => Ok s | None => Ok (s ++ [x])%list end).
Definition set_of_list (srt : string -> option string) (l : list entry) : res (list entry) :=
  fold_left (fun acc x => bind acc (fun s => set_add srt s x)) l (Ok []).

(* dict: d[x] = v keeps the key object already stored and replaces the value *)
Definition dict := list (entry * Z).
Fixpoint set_nth_value (d : dict) (i : nat) (v : Z) : dict :=
  match d, i with
  | [], _ => []
  | (k, _) :: t, O => (k, v) :: t
  | kv :: t, S i' => kv :: set_nth_value t i' v
  end.
Definition dict_set (srt : string -> option string) (d : dict) (x : entry) (v : Z) : res dict :=
  bind (set_lookup_ix srt (map fst d) x) (fun r =>
    match r with Some i => Ok (set_nth_value d i v) | None => Ok (d ++ [(x, v)])%list end).
Definition dict_get (srt : string -> option string) (d : dict) (x : entry) : res (option Z) :=
  bind (set_lookup_ix srt (map fst d) x) (fun r =>
    Ok (match r with Some i => option_map snd (nth_error d i) | None => None end)).
Definition dict_of_list (srt : string -> option string) (l : list (entry * Z)) : res dict :=
  fold_left (fun acc kv => bind acc (fun d => dict_set srt d (fst kv) (snd kv))) l (Ok []).

Fixpoint mk_entries (i : nat) (l : list (route * code)) : res (list entry) :=
  match l with
  | [] => Ok []
  | rc :: t => bind (mk_obj (fst rc) (snd rc)) (fun o => bind (mk_entries (S i) t) (fun r => Ok ((i, o) :: r)))
  end.
Fixpoint number_from (i : Z) (l : list entry) : list (entry * Z) :=
  match l with [] => [] | e :: t => (e, i) :: number_from (i + 1) t end.
Definition vnat (n : nat) : val := VZ (Z.of_nat n).
Definition vres_list {A} (f : A -> val) (l : list (res A)) : val := VL (map (vres f) l).

(* s = set(objs); d = {}; d[objs[i]] = i.  Observed: identities kept by the set (insertion order), x in s for
   every stored object itself and for every separately built probe, identities of the dict's keys, d.get(x) *)
Definition run_set (tbl : list (string * string)) (objs probes : list (route * code)) : val :=
  match mk_entries 0 objs, mk_entries (length objs) probes with
  | Ok es, Ok ps =>
      match set_of_list (assoc tbl) es, dict_of_list (assoc tbl) (number_from 0 es) with
      | Ok s, Ok d =>
          VL [VL (map (fun e => vnat (fst e)) s);
              vres_list VB (map (set_contains (assoc tbl) s) (es ++ ps));
              VL (map (fun kv => vnat (fst (fst kv))) d);
              vres_list (vopt VZ) (map (dict_get (assoc tbl) d) (es ++ ps))]
      | Err k, _ => VErr k
      | _, Err k => VErr k
      end
  | Err k, _ => VErr k
  | _, Err k => VErr k
  end.

(* ======================================================================================
   Extension 3: histories.  A heap of datasets driven by a sequence of API calls and user actions.
   [kids] records (parent address, address of the item of the parent's nested sequence): deepcopy
   copies the nested item too (depth 1 is modelled), the alias shares it.  Nested items occupy heap
   addresses but are only reached through their parent (OSetNestedMeaning) in the histories driven. *)
Inductive op :=
| OInit (v s m : string) (ver : option string)     (* CodedConcept(v, s, m, ver) *)
| OFromCode (x : cref)                             (* CodedConcept.from_code *)
| OFromDataset (x : pyarg) (copy : bool)           (* CodedConcept.from_dataset *)
| ONewDataset (d : dsobj) (nested : option dsobj)  (* the user builds a plain Dataset (class forced to Dataset) *)
| OSetMeaning (a : nat) (m : string)               (* obj.CodeMeaning = m *)
| OSetNestedMeaning (a : nat) (m : string)         (* obj.<sequence>[0].CodeMeaning = m *)
| OEq (a b : nat)                                  (* heap[a] == heap[b] *)
(* Extension 5 (objects with a past): user edits of the code itself, copies outside the API, and uses as a key *)
| OSetCode (a : nat) (k : attr) (v : string)       (* del the other code-value attributes; obj.<k> = v *)
| OSetScheme (a : nat) (s : string)                (* obj.CodingSchemeDesignator = s *)
| OSetVersion (a : nat) (ver : option string)      (* obj.CodingSchemeVersion = ver / del obj.CodingSchemeVersion *)
| OClone (a : nat)                                 (* copy.deepcopy(obj) or pickle.loads(pickle.dumps(obj)) *)
| OHash (a : nat)                                  (* hash(obj) *)
| OLookup (a b : nat).                             (* {heap[a]} / {heap[a]: 1} probed with heap[b] and with pydicom Codes *)

Definition plain (d : dsobj) : dsobj :=
  DS (d_cv d) (d_lcv d) (d_urn d) (d_meaning d) (d_scheme d) (d_version d) false.
Definition state := (heap * list (nat * nat))%type.
Fixpoint kid_of (kids : list (nat * nat)) (a : nat) : option nat :=
  match kids with
  | [] => None
  | (p, c) :: t => if Nat.eqb p a then Some c else kid_of t a
  end.
Definition as_pyval (d : dsobj) : pyval := if d_cc d then VObj (HD d) else VPlain d.

(* two items of nested sequences compared by Python's list equality: identity first, then == *)
Definition item_eq (srt : string -> option string) (cx cy : nat) (x y : dsobj) : res bool :=
  if Nat.eqb cx cy then Ok true else py_eq srt (as_pyval x) (as_pyval y).

(* ---- Extension 5: objects with a past ---------------------------------------------------------------
   hash(obj) of the real class reads the attributes at the time of the call: in the model it is a function
   of the CURRENT record and nothing else (no operation below stores anything a later hash could see).
   A plain pydicom Dataset is unhashable (Dataset.__hash__ is None -> TypeError). *)
Definition set_code (k : attr) (v : string) (d : dsobj) : dsobj :=
  DS (match k with ACodeValue => Some v | _ => None end)
     (match k with ALongCodeValue => Some v | _ => None end)
     (match k with AURNCodeValue => Some v | _ => None end)
     (d_meaning d) (d_scheme d) (d_version d) (d_cc d).
Definition set_scheme (s : string) (d : dsobj) : dsobj :=
  DS (d_cv d) (d_lcv d) (d_urn d) (d_meaning d) (Some s) (d_version d) (d_cc d).
Definition set_version (ver : option string) (d : dsobj) : dsobj :=
  DS (d_cv d) (d_lcv d) (d_urn d) (d_meaning d) (d_scheme d) ver (d_cc d).
Definition hashable (d : dsobj) : res obj := if d_cc d then Ok (HD d) else Err "TypeError".
(* Code(obj.value, obj.scheme_designator, 'x', obj.scheme_version): the pydicom representation of the code
   the object carries now *)
Definition code_of (d : dsobj) : res code :=
  bind (ds_scheme d) (fun s =>
    match ds_value d with Some v => Ok (Code v s "x" (ds_version d)) | None => Err "TypeError" end).
(* hash(obj): the hashed string, and whether it is the hash of the pydicom Code of the same scheme and value *)
Definition hash_obs (d : dsobj) : res (string * bool) :=
  bind (hashable d) (fun o => bind (hash_key o) (fun k =>
    bind (code_of d) (fun c => bind (hash_eq o (PD c)) (fun e => Ok (k, e))))).
(* s = {oa}; d = {oa: 1}; [ob in s; d.get(ob) == 1; Code(ob) in s; ob in {Code(oa)}; Code(oa) in s; oa in {Code(oa)}]
   identities: heap addresses for the objects, n and n+1 (n = size of the heap) for the two fresh Codes *)
Definition lookup_obs (srt : string -> option string) (n a b : nat) (da db : dsobj) : res (list bool) :=
  bind (hashable da) (fun oa => bind (set_of_list srt [(a, oa)]) (fun s =>
  bind (dict_of_list srt [((a, oa), 1)]) (fun d =>
  bind (hashable db) (fun ob =>
  bind (set_contains srt s (b, ob)) (fun r0 =>
  bind (dict_get srt d (b, ob)) (fun g =>
  bind (code_of da) (fun ca => bind (code_of db) (fun cb =>
  bind (set_contains srt s (S n, PD cb)) (fun r2 =>
  bind (set_of_list srt [(n, PD ca)]) (fun sc =>
  bind (set_contains srt sc (b, ob)) (fun r3 =>
  bind (set_contains srt s (n, PD ca)) (fun r4 =>
  bind (set_contains srt sc (a, oa)) (fun r5 =>
  Ok [r0; match g with Some 1 => true | _ => false end; r2; r3; r4; r5]))))))))))))).

Definition step (srt : string -> option string) (st : state) (o : op) : state * val :=
  let '(h, kids) := st in
  match o with
  | OInit v s m ver =>
      match init v s m ver with
      | Ok d => ((h ++ [d])%list, kids, vnat (length h))
      | Err k => (st, VErr k)
      end
  | OFromCode x =>
      match x with
      | RConcept a =>
          match nth_error h a with
          | Some d => if d_cc d then (st, vnat a)
                      else (st, VErr (from_code_plain_err (n_elems d (isSome (kid_of kids a)))))
          | None => (st, VErr "dangling")
          end
      | RCode c =>
          match from_code h x with
          | Ok (h', r) => (h', kids, vnat r)
          | Err k => (st, VErr k)
          end
      end
  | OFromDataset x copy =>
      match from_dataset h x copy with
      | Err k => (st, VErr k)
      | Ok (h', r) =>
          if copy then
            match x with
            | Addr a =>
                match kid_of kids a with
                | Some c => match nth_error h c with
                            | Some dc => ((h' ++ [dc])%list, (r, length h') :: kids, vnat r)
                            | None => (h', kids, vnat r)
                            end
                | None => (h', kids, vnat r)
                end
            | NotDataset => (h', kids, vnat r)
            end
          else (h', kids, vnat r)
      end
  | ONewDataset d nested =>
      match nested with
      | None => ((h ++ [plain d])%list, kids, vnat (length h))
      | Some dc => ((h ++ [plain d; plain dc])%list, (length h, S (length h)) :: kids, vnat (length h))
      end
  | OSetMeaning a m =>
      match nth_error h a with
      | Some d => (update h a (set_meaning m d), kids, vnat a)
      | None => (st, VErr "dangling")
      end
  | OSetNestedMeaning a m =>
      match kid_of kids a with
      | Some c => match nth_error h c with
                  | Some d => (update h c (set_meaning m d), kids, vnat c)
                  | None => (st, VErr "dangling")
                  end
      | None => (st, VErr "AttributeError")
      end
  | OEq a b =>
      match nth_error h a, nth_error h b with
      | Some da, Some db =>
          (* two concepts: CodedConcept.__eq__ (the nested sequence is not looked at); otherwise pydicom's
             _dict_equal(L, R) compares every element, the nested sequences as lists: R's item == L's item
             (identity first); L = the plain operand when the other one is a concept (reflected call) *)
          let swap := d_cc da && negb (d_cc db) in
          let nested_eq :=
            match kid_of kids a, kid_of kids b with
            | None, None => Ok true
            | Some ca, Some cb => match nth_error h ca, nth_error h cb with
                                  | Some x, Some y => if swap then item_eq srt ca cb x y else item_eq srt cb ca y x
                                  | _, _ => Ok false
                                  end
            | _, _ => Ok false
            end in
          (st, if Nat.eqb a b then (if d_cc da then vrb (obj_eq srt (HD da) (HD da)) else VB true)
               else if d_cc da && d_cc db then vrb (obj_eq srt (HD da) (HD db))
               else vrb (bind (py_eq srt (as_pyval da) (as_pyval db)) (fun r => if r then nested_eq else Ok false)))
      | _, _ => (st, VErr "dangling")
      end
  | OSetCode a k v =>
      match nth_error h a with
      | Some d => (update h a (set_code k v d), kids, vnat a)
      | None => (st, VErr "dangling")
      end
  | OSetScheme a s =>
      match nth_error h a with
      | Some d => (update h a (set_scheme s d), kids, vnat a)
      | None => (st, VErr "dangling")
      end
  | OSetVersion a ver =>
      match nth_error h a with
      | Some d => (update h a (set_version ver d), kids, vnat a)
      | None => (st, VErr "dangling")
      end
  | OClone a =>
      (* same class, same elements, fresh object; the nested item is copied too; nothing else is carried over *)
      match nth_error h a with
      | Some d =>
          match kid_of kids a with
          | Some c => match nth_error h c with
                      | Some dc => ((h ++ [d; dc])%list, (length h, S (length h)) :: kids, vnat (length h))
                      | None => ((h ++ [d])%list, kids, vnat (length h))
                      end
          | None => ((h ++ [d])%list, kids, vnat (length h))
          end
      | None => (st, VErr "dangling")
      end
  | OHash a =>
      match nth_error h a with
      | Some d => (st, vres (fun p => VL [VS (fst p); VB (snd p)]) (hash_obs d))
      | None => (st, VErr "dangling")
      end
  | OLookup a b =>
      match nth_error h a, nth_error h b with
      | Some da, Some db => (st, vres vb_list (lookup_obs srt (length h) a b da db))
      | _, _ => (st, VErr "dangling")
      end
  end.

Fixpoint run_ops (srt : string -> option string) (st : state) (ops : list op) : state * list val :=
  match ops with
  | [] => (st, [])
  | o :: t => let '(st', v) := step srt st o in
              let '(st'', vs) := run_ops srt st' t in (st'', v :: vs)
  end.

Definition vraw (d : dsobj) : val :=
  VL [VB (d_cc d); vostr (d_cv d); vostr (d_lcv d); vostr (d_urn d); vostr (d_meaning d); vostr (d_scheme d);
      vostr (d_version d)].
(* results of the calls, every object at the end, the nested-item relation, and hash(obj) of every object at
   the end (the hashed string; in a history that crossed a process boundary by pickle this is observed in the
   receiving interpreter, whose string hash is another function H: nothing in the model depends on H) *)
Definition run_history (tbl : list (string * string)) (ops : list op) : val :=
  let '((h, kids), vs) := run_ops (assoc tbl) ([], []) ops in
  VL [VL vs; VL (map vraw h);
      VL (map (fun a => vopt vnat (kid_of kids a)) (seq 0 (length h)));
      VL (map (fun d => vres VS (bind (hashable d) hash_key)) h)].

(* ======================================================================================
   Extension 4: a code item written with dcmwrite and read with dcmread.
   DICOM pads string values with a trailing blank to even length and a reader removes trailing blanks:
   every attribute comes back with its trailing blanks removed (values without backslash and NUL). The
   item read is a plain Dataset; from_dataset makes it a concept again. *)
Definition is_space (c : ascii) : bool := Ascii.eqb c " ".
Fixpoint rstrip (s : string) : string :=
  match s with
  | EmptyString => EmptyString
  | String c t => match rstrip t with
                  | EmptyString => if is_space c then EmptyString else String c EmptyString
                  | t' => String c t'
                  end
  end.
Definition file_roundtrip (d : dsobj) : dsobj :=
  DS (option_map rstrip (d_cv d)) (option_map rstrip (d_lcv d)) (option_map rstrip (d_urn d))
     (option_map rstrip (d_meaning d)) (option_map rstrip (d_scheme d)) (option_map rstrip (d_version d)) false.
(* CodedConcept.from_dataset(dcmread(dcmwrite(item CodedConcept(v, s, m, ver)))) *)
Definition store_file_load (v s m : string) (ver : option string) : res dsobj :=
  bind (init v s m ver) (fun d =>
    bind (from_dataset [file_roundtrip d] (Addr 0%nat) true) (fun hr =>
      match nth_error (fst hr) (snd hr) with Some d' => Ok d' | None => Err "dangling" end)).
Definition run_store_file (v s m : string) (ver : option string) : val := vres vconcept (store_file_load v s m ver).

(* ======================================================================================
   Extension 6: from_code of anything (boundary function) *)
Definition run_from_code_any (x : fcarg) : val :=
  match from_code_any [] x with
  | Ok (h, r) => VL [VB false; vopt vconcept (nth_error h r)]
  | Err k => VErr k
  end.

(* ======================================================================================
   Extension 7: the larger machine.  Two user actions that are outside the API's invariant:
     ODelAttr a k   del obj.<attribute(s)>  (k = 0: every code-value attribute, 1: CodeMeaning, 2: CodingSchemeDesignator)
                    - the object is malformed afterwards; hash / == / lookups / conversions of it are answered from
                      the record as it is (errors included);
     OShallow a     copy.copy(obj) / obj.copy(): a NEW object (own identity, own class) on the SAME element store:
                    every later write or deletion through either is seen through both; the nested item is shared.
   [links] maps an object to the representative of its store; after a write to w every object of w's store is
   refreshed from w ([sync]); the class flag stays per object (from_dataset(copy=False) converts one identity only). *)
Inductive op2 := Std (o : op) | ODelAttr (a : nat) (k : Z) | OShallow (a : nat).
Definition links := list (nat * nat).
Fixpoint root (l : links) (a : nat) : nat :=
  match l with
  | [] => a
  | (x, r) :: t => if Nat.eqb x a then r else root t a
  end.
(* the elements of [src] under the class of [old] *)
Definition share (src old : dsobj) : dsobj :=
  DS (d_cv src) (d_lcv src) (d_urn src) (d_meaning src) (d_scheme src) (d_version src) (d_cc old).
Definition sync (l : links) (w : nat) (h : heap) : heap :=
  match nth_error h w with
  | None => h
  | Some dw => map (fun bd => if Nat.eqb (root l (fst bd)) (root l w) then share dw (snd bd) else snd bd)
                   (combine (seq 0 (length h)) h)
  end.
(* the object whose elements an operation of the base machine writes *)
Definition written (kids : list (nat * nat)) (o : op) : option nat :=
  match o with
  | OSetMeaning a _ | OSetCode a _ _ | OSetScheme a _ | OSetVersion a _ => Some a
  | OSetNestedMeaning a _ => kid_of kids a
  | _ => None
  end.
Definition state2 := (state * links)%type.
Definition step2 (srt : string -> option string) (s2 : state2) (o : op2) : state2 * val :=
  let '((h, kids), l) := s2 in
  match o with
  | Std o' =>
      let '((h', kids'), v) := step srt (h, kids) o' in
      ((match written kids o' with Some w => sync l w h' | None => h' end, kids'), l, v)
  | ODelAttr a k =>
      match nth_error h a with
      | Some d => ((sync l a (update h a (delete k d)), kids), l, vnat a)
      | None => (s2, VErr "dangling")
      end
  | OShallow a =>
      match nth_error h a with
      | Some d => (((h ++ [d])%list, match kid_of kids a with Some c => (length h, c) :: kids | None => kids end),
                   (length h, root l a) :: l, vnat (length h))
      | None => (s2, VErr "dangling")
      end
  end.
Fixpoint run_ops2 (srt : string -> option string) (st : state2) (ops : list op2) : state2 * list val :=
  match ops with
  | [] => (st, [])
  | o :: t => let '(st', v) := step2 srt st o in
              let '(st'', vs) := run_ops2 srt st' t in (st'', v :: vs)
  end.
Definition run_history2 (tbl : list (string * string)) (ops : list op2) : val :=
  let '(((h, kids), _), vs) := run_ops2 (assoc tbl) (([], []), []) ops in
  VL [VL vs; VL (map vraw h);
      VL (map (fun a => vopt vnat (kid_of kids a)) (seq 0 (length h)));
      VL (map (fun d => vres VS (bind (hashable d) hash_key)) h)].

(* ======================================================================================
   Extension 8: the file round trip per value representation.
   pydicom's reader strips, per VR: SH / LO / UC (CodeValue, LongCodeValue, CodeMeaning, CodingSchemeDesignator,
   CodingSchemeVersion): trailing blanks AND NULs (value.rstrip("\0 ")); UR (URNCodeValue): trailing white space in
   Python's sense (value.rstrip(): TAB LF VT FF CR FS GS RS US blank) but NOT NUL.  [file_roundtrip] above is the
   special case of values whose only trailing padding is blanks. *)
Definition is_pad (c : ascii) : bool := Ascii.eqb c " " || Ascii.eqb c "000".
Definition is_ws (c : ascii) : bool :=
  let n := N_of_ascii c in (((9 <=? n) && (n <=? 13)) || ((28 <=? n) && (n <=? 32)))%N.
Fixpoint rstrip_by (p : ascii -> bool) (s : string) : string :=
  match s with
  | EmptyString => EmptyString
  | String c t => match rstrip_by p t with
                  | EmptyString => if p c then EmptyString else String c EmptyString
                  | t' => String c t'
                  end
  end.
Definition file_roundtrip_vr (d : dsobj) : dsobj :=
  DS (option_map (rstrip_by is_pad) (d_cv d)) (option_map (rstrip_by is_pad) (d_lcv d))
     (option_map (rstrip_by is_ws) (d_urn d)) (option_map (rstrip_by is_pad) (d_meaning d))
     (option_map (rstrip_by is_pad) (d_scheme d)) (option_map (rstrip_by is_pad) (d_version d)) false.
Definition store_file_load_vr (v s m : string) (ver : option string) : res dsobj :=
  bind (init v s m ver) (fun d =>
    bind (from_dataset [file_roundtrip_vr d] (Addr 0%nat) true) (fun hr =>
      match nth_error (fst hr) (snd hr) with Some d' => Ok d' | None => Err "dangling" end)).
(* the correspondence run writes control characters as printable stand-ins: ~ = NUL, ^ = TAB, | = LF, ` = CR *)
Definition unesc_char (c : ascii) : ascii :=
  if Ascii.eqb c "~" then "000"%char else if Ascii.eqb c "^" then "009"%char
  else if Ascii.eqb c "|" then "010"%char else if Ascii.eqb c "`" then "013"%char else c.
Definition esc_char (c : ascii) : ascii :=
  if Ascii.eqb c "000" then "~"%char else if Ascii.eqb c "009" then "^"%char
  else if Ascii.eqb c "010" then "|"%char else if Ascii.eqb c "013" then "`"%char else c.
Fixpoint smap (f : ascii -> ascii) (s : string) : string :=
  match s with EmptyString => EmptyString | String c t => String (f c) (smap f t) end.
Definition vconcept_esc (d : dsobj) : val :=
  let e := option_map (smap esc_char) in
  vconcept (DS (e (d_cv d)) (e (d_lcv d)) (e (d_urn d)) (e (d_meaning d)) (e (d_scheme d)) (e (d_version d)) (d_cc d)).
Definition run_store_file_vr (v s m : string) (ver : option string) : val :=
  vres vconcept_esc (store_file_load_vr (smap unesc_char v) (smap unesc_char s) (smap unesc_char m)
                                         (option_map (smap unesc_char) ver)).
