(* C16 - lemmas and proofs. *)
From Coq Require Import String ZArith List Bool Lia.
From HD Require Import Base.Val C16_Model.
Import ListNotations.
Open Scope Z_scope.

(* ---------------------------------------------------------------------------------- *)
(* generic list facts                                                                   *)
(* ---------------------------------------------------------------------------------- *)
Lemma filter_map_none {A B} (p : B -> bool) (f : A -> B) l :
  (forall x, In x l -> p (f x) = false) -> filter p (map f l) = [].
Proof.
  induction l as [|a l IH]; intros H; cbn [map filter]; [reflexivity|].
  rewrite (H a (or_introl eq_refl)). apply IH. intros x Hx. apply H. now right.
Qed.
Lemma filter_map_all {A B} (p : B -> bool) (f : A -> B) l :
  (forall x, In x l -> p (f x) = true) -> filter p (map f l) = map f l.
Proof.
  induction l as [|a l IH]; intros H; cbn [map filter]; [reflexivity|].
  rewrite (H a (or_introl eq_refl)). f_equal. apply IH. intros x Hx. apply H. now right.
Qed.
Lemma filter_none {A} (p : A -> bool) l : (forall x, In x l -> p x = false) -> filter p l = [].
Proof. intros H. rewrite <- (map_id l). apply filter_map_none. exact H. Qed.
Lemma filter_all {A} (p : A -> bool) l : (forall x, In x l -> p x = true) -> filter p l = l.
Proof. intros H. rewrite <- (map_id l) at 1 2. rewrite filter_map_all; [now rewrite map_id|exact H]. Qed.
Lemma existsb_filter {A} (p q : A -> bool) l : existsb q (filter p l) = existsb (fun x => p x && q x) l.
Proof.
  induction l as [|a l IH]; cbn [filter existsb]; [reflexivity|].
  destruct (p a); cbn [existsb andb]; now rewrite IH.
Qed.
Lemma existsb_none {A} (p : A -> bool) l : (forall x, In x l -> p x = false) -> existsb p l = false.
Proof.
  induction l as [|a l IH]; intros H; cbn [existsb]; [reflexivity|].
  rewrite (H a (or_introl eq_refl)). apply IH. intros x Hx. apply H. now right.
Qed.
Lemma existsb_map {A B} (p : B -> bool) (f : A -> B) l : existsb p (map f l) = existsb (fun x => p (f x)) l.
Proof. induction l as [|a l IH]; cbn [map existsb]; [reflexivity|]. now rewrite IH. Qed.
Lemma existsb_ext_in {A} (p q : A -> bool) l : (forall x, In x l -> p x = q x) -> existsb p l = existsb q l.
Proof.
  induction l as [|a l IH]; intros H; cbn [existsb]; [reflexivity|].
  rewrite (H a (or_introl eq_refl)). f_equal. apply IH. intros x Hx. apply H. now right.
Qed.
Lemma length_filter_all {A} (p : A -> bool) l : (forall x, In x l -> p x = true) -> length (filter p l) = length l.
Proof. intros H. now rewrite filter_all. Qed.

(* ---------------------------------------------------------------------------------- *)
(* collect = filter when the test never fails                                           *)
(* ---------------------------------------------------------------------------------- *)
Lemma collect_map_build (p : item -> res bool) (spec : group -> bool) (ok : group -> Prop) gs :
  (forall g, ok g -> p (build g) = Ok (spec g)) -> Forall ok gs ->
  collect p (map build gs) = Ok (map build (filter spec gs)).
Proof.
  intros Hp. induction 1 as [|g gs Hg Hgs IH]; cbn [map collect filter]; [reflexivity|].
  rewrite (Hp g Hg). cbn [bind]. rewrite IH. cbn [bind]. now destruct (spec g).
Qed.

(* a failing argument check is the answer of the query, whatever the report *)
Lemma planar_refusal root f e : check_planar f = Err e -> get_planar root f = Err e.
Proof. intros H. unfold get_planar. now rewrite H. Qed.
Lemma volumetric_refusal root f e : check_volumetric f = Err e -> get_volumetric root f = Err e.
Proof. intros H. unfold get_volumetric. now rewrite H. Qed.

(* ---------------------------------------------------------------------------------- *)
(* group discovery                                                                      *)
(* ---------------------------------------------------------------------------------- *)
Definition is_im (i : item) : bool := (nm i =? cImagingMeasurements) && vt_eqb (vt i) CONTAINER.
Definition no_im (pre : list item) : bool := forallb (fun i => negb (is_im i)) pre.

Lemma find_groups_report pre gs : no_im pre = true -> find_measurement_groups (report pre gs) = map build gs.
Proof.
  intros H. unfold find_measurement_groups, report. cbn [kids]. unfold find_items at 1.
  rewrite filter_app. rewrite filter_none.
  2:{ intros x Hx. unfold no_im in H. rewrite forallb_forall in H. specialize (H x Hx).
      unfold is_im in H. cbn [has_name has_vt has_rl]. rewrite andb_true_r.
      now apply negb_true_iff in H. }
  cbn. unfold find_items. apply filter_all. intros x Hx. apply in_map_iff in Hx as [g [<- _]]. reflexivity.
Qed.

(* ---------------------------------------------------------------------------------- *)
(* structure of the skeleton                                                            *)
(* ---------------------------------------------------------------------------------- *)
Lemma in_opt_item o f (i : item) : In i (opt_item o f) -> exists x, o = Some x /\ i = f x.
Proof. destruct o as [x|]; cbn; [intros [<-|[]]; eauto | intros []]. Qed.

Lemma common_items_ind (P : item -> Prop) g :
  P (leaf cTrackingIdentifier TEXT HAS_OBS_CONTEXT (g_tid g) 0) ->
  P (leaf cTrackingUID UIDREF HAS_OBS_CONTEXT (g_tuid g) 0) ->
  (forall s, g_session g = Some s -> P (leaf cSession TEXT HAS_OBS_CONTEXT s 0)) ->
  (forall c, g_category g = Some c -> P (leaf cFindingCategory CODE CONTAINS c 0)) ->
  (forall c, g_finding g = Some c -> P (leaf cFinding CODE CONTAINS c 0)) ->
  (forall c, g_method g = Some c -> P (leaf cMethod CODE CONTAINS c 0)) ->
  (forall c, In c (g_sites g) -> P (leaf cFindingSite CODE HAS_CONCEPT_MOD c 0)) ->
  (forall t, g_tptype g = Some t -> P (leaf cTimePoint TEXT HAS_OBS_CONTEXT 0 0)) ->
  (forall t, g_tptype g = Some t -> P (leaf cTimePointType CODE HAS_OBS_CONTEXT t 0)) ->
  (forall m, In m (g_meas g) -> P (leaf (fst m) NUM CONTAINS (snd m) 0)) ->
  (forall e, In e (g_evals g) -> P (leaf (fst e) CODE CONTAINS (snd e) 0)) ->
  (forall c, g_geom g = Some c -> P (leaf cGeomPurpose CODE CONTAINS c 0)) ->
  forall i, In i (common_items g) -> P i.
Proof.
  intros H1 H2 H3 H4 H5 H6 H7 H8 H9 H10 H11 H12 i Hi. unfold common_items in Hi.
  repeat (apply in_app_or in Hi; destruct Hi as [Hi|Hi]).
  - destruct Hi as [<-|[<-|[]]]; assumption.
  - apply in_opt_item in Hi as [x [E ->]]. eauto.
  - apply in_opt_item in Hi as [x [E ->]]. eauto.
  - apply in_opt_item in Hi as [x [E ->]]. eauto.
  - apply in_opt_item in Hi as [x [E ->]]. eauto.
  - apply in_map_iff in Hi as [x [<- Hx]]. eauto.
  - destruct (g_tptype g) as [t|] eqn:E; [|destruct Hi]. destruct Hi as [<-|[<-|[]]]; eauto.
  - apply in_map_iff in Hi as [x [<- Hx]]. eauto.
  - apply in_map_iff in Hi as [x [<- Hx]]. eauto.
  - apply in_opt_item in Hi as [x [E ->]]. eauto.
Qed.

Definition low_vt (v : vtype) : bool := match v with TEXT | UIDREF | CODE | NUM => true | _ => false end.
Lemma common_low g i : In i (common_items g) -> low_vt (vt i) = true.
Proof. revert i. apply common_items_ind; intros; reflexivity. Qed.

(* ROI counters: the common items never count *)
Lemma low_not_roi i : low_vt (vt i) = true ->
  is_ir i = false /\ is_vs i = false /\ is_rs i = false /\ is_sf i = false /\ is_ris i = false.
Proof.
  unfold is_ir, is_vs, is_rs, is_sf, is_ris. destruct (vt i); cbn; intros H; try discriminate;
    repeat split; now rewrite ?andb_false_r.
Qed.

Lemma count_app p (a b : list item) : count p (a ++ b) = count p a + count p b.
Proof. unfold count. rewrite filter_app, app_length. lia. Qed.
Lemma count_common_0 p g :
  (forall i, low_vt (vt i) = true -> p i = false) -> count p (common_items g) = 0.
Proof.
  intros H. unfold count. rewrite filter_none; [reflexivity|]. intros x Hx. apply H. now apply common_low in Hx.
Qed.

Lemma count_map_all {A} p (f : A -> item) l : (forall x, p (f x) = true) -> count p (map f l) = Z.of_nat (length l).
Proof. intros H. unfold count. rewrite filter_map_all by auto. now rewrite map_length. Qed.
Lemma count_map_none {A} p (f : A -> item) l : (forall x, p (f x) = false) -> count p (map f l) = 0.
Proof. intros H. unfold count. now rewrite filter_map_none by auto. Qed.
Lemma count_repeat_all p (x : item) n : p x = true -> count p (repeat x n) = Z.of_nat n.
Proof.
  intros H. unfold count. rewrite filter_all; [now rewrite repeat_length|].
  intros y Hy. apply repeat_spec in Hy. now subst.
Qed.
Lemma count_repeat_none p (x : item) n : p x = false -> count p (repeat x n) = 0.
Proof.
  intros H. unfold count. rewrite filter_none; [reflexivity|].
  intros y Hy. apply repeat_spec in Hy. now subst.
Qed.
Lemma count_sources_0 p so : (forall a b, p (leaf cSrcImgSeg IMAGE CONTAINS a b) = false) ->
  (forall u, p (leaf cSrcSeriesSeg UIDREF CONTAINS u 0) = false) -> count p (source_items so) = 0.
Proof.
  intros H1 H2. destruct so as [l|u]; cbn [source_items].
  - apply count_map_none. intros x. apply H1.
  - unfold count. cbn [filter]. now rewrite H2.
Qed.

Definition counts_of (r : gref) : Z * Z * Z * Z * Z :=
  match r with
  | Region2D _ _ _ | Region3D _ => (1, 0, 0, 0, 0)
  | SegFrame _ _ _ _ => (0, 0, 0, 1, 0)
  | Regions rs => (Z.of_nat (length rs), 0, 0, 0, 0)
  | Segment _ _ _ => (0, 0, 1, 0, 0)
  | Surface _ n _ => (0, Z.of_nat n, 0, 0, 0)
  | RegionInSpace _ _ => (0, 0, 0, 0, 1)
  | SourceImgs _ => (0, 0, 0, 0, 0)
  end.

Lemma count_roi_build g : count_roi_items (build g) = Ok (counts_of (g_ref g)).
Proof.
  unfold count_roi_items, build. cbn [vt nm kids]. cbn [vt_eqb vt_tag negb Z.eqb].
  change (cMeasurementGroup =? cMeasurementGroup) with true. cbn [negb].
  rewrite !count_app.
  rewrite !count_common_0 by (intros i Hi; now apply low_not_roi in Hi).
  destruct (g_ref g) as [gt c i|gt|c i sc si|rs|c i so|gt n so|c i|l]; cbn [ref_items counts_of].
  - reflexivity.
  - reflexivity.
  - reflexivity.
  - rewrite count_map_all by reflexivity. rewrite !count_map_none by reflexivity. reflexivity.
  - change (leaf cRefSegment IMAGE CONTAINS c i :: source_items so) with ([leaf cRefSegment IMAGE CONTAINS c i] ++ source_items so).
    rewrite !count_app. rewrite !count_sources_0 by reflexivity. reflexivity.
  - rewrite !count_app. rewrite !count_sources_0 by reflexivity.
    rewrite (count_repeat_all is_vs) by reflexivity. rewrite !count_repeat_none by reflexivity. repeat f_equal; lia.
  - reflexivity.
  - rewrite !count_map_none by reflexivity. reflexivity.
Qed.

(* ---------------------------------------------------------------------------------- *)
(* classification                                                                       *)
(* ---------------------------------------------------------------------------------- *)
Ltac zb :=
  repeat match goal with
         | |- context[?a =? ?b] => destruct (Z.eqb_spec a b)
         | |- context[?a <? ?b] => destruct (Z.ltb_spec a b)
         | |- context[?a <=? ?b] => destruct (Z.leb_spec a b)
         end; try lia; try reflexivity; try discriminate.

Lemma wf_ref_ok g : wf g = true -> ref_ok (g_kind g) (g_ref g) = true.
Proof. unfold wf. intros H. repeat (apply andb_true_iff in H as [H _]). exact H. Qed.
Lemma wf_evals g e : wf g = true -> In e (g_evals g) -> 100 <= fst e.
Proof.
  unfold wf. intros H. apply andb_true_iff in H as [H _]. apply andb_true_iff in H as [H _].
  apply andb_true_iff in H as [_ H]. rewrite forallb_forall in H. intros Hi. apply H in Hi. lia.
Qed.
Lemma wf_meas g m : wf g = true -> In m (g_meas g) -> 100 <= fst m.
Proof.
  unfold wf. intros H. apply andb_true_iff in H as [H _]. apply andb_true_iff in H as [_ H].
  rewrite forallb_forall in H. intros Hi. apply H in Hi. lia.
Qed.
Lemma wf_no_geom g : wf g = true -> no_geom_for_image g = true.
Proof. unfold wf. intros H. now apply andb_true_iff in H as [_ H]. Qed.

Lemma tmpl_build g : tmpl (build g) = if g_has_tid g then Some (kind_tid (g_kind g)) else None.
Proof. reflexivity. Qed.

Lemma contains_planar_build g : ref_ok (g_kind g) (g_ref g) = true -> unambiguous g = true ->
  contains_planar (build g) = Ok (kind_eqb (g_kind g) Planar).
Proof.
  intros Hr Hu. unfold contains_planar. rewrite count_roi_build. cbn [bind].
  unfold unambiguous in Hu.
  destruct (g_kind g), (g_ref g) as [gt c i|gt|c i sc si|rs|c i so|gt n so|c i|l];
    cbn [ref_ok] in Hr; try discriminate; cbn [counts_of kind_eqb]; try reflexivity.
  all: f_equal; zb.
Qed.

Lemma contains_volumetric_build g : ref_ok (g_kind g) (g_ref g) = true -> unambiguous g = true ->
  contains_volumetric (build g) = Ok (kind_eqb (g_kind g) Volumetric).
Proof.
  intros Hr Hu. unfold contains_volumetric. rewrite count_roi_build. cbn [bind].
  unfold unambiguous in Hu.
  destruct (g_kind g), (g_ref g) as [gt c i|gt|c i sc si|rs|c i so|gt n so|c i|l];
    cbn [ref_ok] in Hr; try discriminate; cbn [counts_of kind_eqb]; try reflexivity.
  all: try (apply andb_true_iff in Hr as [Hn _]; destruct n; [discriminate|]).
  all: f_equal; zb.
Qed.

Lemma kind_test g (k : kind) (byc : item -> res bool) :
  wf g = true -> classifiable g = true ->
  (unambiguous g = true -> byc (build g) = Ok (kind_eqb (g_kind g) k)) ->
  match tmpl (build g) with Some t => Ok (t =? kind_tid k) | None => byc (build g) end
  = Ok (kind_eqb (g_kind g) k).
Proof.
  intros Hw Hc Hb. rewrite tmpl_build. unfold classifiable in Hc.
  destruct (g_has_tid g); cbn [orb] in Hc.
  - now destruct (g_kind g), k.
  - now apply Hb.
Qed.

(* ---------------------------------------------------------------------------------- *)
(* evaluation helpers                                                                   *)
(* ---------------------------------------------------------------------------------- *)
Ltac ceqb :=
  repeat match goal with
         | |- context[Z.eqb ?a ?b] =>
             let r := eval vm_compute in (Z.eqb a b) in
             match r with
             | true => change (Z.eqb a b) with true
             | false => change (Z.eqb a b) with false
             end
         end.
Ltac ev :=
  cbn [has_name has_vt has_rl nm vt rl v1 v2 kids tmpl leaf vt_eqb rt_eqb vt_tag rt_tag opt_ok mem existsb
       is_rel_item region_item fst snd];
  unfold cMeasurementGroup, cImagingMeasurements, cTrackingIdentifier, cTrackingUID, cFinding, cFindingSite,
    cFindingCategory, cMethod, cImageRegion, cVolumeSurface, cRefSegment, cRefSegFrame, cRegionInSpace,
    cSrcImgSeg, cSrcSeriesSeg, cSource, cGeomPurpose, cTimePoint, cTimePointType, cSession;
  ceqb; cbn [andb orb negb].

Lemma existsb_opt_item p o (f : Z -> item) :
  existsb p (opt_item o f) = match o with Some x => p (f x) | None => false end.
Proof. destruct o; cbn; now rewrite ?orb_false_r. Qed.
Lemma filter_opt_item p o (f : Z -> item) :
  filter p (opt_item o f) = match o with Some x => if p (f x) then [f x] else [] | None => [] end.
Proof. destruct o; reflexivity. Qed.

(* names of the reference items are reserved names 9..16 *)
Lemma ref_items_names r i : In i (ref_items r) -> 9 <= nm i <= 16.
Proof.
  assert (Hs : forall so, In i (source_items so) -> 9 <= nm i <= 16).
  { intros [l|u]; cbn [source_items].
    - intros H. apply in_map_iff in H as [x [<- _]]. cbn. unfold cSrcImgSeg. lia.
    - intros [<-|[]]. cbn. unfold cSrcSeriesSeg. lia. }
  destruct r as [gt c j|gt|c j sc sj|rs|c j so|gt n so|c j|l]; cbn [ref_items].
  - intros [<-|[]]. cbn. unfold cImageRegion. lia.
  - intros [<-|[]]. cbn. unfold cImageRegion. lia.
  - intros [<-|[<-|[]]]; cbn; unfold cRefSegFrame, cSrcImgSeg; lia.
  - intros H. apply in_map_iff in H as [x [<- _]]. cbn. unfold cImageRegion. lia.
  - intros [<-|H]; [cbn; unfold cRefSegment; lia|exact (Hs _ H)].
  - intros H. apply in_app_or in H as [H|H]; [|exact (Hs _ H)]. apply repeat_spec in H. subst. cbn. unfold cVolumeSurface. lia.
  - intros [<-|[]]. cbn. unfold cRegionInSpace. lia.
  - intros H. apply in_map_iff in H as [x [<- _]]. cbn. unfold cSource. lia.
Qed.

Lemma kids_build g : kids (build g) = common_items g ++ ref_items (g_ref g).
Proof. reflexivity. Qed.

(* ---------------------------------------------------------------------------------- *)
(* the three common filters                                                             *)
(* ---------------------------------------------------------------------------------- *)
Lemma finding_filter g c : wf g = true ->
  contains_code_items (kids (build g)) cFinding (Some c) CONTAINS
  = match g_finding g with Some c' => c' =? c | None => false end.
Proof.
  intros Hw. unfold contains_code_items, find_items. rewrite existsb_filter, kids_build, existsb_app.
  rewrite (existsb_none _ (ref_items _)).
  2:{ intros x Hx. apply ref_items_names in Hx. cbn [has_name]. unfold cFinding.
      destruct (Z.eqb_spec (nm x) 5); [lia|reflexivity]. }
  rewrite orb_false_r. unfold common_items. rewrite !existsb_app, !existsb_opt_item, !existsb_map.
  rewrite (existsb_none _ (g_sites g)) by (intros; ev; reflexivity).
  rewrite (existsb_none _ (g_meas g)) by (intros; ev; now rewrite andb_false_r).
  rewrite (existsb_none _ (g_evals g)).
  2:{ intros e He. apply (wf_evals _ _ Hw) in He. ev. destruct (Z.eqb_spec (fst e) 5); [lia|reflexivity]. }
  destruct (g_session g), (g_category g), (g_finding g), (g_method g), (g_tptype g), (g_geom g); ev;
    rewrite ?orb_false_r; reflexivity.
Qed.

Lemma site_filter g c : wf g = true ->
  contains_code_items (kids (build g)) cFindingSite (Some c) HAS_CONCEPT_MOD
  = existsb (fun s => s =? c) (g_sites g).
Proof.
  intros Hw. unfold contains_code_items, find_items. rewrite existsb_filter, kids_build, existsb_app.
  rewrite (existsb_none _ (ref_items _)).
  2:{ intros x Hx. apply ref_items_names in Hx. cbn [has_name]. unfold cFindingSite.
      destruct (Z.eqb_spec (nm x) 6); [lia|reflexivity]. }
  rewrite orb_false_r. unfold common_items. rewrite !existsb_app, !existsb_opt_item, !existsb_map.
  rewrite (existsb_none _ (g_meas g)) by (intros; ev; now rewrite andb_false_r).
  rewrite (existsb_none _ (g_evals g)).
  2:{ intros e He. apply (wf_evals _ _ Hw) in He. ev. destruct (Z.eqb_spec (fst e) 6); [lia|reflexivity]. }
  rewrite (existsb_ext_in _ (fun s => s =? c) (g_sites g)) by (intros; ev; reflexivity).
  destruct (g_session g), (g_category g), (g_finding g), (g_method g), (g_tptype g), (g_geom g); ev;
    rewrite ?orb_false_r; reflexivity.
Qed.

Lemma tuid_filter g u : wf g = true ->
  contains_uidref_items (kids (build g)) cTrackingUID (Some u) HAS_OBS_CONTEXT = (g_tuid g =? u).
Proof.
  intros Hw. unfold contains_uidref_items, find_items. rewrite existsb_filter, kids_build, existsb_app.
  rewrite (existsb_none _ (ref_items _)).
  2:{ intros x Hx. apply ref_items_names in Hx. cbn [has_name]. unfold cTrackingUID.
      destruct (Z.eqb_spec (nm x) 4); [lia|reflexivity]. }
  rewrite orb_false_r. unfold common_items. rewrite !existsb_app, !existsb_opt_item, !existsb_map.
  rewrite (existsb_none _ (g_sites g)) by (intros; ev; reflexivity).
  rewrite (existsb_none _ (g_meas g)) by (intros; ev; now rewrite andb_false_r).
  rewrite (existsb_none _ (g_evals g)) by (intros; ev; now rewrite andb_false_r).
  destruct (g_session g), (g_category g), (g_finding g), (g_method g), (g_tptype g), (g_geom g); ev;
    rewrite ?orb_false_r; reflexivity.
Qed.

Lemma common_matches_build f g : wf g = true -> common_matches f (build g) = sat_common f g.
Proof.
  intros Hw. unfold common_matches, sat_common.
  destruct (f_finding f); [rewrite finding_filter by assumption|];
  (destruct (f_site f); [rewrite site_filter by assumption|]);
  (destruct (f_tuid f); [rewrite tuid_filter by assumption|]); reflexivity.
Qed.

(* ---------------------------------------------------------------------------------- *)
(* the ROI reference loop                                                               *)
(* ---------------------------------------------------------------------------------- *)
Lemma low_not_candidate allowed i : low_vt (vt i) = true -> is_candidate allowed i = false.
Proof.
  intros H. unfold is_candidate, expected_vt.
  destruct (vt i); try discriminate; cbn [vt_eqb vt_tag Z.eqb orb];
    repeat match goal with |- context[if ?b then _ else _] => destruct b end; now rewrite andb_false_r.
Qed.

Lemma ref_loop_noncand allowed l rt acc :
  (forall i, In i l -> is_candidate allowed i = false) -> ref_loop allowed l rt acc = Ok (rt, rev acc).
Proof.
  induction l as [|x l IH]; intros H; cbn [ref_loop]; [reflexivity|].
  rewrite (H x (or_introl eq_refl)). apply IH. intros i Hi. apply H. now right.
Qed.

Lemma ref_loop_skip allowed l1 l2 rt acc :
  (forall i, In i l1 -> is_candidate allowed i = false) ->
  ref_loop allowed (l1 ++ l2) rt acc = ref_loop allowed l2 rt acc.
Proof.
  induction l1 as [|x l IH]; intros H; cbn [app ref_loop]; [reflexivity|].
  rewrite (H x (or_introl eq_refl)). apply IH. intros i Hi. apply H. now right.
Qed.

Lemma ref_loop_tail allowed l1 l2 : (forall i, In i l2 -> is_candidate allowed i = false) ->
  forall rt acc out, ref_loop allowed l1 rt acc = Ok out -> ref_loop allowed (l1 ++ l2) rt acc = Ok out.
Proof.
  intros H2. induction l1 as [|x l IH]; intros rt acc out; cbn [app ref_loop].
  - intros E. rewrite ref_loop_noncand by assumption. exact E.
  - destruct (is_candidate allowed x); [|apply IH].
    destruct rt as [r|]; [|apply IH].
    destruct (negb (nm x =? r)); [discriminate|].
    destruct (negb (mem r [cImageRegion; cVolumeSurface])); [discriminate|]. apply IH.
Qed.

(* a run of candidates that all carry the name r, r being Image Region or Volume Surface *)
Lemma ref_loop_run allowed r l : mem r [cImageRegion; cVolumeSurface] = true ->
  (forall i, In i l -> is_candidate allowed i = true /\ nm i = r) ->
  forall acc, ref_loop allowed l (Some r) acc = Ok (Some r, rev acc ++ l).
Proof.
  intros Hr. induction l as [|x l IH]; intros H acc; cbn [ref_loop].
  - now rewrite app_nil_r.
  - destruct (H x (or_introl eq_refl)) as [Hc Hn]. rewrite Hc, Hn, Z.eqb_refl, Hr. cbn [negb].
    rewrite IH by (intros i Hi; apply H; now right). cbn [rev]. now rewrite <- app_assoc.
Qed.

Definition main_refs (r : gref) : list item :=
  match r with
  | Region2D gt c i => [region_item (gt, (c, i))]
  | Region3D gt => [leaf cImageRegion SCOORD3D CONTAINS gt 0]
  | SegFrame c i _ _ => [leaf cRefSegFrame IMAGE CONTAINS c i]
  | Regions rs => map region_item rs
  | Segment c i _ => [leaf cRefSegment IMAGE CONTAINS c i]
  | Surface gt n _ => repeat (leaf cVolumeSurface SCOORD3D CONTAINS gt 0) n
  | RegionInSpace c i => [leaf cRegionInSpace COMPOSITE CONTAINS c i]
  | SourceImgs _ => []
  end.

Lemma sources_noncand allowed so : mem cSrcImgSeg allowed = false -> mem cSrcSeriesSeg allowed = false ->
  forall i, In i (source_items so) -> is_candidate allowed i = false.
Proof.
  intros H1 H2 i. destruct so as [l|u]; cbn [source_items].
  - intros H. apply in_map_iff in H as [x [<- _]]. unfold is_candidate. cbn [nm leaf]. now rewrite H1, andb_false_r.
  - intros [<-|[]]. unfold is_candidate. cbn [nm leaf]. now rewrite H2, andb_false_r.
Qed.

Lemma roi_refs_planar g : g_kind g = Planar -> ref_ok (g_kind g) (g_ref g) = true ->
  get_roi_reference_items (build g) allowed_planar = Ok (ref_code (g_ref g), main_refs (g_ref g)).
Proof.
  intros Hk Hr. rewrite Hk in Hr. unfold get_roi_reference_items. rewrite kids_build.
  rewrite ref_loop_skip by (intros i Hi; apply low_not_candidate; now apply common_low in Hi).
  destruct (g_ref g) as [gt c i|gt|c i sc si|rs|c i so|gt n so|c i|l]; cbn [ref_ok] in Hr; try discriminate;
    reflexivity.
Qed.

Lemma roi_refs_volumetric g : g_kind g = Volumetric -> ref_ok (g_kind g) (g_ref g) = true ->
  get_roi_reference_items (build g) allowed_volumetric = Ok (ref_code (g_ref g), main_refs (g_ref g)).
Proof.
  intros Hk Hr. rewrite Hk in Hr. unfold get_roi_reference_items. rewrite kids_build.
  rewrite ref_loop_skip by (intros i Hi; apply low_not_candidate; now apply common_low in Hi).
  destruct (g_ref g) as [gt c i|gt|c i sc si|rs|c i so|gt n so|c i|l]; cbn [ref_ok] in Hr; try discriminate;
    cbn [ref_items ref_code main_refs].
  - (* Regions *)
    destruct rs as [|x rs]; [discriminate|]. cbn [map ref_loop].
    change (is_candidate allowed_volumetric (region_item x)) with true. cbv iota.
    rewrite ref_loop_run; [reflexivity|reflexivity|].
    intros i Hi. apply in_map_iff in Hi as [y [<- _]]. split; reflexivity.
  - (* Segment *)
    change (leaf cRefSegment IMAGE CONTAINS c i :: source_items so)
      with ([leaf cRefSegment IMAGE CONTAINS c i] ++ source_items so).
    rewrite (ref_loop_tail allowed_volumetric _ _ (sources_noncand allowed_volumetric so eq_refl eq_refl) _ _
               (Some cRefSegment, [leaf cRefSegment IMAGE CONTAINS c i])) by reflexivity.
    reflexivity.
  - (* Surface *)
    apply andb_true_iff in Hr as [Hn _]. destruct n as [|n]; [discriminate|].
    rewrite (ref_loop_tail allowed_volumetric _ _ (sources_noncand allowed_volumetric so eq_refl eq_refl) _ _
               (Some cVolumeSurface, repeat (leaf cVolumeSurface SCOORD3D CONTAINS gt 0) (S n))).
    + reflexivity.
    + cbn [repeat ref_loop]. change (is_candidate allowed_volumetric (leaf cVolumeSurface SCOORD3D CONTAINS gt 0)) with true.
      cbv iota. apply ref_loop_run; [reflexivity|].
      intros i Hi. apply repeat_spec in Hi. subst. split; reflexivity.
  - reflexivity.
Qed.

(* ---------------------------------------------------------------------------------- *)
(* reference filters                                                                    *)
(* ---------------------------------------------------------------------------------- *)
From Coq Require Import Btauto.

Lemma image_items_build g n cls inst r :
  contains_image_items (kids (build g)) n cls inst r = contains_image_items (ref_items (g_ref g)) n cls inst r.
Proof.
  unfold contains_image_items, find_items. rewrite kids_build, filter_app.
  rewrite (filter_none _ (common_items g)); [reflexivity|].
  intros x Hx. apply common_low in Hx. cbn [has_vt]. unfold vt_eqb.
  destruct (vt x); try discriminate; cbn; now rewrite ?andb_false_r.
Qed.

Ltac evr1 :=
  unfold vt_eqb, rt_eqb, uid_ok, is_rel_item;
  cbn [ref_items main_refs ref_code source_items bind contains_image_items find_items filter map
       has_name has_vt has_rl nm vt rl v1 v2 kids tmpl leaf vt_tag rt_tag opt_ok mem existsb
       region_item fst snd isSome gt_matches f_reftype f_gt f_inst f_cls f_tuid f_finding f_site];
  unfold cMeasurementGroup, cImagingMeasurements, cTrackingIdentifier, cTrackingUID, cFinding, cFindingSite,
    cFindingCategory, cMethod, cImageRegion, cVolumeSurface, cRefSegment, cRefSegFrame, cRegionInSpace,
    cSrcImgSeg, cSrcSeriesSeg, cSource, cGeomPurpose, cTimePoint, cTimePointType, cSession;
  ceqb; cbn [andb orb negb]; cbv beta iota.
Ltac evr := repeat (progress evr1).

Lemma ref_matches_planar_build f g : g_kind g = Planar -> ref_ok (g_kind g) (g_ref g) = true ->
  ref_matches_planar f (build g) = Ok (sat_reftype f g && sat_gt f g && sat_uid f g).
Proof.
  intros Hk Hr. unfold ref_matches_planar, get_planar_ref_item.
  rewrite roi_refs_planar by assumption. rewrite image_items_build.
  unfold sat_reftype, sat_gt, sat_uid, gt_given, uid_given. rewrite Hk in Hr.
  destruct f as [ftu ffi fsi frt fgt fin fcl]. cbn [f_reftype f_gt f_inst f_cls].
  destruct (g_ref g) as [gt c i|gt|c i sc si|rs|c i so|gt n so|c i|l]; cbn [ref_ok] in Hr; try discriminate;
    destruct frt as [rt|], fgt as [| |t|t], fin as [fi|], fcl as [fc|]; evr; try reflexivity;
    f_equal; try btauto.
Qed.

Lemma image_items_sources cls inst so :
  contains_image_items (source_items so) (Some cSrcImgSeg) cls inst CONTAINS
  = match so with SrcImages l => existsb (fun s => opt_ok cls (fst s) && opt_ok inst (snd s)) l | SrcSeries _ => false end.
Proof.
  unfold contains_image_items, find_items. destruct so as [l|u]; cbn [source_items].
  - rewrite filter_map_all by reflexivity. now rewrite existsb_map.
  - reflexivity.
Qed.

Lemma regions_uid cls inst rs :
  existsb (fun r => vt_eqb (vt r) SCOORD && contains_image_items (kids r) None cls inst SELECTED_FROM)
          (map region_item rs)
  = existsb (fun r => opt_ok cls (fst (snd r)) && opt_ok inst (snd (snd r))) rs.
Proof.
  rewrite existsb_map. apply existsb_ext_in. intros [gt [c i]] _.
  unfold contains_image_items, find_items. cbn. now rewrite orb_false_r.
Qed.

Lemma ref_matches_volumetric_build f g : g_kind g = Volumetric -> ref_ok (g_kind g) (g_ref g) = true ->
  ref_matches_volumetric f (build g) = Ok (sat_reftype f g && sat_gt f g && sat_uid f g).
Proof.
  intros Hk Hr. unfold ref_matches_volumetric.
  rewrite roi_refs_volumetric by assumption. rewrite image_items_build.
  unfold sat_reftype, sat_gt, sat_uid, gt_given, uid_given. rewrite Hk in Hr.
  destruct f as [ftu ffi fsi frt fgt fin fcl]. cbn [f_reftype f_gt f_inst f_cls].
  destruct (g_ref g) as [gt c i|gt|c i sc si|rs|c i so|gt n so|c i|l]; cbn [ref_ok] in Hr; try discriminate.
  - (* Regions *)
    destruct rs as [|[gt0 [c0 i0]] rs]; [discriminate|].
    cbn [main_refs bind ref_code]. rewrite regions_uid. cbn [map].
    destruct frt as [rt|], fgt as [| |t|t], fin as [fi|], fcl as [fc|]; evr; try reflexivity;
      f_equal; try btauto.
  - (* Segment *)
    cbn [main_refs bind ref_code ref_items].
    change (contains_image_items (leaf cRefSegment IMAGE CONTAINS c i :: source_items so) (Some cSrcImgSeg) fcl fin CONTAINS)
      with (contains_image_items (source_items so) (Some cSrcImgSeg) fcl fin CONTAINS).
    rewrite image_items_sources.
    destruct frt as [rt|], fgt as [| |t|t], fin as [fi|], fcl as [fc|], so as [l|u]; evr; try reflexivity;
      f_equal; try btauto.
  - (* Surface *)
    apply andb_true_iff in Hr as [Hn _]. destruct n as [|n]; [discriminate|].
    cbn [main_refs bind ref_code repeat].
    destruct frt as [rt|], fgt as [| |t|t], fin as [fi|], fcl as [fc|]; evr; try reflexivity;
      f_equal; try btauto.
  - (* Region in space *)
    destruct frt as [rt|], fgt as [| |t|t], fin as [fi|], fcl as [fc|]; evr; try reflexivity;
      f_equal; try btauto.
Qed.

(* ---------------------------------------------------------------------------------- *)
(* per-group tests and the exactness theorems                                           *)
(* ---------------------------------------------------------------------------------- *)
Definition good (g : group) : Prop := wf g = true /\ classifiable g = true.

Lemma planar_group_test_build f g : good g ->
  planar_group_test f (build g) = Ok (kind_eqb (g_kind g) Planar && sat f g).
Proof.
  intros [Hw Hc]. unfold planar_group_test.
  assert (E := kind_test g Planar contains_planar Hw Hc). cbn [kind_tid] in E. rewrite E
    by (intros Hu; apply contains_planar_build; [now apply wf_ref_ok|assumption]). clear E.
  cbn [bind]. destruct (g_kind g) eqn:Hk; cbn [kind_eqb andb]; try reflexivity.
  rewrite ref_matches_planar_build by (assumption || now apply wf_ref_ok).
  cbn [bind]. rewrite common_matches_build by assumption. unfold sat. f_equal. btauto.
Qed.

Lemma volumetric_group_test_build f g : good g ->
  volumetric_group_test f (build g) = Ok (kind_eqb (g_kind g) Volumetric && sat f g).
Proof.
  intros [Hw Hc]. unfold volumetric_group_test.
  assert (E := kind_test g Volumetric contains_volumetric Hw Hc). cbn [kind_tid] in E. rewrite E
    by (intros Hu; apply contains_volumetric_build; [now apply wf_ref_ok|assumption]). clear E.
  cbn [bind]. destruct (g_kind g) eqn:Hk; cbn [kind_eqb andb]; try reflexivity.
  rewrite ref_matches_volumetric_build by (assumption || now apply wf_ref_ok).
  cbn [bind]. rewrite common_matches_build by assumption. unfold sat. f_equal. btauto.
Qed.

Lemma image_group_test_build f g : good g ->
  image_group_test f (build g) = Ok (kind_eqb (g_kind g) ImageK && sat_image f g).
Proof.
  intros [Hw Hc]. unfold image_group_test.
  assert (E := kind_test g ImageK
             (fun it => bind (contains_planar it) (fun a => bind (contains_volumetric it) (fun b => Ok (negb (a || b)))))
             Hw Hc). cbn [kind_tid] in E. cbv beta in E. rewrite E; clear E.
  2:{ intros Hu. rewrite contains_planar_build, contains_volumetric_build by (try apply wf_ref_ok; assumption).
      cbn [bind]. now destruct (g_kind g). }
  cbn [bind]. pose proof (wf_ref_ok g Hw) as Hr.
  destruct (g_kind g) eqn:Hk; cbn [kind_eqb andb]; try reflexivity.
  rewrite common_matches_build by assumption. rewrite image_items_build.
  unfold sat_image, sat_uid. destruct (g_ref g) as [gt c i|gt|c i sc si|rs|c i so|gt n so|c i|l]; cbn [ref_ok] in Hr; try discriminate.
  destruct (uid_given f); [|reflexivity]. cbn [ref_items]. unfold contains_image_items, find_items.
  rewrite filter_map_all by reflexivity. rewrite existsb_map. reflexivity.
Qed.

Theorem query_exact_planar pre gs f : no_im pre = true -> Forall good gs -> check_planar f = Ok tt ->
  get_planar (report pre gs) f = Ok (map build (filter (fun g => kind_eqb (g_kind g) Planar && sat f g) gs)).
Proof.
  intros Hp Hg Hc. unfold get_planar. rewrite Hc. cbn [bind]. rewrite find_groups_report by assumption.
  apply (collect_map_build _ _ good); [|assumption]. intros g Hgood. now apply planar_group_test_build.
Qed.

Theorem query_exact_volumetric pre gs f : no_im pre = true -> Forall good gs -> check_volumetric f = Ok tt ->
  get_volumetric (report pre gs) f
  = Ok (map build (filter (fun g => kind_eqb (g_kind g) Volumetric && sat f g) gs)).
Proof.
  intros Hp Hg Hc. unfold get_volumetric. rewrite Hc. cbn [bind]. rewrite find_groups_report by assumption.
  apply (collect_map_build _ _ good); [|assumption]. intros g Hgood. now apply volumetric_group_test_build.
Qed.

Theorem query_exact_image pre gs f : no_im pre = true -> Forall good gs ->
  get_image (report pre gs) f = Ok (map build (filter (fun g => kind_eqb (g_kind g) ImageK && sat_image f g) gs)).
Proof.
  intros Hp Hg. unfold get_image. rewrite find_groups_report by assumption.
  apply (collect_map_build _ _ good); [|assumption]. intros g Hgood. now apply image_group_test_build.
Qed.

(* ---------------------------------------------------------------------------------- *)
(* refusals                                                                             *)
(* ---------------------------------------------------------------------------------- *)
Ltac split_eqb :=
  repeat match goal with
         | H : context[Z.eqb ?a ?b] |- _ => destruct (Z.eqb_spec a b); subst
         | |- context[Z.eqb ?a ?b] => destruct (Z.eqb_spec a b); subst
         end.

Lemma cannot_apply_refused_planar f : gfilter_in_enum (f_gt f) = true ->
  can_apply Planar f = false -> exists e, check_planar f = Err e.
Proof.
  destruct f as [ftu ffi fsi frt fgt fin fcl]. unfold can_apply, check_planar, uid_given, gt_given.
  intros He. revert He.
  cbn [refkinds existsb f_reftype f_gt f_inst f_cls rk_code rk_gt_ok rk_has_uids opt_ok mem].
  unfold allowed_planar, cImageRegion, cRefSegFrame, cRegionInSpace, cVolumeSurface, cRefSegment.
  cbn [existsb mem].
  intros He H. cbn [f_gt gfilter_in_enum] in He.
  destruct frt as [rt|], fgt as [| |t|t], fin as [fi|], fcl as [fc|]; cbn [isSome orb negb andb bind] in H |- *;
    try (apply andb_true_iff in He as [He1 He2]; apply Z.leb_le in He1, He2);
    split_eqb; cbn in H |- *; try discriminate; eauto; try lia.
Qed.

Lemma cannot_apply_refused_volumetric f : gfilter_in_enum (f_gt f) = true ->
  can_apply Volumetric f = false -> exists e, check_volumetric f = Err e.
Proof.
  destruct f as [ftu ffi fsi frt fgt fin fcl]. unfold can_apply, check_volumetric, uid_given, gt_given.
  intros He. revert He.
  cbn [refkinds existsb f_reftype f_gt f_inst f_cls rk_code rk_gt_ok rk_has_uids opt_ok mem].
  unfold allowed_volumetric, cImageRegion, cRefSegFrame, cRegionInSpace, cVolumeSurface, cRefSegment.
  cbn [existsb mem].
  intros He H. cbn [f_gt gfilter_in_enum] in He.
  destruct frt as [rt|], fgt as [| |t|t], fin as [fi|], fcl as [fc|]; cbn [isSome orb negb andb bind] in H |- *;
    try (apply andb_true_iff in He as [He1 He2]; apply Z.leb_le in He1, He2);
    split_eqb; cbn in H |- *; try discriminate; eauto; try lia.
Qed.

Theorem planar_refusal_iff pre gs f e : no_im pre = true -> Forall good gs ->
  get_planar (report pre gs) f = Err e <-> check_planar f = Err e.
Proof.
  intros Hp Hg. split; [|apply planar_refusal].
  destruct (check_planar f) as [[]|e'] eqn:E.
  - rewrite (query_exact_planar pre gs f Hp Hg E). discriminate.
  - rewrite (planar_refusal _ f e' E). congruence.
Qed.
Theorem volumetric_refusal_iff pre gs f e : no_im pre = true -> Forall good gs ->
  get_volumetric (report pre gs) f = Err e <-> check_volumetric f = Err e.
Proof.
  intros Hp Hg. split; [|apply volumetric_refusal].
  destruct (check_volumetric f) as [[]|e'] eqn:E.
  - rewrite (query_exact_volumetric pre gs f Hp Hg E). discriminate.
  - rewrite (volumetric_refusal _ f e' E). congruence.
Qed.

(* without the classifiability guard the statement is false: TID 1410 and TID 1411 overlap *)
Definition amb_single_region : group :=
  Group Volumetric 1 1000 None None None [] (Regions [(4, (0, 1))]) [] [] None None None false.
Definition amb_region_in_space : group :=
  Group Planar 1 1000 None None None [] (RegionInSpace 4 21) [] [] None None None false.
Lemma unclassifiable_refuted :
  wf amb_single_region = true /\
  get_volumetric (report [] [amb_single_region]) nofilt = Ok [] /\
  get_planar (report [] [amb_single_region]) nofilt = Ok [build amb_single_region] /\
  wf amb_region_in_space = true /\
  get_volumetric (report [] [amb_region_in_space]) nofilt = Ok [build amb_region_in_space] /\
  get_planar (report [] [amb_region_in_space]) nofilt = Ok [build amb_region_in_space].
Proof. repeat split; vm_compute; reflexivity. Qed.

(* ---------------------------------------------------------------------------------- *)
(* accessors                                                                            *)
(* ---------------------------------------------------------------------------------- *)
Lemma ref_items_vt r i : In i (ref_items r) ->
  vt_eqb (vt i) CODE = false /\ vt_eqb (vt i) NUM = false /\ vt_eqb (vt i) TEXT = false.
Proof.
  assert (Hs : forall so, In i (source_items so) ->
            vt_eqb (vt i) CODE = false /\ vt_eqb (vt i) NUM = false /\ vt_eqb (vt i) TEXT = false).
  { intros [l|u]; cbn [source_items].
    - intros H. apply in_map_iff in H as [x [<- _]]. now cbn.
    - intros [<-|[]]. now cbn. }
  destruct r as [gt c j|gt|c j sc sj|rs|c j so|gt n so|c j|l]; cbn [ref_items].
  - intros [<-|[]]. now cbn.
  - intros [<-|[]]. now cbn.
  - intros [<-|[<-|[]]]; now cbn.
  - intros H. apply in_map_iff in H as [x [<- _]]. now cbn.
  - intros [<-|H]; [now cbn|exact (Hs _ H)].
  - intros H. apply in_app_or in H as [H|H]; [|exact (Hs _ H)]. apply repeat_spec in H. subst. now cbn.
  - intros [<-|[]]. now cbn.
  - intros H. apply in_map_iff in H as [x [<- _]]. now cbn.
Qed.

Lemma filter_ref_low_name p r : (forall i, 9 <= nm i <= 16 -> p i = false) -> filter p (ref_items r) = [].
Proof. intros H. apply filter_none. intros x Hx. apply H. now apply ref_items_names in Hx. Qed.

Ltac side Hw :=
  let e := fresh "e" in let He := fresh "He" in
  intros e He; try apply (wf_evals _ _ Hw) in He; try apply (wf_meas _ _ Hw) in He; ev; zb.
Ltac map_piece Hw l :=
  first [ rewrite (filter_map_none _ _ l) by (side Hw)
        | rewrite (filter_map_all _ _ l) by (side Hw) ].
Ltac pieces Hw g :=
  rewrite kids_build, filter_app; unfold common_items; rewrite !filter_app, !filter_opt_item;
  map_piece Hw (g_sites g); map_piece Hw (g_meas g); map_piece Hw (g_evals g).

Lemma acc_tracking_identifier_build g : acc_tracking_identifier (build g) = Some (g_tid g).
Proof. reflexivity. Qed.
Lemma acc_tracking_uid_build g : acc_tracking_uid (build g) = Some (g_tuid g).
Proof. reflexivity. Qed.

Lemma acc_finding_type_build g : wf g = true -> acc_finding_type (build g) = g_finding g.
Proof.
  intros Hw. unfold acc_finding_type, find_items. pieces Hw g.
  rewrite (filter_ref_low_name _ (g_ref g)) by (intros i Hi; ev; zb).
  destruct (g_session g), (g_category g), (g_finding g), (g_method g), (g_tptype g), (g_geom g); reflexivity.
Qed.
Lemma acc_finding_category_build g : wf g = true -> acc_finding_category (build g) = g_category g.
Proof.
  intros Hw. unfold acc_finding_category, find_items. pieces Hw g.
  rewrite (filter_ref_low_name _ (g_ref g)) by (intros i Hi; ev; zb).
  destruct (g_session g), (g_category g), (g_finding g), (g_method g), (g_tptype g), (g_geom g); reflexivity.
Qed.
Lemma acc_method_build g : wf g = true -> acc_method (build g) = g_method g.
Proof.
  intros Hw. unfold acc_method, find_items. pieces Hw g.
  rewrite (filter_ref_low_name _ (g_ref g)) by (intros i Hi; ev; zb).
  destruct (g_session g), (g_category g), (g_finding g), (g_method g), (g_tptype g), (g_geom g); reflexivity.
Qed.
Lemma acc_finding_sites_build g : wf g = true -> acc_finding_sites (build g) = g_sites g.
Proof.
  intros Hw. unfold acc_finding_sites, find_items. pieces Hw g.
  rewrite (filter_ref_low_name _ (g_ref g)) by (intros i Hi; ev; zb).
  rewrite !map_app, map_map. cbn [v1 leaf]. rewrite map_id.
  destruct (g_session g), (g_category g), (g_finding g), (g_method g), (g_tptype g), (g_geom g); cbn;
    now rewrite ?app_nil_r.
Qed.
