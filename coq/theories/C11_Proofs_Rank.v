(* C11 - sort = True on unique positions listed in ANY order: the index of a plane is the rank of its
   distance in the arithmetic progression (rank of a permuted arithmetic progression, cf. proto/Rank.v:
   a sorted rearrangement of a permutation of 0..m-1 is 0..m-1). *)
From Coq Require Import String ZArith List Bool QArith Lia Lqa Permutation Sorted.
From HD Require Import Base.Val C11_Model C11_Proofs C11_Proofs_Stack C11_Proofs_Sort.
Import ListNotations.
Open Scope Q_scope.

(* ---------- a sorted permutation of 0..m-1 is 0..m-1 -------------------------------------- *)
Lemma sorted_perm_unique : forall l1 l2 : list nat,
  StronglySorted le l1 -> StronglySorted le l2 -> Permutation l1 l2 -> l1 = l2.
Proof.
  induction l1 as [|a l1 IH]; intros l2 S1 S2 P.
  - apply Permutation_nil in P. now subst.
  - destruct l2 as [|b l2]; [apply Permutation_sym, Permutation_nil in P; discriminate|].
    inversion S1 as [|? ? S1' F1]; inversion S2 as [|? ? S2' F2]; subst.
    assert (a = b).
    { assert (Ia : In a (b :: l2)) by (eapply Permutation_in; [exact P|now left]).
      assert (Ib : In b (a :: l1)) by (eapply Permutation_in; [symmetry; exact P|now left]).
      rewrite Forall_forall in F1, F2.
      destruct Ia as [->|Ia]; [reflexivity|]. destruct Ib as [->|Ib]; [reflexivity|].
      specialize (F1 _ Ib). specialize (F2 _ Ia). lia. }
    subst b. f_equal. apply IH; try assumption. now apply Permutation_cons_inv in P.
Qed.
Lemma seq_strongly_sorted k m : StronglySorted le (seq k m).
Proof.
  revert k. induction m as [|m IH]; intro k; cbn [seq]; constructor; [apply IH|].
  apply Forall_forall. intros x Hx. apply in_seq in Hx. lia.
Qed.
Lemma sorted_perm_seq l m : Sorted le l -> Permutation l (seq 0 m) -> l = seq 0 m.
Proof.
  intros S P. apply sorted_perm_unique; [|apply seq_strongly_sorted|exact P].
  apply Sorted_StronglySorted; [|exact S]. intros x y z; lia.
Qed.

(* ---------- ranks ------------------------------------------------------------------------------ *)
Lemma inject_nat_le (x y : nat) a s : 0 < s ->
  a + inject_Z (Z.of_nat x) * s <= a + inject_Z (Z.of_nat y) * s -> (x <= y)%nat.
Proof.
  intros S H. destruct (le_lt_dec x y) as [L|L]; [exact L|]. exfalso.
  assert (Z : (Z.of_nat y + 1 <= Z.of_nat x)%Z) by lia.
  rewrite Zle_Qle, inject_Z_plus in Z. change (inject_Z 1) with 1 in Z. nra.
Qed.

Lemma prog_shift a a' s l : a == a' -> is_prog a s l -> is_prog a' s l.
Proof.
  revert a a'. induction l as [|x l IH]; intros a a' E H; [exact I|]. destruct H as [Hx H].
  split; [lra|]. apply (IH (a + s)); [lra|exact H].
Qed.

Section Ranks.
  Variables (a s : Q) (ranks : list nat) (ds : list Q).
  Hypothesis S : 0 < s.
  Hypothesis Len : length ranks = length ds.
  Hypothesis Hd : forall j, (j < length ds)%nat -> nthQ ds j == a + inject_Z (Z.of_nat (nth j ranks 0%nat)) * s.
  Hypothesis Hp : Permutation ranks (seq 0 (length ds)).

  Let kappa (p : Q * nat) : nat := nth (snd p) ranks 0%nat.
  Let Srt := isort key_leb (tag ds).

  Lemma srt_forall : Forall (fun p => fst p == a + inject_Z (Z.of_nat (kappa p)) * s) Srt.
  Proof.
    assert (F : Forall (fun p => nthQ ds (snd p) = fst p /\ (snd p < length ds)%nat) Srt).
    { eapply Permutation_Forall; [symmetry; apply isort_perm|apply tag_nth]. }
    eapply Forall_impl; [|exact F]. cbn. intros p [E L]. rewrite <- E. now apply Hd.
  Qed.

  Lemma sorted_kappa : forall l, Sorted key_le l ->
    Forall (fun p => fst p == a + inject_Z (Z.of_nat (kappa p)) * s) l -> Sorted le (map kappa l).
  Proof.
    induction 1 as [|x l Sl IH H]; intro F; cbn [map]; constructor.
    - apply IH. now inversion F.
    - inversion F as [|? ? Fx Fl]; subst. destruct H as [|y l Hxy]; cbn [map]; constructor.
      inversion Fl as [|? ? Fy _]; subst. unfold key_le in Hxy.
      apply (inject_nat_le _ _ a s S). lra.
  Qed.

  Lemma kappa_tag : map kappa (tag ds) = ranks.
  Proof.
    unfold tag. transitivity (map (fun j => nth j ranks 0%nat) (map snd (combine ds (seq 0 (length ds))))).
    - now rewrite map_map.
    - rewrite map_snd_combine' by (now rewrite seq_length). rewrite <- Len. apply map_nth_seq.
  Qed.

  Lemma kappa_sorted_is_seq : map kappa Srt = seq 0 (length ds).
  Proof.
    apply sorted_perm_seq.
    - apply sorted_kappa; [apply isort_sorted|apply srt_forall].
    - rewrite <- Hp, <- kappa_tag. apply Permutation_map, isort_perm.
  Qed.

  (* the sorted distances are the progression a, a+s, a+2s, ... *)
  Lemma prog_of_kappa : forall l k0,
    map kappa l = seq k0 (length l) ->
    Forall (fun p => fst p == a + inject_Z (Z.of_nat (kappa p)) * s) l ->
    is_prog (a + inject_Z (Z.of_nat k0) * s) s (map fst l).
  Proof.
    induction l as [|x l IH]; intros k0 E F; [exact I|].
    cbn [map length seq] in E. injection E as Ex El. inversion F as [|? ? Fx Fl]; subst.
    cbn [map is_prog]. split; [exact Fx|].
    pose proof (IH _ El Fl) as P.
    eapply prog_shift; [|exact P]. rewrite Nat2Z.inj_succ. unfold Z.succ. rewrite inject_Z_plus. ring.
  Qed.

  Lemma srt_length : length Srt = length ds.
  Proof. unfold Srt. rewrite isort_length. unfold tag. rewrite combine_length, seq_length. lia. Qed.

  Lemma sds_prog : is_prog a s (map (nthQ ds) (argsort ds)).
  Proof.
    rewrite sorted_dists_eq. fold Srt.
    eapply prog_shift; [|apply (prog_of_kappa Srt 0%nat)].
    - change (inject_Z (Z.of_nat 0)) with 0. ring.
    - rewrite srt_length. apply kappa_sorted_is_seq.
    - apply srt_forall.
  Qed.

  Lemma argsort_length : length (argsort ds) = length ds.
  Proof. unfold argsort. rewrite map_length. apply srt_length. Qed.

  Lemma rank_at_sorted i : (i < length ds)%nat -> nth (nth i (argsort ds) 0%nat) ranks 0%nat = i.
  Proof.
    intro L. pose proof kappa_sorted_is_seq as K.
    assert (E : map kappa Srt = map (fun j => nth j ranks 0%nat) (argsort ds)).
    { unfold argsort. fold Srt. now rewrite map_map. }
    rewrite E in K.
    assert (N : nth i (map (fun j => nth j ranks 0%nat) (argsort ds)) (nth 0 ranks 0)%nat = i).
    { rewrite K. rewrite (nth_indep _ _ 0%nat) by (rewrite seq_length; lia). rewrite seq_nth by lia. lia. }
    rewrite (map_nth (fun j => nth j ranks 0%nat)) in N. exact N.
  Qed.
End Ranks.


Lemma pos_of_nth j l : In j l -> nth (pos_of j l) l 0%nat = j /\ (pos_of j l < length l)%nat.
Proof.
  induction l as [|x l IH]; intro H; [contradiction|]. cbn [pos_of].
  destruct (Nat.eqb x j) eqn:E.
  - apply Nat.eqb_eq in E. cbn. split; [exact E|lia].
  - apply Nat.eqb_neq in E. destruct H as [H|H]; [contradiction|]. destruct (IH H) as [H1 H2].
    cbn [nth length]. split; [exact H1|lia].
Qed.

Lemma inverse_is_ranks a s ranks ds : 0 < s -> length ranks = length ds ->
  (forall j, (j < length ds)%nat -> nthQ ds j == a + inject_Z (Z.of_nat (nth j ranks 0%nat)) * s) ->
  Permutation ranks (seq 0 (length ds)) ->
  inverse_perm (argsort ds) = ranks.
Proof.
  intros S Len Hd Hp. unfold inverse_perm. rewrite (argsort_length ranks ds Len).
  transitivity (map (fun j => nth j ranks 0%nat) (seq 0 (length ranks))); [|apply map_nth_seq].
  rewrite Len. apply map_ext_in. intros j Hj.
  apply in_seq in Hj.
  assert (I : In j (argsort ds)).
  { eapply Permutation_in; [symmetry; apply argsort_perm|]. apply in_seq. lia. }
  destruct (pos_of_nth j _ I) as [E L]. rewrite (argsort_length ranks ds Len) in L.
  pose proof (rank_at_sorted a s ranks ds S Len Hd Hp _ L) as R. rewrite E in R. now symmetry.
Qed.


Lemma hd_nth_nat (l : list nat) : hd 0%nat l = nth 0 l 0%nat.
Proof. destruct l; reflexivity. Qed.
Lemma last_nth_nat (l : list nat) : last l 0%nat = nth (length l - 1) l 0%nat.
Proof.
  induction l as [|x l IH]; [reflexivity|]. destruct l as [|y l]; [reflexivity|].
  change (last (x :: y :: l) 0%nat) with (last (y :: l) 0%nat). rewrite IH. cbn [length].
  replace (S (S (length l)) - 1)%nat with (S (S (length l) - 1)) by lia. reflexivity.
Qed.
Lemma nthQ_map_dot' nv uniq j : (j < length uniq)%nat -> nthQ (map (dot nv) uniq) j = dot nv (nthV uniq j).
Proof.
  intro H. unfold nthQ, nthV. rewrite (nth_indep _ 0 (dot nv (V3 0 0 0))) by (rewrite map_length; lia).
  now rewrite map_nth.
Qed.

(* sort = True, unique positions in ANY order: index of a plane = rank of its distance *)
Lemma core_sorted_any : forall uniq uidx nv rtol atol enforce a s ranks,
  (2 <= length uniq)%nat -> 0 < s -> length ranks = length uniq ->
  (forall j, (j < length uniq)%nat ->
     dot nv (nthV uniq j) == a + inject_Z (Z.of_nat (nth j ranks 0%nat)) * s) ->
  Permutation ranks (seq 0 (length uniq)) ->
  0 <= rtol -> 0 <= atol ->
  (forall j0 j1, (j0 < length uniq)%nat -> (j1 < length uniq)%nat ->
     nth j0 ranks 0%nat = 0%nat -> nth j1 ranks 0%nat = (length uniq - 1)%nat ->
     is_perp nv (vsub (nthV uniq j1) (nthV uniq j0)) = true) ->
  exists sp, sp == s /\
    gvp_core uniq uidx nv rtol atol true false enforce None =
      Ok (Some (sp, map (fun u => nth u (map Z.of_nat ranks) 0%Z) uidx)).
Proof.
  intros uniq uidx nv rtol atol enforce a s ranks M S Len Hd Hp Hr Ha Perp.
  unfold gvp_core. cbn [negb].
  set (ds := map (dot nv) uniq). set (m := length uniq) in *.
  assert (Lds : length ds = m) by (unfold ds; apply map_length).
  assert (Len' : length ranks = length ds) by lia.
  assert (Hd' : forall j, (j < length ds)%nat -> nthQ ds j == a + inject_Z (Z.of_nat (nth j ranks 0%nat)) * s).
  { intros j Hj. unfold ds. rewrite nthQ_map_dot' by lia. apply Hd. lia. }
  assert (Hp' : Permutation ranks (seq 0 (length ds))) by (now rewrite Lds).
  pose proof (sds_prog a s ranks ds S Len' Hd' Hp') as P.
  pose proof (argsort_length ranks ds Len') as LA.
  set (sidx := argsort ds) in *. set (sds := map (nthQ ds) sidx) in *.
  assert (Lsds : length sds = m) by (unfold sds; rewrite map_length; lia).
  set (sp := (last sds 0 - hd 0 sds) / inject_Z (Z.of_nat (m - 1))).
  assert (Esp : sp == s).
  { unfold sp. apply (mean_spacing a); [exact M| apply (prog_hd a s); [exact P|lia] |].
    rewrite <- Lsds. apply prog_last; [exact P|lia]. }
  rewrite (forallb_close rtol atol sp s (diffs sds) Hr Ha Esp (prog_diffs _ _ _ P)).
  rewrite (Qlt_b_ext sp s Esp), (Qlt_b_pos_false s S), andb_false_r. cbn [andb].
  rewrite hd_nth_nat, last_nth_nat, LA, Lds.
  assert (In0 : forall i, (i < m)%nat -> (nth i sidx 0 < m)%nat).
  { intros i Hi. assert (I : In (nth i sidx 0%nat) sidx) by (apply nth_In; lia).
    apply (Permutation_in _ (argsort_perm ds)) in I. apply in_seq in I. lia. }
  rewrite Perp; [| apply In0; lia | apply In0; lia | | ].
  - pose proof (inverse_is_ranks a s ranks ds S Len' Hd' Hp') as IR. fold sidx in IR. rewrite IR.
    exists (Qabs_ sp). split; [rewrite Qabs_pos; lra|reflexivity].
  - unfold sidx. rewrite (rank_at_sorted a s ranks ds S Len' Hd' Hp') by lia. reflexivity.
  - unfold sidx. rewrite (rank_at_sorted a s ranks ds S Len' Hd' Hp') by lia. reflexivity.
Qed.
